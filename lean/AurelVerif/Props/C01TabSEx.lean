/-
Props/C01TabSEx.lean — property C01, extension round 7: NON-VACUITY of the on-shell hypotheses of Props/C01TabS.lean
(`InputsOK`, `ShellHyp`, `HardCoh1`) at the KASNER point `C04.exKas` of Props/C04b.lean / Props/C01CoherenceC.lean
(vacuum solution with non-zero Riemann tensor, zero operator `D`; `vacuum = False` with κ = 1, Λ = 0 (`PK`) and `vacuum = True`
(`PKV`), and a fluid of zero density and pressure, so that the denotation of `Tdown4` is COMPUTED — `'Tdown4' in self.data`
has both outcomes along histories — and vanishes).

Input dictionary `inpK`: lapse 1, `dtalpha = 0`, the shift and `dtbetaup3` as zero vectors, `gammadown3` (identity) and
`Kdown3 = diag(−2/3, −2/3, 1/3)` as tensors, `press = 0`, `rho = 0`, and the (vanishing, since `D = 0`) `s_Gamma_udd3`,
`s_Riemann_down3` — none of them is one of the names whose consistency `InputsOK` / `ShellHyp` ask for; the 4-curvature,
`Tdown4`, `Ttrace`, the 4-metric are COMPUTED by the bodies (`k_T`, `k_g4`).  The jet assembled
from the denotations IS the jet of `C04.exKas` (`jetK`), so `CurvHyp` and Ricci-flatness are those proven there
(`C04.exKas_hyp`, `C01Coherence.exKas_ricci_full`).
-/
import AurelVerif.Props.C01TabS

set_option linter.unusedSectionVars false
set_option linter.unusedSimpArgs false
set_option linter.unusedVariables false

namespace AurelVerif.C01Tab
open AurelVerif.Cache AurelVerif.Cache.Dict AurelVerif.CacheGet AurelVerif.Gen.Core AurelVerif.Tensor AurelVerif.CoreTac
open AurelVerif.Gen.C01Table AurelVerif.Gen.DepGraph
open AurelVerif.C01 (IsInput shapeOf rankOf)
open AurelVerif.C04L (CurvHyp MainardiCached TimeJet2 jetCOf jetOf)
open AurelVerif.C01Coherence (OnShell ricciOf RicciChain)

/-- a body all of whose return sites give the same value is coherent (used for `HardCoh1` with constant `rest`). -/
theorem cohM_const {κ ν : Type} [DecidableEq κ] (T : Table κ ν) (den : κ → ν) (F : κ → Prop) (c : ν) (k0 : κ)
    (hc : ∀ i vs, T.leaf k0 i vs = c) : ∀ (sh : Shape κ) (vs : List ν), CohM T den F c k0 sh vs := by
  intro sh
  induction sh with
  | ret i => intro vs; exact hc i vs
  | fail => intro vs; trivial
  | read k n ih => intro vs; exact ih _
  | peek k n ih => intro vs; exact ih _
  | rep cnt ks n ih => intro vs; exact ih _
  | test g t e iht ihe => intro vs; exact ⟨fun _ => iht vs, fun _ => ihe vs⟩

theorem evalShape_const {κ ν : Type} [DecidableEq κ] (T : Table κ ν) (d : κ → ν) (P : κ → Bool) (c : ν) (k0 : κ)
    (hc : ∀ i vs, T.leaf k0 i vs = c) : ∀ (sh : Shape κ) (vs : List ν), evalShape T d P c k0 sh vs = c := by
  intro sh
  induction sh with
  | ret i => intro vs; exact hc i vs
  | fail => intro vs; rfl
  | read k n ih => intro vs; exact ih _
  | peek k n ih => intro vs; exact ih _
  | rep cnt ks n ih => intro vs; exact ih _
  | test g t e iht ihe =>
    intro vs
    unfold evalShape
    split
    · exact iht vs
    · exact ihe vs

/-- κ = 1, Λ = 0, zero operator, option valuation `fl`; the return sites that are not generated return the constant `0`. -/
def PKf (fl : String → Bool) : Params ℚ :=
  { base := { (Env.zero : Env ℚ) with kappa := 1 }, rest := fun _ _ _ => .s 0, flag := fl, count := fun _ => 1 }

/-- `vacuum = False` (all options false) -/
def PK : Params ℚ := PKf fun _ => false
/-- `vacuum = True` (the other options false) -/
def PKV : Params ℚ := PKf fun f => f == "self.vacuum"

theorem kD (fl : String → Bool) : (PKf fl).base.D = fun _ _ => 0 := rfl

def inpK : Dict Nat (Val ℚ) :=
  [(0, .s 1), (1, .s 0), (6, .v3 (fun _ => 0)), (10, .v3 (fun _ => 0)),
    (21, .t33 (vec3 (vec3 1 0 0) (vec3 0 1 0) (vec3 0 0 1))),
    (46, .t33 (vec3 (vec3 (-2/3) 0 0) (vec3 0 (-2/3) 0) (vec3 0 0 (1/3)))),
    (59, .s 0), (61, .s 0), (113, .t333 (fun _ _ _ => 0)), (115, .t3333 (fun _ _ _ _ => 0))]

section kasner
variable (fl : String → Bool) (excl : List Nat)

local notation "PK" => PKf fl
local notation "EK" => E (PKf fl) excl inpK

theorem k_alpha : (EK).alpha = 1 := by
  show (den PK excl inpK 0).toS = 1
  rw [den_inputs PK excl inpK 0 _ rfl]; rfl

theorem k_dta : (EK).dtalpha = 0 := by
  show (den PK excl inpK 1).toS = 0
  rw [den_inputs PK excl inpK 1 _ rfl]; rfl

theorem k_beta : (EK).betaup3 = fun _ => 0 := by
  show (den PK excl inpK 6).toV3 = _
  rw [den_inputs PK excl inpK 6 _ rfl]; rfl

theorem k_dtb : (EK).dtbetaup3 = fun _ => 0 := by
  show (den PK excl inpK 10).toV3 = _
  rw [den_inputs PK excl inpK 10 _ rfl]; rfl

theorem k_gam : (EK).gammadown3 = vec3 (vec3 1 0 0) (vec3 0 1 0) (vec3 0 0 1) := by
  show (den PK excl inpK 21).toT33 = _
  rw [den_inputs PK excl inpK 21 _ rfl]; rfl

theorem k_K : (EK).Kdown3 = vec3 (vec3 (-2/3) 0 0) (vec3 0 (-2/3) 0) (vec3 0 0 (1/3)) := by
  show (den PK excl inpK 46).toT33 = _
  rw [den_inputs PK excl inpK 46 _ rfl]; rfl

theorem k_G3 : (EK).s_Gamma_udd3 = fun _ _ _ => 0 := by
  show (den PK excl inpK 113).toT333 = _
  rw [den_inputs PK excl inpK 113 _ rfl]; rfl

theorem k_R3 : (EK).s_Riemann_down3 = fun _ _ _ _ => 0 := by
  show (den PK excl inpK 115).toT3333 = _
  rw [den_inputs PK excl inpK 115 _ rfl]; rfl

theorem k_rho : (EK).rho = 0 := by
  show (den PK excl inpK 61).toS = 0
  rw [den_inputs PK excl inpK 61 _ rfl]; rfl

theorem k_press : (EK).press = 0 := by
  show (den PK excl inpK 59).toS = 0
  rw [den_inputs PK excl inpK 59 _ rfl]; rfl

theorem k_sym : C08.Sym (den PK excl inpK 21).toT33 := by
  rw [den_inputs PK excl inpK 21 _ rfl]
  intro i j; revert i j
  cases3 <;> cases3 <;> rfl

theorem k_metric : MetricCons PK excl inpK :=
  ⟨cons_of_absent PK excl inpK 27 rfl, cons_of_absent PK excl inpK 12 rfl, cons_of_absent PK excl inpK 11 rfl,
    cons_of_absent PK excl inpK 24 rfl, k_sym fl excl⟩

theorem k_det : gammadet (EK) = 1 := by
  simp only [core_unfold, k_gam fl excl]
  norm_num

variable (h33 : NotExcl excl cone33) (h82 : NotExcl excl cone82) (h116 : NotExcl excl cone116)
  (h80 : NotExcl excl [80])
include h33 h82 h116 h80

theorem k_asm : C08.Assembled (EK) := assembled_E PK excl inpK h33 (k_metric fl excl) rfl

theorem k_inputs : InputsOK PK excl inpK := by
  refine inputsOK_of_absent PK excl inpK h33 h82 h116 ?_ (k_sym fl excl) ?_ ?_ (by norm_num)
  · intro k hk
    simp only [List.contains_eq_mem, List.mem_cons, List.not_mem_nil, or_false, decide_eq_true_eq] at hk
    rcases hk with rfl | rfl | rfl | rfl | rfl | rfl | rfl | rfl | rfl | rfl | rfl | rfl | rfl | rfl | rfl <;> rfl
  · rw [den_inputs PK excl inpK 0 (.s 1) rfl]
    show (1 : ℚ) ≠ 0
    norm_num
  · rw [k_det fl excl]; norm_num

theorem k_gamup : (EK).gammaup3 = vec3 (vec3 1 0 0) (vec3 0 1 0) (vec3 0 0 1) := by
  rw [gammaup3_E PK excl inpK h82 (by decide) (cons_of_absent PK excl inpK 22 rfl)]
  funext i j; revert i j
  cases3 <;> cases3 <;> (simp only [core_unfold, k_gam fl excl]; norm_num)

/-- the jet assembled from the denotations is the jet of the Kasner point. -/
theorem jetK : jetOf (EK) = jetOf C04.exKas := by
  unfold jetOf
  rw [k_alpha fl excl, k_beta fl excl, k_gam fl excl, k_gamup fl excl h33 h82 h116 h80, k_K fl excl, k_G3 fl excl, k_dta fl excl, k_dtb fl excl]
  rfl

theorem jetCK : jetCOf (EK) C04.exKasT = jetCOf C04.exKas C04.exKasT := by
  unfold jetCOf
  rw [jetK fl excl h33 h82 h116 h80, k_alpha fl excl, k_beta fl excl, k_gam fl excl, k_K fl excl]
  rfl

theorem k_g4 : (EK).gdown4 = vec4 (vec4 (-1) 0 0 0) (vec4 0 1 0 0) (vec4 0 0 1 0) (vec4 0 0 0 1) := by
  have A := k_asm fl excl h33 h82 h116 h80
  rw [A.hg4]
  funext a b; revert a b
  cases4 <;> cases4 <;>
    (simp only [core_unfold, A.hgtt, A.hbm, A.hbd, k_alpha fl excl, k_beta fl excl, k_gam fl excl]; try norm_num)

theorem k_gup4 : gup4 (EK) = gup4 C04.exKas :=
  C01Loc.loc_gup4 _ _ (k_g4 fl excl h33 h82 h116 h80)

theorem k_ricci (a b : Fin 4) : ricciOf (EK) C04.exKasT a b = 0 := by
  unfold ricciOf
  rw [k_gup4 fl excl h33 h82 h116 h80, jetCK fl excl h33 h82 h116 h80]
  exact C01Coherence.exKas_ricci_full a b

/-- the denotation of `Tdown4`, computed from the fluid variables, vanishes. -/
theorem k_T (a b : Fin 4) : (EK).Tdown4 a b = 0 := by
  have e80 := den_unfold PK excl inpK 80 _ rfl (shpX PK excl h80 80 _ (by decide) rfl)
  have h : (EK).Tdown4 = Tdown4 (EK) := by
    show (den PK excl inpK 80).toT44 = _
    rw [e80]
    show Tdown4 (envOf PK.base _) = _
    funext a b; revert a b
    cases4 <;> cases4 <;> (simp only [core_unfold]; rfl)
  rw [h]
  revert a b
  cases4 <;> cases4 <;> (simp only [core_unfold, k_rho fl excl, k_press fl excl]; norm_num)

theorem k_curv : CurvHyp (EK) C04.exKasT := by
  have H := C04.exKas_hyp
  refine ⟨k_asm fl excl h33 h82 h116 h80, gammadet_E PK excl inpK h33 (k_metric fl excl), ?_, ?_, fun i j x => rfl, H.symT, ?_⟩
  · rw [k_det fl excl]; norm_num
  · rw [jetK fl excl h33 h82 h116 h80]; exact H.lc
  · intro a b c d
    rw [jetCK fl excl h33 h82 h116 h80, ← H.riem3 a b c d, k_R3 fl excl]
    rfl

theorem k_onshell : OnShell (EK) C04.exKasT := by
  intro a b
  have h0 := k_ricci fl excl h33 h82 h116 h80
  have hT := k_T fl excl h33 h82 h116 h80 a b
  have hL : (EK).Lambda = 0 := rfl
  simp only [Spec.Curvature.einstein, Spec.Curvature.trace, h0, hT, hL, mul_zero, Finset.sum_const_zero, zero_mul,
    sub_self, add_zero]

/-- `vacuum = False`: on shell with κ = 1, `T = 0`, Λ = 0. -/
theorem k_shell (hv : fl "self.vacuum" = false) : ShellHyp PK excl inpK C04.exKasT :=
  ⟨k_curv fl excl h33 h82 h116 h80, Or.inl ⟨hv, k_onshell fl excl h33 h82 h116 h80⟩,
    cons_of_absent PK excl inpK 48 rfl, cons_of_absent PK excl inpK 82 rfl, cons_of_absent PK excl inpK 116 rfl,
    cons_of_absent PK excl inpK 119 rfl, cons_of_absent PK excl inpK 120 rfl, cons_of_absent PK excl inpK 123 rfl⟩

/-- `vacuum = True`: Ricci-flat, `Tdown4 = 0`, Λ = 0. -/
theorem k_shell_vacuum (hv : fl "self.vacuum" = true) : ShellHyp PK excl inpK C04.exKasT :=
  ⟨k_curv fl excl h33 h82 h116 h80,
    Or.inr ⟨hv, k_ricci fl excl h33 h82 h116 h80, k_T fl excl h33 h82 h116 h80, rfl⟩,
    cons_of_absent PK excl inpK 48 rfl, cons_of_absent PK excl inpK 82 rfl, cons_of_absent PK excl inpK 116 rfl,
    cons_of_absent PK excl inpK 119 rfl, cons_of_absent PK excl inpK 120 rfl, cons_of_absent PK excl inpK 123 rfl⟩

end kasner

theorem notExcl155 (L : List Nat) (h : L.all (fun k => !excl155.contains k) = true) : NotExcl excl155 L :=
  notExcl_of_all h

/-- the hypotheses of `sub155_transparent_onshell` hold at the Kasner point (non-zero curvature: `C04.exKas_stst`), with
`vacuum = False` … -/
example : InputsOK PK excl155 inpK ∧ ShellHyp PK excl155 inpK C04.exKasT :=
  ⟨k_inputs _ excl155 (notExcl_of_all (by decide +kernel)) (notExcl_of_all (by decide +kernel))
      (notExcl_of_all (by decide +kernel)) (notExcl_of_all (by decide +kernel)),
    k_shell _ excl155 (notExcl_of_all (by decide +kernel)) (notExcl_of_all (by decide +kernel))
      (notExcl_of_all (by decide +kernel)) (notExcl_of_all (by decide +kernel)) rfl⟩

/-- … and with `vacuum = True`. -/
example : InputsOK PKV excl155 inpK ∧ ShellHyp PKV excl155 inpK C04.exKasT :=
  ⟨k_inputs _ excl155 (notExcl_of_all (by decide +kernel)) (notExcl_of_all (by decide +kernel))
      (notExcl_of_all (by decide +kernel)) (notExcl_of_all (by decide +kernel)),
    k_shell_vacuum _ excl155 (notExcl_of_all (by decide +kernel)) (notExcl_of_all (by decide +kernel))
      (notExcl_of_all (by decide +kernel)) (notExcl_of_all (by decide +kernel)) (by decide)⟩

/-- `HardCoh1` is satisfiable (here: the return sites of `st_Weyl_down4`, which are the parameter `rest`, are constant). -/
theorem k_hard1 (fl : String → Bool) : HardCoh1 (PKf fl) [] inpK := by
  intro sh hi hs
  have hc : ∀ i vs, (TTab (PKf fl) []).leaf 133 i vs = .s 0 := fun _ _ => rfl
  rw [den_unfold (PKf fl) [] inpK 133 sh hi hs, evalShape_const _ _ _ _ _ hc]
  exact cohM_const _ _ _ _ _ hc sh []

/-- the hypotheses of `tab_transparent_onshell_partial` hold at the Kasner point (`vacuum = False` and `vacuum = True`). -/
example : (InputsOK PK [] inpK ∧ ShellHyp PK [] inpK C04.exKasT ∧ HardCoh1 PK [] inpK)
    ∧ (InputsOK PKV [] inpK ∧ ShellHyp PKV [] inpK C04.exKasT ∧ HardCoh1 PKV [] inpK) :=
  ⟨⟨k_inputs _ [] (fun _ _ => rfl) (fun _ _ => rfl) (fun _ _ => rfl) (fun _ _ => rfl),
      k_shell _ [] (fun _ _ => rfl) (fun _ _ => rfl) (fun _ _ => rfl) (fun _ _ => rfl) rfl, k_hard1 _⟩,
    ⟨k_inputs _ [] (fun _ _ => rfl) (fun _ _ => rfl) (fun _ _ => rfl) (fun _ _ => rfl),
      k_shell_vacuum _ [] (fun _ _ => rfl) (fun _ _ => rfl) (fun _ _ => rfl) (fun _ _ => rfl) (by decide), k_hard1 _⟩⟩

/-- both outcomes of `'Tdown4' in self.data` (body of `st_Ricci_down4`) and of `'st_Ricci_down4' in self.data` (body of
`st_Ricci_down3`) occur along histories at `inpK`: neither name is supplied (nor is `st_Riemann_down4`). -/
example : get? inpK 80 = none ∧ get? inpK 122 = none ∧ get? inpK 123 = none ∧ get? inpK 120 = none :=
  ⟨rfl, rfl, rfl, rfl⟩

end AurelVerif.C01Tab
