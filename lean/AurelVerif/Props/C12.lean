/-
Props/C12.lean — property theorems for C12 (the per-iteration read cache never
changes what read_data returns).  ONLY property statements and non-vacuity
examples; proofs are in Lemmas/ReadCache.lean.

Model: Model/ReadCache.lean (hand-written; tied to `aurel.read_data` by the
read-history correspondence of tools/props/C12.py).  `src` is the abstract
uncached read (what C11 establishes), `ofIt n` the content of an `it` dataset.
-/
import AurelVerif.Lemmas.ReadCache

namespace AurelVerif.C12
open AurelVerif.Chunks AurelVerif.ReadCache AurelVerif.ReadCacheLemmas

/-- **T1 (one call)** `cache_refines_source`: if every dataset of the cache
equals the source at the (restart, iteration, name, level) it is filed under,
then so does every dataset after ANY `read_data` call (any iterations,
variables, tensor or component names, level, restart argument, layout,
`split_per_it` on or off). -/
theorem cache_refines_source {β : Type} (src : DKey → β) (ofIt : Nat → β) (avail : List Avail) (grouped : Bool)
    (req : List (List Nat)) (its : List Nat) (rl : Nat) (restart : Option Nat) (split : Bool)
    (store : Store β) (rows : List (Row β)) (store' : Store β) (hI : Inv src ofIt store)
    (h : readData src ofIt avail grouped req its rl restart split store = some (rows, store')) :
    Inv src ofIt store' :=
  readData_inv src ofIt avail grouped req its rl restart split store rows store' hI h

/-- **T1 (histories)** starting from the empty cache, after EVERY call of EVERY
finite history of reads, every dataset ever written holds the data of the
variable, iteration, level and restart it is filed under. -/
theorem cache_history {β : Type} (src : DKey → β) (ofIt : Nat → β) (hist : List Call) :
    ∀ s ∈ cachesOf src ofIt [] hist, Inv src ofIt s :=
  history_inv src ofIt hist [] (inv_empty src ofIt)

/-- **T1 (returned values, histories)** for EVERY finite history of reads
starting from the empty cache, EVERY call that returns, returns for EVERY
requested name (scalar components of the requested tensors, and the time) at
EVERY returned row exactly the source at (restart of the row, iteration of the
row, name, requested level) — whatever the earlier calls left in the cache —
and no requested name is absent from a row. -/
theorem returned_cells {β : Type} (src : DKey → β) (ofIt : Nat → β) (hist : List Call) :
    ∀ sc ∈ cachesBefore src ofIt [] hist, sc.2.req.flatten ≠ [] →
      ∀ rows store', readData src ofIt sc.2.avail sc.2.grouped sc.2.req sc.2.its sc.2.rl sc.2.restart
          sc.2.split sc.1 = some (rows, store') →
        ∀ row ∈ rows, (∀ c ∈ row.2.2, c.2 = some (src ⟨row.2.1, row.1, c.1, sc.2.rl⟩)) ∧
          (∀ n ∈ sc.2.req.flatten.map DName.var ++ [DName.t], n ∈ row.2.2.map Prod.fst) :=
  fun sc hsc hreq rows store' h =>
    readData_cells src ofIt sc.2.avail sc.2.grouped sc.2.req hreq sc.2.its sc.2.rl sc.2.restart sc.2.split sc.1
      rows store' (history_before_ginv src ofIt hist [] (ginv_empty src ofIt) sc hsc) h

/-- **T1 (returned values, one call)** the same for one call on any cache that
satisfies the invariant (contents equal the source; a file that holds a
variable at a level also holds the time at that level). -/
theorem returned_cells_one_call {β : Type} (src : DKey → β) (ofIt : Nat → β) (avail : List Avail) (grouped : Bool)
    (req : List (List Nat)) (hreq : req.flatten ≠ []) (its : List Nat) (rl : Nat) (restart : Option Nat)
    (split : Bool) (store : Store β) (rows : List (Row β)) (store' : Store β) (hG : GInv src ofIt store)
    (h : readData src ofIt avail grouped req its rl restart split store = some (rows, store')) :
    GInv src ofIt store' ∧ ∀ row ∈ rows, (∀ c ∈ row.2.2, c.2 = some (src ⟨row.2.1, row.1, c.1, rl⟩)) ∧
      (∀ n ∈ req.flatten.map DName.var ++ [DName.t], n ∈ row.2.2.map Prod.fst) :=
  ⟨readData_ginv src ofIt avail grouped req its rl restart split store rows store' hG h,
   readData_cells src ofIt avail grouped req hreq its rl restart split store rows store' hG h⟩

/-- **T1 (no exception from the cache logic)** on a cache with the invariant
(in particular at every point of a history that started empty) a call returns
as soon as some catalogued restart holds one of the requested iterations:
`save_data`'s `list.index` always finds the iteration and no index is out of
range. -/
theorem read_returns {β : Type} (src : DKey → β) (ofIt : Nat → β) (avail : List Avail) (grouped : Bool)
    (req : List (List Nat)) (its : List Nat) (rl : Nat) (restart : Option Nat) (split : Bool)
    (store : Store β) (hG : GInv src ofIt store) (hfound : ∃ rt ∈ todoOf avail restart its, rt.2 ≠ []) :
    ∃ r, readData src ofIt avail grouped req its rl restart split store = some r :=
  readData_total src ofIt avail grouped req its rl restart split store hG hfound

/-- **T3** `returned_structure`: with `restart = -1` the rows are exactly the
rows of the uncached read (C11 `read_order_complete`: the sorted requested
iterations, each from its latest restart), cached or not. -/
theorem returned_structure {β : Type} (src : DKey → β) (ofIt : Nat → β) (avail : List Avail) (grouped : Bool)
    (req : List (List Nat)) (its : List Nat) (rl : Nat) (split : Bool) (store : Store β)
    (rows : List (Row β)) (store' : Store β)
    (h : readData src ofIt avail grouped req its rl none split store = some (rows, store')) :
    rows.map (fun r => (r.1, r.2.1)) = readOrder avail its :=
  readData_rows src ofIt avail grouped req its rl split store rows store' h

/-- the mechanism that was wrong before the fix: `save_data(data_temp, it=S,
vars=[av])` files under each iteration of `S` the entry at the POSITION OF THAT
ITERATION in `data_temp['it']` (not at its position in `S`). -/
theorem save_files_right_iteration {β : Type} (src : DKey → β) (ofIt : Nat → β) (R rl : Nat) (tmpIts : List Nat)
    (av : DName) (hav : av ≠ DName.it) (itsSave : List Nat) (store store' : Store β) (hI : Inv src ofIt store)
    (h : saveData ofIt store R rl tmpIts (fetch src R rl tmpIts) av itsSave = some store') :
    Inv src ofIt store' :=
  saveData_inv src ofIt R rl tmpIts av hav itsSave store store' hI h

/-- `np.argmin(|data_temp['it'] - iit|)` is a position of `iit` whenever `iit`
was read: the "nearest" iteration is the iteration itself. -/
theorem nearest_exact (l : List Nat) (x : Nat) (h : x ∈ l) : l[nearestIdx l x]? = some x :=
  nearest_exact_lemma l x h

/-! Non-vacuity: the history that failed before the fix (one component cached
at iteration 10, then the tensor at [10, 20]) on the model: the second call
files iteration 20 under it_20 and returns the source everywhere. -/
example :
    (readData (fun k => (k.it, match k.name with | .var v => v | _ => 0)) (fun i => (i, 99))
      [(0, 0, 40)] false [[1, 2]] [10, 20] 0 none true
      (afterCall (fun k => (k.it, match k.name with | .var v => v | _ => 0)) (fun i => (i, 99)) []
        ⟨[(0, 0, 40)], false, [[1]], [10], 0, none, true⟩)).map (fun r => r.2.get? ⟨0, 20, .var 1, 0⟩)
      = some (some (20, 1)) := by decide +kernel

/-- the invariant is satisfiable and the hypotheses of `read_returns` are met by the example history -/
example : GInv (fun k : DKey => (k.it, 0)) (fun i => (i, 99)) [] := ginv_empty _ _
example : ∃ rt ∈ todoOf [(0, 0, 40), (1, 20, 60)] none [30, 10], rt.2 ≠ [] :=
  ⟨(1, [30]), by decide +kernel, by simp⟩

end AurelVerif.C12
