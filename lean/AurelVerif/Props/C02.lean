/-
Props/C02.lean — property theorems for C02 about the code as it is NOW.
The program-independent theorems (T1 `check_sound`, T1' `returned_allocated`,
T1c `check_sound_containers`, T1n `check_sound_helpers`, T3 `history_sound`)
are stated in Props/C02Core.lean, imported here.

Gen/AliasIR.lean is regenerated from the ASTs of core.py, maths.py,
finitedifference.py, numerical.py, time.py, reading.py on every run;
Gen/AliasSumm.lean is the summary table found by the (untrusted) compiled
analysis; Gen/AliasChk*.lean + Gen/AliasCheck.lean: the kernel decides
`checkWith program summaries = true`.
-/
import AurelVerif.Props.C02Core
import AurelVerif.Gen.AliasCheck

namespace AurelVerif.C02
open AurelVerif.Heap

/-- **D2** `aurel_alias_ok`: the alias IR generated from the current source passes the check
(kernel-decided in chunks, Gen/AliasChk*.lean). -/
theorem aurel_alias_ok :
    checkWith AurelVerif.Gen.AliasIR.program AurelVerif.Gen.AliasIR.summaries = true :=
  AurelVerif.Gen.AliasIR.program_checked

/-- T3 for the code as it is now. -/
theorem aurel_history_sound (pre post : List Step) (h₀ hm h' : Heap)
    (hpub : publicOnly AurelVerif.Gen.AliasIR.program post)
    (hpre : run AurelVerif.Gen.AliasIR.program h₀ pre = some hm)
    (hpost : run AurelVerif.Gen.AliasIR.program hm post = some h') :
    ∀ r, r < hm.next → h'.aver r = hm.aver r :=
  history_sound_lemma _ _ aurel_alias_ok pre post h₀ hm h' hpub hpre hpost

example : AurelVerif.Gen.AliasIR.program.fns.length = AurelVerif.Gen.AliasIR.summaries.length := by
  decide +kernel

end AurelVerif.C02
