/-
Props/C20c.lean — third part of the property theorems for C20: the statements
of Props/C20b.lean WITHOUT any bound on spin and degree, and the convergence of
the round trip with the angular resolution.  ONLY property statements and
non-vacuity examples; proofs in Lemmas/C20JacobiInteg, C20JacobiPoly, C20Jacobi,
C20JacobiAll (orthonormality for all integers: algebraic integration by parts in
ℚ[X] on the Rodrigues form of the code's sum, Vandermonde, the symmetries
(s,m) → (−s,−m) and s ↔ m), Lemmas/C20Midpoint, C20MidpointHarm (composite
midpoint rule, explicit second-derivative bound), Lemmas/C20QuadAll.

  T18 orthonormality over the sphere for ALL integers s, l, m, l', m'
      (supersedes the table of T9, which stays as an independent kernel check)
  T19 the two integer identities behind it (`thetaGramZ`), all integers
  T20 discrete Gram matrix on the grid of `Psi4_lm` = identity + δ_{mm'}·thetaDefect,
      all spins and degrees, and ‖·‖ ≤ `defectBound` = O(1/(Ntheta+1)²), explicit
  T21 round trip `sYlm_coefficients ∘ sYlm_reconstruct`, all spins, any lmax ≤ Ntheta:
      closed form of the defect, explicit error bound, convergence to the
      identity (on the modes l ≥ |s|) as Ntheta → ∞
  T22 the composite midpoint rule: |Σ g(mid)·h − ∫ g| ≤ K·M·h³/24 for |g''| ≤ K

NOT covered: the constant `Kθ` of `defectBound` is rigorous but crude for large l
(triangle inequality over the coefficient pairs); the convergence of
`rel['Psi4_lm']` itself also involves the spatial interpolation error of
non-trilinear fields, which is not bounded here (T17 gives exactness on
trilinear fields only) — see Props/C20d.lean (T23–T31) for the interpolation
error bound and the extraction end to end; IEEE round-off is not modelled.
-/
import AurelVerif.Props.C20b
import AurelVerif.Lemmas.C20QuadAll

namespace AurelVerif.C20
open AurelVerif.Harm AurelVerif.HarmLemmas AurelVerif.HarmGram Complex
open scoped Real ComplexConjugate

/-- **T18** ORTHONORMALITY of the spin-weighted harmonics over the sphere, for ALL
integers `s, l, m, l', m'` (no table, no bound): the inner product
`∫_0^π∫_0^{2π} conj(ₛY_lm) ₛY_l'm' sin θ dφ dθ` of the values `maths.sYlm` computes is
`1` if `(l, m) = (l', m')` is an admissible mode (`|s| ≤ l`, `|m| ≤ l`) and `0`
otherwise (in particular for the identically vanishing `l < |s|`, `|m| > l`). -/
theorem orthonormal_all (s l m l' m' : Int) :
    contGram s l m l' m' = if l = l' ∧ m = m' ∧ |s| ≤ l ∧ |m| ≤ l then 1 else 0 :=
  contGram_orthonormal s l m l' m'

/-- **T19** the integer identities behind T18 (the integer `thetaGramZ` of T8), for
all integers: orthogonality in `l`, and the norm
`Z·(l+m)!·(l−m)!·(2l+1) = (2l+1)!·(l+s)!·(l−s)!`. -/
theorem gram_integer_identities (s l m : Int) :
    (∀ l', l ≠ l' → thetaGramZ s l m l' = 0)
    ∧ (|s| ≤ l → |m| ≤ l →
        thetaGramZ s l m l * ((fact (l + m).toNat : Nat) : Int) * ((fact (l - m).toNat : Nat) : Int) * (2 * l + 1)
          = ((fact (2 * l + 1).toNat : Nat) : Int) * ((fact (l + s).toNat : Nat) : Int)
            * ((fact (l - s).toNat : Nat) : Int)) :=
  ⟨fun l' h => thetaGramZ_orth_all s l m l' h, fun hs hm => thetaGramZ_norm_all s l m hs hm⟩

/-- **T20** the discrete Gram matrix of `sYlm_coefficients` on the grid of `Psi4_lm`
(`Ntheta = N`), for ALL spins and degrees and `|m − m'| ≤ Nφ`: identity on admissible
modes plus the θ-midpoint error on pairs of equal `m`, and that error is at most
`defectBound s N l m l' = √(R/π)√(R'/π)·2π·Kθ·π³/(24·(N+1)²)` with the computable
natural number `Kθ = 2·(Σ_{r,r'}|coef_r coef_r'|)·(l+l'+1)²`. -/
theorem grid_gram_defect_all (s : Int) (N : Nat) (l m l' m' : Int)
    (hd : |m' - m| ≤ ((nPhi N : Nat) : Int)) :
    gridGram s N l m l' m'
        = (if l = l' ∧ m = m' ∧ |s| ≤ l ∧ |m| ≤ l then 1 else 0)
          + (if m = m' then ((thetaDefect s N l m l' : ℝ) : ℂ) else 0)
    ∧ ‖gridGram s N l m l' m' - (if l = l' ∧ m = m' ∧ |s| ≤ l ∧ |m| ≤ l then 1 else 0)‖
        ≤ defectBound s N l m l'
    ∧ |thetaDefect s N l m l'| ≤ defectBound s N l m l'
    ∧ defectBound s N l m l'
        = Real.sqrt (((normRadicand s l m : ℚ) : ℝ) / π) * Real.sqrt (((normRadicand s l' m : ℚ) : ℝ) / π)
          * (2 * π) * (((Kθ s l m l' : ℕ) : ℝ) * π ^ 3 / (24 * ((N + 1 : ℕ) : ℝ) ^ 2)) :=
  ⟨gridGram_defect_all s N l m l' m' hd, gridGram_near_identity_all s N l m l' m' hd,
   thetaDefect_le_defectBound s N l m l', rfl⟩

/-- **T21** decomposition after synthesis on the grid of `Psi4_lm`, for EVERY spin and
every `lmax ≤ Ntheta` (the code has `Ntheta ≥ lmax + 1`), on the concrete index types:
(a) closed form: key `(l, m)` gets `a_{lm}` (`0` if `l < |s|`) `+ Σ_{l'} thetaDefect(l,m,l')·a_{l'm}`;
(b) explicit bound of the deviation, O(1/(Ntheta+1)²);
(c) "decomposing a band-limited field and re-synthesising it returns the field" in
the limit: the deviation tends to 0 as `Ntheta → ∞` (for fixed `lmax` and `a`). -/
theorem roundtrip_converges (s : Int) (lmax : Nat) (a : ModeIdx lmax → ℂ) (i : ModeIdx lmax) :
    (∀ N : Nat, lmax ≤ N →
      coeffs (gridY s lmax N) (gridW N) (recon (gridY s lmax N) a) i
        = (if |s| ≤ i.1.1 then a i else 0)
          + ∑ j, (if i.1.2 = j.1.2 then ((thetaDefect s N i.1.1 i.1.2 j.1.1 : ℝ) : ℂ) else 0) * a j)
    ∧ (∀ N : Nat, lmax ≤ N →
      ‖coeffs (gridY s lmax N) (gridW N) (recon (gridY s lmax N) a) i - (if |s| ≤ i.1.1 then a i else 0)‖
        ≤ ∑ j, (if i.1.2 = j.1.2 then defectBound s N i.1.1 i.1.2 j.1.1 else 0) * ‖a j‖)
    ∧ Filter.Tendsto
        (fun N : ℕ => coeffs (gridY s lmax N) (gridW N) (recon (gridY s lmax N) a) i)
        Filter.atTop (nhds (if |s| ≤ i.1.1 then a i else 0)) :=
  ⟨fun N hN => roundtrip_defect_all s lmax N hN a i, fun N hN => roundtrip_error_bound s lmax N hN a i,
   roundtrip_tendsto s lmax a i⟩

/-- **T22** the composite midpoint rule (the θ rule of `Psi4_lm`) for a twice
differentiable function with `|g''| ≤ K`: `M` cells of width `h` starting at `a`. -/
theorem midpoint_rule (g g' g'' : ℝ → ℝ) (K : ℝ)
    (hg : ∀ x, HasDerivAt g (g' x) x) (hg' : ∀ x, HasDerivAt g' (g'' x) x) (hK : ∀ x, |g'' x| ≤ K)
    (a h : ℝ) (hh : 0 < h) (M : ℕ) :
    |∑ j ∈ Finset.range M, g (a + ((j : ℝ) + 1 / 2) * h) * h - ∫ x in a..(a + M * h), g x|
      ≤ K * M * h ^ 3 / 24 :=
  midpoint_rule_error g g' g'' K hg hg' hK a h hh M

/-! ### non-vacuity -/

/-- T18 beyond every table -/
example : contGram (-2) 25 1 25 1 = 1 ∧ contGram (-2) 25 1 31 1 = 0 ∧ contGram 2 40 (-1) 57 (-1) = 0 := by
  refine ⟨?_, ?_, ?_⟩ <;> (rw [orthonormal_all]; norm_num)
/-- T19 agrees with the executable integer on a case outside `m ≥ |s|` -/
example : thetaGramZ 2 3 (-1) 3 = 1800 ∧ thetaGramZ 2 3 (-1) 5 = 0 := by decide +kernel
/-- the constants of T20 are computable: `Kθ` for `₋₂Y₂₂` with itself and with `₋₂Y₃₂` -/
example : Kθ (-2) 2 2 2 = 50 ∧ Kθ (-2) 2 2 3 = 432 := by decide +kernel
/-- the hypothesis of T20/T21 is met by the code: `|m − m'| ≤ 2·lmax ≤ Nφ`, `lmax ≤ Ntheta` -/
example : |(8 : Int) - (-8)| ≤ ((nPhi (nTheta 4 4 4 8) : Nat) : Int) ∧ 8 ≤ nTheta 4 4 4 8 := by decide
/-- T22: `g = sin`, `K = 1` -/
example (M : ℕ) (hM : 0 < M) :
    |∑ j ∈ Finset.range M, Real.sin (0 + ((j : ℝ) + 1 / 2) * (π / M)) * (π / M)
        - ∫ x in (0 : ℝ)..(0 + M * (π / M)), Real.sin x| ≤ 1 * M * (π / M) ^ 3 / 24 :=
  midpoint_rule Real.sin Real.cos (fun x => -Real.sin x) 1 Real.hasDerivAt_sin Real.hasDerivAt_cos
    (fun x => by rw [abs_neg]; exact Real.abs_sin_le_one x) 0 (π / M)
    (div_pos Real.pi_pos (by exact_mod_cast hM)) M

end AurelVerif.C20
