/-
Props/C11e.lean — C11, fifth part (ONLY property statements and non-vacuity examples; proofs in
Lemmas/C11MultiThornEq.lean, Lemmas/C11MultiThornFuel.lean, Lemmas/C11GroupOrVar.lean).

The code has ONE implementation of `read_ET_checkpoints` / `read_ET_group_or_var`; Model/MultiThorn.lean is its
literal model (request list rewritten while it is iterated over).  The older models — `readCheckpoints` of
Model/Checkpoint.lean, the chunk read `joinChunks (toDict ..)` of Model/Chunks.lean — are its SPECIALISATION to the
ordinary case "no requested name is answered by two datasets of one (iteration, level, component)":

**(1) the old models are the specialisation of the literal one; the exact-read-back theorems transfer**
  `literal_file_loop_is_readFile`        one file: the growing-list loop = `readFile`, filed in order
  `literal_model_specialises`            `readCheckpointsM = readCheckpoints` whenever no candidate list has two
                                         members (raise or not)
  `old_model_read_transfers`             `readCheckpoints .. = some T  →  readCheckpointsM .. = some T`
  `checkpoint_table_exact_literal`, `checkpoint_pipeline_exact_literal`
                                         `checkpoint_table_exact` / `checkpoint_pipeline_exact` of Props/C11c about the
                                         LITERAL model (same hypotheses, same conclusion)
  `group_or_var_is_chunk_read`           `read_ET_group_or_var` (literal model `readGroupOrVar`), ordinary case in the three
                                         regular layouts (one file per process, one file with components c=0..n, one
                                         file without ` c=`): the request list is never rewritten and every column entry
                                         is `fixij (joinChunks (toDict [(iorigin, trimmed block) of the selected datasets,
                                         files outer, components inner]))` — the chunk read of Model/Chunks.lean
  `group_or_var_exact`                   hence T4 (`read_chunks_exact`, Props/C11) holds for the literal model: well-formed
                                         3D output is read back exactly, all files, components, iterations, variables

**(2) the multi-thorn branch over several files, components and iterations**
  `multi_thorn_iteration_read`           one iteration, any number of per-process files: the first file rewrites the
                                         request, the iteration is read as the old model reads it for the REWRITTEN list
  `multi_thorn_table_read`               all iterations: the table is the old model's table for the rewritten list
  `multi_thorn_table_exact`              ... hence, for well-formed checkpoints in ANY layout per iteration with one
                                         component per file (one file without ` c=`, one file per process; joins over
                                         the files, iteration after iteration): each thorn's variable is read back
                                         exactly, in a column named `THORN::var`, one entry per iteration
  `multi_thorn_components_raise`, `multi_thorn_components_call_raises`
                                         where it fails (D4): ONE file holding several components ` c=0..` and a name
                                         shared by two thorns ALWAYS raises (the second look-up runs over all components)

**(3) termination of the growing-list loop**
  `fuel_never_exhausted_checkpoints`, `fuel_never_exhausted_group_or_var`, `none_means_raise`, `more_fuel_same_result`
                                         for files whose dataset names are distinct and whose variable names are no
                                         `THORN::var` names (`NamesOK`: every Cactus file) the fuel of the index loop is
                                         never exhausted: `none` of the model always means "the code raises"
  `loop_without_end_witness`             the hypothesis is needed: a variable called `T1::V1` in thorn `A` next to
                                         `T1::V1`: the list grows for ever (the real code does not return: replayed
                                         with a time limit, see the report)
-/
import AurelVerif.Lemmas.C11MultiThornEq
import AurelVerif.Lemmas.C11MultiThornFuel
import AurelVerif.Lemmas.C11GroupOrVar
import AurelVerif.Props.C11d

namespace AurelVerif.C11
open AurelVerif.Chunks AurelVerif.Checkpoint AurelVerif.CheckpointSpec AurelVerif.CheckpointLemmas
open AurelVerif.Restarts AurelVerif.RestartsLemmas
open AurelVerif.MultiThorn AurelVerif.MultiThornLemmas AurelVerif.MultiThornEq AurelVerif.MultiThornFuel
open AurelVerif.GroupOrVarLemmas

/-! ## (1) the old checkpoint model is the specialisation of the literal one -/

/-- one file in which no requested name has two candidates (`AtMostOneFile`): the literal loop over the growing list
does what `readFile` of Model/Checkpoint.lean does — the same datasets, filed in the same order, the request list
untouched; it raises exactly when `readFile` does -/
theorem literal_file_loop_is_readFile {α : Type} (cmax : CMax) (iit rl : Nat) (st : St α) (f : CFile α)
    (h : AtMostOneFile cmax iit rl st.var f) :
    ckFile cmax iit rl st f = (readFile cmax iit rl st.var f).map (applySel st) :=
  ckFile_le1 cmax iit rl st f h

/-- **the two models agree in the ordinary case**, on every input, raising or not -/
theorem literal_model_specialises {α : Type} (toAurel : String → String) (files : List (CFile α)) (var : List String)
    (its : List Nat) (rl : Nat) (h : ∀ iit ∈ sortedSet its, AtMostOneIt files iit rl var.eraseDups) :
    readCheckpointsM toAurel files var its rl = readCheckpoints toAurel files var its rl :=
  readCheckpointsM_eq toAurel files var its rl h

/-- **transfer**: whatever the old model reads, the literal model reads, with the same result (no hypothesis) -/
theorem old_model_read_transfers {α : Type} (toAurel : String → String) (files : List (CFile α)) (var : List String)
    (its : List Nat) (rl : Nat) (T : Table (Cell α)) (h : readCheckpoints toAurel files var its rl = some T) :
    readCheckpointsM toAurel files var its rl = some T :=
  readCheckpointsM_of_some toAurel files var its rl T h

/-- `checkpoint_table_exact` (Props/C11c) about the literal model -/
theorem checkpoint_table_exact_literal {α : Type} (toAurel : String → String) (files : List (CFile α)) (var : List String)
    (hvar : var ≠ []) (hinj : ∀ a ∈ var, ∀ b ∈ var, toAurel a = toAurel b → a = b)
    (ht : ∀ v ∈ var, toAurel v ≠ "t") (its : List Nat) (hits : its ≠ []) (rl : Nat)
    (A : Nat → String → Arr3 α) (tm : Nat → Nat)
    (hgood : ∀ iit ∈ sortedSet its, GoodItAuto files iit rl var (A iit) (tm iit)) :
    readCheckpointsM toAurel files var its rl
      = some ⟨sortedSet its, ("t", (sortedSet its).map fun i => Cell.t (tm i))
          :: var.eraseDups.map fun v => (toAurel v, (sortedSet its).map fun i => Cell.arr (fixij (A i v)))⟩ :=
  readCheckpointsM_of_some toAurel files var its rl _
    (readCheckpoints_good toAurel files var hvar hinj ht its hits rl A tm hgood)

/-- `checkpoint_pipeline_exact` (Props/C11c) with the literal model as the per-restart reader -/
theorem checkpoint_pipeline_exact_literal {α : Type} (toAurel : String → String) (cats : List Cat)
    (hnd : (cats.map (·.num)).Nodup) (files : Nat → List (CFile α)) (var : List String)
    (hvar : var ≠ []) (hinj : ∀ a ∈ var, ∀ b ∈ var, toAurel a = toAurel b → a = b)
    (ht : ∀ v ∈ var, toAurel v ≠ "t") (rl : Nat)
    (A : Nat → Nat → String → Arr3 α) (tm : Nat → Nat → Nat)
    (hgood : ∀ r it, pick true cats it = some r → GoodItAuto (files r) it rl var (A r it) (tm r it))
    (its : List Nat) :
    readETData true cats none its (fun r l => readCheckpointsM toAurel (files r) var l rl)
      = some ((rowsOf true cats its).map Prod.fst,
              aligned (if rowsOf true cats its = [] then [] else "t" :: var.eraseDups.map toAurel) fun k =>
                (rowsOf true cats its).map fun p => some (ckCell toAurel var.eraseDups A tm p.2 k p.1)) :=
  checkpoint_pipeline_lemma_M toAurel cats hnd files var hvar hinj ht rl A tm hgood its

/-! ## (1b) `read_ET_group_or_var`: the literal model is the chunk read of Model/Chunks.lean -/

/-- **ordinary case** (`Ordinary`: every file and requested iteration has one of the regular plans — one file per
process, one file with components `c=0..amax`, one file without ` c=` — and every (component, variable) look-up
selects exactly one dataset `sel f iit c v`): the literal model never rewrites the request; the times are those of the
last dataset read in the FIRST file; the columns come in request order under `toAurel v`, one entry per iteration:
`fixij` of `joinChunks` of the dictionary filled with `(iorigin, trimmed block)` of the selected datasets in visiting
order (files outer, components inner) — exactly the expression `read_chunks_exact` (Props/C11, T4) is about -/
theorem group_or_var_is_chunk_read {α : Type} (toAurel : String → String) (cmax : CMax) (f0 : CFile α)
    (fs : List (CFile α)) (vars : List String) (its : List Nat) (rl : Nat)
    (crangeOf : CFile α → Nat → List (Option Nat)) (sel : CFile α → Nat → Option Nat → String → DSet α)
    (hvars : vars ≠ []) (hK : (vars.map toAurel).Nodup) (hits : its ≠ [])
    (hord : Ordinary cmax (f0 :: fs) vars its rl crangeOf sel) (J : Nat → String → Arr3 α)
    (hJ : ∀ iit ∈ sortedSet its, ∀ v ∈ vars,
      joinChunks (toDict ((selOf crangeOf sel (f0 :: fs) iit v).map fun d => (d.iorigin, trimmed d)))
        = some (J iit v)) :
    readGroupOrVar toAurel cmax (f0 :: fs) vars its rl
      = some ((sortedSet its).map fun iit => lastTime (gvItems (sel f0 iit) (crangeOf f0 iit) vars),
          vars.map fun v => (toAurel v, (sortedSet its).map fun iit => fixij (J iit v))) :=
  readGroupOrVar_ordinary_join toAurel cmax f0 fs vars its rl crangeOf sel hvars hK hits hord J hJ

/-- **T4 for the literal model of `read_ET_group_or_var`**: well-formed 3D output (`GoodGV`: ordinary case, and for
every iteration and variable the datasets selected over all files are — in any enumeration order — the chunks of a
hierarchical decomposition of the interior grid `A iit v`, ghost layers of widths ≥ 1 with arbitrary content, time
`tm iit`; shape, decomposition and ghost widths may change from iteration to iteration) is read back exactly -/
theorem group_or_var_exact {α : Type} (toAurel : String → String) (cmax : CMax) (f0 : CFile α)
    (fs : List (CFile α)) (vars : List String) (its : List Nat) (rl : Nat)
    (hvars : vars ≠ []) (hK : (vars.map toAurel).Nodup) (hits : its ≠ [])
    (A : Nat → String → Arr3 α) (tm : Nat → Nat) (h : GoodGV cmax (f0 :: fs) vars its rl A tm) :
    readGroupOrVar toAurel cmax (f0 :: fs) vars its rl
      = some ((sortedSet its).map tm, vars.map fun v => (toAurel v, (sortedSet its).map fun iit => fixij (A iit v))) :=
  readGroupOrVar_exact toAurel cmax f0 fs vars its rl hvars hK hits A tm h

/-! ## (2) the multi-thorn branch over several files and iterations -/

/-- **one iteration.**  The files of the iteration are `f0 :: fs` (any number: one file, or one per process); the
first file holds one component (`crange = [c]`); the name `v` of the request `pre ++ v :: post` is answered in `f0` by
the datasets `d0, d1, ..` of several thorns (same iteration, time level, level, component; `THORN0::var` contained in
no other candidate's name).  If the old model reads the iteration for the REWRITTEN request
`pre ++ THORN0::var :: post ++ [THORN1::var, ..]` (result `r`), the literal model returns `r` and the rewritten list:
the first file is read as if the combined names had been requested, the later files are ordinary. -/
theorem multi_thorn_iteration_read {α : Type} (files : List (CFile α)) (iit rl : Nat) (f0 : CFile α) (fs : List (CFile α))
    (hF : filesOf files iit = f0 :: fs) (cmax : CMax) (hc : cmaxOf (f0 :: fs) = some cmax)
    (nochunks : Bool) (c : Option Nat) (hcr : chunkRange cmax f0 (relevant f0 iit rl) = some (nochunks, [c]))
    (pre post : List String) (v : String) (d0 d1 : DSet α) (rest : List (DSet α))
    (hkey : keyOf (relevant f0 iit rl) nochunks c v = d0 :: d1 :: rest) (hsame : restSame (d0 :: d1 :: rest) = true)
    (hpool : ((relevant f0 iit rl).filter fun d => matchesVar d v).filter (nameIn (combined d0)) = [d0])
    (r : Option (Nat × List (Arr3 α)))
    (hold : readIt cmax files iit rl (rewritten pre post d0 d1 rest) = some r) :
    readItM files iit rl (pre ++ v :: post) = some (rewritten pre post d0 d1 rest, r) :=
  readItM_rewrite files iit rl f0 fs hF cmax hc nochunks c hcr pre post v d0 d1 rest hkey hsame hpool r hold

/-- **all iterations.**  The first requested iteration rewrites the request in its first file (as above); if the old
model reads the table for the REWRITTEN request, the literal model returns exactly that table. -/
theorem multi_thorn_table_read {α : Type} (toAurel : String → String) (files : List (CFile α)) (var : List String)
    (its : List Nat) (rl : Nat) (pre post : List String) (v : String) (hvar : var.eraseDups = pre ++ v :: post)
    (i0 : Nat) (later : List Nat) (hs : sortedSet its = i0 :: later)
    (f0 : CFile α) (fs : List (CFile α))
    (hF : filesOf files i0 = f0 :: fs) (cmax : CMax) (hc : cmaxOf (f0 :: fs) = some cmax)
    (nochunks : Bool) (c : Option Nat) (hcr : chunkRange cmax f0 (relevant f0 i0 rl) = some (nochunks, [c]))
    (d0 d1 : DSet α) (rest : List (DSet α))
    (hkey : keyOf (relevant f0 i0 rl) nochunks c v = d0 :: d1 :: rest) (hsame : restSame (d0 :: d1 :: rest) = true)
    (hpool : ((relevant f0 i0 rl).filter fun d => matchesVar d v).filter (nameIn (combined d0)) = [d0])
    (T : Table (Cell α))
    (hold : readCheckpointsCore toAurel files (rewritten pre post d0 d1 rest) its rl = some T) :
    readCheckpointsM toAurel files var its rl = some T :=
  readCheckpointsM_rewrite toAurel files var its rl pre post v hvar i0 later hs f0 fs hF cmax hc nochunks c hcr
    d0 d1 rest hkey hsame hpool T hold

/-- **exact read-back of every thorn's variable under its combined name.**  Request `pre ++ v :: post` (after
de-duplication); in the first file of the first requested iteration (one component per file: a file without ` c=`,
or the file of one process) `v` is answered by `d0, d1, ..` of several thorns.  Every requested iteration is a
well-formed checkpoint, in whichever layout, for the REWRITTEN names `var'` (`GoodItAuto .. var'`: each combined name
selects one dataset per file and component, the datasets of all files are the chunks of a hierarchical
decomposition of the grid `A iit w`, ghost layers arbitrary).  Then the call returns the requested iterations, the
times, and for EVERY name `w` of `var'` — in particular `THORN0::var`, `THORN1::var`, .. — a column `toAurel w`
holding `fixij (A iit w)` for every iteration, in order. -/
theorem multi_thorn_table_exact {α : Type} (toAurel : String → String) (files : List (CFile α)) (var : List String)
    (its : List Nat) (rl : Nat) (pre post : List String) (v : String) (hvar : var.eraseDups = pre ++ v :: post)
    (i0 : Nat) (later : List Nat) (hs : sortedSet its = i0 :: later)
    (f0 : CFile α) (fs : List (CFile α))
    (hF : filesOf files i0 = f0 :: fs) (cmax : CMax) (hc : cmaxOf (f0 :: fs) = some cmax)
    (nochunks : Bool) (c : Option Nat) (hcr : chunkRange cmax f0 (relevant f0 i0 rl) = some (nochunks, [c]))
    (d0 d1 : DSet α) (rest : List (DSet α))
    (hkey : keyOf (relevant f0 i0 rl) nochunks c v = d0 :: d1 :: rest) (hsame : restSame (d0 :: d1 :: rest) = true)
    (hpool : ((relevant f0 i0 rl).filter fun d => matchesVar d v).filter (nameIn (combined d0)) = [d0])
    (hn : (rewritten pre post d0 d1 rest).Nodup)
    (hinj : ∀ a ∈ rewritten pre post d0 d1 rest, ∀ b ∈ rewritten pre post d0 d1 rest, toAurel a = toAurel b → a = b)
    (ht : ∀ w ∈ rewritten pre post d0 d1 rest, toAurel w ≠ "t")
    (A : Nat → String → Arr3 α) (tm : Nat → Nat)
    (hgood : ∀ iit ∈ sortedSet its, GoodItAuto files iit rl (rewritten pre post d0 d1 rest) (A iit) (tm iit)) :
    readCheckpointsM toAurel files var its rl
      = some ⟨sortedSet its, ("t", (sortedSet its).map fun i => Cell.t (tm i))
          :: (rewritten pre post d0 d1 rest).map fun w =>
              (toAurel w, (sortedSet its).map fun i => Cell.arr (fixij (A i w)))⟩ :=
  readCheckpointsM_rewrite toAurel files var its rl pre post v hvar i0 later hs f0 fs hF cmax hc nochunks c hcr
    d0 d1 rest hkey hsame hpool _
    (readCheckpointsCore_good toAurel files _ hn (by simp [rewritten]) hinj ht its
      (by intro h; rw [h] at hs; cases hs) rl A tm hgood)

/-- **D4, where it fails.**  ONE checkpoint file holding several components (`crange = c0 :: cs`, names with ` c=`):
the requested name `v` is answered at the first component by the datasets `d0, d1, ..` of several thorns and the
first thorn's variable is stored in another component as well (`e`: what a file with several components is).  The
second look-up `[k for k in varkeys if v in k]` runs over ALL components, finds `d0` and `e`, and the code raises
ValueError — whatever else the file holds, for every state the loop is entered with. -/
theorem multi_thorn_components_raise {α : Type} (cmax : CMax) (f : CFile α) (iit rl : Nat) (c0 : Option Nat)
    (cs : List (Option Nat)) (hcr : chunkRange cmax f (relevant f iit rl) = some (false, c0 :: cs))
    (pre post : List String) (v : String) (d0 d1 : DSet α) (rest : List (DSet α))
    (hpre : ∀ w ∈ pre, ∀ c ∈ c0 :: cs, (keyOf (relevant f iit rl) false c w).length ≤ 1)
    (hkey : keyOf (relevant f iit rl) false c0 v = d0 :: d1 :: rest)
    (e : DSet α) (he : e ∈ relevant f iit rl) (hev : matchesVar e v = true) (hec : e.c ≠ d0.c)
    (hname : combined e = combined d0) (vc0 : VarChunks α) (last0 : Option (DSet α)) :
    ckFile cmax iit rl ⟨pre ++ v :: post, vc0, last0⟩ f = none :=
  ckFile_components_raises cmax f iit rl c0 cs hcr pre post v d0 d1 rest hpre hkey e he hev hec hname vc0 last0

/-- ... and so does the call, when that file is the checkpoint of the first requested iteration -/
theorem multi_thorn_components_call_raises {α : Type} (toAurel : String → String) (files : List (CFile α))
    (var : List String) (its : List Nat) (rl : Nat) (i0 : Nat) (later : List Nat) (hs : sortedSet its = i0 :: later)
    (f : CFile α) (hF : filesOf files i0 = [f]) (c0 : Option Nat) (cs : List (Option Nat))
    (hcr : chunkRange CMax.inFile f (relevant f i0 rl) = some (false, c0 :: cs))
    (pre post : List String) (v : String) (hvar : var.eraseDups = pre ++ v :: post) (d0 d1 : DSet α) (rest : List (DSet α))
    (hpre : ∀ w ∈ pre, ∀ c ∈ c0 :: cs, (keyOf (relevant f i0 rl) false c w).length ≤ 1)
    (hkey : keyOf (relevant f i0 rl) false c0 v = d0 :: d1 :: rest)
    (e : DSet α) (he : e ∈ relevant f i0 rl) (hev : matchesVar e v = true) (hec : e.c ≠ d0.c)
    (hname : combined e = combined d0) :
    readCheckpointsM toAurel files var its rl = none :=
  readCheckpointsM_first_raises toAurel files var its rl i0 later hs
    (readItM_components_raises files f i0 rl hF _ (by
      rw [hvar]
      exact ckFile_components_raises CMax.inFile f i0 rl c0 cs hcr pre post v d0 d1 rest hpre hkey e he hev hec hname
        [] none))

/-! ## (3) the fuel of the growing-list loop is never exhausted -/

/-- `read_ET_checkpoints`: for a file whose relevant dataset names are distinct and whose variable names are no
`THORN::var` names (`NamesOK`), the instrumented loop (`ckVarsF`: outer `none` = out of fuel, `some none` = the code
raised) never runs out of the fuel the model gives it — for every state, every `cmax` -/
theorem fuel_never_exhausted_checkpoints {α : Type} (cmax : CMax) (f : CFile α) (iit rl : Nat) (st : St α)
    (hn : NamesOK (relevant f iit rl)) (nochunks : Bool) (crange : List (Option Nat))
    (h : chunkRange cmax f (relevant f iit rl) = some (nochunks, crange)) :
    ckVarsF (relevant f iit rl) nochunks crange (fuelFor st (relevant f iit rl)) 0 st ≠ none :=
  ckFile_fuel_sufficient cmax f iit rl st hn nochunks crange h

/-- `read_ET_group_or_var`: the same for every pool `relevant_keys_with_c` -/
theorem fuel_never_exhausted_group_or_var {α : Type} (pool : List (DSet α)) (hn : NamesOK pool) (st : St α) :
    gvVarsF pool (fuelFor st pool) 0 st ≠ none :=
  gvVars_fuel_sufficient pool hn st

/-- hence `none` of the model's file loop always means that the code raises (IndexError of the chunk range, or a
ValueError / KeyError inside the loop), never that the model gave up -/
theorem none_means_raise {α : Type} (cmax : CMax) (f : CFile α) (iit rl : Nat) (st : St α)
    (hn : NamesOK (relevant f iit rl)) :
    ckFile cmax iit rl st f = none ↔
      (chunkRange cmax f (relevant f iit rl) = none ∨
        ∃ nochunks crange, chunkRange cmax f (relevant f iit rl) = some (nochunks, crange) ∧
          ckVarsF (relevant f iit rl) nochunks crange (fuelFor st (relevant f iit rl)) 0 st = some none) :=
  ckFile_none_iff_raises cmax f iit rl st hn

/-- the instrumented loop IS the model's loop (both reasons for `none` merged) -/
theorem instrumented_loop_is_the_model {α : Type} (rel : List (DSet α)) (nochunks : Bool) (crange : List (Option Nat))
    (fuel vi : Nat) (st : St α) :
    ckVars rel nochunks crange fuel vi st = (ckVarsF rel nochunks crange fuel vi st).join
      ∧ gvVars rel fuel vi st = (gvVarsF rel fuel vi st).join :=
  ⟨ckVars_eq_join rel nochunks crange fuel vi st, gvVars_eq_join rel fuel vi st⟩

/-- more fuel never changes the result -/
theorem more_fuel_same_result {α : Type} (rel : List (DSet α)) (nochunks : Bool) (crange : List (Option Nat))
    (hn : NamesOK rel) (hcr : crange.Nodup) (hno : nochunks = true → crange.length ≤ 1) (st : St α) (k : Nat) :
    ckVars rel nochunks crange (fuelFor st rel + k) 0 st = ckVars rel nochunks crange (fuelFor st rel) 0 st :=
  ckVars_more_fuel rel nochunks crange hn hcr hno st k

/-- **the hypothesis is needed**: thorn `A` with a variable called `T1::V1` next to `T1::V1` (thorn `T1`, variable
`V1`), request `T1::V1`: every visit rewrites the entry to `A::T1::V1` and appends `T1::V1` again; the model runs out
of fuel (whatever the fuel: here the model's and 40), the real `read_ET_group_or_var` / `read_ET_checkpoints` do
not return -/
theorem loop_without_end_witness :
    ¬ NamesOK [dX, dY]
      ∧ (ckVarsF [dX, dY] true [some 0] (fuelFor ⟨["T1::V1"], [], none⟩ [dX, dY]) 0 ⟨["T1::V1"], [], none⟩).isNone = true
      ∧ (gvVarsF [dX, dY] 40 0 ⟨["T1::V1"], [], none⟩).isNone = true := by
  refine ⟨by simp [NamesOK, combined, dX, dY], by decide, by decide⟩

/-! ### Non-vacuity -/

/-- `literal_model_specialises`, `literal_file_loop_is_readFile`: the one-file checkpoints `ckFiles` of Props/C11c -/
example : ∀ iit ∈ sortedSet [0, 8], AtMostOneIt ckFiles iit 0 ["alp"].eraseDups := by
  intro iit hi
  have : iit = 0 ∨ iit = 8 := by
    have h : sortedSet [0, 8] = [0, 8] := by decide
    rw [h] at hi; simpa using hi
  rcases this with rfl | rfl
  · obtain ⟨r, hr⟩ := Option.isSome_iff_exists.mp (by decide +kernel : (readItAuto ckFiles 0 0 ["alp"]).isSome = true)
    exact atMostOneIt_of_some ckFiles 0 0 ["alp"] r hr
  · obtain ⟨r, hr⟩ := Option.isSome_iff_exists.mp (by decide +kernel : (readItAuto ckFiles 8 0 ["alp"]).isSome = true)
    exact atMostOneIt_of_some ckFiles 8 0 ["alp"] r hr
example : AtMostOneFile CMax.inFile 8 0 ["alp"] (⟨8, none, [ckD 8 0 58, ckD 8 1 99]⟩ : CFile Nat) := by
  obtain ⟨r, hr⟩ := Option.isSome_iff_exists.mp
    (by decide +kernel : (readFile CMax.inFile 8 0 ["alp"] (⟨8, none, [ckD 8 0 58, ckD 8 1 99]⟩ : CFile Nat)).isSome = true)
  exact atMostOne_of_readFile _ _ _ _ _ r hr
/-- `old_model_read_transfers`: the old model reads `ckFiles` (Props/C11c, `decide +kernel`), so does the literal one -/
example : (readCheckpointsM id ckFiles ["alp", "alp"] [0, 8] 0).map ckShow
    = some ([0, 8], [("t", [[500], [508]]), ("alp", [[50], [58]])]) := by decide +kernel
/-- `checkpoint_table_exact_literal`, `checkpoint_pipeline_exact_literal`: the hypotheses are those of
`checkpoint_table_exact` / `checkpoint_pipeline_exact` (`ckGoodIt` and the examples of Props/C11c) -/
example : GoodItAuto ckFiles 8 0 ["alp"] (fun _ => [[[58]]]) 508 :=
  ⟨CMax.inFile, (by show (filesOf ckFiles 8).length = 1; rfl), ckGoodIt 8 58 (Or.inr rfl) rfl⟩

/-- two thorns, one file PER PROCESS, two iterations: every thorn's `H` is joined over the files, per iteration -/
def mtPP : List (CFile Nat) :=
  [⟨8, some 1, [mtD "ML_ADMCONSTRAINTS" 8 (some 1) 1 29, mtD "ML_BSSN" 8 (some 1) 1 19]⟩,
   ⟨0, some 0, [mtD "ML_ADMCONSTRAINTS" 0 (some 0) 0 20, mtD "ML_BSSN" 0 (some 0) 0 10]⟩,
   ⟨0, some 1, [mtD "ML_ADMCONSTRAINTS" 0 (some 1) 1 21, mtD "ML_BSSN" 0 (some 1) 1 11]⟩,
   ⟨8, some 0, [mtD "ML_ADMCONSTRAINTS" 8 (some 0) 0 28, mtD "ML_BSSN" 8 (some 0) 0 18]⟩]

/-- the hypotheses of `multi_thorn_iteration_read` / `multi_thorn_table_read` on `mtPP`, request `["H"]`
(`pre = post = []`, first file of iteration 0 = the file of process 0) -/
example : sortedSet [0, 8] = 0 :: [8]
    ∧ filesOf mtPP 0 = [⟨0, some 0, [mtD "ML_ADMCONSTRAINTS" 0 (some 0) 0 20, mtD "ML_BSSN" 0 (some 0) 0 10]⟩,
                        ⟨0, some 1, [mtD "ML_ADMCONSTRAINTS" 0 (some 1) 1 21, mtD "ML_BSSN" 0 (some 1) 1 11]⟩]
    ∧ cmaxOf (filesOf mtPP 0) = some (CMax.num 1)
    ∧ chunkRange (CMax.num 1) (⟨0, some 0, [mtD "ML_ADMCONSTRAINTS" 0 (some 0) 0 20, mtD "ML_BSSN" 0 (some 0) 0 10]⟩ : CFile Nat)
        [mtD "ML_ADMCONSTRAINTS" 0 (some 0) 0 20, mtD "ML_BSSN" 0 (some 0) 0 10] = some (false, [some 0])
    ∧ keyOf [mtD "ML_ADMCONSTRAINTS" 0 (some 0) 0 20, mtD "ML_BSSN" 0 (some 0) 0 10] false (some 0) "H"
        = [mtD "ML_ADMCONSTRAINTS" 0 (some 0) 0 20, mtD "ML_BSSN" 0 (some 0) 0 10]
    ∧ restSame [mtD "ML_ADMCONSTRAINTS" 0 (some 0) 0 20, mtD "ML_BSSN" 0 (some 0) 0 10] = true
    ∧ ([mtD "ML_ADMCONSTRAINTS" 0 (some 0) 0 20, mtD "ML_BSSN" 0 (some 0) 0 10].filter fun d => matchesVar d "H").filter
        (nameIn (combined (mtD "ML_ADMCONSTRAINTS" 0 (some 0) 0 20))) = [mtD "ML_ADMCONSTRAINTS" 0 (some 0) 0 20]
    ∧ (readCheckpointsCore id mtPP
        (rewritten [] [] (mtD "ML_ADMCONSTRAINTS" 0 (some 0) 0 20) (mtD "ML_BSSN" 0 (some 0) 0 10) []) [0, 8] 0).isSome = true := by
  refine ⟨by decide, by rfl, by rfl, by rfl, by rfl, by rfl, by rfl, by decide +kernel⟩
/-- ... and the conclusion on this instance, by evaluation of the literal model -/
example : (readCheckpointsM id mtPP ["H"] [8, 0] 0).map ckShow
    = some ([0, 8], [("t", [[500], [508]]), ("ML_ADMCONSTRAINTS::H", [[20, 21], [28, 29]]),
                     ("ML_BSSN::H", [[10, 11], [18, 19]])]) := by decide +kernel

/-- `multi_thorn_table_exact`: the one-file checkpoints `mtFiles` (Props/C11d: iterations 0 and 8, both thorns' `H`) are
well-formed for the REWRITTEN names -/
theorem mtGoodIt (it : Nat) (hit : it = 0 ∨ it = 8) :
    GoodIt CMax.inFile mtFiles it 0 ["ML_ADMCONSTRAINTS::H", "ML_BSSN::H"]
      (fun w => if w = "ML_ADMCONSTRAINTS::H" then [[[20 + it]]] else [[[10 + it]]]) (500 + it) := by
  refine ⟨fun _ w => if w = "ML_ADMCONSTRAINTS::H" then [mtD "ML_ADMCONSTRAINTS" it none 0 (20 + it)]
      else [mtD "ML_BSSN" it none 0 (10 + it)], 1, 1, 1, [(1, [(1, [1])])], (0, 0, 0), 1, 1, 1, ?_, ?_,
    Nat.le_refl _, Nat.le_refl _, Nat.le_refl _, Nat.one_pos, Nat.one_pos, Nat.one_pos, ?_, ?_⟩
  · rcases hit with rfl | rfl <;> decide
  · intro f hf
    rcases hit with rfl | rfl
    · have : f = ⟨0, none, [mtD "ML_ADMCONSTRAINTS" 0 none 0 20, mtD "ML_BSSN" 0 none 0 10]⟩ := by
        simpa [filesOf, mtFiles, List.filter_cons] using hf
      subst this
      refine GoodFile.single rfl (by decide) (by decide) ?_
      intro w hw
      simp only [List.mem_cons, List.not_mem_nil, or_false] at hw
      rcases hw with rfl | rfl
      · exact ⟨mtD "ML_ADMCONSTRAINTS" 0 none 0 20, by rfl, rfl⟩
      · exact ⟨mtD "ML_BSSN" 0 none 0 10, by rfl, rfl⟩
    · have : f = ⟨8, none, [mtD "ML_ADMCONSTRAINTS" 8 none 0 28, mtD "ML_BSSN" 8 none 0 18]⟩ := by
        simpa [filesOf, mtFiles, List.filter_cons] using hf
      subst this
      refine GoodFile.single rfl (by decide) (by decide) ?_
      intro w hw
      simp only [List.mem_cons, List.not_mem_nil, or_false] at hw
      rcases hw with rfl | rfl
      · exact ⟨mtD "ML_ADMCONSTRAINTS" 8 none 0 28, by rfl, rfl⟩
      · exact ⟨mtD "ML_BSSN" 8 none 0 18, by rfl, rfl⟩
  · unfold ZSplit.Valid YSplit.Valid XSplit.Valid; decide
  · have hpad : ∀ v : Nat, PadZ 1 1 1 (ckBlock v) [[[v]]] := fun v =>
      ⟨[[[9, 9, 9], [9, 9, 9], [9, 9, 9]]], [[[9, 9, 9], [6, 6, 6], [9, 9, 9]]], [[[8, 8, 8], [7, v, 7], [8, 8, 8]]],
        rfl, rfl, rfl,
        ⟨⟨[[8, 8, 8]], [[8, 8, 8]], [[7, v, 7]], rfl, rfl, rfl, ⟨⟨[7], [7], rfl, rfl, rfl⟩, trivial⟩⟩, trivial⟩⟩
    have hrect : ∀ v : Nat, Rect [[[v]]] 1 1 1 := fun v => ⟨rfl, by
      intro p hp
      simp only [List.mem_singleton] at hp
      subst hp
      refine ⟨rfl, ?_⟩
      intro r hr
      simp only [List.mem_singleton] at hr
      subst hr
      rfl⟩
    intro w hw
    simp only [List.mem_cons, List.not_mem_nil, or_false] at hw
    rcases hw with rfl | rfl
    · refine ⟨hrect _, [((0, 0, 0), [[[20 + it]]])], by
        simp [chunks, cutsP, cuts, slice0, slice1, slice2, slice], ?_⟩
      rcases hit with rfl | rfl
      · exact ⟨⟨rfl, rfl, rfl, hpad 20⟩, trivial⟩
      · exact ⟨⟨rfl, rfl, rfl, hpad 28⟩, trivial⟩
    · refine ⟨hrect _, [((0, 0, 0), [[[10 + it]]])], by
        simp [chunks, cutsP, cuts, slice0, slice1, slice2, slice], ?_⟩
      rcases hit with rfl | rfl
      · exact ⟨⟨rfl, rfl, rfl, hpad 10⟩, trivial⟩
      · exact ⟨⟨rfl, rfl, rfl, hpad 18⟩, trivial⟩

/-- all hypotheses of `multi_thorn_table_exact` on `mtFiles`, request `["H"]`, iterations `[0, 8]`, `toAurel = id` -/
example : rewritten [] [] (mtD "ML_ADMCONSTRAINTS" 0 none 0 20) (mtD "ML_BSSN" 0 none 0 10) []
      = ["ML_ADMCONSTRAINTS::H", "ML_BSSN::H"]
    ∧ ["ML_ADMCONSTRAINTS::H", "ML_BSSN::H"].Nodup
    ∧ (∀ w ∈ ["ML_ADMCONSTRAINTS::H", "ML_BSSN::H"], id w ≠ "t")
    ∧ ["H"].eraseDups = [] ++ "H" :: [] ∧ sortedSet [0, 8] = 0 :: [8]
    ∧ filesOf mtFiles 0 = [mtF0] ∧ cmaxOf [mtF0] = some CMax.inFile
    ∧ ∀ iit ∈ sortedSet [0, 8], GoodItAuto mtFiles iit 0 ["ML_ADMCONSTRAINTS::H", "ML_BSSN::H"]
        (fun w => if w = "ML_ADMCONSTRAINTS::H" then [[[20 + iit]]] else [[[10 + iit]]]) (500 + iit) := by
  refine ⟨by rfl, by decide, by decide, by rfl, by decide, by rfl, by rfl, ?_⟩
  intro iit hi
  have h2 : iit = 0 ∨ iit = 8 := by
    have h : sortedSet [0, 8] = [0, 8] := by decide
    rw [h] at hi; simpa using hi
  refine ⟨CMax.inFile, ?_, mtGoodIt iit h2⟩
  rcases h2 with rfl | rfl <;> (show (filesOf mtFiles _).length = 1; rfl)

/-- `multi_thorn_components_raise` / `multi_thorn_components_call_raises`: the file of
`two_thorns_chunked_checkpoint_raises` (Props/C11d) -/
def mtChunked : CFile Nat :=
  ⟨0, none, [mtD "ML_ADMCONSTRAINTS" 0 (some 0) 0 20, mtD "ML_ADMCONSTRAINTS" 0 (some 1) 1 21,
             mtD "ML_BSSN" 0 (some 0) 0 10, mtD "ML_BSSN" 0 (some 1) 1 11]⟩
example : chunkRange CMax.inFile mtChunked (relevant mtChunked 0 0) = some (false, some 0 :: [some 1])
    ∧ keyOf (relevant mtChunked 0 0) false (some 0) "H"
        = mtD "ML_ADMCONSTRAINTS" 0 (some 0) 0 20 :: mtD "ML_BSSN" 0 (some 0) 0 10 :: []
    ∧ mtD "ML_ADMCONSTRAINTS" 0 (some 1) 1 21 ∈ relevant mtChunked 0 0
    ∧ matchesVar (mtD "ML_ADMCONSTRAINTS" 0 (some 1) 1 21) "H" = true
    ∧ (mtD "ML_ADMCONSTRAINTS" 0 (some 1) 1 21).c ≠ (mtD "ML_ADMCONSTRAINTS" 0 (some 0) 0 20).c
    ∧ combined (mtD "ML_ADMCONSTRAINTS" 0 (some 1) 1 21) = combined (mtD "ML_ADMCONSTRAINTS" 0 (some 0) 0 20) := by
  refine ⟨by rfl, by rfl, ?_, by rfl, by decide, by rfl⟩
  show _ ∈ [_, _, _, _]
  simp

/-- `fuel_never_exhausted_*`, `none_means_raise`, `more_fuel_same_result`: the two-thorn file satisfies `NamesOK` -/
example : NamesOK (relevant mtF0 0 0) := by
  show NamesOK [mtD "ML_ADMCONSTRAINTS" 0 none 0 20, mtD "ML_BSSN" 0 none 0 10]
  simp [NamesOK, combined, mtD]
example : chunkRange CMax.inFile mtF0 (relevant mtF0 0 0) = some (true, [some 0])
    ∧ [some 0].Nodup ∧ (true = true → [some 0].length ≤ 1) := ⟨by rfl, by simp, by simp⟩

/-- `group_or_var_is_chunk_read`, `group_or_var_exact`: two per-process files, iterations 0 and 8
(`gvOrdinary`, `gvGood` of Lemmas/C11GroupOrVar.lean), and the conclusion on this instance -/
example : Ordinary (CMax.num 1) [gvF 0, gvF 1] ["alp"] [0, 8] 0 (fun f _ => [f.fileNo])
    (fun _ iit c _ => gvD iit (c.getD 0)) := gvOrdinary
example : GoodGV (CMax.num 1) [gvF 0, gvF 1] ["alp"] [0, 8] 0 (fun iit _ => [[[50 + iit, 50 + iit + 1]]])
    (fun iit => 500 + iit) := gvGood
example : (readGroupOrVar id (CMax.num 1) [gvF 0, gvF 1] ["alp"] [8, 0, 8] 0).map
      (fun r => (r.1, r.2.map fun kc => (kc.1, kc.2.map fun a => a.flatten.flatten)))
    = some ([500, 508], [("alp", [[50, 51], [58, 59]])]) := by decide +kernel

end AurelVerif.C11
