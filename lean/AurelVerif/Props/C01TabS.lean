/-
Props/C01TabS.lean — property C01, extension round 7 (continues Props/C01TabR.lean): two of the three class (c) bodies
of `HardCoh3` — `st_Ricci_down4` (122) and `st_Ricci_down3` (123) — are discharged ON SHELL against the CONSTRUCTED
denotation.  `HardCoh3` shrinks to `HardCoh1` = the body of `st_Weyl_down4` (133) alone.

Vocabulary (see Props/C01TabG.lean): `E P excl inp` = the environment of the denotation, `Cons … k` = "a supplied value of
`k` is the one its body computes" (automatic when `k` is not supplied).

`ShellHyp P excl inp T` — everything `coh_122` / `coh_123` assume, all of it about the environment `E` of the denotation,
the operator `D` and the inputs, nothing about a body:
  * `curv`   `C04L.CurvHyp E T`: Layer B of Props/C04b.lean for the jet assembled from the denotations of α, β, γ, K, Γ, ∂_tα,
             ∂_tβ and the free second time derivatives `T` (Leibniz / commuting `D`, metric-compatible connection, the cached
             `s_Riemann_down3` is the textbook 3-Riemann tensor).  Exactly the hypothesis the per-guard theorems of
             Props/C01CoherenceC.lean carry.
  * `shell`  EINSTEIN'S EQUATIONS for that jet, in the form matching the option `vacuum`:
             `vacuum = False`: `OnShell E T` (G_ab + Λ g_ab = κ T_ab with the denotation of `Tdown4`);
             `vacuum = True` : all 16 components of the Ricci tensor of the jet vanish, the denotation of `Tdown4` is 0, Λ = 0.
  * `c48 c82 c116 c119 c120 c123`  consistency of `Ktrace`, `Ttrace`, `s_Ricci_down3`, `st_Riemann_uddd4`, `st_Riemann_down4`,
             `st_Ricci_down3` when SUPPLIED as inputs (void when they are not: `cons_of_absent`).
The cached-entry hypotheses `e.X = X e` of the per-guard theorems (`MainardiCached`, `RicciChain`, `hRd`, `hTt`, `hR4`) are
DERIVED from the unfolding equation of the denotation (`den_unfold`) and the locality lemmas (Lemmas/C01Loc*.lean):
`gup4c_E`, `Ktrace_E`, `ric3_E`, `R3_E`, `Ru_E`, `Rd_E_matter`, `Rd_E_vacuum`, `Ttrace_E`, `mainardi_E`.

Results
  * `coh_122`, `coh_123`           branch coherence of the two bodies (`vacuum = False` AND `vacuum = True`, shift key
                                   supplied or not, `Tdown4` supplied or computed from the fluid variables).
  * `hardCoh3_of`                  `HardCoh3` from `ShellHyp`, `InputsOK` and `HardCoh1`.
  * `sub155_transparent_onshell`   the REAL table without `st_Weyl_down4` and the five keys that read it (`Weyl_Psi`,
                                   `Psi4_lm`, `Weyl_invariants`, `eweyl_u_down4`, `bweyl_u_down4`) — 155 keys, closed under
                                   reads —: on shell, NO hypothesis about any body: every field, every `D` with `CurvHyp`,
                                   every input dictionary with `InputsOK`, every admissible policy, every history.
  * `tab_transparent_onshell_partial`  all 161 keys on shell under `HardCoh1` (coherence of the body of `st_Weyl_down4`).

NOT proven (what is missing for 133, precisely):
  (1) the return sites of `st_Weyl_down4` are not in `Gen/C01Table.lean` (they are the arbitrary parameter `rest`): the body
      calls `s_to_st` three times, each call testing `not any(shift key in self.data)`; return sites 3 and 4 (of 0..5) are
      reached only when that test CHANGES its outcome between two calls of one body (eviction of `betaup3` in between), and
      no traced alternative of Gen/CoreBig_st_Weyl_down4.lean has such a presence set — `c01table.site_map` rejects the key.
      Needed from the translator: two more traced alternatives (`s_to_st__dflt` for E, `s_to_st__betaup3` for B and vice versa).
  (2) the E/B branch contains NESTED presence tests of keys with a method (6, 3, 4, 5) after reads: `cohM_test` does not
      apply (its branches must be `stableShape`); needed: `cohM_test_vs` at each of the three nested tests, each discharged by
      `betaup3_zero` + `C01Coherence.st_Weyl_down4_shift_coherent` (pattern of `coh_120`).
  (3) the top-level test `'st_Riemann_down4' in self.data`: `C10.st_Weyl_down4_onshell_coherent` /
      `…_coherent_contraction` / `…_vacuum_coherent` with `E`; their cached-entry hypotheses are available here
      (`mainardi_E`, `R3_E`, `Rd_E_*`, `Ttrace_E`) except `hR4` (two cases, as in `coh_123`), `hRS` (124), `hSd`/`hSu` (89, 88),
      `hEc` (138), `X.hnu/hnd/hdet/hBc` (13, 14, 33, 140): one `Cons` + locality lemma each; the analytic part of `C10.EBCached`
      (`√` exact on `−g`, positive lapse, `MetricOK`, `Deriv D`) stays a hypothesis on `E`.
-/
import AurelVerif.Props.C01TabR
import AurelVerif.Props.C01CoherenceC
import AurelVerif.Lemmas.C01LocS

set_option linter.unusedSectionVars false
set_option linter.unusedSimpArgs false
set_option linter.unusedVariables false

namespace AurelVerif.C01Tab
open AurelVerif.Cache AurelVerif.Cache.Dict AurelVerif.CacheGet AurelVerif.Gen.Core AurelVerif.Tensor AurelVerif.CoreTac
open AurelVerif.Gen.C01Table AurelVerif.Gen.DepGraph
open AurelVerif.C01 (IsInput shapeOf rankOf)
open AurelVerif.C04L (CurvHyp MainardiCached TimeJet2 jetCOf)
open AurelVerif.C01Coherence (OnShell ricciOf RicciChain)
open AurelVerif.Spec.Curvature (ricciDown)

variable {K : Type} [Field K]

theorem get_none_of_contains {inp : Dict Nat (Val K)} {k : Nat} (h : contains inp k = false) : get? inp k = none := by
  cases hg : get? inp k with
  | none => rfl
  | some v => simp [contains, hg] at h

theorem contains_of_none {inp : Dict Nat (Val K)} {k : Nat} (h : get? inp k = none) : contains inp k = false := by
  simp [contains, h]

section shell
variable (P : Params K) (excl : List Nat) (inp : Dict Nat (Val K))

/-- keys unfolded for `st_Ricci_down4`, `st_Ricci_down3` (besides those of `cone82`, `cone116`, `cone120`) -/
def cone122 : List Nat := [32, 48, 119, 122, 123]

/-- the on-shell hypotheses (see the header). -/
structure ShellHyp (T : TimeJet2 K) : Prop where
  curv : CurvHyp (E P excl inp) T
  shell : ((TTab P excl).flag "self.vacuum" = false ∧ OnShell (E P excl inp) T)
    ∨ ((TTab P excl).flag "self.vacuum" = true ∧ (∀ a b, ricciOf (E P excl inp) T a b = 0)
        ∧ (∀ a b, (E P excl inp).Tdown4 a b = 0) ∧ (E P excl inp).Lambda = 0)
  c48 : Cons P excl inp 48
  c82 : Cons P excl inp 82
  c116 : Cons P excl inp 116
  c119 : Cons P excl inp 119
  c120 : Cons P excl inp 120
  c123 : Cons P excl inp 123

/-! ### the cached-entry hypotheses, derived -/

theorem gup4c_E (hX : NotExcl excl cone122) (c32 : Cons P excl inp 32) :
    (E P excl inp).gup4 = gup4 (E P excl inp) := by
  have e32 := c32 _ (shpX P excl hX 32 _ (by decide) rfl)
  show (den P excl inp 32).toT44 = _
  rw [e32]
  show gup4 (envOf P.base _) = _
  exact C01Loc.loc_gup4 _ _ rfl

theorem Ktrace_E (hX : NotExcl excl cone122) (c48 : Cons P excl inp 48) :
    (E P excl inp).Ktrace = Ktrace (E P excl inp) := by
  have e48 := c48 _ (shpX P excl hX 48 _ (by decide) rfl)
  show (den P excl inp 48).toS = _
  rw [e48]
  show Ktrace (envOf P.base _) = _
  exact C01Loc.loc_Ktrace _ _ rfl rfl

/-- the denotation of `s_Ricci_down3` is the contraction of the denotation of `s_Riemann_down3` (whichever alternative
the inputs select). -/
theorem ric3_E (hX : NotExcl excl cone116) (hM : RicciCons P excl inp) (c116 : Cons P excl inp 116) (i j : Fin 3) :
    (E P excl inp).s_Ricci_down3 i j = ricciDown (E P excl inp).gammaup3 (E P excl inp).s_Riemann_down3 i j := by
  have e116 := c116 _ (shpX P excl hX 116 _ (by decide) rfl)
  have hraw : ∀ b d, s_Ricci_down3__s_Riemann_down3 (E P excl inp) b d
      = ricciDown (E P excl inp).gammaup3 (E P excl inp).s_Riemann_down3 b d := by
    intro b d
    rw [C05.s_Ricci_down3_alt_raw]
    unfold ricciDown
    exact Finset.sum_congr rfl fun a _ => Finset.sum_congr rfl fun c _ => by ring
  cases hc : contains inp 115 with
  | true =>
    have h : (E P excl inp).s_Ricci_down3 = s_Ricci_down3__s_Riemann_down3 (E P excl inp) := by
      show (den P excl inp 116).toT33 = _
      rw [e116]
      simp only [sh_116, evalShape, Guard.eval, hc, ↓reduceIte]
      show s_Ricci_down3__s_Riemann_down3 (envOf P.base _) = _
      exact C01Loc.loc_s_Ricci_down3_alt _ _ rfl rfl
    rw [h]; exact hraw i j
  | false =>
    have ht := get_none_of_contains hc
    have h : (E P excl inp).s_Ricci_down3 = s_Ricci_down3__dflt (E P excl inp) := by
      show (den P excl inp 116).toT33 = _
      rw [e116]
      simp only [sh_116, evalShape, Guard.eval, hc, Bool.false_eq_true, ↓reduceIte]
      show s_Ricci_down3__dflt (envOf P.base _) = _
      exact C01Loc.loc_s_Ricci_down3_dflt _ _ rfl rfl
    have e115 := den_unfold P excl inp 115 _ ht (shpX P excl hX 115 _ (by decide) rfl)
    have e114 := hM.c114 _ (shpX P excl hX 114 _ (by decide) rfl)
    have hR : (E P excl inp).s_Riemann_down3 = s_Riemann_down3 (E P excl inp) := by
      show (den P excl inp 115).toT3333 = _
      rw [e115]
      show s_Riemann_down3 (envOf P.base _) = _
      exact C01Loc.loc_s_Riemann_down3 _ _ rfl rfl
    have hRu : (E P excl inp).s_Riemann_uddd3 = s_Riemann_uddd3 (E P excl inp) := by
      show (den P excl inp 114).toT3333 = _
      rw [e114]
      show s_Riemann_uddd3 (envOf P.base _) = _
      exact C01Loc.loc_s_Riemann_uddd3 _ _ rfl rfl
    rw [h, ← C01Coherence.s_Ricci_down3_coherent (E P excl inp) hR hRu (inv_E P excl inp hX hM.c22 hM.sym hM.det) i j]
    exact hraw i j

/-- `MainardiCached` in the environment of the denotation. -/
theorem mainardi_E (hX : NotExcl excl cone122) (hX116 : NotExcl excl cone116) (c32 : Cons P excl inp 32)
    (c48 : Cons P excl inp 48) (hM : RicciCons P excl inp) (c116 : Cons P excl inp 116) :
    MainardiCached (E P excl inp) :=
  ⟨gup4c_E P excl inp hX c32, Ktrace_E P excl inp hX c48, ric3_E P excl inp hX116 hM c116⟩

/-- `st_Ricci_down4` not supplied: the denotation of `st_Ricci_down3` is the Einstein-equation form. -/
theorem R3_E (hX : NotExcl excl cone122) (c123 : Cons P excl inp 123) (h122 : get? inp 122 = none) :
    (E P excl inp).st_Ricci_down3 = st_Ricci_down3__dflt (E P excl inp) := by
  have e123 := c123 _ (shpX P excl hX 123 _ (by decide) rfl)
  have hc := contains_of_none h122
  show (den P excl inp 123).toT33 = _
  rw [e123]
  simp only [sh_123, evalShape, Guard.eval, hc, Bool.false_eq_true, ↓reduceIte]
  show st_Ricci_down3__dflt (envOf P.base _) = _
  exact C01Loc.loc_st_Ricci_down3_dflt _ _ rfl rfl rfl rfl rfl

theorem Ru_E (hX : NotExcl excl cone122) (c119 : Cons P excl inp 119) :
    (E P excl inp).st_Riemann_uddd4 = st_Riemann_uddd4 (E P excl inp) := by
  have e119 := c119 _ (shpX P excl hX 119 _ (by decide) rfl)
  show (den P excl inp 119).toT4444 = _
  rw [e119]
  show st_Riemann_uddd4 (envOf P.base _) = _
  exact C01Loc.loc_st_Riemann_uddd4 _ _ rfl rfl

/-- the body of `st_Riemann_down4` on denotations: the eleven reads, then the zero-shift test on the inputs. -/
theorem eval_120 :
    evalShape (TTab P excl) (den P excl inp) (fun k => contains inp k) (.s 0) 120 sh_120 []
      = if (!(((contains inp 6 || contains inp 3) || contains inp 4) || contains inp 5)) = true
        then evalShape (TTab P excl) (den P excl inp) (fun k => contains inp k) (.s 0) 120
          (.read 6 (.read 6 (.read 6 (.read 6 (.read 0 (.read 116 (.read 32 (.read 46 (.read 48 (.test (.flag "self.vacuum") (.ret 0) (.read 0 (.read 123 (.ret 1)))))))))))))
          [den P excl inp 115, den P excl inp 46, den P excl inp 46, den P excl inp 46, den P excl inp 46, den P excl inp 46, den P excl inp 113, den P excl inp 113, den P excl inp 6, den P excl inp 0, den P excl inp 46]
        else evalShape (TTab P excl) (den P excl inp) (fun k => contains inp k) (.s 0) 120
          (.read 6 (.read 6 (.read 6 (.read 6 (.read 6 (.read 6 (.read 6 (.read 0 (.read 116 (.read 32 (.read 46 (.read 48 (.test (.flag "self.vacuum") (.ret 2) (.read 0 (.read 123 (.ret 3))))))))))))))))
          [den P excl inp 115, den P excl inp 46, den P excl inp 46, den P excl inp 46, den P excl inp 46, den P excl inp 46, den P excl inp 113, den P excl inp 113, den P excl inp 6, den P excl inp 0, den P excl inp 46] := rfl

/-- `vacuum = False`: the denotation of `st_Riemann_down4` is the Gauss–Codazzi–Mainardi alternative with the shift
(when no shift name is supplied the zero-shift shortcut is taken, and equals it: `betaup3_zero`). -/
theorem Rd_E_matter (hX : NotExcl excl cone120) (c120 : Cons P excl inp 120)
    (hv : (TTab P excl).flag "self.vacuum" = false) :
    (E P excl inp).st_Riemann_down4 = st_Riemann_down4__betaup3_matter (E P excl inp) := by
  have e120 := c120 sh_120 (shpX P excl hX 120 sh_120 (by decide) rfl)
  rw [eval_120] at e120
  cases hb : (!(((contains inp 6 || contains inp 3) || contains inp 4) || contains inp 5)) with
  | true =>
    have hb' := hb
    simp only [Bool.not_eq_true', Bool.or_eq_false_iff] at hb'
    obtain ⟨⟨⟨c6, c3⟩, c4⟩, c5⟩ := hb'
    have hbeta := betaup3_zero P excl inp hX (get_none_of_contains c6) (get_none_of_contains c3)
      (get_none_of_contains c4) (get_none_of_contains c5)
    have h : (E P excl inp).st_Riemann_down4 = st_Riemann_down4__dflt_matter (E P excl inp) := by
      show (den P excl inp 120).toT4444 = _
      rw [e120]
      simp only [hb, ↓reduceIte, evalShape, Guard.eval, hv, Bool.false_eq_true, List.nil_append, List.cons_append]
      show st_Riemann_down4__dflt_matter (envOf P.base _) = _
      exact C01Loc.loc_st_Riemann_down4_dflt_matter _ _ ⟨rfl, rfl, rfl, rfl, rfl, rfl, rfl, rfl, rfl⟩ rfl
    rw [h]
    funext a b c d
    exact (C01Coherence.st_Riemann_down4_shift_coherent (E P excl inp) hbeta a b c d).1
  | false =>
    show (den P excl inp 120).toT4444 = _
    rw [e120]
    simp only [hb, ↓reduceIte, evalShape, Guard.eval, hv, Bool.false_eq_true, List.nil_append, List.cons_append]
    show st_Riemann_down4__betaup3_matter (envOf P.base _) = _
    exact C01Loc.loc_st_Riemann_down4_betaup3_matter _ _ ⟨rfl, rfl, rfl, rfl, rfl, rfl, rfl, rfl, rfl⟩ rfl

/-- `vacuum = True`: the same with the vacuum flag. -/
theorem Rd_E_vacuum (hX : NotExcl excl cone120) (c120 : Cons P excl inp 120)
    (hv : (TTab P excl).flag "self.vacuum" = true) :
    (E P excl inp).st_Riemann_down4 = st_Riemann_down4__betaup3_vacuum (E P excl inp) := by
  have e120 := c120 sh_120 (shpX P excl hX 120 sh_120 (by decide) rfl)
  rw [eval_120] at e120
  cases hb : (!(((contains inp 6 || contains inp 3) || contains inp 4) || contains inp 5)) with
  | true =>
    have hb' := hb
    simp only [Bool.not_eq_true', Bool.or_eq_false_iff] at hb'
    obtain ⟨⟨⟨c6, c3⟩, c4⟩, c5⟩ := hb'
    have hbeta := betaup3_zero P excl inp hX (get_none_of_contains c6) (get_none_of_contains c3)
      (get_none_of_contains c4) (get_none_of_contains c5)
    have h : (E P excl inp).st_Riemann_down4 = st_Riemann_down4__dflt_vacuum (E P excl inp) := by
      show (den P excl inp 120).toT4444 = _
      rw [e120]
      simp only [hb, ↓reduceIte, evalShape, Guard.eval, hv, Bool.false_eq_true, List.nil_append, List.cons_append]
      show st_Riemann_down4__dflt_vacuum (envOf P.base _) = _
      exact C01Loc.loc_st_Riemann_down4_dflt_vacuum _ _ ⟨rfl, rfl, rfl, rfl, rfl, rfl, rfl, rfl, rfl⟩
    rw [h]
    funext a b c d
    exact (C01Coherence.st_Riemann_down4_shift_coherent (E P excl inp) hbeta a b c d).2
  | false =>
    show (den P excl inp 120).toT4444 = _
    rw [e120]
    simp only [hb, ↓reduceIte, evalShape, Guard.eval, hv, Bool.false_eq_true, List.nil_append, List.cons_append]
    show st_Riemann_down4__betaup3_vacuum (envOf P.base _) = _
    exact C01Loc.loc_st_Riemann_down4_betaup3_vacuum _ _ ⟨rfl, rfl, rfl, rfl, rfl, rfl, rfl, rfl, rfl⟩

/-- the two alternatives of `Ttrace` agree on the denotations (the algebra of `coh_82`). -/
theorem Ttrace_key_E (hX : NotExcl excl cone82) (hM : TraceCons P excl inp) :
    Ttrace__Tdown4 (E P excl inp) = Ttrace__dflt (E P excl inp) := by
  have e83 := hM.c83 _ (shpX P excl hX 83 _ (by decide) rfl)
  have e91 := hM.c91 _ (shpX P excl hX 91 _ (by decide) rfl)
  have e26 := hM.c26 _ (shpX P excl hX 26 _ (by decide) rfl)
  have hr : (E P excl inp).rho_n = rho_n (E P excl inp) := by
    show (den P excl inp 83).toS = _
    rw [e83]
    show rho_n (envOf P.base _) = _
    exact C01Loc.loc_rho_n _ _ rfl rfl
  have hp : (E P excl inp).press_n = press_n (E P excl inp) := by
    show (den P excl inp 91).toS = _
    rw [e91]
    show press_n (envOf P.base _) = _
    exact C01Loc.loc_press_n _ _ rfl rfl
  have hgu : (E P excl inp).gammaup4 = gammaup4 (E P excl inp) := by
    show (den P excl inp 26).toT44 = _
    rw [e26]
    show gammaup4 (envOf P.base _) = _
    exact C01Loc.loc_gammaup4 _ _ rfl
  exact C01Coherence.Ttrace_coherent (E P excl inp) hM.three (gup4_E P excl inp hX hM) hgu hr hp

/-- the denotation of `Ttrace` is the trace `g^{ab} T_ab` of the denotation of `Tdown4` (whichever alternative the inputs
select). -/
theorem Ttrace_E (hX : NotExcl excl cone82) (hM : TraceCons P excl inp) (c82 : Cons P excl inp 82) :
    (E P excl inp).Ttrace = Ttrace__Tdown4 (E P excl inp) := by
  have e82 := c82 _ (shpX P excl hX 82 _ (by decide) rfl)
  cases hc : contains inp 80 with
  | true =>
    show (den P excl inp 82).toS = _
    rw [e82]
    simp only [sh_82, evalShape, Guard.eval, hc, Bool.not_true, Bool.false_eq_true, ↓reduceIte]
    show Ttrace__Tdown4 (envOf P.base _) = _
    exact C01Loc.loc_Ttrace_Tdown4 _ _ rfl rfl
  | false =>
    rw [Ttrace_key_E P excl inp hX hM]
    show (den P excl inp 82).toS = _
    rw [e82]
    simp only [sh_82, evalShape, Guard.eval, hc, Bool.not_false, ↓reduceIte]
    show Ttrace__dflt (envOf P.base _) = _
    exact C01Loc.loc_Ttrace_dflt _ _ rfl rfl

/-! ### the two bodies -/

variable (hX : NotExcl excl cone122) (hX82 : NotExcl excl cone82) (hX116 : NotExcl excl cone116)
  (hX120 : NotExcl excl cone120)
include hX hX82 hX116 hX120

/-- **`st_Ricci_down4`** (`if 'Tdown4' in self.data: Λ g + κ (T − ½ T g) else: contraction of st_Riemann_uddd4`) is
branch-coherent ON SHELL. -/
theorem coh_122 (hI : InputsOK P excl inp) (T : TimeJet2 K) (hS : ShellHyp P excl inp T) (hi : get? inp 122 = none) :
    CohM (TTab P excl) (den P excl inp) (fun k => (get? inp k).isSome = true) (den P excl inp 122) 122
      (.test (.pres 80) (.read 31 (.read 80 (.read 82 (.read 31 (.ret 0))))) (.read 119 (.ret 1))) [] := by
  have hs := shpX P excl hX 122 (.test (.pres 80) (.read 31 (.read 80 (.read 82 (.read 31 (.ret 0))))) (.read 119 (.ret 1)))
    (by decide) rfl
  refine cohM_test (TTab_ok P excl) inp (.s 0) 18 rankOf_lt 122 _ _ _ hs hi rfl rfl ?_
  intro _ _
  have M := mainardi_E P excl inp hX hX116 hI.trace.c32 hS.c48 hI.ricci hS.c116
  have C : RicciChain (E P excl inp) := ⟨R3_E P excl inp hX hS.c123 hi, Ru_E P excl inp hX hS.c119⟩
  have hTt := Ttrace_E P excl inp hX82 hI.trace hS.c82
  have hA : evalShape (TTab P excl) (den P excl inp) (fun k => contains inp k) (.s 0) 122
      (.read 31 (.read 80 (.read 82 (.read 31 (.ret 0))))) [] = Val.t44 (st_Ricci_down4__Tdown4 (E P excl inp)) := by
    show Val.t44 (st_Ricci_down4__Tdown4 (envOf P.base _)) = _
    exact congrArg Val.t44 (C01Loc.loc_st_Ricci_down4_Tdown4 _ _ rfl rfl rfl rfl rfl)
  have hB : evalShape (TTab P excl) (den P excl inp) (fun k => contains inp k) (.s 0) 122 (.read 119 (.ret 1)) []
      = Val.t44 (st_Ricci_down4__dflt (E P excl inp)) := by
    show Val.t44 (st_Ricci_down4__dflt (envOf P.base _)) = _
    exact congrArg Val.t44 (C01Loc.loc_st_Ricci_down4_dflt _ _ rfl)
  refine hA.trans (Eq.trans ?_ hB.symm)
  refine congrArg Val.t44 ?_
  funext a b
  symm
  rcases hS.shell with ⟨hv, hE⟩ | ⟨hv, hvac, hT0, hL⟩
  · exact C01Coherence.st_Ricci_down4_onshell_coherent (E P excl inp) T hS.curv M C
      (Rd_E_matter P excl inp hX120 hS.c120 hv) hTt hE a b
  · exact C01Coherence.st_Ricci_down4_vacuum_coherent (E P excl inp) T hS.curv M C.hRu
      (Rd_E_vacuum P excl inp hX120 hS.c120 hv) hvac hT0 hL hTt a b

/-- **`st_Ricci_down3`** (`if 'st_Ricci_down4' in self.data: its spatial block else: Λ γ + κ (T_ij − ½ T γ)`) is
branch-coherent ON SHELL (algebraically when `Tdown4` is supplied). -/
theorem coh_123 (hI : InputsOK P excl inp) (T : TimeJet2 K) (hS : ShellHyp P excl inp T) (hi : get? inp 123 = none) :
    CohM (TTab P excl) (den P excl inp) (fun k => (get? inp k).isSome = true) (den P excl inp 123) 123
      (.test (.pres 122) (.read 122 (.ret 0)) (.read 21 (.read 80 (.read 80 (.read 32 (.read 21 (.ret 1))))))) [] := by
  have hs := shpX P excl hX 123 (.test (.pres 122) (.read 122 (.ret 0))
    (.read 21 (.read 80 (.read 80 (.read 32 (.read 21 (.ret 1))))))) (by decide) rfl
  refine cohM_test (TTab_ok P excl) inp (.s 0) 18 rankOf_lt 123 _ _ _ hs hi rfl rfl ?_
  intro _ hf
  have h122 := feasibleM_pres_false inp hf
  have M := mainardi_E P excl inp hX hX116 hI.trace.c32 hS.c48 hI.ricci hS.c116
  have C : RicciChain (E P excl inp) :=
    ⟨R3_E P excl inp hX (cons_of_absent P excl inp 123 hi) h122, Ru_E P excl inp hX hS.c119⟩
  have hTt := Ttrace_E P excl inp hX82 hI.trace hS.c82
  have e122 := den_unfold P excl inp 122 _ h122 (shpX P excl hX 122 _ (by decide) rfl)
  have hA : evalShape (TTab P excl) (den P excl inp) (fun k => contains inp k) (.s 0) 123 (.read 122 (.ret 0)) []
      = Val.t33 (st_Ricci_down3__st_Ricci_down4 (E P excl inp)) := by
    show Val.t33 (st_Ricci_down3__st_Ricci_down4 (envOf P.base _)) = _
    exact congrArg Val.t33 (C01Loc.loc_st_Ricci_down3_cached _ _ rfl)
  have hB : evalShape (TTab P excl) (den P excl inp) (fun k => contains inp k) (.s 0) 123
      (.read 21 (.read 80 (.read 80 (.read 32 (.read 21 (.ret 1)))))) []
      = Val.t33 (st_Ricci_down3__dflt (E P excl inp)) := by
    show Val.t33 (st_Ricci_down3__dflt (envOf P.base _)) = _
    exact congrArg Val.t33 (C01Loc.loc_st_Ricci_down3_dflt _ _ rfl rfl rfl rfl rfl)
  refine hA.trans (Eq.trans ?_ hB.symm)
  refine congrArg Val.t33 ?_
  funext i j
  cases hc : contains inp 80 with
  | true =>
    have hR4 : (E P excl inp).st_Ricci_down4 = st_Ricci_down4__Tdown4 (E P excl inp) := by
      show (den P excl inp 122).toT44 = _
      rw [e122]
      simp only [sh_122, evalShape, Guard.eval, hc, ↓reduceIte]
      show st_Ricci_down4__Tdown4 (envOf P.base _) = _
      exact C01Loc.loc_st_Ricci_down4_Tdown4 _ _ rfl rfl rfl rfl rfl
    exact C01Coherence.st_Ricci_down3_coherent_of_T (E P excl inp) hS.curv.asm hR4 hTt i j
  | false =>
    have hR4 : (E P excl inp).st_Ricci_down4 = st_Ricci_down4__dflt (E P excl inp) := by
      show (den P excl inp 122).toT44 = _
      rw [e122]
      simp only [sh_122, evalShape, Guard.eval, hc, Bool.false_eq_true, ↓reduceIte]
      show st_Ricci_down4__dflt (envOf P.base _) = _
      exact C01Loc.loc_st_Ricci_down4_dflt _ _ rfl
    rcases hS.shell with ⟨hv, hE⟩ | ⟨hv, hvac, hT0, hL⟩
    · exact C01Coherence.st_Ricci_down3_onshell_coherent (E P excl inp) T hS.curv M C
        (Rd_E_matter P excl inp hX120 hS.c120 hv) hR4 hE i j
    · have h1 : st_Ricci_down4__Tdown4 (E P excl inp) i.succ j.succ = 0 := by
        rw [C01Coherence.st_Ricci_down4_Tdown4_is_matter (E P excl inp) M.hgup hTt]
        simp only [Spec.Curvature.ricciOfMatter, hT0, hL, Spec.Curvature.trace, mul_zero, Finset.sum_const_zero, zero_mul,
          sub_self, add_zero]
      have h2 : st_Ricci_down3__dflt (E P excl inp) i j = 0 := by
        rw [C04.st_Ricci_down3_dflt_spec]
        simp only [hT0, hL, mul_zero, Finset.sum_const_zero, zero_mul, sub_self, add_zero]
      rw [C04.st_Ricci_down3_cached_spec, hR4,
        C01Coherence.st_Ricci_down4_vacuum_coherent (E P excl inp) T hS.curv M C.hRu
          (Rd_E_vacuum P excl inp hX120 hS.c120 hv) hvac hT0 hL hTt, h1, h2]

end shell

/-! ### `HardCoh3` shrinks to `HardCoh1` -/

section asm1
variable (P : Params K) (excl : List Nat) (inp : Dict Nat (Val K))

/-- the one guarded body whose coherence is still a hypothesis: `st_Weyl_down4` (Riemann-based vs E/B-based construction;
per-guard theorems: Props/C10Coh.lean; what is missing to discharge it here: header of this file). -/
def HardCoh1 : Prop :=
  ∀ sh, get? inp 133 = none → (TTab P excl).shape 133 = some sh →
    CohM (TTab P excl) (den P excl inp) (fun k => (get? inp k).isSome = true) (den P excl inp 133) 133 sh []

theorem hardCoh1_of_excluded (h : excl.contains 133 = true) : HardCoh1 P excl inp :=
  fun sh _ hs => (excluded_vacuous P excl 133 h sh hs).elim

/-- **`HardCoh3` on shell**: `st_Ricci_down4` and `st_Ricci_down3` are discharged by `coh_122`, `coh_123`. -/
theorem hardCoh3_of (hX : NotExcl excl cone122) (hX82 : NotExcl excl cone82) (hX116 : NotExcl excl cone116)
    (hX120 : NotExcl excl cone120) (hI : InputsOK P excl inp) (T : TimeJet2 K) (hS : ShellHyp P excl inp T)
    (h1 : HardCoh1 P excl inp) : HardCoh3 P excl inp := by
  intro k hk sh hi hs
  have hso := TTab_shape_of P excl k sh hs
  simp only [hardKeys3, List.contains_eq_mem, List.mem_cons, List.not_mem_nil, or_false, decide_eq_true_eq] at hk
  rcases hk with rfl | rfl | rfl
  · have h0 : shapeOf 122 = some (.test (.pres 80) (.read 31 (.read 80 (.read 82 (.read 31 (.ret 0)))))
        (.read 119 (.ret 1))) := rfl
    rw [h0] at hso; cases hso; exact coh_122 P excl inp hX hX82 hX116 hX120 hI T hS hi
  · have h0 : shapeOf 123 = some (.test (.pres 122) (.read 122 (.ret 0))
        (.read 21 (.read 80 (.read 80 (.read 32 (.read 21 (.ret 1))))))) := rfl
    rw [h0] at hso; cases hso; exact coh_123 P excl inp hX hX82 hX116 hX120 hI T hS hi
  · exact h1 sh hi hs

end asm1

/-- `st_Weyl_down4` and the five keys that (transitively) read it: `Weyl_Psi`, `Psi4_lm`, `Weyl_invariants`,
`eweyl_u_down4`, `bweyl_u_down4`. -/
def excl155 : List Nat := [133, 134, 135, 136, 137, 139]

theorem sub155_closed :
    shapes.all (fun p => excl155.contains p.1 || (shapeReads p.2).all (fun r => !excl155.contains r)) = true
    ∧ (shapes.filter (fun p => !excl155.contains p.1)).length = 155 := by
  decide +kernel

theorem hardCoh_155 (P : Params K) (inp : Dict Nat (Val K)) (hI : InputsOK P excl155 inp) (T : TimeJet2 K)
    (hS : ShellHyp P excl155 inp T) : HardCoh P excl155 inp :=
  hardCoh_of P excl155 inp (Or.inr ⟨notExcl_of_all (by decide +kernel), hI.metric⟩)
    (Or.inr ⟨notExcl_of_all (by decide +kernel), hI.trace⟩) (Or.inr ⟨notExcl_of_all (by decide +kernel), hI.ricci⟩)
    (Or.inr ⟨notExcl_of_all (by decide +kernel), hI.mom⟩)
    (hardCoh4_of P excl155 inp (Or.inr (notExcl_of_all (by decide +kernel)))
      (hardCoh3_of P excl155 inp (notExcl_of_all (by decide +kernel)) (notExcl_of_all (by decide +kernel))
        (notExcl_of_all (by decide +kernel)) (notExcl_of_all (by decide +kernel)) hI T hS
        (hardCoh1_of_excluded P excl155 inp (by decide))))

/-- **155 keys ON SHELL, no hypothesis about any body**: the REAL table without `st_Weyl_down4` and the five keys that read
it, closed under reads (`sub155_closed`).  For every field `K`, every operator `D` and second time derivatives `T` with the
Layer-B hypotheses `CurvHyp` on the jet assembled from the denotations, every input dictionary satisfying `InputsOK`
(consistency of redundantly supplied names, regular metric) and Einstein's equations for that jet (`ShellHyp.shell`, in the
form matching the option `vacuum`), every admissible eviction policy, every history and every final request `k`: the value
returned is the denotation = what a fresh instance returns. -/
theorem sub155_transparent_onshell {σ σ' : Type} (P : Params K) (inp : Dict Nat (Val K)) (hI : InputsOK P excl155 inp)
    (T : TimeJet2 K) (hS : ShellHyp P excl155 inp T)
    (pol : Policy σ Nat (Val K)) (hpol : PolicyOK (IsInput inp) pol)
    (pol' : Policy σ' Nat (Val K)) (hpol' : PolicyOK (IsInput inp) pol')
    (s0 : σ) (s0' : σ') (fuel fuel' : Nat) (h : List (HOp Nat)) (k : Nat)
    (c : Cfg σ Nat (Val K)) (vs : List (Val K))
    (hrun : runHist (TTab P excl155) pol fuel (s0, inp) (h ++ [.req k]) = .ok (c, vs))
    (c' : Cfg σ' Nat (Val K)) (v' : Val K) (hfresh : getF (TTab P excl155) pol' fuel' (s0', inp) k = .ok (c', v')) :
    vs.getLast? = some v' ∧ v' = den P excl155 inp k :=
  tab_transparent P excl155 inp (hE_of_all (by decide +kernel)) (hardCoh_155 P inp hI T hS) pol hpol pol' hpol' s0 s0' fuel
    fuel' h k c vs hrun c' v' hfresh

/-- **all 161 keys ON SHELL** — PARTIAL: coherence of the body of `st_Weyl_down4` (`HardCoh1`) is still a hypothesis; the
full statement `tab_transparent_onshell` is this one without `h1` (what is missing: header of this file). -/
theorem tab_transparent_onshell_partial {σ σ' : Type} (P : Params K) (inp : Dict Nat (Val K)) (hI : InputsOK P [] inp)
    (T : TimeJet2 K) (hS : ShellHyp P [] inp T) (h1 : HardCoh1 P [] inp)
    (pol : Policy σ Nat (Val K)) (hpol : PolicyOK (IsInput inp) pol)
    (pol' : Policy σ' Nat (Val K)) (hpol' : PolicyOK (IsInput inp) pol')
    (s0 : σ) (s0' : σ') (fuel fuel' : Nat) (h : List (HOp Nat)) (k : Nat)
    (c : Cfg σ Nat (Val K)) (vs : List (Val K))
    (hrun : runHist (TTab P []) pol fuel (s0, inp) (h ++ [.req k]) = .ok (c, vs))
    (c' : Cfg σ' Nat (Val K)) (v' : Val K) (hfresh : getF (TTab P []) pol' fuel' (s0', inp) k = .ok (c', v')) :
    vs.getLast? = some v' ∧ v' = den P [] inp k :=
  tab_transparent_inputs3 P inp hI
    (hardCoh3_of P [] inp (fun _ _ => rfl) (fun _ _ => rfl) (fun _ _ => rfl) (fun _ _ => rfl) hI T hS h1)
    pol hpol pol' hpol' s0 s0' fuel fuel' h k c vs hrun c' v' hfresh

end AurelVerif.C01Tab
