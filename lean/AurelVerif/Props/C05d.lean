/-
Props/C05d.lean — property C05, second extension round: the LAST gap of T12 (BSSNOK).  ONLY property statements and
non-vacuity examples; proofs in Lemmas/C05Bssn.lean (namespace `AurelVerif.C05L`), index algebra in Lemmas/C05BssnAlg.lean,
textbook vocabulary in Spec/Covd.lean (`ricciConformal` = Alcubierre (2.8.17) / Baumgarte–Shapiro (11.42), `riemann`, `ricci`,
`christoffel2`, `gammaVec`, `lowerG`).  Conventions as in Props/C05.lean / C05b.lean: every un-prefixed definition
(`s_Ricci_down3_bssnok`, `s_Ricci_down3_phi`, `s_Ricci_down3__dflt`, `s_Gamma_bssnok`, …) is GENERATED from the current core.py;
`e.X` is the cached value of key `X`, a hypothesis `e.X = X e` says "entry X was produced by the code's own formula"; `e.D` is the
uninterpreted finite-difference operator, `e.psi_bssnok = rpowF det 1 12` and `e.phi_bssnok = logF ψ` are opaque.

Props/C05b proved `ricci_conformal_split`: direct `s_Ricci_down3` = Ricci tensor of the code's conformal CONNECTION + `s_Ricci_down3_phi`.
Here (ALL LAYER B — consistency: additivity, product rule and commuting derivatives, stated as the instances used and derived
from `Deriv` + `DComm`; the finite-difference operators satisfy them only up to truncation error):

  ricciConformal_is_ricci        TEXTBOOK LEVEL: for a symmetric `g` with inverse `u` and unit determinant (`u^{ij}∂_k g_ij = 0`),
                                 the BSSNOK expression (2.8.17) built with `Γ̃^i = −∂_j u^{ij}` and the Christoffel symbols of `g`
                                 is the Ricci tensor `R^a_{iaj}` of that Christoffel connection.
  bssnRules_of_deriv             the five operator instances (`BssnRules`) hold for a derivation with commuting partials.
  uniMetric_of_code              the code's `γ̃_ij = ψ⁻⁴γ_ij`, `γ̃^{ij} = ψ⁴γ^{ij}` form a unit-determinant metric (`UniMetric`), given
                                 the chain rule for the conformal rescaling (`ConfChain`).
  conf_connection_of_code        the code's `s_Gamma_udd3_bssnok` ((2.8.14)) IS the Christoffel connection of `γ̃`.
  confChain_of_deriv             `ConfChain` from `Deriv`, `ψ¹² = det γ`, `∂(logF ψ)·ψ = ∂ψ` and Jacobi's formula (C05b).
  s_Ricci_down3_bssnok_is_ricci  the code's `s_Ricci_down3_bssnok` = Ricci tensor of `s_Gamma_udd3_bssnok` (= of γ̃).
  ricci_bssnok_split             `s_Ricci_down3_bssnok + s_Ricci_down3_phi = s_Ricci_down3` (direct, default alternative):
                                 "both direct and conformal/BSSNOK-split forms" of the property are ONE Ricci tensor.
  ricci_bssnok_split_alt         the same for the alternative of `s_Ricci_down3` used when `s_Riemann_down3` is cached.
  ricci_bssnok_split_of_deriv    all hypotheses on the operator replaced by `Deriv e.D` + `DComm e.D`.

The index order of every term of the code's expression was compared with (2.8.17) (Props/C05 `s_Ricci_down3_bssnok_spec`,
Layer A); with the present theorems no term, sign or factor of the code's expression can differ from the book's.
STILL NOT PROVEN: the second Bianchi identity; convergence order; round-off.  The chain rules for the OPAQUE `rpowF`/`logF`
(`ψ¹² = det γ`, `∂ ln ψ = ∂ψ/ψ`) are hypotheses (`ConfChain` / `confChain_of_deriv`).
-/
import AurelVerif.Props.C05b
import AurelVerif.Lemmas.C05Bssn

set_option linter.unusedSimpArgs false
set_option linter.unusedVariables false
set_option linter.unusedSectionVars false
set_option linter.unusedTactic false
set_option linter.unreachableTactic false
set_option linter.unnecessarySeqFocus false

namespace AurelVerif.C05
open AurelVerif.Gen.Core AurelVerif.Tensor AurelVerif.CoreTac AurelVerif.C08 AurelVerif.Spec.Covd
open AurelVerif.C05L (SymLow MetricOK ProdRuleInv Deriv DComm CurvRules ConfRules ConfWeights trDgamma
  UniMetric BssnRules ConfChain)

variable {K : Type} [Field K]

/-! ## textbook level -/

/-- `BssnRules D g u v` (commuting second derivatives of `g`; product rule + linearity on `Γ^k_ij = u^{kl}Γ_lij`; product rule on
`u g = 1`; additivity on the vanishing contraction `Γ^a_ab`; product rule on `g_ki Γ̃^k = u^{lk}∂_l g_ki`) holds for every derivation
with commuting partial derivatives. -/
theorem bssnRules_of_deriv (D : Fin 3 → K → K) (g u : Fin 3 → Fin 3 → K) (v : Fin 3 → K) (hD : Deriv D) (hc : DComm D)
    (h2 : (2 : K) ≠ 0) (hinv : ∀ i k, ∑ j, u i j * g j k = delta i k) : BssnRules D g u v :=
  C05L.bssnRules_of_deriv D g u v hD hc h2 hinv

/-- **Alcubierre (2.8.17) / Baumgarte–Shapiro (11.42) is the Ricci tensor of the conformal metric.**
`−½ u^{lm}∂_l∂_m g_ij + g_{k(i}∂_{j)}Γ̃^k + Γ̃^kΓ_{(ij)k} + u^{lm}(2Γ^k_{l(i}Γ_{j)km} + Γ^k_{im}Γ_{klj}) = R^a_{iaj}`
for a symmetric `g` with symmetric inverse `u`, `u^{ij}∂_k g_ij = 0` (unit determinant), `Γ̃^i = −∂_j u^{ij}`, `Γ` the Christoffel
symbols of `g` and `Γ_{ijk} = g_il Γ^l_jk`.  Layer B (`BssnRules`). -/
theorem ricciConformal_is_ricci (D : Fin 3 → K → K) (g u : Fin 3 → Fin 3 → K) (v : Fin 3 → K) (h2 : (2 : K) ≠ 0)
    (hm : UniMetric D g u) (hv : ∀ i, v i = gammaVec D u i) (hr : BssnRules D g u v) (i j : Fin 3) :
    ricciConformal D g u v (christoffel2 D u g) (lowerG g (christoffel2 D u g)) i j
      = ricci (riemann D (christoffel2 D u g)) i j :=
  C05L.ricciConformal_is_ricci h2 hm hv hr i j

/-! ## the code -/

/-- `ConfChain e` (`∂_kγ̃_ij = ψ⁻⁴(∂_kγ_ij − 4γ_ij∂_kφ)`, `12∂_kφ = γ^{ab}∂_kγ_ab`) from `Deriv e.D`, the two properties
`ψ¹² = det γ` and `∂_k(logF ψ)·ψ = ∂_kψ` of the opaque power and logarithm, and Jacobi's formula for the code's determinant. -/
theorem confChain_of_deriv (e : Env K) (hD : Deriv e.D) (hs : Sym e.gammadown3) (hgdet : e.gammadet = gammadet e)
    (hu : e.gammaup3 = gammaup3 e) (hd : gammadet e ≠ 0) (hgd : e.gammadown3_bssnok = gammadown3_bssnok e)
    (hpsi : e.psi_bssnok ^ 12 = e.gammadet) (hlog : ∀ k, e.D k e.phi_bssnok * e.psi_bssnok = e.D k e.psi_bssnok) :
    ConfChain e := C05L.confChain_of_deriv e hD hs hgdet hu hd hgd hpsi hlog

/-- the code's conformal metric and inverse are symmetric, inverse to each other, and `γ̃^{ij}∂_kγ̃_ij = 0`. -/
theorem uniMetric_of_code (e : Env K) (h : MetricOK e) (hpsi : e.psi_bssnok ≠ 0)
    (hgd : e.gammadown3_bssnok = gammadown3_bssnok e) (hgu : e.gammaup3_bssnok = gammaup3_bssnok e)
    (hc : ConfChain e) : UniMetric e.D e.gammadown3_bssnok e.gammaup3_bssnok :=
  C05L.uniMetric_of_code e h hpsi hgd hgu hc

/-- **the code's conformal connection ((2.8.14), built from the PHYSICAL connection and ∂φ) is the Christoffel connection of the
conformal metric**: `Γ̃^k_ij = ½γ̃^{kl}(∂_iγ̃_lj + ∂_jγ̃_li − ∂_lγ̃_ij)`. -/
theorem conf_connection_of_code (e : Env K) (h : MetricOK e) (h2 : (2 : K) ≠ 0) (hpsi : e.psi_bssnok ≠ 0)
    (hgu : e.gammaup3_bssnok = gammaup3_bssnok e) (hB : e.s_Gamma_udd3_bssnok = s_Gamma_udd3_bssnok e)
    (hc : ConfChain e) (k i j : Fin 3) :
    e.s_Gamma_udd3_bssnok k i j = christoffel2 e.D e.gammaup3_bssnok e.gammadown3_bssnok k i j :=
  C05L.conf_connection_of_code e h h2 hpsi hgu hB hc k i j

/-- **the code's `s_Ricci_down3_bssnok` is the Ricci tensor of the conformal connection / metric** (stated at the level of the
cached conformal metric: `γ̃` a unit-determinant metric, `Γ̃` its Christoffel connection, `Γ̃^i` the code's `−∂_jγ̃^{ij}`). -/
theorem s_Ricci_down3_bssnok_is_ricci (e : Env K) (h2 : (2 : K) ≠ 0)
    (hm : UniMetric e.D e.gammadown3_bssnok e.gammaup3_bssnok) (hGv : e.s_Gamma_bssnok = s_Gamma_bssnok e)
    (hΓ : ∀ k i j, e.s_Gamma_udd3_bssnok k i j = christoffel2 e.D e.gammaup3_bssnok e.gammadown3_bssnok k i j)
    (hr : BssnRules e.D e.gammadown3_bssnok e.gammaup3_bssnok e.s_Gamma_bssnok) (i j : Fin 3) :
    s_Ricci_down3_bssnok e i j = ricci (riemann e.D e.s_Gamma_udd3_bssnok) i j :=
  C05L.s_Ricci_down3_bssnok_is_ricci e h2 hm hGv hΓ hr i j

/-- **`R̃_ij + R^φ_ij = R_ij`**: the code's BSSNOK-split Ricci tensor equals the code's direct `s_Ricci_down3` (default alternative,
from the physical connection).  Layer B. -/
theorem ricci_bssnok_split (e : Env K) (h : MetricOK e) (h2 : (2 : K) ≠ 0) (hpsi : e.psi_bssnok ≠ 0)
    (hgd : e.gammadown3_bssnok = gammadown3_bssnok e) (hgu : e.gammaup3_bssnok = gammaup3_bssnok e)
    (hB : e.s_Gamma_udd3_bssnok = s_Gamma_udd3_bssnok e) (hGv : e.s_Gamma_bssnok = s_Gamma_bssnok e)
    (hp : ProdRuleInv e) (hcr : ConfRules e) (hc : ConfChain e)
    (hr : BssnRules e.D e.gammadown3_bssnok e.gammaup3_bssnok e.s_Gamma_bssnok) (b d : Fin 3) :
    s_Ricci_down3_bssnok e b d + s_Ricci_down3_phi e b d = s_Ricci_down3__dflt e b d :=
  C05L.ricci_bssnok_split e h h2 hpsi hgd hgu hB hGv hp hcr hc hr b d

/-- the same for the alternative of `s_Ricci_down3` used when `s_Riemann_down3` is cached (`γ^{ac}R_abcd`). -/
theorem ricci_bssnok_split_alt (e : Env K) (h : MetricOK e) (h2 : (2 : K) ≠ 0) (hpsi : e.psi_bssnok ≠ 0)
    (hgd : e.gammadown3_bssnok = gammadown3_bssnok e) (hgu : e.gammaup3_bssnok = gammaup3_bssnok e)
    (hB : e.s_Gamma_udd3_bssnok = s_Gamma_udd3_bssnok e) (hGv : e.s_Gamma_bssnok = s_Gamma_bssnok e)
    (hp : ProdRuleInv e) (hcr : ConfRules e) (hc : ConfChain e)
    (hr : BssnRules e.D e.gammadown3_bssnok e.gammaup3_bssnok e.s_Gamma_bssnok)
    (hR : e.s_Riemann_uddd3 = s_Riemann_uddd3 e) (hRd : e.s_Riemann_down3 = s_Riemann_down3 e) (b d : Fin 3) :
    s_Ricci_down3_bssnok e b d + s_Ricci_down3_phi e b d = s_Ricci_down3__s_Riemann_down3 e b d := by
  rw [s_Ricci_down3_alt_spec e hRd (C05L.MetricOK.hinv' e h) b d, hR, ← s_Ricci_down3_dflt_spec]
  exact ricci_bssnok_split e h h2 hpsi hgd hgu hB hGv hp hcr hc hr b d

/-- **one Ricci tensor, for every derivation with commuting partial derivatives**: all entries produced by the code's formulas,
`det γ ≠ 0`, `ψ¹² = det γ`, `∂(logF ψ)·ψ = ∂ψ`. -/
theorem ricci_bssnok_split_of_deriv (e : Env K) (hD : Deriv e.D) (hc : DComm e.D) (h2 : (2 : K) ≠ 0)
    (hs : Sym e.gammadown3) (hd : gammadet e ≠ 0) (hgdet : e.gammadet = gammadet e) (hu : e.gammaup3 = gammaup3 e)
    (hG : e.s_Gamma_udd3 = s_Gamma_udd3 e)
    (hgd : e.gammadown3_bssnok = gammadown3_bssnok e) (hgu : e.gammaup3_bssnok = gammaup3_bssnok e)
    (hB : e.s_Gamma_udd3_bssnok = s_Gamma_udd3_bssnok e) (hGv : e.s_Gamma_bssnok = s_Gamma_bssnok e)
    (hpsi : e.psi_bssnok ^ 12 = e.gammadet) (hlog : ∀ k, e.D k e.phi_bssnok * e.psi_bssnok = e.D k e.psi_bssnok)
    (b d : Fin 3) :
    s_Ricci_down3_bssnok e b d + s_Ricci_down3_phi e b d = s_Ricci_down3__dflt e b d := by
  have h := metricOK_of_code e hs hd hu hG
  have hp0 : e.psi_bssnok ≠ 0 := by
    intro h0; rw [h0] at hpsi; apply hd; rw [← hgdet, ← hpsi]; simp
  have hch := confChain_of_deriv e hD hs hgdet hu hd hgd hpsi hlog
  have hm := uniMetric_of_code e h hp0 hgd hgu hch
  exact ricci_bssnok_split e h h2 hp0 hgd hgu hB hGv (prodRuleInv_of_deriv e hD h) (confRules_of_deriv e hD hc hB) hch
    (bssnRules_of_deriv e.D _ _ _ hD hc h2 hm.hinv) b d

end AurelVerif.C05
