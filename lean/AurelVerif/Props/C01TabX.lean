/-
Props/C01TabX.lean — property C01, extension round 6: the transparency theorems obtained from the coherence proofs of
Props/C01TabG.lean (`gdet`) and Props/C01TabH.lean (`Momentumup3`, `s_Ricci_down3`, `Ttrace`).

`HardCoh` (8 bodies, Props/C01TabT.lean) shrinks to `HardCoh4`: `st_Riemann_down4` (120), `st_Ricci_down4` (122),
`st_Ricci_down3` (123), `st_Weyl_down4` (133).  For the other four the hypotheses are about the INPUTS only
(consistency of redundantly supplied names, regular metric), never about a body:

  * `sub125_transparent`  124 keys + `gdet`                       under `MetricCons`
  * `sub139_transparent`  … + `Momentumup3` and the 13 keys that read it   under `MetricCons`, `MomCons`
  * `sub147_transparent`  … + `Ttrace`, `s_Ricci_down3` and the 6 keys that only read those   under `InputsOK`
  * `tab_transparent_inputs`  all 161 keys under `InputsOK` and `HardCoh4`.
Each sub-table is closed under reads (`sub125_closed`, `sub139_closed`, `sub147_closed`).  When none of the redundant
names is supplied the input hypotheses reduce to `α ≠ 0`, `det γ ≠ 0`, `3 ≠ 0` (`inputsOK_of_absent`), and for 139 keys
to nothing at all (`sub139_transparent_plain`).

NOT covered: the four bodies of `HardCoh4` (and the 14 keys that depend on them); `st_Riemann_down4`,
`st_Riemann_uddd4`, `st_Riemann_uudd4`, `st_Weyl_down4` and 9 other keys have arbitrary return-site formulas (`rest`).
-/
import AurelVerif.Props.C01TabH

set_option linter.unusedSectionVars false
set_option linter.unusedSimpArgs false
set_option linter.unusedVariables false

namespace AurelVerif.C01Tab
open AurelVerif.Cache AurelVerif.Cache.Dict AurelVerif.CacheGet AurelVerif.Gen.Core AurelVerif.Tensor AurelVerif.CoreTac
open AurelVerif.Gen.C01Table AurelVerif.Gen.DepGraph
open AurelVerif.C01 (IsInput shapeOf rankOf)

variable {K : Type} [Field K]

section asm
variable (P : Params K) (excl : List Nat) (inp : Dict Nat (Val K))

/-- the guarded bodies whose coherence is still a hypothesis. -/
def hardKeys4 : List Nat := [120, 122, 123, 133]

def HardCoh4 : Prop :=
  ∀ k, hardKeys4.contains k = true → ∀ sh, get? inp k = none → (TTab P excl).shape k = some sh →
    CohM (TTab P excl) (den P excl inp) (fun k => (get? inp k).isSome = true) (den P excl inp k) k sh []

theorem excluded_vacuous (k : Nat) (hex : excl.contains k = true) (sh : Shape Nat)
    (hs : (TTab P excl).shape k = some sh) : False := by
  simp only [TTab, hex, ↓reduceIte] at hs
  cases hs

/-- **`HardCoh` from input hypotheses**: for each of `gdet`, `Ttrace`, `s_Ricci_down3`, `Momentumup3`, either the key is
excluded from the table or its input-consistency hypothesis holds. -/
theorem hardCoh_of
    (h33 : excl.contains 33 = true ∨ (NotExcl excl cone33 ∧ MetricCons P excl inp))
    (h82 : excl.contains 82 = true ∨ (NotExcl excl cone82 ∧ TraceCons P excl inp))
    (h116 : excl.contains 116 = true ∨ (NotExcl excl cone116 ∧ RicciCons P excl inp))
    (h152 : excl.contains 152 = true ∨ (NotExcl excl cone152 ∧ MomCons P excl inp))
    (h4 : HardCoh4 P excl inp) : HardCoh P excl inp := by
  intro k hk sh hi hs
  have hso := TTab_shape_of P excl k sh hs
  simp only [hardKeys, List.contains_eq_mem, List.mem_cons, List.not_mem_nil, or_false, decide_eq_true_eq] at hk
  rcases hk with rfl | rfl | rfl | rfl | rfl | rfl | rfl | rfl
  · rcases h33 with hex | ⟨hN, hM⟩
    · exact (excluded_vacuous P excl 33 hex sh hs).elim
    · have h0 : shapeOf 33 = some (.test (.pres 31) (.read 31 (.ret 0)) (.read 0 (.read 24 (.ret 1)))) := rfl
      rw [h0] at hso; cases hso; exact coh_33 P excl inp hN hM hi
  · rcases h82 with hex | ⟨hN, hM⟩
    · exact (excluded_vacuous P excl 82 hex sh hs).elim
    · have h0 : shapeOf 82 = some (.test (.not (.pres 80)) (.read 91 (.read 83 (.ret 0))) (.read 80 (.read 32 (.ret 1)))) := rfl
      rw [h0] at hso; cases hso; exact coh_82 P excl inp hN hM hi
  · rcases h116 with hex | ⟨hN, hM⟩
    · exact (excluded_vacuous P excl 116 hex sh hs).elim
    · have h0 : shapeOf 116 = some (.test (.pres 115) (.read 115 (.read 22 (.ret 0))) (.rep (.lit 3) [113]
          (.rep (.lit 3) [113] (.rep (.lit 3) [113] (.read 113 (.read 113 (.read 113 (.read 113 (.ret 1))))))))) := rfl
      rw [h0] at hso; cases hso; exact coh_116 P excl inp hN hM hi
  · exact h4 120 (by decide) sh hi hs
  · exact h4 122 (by decide) sh hi hs
  · exact h4 123 (by decide) sh hi hs
  · exact h4 133 (by decide) sh hi hs
  · rcases h152 with hex | ⟨hN, hM⟩
    · exact (excluded_vacuous P excl 152 hex sh hs).elim
    · have h0 : shapeOf 152 = some (.test (.and (.and (.pres 146) (.pres 147)) (.pres 148))
          (.read 146 (.read 147 (.read 148 (.ret 0))))
          (.read 47 (.read 22 (.read 48 (.read 113 (.read 113 (.test (.flag "self.vacuum") (.ret 1) (.read 84 (.ret 2))))))))) := rfl
      rw [h0] at hso; cases hso; exact coh_152 P excl inp hN hM hi

/-- the input hypotheses of the four discharged bodies together. -/
structure InputsOK : Prop where
  metric : MetricCons P excl inp
  trace : TraceCons P excl inp
  ricci : RicciCons P excl inp
  mom : MomCons P excl inp

end asm

/-! ### the sub-tables -/

/-- `excl124` without `gdet` -/
def excl125 : List Nat := [82, 93, 116, 117, 119, 120, 121, 122, 123, 124, 125, 126, 133, 134, 135, 136, 137, 138, 139, 143, 144, 145, 146, 147, 148, 149, 150, 151, 152, 153, 155, 156, 157, 158, 159, 160]
/-- … without `Momentumup3` and its 13 dependents -/
def excl139 : List Nat := [82, 93, 116, 117, 119, 120, 121, 122, 123, 124, 125, 126, 133, 134, 135, 136, 137, 138, 139, 143, 144, 145]
/-- the four `hardKeys4` and the 10 keys that (transitively) read one of them -/
def excl147 : List Nat := [119, 120, 121, 122, 123, 124, 125, 126, 133, 134, 135, 136, 137, 139]

theorem sub125_closed :
    shapes.all (fun p => excl125.contains p.1 || (shapeReads p.2).all (fun r => !excl125.contains r)) = true
    ∧ (shapes.filter (fun p => !excl125.contains p.1)).length = 125 := by
  decide +kernel

theorem sub139_closed :
    shapes.all (fun p => excl139.contains p.1 || (shapeReads p.2).all (fun r => !excl139.contains r)) = true
    ∧ (shapes.filter (fun p => !excl139.contains p.1)).length = 139 := by
  decide +kernel

theorem sub147_closed :
    shapes.all (fun p => excl147.contains p.1 || (shapeReads p.2).all (fun r => !excl147.contains r)) = true
    ∧ (shapes.filter (fun p => !excl147.contains p.1)).length = 147 := by
  decide +kernel

theorem notExcl_of_all {excl L : List Nat} (h : L.all (fun k => !excl.contains k) = true) : NotExcl excl L := by
  intro k hk
  have := List.all_eq_true.mp h k (by simpa using hk)
  simpa using this

theorem hardCoh4_of_excluded (P : Params K) (excl : List Nat) (inp : Dict Nat (Val K))
    (h : hardKeys4.all (fun k => excl.contains k) = true) : HardCoh4 P excl inp := by
  intro k hk sh _ hs
  have := List.all_eq_true.mp h k (by simpa using hk)
  exact (excluded_vacuous P excl k this sh hs).elim

theorem hardCoh_125 (P : Params K) (inp : Dict Nat (Val K)) (hM : MetricCons P excl125 inp) : HardCoh P excl125 inp :=
  hardCoh_of P excl125 inp (Or.inr ⟨notExcl_of_all (by decide +kernel), hM⟩) (Or.inl (by decide)) (Or.inl (by decide))
    (Or.inl (by decide)) (hardCoh4_of_excluded P excl125 inp (by decide))

theorem hardCoh_139 (P : Params K) (inp : Dict Nat (Val K)) (hM : MetricCons P excl139 inp) (hMo : MomCons P excl139 inp) :
    HardCoh P excl139 inp :=
  hardCoh_of P excl139 inp (Or.inr ⟨notExcl_of_all (by decide +kernel), hM⟩) (Or.inl (by decide)) (Or.inl (by decide))
    (Or.inr ⟨notExcl_of_all (by decide +kernel), hMo⟩) (hardCoh4_of_excluded P excl139 inp (by decide))

theorem hardCoh_147 (P : Params K) (inp : Dict Nat (Val K)) (hI : InputsOK P excl147 inp) : HardCoh P excl147 inp :=
  hardCoh_of P excl147 inp (Or.inr ⟨notExcl_of_all (by decide +kernel), hI.metric⟩)
    (Or.inr ⟨notExcl_of_all (by decide +kernel), hI.trace⟩) (Or.inr ⟨notExcl_of_all (by decide +kernel), hI.ricci⟩)
    (Or.inr ⟨notExcl_of_all (by decide +kernel), hI.mom⟩) (hardCoh4_of_excluded P excl147 inp (by decide))

theorem hE_of_all {excl : List Nat} (h : coneKeys.all (fun k => !excl.contains k) = true) (k : Nat)
    (hk : coneKeys.contains k = true) : excl.contains k = false := notExcl_of_all h k hk

/-- **125 keys** (the 124 and `gdet`), closed under reads: transparent for every history, policy, `D`, option
valuation, provided the supplied metric pieces are consistent (`MetricCons`).  No hypothesis about a body. -/
theorem sub125_transparent {σ σ' : Type} (P : Params K) (inp : Dict Nat (Val K)) (hM : MetricCons P excl125 inp)
    (pol : Policy σ Nat (Val K)) (hpol : PolicyOK (IsInput inp) pol)
    (pol' : Policy σ' Nat (Val K)) (hpol' : PolicyOK (IsInput inp) pol')
    (s0 : σ) (s0' : σ') (fuel fuel' : Nat) (h : List (HOp Nat)) (k : Nat)
    (c : Cfg σ Nat (Val K)) (vs : List (Val K))
    (hrun : runHist (TTab P excl125) pol fuel (s0, inp) (h ++ [.req k]) = .ok (c, vs))
    (c' : Cfg σ' Nat (Val K)) (v' : Val K) (hfresh : getF (TTab P excl125) pol' fuel' (s0', inp) k = .ok (c', v')) :
    vs.getLast? = some v' ∧ v' = den P excl125 inp k :=
  tab_transparent P excl125 inp (hE_of_all (by decide +kernel)) (hardCoh_125 P inp hM) pol hpol pol' hpol' s0 s0' fuel fuel'
    h k c vs hrun c' v' hfresh

/-- **139 keys** (… and `Momentumup3`, `Momentumx|y|z`, `Momentumdown*`, the norms), closed under reads, under
consistency of redundantly supplied inputs only (`MetricCons`, `MomCons`). -/
theorem sub139_transparent {σ σ' : Type} (P : Params K) (inp : Dict Nat (Val K)) (hM : MetricCons P excl139 inp)
    (hMo : MomCons P excl139 inp)
    (pol : Policy σ Nat (Val K)) (hpol : PolicyOK (IsInput inp) pol)
    (pol' : Policy σ' Nat (Val K)) (hpol' : PolicyOK (IsInput inp) pol')
    (s0 : σ) (s0' : σ') (fuel fuel' : Nat) (h : List (HOp Nat)) (k : Nat)
    (c : Cfg σ Nat (Val K)) (vs : List (Val K))
    (hrun : runHist (TTab P excl139) pol fuel (s0, inp) (h ++ [.req k]) = .ok (c, vs))
    (c' : Cfg σ' Nat (Val K)) (v' : Val K) (hfresh : getF (TTab P excl139) pol' fuel' (s0', inp) k = .ok (c', v')) :
    vs.getLast? = some v' ∧ v' = den P excl139 inp k :=
  tab_transparent P excl139 inp (hE_of_all (by decide +kernel)) (hardCoh_139 P inp hM hMo) pol hpol pol' hpol' s0 s0' fuel
    fuel' h k c vs hrun c' v' hfresh

/-- the same with NO hypothesis at all when none of `gtt, betamag, betadown3, gammadet, gammadown3, Momentumx|y|z` is
supplied (the inputs are otherwise arbitrary). -/
theorem sub139_transparent_plain {σ σ' : Type} (P : Params K) (inp : Dict Nat (Val K))
    (habs : ∀ k, [27, 12, 11, 24, 21, 146, 147, 148].contains k = true → get? inp k = none)
    (pol : Policy σ Nat (Val K)) (hpol : PolicyOK (IsInput inp) pol)
    (pol' : Policy σ' Nat (Val K)) (hpol' : PolicyOK (IsInput inp) pol')
    (s0 : σ) (s0' : σ') (fuel fuel' : Nat) (h : List (HOp Nat)) (k : Nat)
    (c : Cfg σ Nat (Val K)) (vs : List (Val K))
    (hrun : runHist (TTab P excl139) pol fuel (s0, inp) (h ++ [.req k]) = .ok (c, vs))
    (c' : Cfg σ' Nat (Val K)) (v' : Val K) (hfresh : getF (TTab P excl139) pol' fuel' (s0', inp) k = .ok (c', v')) :
    vs.getLast? = some v' ∧ v' = den P excl139 inp k :=
  sub139_transparent P inp
    (metricCons_of_absent P excl139 inp (notExcl_of_all (by decide +kernel)) (habs 27 (by decide)) (habs 12 (by decide))
      (habs 11 (by decide)) (habs 24 (by decide)) (habs 21 (by decide)))
    (momCons_of_absent P excl139 inp (habs 146 (by decide)) (habs 147 (by decide)) (habs 148 (by decide)))
    pol hpol pol' hpol' s0 s0' fuel fuel' h k c vs hrun c' v' hfresh

/-- **147 keys**: everything except the four `hardKeys4` and the 10 keys that read them; closed under reads.
Hypotheses about the inputs only (`InputsOK`). -/
theorem sub147_transparent {σ σ' : Type} (P : Params K) (inp : Dict Nat (Val K)) (hI : InputsOK P excl147 inp)
    (pol : Policy σ Nat (Val K)) (hpol : PolicyOK (IsInput inp) pol)
    (pol' : Policy σ' Nat (Val K)) (hpol' : PolicyOK (IsInput inp) pol')
    (s0 : σ) (s0' : σ') (fuel fuel' : Nat) (h : List (HOp Nat)) (k : Nat)
    (c : Cfg σ Nat (Val K)) (vs : List (Val K))
    (hrun : runHist (TTab P excl147) pol fuel (s0, inp) (h ++ [.req k]) = .ok (c, vs))
    (c' : Cfg σ' Nat (Val K)) (v' : Val K) (hfresh : getF (TTab P excl147) pol' fuel' (s0', inp) k = .ok (c', v')) :
    vs.getLast? = some v' ∧ v' = den P excl147 inp k :=
  tab_transparent P excl147 inp (hE_of_all (by decide +kernel)) (hardCoh_147 P inp hI) pol hpol pol' hpol' s0 s0' fuel fuel'
    h k c vs hrun c' v' hfresh

/-- **all 161 keys** under the input hypotheses and coherence of the four remaining bodies. -/
theorem tab_transparent_inputs {σ σ' : Type} (P : Params K) (inp : Dict Nat (Val K)) (hI : InputsOK P [] inp)
    (h4 : HardCoh4 P [] inp)
    (pol : Policy σ Nat (Val K)) (hpol : PolicyOK (IsInput inp) pol)
    (pol' : Policy σ' Nat (Val K)) (hpol' : PolicyOK (IsInput inp) pol')
    (s0 : σ) (s0' : σ') (fuel fuel' : Nat) (h : List (HOp Nat)) (k : Nat)
    (c : Cfg σ Nat (Val K)) (vs : List (Val K))
    (hrun : runHist (TTab P []) pol fuel (s0, inp) (h ++ [.req k]) = .ok (c, vs))
    (c' : Cfg σ' Nat (Val K)) (v' : Val K) (hfresh : getF (TTab P []) pol' fuel' (s0', inp) k = .ok (c', v')) :
    vs.getLast? = some v' ∧ v' = den P [] inp k :=
  tab_transparent P [] inp (fun _ _ => rfl)
    (hardCoh_of P [] inp (Or.inr ⟨fun _ _ => rfl, hI.metric⟩) (Or.inr ⟨fun _ _ => rfl, hI.trace⟩)
      (Or.inr ⟨fun _ _ => rfl, hI.ricci⟩) (Or.inr ⟨fun _ _ => rfl, hI.mom⟩) h4)
    pol hpol pol' hpol' s0 s0' fuel fuel' h k c vs hrun c' v' hfresh

/-! ### the input hypotheses when no redundant name is supplied -/

/-- when none of the derived names `gtt, betamag, betadown3, gammadet, gdown4, gammaup3, gammaup4, nup4, gup4, rho_n,
press_n, s_Riemann_uddd3, Momentumx|y|z` is supplied, `InputsOK` reduces to: `γ` symmetric (automatic when `gammadown3`
is not supplied either: `sym_21_of_absent`), `α ≠ 0`, `det γ ≠ 0`, `3 ≠ 0`. -/
theorem inputsOK_of_absent (P : Params K) (excl : List Nat) (inp : Dict Nat (Val K))
    (h33 : NotExcl excl cone33) (h82 : NotExcl excl cone82) (h116 : NotExcl excl cone116)
    (habs : ∀ k, [27, 12, 11, 24, 31, 22, 26, 13, 32, 83, 91, 114, 146, 147, 148].contains k = true → get? inp k = none)
    (hsym : C08.Sym (den P excl inp 21).toT33) (ha : (den P excl inp 0).toS ≠ 0)
    (hdet : gammadet (E P excl inp) ≠ 0) (h3 : (3 : K) ≠ 0) : InputsOK P excl inp := by
  have hM : MetricCons P excl inp :=
    ⟨cons_of_absent P excl inp 27 (habs 27 (by decide)), cons_of_absent P excl inp 12 (habs 12 (by decide)),
      cons_of_absent P excl inp 11 (habs 11 (by decide)), cons_of_absent P excl inp 24 (habs 24 (by decide)), hsym⟩
  refine ⟨hM, ?_, ?_, ?_⟩
  · exact ⟨assembled_E P excl inp h33 hM (habs 31 (by decide)), gammadet_E P excl inp h33 hM,
      cons_of_absent P excl inp 22 (habs 22 (by decide)), cons_of_absent P excl inp 26 (habs 26 (by decide)),
      cons_of_absent P excl inp 13 (habs 13 (by decide)), cons_of_absent P excl inp 32 (habs 32 (by decide)),
      cons_of_absent P excl inp 83 (habs 83 (by decide)), cons_of_absent P excl inp 91 (habs 91 (by decide)),
      ha, hdet, h3⟩
  · exact ⟨cons_of_absent P excl inp 114 (habs 114 (by decide)), cons_of_absent P excl inp 22 (habs 22 (by decide)),
      hsym, hdet⟩
  · exact momCons_of_absent P excl inp (habs 146 (by decide)) (habs 147 (by decide)) (habs 148 (by decide))

/-! ### Non-vacuity -/

/-- inputs: lapse 2, a non-diagonal symmetric `gammadown3` (det 5) supplied as a TENSOR, the shift as a vector,
`rho0`, `press` -/
def inpX : Dict Nat (Val ℚ) :=
  [(0, .s 2), (21, .t33 (vec3 (vec3 2 1 0) (vec3 1 3 0) (vec3 0 0 1))), (6, .v3 (vec3 1 2 3)), (58, .s 5), (59, .s 1)]

theorem inpX_21 (excl : List Nat) :
    den PEx excl inpX 21 = .t33 (vec3 (vec3 2 1 0) (vec3 1 3 0) (vec3 0 0 1)) := den_inputs PEx excl inpX 21 _ rfl

/-- the input hypotheses hold at `inpX` (for the 147-key table and for the full table). -/
theorem inputsOK_ex (excl : List Nat) (h33 : NotExcl excl cone33) (h82 : NotExcl excl cone82)
    (h116 : NotExcl excl cone116) : InputsOK PEx excl inpX := by
  refine inputsOK_of_absent PEx excl inpX h33 h82 h116 ?_ ?_ ?_ ?_ (by norm_num)
  · intro k hk
    simp only [List.contains_eq_mem, List.mem_cons, List.not_mem_nil, or_false, decide_eq_true_eq] at hk
    rcases hk with rfl | rfl | rfl | rfl | rfl | rfl | rfl | rfl | rfl | rfl | rfl | rfl | rfl | rfl | rfl <;> rfl
  · rw [inpX_21]
    intro i j; revert i j
    cases3 <;> cases3 <;> rfl
  · rw [den_inputs PEx excl inpX 0 (.s 2) rfl]
    show (2 : ℚ) ≠ 0
    norm_num
  · have hG : (E PEx excl inpX).gammadown3 = vec3 (vec3 2 1 0) (vec3 1 3 0) (vec3 0 0 1) := by
      show (den PEx excl inpX 21).toT33 = _
      rw [inpX_21]; rfl
    simp only [core_unfold, hG]
    norm_num

example : InputsOK PEx excl147 inpX :=
  inputsOK_ex excl147 (notExcl_of_all (by decide +kernel)) (notExcl_of_all (by decide +kernel))
    (notExcl_of_all (by decide +kernel))

example : InputsOK PEx [] inpX := inputsOK_ex [] (fun _ _ => rfl) (fun _ _ => rfl) (fun _ _ => rfl)

/-- the hypotheses of `sub125_transparent`, `sub139_transparent` hold at `inpX`. -/
theorem metricCons_ex (excl : List Nat) : MetricCons PEx excl inpX :=
  ⟨cons_of_absent PEx excl inpX 27 rfl, cons_of_absent PEx excl inpX 12 rfl, cons_of_absent PEx excl inpX 11 rfl,
    cons_of_absent PEx excl inpX 24 rfl, by
      rw [inpX_21]
      intro i j; revert i j
      cases3 <;> cases3 <;> rfl⟩

example : MetricCons PEx excl125 inpX ∧ MetricCons PEx excl139 inpX ∧ MomCons PEx excl139 inpX :=
  ⟨metricCons_ex excl125, metricCons_ex excl139, momCons_of_absent PEx excl139 inpX rfl rfl rfl⟩

/-- the hypothesis of `sub139_transparent_plain` holds at: lapse 2, `gxx = 2`, `gxy = 1`, `gyy = 3`, the shift as a
vector, `rho0`. -/
def inpP : Dict Nat (Val ℚ) := [(0, .s 2), (15, .s 2), (16, .s 1), (18, .s 3), (6, .v3 (vec3 1 2 3)), (58, .s 5)]

example : ∀ k, [27, 12, 11, 24, 21, 146, 147, 148].contains k = true → get? inpP k = none := by
  intro k hk
  simp only [List.contains_eq_mem, List.mem_cons, List.not_mem_nil, or_false, decide_eq_true_eq] at hk
  rcases hk with rfl | rfl | rfl | rfl | rfl | rfl | rfl | rfl <;> rfl

/-- gdown4, gdet through the cached gdown4, a sweep, gdet through the other alternative; the lowered Riemann tensor,
s_Ricci_down3 through it, a sweep, s_Ricci_down3 by the direct sum; the momentum components, the vector; Tdown4 -/
def histX : List (HOp Nat) :=
  [.req 31, .req 33, .sweep, .req 33, .req 115, .req 116, .sweep, .req 116, .req 146, .req 147, .req 148, .req 152,
    .req 80]

/-- `hrun`, `hfresh` of `sub147_transparent` are satisfiable at `inpX`: the history runs under the most aggressive
admissible policy, final request `Ttrace`. -/
example : (∃ c vs, runHist (TTab PEx excl147) (polAggr inpX) 18 ((), inpX) (histX ++ [.req 82]) = .ok (c, vs))
    ∧ (∃ c v, getF (TTab PEx excl147) (polKeep (K := ℚ)) 18 ((), inpX) 82 = .ok (c, v)) :=
  ⟨⟨_, _, rfl⟩, ⟨_, _, rfl⟩⟩

end AurelVerif.C01Tab
