/-
Props/C02Containers.lean — container-level half of C02 ("... and for the argument lists/dicts
passed to the save/read functions", "the per-time-step arrays passed to the time-series driver"),
per function, for the code as it is NOW.  Proofs in Lemmas/C02Containers.lean.

T1s `check_sound_by_summary` is program-independent: whatever a finished request of ANY function
changed in place (array contents: `c = false`; anything, container structure included: `c = true`)
is covered by an atom of the function's kernel-checked summary.  The theorems below instantiate it
with the summaries of the generated program (Gen/AliasSumm.lean; `fid_*` are the indices the
generator assigns to the named functions, Gen/AliasIR.lean):

* `aurel_argument_containers_untouched`: read_data, read_ET_data, read_aurel_data, save_data,
  join_chunks, read_ET_group_or_var, read_ET_variables, read_ET_checkpoints, the four
  transform_vars_* helpers and over_time change NOTHING that existed before the call — not the
  caller's `it` / `vars` lists, not the `param` dict, not the `data` dict of lists handed to
  over_time / save_data, not its per-time-step arrays, no cache entry, no module table.
* `process_single_timestep_only_data`: process_single_timestep changes in place nothing but the
  dict passed as its first argument (documented: "will add calculated variables to this
  dictionary"); in particular not `vars`, `estimates`, `rel_kwargs`, `scalarkeys`, nor any array.

What these statements rest on outside Lean (tools/py2lean/aliasir.py, validated dynamically by
tools/props/C02.py): the AST → IR translation, with A1 (documented types of parameters and keyword
entries), A3 (user callbacks are pure), A4 (AurelCore.data / last_accessed / var_importance are
the cache and its bookkeeping, not heap objects; side conditions checked by the translator) and
the element variables of simple local containers.
-/
import AurelVerif.Props.C02
import AurelVerif.Lemmas.C02Containers

namespace AurelVerif.C02
open AurelVerif.Heap AurelVerif.Gen.AliasIR

/-- **T1s** for EVERY program, summary table that passes the check, function (public or not),
heap, arguments, oracle and fuel, and for both version counters: a root that existed before the
request and whose counter changed is covered by an atom of the function's summary — atom 0, or
"argument `i` itself" with the root among the roots argument `i` may be, or "reachable from
argument `i`" with the root reachable from it. -/
theorem check_sound_by_summary (p : Program) (S : List Summ) (hchk : checkWith p S = true)
    (f : FnId) (hf : f < p.fns.length) (c : Bool)
    (fuel : Nat) (args : List Val) (h : Heap) (ch : List Bool) (v : Val) (h' : Heap)
    (hreq : request p fuel f args h ch = some (v, h')) :
    ∀ r, r < h.next → h'.ver c r ≠ h.ver c r →
      0 ∈ (getE Summ.bot S f).mut c ∨
      ∃ i : Nat, (2 * i + 1 ∈ (getE Summ.bot S f).mut c ∧ r ∈ (getV args i).own) ∨
           (2 * i + 2 ∈ (getE Summ.bot S f).mut c ∧ r ∈ (getV args i).reach) :=
  check_sound_by_summary_lemma p S hchk f hf c fuel args h ch v h' hreq

/-- the functions for which the generated summary says "changes nothing in place" -/
def containerClaimFns : List FnId :=
  [fid_reading_read_data, fid_reading_read_ET_data, fid_reading_read_aurel_data, fid_reading_save_data,
   fid_reading_join_chunks, fid_reading_read_ET_group_or_var, fid_reading_read_ET_variables,
   fid_reading_read_ET_checkpoints, fid_reading_transform_vars_tensor_to_scalar,
   fid_reading_transform_vars_aurel_to_ET, fid_reading_transform_vars_ET_to_aurel_groups,
   fid_reading_transform_vars_ET_to_aurel, fid_time_over_time]

theorem containerClaimFns_summaries :
    ∀ f ∈ containerClaimFns, f < program.fns.length ∧ (getE Summ.bot summaries f).mutC = [] := by
  decide +kernel

/-- **container claim** for the save / read functions and the time-series driver: a finished call
leaves EVERY root that existed before it unchanged in every respect (`cver` counts array writes
and list / dict structure changes alike) — for every heap, argument list, oracle and fuel. -/
theorem aurel_argument_containers_untouched (f : FnId) (hf : f ∈ containerClaimFns)
    (fuel : Nat) (args : List Val) (h : Heap) (ch : List Bool) (v : Val) (h' : Heap)
    (hreq : request program fuel f args h ch = some (v, h')) :
    ∀ r, r < h.next → h'.cver r = h.cver r :=
  untouched_of_mutC_nil program summaries aurel_alias_ok f (containerClaimFns_summaries f hf).1
    (containerClaimFns_summaries f hf).2 fuel args h ch v h' hreq

theorem process_single_timestep_summary :
    fid_time_process_single_timestep < program.fns.length ∧
    (getE Summ.bot summaries fid_time_process_single_timestep).mutC = [2 * 0 + 1] ∧
    (getE Summ.bot summaries fid_time_process_single_timestep).mutA = [] := by
  decide +kernel

/-- **process_single_timestep**: the only pre-existing object it changes in place is the dict
passed as its first argument (`data`, documented); array contents of everything are unchanged. -/
theorem process_single_timestep_only_data
    (fuel : Nat) (args : List Val) (h : Heap) (ch : List Bool) (v : Val) (h' : Heap)
    (hreq : request program fuel fid_time_process_single_timestep args h ch = some (v, h')) :
    (∀ r, r < h.next → h'.cver r ≠ h.cver r → r ∈ (getV args 0).own) ∧
    (∀ r, r < h.next → h'.aver r = h.aver r) :=
  ⟨only_argument_of_mutC_single program summaries aurel_alias_ok _ process_single_timestep_summary.1 0
      process_single_timestep_summary.2.1 fuel args h ch v h' hreq,
   arrays_untouched_of_mutC_nil program summaries aurel_alias_ok _ process_single_timestep_summary.1
      process_single_timestep_summary.2.2 fuel args h ch v h' hreq⟩

/-! ## non-vacuity and sharpness -/

open Stmt in
/-- `def f(vars, data): vars.append('t'); data['k'].append(1)` — the container analogue of weylBad -/
def appendBad : Program :=
  { fns := [⟨seq (param 1 0) (seq (param 2 1) (seq (cmutate 1) (seq (view 3 [2]) (cmutate 3)))),
             true, true, true⟩], keys := [] }

open Stmt in
/-- the same on copies: `vars = list(vars); col = list(data['k'])` -/
def appendGood : Program :=
  { fns := [⟨seq (param 1 0) (seq (param 2 1) (seq (join 4 [1]) (seq (cmutate 4)
             (seq (view 3 [2]) (seq (join 5 [3]) (cmutate 5)))))), true, true, true⟩], keys := [] }

example : aliasCheck appendBad = false := by decide +kernel
example : aliasCheck appendGood = true := by decide +kernel

/-- hypotheses of T1s are satisfiable and its conclusion is sharp: on a heap with the caller's list
(root 0) and dict (root 1) holding a list (root 2), the bad program finishes and bumps `cver` of
roots 0 (argument 0 itself), 1 and 2 (reachable from argument 1) — exactly what its summary names -/
example :
    (request appendBad 20 0 [⟨0, [0], [0]⟩, ⟨1, [1], [1, 2]⟩] ⟨fun _ => 0, fun _ => 0, 3, []⟩ []).map
      (fun r => (r.2.cver 0, r.2.cver 1, r.2.cver 2, r.2.aver 0)) = some (1, 1, 1, 0) := by decide +kernel

example : (getE Summ.bot appendBad.summaries 0).mutC = [1, 3, 4] := by decide +kernel

/-- the good program finishes on the same heap and leaves all three roots alone -/
example :
    (request appendGood 20 0 [⟨0, [0], [0]⟩, ⟨1, [1], [1, 2]⟩] ⟨fun _ => 0, fun _ => 0, 3, []⟩ []).map
      (fun r => (r.2.cver 0, r.2.cver 1, r.2.cver 2)) = some (0, 0, 0) := by decide +kernel

/-- the hypothesis of the container claim is satisfiable for the generated program: join_chunks,
called with the caller's dict (root 0) of two chunk arrays (roots 1, 2), finishes (oracle: no
branch taken) — and `cver` of all three roots is what it was -/
example :
    (request program 400 fid_reading_join_chunks [⟨0, [0], [0, 1, 2]⟩, Val.none]
        ⟨fun _ => 0, fun _ => 0, 3, [(0, Val.none)]⟩ []).map
      (fun r => (r.2.cver 0, r.2.cver 1, r.2.cver 2)) = some (0, 0, 0) := by decide +kernel

example : fid_time_over_time ∈ containerClaimFns := by decide

end AurelVerif.C02
