/-
Props/C11d.lean — C11, fourth part (ONLY property statements and non-vacuity examples; proofs in
Lemmas/C11Names.lean, Lemmas/C11CheckpointMixed.lean, Lemmas/C11MultiThorn.lean).

**D6' name translation, every entry of the generated tables and every string**
  `aurel_table_covered`, `et_table_roundtrip`, `scalar_names_injective`, `tensor_expansions_disjoint`
  `name_roundtrip_every_string`, `et_name_roundtrip_every_string`, `canonical_names_idempotent`

**checkpoints of one restart written by different numbers of processes / in different layouts**
(/repo bd9646b: `cmax` is decided per iteration from its own files; before, it came from the first requested
iteration and the mixtures "one file, then per-process files" and "per-process files, then one file with
components" raised ValueError — the theorems `checkpoint_onefile_then_perproc_raises` /
`checkpoint_perproc_then_chunked_raises` of the previous round described that and are gone with it)
  `checkpoint_process_count_irrelevant`   the NUMBER in a numeric `cmax` is never used
  `checkpoint_layout_found_per_iteration` the reader finds the layout the iteration was written in
  `checkpoint_mixed_layouts_read`         any assignment of layouts to iterations is read back exactly
  `checkpoint_onefile_then_perproc_read`, `checkpoint_perproc_then_chunked_read`, `checkpoint_perproc_then_lone_read`
                                          the former failing mixtures, now read (kernel-evaluated; the
                                          generators of tools/props/C11.py produce such restarts on every run)
  (table and pipeline theorems without any `cmax` hypothesis: Props/C11c `checkpoint_table_exact`,
   `checkpoint_pipeline_exact`)

**the same variable name in several thorns of one file** (Model/MultiThorn.lean, literal; tied to
`read_ET_checkpoints` and `read_ET_group_or_var` by the `ckptm` / `gvar` correspondences)
  `multi_thorn_file_read`                 one component per file: every thorn's dataset is read once, under
                                          `THORN::var`; the request list becomes pre ++ THORN0::var :: post ++ [THORN1::var ..]
  `multi_thorn_substring_raises`, `multi_thorn_rest_differs_raises`
  witnesses (replayed on the real code by the correspondence generators):
  `two_thorns_checkpoint_witness`, `two_thorns_chunked_checkpoint_raises`,
  `combined_name_next_to_plain_name_misaligns`, `two_thorns_group_or_var_witness`,
  `second_thorn_appearing_later_raises`

Continued in Props/C11e.lean: the old models are the specialisation of the literal one (transfer of the C11c
theorems), the multi-thorn read-back over several files / iterations (`multi_thorn_table_exact`), D4 as a theorem
(`multi_thorn_components_raise`), termination of the growing-list loop.
NOT covered: `read_ET_variables` / `get_content` around it (see the defect candidates in the report).
-/
import AurelVerif.Lemmas.C11Names
import AurelVerif.Lemmas.C11MultiThorn
import AurelVerif.Props.C11c

namespace AurelVerif.C11
open AurelVerif.Chunks AurelVerif.Checkpoint AurelVerif.CheckpointSpec AurelVerif.CheckpointLemmas
open AurelVerif.Restarts AurelVerif.RestartsLemmas AurelVerif.Gen.VarMaps AurelVerif.NamesLemmas
open AurelVerif.MultiThorn AurelVerif.MultiThornLemmas

/-! ## D6' names -/

/-- every key of the aurel → ET table is a tensor name or a scalar name (the two lists the D6 theorems range over
are the WHOLE table) -/
theorem aurel_table_covered : ∀ p ∈ aurelToETTab, p.1 ∈ tensorNames ∨ p.1 ∈ scalarNames := by decide +kernel

/-- every entry `ET ↦ aurel` of the ET → aurel table: the aurel name is a scalar name and translates back to
exactly that ET name -/
theorem et_table_roundtrip :
    ∀ p ∈ etToAurelTab, etToAurel p.1 = p.2 ∧ p.2 ∈ scalarNames ∧ aurelToET p.2 = [p.1] := by decide +kernel

/-- no two aurel scalar names are translated to the same Einstein Toolkit variable -/
theorem scalar_names_injective :
    ∀ a ∈ scalarNames, ∀ b ∈ scalarNames, aurelToET a = aurelToET b → a = b := by decide +kernel

/-- every scalar name is ONE Einstein Toolkit variable, and the expansions of the tensors are pairwise disjoint and
repetition-free (an ET variable belongs to at most one tensor) -/
theorem tensor_expansions_disjoint :
    (∀ a ∈ scalarNames, (aurelToET a).length = 1) ∧ (tensorNames.flatMap aurelToET).Nodup := by decide +kernel

/-- aurel → ET → aurel is the identity on EVERY string that is neither a tensor name nor an ET name of the
ET → aurel table (for those: D6 `tensor_components_roundtrip`, `et_table_roundtrip`) -/
theorem name_roundtrip_every_string (v : String) (ht : v ∉ tensorNames) (he : v ∉ etToAurelTab.map Prod.fst) :
    (aurelToET v).map etToAurel = [v] :=
  roundtrip_every_string v ht he

/-- ET → aurel → ET is the identity on EVERY string that `transform_vars_aurel_to_ET` leaves alone -/
theorem et_name_roundtrip_every_string (e : String) (h : e ∉ aurelToETTab.map Prod.fst ∨ aurelToET e = [e]) :
    aurelToET (etToAurel e) = [e] :=
  et_roundtrip_every_string e h

/-- the column names a request comes back under are canonical, for EVERY string -/
theorem canonical_names_idempotent (v : String) :
    ((aurelToET v).map etToAurel).flatMap (fun a => (aurelToET a).map etToAurel) = (aurelToET v).map etToAurel :=
  canon_idempotent v

/-! ## checkpoints written by different numbers of processes / in different layouts -/

/-- a per-process checkpoint is well-formed for every numeric `cmax`: the number is never used -/
theorem checkpoint_process_count_irrelevant {α : Type} (m m' : Nat) (files : List (CFile α)) (iit rl : Nat)
    (var : List String) (A : String → Arr3 α) (tm : Nat) (h : GoodIt (CMax.num m) files iit rl var A tm) :
    GoodIt (CMax.num m') files iit rl var A tm :=
  goodIt_num_irrelevant h

/-- for a checkpoint that is well-formed in some layout, "find cmax for this iteration" finds a `cmax` for
which it is well-formed -/
theorem checkpoint_layout_found_per_iteration {α : Type} (files : List (CFile α)) (iit rl : Nat) (var : List String)
    (A : String → Arr3 α) (tm : Nat) (h : GoodItAuto files iit rl var A tm) :
    ∃ cmax, cmaxOf (filesOf files iit) = some cmax ∧ GoodIt cmax files iit rl var A tm :=
  cmaxOf_good files iit rl var A tm h

/-- **mixed layouts are read**: `lay iit` is the layout iteration `iit` was written in ('in file': exactly one
file; a number: at least two files `.file_<k>`), chosen freely per iteration; every requested iteration is
well-formed for ITS layout.  Then the whole table is read back exactly (formerly: only when the layout of the
first requested iteration suited all of them). -/
theorem checkpoint_mixed_layouts_read {α : Type} (toAurel : String → String) (files : List (CFile α)) (var : List String)
    (hvar : var ≠ []) (hinj : ∀ a ∈ var, ∀ b ∈ var, toAurel a = toAurel b → a = b)
    (ht : ∀ v ∈ var, toAurel v ≠ "t") (its : List Nat) (hits : its ≠ []) (rl : Nat) (lay : Nat → CMax)
    (A : Nat → String → Arr3 α) (tm : Nat → Nat)
    (hgood : ∀ iit ∈ sortedSet its, LayoutOK (lay iit) (filesOf files iit)
      ∧ GoodIt (lay iit) files iit rl var (A iit) (tm iit)) :
    readCheckpoints toAurel files var its rl
      = some ⟨sortedSet its, ("t", (sortedSet its).map fun i => Cell.t (tm i))
          :: var.eraseDups.map fun v => (toAurel v, (sortedSet its).map fun i => Cell.arr (fixij (A i v)))⟩ :=
  checkpoint_table_exact toAurel files var hvar hinj ht its hits rl A tm
    (fun iit hi => ⟨lay iit, (hgood iit hi).1, (hgood iit hi).2⟩)

/-- iteration 0 written by ONE process, iteration 8 by two (one file per process): formerly ValueError -/
theorem checkpoint_onefile_then_perproc_read :
    (readCheckpoints id
      [⟨0, none, [ckD 0 0 50]⟩, ⟨8, some 0, [{ ckD 8 0 58 with c := some 0 }]⟩,
       ⟨8, some 1, [{ ckD 8 0 59 with c := some 1, iorigin := (1, 0, 0) }]⟩] ["alp"] [0, 8] 0).map ckShow
      = some ([0, 8], [("t", [[500], [508]]), ("alp", [[50], [58, 59]])]) := by decide +kernel

/-- iteration 0 one file per process, iteration 8 ONE file holding two components: formerly ValueError -/
theorem checkpoint_perproc_then_chunked_read :
    (readCheckpoints id
      [⟨0, some 0, [{ ckD 0 0 50 with c := some 0 }]⟩, ⟨0, some 1, [{ ckD 0 0 51 with c := some 1, iorigin := (1, 0, 0) }]⟩,
       ⟨8, none, [{ ckD 8 0 58 with c := some 0 }, { ckD 8 0 59 with c := some 1, iorigin := (1, 0, 0) }]⟩]
      ["alp"] [0, 8] 0).map ckShow
      = some ([0, 8], [("t", [[500], [508]]), ("alp", [[50, 51], [58, 59]])]) := by decide +kernel

/-- iteration 0 one file per process, iteration 8 written by ONE process (no ` c=`) -/
theorem checkpoint_perproc_then_lone_read :
    (readCheckpoints id
      [⟨8, none, [ckD 8 0 58]⟩, ⟨0, some 0, [{ ckD 0 0 50 with c := some 0 }]⟩,
       ⟨0, some 1, [{ ckD 0 0 51 with c := some 1, iorigin := (1, 0, 0) }]⟩] ["alp"] [0, 8] 0).map ckShow
      = some ([0, 8], [("t", [[500], [508]]), ("alp", [[50, 51], [58]])]) := by decide +kernel

/-! ## the same variable name in several thorns of one file -/

/-- **one checkpoint file with one component (no ` c=`, or the file of one process), one requested name answered
by the datasets `d0, d1, ...` of several thorns** (same iteration, time level, level, component; the name
`THORN0::var` contained in no other candidate's name).  `pre`, `post` and the appended `THORN::var` names select
one dataset each (`pick`).  Then the file is read without error, the request list becomes
`pre ++ THORN0::var :: post ++ [THORN1::var, ...]`, and exactly `pre`'s datasets, `d0`, `post`'s datasets and
`d1, ...` are filed, in this order, each under its own name. -/
theorem multi_thorn_file_read {α : Type} (cmax : CMax) (f : CFile α) (iit rl : Nat) (nochunks : Bool) (c : Option Nat)
    (hcr : chunkRange cmax f (relevant f iit rl) = some (nochunks, [c]))
    (pick : String → DSet α) (pre post : List String) (v : String) (d0 d1 : DSet α) (rest : List (DSet α))
    (vc0 : VarChunks α) (last0 : Option (DSet α))
    (hpre : ∀ w ∈ pre, keyOf (relevant f iit rl) nochunks c w = [pick w])
    (hkey : keyOf (relevant f iit rl) nochunks c v = d0 :: d1 :: rest) (hsame : restSame (d0 :: d1 :: rest) = true)
    (hpool : ((relevant f iit rl).filter fun d => matchesVar d v).filter (nameIn (combined d0)) = [d0])
    (hlater : ∀ w ∈ post ++ (d1 :: rest).map combined, keyOf (relevant f iit rl) nochunks c w = [pick w]) :
    ckFile cmax iit rl ⟨pre ++ v :: post, vc0, last0⟩ f
      = some (readAll pick (post ++ (d1 :: rest).map combined)
          (({ (readAll pick pre ⟨pre ++ v :: post, vc0, last0⟩) with
              var := pre ++ combined d0 :: post ++ (d1 :: rest).map combined } : St α).read (combined d0) d0)) :=
  ckFile_one_rewrite cmax f iit rl nochunks c hcr pick pre post v d0 d1 rest vc0 last0 hpre hkey hsame hpool hlater

/-- the substring look-up `[k for k in ... if v in k]` finds two datasets (`A::H` inside `BA::H` or `A::H2`):
ValueError although both datasets are well-formed -/
theorem multi_thorn_substring_raises {α : Type} (d0 d1 : DSet α) (rest pool : List (DSet α)) (vi : Nat) (v : String)
    (st : St α) (e1 e2 : DSet α) (more : List (DSet α)) (hpool : pool.filter (nameIn (combined d0)) = e1 :: e2 :: more) :
    pickKey (d0 :: d1 :: rest) pool vi v st = none :=
  pickKey_multi_substring_raises d0 d1 rest pool vi v st e1 e2 more hpool

theorem multi_thorn_rest_differs_raises {α : Type} (d0 d1 : DSet α) (rest pool : List (DSet α)) (vi : Nat) (v : String)
    (st : St α) (h : restSame (d0 :: d1 :: rest) = false) : pickKey (d0 :: d1 :: rest) pool vi v st = none :=
  pickKey_multi_rest_differs d0 d1 rest pool vi v st h

/-! ### witnesses -/

def mtD (thorn : String) (it : Nat) (c : Option Nat) (ox v : Nat) : DSet Nat :=
  { thorn := thorn, var := "H", it := it, tl := 0, rl := some 0, c := c, ghost := (1, 1, 1),
    iorigin := (ox, 0, 0), time := 500 + it, data := ckBlock v }

/-- one-file checkpoints of iterations 0 and 8 holding `ML_ADMCONSTRAINTS::H` and `ML_BSSN::H` (h5py order) -/
def mtFiles : List (CFile Nat) :=
  [⟨8, none, [mtD "ML_ADMCONSTRAINTS" 8 none 0 28, mtD "ML_BSSN" 8 none 0 18]⟩,
   ⟨0, none, [mtD "ML_ADMCONSTRAINTS" 0 none 0 20, mtD "ML_BSSN" 0 none 0 10]⟩]

/-- requesting `H` returns BOTH thorns' variables, under `THORN::H`, one entry per iteration, no column `H` -/
theorem two_thorns_checkpoint_witness :
    (readCheckpointsM id mtFiles ["H"] [0, 8] 0).map ckShow
      = some ([0, 8], [("t", [[500], [508]]), ("ML_ADMCONSTRAINTS::H", [[20], [28]]), ("ML_BSSN::H", [[10], [18]])]) := by
  decide +kernel

/-- one file holding two components of both thorns: the second look-up runs over ALL components -> ValueError -/
theorem two_thorns_chunked_checkpoint_raises :
    readCheckpointsM id
      [⟨0, none, [mtD "ML_ADMCONSTRAINTS" 0 (some 0) 0 20, mtD "ML_ADMCONSTRAINTS" 0 (some 1) 1 21,
                  mtD "ML_BSSN" 0 (some 0) 0 10, mtD "ML_BSSN" 0 (some 1) 1 11]⟩] ["H"] [0] 0 = none := by
  decide +kernel

/-- `H` next to `ML_BSSN::H` in one request: after the rewrite the list holds `ML_BSSN::H` twice, its column gets
two entries per iteration (entry 1 is iteration 0's data, not iteration 8's) -/
theorem combined_name_next_to_plain_name_misaligns :
    (readCheckpointsM id mtFiles ["H", "ML_BSSN::H"] [0, 8] 0).map ckShow
      = some ([0, 8], [("t", [[500], [508]]), ("ML_ADMCONSTRAINTS::H", [[20], [28]]),
                       ("ML_BSSN::H", [[10], [10], [18], [18]])]) := by
  decide +kernel

/-- `read_ET_group_or_var(['H'], [H.h5], 'in file', it=[0, 8])` on a file holding both thorns -/
theorem two_thorns_group_or_var_witness :
    (readGroupOrVar id CMax.inFile
      [⟨0, none, [mtD "ML_ADMCONSTRAINTS" 0 none 0 20, mtD "ML_ADMCONSTRAINTS" 8 none 0 28,
                  mtD "ML_BSSN" 0 none 0 10, mtD "ML_BSSN" 8 none 0 18]⟩] ["H"] [0, 8] 0).map
        (fun r => (r.1, r.2.map fun kc => (kc.1, kc.2.map fun a => a.flatten.flatten)))
      = some ([500, 508], [("ML_ADMCONSTRAINTS::H", [[20], [28]]), ("ML_BSSN::H", [[10], [18]])]) := by
  decide +kernel

/-- the second thorn's `H` exists only from iteration 8 on: iteration 0 was filed under `H`, the final loop looks
for `ML_ADMCONSTRAINTS::H` at iteration 0 -> KeyError -/
theorem second_thorn_appearing_later_raises :
    readGroupOrVar id CMax.inFile
      [⟨0, none, [mtD "ML_ADMCONSTRAINTS" 8 none 0 28, mtD "ML_BSSN" 0 none 0 10, mtD "ML_BSSN" 8 none 0 18]⟩]
      ["H"] [0, 8] 0 = none := by
  decide +kernel

/-! ### Non-vacuity -/

/-- `name_roundtrip_every_string`: a name outside all tables; `et_name_roundtrip_every_string`: an ET-table key -/
example : "Ktransition" ∉ tensorNames ∧ "Ktransition" ∉ etToAurelTab.map Prod.fst := by decide +kernel
example : "vel[0]" ∉ aurelToETTab.map Prod.fst ∨ aurelToET "vel[0]" = ["vel[0]"] := by decide +kernel

/-- `checkpoint_mixed_layouts_read`: the hypotheses on the one-file iterations of `ckFiles` (Props/C11c) with
`lay = fun _ => 'in file'`; the per-process / mixed instances are the three kernel-evaluated theorems above -/
example : LayoutOK CMax.inFile (filesOf ckFiles 8) ∧ GoodIt CMax.inFile ckFiles 8 0 ["alp"] (fun _ => [[[58]]]) 508 :=
  ⟨(by show (filesOf ckFiles 8).length = 1; rfl), ckGoodIt 8 58 (Or.inr rfl) rfl⟩
/-- a two-process layout satisfies `LayoutOK (num _)`, and `cmaxOf` finds it -/
example : cmaxOf ([⟨0, some 0, []⟩, ⟨0, some 1, []⟩] : List (CFile Nat)) = some (CMax.num 1)
    ∧ LayoutOK (CMax.num 1) ([⟨0, some 0, []⟩, ⟨0, some 1, []⟩] : List (CFile Nat)) :=
  ⟨rfl, (by show 2 ≤ 2; omega)⟩

/-- the hypotheses of `multi_thorn_file_read` on the iteration-0 file of `mtFiles` (request `["H"]`, `pre = post = []`) -/
def mtF0 : CFile Nat := ⟨0, none, [mtD "ML_ADMCONSTRAINTS" 0 none 0 20, mtD "ML_BSSN" 0 none 0 10]⟩
example : chunkRange CMax.inFile mtF0 (relevant mtF0 0 0) = some (true, [some 0])
    ∧ keyOf (relevant mtF0 0 0) true (some 0) "H" = [mtD "ML_ADMCONSTRAINTS" 0 none 0 20, mtD "ML_BSSN" 0 none 0 10]
    ∧ restSame [mtD "ML_ADMCONSTRAINTS" 0 none 0 20, mtD "ML_BSSN" 0 none 0 10] = true
    ∧ ((relevant mtF0 0 0).filter fun d => matchesVar d "H").filter
        (nameIn (combined (mtD "ML_ADMCONSTRAINTS" 0 none 0 20))) = [mtD "ML_ADMCONSTRAINTS" 0 none 0 20]
    ∧ keyOf (relevant mtF0 0 0) true (some 0) "ML_BSSN::H" = [mtD "ML_BSSN" 0 none 0 10] := by
  refine ⟨by rfl, by rfl, by rfl, by rfl, by rfl⟩

/-- `multi_thorn_substring_raises` on an instance: thorns `A` and `BA` -/
example : (readCheckpointsM id [⟨0, none, [mtD "A" 0 none 0 20, mtD "BA" 0 none 0 10]⟩] ["H"] [0] 0) = none := by
  decide +kernel

end AurelVerif.C11
