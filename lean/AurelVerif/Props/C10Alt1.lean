/-
Props/C10Alt1.lean — property C10, part 1: `st_Weyl_down4` from the cached Riemann tensor (T1, T2).
See Props/C10.lean for the overview of what is and is not proven.
-/
import AurelVerif.Lemmas.C10Alt1
import AurelVerif.Lemmas.C10Weyl
import Mathlib.Tactic.NormNum
set_option linter.unusedSimpArgs false
set_option linter.unusedVariables false

namespace AurelVerif.C10
open AurelVerif.Gen.Core AurelVerif.Tensor AurelVerif.CoreTac AurelVerif.Spec.Weyl AurelVerif.Model.WeylNP

variable {K : Type} [Field K]

/-! ### T1 alternative 1: Weyl tensor from the cached Riemann tensor -/

/-- **`C_abcd = R_abcd − ½(g_ac R_db − g_ad R_cb − g_bc R_da + g_bd R_ca) + (R/6)(g_ac g_db − g_ad g_cb)`**
for all 256 entries of the generated table. -/
theorem weyl_alt1_spec (e : Env K) (a b c d : Fin 4) :
    st_Weyl_down4__st_Riemann_down4_matter e a b c d
      = weyl e.gdown4 e.st_Riemann_down4 e.st_Ricci_down4 e.st_RicciS a b c d :=
  alt1_matter_spec e a b c d

/-- with `vacuum = True` the cached Riemann tensor is returned unchanged. -/
theorem weyl_alt1_vacuum (e : Env K) (a b c d : Fin 4) :
    st_Weyl_down4__st_Riemann_down4_vacuum e a b c d = e.st_Riemann_down4 a b c d :=
  alt1_vacuum_spec e a b c d

/-! ### T2 symmetries and trace-freeness of alternative 1 -/

/-- antisymmetric in (a,b) and in (c,d), symmetric under exchange of the pairs, for every cached
Riemann tensor with those symmetries and symmetric Ricci tensor and metric. -/
theorem weyl_alt1_sym (e : Env K) (hR : RiemannSym e.st_Riemann_down4) (hg : Symm e.gdown4)
    (hRic : Symm e.st_Ricci_down4) : RiemannSym (st_Weyl_down4__st_Riemann_down4_matter e) := by
  have h : st_Weyl_down4__st_Riemann_down4_matter e
      = weyl e.gdown4 e.st_Riemann_down4 e.st_Ricci_down4 e.st_RicciS := by
    funext a b c d; exact alt1_matter_spec e a b c d
  rw [h]; exact weyl_riemannSym _ _ _ _ hR hg hRic

/-- the first-pair antisymmetry is what the sign fix restored: with the old signs of the
`g_bc R_da`, `g_bd R_ca` terms the statement is false. -/
theorem weyl_oldsigns_not_antisymmetric :
    ¬ (∀ (g : Fin 4 → Fin 4 → ℚ) (Riem : Fin 4 → Fin 4 → Fin 4 → Fin 4 → ℚ) (Ric : Fin 4 → Fin 4 → ℚ) (R : ℚ),
        RiemannSym Riem → Symm g → Symm Ric →
        ∀ a b c d, weylOldSigns g Riem Ric R a b c d = -weylOldSigns g Riem Ric R b a c d) :=
  weylOldSigns_not_antisymmetric

/-- the Ricci tensor and scalar the code computes from the cached Riemann tensor are the contractions
`R_bd = g^{ac} R_abcd`, `R = g^{bd} R_bd` (no `Tdown4` supplied). -/
theorem ricci_contractions_from_code (e : Env K) (hRu : e.st_Riemann_uddd4 = st_Riemann_uddd4 e)
    (hRic : e.st_Ricci_down4 = st_Ricci_down4__dflt e) (hRS : e.st_RicciS = st_RicciS e) :
    (∀ b d, e.st_Ricci_down4 b d = ∑ a, ∑ c, e.gup4 a c * e.st_Riemann_down4 a b c d)
    ∧ e.st_RicciS = ∑ b, ∑ d, e.gup4 b d * e.st_Ricci_down4 b d := by
  refine ⟨fun b d => ?_, ?_⟩
  · rw [hRic, ricci_spec, hRu]
    simp only [riemann_uddd_spec]
    rw [Finset.sum_comm]
    exact Finset.sum_congr rfl fun a _ => Finset.sum_congr rfl fun c _ => by ring
  · rw [hRS, ricciS_spec]

/-- **`g^{ac} C_abcd = 0`** (dimension 4, characteristic ≠ 2, 3). -/
theorem weyl_alt1_tracefree (e : Env K) (hg : Symm e.gdown4) (hgup : Symm e.gup4) (hRicS : Symm e.st_Ricci_down4)
    (hinv : ∀ a b, ∑ c, e.gup4 a c * e.gdown4 c b = if a = b then 1 else 0)
    (hRic : ∀ b d, e.st_Ricci_down4 b d = ∑ a, ∑ c, e.gup4 a c * e.st_Riemann_down4 a b c d)
    (hR : e.st_RicciS = ∑ b, ∑ d, e.gup4 b d * e.st_Ricci_down4 b d)
    (h2 : (2 : K) ≠ 0) (h3 : (3 : K) ≠ 0) (b d : Fin 4) :
    ∑ a, ∑ c, e.gup4 a c * st_Weyl_down4__st_Riemann_down4_matter e a b c d = 0 := by
  simp only [alt1_matter_spec]
  exact weyl_tracefree _ _ _ _ _ hg hgup hRicS hinv hRic hR h2 h3 b d

/-! ### Non-vacuity -/

/-- antisymmetric matrix with `A_12 = 1`. -/
def exA : Fin 4 → Fin 4 → ℚ := vec4 (vec4 0 0 0 0) (vec4 0 0 1 0) (vec4 0 (-1) 0 0) (vec4 0 0 0 0)
def exEta : Fin 4 → Fin 4 → ℚ := vec4 (vec4 (-1) 0 0 0) (vec4 0 1 0 0) (vec4 0 0 1 0) (vec4 0 0 0 1)

/-- Minkowski metric, "Riemann" tensor `A_ab A_cd` (all three pair symmetries), its Ricci tensor
`diag(0,1,1,0)` and scalar 2: the Weyl expression is non-zero (`C_1212 = 1/3`). -/
def exEnv : Env ℚ :=
  { (Env.zero : Env ℚ) with
    gdown4 := exEta, gup4 := exEta,
    st_Riemann_down4 := fun a b c d => exA a b * exA c d,
    st_Ricci_down4 := vec4 (vec4 0 0 0 0) (vec4 0 1 0 0) (vec4 0 0 1 0) (vec4 0 0 0 0),
    st_RicciS := 2 }

example : RiemannSym exEnv.st_Riemann_down4 ∧ Symm exEnv.gdown4 ∧ Symm exEnv.gup4 ∧ Symm exEnv.st_Ricci_down4
    ∧ (∀ a b, ∑ c, exEnv.gup4 a c * exEnv.gdown4 c b = if a = b then 1 else 0)
    ∧ (∀ b d, exEnv.st_Ricci_down4 b d = ∑ a, ∑ c, exEnv.gup4 a c * exEnv.st_Riemann_down4 a b c d)
    ∧ exEnv.st_RicciS = ∑ b, ∑ d, exEnv.gup4 b d * exEnv.st_Ricci_down4 b d
    ∧ (2 : ℚ) ≠ 0 ∧ (3 : ℚ) ≠ 0
    ∧ st_Weyl_down4__st_Riemann_down4_matter exEnv 1 2 1 2 = 1 / 3 := by
  have hA : ∀ a b, exA a b = -exA b a := by
    cases4 <;> cases4 <;> (simp only [exA, core_unfold]; try norm_num)
  refine ⟨⟨fun a b c d => ?_, fun a b c d => ?_, fun a b c d => ?_⟩, ?_, ?_, ?_, ?_, ?_, ?_, by norm_num,
    by norm_num, ?_⟩
  · show exA a b * exA c d = -(exA b a * exA c d); rw [hA a b]; ring
  · show exA a b * exA c d = -(exA a b * exA d c); rw [hA c d]; ring
  · show exA a b * exA c d = exA c d * exA a b; ring
  · cases4 <;> cases4 <;> (simp only [exEnv, exEta, core_unfold])
  · cases4 <;> cases4 <;> (simp only [exEnv, exEta, core_unfold])
  · cases4 <;> cases4 <;> (simp only [exEnv, core_unfold])
  · cases4 <;> cases4 <;> (simp only [exEnv, exEta, core_unfold, Fin.sum_univ_four]; norm_num <;> decide)
  · cases4 <;> cases4 <;> (simp only [exEnv, exEta, exA, core_unfold, Fin.sum_univ_four]; norm_num)
  · simp only [exEnv, exEta, core_unfold, Fin.sum_univ_four]; norm_num
  · rw [weyl_alt1_spec]
    simp only [weyl, exEnv, exEta, exA, core_unfold]; norm_num

end AurelVerif.C10
