/-
Props/C10NP.lean — property C10, part 4: tetrads, Weyl scalars, invariants (T6, T7, T8; hand model).
See Props/C10.lean for the overview.
-/
import AurelVerif.Props.C08
import AurelVerif.Lemmas.C10Weyl
import Mathlib.Algebra.Field.ZMod
set_option linter.unusedSimpArgs false
set_option linter.unusedVariables false

namespace AurelVerif.C10
open AurelVerif.Gen.Core AurelVerif.Tensor AurelVerif.CoreTac AurelVerif.Spec.Weyl AurelVerif.Model.WeylNP

variable {K : Type} [Field K]

/-! ### T6 tetrads (hand model) -/

/-- `null_vector_base`: from an orthonormal tetrad (`g(e_a,e_b) = η_ab`) the code's
`k=(e0+e1)s, l=(e0−e1)s, m=(e2+ie3)s, m̄=(e2−ie3)s` with `s² = ½`, `i² = −1` satisfy
`l·k = −1`, `m·m̄ = 1`, all other products 0. -/
theorem null_vector_base_products (g : Fin 4 → Fin 4 → K) (s I : K) (hs : 2 * s ^ 2 = 1) (hI : I ^ 2 = -1)
    (E : Fin 4 → Fin 4 → K) (hE : Orthonormal g E) : IsNullTetrad g (nullVectorBase s I E) :=
  nullVectorBase_isNull g s I hs hI E hE

/-- one generic Gram–Schmidt step (any dimension `n`, any number `k` of earlier vectors, signature `η`). -/
theorem gram_schmidt_step {n k : Nat} (g : Fin n → Fin n → K) (hg : ∀ a b, g a b = g b a)
    (ev : Fin k → Fin n → K) (η : Fin k → K) (hη : ∀ a, η a * η a = 1)
    (horth : ∀ a b, ip g (ev a) (ev b) = if a = b then η a else 0) (v : Fin n → K) (N : K)
    (u : Fin n → K) (hu : u = fun i => v i - ∑ a : Fin k, η a * ip g (ev a) v * ev a i)
    (hN : N ^ 2 = ip g u u) (hN0 : N ≠ 0) :
    (∀ b, ip g (fun i => u i / N) (ev b) = 0 ∧ ip g (ev b) (fun i => u i / N) = 0)
      ∧ ip g (fun i => u i / N) (fun i => u i / N) = 1 :=
  gramSchmidt_step g hg ev η hη horth v N u hu hN hN0

/-- fluid-adapted branch: the returned tetrad is orthonormal for `g` when `u` is unit timelike and each
intermediate vector has `norm4(u_i)² = g(u_i,u_i) ≠ 0` (spacelike, `sqrt`/`abs` exact). -/
theorem tetrad_fluid_orthonormal (g : Fin 4 → Fin 4 → K) (hg : ∀ a b, g a b = g b a)
    (nrm : (Fin 4 → K) → K) (u v1 v2 v3 : Fin 4 → K) (h0 : ip g u u = -1)
    (hN1 : nrm (gs4_u1 g u v1) ^ 2 = ip g (gs4_u1 g u v1) (gs4_u1 g u v1)) (hN1' : nrm (gs4_u1 g u v1) ≠ 0)
    (hN2 : nrm (gs4_u2 g nrm u v1 v2) ^ 2 = ip g (gs4_u2 g nrm u v1 v2) (gs4_u2 g nrm u v1 v2))
    (hN2' : nrm (gs4_u2 g nrm u v1 v2) ≠ 0)
    (hN3 : nrm (gs4_u3 g nrm u v1 v2 v3) ^ 2 = ip g (gs4_u3 g nrm u v1 v2 v3) (gs4_u3 g nrm u v1 v2 v3))
    (hN3' : nrm (gs4_u3 g nrm u v1 v2 v3) ≠ 0) :
    Orthonormal g (gramSchmidt4 g nrm u v1 v2 v3) :=
  gramSchmidt4_orthonormal g hg nrm u v1 v2 v3 h0 hN1 hN1' hN2 hN2' hN3 hN3'

/-- … and therefore the null tetrad built from it is a null tetrad. -/
theorem tetrad_fluid_null (g : Fin 4 → Fin 4 → K) (hg : ∀ a b, g a b = g b a) (s I : K) (hs : 2 * s ^ 2 = 1)
    (hI : I ^ 2 = -1) (nrm : (Fin 4 → K) → K) (u v1 v2 v3 : Fin 4 → K) (h0 : ip g u u = -1)
    (hN1 : nrm (gs4_u1 g u v1) ^ 2 = ip g (gs4_u1 g u v1) (gs4_u1 g u v1)) (hN1' : nrm (gs4_u1 g u v1) ≠ 0)
    (hN2 : nrm (gs4_u2 g nrm u v1 v2) ^ 2 = ip g (gs4_u2 g nrm u v1 v2) (gs4_u2 g nrm u v1 v2))
    (hN2' : nrm (gs4_u2 g nrm u v1 v2) ≠ 0)
    (hN3 : nrm (gs4_u3 g nrm u v1 v2 v3) ^ 2 = ip g (gs4_u3 g nrm u v1 v2 v3) (gs4_u3 g nrm u v1 v2 v3))
    (hN3' : nrm (gs4_u3 g nrm u v1 v2 v3) ≠ 0) :
    IsNullTetrad g (nullVectorBase s I (gramSchmidt4 g nrm u v1 v2 v3)) :=
  nullVectorBase_isNull g s I hs hI _ (gramSchmidt4_orthonormal g hg nrm u v1 v2 v3 h0 hN1 hN1' hN2 hN2' hN3 hN3')

/-- quasi-Kinnersley branch: the spatial triad is orthonormal for γ wherever the three norms are true
non-zero norms (excludes the axis `x = y = 0`, where `v1 = (−y,x,0) = 0`). -/
theorem tetrad_qK_triad_orthonormal (γ : Fin 3 → Fin 3 → K) (hγ : ∀ a b, γ a b = γ b a)
    (nrm : (Fin 3 → K) → K) (v1 v2 v3 : Fin 3 → K)
    (hN1 : nrm v1 ^ 2 = ip γ v1 v1) (hN1' : nrm v1 ≠ 0)
    (hN2 : nrm (gs3_u2 γ nrm v1 v2) ^ 2 = ip γ (gs3_u2 γ nrm v1 v2) (gs3_u2 γ nrm v1 v2))
    (hN2' : nrm (gs3_u2 γ nrm v1 v2) ≠ 0)
    (hN3 : nrm (gs3_u3 γ nrm v1 v2 v3) ^ 2 = ip γ (gs3_u3 γ nrm v1 v2 v3) (gs3_u3 γ nrm v1 v2 v3))
    (hN3' : nrm (gs3_u3 γ nrm v1 v2 v3) ≠ 0) (a b : Fin 3) :
    ip γ (gramSchmidt3 γ nrm v1 v2 v3 a) (gramSchmidt3 γ nrm v1 v2 v3 b) = if a = b then 1 else 0 :=
  gramSchmidt3_orthonormal γ hγ nrm v1 v2 v3 hN1 hN1' hN2 hN2' hN3 hN3' a b

/-! ### T7 the Weyl scalars -/

/-- the five einsums of `Weyl_Psi` are the textbook components `Ψ0 = C(k,m,k,m)`, `Ψ1 = C(k,l,k,m)`,
`Ψ2 = C(k,m,m̄,l)`, `Ψ3 = C(k,l,m̄,l)`, `Ψ4 = C(l,m̄,l,m̄)` for every tensor antisymmetric in each
index pair (the code writes Ψ1 as `C(l,k,m,k)`). -/
theorem psi_spec (C : Fin 4 → Fin 4 → Fin 4 → Fin 4 → K) (h12 : ∀ a b c d, C a b c d = -C b a c d)
    (h34 : ∀ a b c d, C a b c d = -C a b d c) (t : NullTetrad K) : weylPsi C t = psi C t := by
  have h1 : einsum4 C t.l t.k t.m t.k = contract4 C t.k t.l t.k t.m := contract4_psi1 C h12 h34 t.l t.k t.m
  simp only [weylPsi, psi, h1]
  rfl

/-! ### T8 the invariants -/

/-- the code's `I_inv`, `J_inv` are `I = Ψ0Ψ4 − 4Ψ1Ψ3 + 3Ψ2²` and the 3x3 determinant
`J = det[[Ψ4,Ψ3,Ψ2],[Ψ3,Ψ2,Ψ1],[Ψ2,Ψ1,Ψ0]]` (`maths.determinant3` is exact on this symmetric matrix). -/
theorem invariants_spec (e : Env K) (Ψ : Scalars K) :
    weylInvI Ψ = invI Ψ ∧ weylInvJ e Ψ = invJ Ψ
    ∧ weylInvJ e Ψ = Matrix.det (Matrix.of (vec3 (vec3 Ψ.p4 Ψ.p3 Ψ.p2) (vec3 Ψ.p3 Ψ.p2 Ψ.p1) (vec3 Ψ.p2 Ψ.p1 Ψ.p0))) := by
  refine ⟨?_, ?_, ?_⟩
  · simp only [weylInvI, invI]; ring
  · simp only [weylInvJ, invJ, core_unfold]; ring
  · unfold weylInvJ
    refine C08.determinant3_is_det e _ ?_
    cases3 <;> cases3 <;> rfl

/-- **I and J do not depend on the null tetrad**: invariance under class I and II null rotations (any
complex parameter), class III boost–spin (`z w = 1`) and the exchange `k ↔ l`, `m ↔ m̄`, acting on
(Ψ0..Ψ4) as in the textbooks.  Polynomial identities, valid in every commutative ring. -/
theorem invariants_tetrad_independent {R : Type} [CommRing R] (Ψ : Scalars R) (a b z w : R) (hzw : z * w = 1) :
    (invI (rotI a Ψ) = invI Ψ ∧ invJ (rotI a Ψ) = invJ Ψ)
    ∧ (invI (rotII b Ψ) = invI Ψ ∧ invJ (rotII b Ψ) = invJ Ψ)
    ∧ (invI (rotIII z w Ψ) = invI Ψ ∧ invJ (rotIII z w Ψ) = invJ Ψ)
    ∧ (invI (swapKL Ψ) = invI Ψ ∧ invJ (swapKL Ψ) = invJ Ψ) :=
  ⟨⟨invI_rotI a Ψ, invJ_rotI a Ψ⟩, ⟨invI_rotII b Ψ, invJ_rotII b Ψ⟩,
    ⟨invI_rotIII z w hzw Ψ, invJ_rotIII z w hzw Ψ⟩, ⟨invI_swapKL Ψ, invJ_swapKL Ψ⟩⟩

/-! ### Non-vacuity -/

def exEtaT : Fin 4 → Fin 4 → ℚ := vec4 (vec4 (-1) 0 0 0) (vec4 0 1 0 0) (vec4 0 0 1 0) (vec4 0 0 0 1)

/-- a field with `i² = −1` and `2 s² = 1` other than ℂ: `ℤ/17` (`i = 4`, `s = 3`); the identity tetrad is
orthonormal for the Minkowski metric. -/
instance : Fact (Nat.Prime 17) := ⟨by decide⟩

example : (2 : ZMod 17) * 3 ^ 2 = 1 ∧ (4 : ZMod 17) ^ 2 = -1
    ∧ Orthonormal (fun a b : Fin 4 => (if a = b then (if a = 0 then -1 else 1) else 0 : ZMod 17))
        (fun a b : Fin 4 => if a = b then 1 else 0) := by
  refine ⟨by decide, by decide, ?_⟩
  intro a b
  simp only [ip, eta, Fin.sum_univ_four]
  revert a b
  decide

/-- a boosted observer `u = (5/4, 3/4, 0, 0)` in Minkowski space and the coordinate start vectors: all
Gram–Schmidt norms are rational (`5/4, 1, 1`) and non-zero. -/
def exU : Fin 4 → ℚ := vec4 (5 / 4) (3 / 4) 0 0
def exNrm : (Fin 4 → ℚ) → ℚ := fun x => if x 1 = 25 / 16 then 5 / 4 else 1

example : ip exEtaT exU exU = -1
    ∧ exNrm (gs4_u1 exEtaT exU (vec4 0 1 0 0)) ^ 2
        = ip exEtaT (gs4_u1 exEtaT exU (vec4 0 1 0 0)) (gs4_u1 exEtaT exU (vec4 0 1 0 0))
    ∧ exNrm (gs4_u1 exEtaT exU (vec4 0 1 0 0)) ≠ 0 := by
  have h1 : gs4_u1 exEtaT exU (vec4 0 1 0 0) 1 = 25 / 16 := by
    simp only [gs4_u1, ip, exEtaT, exU, core_unfold, Fin.sum_univ_four]; norm_num
  refine ⟨?_, ?_, ?_⟩
  · simp only [ip, exEtaT, exU, core_unfold, Fin.sum_univ_four]; norm_num
  · simp only [exNrm, h1, if_true]
    simp only [gs4_u1, ip, exEtaT, exU, core_unfold, Fin.sum_univ_four]; norm_num
  · simp only [exNrm, h1, if_true]; norm_num

end AurelVerif.C10
