/-
Props/C06e.lean — property C06, extension round: the ADM EVOLUTION EQUATION of `K_ij` is no longer a hypothesis.

Until now the Layer-B theorems of Props/C06.lean, C06b, C06d took the ADM evolution equation `ADM.dtKdown` ("the book equation,
cited, not proven"), the Hamiltonian constraint and the momentum constraint as HYPOTHESES, and Props/C06c derived the constraints
from Einstein's equations only "modulo Gauss–Codazzi".  Here all of these are DERIVED from Einstein's equations
`G_ab + Λ g_ab = κ T_ab` for the textbook Riemann tensor ([LL] (92.1), `Spec.Curvature.riemannDown`) of the 4-metric assembled
from (α, β, γ) on 2-jets (`JetC`, Spec/Riemann4Jet.lean; `jetCOf e T` at one grid point, Lemmas/C04CurvCode.lean).
ALL theorems are LAYER B (consistency): jets are symbols, i.e. exact differentiation (Leibniz rule, commuting derivatives).

Textbook level (no generated code; vocabulary Spec/RicciEquation.lean):
  dtKd_is_leibniz         `∂_tK_ij` is DETERMINED by the 2-jet: `∂_t∂_tγ_ij` is the Leibniz t-derivative of the kinematic relation
                          for exactly one table `∂_tK_ij` (`JetC.dtKd`);  dtK_is_derivative: it is `d(K_ij)` for every derivation `d = ∂_t`
  ricci_equation_offshell `R_itjt = β^kR_jkit + β^kR_ikjt − β^kβ^lR_ikjl + α(∂_tK_ij − L_βK_ij) + αD_iD_jα + α²K_ikK^k_j`   OFF SHELL
                          (Gourgoulhon 3+1 (3.43) in coordinate components)
  adm_evolution_iff       the ADM evolution equation with the number `r` in place of `⁴R_ij` holds  ⟺  `r = g^{ac}R_aicj`
  adm_evolution_of_ricci  `∂_tK_ij = −D_iD_jα + α(³R_ij − 2K_ikK^k_j + K K_ij − ⁴R_ij) + L_βK_ij`
Code level (`OnShell e T` = Einstein's equations for the jet with the supplied `Tdown4`, `Lambda`, `kappa`; `IsDtK e T dtKd`):
  dtKdown_of_einstein[_vacuum]   `∂_tK_ij = ADM.dtKdown …` EXACTLY as in Spec/ADM.lean, with the code's `S_ij`, `S`, `ρ`, `Λ`, `κ`, `DDalpha`
  gaussCodazzi_textbook          hypotheses (S), (G), (C) of Props/C06c hold for the textbook tensor (C04b's Gauss–Codazzi)
  Hamiltonian_zero_of_einstein_textbook, Momentumup3_zero_of_einstein_textbook (+ `_vacuum`)   the constraints vanish on shell —
                                 the "modulo Gauss–Codazzi" caveat of Props/C06c is removed
  dtKtrace_is_dt_trace_of_einstein                   `dtKtrace = ∂_t(γ^ijK_ij)`   — neither `hadm` nor `hham`
  dtAdown3_bssnok_is_dt_conformal_of_einstein (+ `_vacuum`)   `dtAdown3_bssnok = ∂_tÃ_ij`   — no `hadm`
  dts_Gamma_bssnok_is_dt_of_einstein (+ `_vacuum`)   `dts_Gamma_bssnok = ∂_tΓ̃^i`   — no `hmomc`
  operator form (`∂_t = Dt` a derivation on values, `T := timeJet2Of e Dt`):
  isDtK_of_deriv, dtKdown3_is_dt_of_einstein, dtKtrace_is_dt_of_einstein, dtAdown3_bssnok_is_dt_of_einstein

Hypotheses that REMAIN (all stated in the theorems): `CurvHyp e T` (assembled metric, det γ ≠ 0, γ and K symmetric, the cached connection
torsion-free and metric compatible, `gammaup3 = γ⁻¹`, α ≠ 0, 2 ≠ 0, commuting difference operators, `s_Riemann_down3` = textbook
`³R` — C05's theorem); cached entries produced by the code's formulas (`AdmCached`, `MatterCached`, `s_RicciS`, `s_Ricci_down3`);
for the BSSNOK keys the conformal-weight relations and product rules already listed in Props/C06b, C06d, and that
`R̃_ij + R^φ_ij` is the Ricci tensor of γ (`hRic`, [A] (2.8.16): still NOT proven); for the momentum constraint `D_cγ^ab = 0` and the
product rule for `e.D`.  Still not proven: convergence orders, round-off.
Non-vacuity of every hypothesis list: Props/C06eEx.lean (on-shell point `exF` with matter and Λ, Kasner point `exKF`, static point `exM`, jet `C04.exJ`).
-/
import AurelVerif.Lemmas.C06AdmCode

set_option linter.unusedSimpArgs false
set_option linter.unusedVariables false
set_option linter.unusedSectionVars false
set_option linter.style.nameCheck false

namespace AurelVerif.C06
open AurelVerif.Gen.Core AurelVerif.Tensor AurelVerif.CoreTac AurelVerif.C08 AurelVerif.Spec.Covd AurelVerif.Spec
open AurelVerif.Spec.Curvature (JetC Jet ricciDown trace einstein KK3 RiemannSym tsplit)
open AurelVerif.C04L AurelVerif.C06L

variable {K : Type} [Field K]

/-! ### textbook level (jets as symbols, no generated code) -/

/-- **`∂_tK_ij` is determined by the 2-jet**: `∂_t∂_tγ_ij` is the Leibniz t-derivative of the kinematic relation with
`∂_tK_ij = J.dtKd i j`, and `J.dtKd` is the only such table. -/
theorem dtKd_is_leibniz (J : JetC K) (h : J.LeviCivita) :
    (∀ i j, J.dttgam i j = J.dttgamOf J.dtKd i j)
    ∧ ∀ dtK : Fin 3 → Fin 3 → K, (∀ i j, J.dttgam i j = J.dttgamOf dtK i j) → ∀ i j, dtK i j = J.dtKd i j :=
  ⟨JetC.dttgamOf_dtKd J h, fun dtK hT i j => JetC.dtK_unique J h dtK hT i j⟩

/-- `JetC.dttgamOf` is the derivative of the kinematic relation: for a derivation `d` (= `∂_t`) whose values on the 0- and 1-jets
are the corresponding jet symbols, `d(−2αK_jk + L_βγ_jk) = dttgamOf (d K) j k`; hence if that derivative is the jet's `∂_t∂_tγ_jk`,
then `d(K_jk) = J.dtKd j k`. -/
theorem dtK_is_derivative (J : JetC K) (hl : J.LeviCivita) {d : K → K} (h : C04L.Deriv d) (dtK : Fin 3 → Fin 3 → K)
    (ha : d J.alpha = J.dta) (hb : ∀ m, d (J.beta m) = J.dtb m) (hg : ∀ a b, d (J.gam a b) = J.dtgam a b)
    (hK : ∀ a b, d (J.Kd a b) = dtK a b) (hdg : ∀ m a b, d (J.dgam m a b) = J.ddtgam m a b)
    (hdb : ∀ l m, d (J.db l m) = J.ddb 0 l.succ m)
    (htt : ∀ j k, d (-(2 * J.alpha * J.Kd j k) + J.lieGam j k) = J.dttgam j k) (j k : Fin 3) :
    d (-(2 * J.alpha * J.Kd j k) + J.lieGam j k) = J.dttgamOf dtK j k ∧ dtK j k = J.dtKd j k := by
  have e : ∀ j k, d (-(2 * J.alpha * J.Kd j k) + J.lieGam j k) = J.dttgamOf dtK j k := by
    intro j k
    unfold Jet.lieGam JetC.dttgamOf JetC.dtLieGam
    rw [deriv_kinematic h]
    simp only [ha, hb, hg, hK, hdg, hdb]
  exact ⟨e j k, JetC.dtK_unique J hl dtK (fun i j => by rw [← htt i j, e i j]) j k⟩

/-- **THE RICCI EQUATION (off shell)**: the `itjt` components of the textbook Riemann tensor of the assembled 4-metric, in terms of
`∂_tK_ij`, `L_βK_ij`, `D_iD_jα`, `K_ikK^k_j` and the Gauss / Codazzi blocks — an identity, no field equation is used. -/
theorem ricci_equation_offshell (J : JetC K) (h : J.LeviCivita) (hs : J.Smooth) (gup : Fin 4 → Fin 4 → K)
    (hinv : ∀ a a', ∑ d, gup a d * J.g4 d a' = delta a a') (dtK : Fin 3 → Fin 3 → K)
    (hT : ∀ i j, J.dttgam i j = J.dttgamOf dtK i j) (i j : Fin 3) :
    J.riem4 gup i.succ 0 j.succ 0
      = ∑ k, J.codazziB j k i * J.beta k + ∑ k, J.codazziB i k j * J.beta k
        - ∑ k, ∑ l, J.gaussB i k j l * J.beta k * J.beta l
        + J.alpha * (dtK i j - J.lieK i j) + J.alpha * J.DDa i j + J.alpha ^ 2 * KK3 J.gamup J.Kd i j :=
  JetC.ricci_identity J h hs gup hinv dtK hT i j

/-- **ADM evolution equation ⟺ spatial Ricci component**: with the number `r` in place of `⁴R_ij`, the ADM evolution equation holds
for `∂_tK_ij` IF AND ONLY IF `r` is the component `g^{ac}R_aicj` of the Ricci tensor of the assembled metric. -/
theorem adm_evolution_iff (J : JetC K) (h : J.LeviCivita) (hs : J.Smooth) (dtK : Fin 3 → Fin 3 → K)
    (hT : ∀ i j, J.dttgam i j = J.dttgamOf dtK i j) (r : K) (i j : Fin 3) :
    dtK i j = -J.DDa i j
        + J.alpha * (ricciDown J.gamup J.riem3 i j - 2 * KK3 J.gamup J.Kd i j
            + J.Kd i j * (∑ k, ∑ l, J.gamup k l * J.Kd k l) - r) + J.lieK i j
      ↔ r = ricciDown J.gup3p1 (J.riem4 J.gup3p1) i.succ j.succ :=
  JetC.adm_iff J h hs dtK hT r i j

/-- **the ADM evolution equation of `K_ij`, geometric form**: `∂_tK_ij = −D_iD_jα + α(³R_ij − 2K_ikK^k_j + K K_ij − ⁴R_ij) + L_βK_ij`
when `Ric4` is the spatial block of the Ricci tensor of the assembled metric. -/
theorem adm_evolution_of_ricci (J : JetC K) (h : J.LeviCivita) (hs : J.Smooth) (gup : Fin 4 → Fin 4 → K)
    (hinv : ∀ a a', ∑ d, gup a d * J.g4 d a' = delta a a') (dtK : Fin 3 → Fin 3 → K)
    (hT : ∀ i j, J.dttgam i j = J.dttgamOf dtK i j) (Ric4 : Fin 3 → Fin 3 → K)
    (hRic : ∀ i j : Fin 3, Ric4 i j = ricciDown gup (J.riem4 gup) i.succ j.succ) (i j : Fin 3) :
    dtK i j = J.admRHS Ric4 i j :=
  JetC.adm_of_ricci J h hs gup hinv dtK hT Ric4 hRic i j

/-! ### code level: the ADM evolution equation of Spec/ADM.lean from Einstein's equations -/

/-- **`∂_tK_ij = ADM.dtKdown`** ([BS] (2.135) with Λ, exactly the hypothesis `hadm` of the Layer-B theorems), `vacuum = False`:
from Einstein's equations for the assembled jet, with `R_ij` the contraction of the cached `s_Riemann_down3`, `S_ij`, `S`, `ρ` the code's
Eulerian projections of `Tdown4`, `D_iD_jα` the code's `DDalpha`. -/
theorem dtKdown_of_einstein (e : Env K) (T : TimeJet2 K) (H : CurvHyp e T) (C : AdmCached e) (M : MatterCached e)
    (hE : OnShell e T) (dtKd : Fin 3 → Fin 3 → K) (hT : IsDtK e T dtKd) (i j : Fin 3) :
    dtKd i j = ADM.dtKdown e.betaup3 (dβ e) (pd2 e.D e.Kdown3) e.Kdown3 e.gammadown3 e.gammaup3 e.DDalpha
        (ricciDown e.gammaup3 e.s_Riemann_down3) e.Stressdown3_n e.alpha e.Ktrace e.kappa e.rho_n e.Stresstrace_n
        e.Lambda i j :=
  C06L.dtKdown_of_einstein H (C.normalOK H) C.hgup C.hDD C.hKt M.rho (M.strace H) (M.sdown H) hE dtKd hT i j

/-- the same for a vacuum solution (`G_ab = 0`): the vacuum ADM equation (`κ = ρ = S_ij = Λ = 0`, hypothesis `hadm` of the vacuum
branches). -/
theorem dtKdown_of_einstein_vacuum (e : Env K) (T : TimeJet2 K) (H : CurvHyp e T) (C : AdmCached e)
    (hE : OnShellVac e T) (dtKd : Fin 3 → Fin 3 → K) (hT : IsDtK e T dtKd) (i j : Fin 3) :
    dtKd i j = ADM.dtKdown e.betaup3 (dβ e) (pd2 e.D e.Kdown3) e.Kdown3 e.gammadown3 e.gammaup3 e.DDalpha
        (ricciDown e.gammaup3 e.s_Riemann_down3) (fun _ _ => 0) e.alpha e.Ktrace 0 0 0 0 i j :=
  C06L.dtKdown_of_einstein_vacuum H C.hDD C.hKt hE dtKd hT i j

/-! ### the constraints: Gauss–Codazzi discharged -/

/-- **(S), (G), (C) of Props/C06c.lean for the textbook Riemann tensor of the assembled metric** (C04b). -/
theorem gaussCodazzi_textbook (e : Env K) (T : TimeJet2 K) (H : CurvHyp e T) (hn : e.nup4 = nup4 e) :
    GaussCodazzi e ((jetCOf e T).riem4 (gup4 e)) e.s_Riemann_down3
      (covdDD e.s_Gamma_udd3 (pd2 e.D e.Kdown3) e.Kdown3) :=
  C06L.gaussCodazzi_textbook H hn

/-- **Einstein's equations ⟹ `Hamiltonian = 0`**, no Gauss–Codazzi hypothesis: `G_ab` is the Einstein tensor of the textbook
Riemann tensor of the assembled metric.  (`hRic3`: the cached `s_Ricci_down3` is the contraction of the cached `s_Riemann_down3`.) -/
theorem Hamiltonian_zero_of_einstein_textbook (e : Env K) (T : TimeJet2 K) (H : CurvHyp e T) (C : AdmCached e)
    (M : MatterCached e) (hRS : e.s_RicciS = s_RicciS e)
    (hRic3 : ∀ i j, e.s_Ricci_down3 i j = ricciDown e.gammaup3 e.s_Riemann_down3 i j) (hE : OnShell e T) :
    Hamiltonian__dflt_matter e = 0 :=
  Hamiltonian_zero_of_einstein e _ e.s_Riemann_down3 _ H.lc.two (C.normalOK H) (C06L.gaussCodazzi_textbook H C.hn)
    (symU_of H) (symK_of H) C.hKup C.hKt (ricciS_cached hRS hRic3).1 M.hρ (einsteinEq_of_onShell C.hgup hE)

/-- vacuum branch, vacuum solution. -/
theorem Hamiltonian_zero_of_einstein_textbook_vacuum (e : Env K) (T : TimeJet2 K) (H : CurvHyp e T) (C : AdmCached e)
    (hρ : e.rho_n = rho_n e) (hRS : e.s_RicciS = s_RicciS e)
    (hRic3 : ∀ i j, e.s_Ricci_down3 i j = ricciDown e.gammaup3 e.s_Riemann_down3 i j) (hE : OnShellVac e T) :
    Hamiltonian__dflt_vacuum e = 0 :=
  Hamiltonian_vacuum_zero_of_einstein e _ e.s_Riemann_down3 _ H.lc.two (C.normalOK H)
    (C06L.gaussCodazzi_textbook H C.hn) (symU_of H) (symK_of H) C.hKup C.hKt (ricciS_cached hRS hRic3).1 hρ
    (einstein4_zero_of_onShellVac C.hgup hE)

/-- **Einstein's equations ⟹ `Momentumup3 = 0`**, no Gauss–Codazzi hypothesis (remaining: product rule for `e.D`, `D_cγ^ab = 0`). -/
theorem Momentumup3_zero_of_einstein_textbook (e : Env K) (T : TimeJet2 K) (H : CurvHyp e T) (C : AdmCached e)
    (M : MatterCached e) (hD : ∀ s, C06Deriv.Deriv (e.D s))
    (hcompat : ∀ c a b, covdUU e.s_Gamma_udd3 (pd2 e.D e.gammaup3) e.gammaup3 c a b = 0)
    (hE : OnShell e T) (i : Fin 3) : Momentumup3__dflt_matter e i = 0 :=
  Momentumup3_zero_of_einstein e _ e.s_Riemann_down3 _ H.lc.two (C.normalOK H) (C06L.gaussCodazzi_textbook H C.hn)
    M.hflux (fun i => momentum_div_lowered e hD (symU_of H) C.hKup C.hKt hcompat i)
    (einsteinEq_of_onShell C.hgup hE) i

theorem Momentumup3_zero_of_einstein_textbook_vacuum (e : Env K) (T : TimeJet2 K) (H : CurvHyp e T)
    (C : AdmCached e) (hflux : e.fluxup3_n = fluxup3_n e) (hD : ∀ s, C06Deriv.Deriv (e.D s))
    (hcompat : ∀ c a b, covdUU e.s_Gamma_udd3 (pd2 e.D e.gammaup3) e.gammaup3 c a b = 0)
    (hE : OnShellVac e T) (i : Fin 3) : Momentumup3__dflt_vacuum e i = 0 :=
  Momentumup3_vacuum_zero_of_einstein e _ e.s_Riemann_down3 _ H.lc.two (C.normalOK H)
    (C06L.gaussCodazzi_textbook H C.hn) hflux
    (fun i => momentum_div_lowered e hD (symU_of H) C.hKup C.hKt hcompat i)
    (einstein4_zero_of_onShellVac C.hgup hE) i

/-! ### the Layer-B theorems with the ADM / constraint hypotheses replaced by Einstein's equations -/

/-- **`dtKtrace = ∂_t(γ^ijK_ij)` on shell** (`Props/C06.lean dtKtrace_is_dt_trace` without `hadm`, `hham`): `∂_tγ^ij` = the code's
`dtgammaup3` (T3), `∂_tK_ij` the table determined by the 2-jet, Einstein's equations for the assembled jet. -/
theorem dtKtrace_is_dt_trace_of_einstein (e : Env K) (T : TimeJet2 K) (H : CurvHyp e T) (C : AdmCached e)
    (M : MatterCached e) (hκ : e.kappa ≠ 0) (hRS : e.s_RicciS = s_RicciS e)
    (hRic3 : ∀ i j, e.s_Ricci_down3 i j = ricciDown e.gammaup3 e.s_Riemann_down3 i j)
    (hA2 : e.A2_bssnok = (∑ i, ∑ j, e.Kdown3 i j * e.Kup3 i j) - (1 / 3) * e.Ktrace ^ 2)
    (hdK : ∀ s, e.D s e.Ktrace
        = ∑ i, ∑ j, (e.D s (e.gammaup3 i j) * e.Kdown3 i j + e.gammaup3 i j * e.D s (e.Kdown3 i j)))
    (dtU dtKd : Fin 3 → Fin 3 → K) (hdtU : ∀ i j, dtU i j = dtgammaup3 e i j)
    (hT : IsDtK e T dtKd) (hE : OnShell e T) :
    dtKtrace__dflt_matter e = ∑ i, ∑ j, (dtU i j * e.Kdown3 i j + e.gammaup3 i j * dtKd i j) :=
  dtKtrace_is_dt_trace e dtU dtKd (ricciDown e.gammaup3 e.s_Riemann_down3) H.lc.two hκ (symU_of H) (symK_of H)
    (hUG_of H) C.hKup C.hKt (M.strace' H) (ricciS_cached hRS hRic3).2 hA2 hdK hdtU
    (fun i j => dtKdown_of_einstein e T H C M hE dtKd hT i j)
    (Hamiltonian_zero_of_einstein_textbook e T H C M hRS hRic3 hE)

/-- **`dtAdown3_bssnok = ∂_t(ψ⁻⁴(K_ij − γ_ijK/3))` on shell**, matter branch (`Props/C06b.lean dtAdown3_bssnok_is_dt_conformal` without
`hadm`).  `hRic` (`R̃_ij + R^φ_ij` is the Ricci tensor of γ) stays a hypothesis. -/
theorem dtAdown3_bssnok_is_dt_conformal_of_einstein (e : Env K) (T : TimeJet2 K) (H : CurvHyp e T) (C : AdmCached e)
    (M : MatterCached e) (dtG dtU dtKd : Fin 3 → Fin 3 → K) (dtφ p q : K) (h3 : (3 : K) ≠ 0)
    (hpq : p * q = 1) (hexp : e.expF (-4 * e.phi_bssnok) = p)
    (hAt : ∀ i j, e.Adown3_bssnok i j = p * e.Adown3 i j) (hA : e.Adown3 = Adown3 e)
    (hUt : ∀ i j, e.gammaup3_bssnok i j = q * e.gammaup3 i j)
    (hRic : ∀ i j, RicSum e i j = ricciDown e.gammaup3 e.s_Riemann_down3 i j)
    (hdK : ∀ s, e.D s e.Ktrace
        = ∑ i, ∑ j, (e.D s (e.gammaup3 i j) * e.Kdown3 i j + e.gammaup3 i j * e.D s (e.Kdown3 i j)))
    (hdsA : ∀ s a b, e.D s (e.Adown3_bssnok a b)
        = p * (e.D s (e.Kdown3 a b) - (1 / 3) * (e.D s (e.gammadown3 a b) * e.Ktrace + e.gammadown3 a b * e.D s e.Ktrace))
          + (-4 * p * e.D s e.phi_bssnok) * (e.Kdown3 a b - (1 / 3) * e.gammadown3 a b * e.Ktrace))
    (hφ : dtφ = ADM.dtPhi e.betaup3 (grad e e.phi_bssnok) (dβ e) e.alpha e.Ktrace)
    (hkin : ∀ i j : Fin 3, dtG i j = -2 * e.alpha * e.Kdown3 i j
        + lieDD e.betaup3 (dβ e) (pd2 e.D e.gammadown3) e.gammadown3 i j)
    (hdtU : ∀ i j, dtU i j = dtgammaup3 e i j)
    (hT : IsDtK e T dtKd) (hE : OnShell e T) (i j : Fin 3) :
    dtAdown3_bssnok__dflt_matter e i j
      = p * (dtKd i j - (1 / 3) * (dtG i j * e.Ktrace
            + e.gammadown3 i j * ∑ a, ∑ b, (dtU a b * e.Kdown3 a b + e.gammaup3 a b * dtKd a b)))
        + (-4 * p * dtφ) * (e.Kdown3 i j - (1 / 3) * e.gammadown3 i j * e.Ktrace) :=
  dtAdown3_bssnok_is_dt_conformal e dtG dtU dtKd (ricciDown e.gammaup3 e.s_Riemann_down3) dtφ p q H.lc.two h3 H.asm.hsym
    (symU_of H) (symK_of H) (hUG_of H) (hGU_of H) C.hKup C.hKt (M.strace' H) hpq hexp hAt hA hUt hRic hdK hdsA hφ hkin hdtU
    (fun i j => dtKdown_of_einstein e T H C M hE dtKd hT i j) i j

/-- vacuum branch, vacuum solution. -/
theorem dtAdown3_bssnok_vacuum_is_dt_conformal_of_einstein (e : Env K) (T : TimeJet2 K) (H : CurvHyp e T)
    (C : AdmCached e) (dtG dtU dtKd : Fin 3 → Fin 3 → K) (dtφ p q : K) (h3 : (3 : K) ≠ 0)
    (hpq : p * q = 1) (hexp : e.expF (-4 * e.phi_bssnok) = p)
    (hAt : ∀ i j, e.Adown3_bssnok i j = p * e.Adown3 i j) (hA : e.Adown3 = Adown3 e)
    (hUt : ∀ i j, e.gammaup3_bssnok i j = q * e.gammaup3 i j)
    (hRic : ∀ i j, RicSum e i j = ricciDown e.gammaup3 e.s_Riemann_down3 i j)
    (hdK : ∀ s, e.D s e.Ktrace
        = ∑ i, ∑ j, (e.D s (e.gammaup3 i j) * e.Kdown3 i j + e.gammaup3 i j * e.D s (e.Kdown3 i j)))
    (hdsA : ∀ s a b, e.D s (e.Adown3_bssnok a b)
        = p * (e.D s (e.Kdown3 a b) - (1 / 3) * (e.D s (e.gammadown3 a b) * e.Ktrace + e.gammadown3 a b * e.D s e.Ktrace))
          + (-4 * p * e.D s e.phi_bssnok) * (e.Kdown3 a b - (1 / 3) * e.gammadown3 a b * e.Ktrace))
    (hφ : dtφ = ADM.dtPhi e.betaup3 (grad e e.phi_bssnok) (dβ e) e.alpha e.Ktrace)
    (hkin : ∀ i j : Fin 3, dtG i j = -2 * e.alpha * e.Kdown3 i j
        + lieDD e.betaup3 (dβ e) (pd2 e.D e.gammadown3) e.gammadown3 i j)
    (hdtU : ∀ i j, dtU i j = dtgammaup3 e i j)
    (hT : IsDtK e T dtKd) (hE : OnShellVac e T) (i j : Fin 3) :
    dtAdown3_bssnok__dflt_vacuum e i j
      = p * (dtKd i j - (1 / 3) * (dtG i j * e.Ktrace
            + e.gammadown3 i j * ∑ a, ∑ b, (dtU a b * e.Kdown3 a b + e.gammaup3 a b * dtKd a b)))
        + (-4 * p * dtφ) * (e.Kdown3 i j - (1 / 3) * e.gammadown3 i j * e.Ktrace) :=
  dtAdown3_bssnok_vacuum_is_dt_conformal e dtG dtU dtKd (ricciDown e.gammaup3 e.s_Riemann_down3) dtφ p q H.lc.two h3
    H.asm.hsym (symU_of H) (symK_of H) (hUG_of H) (hGU_of H) C.hKup C.hKt hpq hexp hAt hA hUt hRic hdK hdsA hφ hkin hdtU
    (fun i j => dtKdown_of_einstein_vacuum e T H C hE dtKd hT i j) i j

/-- **the conformal momentum constraint [A] (2.8.24) on shell** (hypothesis `hmomc` of `dts_Gamma_bssnok_is_dt`), from Einstein's
equations: Codazzi (C04b) ⟹ `Momentumup3 = 0` ⟹ conformal form (`momentum_conformal`, `momc_of_Momentum_zero`). -/
theorem momc_of_einstein (e : Env K) (T : TimeJet2 K) (H : CurvHyp e T) (C : AdmCached e) (M : MatterCached e)
    (hD : ∀ s, C06Deriv.Deriv (e.D s)) (p q : K) (h3 : (3 : K) ≠ 0) (hsymA : Sym e.Aup3_bssnok)
    (hA : e.Adown3 = Adown3 e) (hAu : e.Aup3 = Aup3 e) (hpq : p * q = 1) (hexp : e.expF (4 * e.phi_bssnok) = q)
    (hUt : ∀ i j, e.gammaup3_bssnok i j = q * e.gammaup3 i j)
    (hAut : ∀ i j, e.Aup3_bssnok i j = q * e.Aup3 i j)
    (hps : ∀ s, e.D s p = -4 * p * e.D s e.phi_bssnok)
    (hcompat : ∀ c a b, covdUU e.s_Gamma_udd3 (pd2 e.D e.gammaup3) e.gammaup3 c a b = 0)
    (hΓt : e.s_Gamma_udd3_bssnok = s_Gamma_udd3_bssnok e)
    (hΓ0 : ∀ m, ∑ j, e.s_Gamma_udd3_bssnok j j m = 0) (hE : OnShell e T) (i : Fin 3) :
    ∑ j, e.D j (e.Aup3_bssnok i j)
      = -(∑ j, ∑ k, e.s_Gamma_udd3_bssnok i j k * e.Aup3_bssnok j k)
        - 6 * (∑ j, e.Aup3_bssnok i j * e.D j e.phi_bssnok)
        + (2 / 3) * (∑ j, e.gammaup3_bssnok i j * e.D j e.Ktrace)
        + e.kappa * e.expF (4 * e.phi_bssnok) * e.fluxup3_n i :=
  momc_of_Momentum_zero e p q hpq hexp
    (fun i => momentum_conformal e hD p q h3 H.asm.hsym (symU_of H) hsymA (hUG_of H) (hGU_of H) C.hKup C.hKt hA hAu hpq hUt
      hAut hps hcompat hΓt hΓ0 i)
    (fun i => Momentumup3_zero_of_einstein_textbook e T H C M hD hcompat hE i) i

/-- **`dts_Gamma_bssnok = ∂_tΓ̃^i` on shell**, matter branch (`Props/C06d.lean dts_Gamma_bssnok_is_dt` without the momentum-constraint
hypothesis `hmomc`). -/
theorem dts_Gamma_bssnok_is_dt_of_einstein (e : Env K) (T : TimeJet2 K) (H : CurvHyp e T) (C : AdmCached e)
    (M : MatterCached e) (Dt : K → K) (hDt : C06Deriv.Deriv Dt) (hD : ∀ s, C06Deriv.Deriv (e.D s)) (h3 : (3 : K) ≠ 0)
    (hct : ∀ s x, Dt (e.D s x) = e.D s (Dt x)) (hcs : ∀ s r x, e.D s (e.D r x) = e.D r (e.D s x))
    (hΓc : e.s_Gamma_bssnok = s_Gamma_bssnok e)
    (hdtUt : ∀ i j, Dt (e.gammaup3_bssnok i j)
        = lieUU e.betaup3 (dβ e) (pd2 e.D e.gammaup3_bssnok) e.gammaup3_bssnok i j
          + (2 / 3) * divβ (dβ e) * e.gammaup3_bssnok i j + 2 * e.alpha * e.Aup3_bssnok i j)
    (p q : K) (hsymA : Sym e.Aup3_bssnok)
    (hA : e.Adown3 = Adown3 e) (hAu : e.Aup3 = Aup3 e) (hpq : p * q = 1) (hexp : e.expF (4 * e.phi_bssnok) = q)
    (hUt : ∀ i j, e.gammaup3_bssnok i j = q * e.gammaup3 i j)
    (hAut : ∀ i j, e.Aup3_bssnok i j = q * e.Aup3 i j)
    (hps : ∀ s, e.D s p = -4 * p * e.D s e.phi_bssnok)
    (hcompat : ∀ c a b, covdUU e.s_Gamma_udd3 (pd2 e.D e.gammaup3) e.gammaup3 c a b = 0)
    (hΓt : e.s_Gamma_udd3_bssnok = s_Gamma_udd3_bssnok e)
    (hΓ0 : ∀ m, ∑ j, e.s_Gamma_udd3_bssnok j j m = 0) (hE : OnShell e T) (i : Fin 3) :
    dts_Gamma_bssnok__dflt_matter e i = Dt (e.s_Gamma_bssnok i) :=
  dts_Gamma_bssnok_is_dt e Dt hDt hD h3 hct hcs hΓc hdtUt
    (fun i => momc_of_einstein e T H C M hD p q h3 hsymA hA hAu hpq hexp hUt hAut hps hcompat hΓt hΓ0 hE i) i

/-- vacuum branch, vacuum solution. -/
theorem dts_Gamma_bssnok_vacuum_is_dt_of_einstein (e : Env K) (T : TimeJet2 K) (H : CurvHyp e T) (C : AdmCached e)
    (hflux : e.fluxup3_n = fluxup3_n e)
    (Dt : K → K) (hDt : C06Deriv.Deriv Dt) (hD : ∀ s, C06Deriv.Deriv (e.D s)) (h3 : (3 : K) ≠ 0)
    (hct : ∀ s x, Dt (e.D s x) = e.D s (Dt x)) (hcs : ∀ s r x, e.D s (e.D r x) = e.D r (e.D s x))
    (hΓc : e.s_Gamma_bssnok = s_Gamma_bssnok e)
    (hdtUt : ∀ i j, Dt (e.gammaup3_bssnok i j)
        = lieUU e.betaup3 (dβ e) (pd2 e.D e.gammaup3_bssnok) e.gammaup3_bssnok i j
          + (2 / 3) * divβ (dβ e) * e.gammaup3_bssnok i j + 2 * e.alpha * e.Aup3_bssnok i j)
    (p q : K) (hsymA : Sym e.Aup3_bssnok)
    (hA : e.Adown3 = Adown3 e) (hAu : e.Aup3 = Aup3 e) (hpq : p * q = 1)
    (hUt : ∀ i j, e.gammaup3_bssnok i j = q * e.gammaup3 i j)
    (hAut : ∀ i j, e.Aup3_bssnok i j = q * e.Aup3 i j)
    (hps : ∀ s, e.D s p = -4 * p * e.D s e.phi_bssnok)
    (hcompat : ∀ c a b, covdUU e.s_Gamma_udd3 (pd2 e.D e.gammaup3) e.gammaup3 c a b = 0)
    (hΓt : e.s_Gamma_udd3_bssnok = s_Gamma_udd3_bssnok e)
    (hΓ0 : ∀ m, ∑ j, e.s_Gamma_udd3_bssnok j j m = 0) (hE : OnShellVac e T) (i : Fin 3) :
    dts_Gamma_bssnok__dflt_vacuum e i = Dt (e.s_Gamma_bssnok i) := by
  refine dts_Gamma_bssnok_vacuum_is_dt e Dt hDt hD h3 hct hcs hΓc hdtUt (fun i => ?_) i
  have hm := Momentumup3_zero_of_einstein_textbook_vacuum e T H C hflux hD hcompat hE i
  rw [(Momentumup3_spec e i).2, momentum_conformal e hD p q h3 H.asm.hsym (symU_of H) hsymA (hUG_of H) (hGU_of H) C.hKup
    C.hKt hA hAu hpq hUt hAut hps hcompat hΓt hΓ0 i] at hm
  linear_combination q * hm + (-((∑ j, e.D j (e.Aup3_bssnok i j))
    + (∑ j, ∑ k, e.s_Gamma_udd3_bssnok i j k * e.Aup3_bssnok j k)
    + 6 * (∑ j, e.Aup3_bssnok i j * e.D j e.phi_bssnok)
    - (2 / 3) * ∑ j, e.gammaup3_bssnok i j * e.D j e.Ktrace)) * hpq

/-! ### operator form: `∂_t = Dt`, an additive operator on values obeying the product rule -/

/-- **`Dt(Dt γ_ij)` is the Leibniz t-derivative of the kinematic relation with `∂_tK_ij = Dt K_ij`** (so `IsDtK` is not an extra
assumption in the operator form). -/
theorem isDtK_of_deriv (e : Env K) (Dt : K → K) (hDt : C06Deriv.Deriv Dt) (hD : ∀ s, C06Deriv.Deriv (e.D s))
    (lc : (jetOf e).LeviCivita) (hct : ∀ s x, Dt (e.D s x) = e.D s (Dt x))
    (hα : Dt e.alpha = e.dtalpha) (hβ : ∀ m, Dt (e.betaup3 m) = e.dtbetaup3 m)
    (hkin : ∀ i j : Fin 3, Dt (e.gammadown3 i j) = -2 * e.alpha * e.Kdown3 i j
        + lieDD e.betaup3 (dβ e) (pd2 e.D e.gammadown3) e.gammadown3 i j) :
    IsDtK e (timeJet2Of e Dt) (fun i j => Dt (e.Kdown3 i j)) :=
  C06L.isDtK_of_deriv e Dt hDt hD lc hct hα hβ hkin

/-- **`Dt K_ij` obeys the ADM evolution equation on shell**: for additive `Dt`, `e.D s` obeying the product rule, `Dt` commuting
with `e.D s`, `Dt α = dtalpha`, `Dt β = dtbetaup3`, the kinematic relation for `Dt γ_ij`, and Einstein's equations for the jet whose
second time derivatives are `Dt(dtalpha)`, `Dt(∂_iα)`, `Dt(dtbetaup3)`, `Dt(∂_iβ^m)`, `Dt(Dt γ_ij)`. -/
theorem dtKdown3_is_dt_of_einstein (e : Env K) (Dt : K → K) (hDt : C06Deriv.Deriv Dt)
    (hD : ∀ s, C06Deriv.Deriv (e.D s)) (H : CurvHyp e (timeJet2Of e Dt)) (C : AdmCached e) (M : MatterCached e)
    (hct : ∀ s x, Dt (e.D s x) = e.D s (Dt x))
    (hα : Dt e.alpha = e.dtalpha) (hβ : ∀ m, Dt (e.betaup3 m) = e.dtbetaup3 m)
    (hkin : ∀ i j : Fin 3, Dt (e.gammadown3 i j) = -2 * e.alpha * e.Kdown3 i j
        + lieDD e.betaup3 (dβ e) (pd2 e.D e.gammadown3) e.gammadown3 i j)
    (hE : OnShell e (timeJet2Of e Dt)) (i j : Fin 3) :
    Dt (e.Kdown3 i j) = ADM.dtKdown e.betaup3 (dβ e) (pd2 e.D e.Kdown3) e.Kdown3 e.gammadown3 e.gammaup3 e.DDalpha
        (ricciDown e.gammaup3 e.s_Riemann_down3) e.Stressdown3_n e.alpha e.Ktrace e.kappa e.rho_n e.Stresstrace_n
        e.Lambda i j :=
  dtKdown_of_einstein e _ H C M hE (fun i j => Dt (e.Kdown3 i j))
    (C06L.isDtK_of_deriv e Dt hDt hD H.lc hct hα hβ hkin) i j

/-- **`dtKtrace = ∂_tK` on shell**, operator form. -/
theorem dtKtrace_is_dt_of_einstein (e : Env K) (Dt : K → K) (hDt : C06Deriv.Deriv Dt)
    (hD : ∀ s, C06Deriv.Deriv (e.D s)) (H : CurvHyp e (timeJet2Of e Dt)) (C : AdmCached e) (M : MatterCached e)
    (hκ : e.kappa ≠ 0) (hRS : e.s_RicciS = s_RicciS e)
    (hRic3 : ∀ i j, e.s_Ricci_down3 i j = ricciDown e.gammaup3 e.s_Riemann_down3 i j)
    (hA2 : e.A2_bssnok = (∑ i, ∑ j, e.Kdown3 i j * e.Kup3 i j) - (1 / 3) * e.Ktrace ^ 2)
    (hct : ∀ s x, Dt (e.D s x) = e.D s (Dt x))
    (hα : Dt e.alpha = e.dtalpha) (hβ : ∀ m, Dt (e.betaup3 m) = e.dtbetaup3 m)
    (hkin : ∀ i j : Fin 3, Dt (e.gammadown3 i j) = -2 * e.alpha * e.Kdown3 i j
        + lieDD e.betaup3 (dβ e) (pd2 e.D e.gammadown3) e.gammadown3 i j)
    (hE : OnShell e (timeJet2Of e Dt)) :
    dtKtrace__dflt_matter e = Dt e.Ktrace := by
  have hT : e.Ktrace = ∑ i, ∑ j, e.gammaup3 i j * e.Kdown3 i j := by rw [C.hKt]; exact Ktrace_spec e
  have hdT : ∀ {d : K → K}, C06Deriv.Deriv d → d e.Ktrace
      = ∑ i, ∑ j, (d (e.gammaup3 i j) * e.Kdown3 i j + e.gammaup3 i j * d (e.Kdown3 i j)) := by
    intro d hd
    conv_lhs => rw [hT]
    exact deriv_trace hd e.gammaup3 e.Kdown3
  rw [hdT hDt]
  exact dtKtrace_is_dt_trace_of_einstein e _ H C M hκ hRS hRic3 hA2 (fun s => hdT (hD s))
    (fun i j => Dt (e.gammaup3 i j)) (fun i j => Dt (e.Kdown3 i j))
    (fun i j => (dtgammaup3_is_dt e Dt hDt hD (hUG_of H) (hGU_of H) (symU_of H) C.hKup hkin i j).symm)
    (C06L.isDtK_of_deriv e Dt hDt hD H.lc hct hα hβ hkin) hE

/-- **`dtAdown3_bssnok = ∂_tÃ_ij` on shell**, operator form (`Props/C06b.lean dtAdown3_bssnok_is_dt` with `hadm` replaced by
Einstein's equations). -/
theorem dtAdown3_bssnok_is_dt_of_einstein (e : Env K) (Dt : K → K) (hDt : C06Deriv.Deriv Dt)
    (hD : ∀ s, C06Deriv.Deriv (e.D s)) (H : CurvHyp e (timeJet2Of e Dt)) (C : AdmCached e) (M : MatterCached e)
    (p q : K) (h3 : (3 : K) ≠ 0)
    (hpq : p * q = 1) (hexp : e.expF (-4 * e.phi_bssnok) = p)
    (hAt : ∀ i j, e.Adown3_bssnok i j = p * e.Adown3 i j) (hA : e.Adown3 = Adown3 e)
    (hUt : ∀ i j, e.gammaup3_bssnok i j = q * e.gammaup3 i j)
    (hRic : ∀ i j, RicSum e i j = ricciDown e.gammaup3 e.s_Riemann_down3 i j)
    (hpt : Dt p = -4 * p * Dt e.phi_bssnok) (hps : ∀ s, e.D s p = -4 * p * e.D s e.phi_bssnok)
    (hφ : Dt e.phi_bssnok = ADM.dtPhi e.betaup3 (grad e e.phi_bssnok) (dβ e) e.alpha e.Ktrace)
    (hct : ∀ s x, Dt (e.D s x) = e.D s (Dt x))
    (hα : Dt e.alpha = e.dtalpha) (hβ : ∀ m, Dt (e.betaup3 m) = e.dtbetaup3 m)
    (hkin : ∀ i j : Fin 3, Dt (e.gammadown3 i j) = -2 * e.alpha * e.Kdown3 i j
        + lieDD e.betaup3 (dβ e) (pd2 e.D e.gammadown3) e.gammadown3 i j)
    (hE : OnShell e (timeJet2Of e Dt)) (i j : Fin 3) :
    dtAdown3_bssnok__dflt_matter e i j = Dt (e.Adown3_bssnok i j) :=
  dtAdown3_bssnok_is_dt e Dt hDt hD (ricciDown e.gammaup3 e.s_Riemann_down3) p q H.lc.two h3 H.asm.hsym (symU_of H)
    (symK_of H) (hUG_of H) (hGU_of H) C.hKup C.hKt (M.strace' H) hpq hexp hAt hA hUt hRic hpt hps hφ hkin
    (fun i j => dtKdown3_is_dt_of_einstein e Dt hDt hD H C M hct hα hβ hkin hE i j) i j

end AurelVerif.C06
