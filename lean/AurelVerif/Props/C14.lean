/-
Props/C14.lean — property theorems for C14 (over_time equals independent
per-step computation, correctly ordered).  ONLY property statements and
non-vacuity examples live here; the proofs are in Lemmas/Table.lean.

Model: Model/Table.lean (hand-written, literal after src/aurel/time.py; tied
to the real `aurel.over_time` by the canonical-table correspondence of
tools/props/C14.py).

Vocabulary (all defined in Model/Table.lean and Lemmas/Table.lean):
  `Table C`  dict of columns, `Row C` one per-step dict, `WF t n` = a dict of
  `n`-element lists with distinct keys, `rowsOf t n` its list of per-step
  dicts, `sortP E tk rows` = `sorted(rows, key=lambda x: x[tk])`,
  `cleanVars E t vars` / `cleanedEsts E t cv ests` the cleaned request lists,
  `Processes E t vars ests` = at least one of them is non-empty,
  `callF E t vars ests : Row C → Row C` the function applied to every row
  (`process_single_timestep` with the scalar keys `callSk` decided on the first
  row), `relData E cv r` the `rel.data` of the fresh `AurelCore` of row `r`,
  `colsOf` list of dicts → dict of columns, `colOf k rows` column `k`.

Further theorems (estimates passed in every call, items that read custom
variables, one explicit permutation for all columns, strong non-interference,
what later calls cannot change): Props/C14b.lean.
-/
import AurelVerif.Lemmas.Table

namespace AurelVerif.C14
open AurelVerif.Table

variable {C : Type}

/-! ## T1 per step, no leakage -/

/-- **T1** For every table (any number `n ≥ 1` of rows, any row order, any
columns) and every request: the column stored for a requested variable `v` is,
row by row of the sorted input rows, `rel[v]` of the `AurelCore` whose data
is `relData E cv r` — a function of that row `r` alone (its inputs followed by
the custom-function values, see `per_step_frozen_customs`).  No other row
occurs in the term. -/
theorem per_step (E : Env C) {t : Table C} {n : Nat} {tk : Name} (hwf : WF t n) (hn : 0 < n)
    (htk : temporalKey t = some tk) {vars ests : List Req} (hp : Processes E t vars ests) :
    ∃ out, overTime E t vars ests = .ok out ∧
      ∀ v ∈ cleanVars E t vars,
        get? v.key out = some ((sortP E tk (rowsOf t n)).map
          (fun r => relGet E (relData E (cleanVars E t vars) r) v.key)) :=
  per_step_lemma E hwf hn htk hp

/-- **T1, custom variables are frozen inputs of the step** (request names
pairwise distinct): the `AurelCore` of row `r` holds `r ++ custVals E r cv` —
the row's inputs followed by the values of the custom functions, each
evaluated on the inputs plus the custom values before it — and every requested
variable is read from exactly that dictionary; in particular every built-in
name `s` of the row is `comp (r ++ custVals E r cv) s`.  The model has no
cache parameter: whatever `clear_cache_every_nbr_calc` / memory threshold is
passed through `over_time`, a custom value (also one named like a built-in
key, e.g. a custom `press`) is an input of everything computed later in the
same step, never replaced by the built-in default. -/
theorem per_step_frozen_customs (E : Env C) {t : Table C} {n : Nat} {tk : Name} (hwf : WF t n)
    (hn : 0 < n) (htk : temporalKey t = some tk) {vars ests : List Req} (hp : Processes E t vars ests)
    (hnd : ((cleanVars E t vars).map CReq.key).Nodup) :
    ∃ out, overTime E t vars ests = .ok out ∧
      (∀ v ∈ cleanVars E t vars,
        get? v.key out = some ((sortP E tk (rowsOf t n)).map
          (fun r => relGet E (r ++ custVals E r (cleanVars E t vars)) v.key))) ∧
      (∀ s, CReq.name s ∈ cleanVars E t vars →
        get? s out = some ((sortP E tk (rowsOf t n)).map
          (fun r => E.comp (r ++ custVals E r (cleanVars E t vars)) s))) :=
  per_step_frozen_customs_lemma E hwf hn htk hp hnd

/-- **T1, built-in names** If the cleaned request contains only built-in
names, every stored cell is `comp (that row's input cells) name`. -/
theorem per_step_builtin (E : Env C) {t : Table C} {n : Nat} {tk : Name} (hwf : WF t n) (hn : 0 < n)
    (htk : temporalKey t = some tk) {vars ests : List Req} (hp : Processes E t vars ests)
    (hb : ∀ v ∈ cleanVars E t vars, ∃ s, v = .name s) :
    ∃ out, overTime E t vars ests = .ok out ∧
      ∀ s, CReq.name s ∈ cleanVars E t vars →
        get? s out = some ((sortP E tk (rowsOf t n)).map (fun r => E.comp r s)) :=
  per_step_builtin_lemma E hwf hn htk hp hb

/-- **T1, non-interference** Two tables with the same columns whose sorted
rows agree at position `i` give the same cell `i` of every requested variable,
whatever their other rows are. -/
theorem no_leakage (E : Env C) {t t' : Table C} {n n' : Nat} {tk : Name}
    (hwf : WF t n) (hn : 0 < n) (htk : temporalKey t = some tk)
    (hwf' : WF t' n') (hn' : 0 < n') (htk' : temporalKey t' = some tk) (hkeys : keys t = keys t')
    {vars ests : List Req} (hp : Processes E t vars ests) (hp' : Processes E t' vars ests) :
    ∃ out out', overTime E t vars ests = .ok out ∧ overTime E t' vars ests = .ok out' ∧
      ∀ v ∈ cleanVars E t vars, ∀ i : Nat,
        (sortP E tk (rowsOf t n))[i]? = (sortP E tk (rowsOf t' n'))[i]? →
        (get? v.key out).bind (fun col => col[i]?) = (get? v.key out').bind (fun col => col[i]?) :=
  no_leakage_lemma E hwf hn htk hwf' hn' htk' hkeys hp hp'

/-! ## T2 estimates -/

/-- **T2** For every cleaned estimator `e` and every scalar key `k` (input
scalar or computed scalar alike: `k ∈ callSk`), if the name `k_e` is new and
no other (scalar key, estimator) pair spells the same name, the column `k_e`
is `est e` applied row by row to the column `k` of the output. -/
theorem estimates (E : Env C) {t : Table C} {n : Nat} {tk : Name} (hwf : WF t n) (hn : 0 < n)
    (htk : temporalKey t = some tk) {vars ests : List Req} (hp : Processes E t vars ests)
    {e : CReq} {k : Name} (he : e ∈ cleanedEsts E t (cleanVars E t vars) ests) (hk : k ∈ callSk E t vars)
    (hnew1 : estKey k e.key ∉ keys t) (hnew2 : estKey k e.key ∉ (cleanVars E t vars).map CReq.key)
    (huniq : ∀ e' ∈ cleanedEsts E t (cleanVars E t vars) ests, ∀ k' ∈ callSk E t vars,
      estKey k' e'.key = estKey k e.key → e' = e ∧ k' = k) :
    ∃ out col, overTime E t vars ests = .ok out ∧ get? k out = some col ∧
      get? (estKey k e.key) out = some (col.map (estApply E e)) :=
  estimates_lemma E hwf hn htk hp he hk hnew1 hnew2 huniq

/-- which keys are scalar keys: every key of the first processed row whose
cell is a 3-D array, input and computed alike -/
theorem scalar_keys (E : Env C) (t : Table C) (vars : List Req) {k : Name} {c : C}
    (h : get? k (stepVars E (cleanVars E t vars) (rowAt t 0)) = some c) (h3 : E.is3 c = true) :
    k ∈ callSk E t vars :=
  mem_scalarKeys_of_get? E h h3

/-! ## T3 sorted together -/

/-- **T3 (partial: the call computes something)** The output is the column
view of `sorted.map F` where `sorted` is a permutation of the input rows,
ordered by the temporal key, stable; `F` keeps every input cell of its row —
so all columns, old and new, are permuted by the same permutation, and every
input column is preserved cell by cell. -/
theorem sorted_together_partial (E : Env C) {t : Table C} {n : Nat} {tk : Name} (hwf : WF t n) (hn : 0 < n)
    (htk : temporalKey t = some tk) (hsw : StrictWeak E.lt) {vars ests : List Req}
    (hp : Processes E t vars ests) :
    ∃ out sorted,
      overTime E t vars ests = .ok out ∧
      sorted.Perm (rowsOf t n) ∧ sorted.Pairwise (RowLe E tk) ∧
      (∀ a b, [a, b].Sublist (rowsOf t n) → RowLe E tk a b → [a, b].Sublist sorted) ∧
      out = colsOf (sorted.map (callF E t vars ests)) ∧
      (∀ r ∈ sorted, ∀ k ∈ keys t, get? k (callF E t vars ests r) = get? k r) ∧
      (∀ k col, get? k t = some col → colOf k (rowsOf t n) = col ∧ get? k out = some (colOf k sorted)) :=
  sorted_together_lemma E hwf hn htk hsw hp

/-- the statement of T3 without the proviso "the call computes something" -/
def SortedTogetherFull : Prop :=
  ∀ (E : Env Nat) (t : Table Nat) (n : Nat) (tk : Name) (vars ests : List Req),
    WF t n → 0 < n → temporalKey t = some tk → StrictWeak E.lt →
    ∃ out col, overTime E t vars ests = .ok out ∧ get? tk out = some col ∧ Sorted E.lt col

/-- a call with nothing new returns its input unchanged (not sorted, not converted) -/
theorem nothing_new_returns_input (E : Env C) {t : Table C} {n : Nat} {tk : Name} (hwf : WF t n) (hn : 0 < n)
    (htk : temporalKey t = some tk) {vars ests : List Req} (hp : ¬ Processes E t vars ests) :
    overTime E t vars ests = .ok t :=
  overTime_nothing_new E hwf hn htk hp

/-! concrete environment for witnesses and non-vacuity -/

/-- `K = 100 + a`, custom `= 200 + a`, estimators add 1000 / 2000; cells in
`[10, 1000)` count as 3-D arrays -/
def E1 : Env Nat where
  isDescr := fun n => n == "K"
  isEstFn := fun e => e == "max"
  validVar := fun _ => true
  validEst := fun _ => true
  comp := fun rd _ => 100 + (get? "a" rd).getD 0
  cust := fun _ rd => 200 + (get? "a" rd).getD 0
  estB := fun _ c => 1000 + c
  estC := fun _ c => 2000 + c
  is3 := fun c => decide (10 ≤ c ∧ c < 1000)
  lt := fun a b => decide (a < b)

/-- three steps given in the order it = 2, 0, 1 -/
def t1 : Table Nat := [("it", [2, 0, 1]), ("a", [12, 10, 11])]

theorem wf_t1 : WF t1 3 := ⟨by decide, by intro kc h; simp [t1] at h; rcases h with rfl | rfl <;> rfl⟩

theorem sw_E1 : StrictWeak E1.lt :=
  ⟨fun a b h => by simp [E1] at h ⊢; omega, fun a b c h1 h2 => by simp [E1] at h1 h2 ⊢; omega⟩

/-- **T3 in full generality is false** (witness: unsorted table, empty
request — replayed on the real code by tools/props/C14.py) -/
theorem sorted_together_full_is_false : ¬ SortedTogetherFull := by
  intro h
  obtain ⟨out, col, h1, h2, h3⟩ := h E1 t1 3 "it" [] [] wf_t1 (by decide) (by decide +kernel) sw_E1
  have hout : overTime E1 t1 [] [] = .ok t1 := by decide +kernel
  rw [hout] at h1
  cases h1
  have : col = [2, 0, 1] := by
    have : get? "it" t1 = some [2, 0, 1] := by decide +kernel
    rw [this] at h2; cases h2; rfl
  subst this
  revert h3
  simp [Sorted, E1]

/-! ## T4 split invariance -/

/-- **T4** For every consecutive split of `vars ++ estimates` into successive
calls (`Consecutive`: no call passes an estimate before a later call passes a
variable), the final table is *equal* to the one-call table — same columns in
the same order, same rows.  Hypotheses `SplitHyp`: well-formed table with a
temporal key, `<` a strict weak order, requested variable names pairwise
distinct and not temporal names, requested estimators return scalars, array
rank constant along each column, and the C01 hypothesis `FeedbackOK`: for
every row `r` of `t` and every list `x` of entries `(name, value computed
from r)` of items the request actually computes (valid, not yet in `t`),
`comp (r ++ x) name = comp r name` and `cust f (r ++ x) = cust f r` for those
items — i.e. a column computed by an earlier call and handed back to the
fresh `AurelCore` as frozen input does not change what is computed later. -/
theorem split_invariance (E : Env C) {t : Table C} {n : Nat} {tk : Name}
    (calls : List (List Req × List Req)) (hc : Consecutive calls)
    (H : SplitHyp E t n tk (calls.flatMap (·.1)) (calls.flatMap (·.2))) :
    runCalls E t calls = overTime E t (calls.flatMap (·.1)) (calls.flatMap (·.2)) :=
  split_invariance_lemma E calls hc H

/-- **T4, as a split of the request sequence** `vars ++ estimates` cut into
consecutive segments, each segment one call. -/
theorem split_of_sequence (E : Env C) {t : Table C} {n : Nat} {tk : Name} (vars ests : List Req)
    (segs : List (List (Req ⊕ Req))) (hsegs : segs.flatten = vars.map Sum.inl ++ ests.map Sum.inr)
    (H : SplitHyp E t n tk vars ests) :
    runCalls E t (segCalls segs) = overTime E t vars ests := by
  obtain ⟨hc, hv, he⟩ := segCalls_spec segs vars ests hsegs
  have := split_invariance_lemma E (segCalls segs) hc (by rw [hv, he]; exact H)
  rw [hv, he] at this
  exact this

/-- the statement of T4 for *arbitrary* distributions of the requests over the
calls (estimates may come before variables), up to column order -/
def SplitAnyOrderFull : Prop :=
  ∀ (E : Env Nat) (t : Table Nat) (n : Nat) (tk : Name) (calls : List (List Req × List Req)),
    SplitHyp E t n tk (calls.flatMap (·.1)) (calls.flatMap (·.2)) →
    ∃ a b, runCalls E t calls = .ok a ∧
      overTime E t (calls.flatMap (·.1)) (calls.flatMap (·.2)) = .ok b ∧ ∀ k, get? k a = get? k b

theorem rows_t1 : rowsOf t1 3 = [[("it", 2), ("a", 12)], [("it", 0), ("a", 10)], [("it", 1), ("a", 11)]] := by
  decide +kernel

/-- the hypotheses of T4 are satisfiable: a concrete non-trivial instance -/
theorem splitHyp_t1 : SplitHyp E1 t1 3 "it" [.name "K"] [.name "max"] where
  wf := wf_t1
  pos := by decide
  tk := by decide +kernel
  sw := sw_E1
  nodup := by decide
  notemp := by decide
  fb := by
    intro r hr x _ c hc
    have hcl : cleanVars E1 t1 [.name "K"] = [.name "K"] := by decide +kernel
    rw [hcl] at hc
    simp only [List.mem_singleton] at hc
    subst hc
    have ha : "a" ∈ keys r := by
      rw [rows_t1] at hr
      simp only [List.mem_cons, List.mem_nil_iff, or_false] at hr
      rcases hr with rfl | rfl | rfl <;> decide
    simp only [CReq.val, E1, get?_append_left ha]
  rank_t := by
    intro kc hkc c hc c' hc'
    simp only [t1, List.mem_cons, List.mem_nil_iff, or_false] at hkc
    rcases hkc with rfl | rfl <;>
      (simp only [List.mem_cons, List.mem_nil_iff, or_false] at hc hc'
       rcases hc with rfl | rfl | rfl <;> rcases hc' with rfl | rfl | rfl <;> rfl)
  rank_v := by
    intro r hr r' hr' c hc
    have hcl : cleanVars E1 t1 [.name "K"] = [.name "K"] := by decide +kernel
    rw [hcl] at hc
    simp only [List.mem_singleton] at hc
    subst hc
    rw [rows_t1] at hr hr'
    simp only [List.mem_cons, List.mem_nil_iff, or_false] at hr hr'
    rcases hr with rfl | rfl | rfl <;> rcases hr' with rfl | rfl | rfl <;> rfl
  rank_e := by
    intro e he c
    have : allEsts E1 [.name "max"] = [.name "max"] := by decide +kernel
    rw [this] at he
    simp only [List.mem_singleton] at he
    subst he
    simp only [estApply, E1, decide_eq_false_iff_not]
    omega

/-- **T4 for arbitrary request order is false**: estimates requested in an
earlier call than a variable do not cover that variable (witness replayed on
the real code by tools/props/C14.py) -/
theorem split_any_order_is_false : ¬ SplitAnyOrderFull := by
  intro h
  obtain ⟨a, b, h1, h2, h3⟩ := h E1 t1 3 "it" [([], [.name "max"]), ([.name "K"], [])] splitHyp_t1
  have ha : runCalls E1 t1 [([], [.name "max"]), ([.name "K"], [])]
      = .ok [("it", [0, 1, 2]), ("a", [10, 11, 12]), ("a_max", [1010, 1011, 1012]), ("K", [110, 111, 112])] := by
    decide +kernel
  have hb : overTime E1 t1 [.name "K"] [.name "max"]
      = .ok [("it", [0, 1, 2]), ("a", [10, 11, 12]), ("K", [110, 111, 112]),
          ("a_max", [1010, 1011, 1012]), ("K_max", [1110, 1111, 1112])] := by
    decide +kernel
  rw [ha] at h1
  have hb' : overTime E1 t1 (List.flatMap (·.1) [([], [Req.name "max"]), ([Req.name "K"], [])])
      (List.flatMap (·.2) [([], [Req.name "max"]), ([Req.name "K"], [])]) = _ := hb
  rw [hb'] at h2
  cases h1; cases h2
  have := h3 "K_max"
  revert this
  decide +kernel

/-! ## T5 single row, temporal keys -/

/-- **T5** one time step: the output is the processed single row -/
theorem single_row (E : Env C) {t : Table C} {tk : Name} (hwf : WF t 1)
    (htk : temporalKey t = some tk) {vars ests : List Req} (hp : Processes E t vars ests) :
    overTime E t vars ests = .ok (colsOf [callF E t vars ests (rowAt t 0)]) :=
  single_row_lemma E hwf htk hp

/-- **T5** the temporal key is the LAST of `it, iteration, t, time` present -/
theorem temporal_key_last_wins (t : Table C) :
    temporalKey t = if has "time" t then some "time" else if has "t" t then some "t"
      else if has "iteration" t then some "iteration" else if has "it" t then some "it" else none :=
  temporalKey_eq t

/-- both `it` and `t` present: the rows are ordered by `t` -/
theorem temporal_key_cases :
    temporalKey ([("it", [1, 2]), ("t", [5, 4])] : Table Nat) = some "t" ∧
    temporalKey ([("t", [5, 4]), ("it", [1, 2])] : Table Nat) = some "t" ∧
    temporalKey ([("time", [5, 4]), ("it", [1, 2]), ("iteration", [0, 0])] : Table Nat) = some "time" ∧
    overTime E1 [("it", [1, 2]), ("t", [5, 4]), ("a", [10, 11])] [.name "K"] []
      = .ok [("it", [2, 1]), ("t", [4, 5]), ("a", [11, 10]), ("K", [111, 110])] := by
  decide +kernel

theorem no_temporal_key_raises (E : Env C) {t : Table C} (h : temporalKey t = none) (vars ests : List Req) :
    overTime E t vars ests = .error .valueError :=
  no_temporal_key_lemma E h vars ests

/-! ## non-vacuity -/

/-- a processing call on the concrete instance, all conclusions computed -/
example : Processes E1 t1 [.name "K", .dict [("c", "f")]] [.name "max"] := by decide +kernel

example : overTime E1 t1 [.name "K", .dict [("c", "f")]] [.name "max"]
    = .ok [("it", [0, 1, 2]), ("a", [10, 11, 12]), ("K", [110, 111, 112]), ("c", [210, 211, 212]),
        ("a_max", [1010, 1011, 1012]), ("K_max", [1110, 1111, 1112]), ("c_max", [1210, 1211, 1212])] := by
  decide +kernel

/-- T4 on the instance: vars then estimates in two calls = one call -/
example : runCalls E1 t1 [([.name "K"], []), ([], [.name "max"])] = overTime E1 t1 [.name "K"] [.name "max"] :=
  split_invariance E1 [([.name "K"], []), ([], [.name "max"])] (by simp [Consecutive]) splitHyp_t1

/-- the hypotheses of `estimates` are met for `(a, max)` on the instance -/
example : CReq.name "max" ∈ cleanedEsts E1 t1 (cleanVars E1 t1 [.name "K"]) [.name "max"]
    ∧ "a" ∈ callSk E1 t1 [.name "K"] ∧ "K" ∈ callSk E1 t1 [.name "K"] := by decide +kernel

/-- `estimates` applies to the computed scalar `K` and the estimator `max` on the instance -/
example : ∃ out col, overTime E1 t1 [.name "K"] [.name "max"] = .ok out ∧ get? "K" out = some col ∧
    get? "K_max" out = some (col.map (estApply E1 (.name "max"))) :=
  estimates E1 wf_t1 (by decide) (tk := "it") (by decide +kernel) (by decide +kernel)
    (e := .name "max") (k := "K") (by decide +kernel) (by decide +kernel) (by decide +kernel)
    (by decide +kernel) (by decide +kernel)

/-- `per_step_builtin` on the instance: the request contains built-in names only -/
example : ∃ out, overTime E1 t1 [.name "K"] [] = .ok out ∧
    ∀ s, CReq.name s ∈ cleanVars E1 t1 [.name "K"] →
      get? s out = some ((sortP E1 "it" (rowsOf t1 3)).map (fun r => E1.comp r s)) :=
  per_step_builtin E1 wf_t1 (by decide) (by decide +kernel) (by decide +kernel) (by
    have : cleanVars E1 t1 [.name "K"] = [.name "K"] := by decide +kernel
    rw [this]; intro v hv; exact ⟨"K", by simpa using hv⟩)

/-- `per_step_frozen_customs` on the instance: the built-in `K` of a row is `comp` of the
row's inputs followed by the custom value `c` -/
example : overTime E1 t1 [.dict [("c", "f")], .name "K"] []
      = .ok [("it", [0, 1, 2]), ("a", [10, 11, 12]), ("c", [210, 211, 212]), ("K", [110, 111, 112])]
    ∧ custVals E1 [("it", 0), ("a", 10)] (cleanVars E1 t1 [.dict [("c", "f")], .name "K"]) = [("c", 210)] := by
  decide +kernel

/-- ties: equal temporal cells keep their input order (stability) -/
example : overTime E1 [("it", [1, 0, 1, 0]), ("a", [10, 11, 12, 13])] [.name "K"] []
    = .ok [("it", [0, 0, 1, 1]), ("a", [11, 13, 10, 12]), ("K", [111, 113, 110, 112])] := by decide +kernel

end AurelVerif.C14
