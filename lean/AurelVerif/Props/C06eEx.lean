/-
Props/C06eEx.lean — NON-VACUITY of the hypotheses of Props/C06e.lean (property C06, extension round): for every theorem of
Props/C06e.lean a concrete rational instance on which ALL its hypotheses hold.

  `exF`   (`vacuum = False`, jet form)  the on-shell point `C04.exEnvE` of Props/C04b.lean — lapse 2, shift (1,0,0), sheared metric,
          non-zero `K_ij`, `∂_tα`, `∂_tβ`, non-zero second time derivatives, κ = 2, Λ = 1/3, `Tdown4 := (G + Λg)/κ` of the textbook Riemann
          tensor of the jet — with every further cached entry produced by the code's own formulas; `∂_tK_zz = −3/2`.
  `exKF`  (`vacuum = True`, jet form)   the KASNER point `C04.exKas`, Ricci-flat in all 16 components; `∂_tK_xx = −p(2p−1) = −2/9` exactly.
  `exM`   (operator form)               static flat point with `Dt = 0`, `e.D = 0` (over ℚ the only derivation is 0; over ℚ(t): d/dt).
  `C04.exJ` (textbook level)            generic 2-jet with non-zero spatial derivatives and connection.
-/
import AurelVerif.Props.C06e
import AurelVerif.Lemmas.C06Static

set_option linter.unusedSimpArgs false
set_option linter.unusedVariables false
set_option linter.unusedSectionVars false
set_option linter.style.nameCheck false

namespace AurelVerif.C06
open AurelVerif.Gen.Core AurelVerif.Tensor AurelVerif.CoreTac AurelVerif.C08 AurelVerif.Spec.Covd AurelVerif.Spec
open AurelVerif.Spec.Curvature (JetC Jet ricciDown trace einstein KK3 RiemannSym tsplit)
open AurelVerif.C04L AurelVerif.C06L

/-! ## `vacuum = False`, jet form: the on-shell point of Props/C04b.lean -/

def exF0 : Env ℚ :=
  { C04.exEnvE with
    nup4 := nup4 C04.exEnvE, gammaup4 := gammaup4 C04.exEnvE, DDalpha := DDalpha C04.exEnvE, Kup3 := Kup3 C04.exEnvE,
    Stressup3_n := Stressup3_n C04.exEnvE, Stresstrace_n := Stresstrace_n C04.exEnvE,
    s_RicciS := s_RicciS C04.exEnvE, Adown3 := Adown3 C04.exEnvE, expF := fun _ => 1,
    gammaup3_bssnok := C04.exEnvE.gammaup3 }
def exF1 : Env ℚ :=
  { exF0 with
    rho_n := rho_n exF0, fluxup3_n := fluxup3_n exF0, Stressdown3_n := Stressdown3_n exF0, Aup3 := Aup3 exF0,
    Adown3_bssnok := exF0.Adown3,
    A2_bssnok := (∑ i, ∑ j, exF0.Kdown3 i j * exF0.Kup3 i j) - (1 / 3) * exF0.Ktrace ^ 2 }
def exF : Env ℚ := { exF1 with Aup3_bssnok := exF1.Aup3 }

theorem exF_D (s : Fin 3) (x : ℚ) : exF.D s x = 0 := rfl

theorem exF_hyp : CurvHyp exF C04.exT :=
  have h := C04.exEnvC_hyp
  ⟨⟨h.asm.hbd, h.asm.hbm, h.asm.hgtt, h.asm.hg4, h.asm.hsym⟩, h.hgd, h.hdet,
    ⟨h.lc.symg, h.lc.symK, h.lc.symG, h.lc.mc, h.lc.inv, h.lc.ha, h.lc.two⟩, h.comm, h.symT, h.riem3⟩

theorem exF_onshell : OnShell exF C04.exT := by
  intro a b
  show _ = (2 : ℚ) * ((einstein (ricciDown (gup4 C04.exEnvC) ((jetCOf C04.exEnvC C04.exT).riem4 (gup4 C04.exEnvC)))
        (trace (gup4 C04.exEnvC) (ricciDown (gup4 C04.exEnvC) ((jetCOf C04.exEnvC C04.exT).riem4 (gup4 C04.exEnvC))))
        C04.exEnvC.gdown4 a b + (1 / 3 : ℚ) * C04.exEnvC.gdown4 a b) / 2)
  rw [mul_div_cancel₀ _ (two_ne_zero)]
  rfl

theorem exF_adm : AdmCached exF := by
  refine ⟨?_, rfl, rfl, rfl, rfl, rfl, rfl⟩
  funext a b; revert a b
  cases3 <;> cases3 <;>
    (simp only [exF, exF1, exF0, C04.exEnvE, C04.exEnvE0, C04.exEnvC, C04.exEnvC0, C04.exEnv, C08.exEnv, core_unfold]
     norm_num)

theorem exF_matter : MatterCached exF := ⟨rfl, rfl, rfl, rfl, rfl⟩

theorem exF_ric3 : ∀ i j, exF.s_Ricci_down3 i j = ricciDown exF.gammaup3 exF.s_Riemann_down3 i j := by
  intro i j
  simp [ricciDown, exF, exF1, exF0, C04.exEnvE, C04.exEnvE0, C04.exEnvC, C04.exEnvC0, C04.exEnv, C08.exEnv, Env.zero]

/-- `∂_tK_ij` at the example: the table determined by the 2-jet. -/
def exFdtK : Fin 3 → Fin 3 → ℚ := (jetCOf exF C04.exT).dtKd

theorem exF_isDtK : IsDtK exF C04.exT exFdtK := fun i j => JetC.dttgamOf_dtKd (jetCOf exF C04.exT) exF_hyp.lc i j

/-- `∂_tK_zz = (2γ_zz ∂_t∂_zβ^z − ∂_t∂_tγ_zz − 2∂_tα K_zz)/(2α) = (2 − 5 − 3)/4` at the example. -/
theorem exFdtK_22 : exFdtK 2 2 = -3 / 2 := by
  simp only [exFdtK, JetC.dtKd, JetC.dtLieGam, JetC.ddtgam, jetCOf, jetOf, C04.exT, exF, exF1, exF0, C04.exEnvE,
    C04.exEnvE0, C04.exEnvC, C04.exEnvC0, C04.exEnv, C08.exEnv, Env.zero, Fin.sum_univ_three,
    Curvature.tsplit_0, Curvature.tsplit_1, Curvature.tsplit_2, Curvature.tsplit_3, succ3_0, succ3_1, succ3_2, core_unfold]
  norm_num

/-- **`dtKdown_of_einstein`, `Hamiltonian_zero_of_einstein_textbook`, `gaussCodazzi_textbook`, `dtKtrace_is_dt_trace_of_einstein`**: every
hypothesis holds at `exF` — lapse 2, shift (1,0,0), sheared metric, non-zero `K_ij`, `∂_tα`, `∂_tβ`, non-zero second time derivatives
`C04.exT`, κ = 2, Λ = 1/3, `Tdown4 := (G + Λg)/κ` of the textbook Riemann tensor, every other entry produced by the code's own
formulas (zero difference operator: spatially homogeneous point); `∂_tK_zz = −3/2 ≠ 0` there. -/
example : CurvHyp exF C04.exT ∧ AdmCached exF ∧ MatterCached exF ∧ OnShell exF C04.exT ∧ IsDtK exF C04.exT exFdtK
    ∧ exFdtK 2 2 = -3 / 2 ∧ exF.nup4 = nup4 exF
    ∧ exF.kappa ≠ 0 ∧ exF.s_RicciS = s_RicciS exF
    ∧ (∀ i j, exF.s_Ricci_down3 i j = ricciDown exF.gammaup3 exF.s_Riemann_down3 i j)
    ∧ exF.A2_bssnok = (∑ i, ∑ j, exF.Kdown3 i j * exF.Kup3 i j) - (1 / 3) * exF.Ktrace ^ 2
    ∧ (∀ s, exF.D s exF.Ktrace
        = ∑ i, ∑ j, (exF.D s (exF.gammaup3 i j) * exF.Kdown3 i j + exF.gammaup3 i j * exF.D s (exF.Kdown3 i j)))
    ∧ (∀ i j, (fun i j => dtgammaup3 exF i j) i j = dtgammaup3 exF i j) := by
  refine ⟨exF_hyp, exF_adm, exF_matter, exF_onshell, exF_isDtK, exFdtK_22, rfl, ?_, rfl, exF_ric3, rfl, ?_, fun _ _ => rfl⟩
  · show (2 : ℚ) ≠ 0; norm_num
  · intro s; simp only [exF_D, zero_mul, mul_zero, add_zero, Finset.sum_const_zero]

/-- **`Momentumup3_zero_of_einstein_textbook`, `momc_of_einstein`**, and the algebraic / product-rule hypotheses of
**`dtAdown3_bssnok_is_dt_conformal_of_einstein`** at `exF` (`det γ = 1`: `φ = 0`, `p = q = 1`; `e^x` evaluated as the constant 1; the
table `∂_tγ_ij` := the kinematic relation, `∂_tφ` := the φ-equation, `∂_tγ^ij` := `dtgammaup3`). -/
example : (∀ s, C06Deriv.Deriv (exF.D s))
    ∧ (∀ c a b, covdUU exF.s_Gamma_udd3 (pd2 exF.D exF.gammaup3) exF.gammaup3 c a b = 0)
    ∧ (1 : ℚ) * 1 = 1 ∧ exF.expF (-4 * exF.phi_bssnok) = 1 ∧ exF.expF (4 * exF.phi_bssnok) = 1
    ∧ (∀ i j, exF.Adown3_bssnok i j = 1 * exF.Adown3 i j) ∧ exF.Adown3 = Adown3 exF ∧ exF.Aup3 = Aup3 exF
    ∧ (∀ i j, exF.gammaup3_bssnok i j = 1 * exF.gammaup3 i j) ∧ (∀ i j, exF.Aup3_bssnok i j = 1 * exF.Aup3 i j)
    ∧ Sym exF.Aup3_bssnok
    ∧ (∀ i j, RicSum exF i j = ricciDown exF.gammaup3 exF.s_Riemann_down3 i j)
    ∧ (∀ s a b, exF.D s (exF.Adown3_bssnok a b)
        = 1 * (exF.D s (exF.Kdown3 a b)
            - (1 / 3) * (exF.D s (exF.gammadown3 a b) * exF.Ktrace + exF.gammadown3 a b * exF.D s exF.Ktrace))
          + (-4 * 1 * exF.D s exF.phi_bssnok) * (exF.Kdown3 a b - (1 / 3) * exF.gammadown3 a b * exF.Ktrace))
    ∧ (∀ s, exF.D s (1 : ℚ) = -4 * 1 * exF.D s exF.phi_bssnok)
    ∧ exF.s_Gamma_udd3_bssnok = s_Gamma_udd3_bssnok exF
    ∧ (∀ m, ∑ j, exF.s_Gamma_udd3_bssnok j j m = 0)
    ∧ exF.Aup3_bssnok 0 1 ≠ 0 := by
  refine ⟨fun s => ⟨fun _ _ => by simp only [exF_D, add_zero], fun _ _ => by simp only [exF_D, zero_mul, mul_zero, add_zero]⟩,
    ?_, by norm_num, rfl, rfl, fun i j => by rw [one_mul]; rfl, rfl, rfl, fun i j => by rw [one_mul]; rfl,
    fun i j => by rw [one_mul]; rfl, ?_, ?_, ?_, ?_, ?_, ?_, ?_⟩
  · intro c a b
    simp only [covdUU, pd2, exF_D]
    simp [exF, exF1, exF0, C04.exEnvE, C04.exEnvE0, C04.exEnvC, C04.exEnvC0, C04.exEnv, C08.exEnv, Env.zero]
  · cases3 <;> cases3 <;>
      (simp only [exF, exF1, exF0, C04.exEnvE, C04.exEnvE0, C04.exEnvC, C04.exEnvC0, C04.exEnv, C08.exEnv, core_unfold]
       try norm_num)
  · intro i j
    simp [RicSum, ricciDown, exF, exF1, exF0, C04.exEnvE, C04.exEnvE0, C04.exEnvC, C04.exEnvC0, C04.exEnv, C08.exEnv, Env.zero]
  · intro s a b; simp only [exF_D]; ring
  · intro s; simp only [exF_D]; ring
  · funext k i j; revert k i j
    cases3 <;> cases3 <;> cases3 <;>
      (simp only [exF, exF1, exF0, C04.exEnvE, C04.exEnvE0, C04.exEnvC, C04.exEnvC0, C04.exEnv, C08.exEnv, Env.zero,
         core_unfold]
       norm_num)
  · intro m
    simp [exF, exF1, exF0, C04.exEnvE, C04.exEnvE0, C04.exEnvC, C04.exEnvC0, C04.exEnv, C08.exEnv, Env.zero]
  · simp only [exF, exF1, exF0, C04.exEnvE, C04.exEnvE0, C04.exEnvC, C04.exEnvC0, C04.exEnv, C08.exEnv, core_unfold]
    norm_num

/-! ## `vacuum = True`, jet form: the KASNER point of Props/C04b.lean (p = 2/3, 2/3, −1/3 at t = 1)

`K_ij = −p_i δ_ij`, `∂_t∂_tγ_ij = 2p_i(2p_i − 1)δ_ij`; spatially homogeneous (zero difference operator), zero shift, unit lapse, `γ_ij = δ_ij`
(`φ = 0`, `p = q = 1`).  ALL 16 components of its Ricci tensor vanish (`exKas_ricci_full`, as in Props/C01CoherenceC.lean). -/

theorem exKas_gup4 : gup4 C04.exKas = vec4 (vec4 (-1) 0 0 0) (vec4 0 1 0 0) (vec4 0 0 1 0) (vec4 0 0 0 1) := by
  funext a b; revert a b
  cases4 <;> cases4 <;> (simp only [C04.exKas, C04.exKas0, Env.zero, core_unfold]; norm_num)

set_option maxHeartbeats 1000000 in
/-- Kasner is Ricci-flat: all 16 components (the spatial block is `C04.exKas_ric`). -/
theorem exKas_ricci_full (a b : Fin 4) : ricci4Of C04.exKas C04.exKasT a b = 0 := by
  have hR : (jetCOf C04.exKas C04.exKasT).riem4 (gup4 C04.exKas) = st_Riemann_down4__dflt_vacuum C04.exKas := by
    funext p q r s
    exact (C04.st_Riemann_down4_is_riemann_vacuum_noshift C04.exKas C04.exKasT C04.exKas_hyp C04.exKas_cached.1
      C04.exKas_cached.2 C04.exKas_ric p q r s).symm
  have hP : st_Riemann_down4__dflt_vacuum C04.exKas
      = Curvature.populate (RssssE C04.exKas) (RssstE C04.exKas)
          (RststE C04.exKas (s_to_st__dflt C04.exKas C04.exKas.Kdown3) (fun _ _ => 0)) := by
    funext p q r s; exact C04.st_Riemann_down4_dflt_vacuum_spec C04.exKas p q r s
  unfold ricci4Of
  rw [hR, hP, exKas_gup4]
  revert a b
  cases4 <;> cases4 <;>
    (simp only [ricciDown, Fin.sum_univ_four, Fin.sum_univ_three, Curvature.populate, RssssE, RssstE, RststE,
       Curvature.gauss, Curvature.codazzi, Curvature.mainardi, KK4, Curvature.covdDD, Curvature.tsplit_0,
       Curvature.tsplit_1, Curvature.tsplit_2, Curvature.tsplit_3, succ3_0, succ3_1, succ3_2,
       C04.exKas, C04.exKas0, Env.zero, core_unfold]
     norm_num)

def exKF0 : Env ℚ :=
  { C04.exKas with
    nup4 := nup4 C04.exKas, gammaup4 := gammaup4 C04.exKas, DDalpha := DDalpha C04.exKas, Kup3 := Kup3 C04.exKas,
    s_RicciS := s_RicciS C04.exKas, Adown3 := Adown3 C04.exKas, expF := fun _ => 1,
    gammaup3_bssnok := C04.exKas.gammaup3 }
def exKF : Env ℚ :=
  { exKF0 with rho_n := rho_n exKF0, fluxup3_n := fluxup3_n exKF0, Adown3_bssnok := exKF0.Adown3 }

theorem exKF_D (s : Fin 3) (x : ℚ) : exKF.D s x = 0 := rfl

theorem exKF_hyp : CurvHyp exKF C04.exKasT :=
  have h := C04.exKas_hyp
  ⟨⟨h.asm.hbd, h.asm.hbm, h.asm.hgtt, h.asm.hg4, h.asm.hsym⟩, h.hgd, h.hdet,
    ⟨h.lc.symg, h.lc.symK, h.lc.symG, h.lc.mc, h.lc.inv, h.lc.ha, h.lc.two⟩, h.comm, h.symT, h.riem3⟩

theorem exKF_onshell : OnShellVac exKF C04.exKasT := by
  intro a b
  have h0 : ricci4Of exKF C04.exKasT = fun _ _ => 0 := by funext a b; exact exKas_ricci_full a b
  rw [h0]
  simp [einstein, trace]

theorem exKF_adm : AdmCached exKF := by
  refine ⟨?_, rfl, rfl, rfl, rfl, rfl, rfl⟩
  funext a b; revert a b
  cases3 <;> cases3 <;> (simp only [exKF, exKF0, C04.exKas, C04.exKas0, core_unfold]; norm_num)

def exKFdtK : Fin 3 → Fin 3 → ℚ := (jetCOf exKF C04.exKasT).dtKd

theorem exKF_isDtK : IsDtK exKF C04.exKasT exKFdtK :=
  fun i j => JetC.dttgamOf_dtKd (jetCOf exKF C04.exKasT) exKF_hyp.lc i j

/-- `∂_tK_xx = −p(2p − 1) = −2/9` for `p = 2/3`: the exact Kasner value. -/
theorem exKFdtK_00 : exKFdtK 0 0 = -2 / 9 := by
  simp only [exKFdtK, JetC.dtKd, JetC.dtLieGam, JetC.ddtgam, jetCOf, jetOf, C04.exKasT, exKF, exKF0, C04.exKas,
    C04.exKas0, Env.zero, Fin.sum_univ_three, Curvature.tsplit_0, Curvature.tsplit_1, Curvature.tsplit_2,
    Curvature.tsplit_3, succ3_0, succ3_1, succ3_2, core_unfold]
  norm_num

/-- **`dtKdown_of_einstein_vacuum`, `Hamiltonian_zero_of_einstein_textbook_vacuum`, `Momentumup3_zero_of_einstein_textbook_vacuum`,
`dtAdown3_bssnok_vacuum_is_dt_conformal_of_einstein`**: every hypothesis holds at the Kasner point, with the exact `∂_tK_xx = −2/9`. -/
example : CurvHyp exKF C04.exKasT ∧ AdmCached exKF ∧ OnShellVac exKF C04.exKasT ∧ IsDtK exKF C04.exKasT exKFdtK
    ∧ exKFdtK 0 0 = -2 / 9
    ∧ exKF.rho_n = rho_n exKF ∧ exKF.fluxup3_n = fluxup3_n exKF ∧ exKF.s_RicciS = s_RicciS exKF
    ∧ (∀ i j, exKF.s_Ricci_down3 i j = ricciDown exKF.gammaup3 exKF.s_Riemann_down3 i j)
    ∧ (∀ s, C06Deriv.Deriv (exKF.D s))
    ∧ (∀ c a b, covdUU exKF.s_Gamma_udd3 (pd2 exKF.D exKF.gammaup3) exKF.gammaup3 c a b = 0)
    ∧ (1 : ℚ) * 1 = 1 ∧ exKF.expF (-4 * exKF.phi_bssnok) = 1
    ∧ (∀ i j, exKF.Adown3_bssnok i j = 1 * exKF.Adown3 i j) ∧ exKF.Adown3 = Adown3 exKF
    ∧ (∀ i j, exKF.gammaup3_bssnok i j = 1 * exKF.gammaup3 i j)
    ∧ (∀ i j, RicSum exKF i j = ricciDown exKF.gammaup3 exKF.s_Riemann_down3 i j)
    ∧ (∀ s, exKF.D s exKF.Ktrace
        = ∑ i, ∑ j, (exKF.D s (exKF.gammaup3 i j) * exKF.Kdown3 i j + exKF.gammaup3 i j * exKF.D s (exKF.Kdown3 i j)))
    ∧ (∀ s a b, exKF.D s (exKF.Adown3_bssnok a b)
        = 1 * (exKF.D s (exKF.Kdown3 a b)
            - (1 / 3) * (exKF.D s (exKF.gammadown3 a b) * exKF.Ktrace + exKF.gammadown3 a b * exKF.D s exKF.Ktrace))
          + (-4 * 1 * exKF.D s exKF.phi_bssnok) * (exKF.Kdown3 a b - (1 / 3) * exKF.gammadown3 a b * exKF.Ktrace)) := by
  refine ⟨exKF_hyp, exKF_adm, exKF_onshell, exKF_isDtK, exKFdtK_00, rfl, rfl, rfl, ?_,
    fun s => ⟨fun _ _ => by simp only [exKF_D, add_zero], fun _ _ => by simp only [exKF_D, zero_mul, mul_zero, add_zero]⟩,
    ?_, by norm_num, rfl, fun i j => by rw [one_mul]; rfl, rfl, fun i j => by rw [one_mul]; rfl, ?_, ?_, ?_⟩
  · intro i j; simp [ricciDown, exKF, exKF0, C04.exKas, C04.exKas0, Env.zero]
  · intro c a b
    simp only [covdUU, pd2, exKF_D]
    simp [exKF, exKF0, C04.exKas, C04.exKas0, Env.zero]
  · intro i j; simp [RicSum, ricciDown, exKF, exKF0, C04.exKas, C04.exKas0, Env.zero]
  · intro s; simp only [exKF_D, zero_mul, mul_zero, add_zero, Finset.sum_const_zero]
  · intro s a b; simp only [exKF_D]; ring

/-! ## operator form (`∂_t = Dt` a derivation on values)

Over ℚ the only additive operator obeying the product rule is 0 (over a differential field such as ℚ(t): d/dt), so the instance is a
STATIC FLAT point: unit lapse, zero shift, `γ_ij = δ_ij`, `K_ij = 0`, `T_ab = 0`, `Λ = 0`, `κ = 2`, `Dt = 0`, `e.D = 0`; its textbook Riemann
tensor vanishes (`JetC.Static.riem4`), so Einstein's equations hold.  The non-trivial instances of the hypotheses are the jet forms above. -/

def exM0 : Env ℚ :=
  { (Env.zero : Env ℚ) with
    alpha := 1, kappa := 2, betaup3 := fun _ => 0, expF := fun _ => 1,
    gammadown3 := vec3 (vec3 1 0 0) (vec3 0 1 0) (vec3 0 0 1),
    gammaup3 := vec3 (vec3 1 0 0) (vec3 0 1 0) (vec3 0 0 1),
    gammaup3_bssnok := vec3 (vec3 1 0 0) (vec3 0 1 0) (vec3 0 0 1),
    gammadet := 1, betadown3 := fun _ => 0, betamag := 0, gtt := -1,
    gdown4 := vec4 (vec4 (-1) 0 0 0) (vec4 0 1 0 0) (vec4 0 0 1 0) (vec4 0 0 0 1) }
def exM : Env ℚ := { exM0 with gup4 := gup4 exM0, nup4 := nup4 exM0, gammaup4 := gammaup4 exM0 }

/-- `∂_t = 0`. -/
def exDt : ℚ → ℚ := fun _ => 0
def exMT : TimeJet2 ℚ := timeJet2Of exM exDt

theorem exM_D (s : Fin 3) (x : ℚ) : exM.D s x = 0 := rfl
theorem exDt_deriv : C06Deriv.Deriv exDt := ⟨fun _ _ => by simp [exDt], fun _ _ => by simp [exDt]⟩
theorem exM_deriv (s : Fin 3) : C06Deriv.Deriv (exM.D s) :=
  ⟨fun _ _ => by simp only [exM_D, add_zero], fun _ _ => by simp only [exM_D, zero_mul, mul_zero, add_zero]⟩

theorem exM_static : (jetCOf exM exMT).Static := by
  refine ⟨rfl, rfl, rfl, rfl, rfl, rfl, rfl, rfl, ?_, ?_, rfl, rfl⟩
  · funext c d; revert c d; cases4 <;> cases4 <;> rfl
  · funext c d m; revert c d; cases4 <;> cases4 <;> rfl

theorem exM_hyp : CurvHyp exM exMT := by
  refine ⟨⟨?_, ?_, ?_, ?_, ?_⟩, ?_, ?_, ⟨?_, ?_, ?_, ?_, ?_, ?_, ?_⟩, ?_, ?_, ?_⟩
  · funext i; revert i; cases3 <;> (simp only [exM, exM0, core_unfold]; norm_num)
  · simp only [exM, exM0, core_unfold]; norm_num
  · simp only [exM, exM0, core_unfold]; norm_num
  · funext i j; revert i j; cases4 <;> cases4 <;> (simp only [exM, exM0, core_unfold])
  · cases3 <;> cases3 <;> (simp only [exM, exM0, core_unfold])
  · simp only [exM, exM0, core_unfold]; norm_num
  · simp only [exM, exM0, core_unfold]; norm_num
  · cases3 <;> cases3 <;> (simp only [jetOf, exM, exM0, core_unfold])
  · cases3 <;> cases3 <;> (simp only [jetOf, exM, exM0, Env.zero])
  · cases3 <;> cases3 <;> cases3 <;> (simp only [jetOf, exM, exM0, Env.zero])
  · cases3 <;> cases3 <;> cases3 <;>
      (simp only [jetOf, exM, exM0, Env.zero, Fin.sum_univ_three]; norm_num)
  · intro X; cases3 <;> (simp only [jetOf, exM, exM0, core_unfold, Fin.sum_univ_three]; ring)
  · simp only [jetOf, exM, exM0]; norm_num
  · norm_num
  · intro i j x; rfl
  · intro i j; rfl
  · intro a b c d
    simp [JetC.riem3, Curvature.riemannDown, Curvature.christoffel1, jetCOf, jetOf, exM, exM0, Env.zero]

theorem exM_ricci : ricci4Of exM exMT = fun _ _ => 0 := by
  funext a b; exact JetC.Static.ricci exM_static (gup4 exM) a b

theorem exM_onshell : OnShell exM exMT := by
  intro a b
  rw [exM_ricci]
  have hL : exM.Lambda = 0 := rfl
  have hT : exM.Tdown4 a b = 0 := rfl
  simp [einstein, trace, hL, hT]

theorem exM_onshellVac : OnShellVac exM exMT := by
  intro a b
  rw [exM_ricci]
  simp [einstein, trace]

theorem exM_adm : AdmCached exM := by
  refine ⟨?_, rfl, rfl, rfl, ?_, ?_, ?_⟩
  · funext a b; revert a b; cases3 <;> cases3 <;> (simp only [exM, exM0, core_unfold]; norm_num)
  · funext a b; revert a b; cases3 <;> cases3 <;> (simp only [exM, exM0, Env.zero, core_unfold]; norm_num)
  · simp only [exM, exM0, Env.zero, core_unfold]; norm_num
  · funext a b; revert a b; cases3 <;> cases3 <;> (simp only [exM, exM0, Env.zero, core_unfold]; norm_num)

theorem exM_matter : MatterCached exM := by
  refine ⟨?_, ?_, ?_, ?_, ?_⟩
  · simp only [exM, exM0, Env.zero, core_unfold]; norm_num
  · simp only [exM, exM0, Env.zero, core_unfold]; norm_num
  · funext a b; revert a b; cases3 <;> cases3 <;> (simp only [exM, exM0, Env.zero, core_unfold]; norm_num)
  · funext a b; revert a b; cases3 <;> cases3 <;> (simp only [exM, exM0, Env.zero, core_unfold]; norm_num)
  · funext a; revert a; cases3 <;> (simp only [exM, exM0, Env.zero, core_unfold]; norm_num)

/-- **`isDtK_of_deriv`, `dtKdown3_is_dt_of_einstein`, `dtKtrace_is_dt_of_einstein`, `dtAdown3_bssnok_is_dt_of_einstein`,
`dts_Gamma_bssnok_is_dt_of_einstein`, `dts_Gamma_bssnok_vacuum_is_dt_of_einstein`**: every hypothesis holds at the static flat point. -/
example : C06Deriv.Deriv exDt ∧ (∀ s, C06Deriv.Deriv (exM.D s)) ∧ CurvHyp exM (timeJet2Of exM exDt) ∧ AdmCached exM
    ∧ MatterCached exM ∧ OnShell exM (timeJet2Of exM exDt) ∧ OnShellVac exM (timeJet2Of exM exDt)
    ∧ (∀ s x, exDt (exM.D s x) = exM.D s (exDt x)) ∧ (∀ s r x, exM.D s (exM.D r x) = exM.D r (exM.D s x))
    ∧ exDt exM.alpha = exM.dtalpha ∧ (∀ m, exDt (exM.betaup3 m) = exM.dtbetaup3 m)
    ∧ (∀ i j : Fin 3, exDt (exM.gammadown3 i j) = -2 * exM.alpha * exM.Kdown3 i j
        + lieDD exM.betaup3 (dβ exM) (pd2 exM.D exM.gammadown3) exM.gammadown3 i j)
    ∧ exM.kappa ≠ 0 ∧ exM.s_RicciS = s_RicciS exM
    ∧ (∀ i j, exM.s_Ricci_down3 i j = ricciDown exM.gammaup3 exM.s_Riemann_down3 i j)
    ∧ exM.A2_bssnok = (∑ i, ∑ j, exM.Kdown3 i j * exM.Kup3 i j) - (1 / 3) * exM.Ktrace ^ 2
    ∧ (1 : ℚ) * 1 = 1 ∧ exM.expF (-4 * exM.phi_bssnok) = 1 ∧ exM.expF (4 * exM.phi_bssnok) = 1
    ∧ (∀ i j, exM.Adown3_bssnok i j = 1 * exM.Adown3 i j) ∧ exM.Adown3 = Adown3 exM ∧ exM.Aup3 = Aup3 exM
    ∧ (∀ i j, exM.gammaup3_bssnok i j = 1 * exM.gammaup3 i j) ∧ (∀ i j, exM.Aup3_bssnok i j = 1 * exM.Aup3 i j)
    ∧ Sym exM.Aup3_bssnok
    ∧ (∀ i j, RicSum exM i j = ricciDown exM.gammaup3 exM.s_Riemann_down3 i j)
    ∧ exDt 1 = -4 * 1 * exDt exM.phi_bssnok ∧ (∀ s, exM.D s (1 : ℚ) = -4 * 1 * exM.D s exM.phi_bssnok)
    ∧ exDt exM.phi_bssnok = ADM.dtPhi exM.betaup3 (grad exM exM.phi_bssnok) (dβ exM) exM.alpha exM.Ktrace
    ∧ exM.s_Gamma_bssnok = s_Gamma_bssnok exM
    ∧ (∀ i j, exDt (exM.gammaup3_bssnok i j)
        = lieUU exM.betaup3 (dβ exM) (pd2 exM.D exM.gammaup3_bssnok) exM.gammaup3_bssnok i j
          + (2 / 3) * divβ (dβ exM) * exM.gammaup3_bssnok i j + 2 * exM.alpha * exM.Aup3_bssnok i j)
    ∧ (∀ c a b, covdUU exM.s_Gamma_udd3 (pd2 exM.D exM.gammaup3) exM.gammaup3 c a b = 0)
    ∧ exM.s_Gamma_udd3_bssnok = s_Gamma_udd3_bssnok exM
    ∧ (∀ m, ∑ j, exM.s_Gamma_udd3_bssnok j j m = 0) := by
  refine ⟨exDt_deriv, exM_deriv, exM_hyp, exM_adm, exM_matter, exM_onshell, exM_onshellVac, fun _ _ => rfl,
    fun _ _ _ => rfl, rfl, fun _ => rfl, ?_, ?_, ?_, ?_, ?_, by norm_num, rfl, rfl, ?_, ?_, ?_, ?_, ?_, ?_, ?_, ?_, ?_, ?_, ?_,
    ?_, ?_, ?_, ?_⟩
  · cases3 <;> cases3 <;>
      (simp only [exDt, lieDD, pd2, dβ, exM, exM0, Env.zero, Fin.sum_univ_three, core_unfold]; norm_num)
  · show (2 : ℚ) ≠ 0; norm_num
  · simp only [exM, exM0, Env.zero, core_unfold]; norm_num
  · intro i j; simp [ricciDown, exM, exM0, Env.zero]
  · simp [exM, exM0, Env.zero]
  · intro i j; simp [exM, exM0, Env.zero]
  · funext a b; revert a b; cases3 <;> cases3 <;> (simp only [exM, exM0, Env.zero, core_unfold]; norm_num)
  · funext a b; revert a b; cases3 <;> cases3 <;> (simp only [exM, exM0, Env.zero, core_unfold]; norm_num)
  · intro i j; rw [one_mul]; rfl
  · intro i j; simp [exM, exM0, Env.zero]
  · intro i j; rfl
  · intro i j; simp [RicSum, ricciDown, exM, exM0, Env.zero]
  · simp [exDt]
  · intro s; simp only [exM_D]; ring
  · simp only [exDt, ADM.dtPhi, lie0, divβ, grad, dβ, exM, exM0, Env.zero, Fin.sum_univ_three, core_unfold]; norm_num
  · funext i; revert i; cases3 <;> (simp only [exM, exM0, Env.zero, core_unfold]; norm_num)
  · cases3 <;> cases3 <;>
      (simp only [exDt, lieUU, divβ, dβ, pd2, exM, exM0, Env.zero, Fin.sum_univ_three, core_unfold]; norm_num)
  · intro c a b
    simp only [covdUU, pd2, exM_D]
    simp [exM, exM0, Env.zero]
  · funext k i j; revert k i j
    cases3 <;> cases3 <;> cases3 <;> (simp only [exM, exM0, Env.zero, core_unfold]; norm_num)
  · intro m; simp [exM, exM0, Env.zero]

/-! ## textbook level -/

/-- **`dtKd_is_leibniz`, `ricci_equation_offshell`, `adm_evolution_iff`, `adm_evolution_of_ricci`**: the 2-jet `C04.exJ` of Props/C04b.lean
(non-zero spatial derivatives, connection, `K`, `∂K`, `∂∂γ`, `∂∂β`, `∂∂α`, lapse 2, shift (1,0,−1)) with `∂_tK_ij := exJ.dtKd` and `Ric4` := its own
spatial Ricci block. -/
example : C04.exJ.LeviCivita ∧ C04.exJ.Smooth
    ∧ (∀ a a', ∑ d, C04.exJ.gup3p1 a d * C04.exJ.g4 d a' = delta a a')
    ∧ (∀ i j, C04.exJ.dttgam i j = C04.exJ.dttgamOf C04.exJ.dtKd i j) :=
  ⟨C04.exJ_ok.1, C04.exJ_ok.2.1, (C04.gup3p1_is_inverse C04.exJ.toJet C04.exJ_ok.1).1,
    JetC.dttgamOf_dtKd C04.exJ C04.exJ_ok.1⟩

/-- **`dtK_is_derivative`**: derivations exist (over ℚ only the zero map; on rational functions `d/dt`), and with `d = 0` the hypotheses
hold for the static jet of the previous section (`∂_tα = ∂_tβ = ∂_tγ = ∂_t∂_tγ = 0`, `∂_tK := 0`). -/
example : C04L.Deriv exDt ∧ (jetCOf exM exMT).LeviCivita
    ∧ exDt (jetCOf exM exMT).alpha = (jetCOf exM exMT).dta
    ∧ (∀ m, exDt ((jetCOf exM exMT).beta m) = (jetCOf exM exMT).dtb m)
    ∧ (∀ a b, exDt ((jetCOf exM exMT).gam a b) = (jetCOf exM exMT).dtgam a b)
    ∧ (∀ a b, exDt ((jetCOf exM exMT).Kd a b) = (fun _ _ => (0 : ℚ)) a b)
    ∧ (∀ m a b, exDt ((jetCOf exM exMT).dgam m a b) = (jetCOf exM exMT).ddtgam m a b)
    ∧ (∀ l m, exDt ((jetCOf exM exMT).db l m) = (jetCOf exM exMT).ddb 0 l.succ m)
    ∧ (∀ j k, exDt (-(2 * (jetCOf exM exMT).alpha * (jetCOf exM exMT).Kd j k) + (jetCOf exM exMT).lieGam j k)
        = (jetCOf exM exMT).dttgam j k) := by
  refine ⟨⟨exDt_deriv.add, exDt_deriv.mul⟩, exM_hyp.lc, rfl, fun _ => rfl, ?_, fun _ _ => rfl, ?_, ?_, fun _ _ => rfl⟩
  · intro a b; rw [JetC.Static.dtgam exM_static]; rfl
  · intro m a b; rw [JetC.Static.ddtgam exM_static]; rfl
  · intro l m; rw [exM_static.ddb]; rfl

end AurelVerif.C06
