/-
Props/C10Coh.lean — property C10, part 9 (extension): **the two constructions of `st_Weyl_down4` agree** (T13), the
sentence of C10 that was "oracle only", and the coherence theorem of the guard `'st_Riemann_down4' in self.data.keys()`
of property C01.  Statements and non-vacuity examples only; proofs in Lemmas/C10Riem3D.lean (3-D: Riemann symmetries +
vanishing Ricci ⟹ 0), Lemmas/C10Frame3p1.lean (adapted frame, uniqueness), Lemmas/C10WeylParts.lean (E and B of
"Riemann minus its Ricci parts" from the 3+1 blocks), Lemmas/C10CohCode.lean (the generated formulas).

All definitions without a namespace prefix are GENERATED from core.py (`st_Weyl_down4__st_Riemann_down4_matter/_vacuum`
= construction 1, from the cached Riemann tensor; `st_Weyl_down4__betaup3/__dflt` = construction 2, from
`eweyl_n_down3`, `bweyl_n_down3`, `n`, `g`, `ε`; `eweyl_n_down3__dflt_matter/_vacuum`, `bweyl_n_down3`, `nup4`, …).

  T13a  `weyl_unique_of_parts` / `weyl_zero_of_parts`  (pure algebra, adapted frame `n_a = (−α,0,0,0)`, characteristic ≠ 2):
        a tensor with the Riemann symmetries and `g^{ac}C_abcd = 0` is DETERMINED by the spatial components of its
        electric part `C_abcd n^b n^d` and magnetic part `½ C_abcd ε^{cd}{}_{ef} n^b n^f` (the cyclic identity is not needed).
  T13a' `weyl_is_weylEB_of_parts`: hence every such tensor IS `weylEB(E, B)` — the decomposition formula of Spec/Weyl.lean
        ([A] §8.3), which is what the second construction evaluates — of ITS OWN electric and magnetic parts embedded by the
        code's `s_to_st`, with the code's `gdown4`, `gup4`, `nup4`, `ndown4`, `levicivita_down4` (`FrameCached`: assembled metric,
        3+1 inverse metric, `√` exact on `−g`, `det γ ≠ 0`).  The parts of such a tensor are symmetric (the magnetic one because the
        tensor is trace-free: `bweylU_spatial_symm`) and the electric one trace-free.
  T13b  `weyl_alt1_electric`  the electric part of construction 1 IS the code's `eweyl_n_down3` (EXACT algebra, any operator
        `e.D`), given: cached Riemann tensor with the Riemann symmetries and the code's Gauss / Codazzi blocks, cached
        `st_Ricci_down4`, `st_RicciS` = ITS contractions, spatial Ricci block of the Einstein-equation form.
  T13c  `weyl_alt1_magnetic`  the magnetic part of construction 1 IS the code's `bweyl_n_down3`, given in addition that the two
        traces commute with the code's covariant derivative (Layer B: `weyl_alt1_magnetic_layerB`, additive Leibniz
        operator + the code's Christoffel connection) and `√(−g) = α √γ` (POSITIVE LAPSE: for `α < 0` the two constructions
        differ by the sign of their magnetic parts).
  T13d  `weyl_constructions_agree`  all 256 components of construction 1 (matter branch) = construction 2 (shift key present).
  T13e  `st_Weyl_down4_coherent_contraction`  the cache state "st_Ricci_down4 obtained by contracting the cached Riemann tensor":
        coherent OFF SHELL too (Layer B only) — the Mainardi block was built from the same `st_Ricci_down3`.
  T13f  `st_Weyl_down4_onshell_coherent`  the cache state "st_Ricci_down4 from `Tdown4`" (what happens when `Tdown4` is
        supplied): coherent ON SHELL (`OnShell e T`: Einstein's equations for the textbook curvature of the assembled metric,
        which supply the Hamiltonian and momentum constraints) and Layer B (`CurvHyp`).
  T13g  `st_Weyl_down4_vacuum_coherent`  `vacuum = True`: construction 1 returns the cached Riemann tensor; coherent for a
        vacuum solution (all 16 Ricci components of the assembled metric vanish).
  T13h  `…_noshift`  the same with no shift key at all (β = 0: `st_Weyl_down4__dflt`, `st_Riemann_down4__dflt_*`).

STILL NOT PROVEN: convergence (the finite-difference operators are additive but not Leibniz: `H1`, `H2`, `CurvHyp`
hold up to truncation error; watched by the closed-form oracle of tools/props/C10.py); round-off.
-/
import AurelVerif.Props.C10Frame
import AurelVerif.Props.C10Bn
import AurelVerif.Props.C01CoherenceC
import AurelVerif.Lemmas.C10CohCode

set_option linter.unusedSimpArgs false
set_option linter.unusedVariables false
set_option linter.unusedSectionVars false

namespace AurelVerif.C10
open AurelVerif.Gen.Core AurelVerif.Tensor AurelVerif.CoreTac AurelVerif.Spec.Weyl AurelVerif.Model.WeylNP
open AurelVerif.Spec.Curvature (Jet ricciDown)
open AurelVerif.C04L (jetOf RssssE RssstE CurvHyp MainardiCached TimeJet2 jetCOf)
open AurelVerif.C05L (MetricOK Deriv)

variable {K : Type} [Field K]

/-! ### T13a uniqueness in the adapted frame -/

/-- **vanishing form**: Riemann symmetries, `g^{ac}W_abcd = 0` (`g⁻¹` in 3+1 form), electric and magnetic parts zero at the
spatial indices ⟹ `W = 0`. -/
theorem weyl_zero_of_parts (J : Jet K) (ha : J.alpha ≠ 0) (h2 : (2 : K) ≠ 0)
    (hγu : ∀ i j, J.gamup i j = J.gamup j i) (hd : det3 J.gamup ≠ 0) (e : Env K) (s : K) (hs : s ≠ 0)
    (W : Fin 4 → Fin 4 → Fin 4 → Fin 4 → K) (hW : RiemannSym W)
    (ht : ∀ b d, ∑ a, ∑ c, J.gup3p1 a c * W a b c d = 0)
    (hE : ∀ i j : Fin 3, eweylU W (nuJ J) i.succ j.succ = 0)
    (hB : ∀ i j : Fin 3, bweylU W (nuJ J) (epsUudd J.gup3p1 (lc4 e s)) i.succ j.succ = 0) :
    ∀ a b c d, W a b c d = 0 :=
  weyl_zero_adapted J ha h2 hγu hd e s hs W hW ht hE hB

/-- **uniqueness**: two such tensors with the same electric and magnetic parts (spatial components) are equal. -/
theorem weyl_unique_of_parts (J : Jet K) (ha : J.alpha ≠ 0) (h2 : (2 : K) ≠ 0)
    (hγu : ∀ i j, J.gamup i j = J.gamup j i) (hd : det3 J.gamup ≠ 0) (e : Env K) (s : K) (hs : s ≠ 0)
    (W1 W2 : Fin 4 → Fin 4 → Fin 4 → Fin 4 → K) (h1 : RiemannSym W1) (h2' : RiemannSym W2)
    (t1 : ∀ b d, ∑ a, ∑ c, J.gup3p1 a c * W1 a b c d = 0) (t2 : ∀ b d, ∑ a, ∑ c, J.gup3p1 a c * W2 a b c d = 0)
    (hE : ∀ i j : Fin 3, eweylU W1 (nuJ J) i.succ j.succ = eweylU W2 (nuJ J) i.succ j.succ)
    (hB : ∀ i j : Fin 3, bweylU W1 (nuJ J) (epsUudd J.gup3p1 (lc4 e s)) i.succ j.succ
        = bweylU W2 (nuJ J) (epsUudd J.gup3p1 (lc4 e s)) i.succ j.succ) :
    ∀ a b c d, W1 a b c d = W2 a b c d :=
  weyl_unique_adapted J ha h2 hγu hd e s hs W1 W2 h1 h2' t1 t2 hE hB

theorem eweylU_symm' (W : Fin 4 → Fin 4 → Fin 4 → Fin 4 → K) (hW : RiemannSym W) (nu : Fin 4 → K) (a c : Fin 4) :
    eweylU W nu a c = eweylU W nu c a := by
  unfold eweylU
  rw [Finset.sum_comm]
  exact Finset.sum_congr rfl fun d _ => Finset.sum_congr rfl fun b _ => by rw [hW.pair a b c d]; ring

/-- what `weyl_is_weylEB_of_parts` needs of the cached metric entries (all produced by the code's own formulas, cf. `AdmInputs`
of Props/C10Frame.lean): assembled metric, the inverse metric in 3+1 form, the code's normal, `gdet`, `√` exact on `−g`. -/
structure FrameCached (e : Env K) : Prop where
  lc : (jetOf e).LeviCivita
  asm : C08.Assembled e
  hgup : e.gup4 = (jetOf e).gup3p1
  hnu : e.nup4 = nup4 e
  hnd : e.ndown4 = ndown4 e
  hdet : e.gdet = gdet__gdown4 e
  hsq : e.sqrtF (-e.gdet) ^ 2 = -e.gdet
  hgd : e.gammadet = gammadet e
  hd : gammadet e ≠ 0

theorem FrameCached.adm {e : Env K} (F : FrameCached e) : AdmInputs e := by
  refine ⟨F.asm, F.lc.ha, fun a b => ?_, F.hnu, F.hnd, Jet.gamup_symm (jetOf e) F.lc,
    fun j l => Jet.gam_mul_gamup (jetOf e) F.lc j l, F.hdet, F.hsq⟩
  rw [F.hgup, C04L.gdown4_is_metric3p1 e F.asm]
  exact Jet.gup3p1_mul_g4 (jetOf e) F.lc a b

/-- the scale `√(−g)` of the generated volume form is not zero. -/
theorem FrameCached.scale_ne {e : Env K} (F : FrameCached e) : e.sqrtF (-e.gdet) ≠ 0 := by
  intro h0
  have hsq := F.hsq
  have hg : e.gdet = -(e.alpha ^ 2) * e.gammadet := by
    rw [F.hdet, C08.gdet_coherent e F.asm F.hgd]; simp only [core_unfold]
  rw [h0, hg] at hsq
  have : e.alpha ^ 2 * e.gammadet = 0 := by linear_combination -hsq
  rcases mul_eq_zero.mp this with h | h
  · exact F.lc.ha (pow_eq_zero_iff (two_ne_zero) |>.mp h)
  · exact F.hd (F.hgd ▸ h)

/-- **T13a′ — the uniqueness lemma in the form `C = WeylEB(E(C), B(C))`** (characteristic ≠ 2; cyclic identity not needed):
every tensor `W` with the Riemann symmetries and `g^{ac} W_abcd = 0` IS the decomposition formula of [A] §8.3 (the
expression the second construction of `st_Weyl_down4` evaluates: `Spec.Weyl.weylEB`) applied to ITS OWN electric and
magnetic parts w.r.t. the code's normal, embedded by `s_to_st` — with the code's `gdown4`, `gup4`, `nup4`, `ndown4`,
`levicivita_down4`. -/
theorem weyl_is_weylEB_of_parts (e : Env K) (F : FrameCached e) (W : Fin 4 → Fin 4 → Fin 4 → Fin 4 → K)
    (hW : RiemannSym W) (ht : ∀ b d, ∑ a, ∑ c, e.gup4 a c * W a b c d = 0) (a b c d : Fin 4) :
    W a b c d = weylEB (lproj e.gdown4 e.ndown4)
      (s_to_st__betaup3 e fun i j => eweylU W e.nup4 i.succ j.succ)
      (s_to_st__betaup3 e fun i j => bweylU W e.nup4 (epsUudd e.gup4 (levicivita_down4 e)) i.succ j.succ)
      e.ndown4 (epsUdd e.gup4 e.nup4 (levicivita_down4 e)) a b c d := by
  have h2 : (2 : K) ≠ 0 := F.lc.two
  have hI := F.adm
  have hN := unitNormal_of_assembled e hI.asm hI.ha hI.hinv hI.hnu hI.hnd
  have hVF := lc_down4_volumeForm e hN.hg hI.hinv hI.hdet hI.hsq
  have hLC := lc_down4_totAntisym e
  have hγu : Symm e.gammaup3 := Jet.gamup_symm (jetOf e) F.lc
  have hγinv : ∀ a b, ∑ c, e.gammadown3 a c * e.gammaup3 c b = if a = b then 1 else 0 :=
    fun a b => Jet.gam_mul_gamup (jetOf e) F.lc a b
  have hnu : e.nup4 = nuJ (jetOf e) := by rw [F.hnu, nup4_is_nuJ]
  have ht' : ∀ b d, ∑ a, ∑ c, (jetOf e).gup3p1 a c * W a b c d = 0 := by rw [← F.hgup]; exact ht
  -- the parts are symmetric, E trace-free
  have hEs : Symm (fun i j : Fin 3 => eweylU W e.nup4 i.succ j.succ) := fun i j => eweylU_symm' W hW _ _ _
  have hBs : Symm (fun i j : Fin 3 => bweylU W e.nup4 (epsUudd e.gup4 (levicivita_down4 e)) i.succ j.succ) := by
    intro i j
    show bweylU W e.nup4 (epsUudd e.gup4 (levicivita_down4 e)) i.succ j.succ
      = bweylU W e.nup4 (epsUudd e.gup4 (levicivita_down4 e)) j.succ i.succ
    rw [hnu, F.hgup, lc_down4_is_lc4]
    exact bweylU_spatial_symm (jetOf e) F.lc.ha h2 hγu e _ W hW ht' i j
  have hEt : traceG3 e.gammaup3 (fun i j : Fin 3 => eweylU W e.nup4 i.succ j.succ) = 0 := by
    rw [hnu]; exact eweylU_trace (jetOf e) F.lc.ha h2 W hW.anti12 ht'
  obtain ⟨tf, el, mg⟩ := weylEB_normal_frame h2 hN hLC _ _ (s_to_st_shift_symm e _ hEs)
    (s_to_st_shift_spatial e _ hEs hI.hnu)
    (by rw [s_to_st_shift_trace e hI.asm hI.hinv hI.hγu hI.hγinv _ hEs, hEt])
    (s_to_st_shift_symm e _ hBs) (s_to_st_shift_spatial e _ hBs hI.hnu) _ rfl
  have sym2 := weylEB_riemannSym (lproj e.gdown4 e.ndown4)
    (s_to_st__betaup3 e fun i j => eweylU W e.nup4 i.succ j.succ)
    (s_to_st__betaup3 e fun i j => bweylU W e.nup4 (epsUudd e.gup4 (levicivita_down4 e)) i.succ j.succ)
    e.ndown4 (epsUdd e.gup4 e.nup4 (levicivita_down4 e))
    (lproj_symm _ _ hN.hg) (s_to_st_shift_symm e _ hEs)
    (epsUdd_antisymm e.gup4 e.nup4 (levicivita_down4 e) (fun d c a b => hLC.s34 d c a b))
  have hd3 : det3 (jetOf e).gamup ≠ 0 := det3_ne_zero_of_inv e.gammadown3 e.gammaup3 hγinv
  refine weyl_unique_adapted (jetOf e) F.lc.ha h2 hγu hd3 e (e.sqrtF (-e.gdet)) F.scale_ne _ _ hW sym2 ht'
    (by rw [← F.hgup]; exact tf.t13) (fun i j => ?_) (fun i j => ?_) a b c d
  · rw [← hnu, el i.succ j.succ, (C04L.s_to_st_spec e _).2.2.1 i j]
  · rw [← hnu, ← F.hgup, ← lc_down4_is_lc4, mg hVF i.succ j.succ, (C04L.s_to_st_spec e _).2.2.1 i j]

/-! ### T13b, T13c the parts of construction 1 are the code's `E`, `B` -/

/-- **electric part of construction 1** (exact; characteristic ≠ 2, 3). -/
theorem weyl_alt1_electric (e : Env K) (C : WeylCached e) (h3 : (3 : K) ≠ 0) (hKtr : e.Ktrace = Ktrace e)
    (hRic3 : ∀ i j, e.s_Ricci_down3 i j = ricciDown e.gammaup3 e.s_Riemann_down3 i j)
    (Ttr : K) (hR3 : ∀ i j : Fin 3, e.st_Ricci_down4 i.succ j.succ
        = e.Lambda * e.gammadown3 i j + e.kappa * (e.Tdown4 i.succ j.succ - (1 / 2) * Ttr * e.gammadown3 i j))
    (hSd : e.Stressdown3_n = Stressdown3_n e) (hSu : e.Stressup3_n = Stressup3_n e) (i j : Fin 3) :
    eweylU (st_Weyl_down4__st_Riemann_down4_matter e) e.nup4 i.succ j.succ = eweyl_n_down3__dflt_matter e i j := by
  rw [C.alt1_eq]
  exact riem_electric_matter C.toRiemCached h3 hKtr hRic3 Ttr (fun i j => by rw [← C.hRic]; exact hR3 i j) hSd hSu i j

/-- … with `vacuum = True` (construction 1 returns the cached Riemann tensor): for a Ricci-flat cached tensor. -/
theorem weyl_alt1_electric_vacuum (e : Env K) (C : RiemCached e) (h3 : (3 : K) ≠ 0) (hKtr : e.Ktrace = Ktrace e)
    (hRic3 : ∀ i j, e.s_Ricci_down3 i j = ricciDown e.gammaup3 e.s_Riemann_down3 i j)
    (h0 : ∀ a b, ricciDown e.gup4 e.st_Riemann_down4 a b = 0) (i j : Fin 3) :
    eweylU (st_Weyl_down4__st_Riemann_down4_vacuum e) e.nup4 i.succ j.succ = eweyl_n_down3__dflt_vacuum e i j := by
  rw [C.vacuum_eq h0]
  exact riem_electric_vacuum C h3 hKtr hRic3 (fun i j => h0 _ _) i j

/-- **magnetic part of construction 1** (exact, conditional on the two trace identities `H1`, `H2`). -/
theorem weyl_alt1_magnetic (e : Env K) (C : WeylCached e) (hs : e.sqrtF (-e.gdet) = e.alpha * e.sqrtF e.gammadet)
    (H1 : ∀ c, ∑ a, ∑ d, e.gammaup3 a d * s_covd_dd e e.Kdown3 c d a = s_covd_scalar e e.Ktrace c)
    (H2 : ∀ d, ∑ c, ∑ e', e.gammaup3 c e' * s_covd_dd e e.Kdown3 c e' d = ∑ k, s_covd_ud e (Kmixed e) k k d)
    (i j : Fin 3) :
    bweylU (st_Weyl_down4__st_Riemann_down4_matter e) e.nup4 (epsUudd e.gup4 (levicivita_down4 e)) i.succ j.succ
      = bweyl_n_down3 e i j := by
  rw [C.alt1_eq]; exact riem_magnetic C.toRiemCached hs H1 H2 i j

/-- … **Layer B**: for an additive Leibniz operator, the code's Christoffel connection (`MetricOK`) and `Ktrace = γ^{ij}K_ij`. -/
theorem weyl_alt1_magnetic_layerB (e : Env K) (C : WeylCached e)
    (hs : e.sqrtF (-e.gdet) = e.alpha * e.sqrtF e.gammadet) (hM : MetricOK e) (hD : Deriv e.D)
    (hKtr : e.Ktrace = Ktrace e) (i j : Fin 3) :
    bweylU (st_Weyl_down4__st_Riemann_down4_matter e) e.nup4 (epsUudd e.gup4 (levicivita_down4 e)) i.succ j.succ
      = bweyl_n_down3 e i j :=
  weyl_alt1_magnetic e C hs (covd_trace_dd e hM C.lc.two hD C.lc.symK hKtr) (covd_trace_ud e hM C.lc.two hD) i j

/-! ### T13d the two constructions agree -/

/-- the metric / normal / volume-form inputs of the second construction (`AdmInputs`, Props/C10Frame.lean) from what the first
construction reads. -/
theorem admInputs_of_riemCached (e : Env K) (C : RiemCached e) (hnd : e.ndown4 = ndown4 e)
    (hdet : e.gdet = gdet__gdown4 e) (hsq : e.sqrtF (-e.gdet) ^ 2 = -e.gdet) : AdmInputs e := by
  refine ⟨C.asm, C.lc.ha, fun a b => ?_, C.hnu, hnd, Jet.gamup_symm (jetOf e) C.lc,
    fun j l => Jet.gam_mul_gamup (jetOf e) C.lc j l, hdet, hsq⟩
  rw [C.gup, C04L.gdown4_is_metric3p1 e C.asm]
  exact Jet.gup3p1_mul_g4 (jetOf e) C.lc a b

/-- the core of T13d: the Weyl expression of the cached Riemann tensor (with its own Ricci contractions) equals the second
construction as soon as its electric and magnetic parts are the cached `eweyl_n_down3`, `bweyl_n_down3`. -/
theorem weylOfCached_eq_alt2 (e : Env K) (C : RiemCached e) (h3 : (3 : K) ≠ 0)
    (hEl : ∀ i j : Fin 3, eweylU (weylOfCached e) e.nup4 i.succ j.succ = e.eweyl_n_down3 i j)
    (hMg : ∀ i j : Fin 3, bweylU (weylOfCached e) e.nup4 (epsUudd e.gup4 (levicivita_down4 e)) i.succ j.succ
        = e.bweyl_n_down3 i j)
    (hBs : Symm e.bweyl_n_down3) (hEt : traceG3 e.gammaup3 e.eweyl_n_down3 = 0)
    (hnd : e.ndown4 = ndown4 e) (hdet : e.gdet = gdet__gdown4 e) (hsq : e.sqrtF (-e.gdet) ^ 2 = -e.gdet)
    (hgd : e.gammadet = gammadet e) (hd : gammadet e ≠ 0) (a b c d : Fin 4) :
    weylOfCached e a b c d = st_Weyl_down4__betaup3 e a b c d := by
  have h2 : (2 : K) ≠ 0 := C.lc.two
  have hI := admInputs_of_riemCached e C hnd hdet hsq
  have hγu : Symm e.gammaup3 := Jet.gamup_symm (jetOf e) C.lc
  have hγinv : ∀ a b, ∑ c, e.gammadown3 a c * e.gammaup3 c b = if a = b then 1 else 0 :=
    fun a b => Jet.gam_mul_gamup (jetOf e) C.lc a b
  have h1sym : RiemannSym (weylOfCached e) := C.blocks.weylSym
  have hEs : Symm e.eweyl_n_down3 := by
    intro i j
    rw [← hEl i j, ← hEl j i]
    exact eweylU_symm' _ h1sym _ _ _
  obtain ⟨s2, t2, el2, mg2⟩ := weyl_alt2_normal_frame_of_inputs e h2 hI hEs hBs hEt
  -- the scale of the volume form is not zero
  have hs4 : e.sqrtF (-e.gdet) ≠ 0 := by
    intro h0
    have hg : e.gdet = -(e.alpha ^ 2) * e.gammadet := by
      rw [hdet, C08.gdet_coherent e C.asm hgd]; simp only [core_unfold]
    rw [h0, hg] at hsq
    have : e.alpha ^ 2 * e.gammadet = 0 := by linear_combination -hsq
    rcases mul_eq_zero.mp this with h | h
    · exact C.lc.ha (pow_eq_zero_iff (two_ne_zero) |>.mp h)
    · exact hd (hgd ▸ h)
  have hd3 : det3 (jetOf e).gamup ≠ 0 := det3_ne_zero_of_inv e.gammadown3 e.gammaup3 hγinv
  have hnu : e.nup4 = nuJ (jetOf e) := by rw [C.hnu, nup4_is_nuJ]
  have t1 : ∀ b d, ∑ a, ∑ c, (jetOf e).gup3p1 a c * weylOfCached e a b c d = 0 := C.blocks.weylTrace h3
  have t2' : ∀ b d, ∑ a, ∑ c, (jetOf e).gup3p1 a c * st_Weyl_down4__betaup3 e a b c d = 0 := by
    rw [← C.gup]; exact t2.t13
  refine weyl_unique_adapted (jetOf e) C.lc.ha h2 hγu hd3 e (e.sqrtF (-e.gdet)) hs4 _ _ h1sym s2 t1 t2'
    (fun i j => ?_) (fun i j => ?_) a b c d
  · rw [← hnu, hEl i j, el2 i.succ j.succ, (C04L.s_to_st_spec e e.eweyl_n_down3).2.2.1 i j]
  · rw [← hnu, ← C.gup, ← lc_down4_is_lc4, hMg i j, mg2 i.succ j.succ,
      (C04L.s_to_st_spec e e.bweyl_n_down3).2.2.1 i j]

/-- **T13d: all 256 components of construction 1 (matter branch) equal construction 2 (a shift key present)**, given
* `C : WeylCached e` — what construction 1 reads (see Lemmas/C10CohCode.lean): Riemann symmetries and the code's Gauss and
  Codazzi blocks of the cached `st_Riemann_down4`, `st_Ricci_down4` and `st_RicciS` ITS contractions, 3+1 inverse metric, `nup4`;
* the spatial block of the cached Ricci tensor of the Einstein-equation form (`hR3`), `s_Ricci_down3` the contraction of the
  cached `s_Riemann_down3`, `Ktrace`, `Stressdown3_n`, `Stressup3_n`, `ndown4`, `gdet` produced by the code's formulas;
* the two trace identities `H1`, `H2` (Layer B), `√` exact on `−g`, `√(−g) = α√γ` (positive lapse), `det γ ≠ 0`;
* the cached `eweyl_n_down3`, `bweyl_n_down3` produced by the code's formulas;  characteristic ≠ 2, 3. -/
theorem weyl_constructions_agree (e : Env K) (C : WeylCached e) (h3 : (3 : K) ≠ 0) (hKtr : e.Ktrace = Ktrace e)
    (hRic3 : ∀ i j, e.s_Ricci_down3 i j = ricciDown e.gammaup3 e.s_Riemann_down3 i j)
    (Ttr : K) (hR3 : ∀ i j : Fin 3, e.st_Ricci_down4 i.succ j.succ
        = e.Lambda * e.gammadown3 i j + e.kappa * (e.Tdown4 i.succ j.succ - (1 / 2) * Ttr * e.gammadown3 i j))
    (hSd : e.Stressdown3_n = Stressdown3_n e) (hSu : e.Stressup3_n = Stressup3_n e)
    (hs : e.sqrtF (-e.gdet) = e.alpha * e.sqrtF e.gammadet)
    (H1 : ∀ c, ∑ a, ∑ d, e.gammaup3 a d * s_covd_dd e e.Kdown3 c d a = s_covd_scalar e e.Ktrace c)
    (H2 : ∀ d, ∑ c, ∑ e', e.gammaup3 c e' * s_covd_dd e e.Kdown3 c e' d = ∑ k, s_covd_ud e (Kmixed e) k k d)
    (hnd : e.ndown4 = ndown4 e) (hdet : e.gdet = gdet__gdown4 e) (hsq : e.sqrtF (-e.gdet) ^ 2 = -e.gdet)
    (hgd : e.gammadet = gammadet e) (hd : gammadet e ≠ 0)
    (hEc : e.eweyl_n_down3 = eweyl_n_down3__dflt_matter e) (hBc : e.bweyl_n_down3 = bweyl_n_down3 e)
    (a b c d : Fin 4) :
    st_Weyl_down4__st_Riemann_down4_matter e a b c d = st_Weyl_down4__betaup3 e a b c d := by
  have hγu : Symm e.gammaup3 := Jet.gamup_symm (jetOf e) C.lc
  have hγinv : ∀ a b, ∑ c, e.gammadown3 a c * e.gammaup3 c b = if a = b then 1 else 0 :=
    fun a b => Jet.gam_mul_gamup (jetOf e) C.lc a b
  rw [C.alt1_eq]
  refine weylOfCached_eq_alt2 e C.toRiemCached h3 (fun i j => ?_) (fun i j => ?_) ?_ ?_ hnd hdet hsq hgd hd a b c d
  · rw [hEc]
    exact riem_electric_matter C.toRiemCached h3 hKtr hRic3 Ttr (fun i j => by rw [← C.hRic]; exact hR3 i j) hSd hSu i j
  · rw [hBc]; exact riem_magnetic C.toRiemCached hs H1 H2 i j
  · rw [hBc]; exact bweyl_n_sym_of_traces e C.lc.two hγu hγinv C.lc.symK H1 H2
  · rw [hEc]; exact (eweyl_n_tracefree e h3 (gam_trace3 (jetOf e) C.lc)).1

/-- **T13d, `vacuum = True`**: construction 1 returns the cached Riemann tensor; it equals construction 2 when that tensor is
Ricci-flat (all 16 components of its contraction vanish). -/
theorem weyl_constructions_agree_vacuum (e : Env K) (C : RiemCached e) (h3 : (3 : K) ≠ 0) (hKtr : e.Ktrace = Ktrace e)
    (hRic3 : ∀ i j, e.s_Ricci_down3 i j = ricciDown e.gammaup3 e.s_Riemann_down3 i j)
    (h0 : ∀ a b, ricciDown e.gup4 e.st_Riemann_down4 a b = 0)
    (hs : e.sqrtF (-e.gdet) = e.alpha * e.sqrtF e.gammadet)
    (H1 : ∀ c, ∑ a, ∑ d, e.gammaup3 a d * s_covd_dd e e.Kdown3 c d a = s_covd_scalar e e.Ktrace c)
    (H2 : ∀ d, ∑ c, ∑ e', e.gammaup3 c e' * s_covd_dd e e.Kdown3 c e' d = ∑ k, s_covd_ud e (Kmixed e) k k d)
    (hnd : e.ndown4 = ndown4 e) (hdet : e.gdet = gdet__gdown4 e) (hsq : e.sqrtF (-e.gdet) ^ 2 = -e.gdet)
    (hgd : e.gammadet = gammadet e) (hd : gammadet e ≠ 0)
    (hEc : e.eweyl_n_down3 = eweyl_n_down3__dflt_vacuum e) (hBc : e.bweyl_n_down3 = bweyl_n_down3 e)
    (a b c d : Fin 4) :
    st_Weyl_down4__st_Riemann_down4_vacuum e a b c d = st_Weyl_down4__betaup3 e a b c d := by
  have hγu : Symm e.gammaup3 := Jet.gamup_symm (jetOf e) C.lc
  have hγinv : ∀ a b, ∑ c, e.gammadown3 a c * e.gammaup3 c b = if a = b then 1 else 0 :=
    fun a b => Jet.gam_mul_gamup (jetOf e) C.lc a b
  rw [C.vacuum_eq h0]
  refine weylOfCached_eq_alt2 e C h3 (fun i j => ?_) (fun i j => ?_) ?_ ?_ hnd hdet hsq hgd hd a b c d
  · rw [hEc]; exact riem_electric_vacuum C h3 hKtr hRic3 (fun i j => h0 _ _) i j
  · rw [hBc]; exact riem_magnetic C hs H1 H2 i j
  · rw [hBc]; exact bweyl_n_sym_of_traces e C.lc.two hγu hγinv C.lc.symK H1 H2
  · rw [hEc]; exact (eweyl_n_tracefree e h3 (gam_trace3 (jetOf e) C.lc)).2

/-! ### T13f–h the cache states of the code (Layer B: `CurvHyp`; on shell where stated) -/

open AurelVerif.C01Coherence (OnShell ricciOf)

/-- what the second construction and the two `E`, `B` methods read, produced by the code's own formulas, plus the
analytic side conditions: `√` exact on `−g`, `√(−g) = α√γ` (POSITIVE lapse), additive Leibniz operator with the code's
Christoffel connection (Layer B, for the two trace identities inside `bweyl_n_down3`). -/
structure EBCached (e : Env K) : Prop where
  hnu : e.nup4 = nup4 e
  hnd : e.ndown4 = ndown4 e
  hdet : e.gdet = gdet__gdown4 e
  hsq : e.sqrtF (-e.gdet) ^ 2 = -e.gdet
  hs : e.sqrtF (-e.gdet) = e.alpha * e.sqrtF e.gammadet
  hM : MetricOK e
  hD : Deriv e.D
  hBc : e.bweyl_n_down3 = bweyl_n_down3 e

/-- the cached Riemann tensor is the textbook tensor ⟹ `RiemCached`. -/
theorem riemCached_of_textbook (e : Env K) (T : TimeJet2 K) (H : CurvHyp e T) (M : MainardiCached e)
    (hnu : e.nup4 = nup4 e) (hRiem : e.st_Riemann_down4 = (jetCOf e T).riem4 (gup4 e)) : RiemCached e := by
  have hg : gup4 e = (jetOf e).gup3p1 := by funext a b; exact H.gup a b
  refine ⟨H.lc, H.asm, fun a b => by rw [M.hgup]; exact H.gup a b, hnu, ?_, fun i j k l => ?_, fun i j k => ?_⟩
  · rw [hRiem, hg]; exact Spec.Curvature.JetC.riem4_sym (jetCOf e T) H.lc H.smooth
  · rw [hRiem]; exact (H.gauss_code i j k l).symm
  · rw [hRiem]; exact (H.codazzi_code i j k).symm

/-- on shell, the entries construction 1 reads are the textbook curvature: `WeylCached`. -/
theorem weylCached_onshell (e : Env K) (T : TimeJet2 K) (H : CurvHyp e T) (M : MainardiCached e)
    (hnu : e.nup4 = nup4 e) (hR3c : e.st_Ricci_down3 = st_Ricci_down3__dflt e)
    (hRd : e.st_Riemann_down4 = st_Riemann_down4__betaup3_matter e)
    (hR4 : e.st_Ricci_down4 = st_Ricci_down4__Tdown4 e) (hTt : e.Ttrace = Ttrace__Tdown4 e)
    (hRS : e.st_RicciS = st_RicciS e) (hE : OnShell e T) : WeylCached e := by
  have hRic3' := C04.st_Ricci_down3_of_einstein e T H M.hgup hR3c hE
  have hRiem : e.st_Riemann_down4 = (jetCOf e T).riem4 (gup4 e) := by
    funext p q r s; rw [hRd]; exact C04.st_Riemann_down4_is_riemann_matter e T H M hRic3' p q r s
  have R := riemCached_of_textbook e T H M hnu hRiem
  have hRicFull : ∀ a b, e.st_Ricci_down4 a b = ricciDown e.gup4 e.st_Riemann_down4 a b := by
    intro a b
    rw [hR4, C01Coherence.st_Ricci_down4_Tdown4_is_matter e M.hgup hTt a b, hRiem, M.hgup]
    exact (C04.ricci_of_einstein H.lc.two (gup4 e) e.gdown4 _ e.Tdown4 e.Lambda e.kappa H.trace_g hE a b).symm
  exact ⟨R, hRicFull, by rw [hRS, C04.st_RicciS_spec]⟩

/-- **T13f: the cache state of the code when `Tdown4` is supplied, ON SHELL.**  Cached: `st_Riemann_down4` from the
Gauss–Codazzi–Mainardi alternative (a shift key present, `vacuum = False`), `st_Ricci_down3`, `st_Ricci_down4` from the
`Tdown4` alternatives, `Ttrace`, `st_RicciS`, `Stressup3_n`, `Stressdown3_n`, `eweyl_n_down3`, `bweyl_n_down3`, `nup4`, `ndown4`,
`gdet` from the code's formulas.  Then, on a solution of Einstein's equations (`OnShell e T`, for the textbook curvature of
the assembled metric: `CurvHyp e T`, Layer B), the Riemann-based and the E/B-based `st_Weyl_down4` agree in all 256 components. -/
theorem st_Weyl_down4_onshell_coherent (e : Env K) (T : TimeJet2 K) (H : CurvHyp e T) (M : MainardiCached e)
    (X : EBCached e) (h3 : (3 : K) ≠ 0)
    (hR3c : e.st_Ricci_down3 = st_Ricci_down3__dflt e)
    (hRd : e.st_Riemann_down4 = st_Riemann_down4__betaup3_matter e)
    (hR4 : e.st_Ricci_down4 = st_Ricci_down4__Tdown4 e) (hTt : e.Ttrace = Ttrace__Tdown4 e)
    (hRS : e.st_RicciS = st_RicciS e) (hE : OnShell e T)
    (hSd : e.Stressdown3_n = Stressdown3_n e) (hSu : e.Stressup3_n = Stressup3_n e)
    (hEc : e.eweyl_n_down3 = eweyl_n_down3__dflt_matter e) (a b c d : Fin 4) :
    st_Weyl_down4__st_Riemann_down4_matter e a b c d = st_Weyl_down4__betaup3 e a b c d := by
  have C := weylCached_onshell e T H M X.hnu hR3c hRd hR4 hTt hRS hE
  have hg : ∀ i j : Fin 3, e.gdown4 i.succ j.succ = e.gammadown3 i j := fun i j => by
    rw [H.asm.hg4]; exact (C08.gdown4_layout e).2.2 i j
  refine weyl_constructions_agree e C h3 M.hKtr M.hRic3 e.Ttrace (fun i j => ?_) hSd hSu X.hs
    (covd_trace_dd e X.hM H.lc.two X.hD H.lc.symK M.hKtr) (covd_trace_ud e X.hM H.lc.two X.hD)
    X.hnd X.hdet X.hsq H.hgd H.hdet hEc X.hBc a b c d
  rw [hR4, C04.st_Ricci_down4_Tdown4_spec]
  simp only [Spec.Curvature.ricciOfMatter, hg]

/-- Ricci contraction in any dimension: symmetric for a pair-symmetric tensor and symmetric inverse metric. -/
theorem ricciDown_symm_n {n : Nat} (gup : Fin n → Fin n → K) (R : Fin n → Fin n → Fin n → Fin n → K)
    (hg : ∀ a b, gup a b = gup b a) (hp : ∀ a b c d, R a b c d = R c d a b) (b d : Fin n) :
    ricciDown gup R b d = ricciDown gup R d b := by
  unfold ricciDown
  rw [Finset.sum_comm]
  refine Finset.sum_congr rfl fun a _ => Finset.sum_congr rfl fun c _ => ?_
  rw [hp c b a d, hg c a]

/-- **T13e: the cache state "st_Ricci_down4 obtained by contracting the cached Riemann tensor"** (no `Tdown4` key in the
cache when `st_Ricci_down4` was computed): the two constructions agree OFF SHELL as well — no Einstein equation is
assumed.  The Mainardi block of the cached Riemann tensor was built from the same `st_Ricci_down3`, so the spatial block of
its Ricci contraction is that tensor by pure algebra (`ricci_of_mainardi`).  Layer B (`CurvHyp`: the cached
`s_Riemann_down3` has the Riemann symmetries; `EBCached`: the trace identities of `bweyl_n_down3`).  The spatial block of
the supplied `Tdown4` is assumed symmetric. -/
theorem st_Weyl_down4_coherent_contraction (e : Env K) (T : TimeJet2 K) (H : CurvHyp e T) (M : MainardiCached e)
    (X : EBCached e) (h3 : (3 : K) ≠ 0)
    (hR3c : e.st_Ricci_down3 = st_Ricci_down3__dflt e)
    (hRd : e.st_Riemann_down4 = st_Riemann_down4__betaup3_matter e)
    (hRu : e.st_Riemann_uddd4 = st_Riemann_uddd4 e) (hR4 : e.st_Ricci_down4 = st_Ricci_down4__dflt e)
    (hRS : e.st_RicciS = st_RicciS e)
    (hTs : ∀ i j : Fin 3, e.Tdown4 i.succ j.succ = e.Tdown4 j.succ i.succ)
    (hSd : e.Stressdown3_n = Stressdown3_n e) (hSu : e.Stressup3_n = Stressup3_n e)
    (hEc : e.eweyl_n_down3 = eweyl_n_down3__dflt_matter e) (a b c d : Fin 4) :
    st_Weyl_down4__st_Riemann_down4_matter e a b c d = st_Weyl_down4__betaup3 e a b c d := by
  have hg : gup4 e = (jetOf e).gup3p1 := by funext a b; exact H.gup a b
  have hγu : ∀ a b, e.gammaup3 a b = e.gammaup3 b a := Jet.gamup_symm (jetOf e) H.lc
  -- symmetries of the cached entries
  have hR3sym : Spec.Curvature.RiemannSym e.s_Riemann_down3 := by
    have : e.s_Riemann_down3 = (jetCOf e T).riem3 := by funext a b c d; exact H.riem3 a b c d
    rw [this]
    exact Spec.Curvature.riemannDown_sym _ _ _ hγu (fun c a b => Spec.Curvature.JetC.dgam_symm (jetCOf e T) H.lc c a b)
      (fun c d a b => H.smooth.ddgam_kl c d a b) (fun c d a b => H.smooth.ddgam_ij c d a b)
  have hRic3s : ∀ i j, e.s_Ricci_down3 i j = e.s_Ricci_down3 j i := fun i j => by
    rw [M.hRic3 i j, M.hRic3 j i]; exact ricciDown_symm_n _ _ hγu hR3sym.pair i j
  have hgs : ∀ a b, e.gup4 a b = e.gup4 b a := fun a b => by
    rw [M.hgup, hg]; exact Jet.gup3p1_symm (jetOf e) H.lc a b
  have hR3s : ∀ i j, e.st_Ricci_down3 i j = e.st_Ricci_down3 j i := fun i j => by
    rw [hR3c, C04.st_Ricci_down3_dflt_spec, C04.st_Ricci_down3_dflt_spec]
    have hγ : e.gammadown3 i j = e.gammadown3 j i := H.lc.symg i j
    simp only [Spec.Curvature.ricciOfMatter, hTs i j, hγ]
  -- `RiemCached`
  have hspec : e.st_Riemann_down4 = Spec.Curvature.populate (RssssE e) (RssstE e)
      (C04L.RststE e (s_to_st__betaup3 e e.Kdown3) e.st_Ricci_down3) := by
    rw [hRd]; funext p q r s; exact C04.st_Riemann_down4_betaup3_matter_spec e p q r s
  have R : RiemCached e := by
    refine ⟨H.lc, H.asm, fun a b => by rw [M.hgup]; exact H.gup a b, X.hnu, ?_, fun i j k l => ?_, fun i j k => ?_⟩
    · rw [hspec]; exact C04L.blocks_sym e _ _ hR3sym H.lc.symK hRic3s hgs hR3s
    · rw [hRd]; exact C04L.bm_ssss e i j k l
    · rw [hRd]; exact C04L.bm_ssst e i j k
  have hRicFull : ∀ a b, e.st_Ricci_down4 a b = ricciDown e.gup4 e.st_Riemann_down4 a b := fun a b => by
    rw [hR4]; exact C01Coherence.contraction_is_ricciDown e _ rfl hRu a b
  have C : WeylCached e := ⟨R, hRicFull, by rw [hRS, C04.st_RicciS_spec]⟩
  -- the spatial block of the Ricci contraction is the `st_Ricci_down3` the Mainardi block was built from
  have hKK : C04L.KK4 e.gup4 (s_to_st__betaup3 e e.Kdown3) = Spec.Curvature.KK3 e.gammaup3 e.Kdown3 := by
    funext i j; exact C04L.KK4_eq_KK3 e (H.gup3p1 M.hgup) H.lc.symK hγu H.lc.ha i j
  have hRic3f : e.s_Ricci_down3 = ricciDown e.gammaup3 e.s_Riemann_down3 := by funext i j; exact M.hRic3 i j
  have hsp : ∀ i j : Fin 3, ricciDown e.gup4 e.st_Riemann_down4 i.succ j.succ = e.st_Ricci_down3 i j := by
    intro i j
    rw [R.gup]
    refine ricci_of_mainardi (jetOf e) H.lc e.st_Riemann_down4 R.hRsym e.s_Riemann_down3 (RssstE e) R.hRA R.hRB
      e.st_Ricci_down3 (fun i j => ?_) i j
    rw [hRd, C04L.bm_stst e i j]
    unfold C04L.RststE
    rw [hKK, hRic3f, M.hKtr, C08.Ktrace_spec]
    rfl
  refine weyl_constructions_agree e C h3 M.hKtr M.hRic3 (Spec.Curvature.trace e.gup4 e.Tdown4) (fun i j => ?_) hSd hSu
    X.hs (covd_trace_dd e X.hM H.lc.two X.hD H.lc.symK M.hKtr) (covd_trace_ud e X.hM H.lc.two X.hD)
    X.hnd X.hdet X.hsq H.hgd H.hdet hEc X.hBc a b c d
  rw [hRicFull, hsp i j, hR3c, C04.st_Ricci_down3_dflt_spec]
  rfl

/-- **T13g: `vacuum = True`, on a vacuum solution** (all 16 components of the Ricci tensor of the assembled metric vanish):
the first construction returns the cached Riemann tensor (Gauss–Codazzi–Mainardi alternative with the vacuum flag), the
second one uses `eweyl_n_down3` without matter terms; they agree in all 256 components. -/
theorem st_Weyl_down4_vacuum_coherent (e : Env K) (T : TimeJet2 K) (H : CurvHyp e T) (M : MainardiCached e)
    (X : EBCached e) (h3 : (3 : K) ≠ 0)
    (hRd : e.st_Riemann_down4 = st_Riemann_down4__betaup3_vacuum e) (hvac : ∀ a b, ricciOf e T a b = 0)
    (hEc : e.eweyl_n_down3 = eweyl_n_down3__dflt_vacuum e) (a b c d : Fin 4) :
    st_Weyl_down4__st_Riemann_down4_vacuum e a b c d = st_Weyl_down4__betaup3 e a b c d := by
  have hRiem : e.st_Riemann_down4 = (jetCOf e T).riem4 (gup4 e) := by
    funext p q r s; rw [hRd]
    exact C04.st_Riemann_down4_is_riemann_vacuum e T H M (fun i j => hvac i.succ j.succ) p q r s
  have R := riemCached_of_textbook e T H M X.hnu hRiem
  have h0 : ∀ a b, ricciDown e.gup4 e.st_Riemann_down4 a b = 0 := by
    intro a b; rw [hRiem, M.hgup]; exact hvac a b
  exact weyl_constructions_agree_vacuum e R h3 M.hKtr M.hRic3 h0 X.hs
    (covd_trace_dd e X.hM H.lc.two X.hD H.lc.symK M.hKtr) (covd_trace_ud e X.hM H.lc.two X.hD)
    X.hnd X.hdet X.hsq H.hgd H.hdet hEc X.hBc a b c d

/-- **T13h: no shift key at all** (`β = 0`): the zero-shift alternatives `st_Riemann_down4__dflt_matter`, `st_Weyl_down4__dflt`. -/
theorem st_Weyl_down4_onshell_coherent_noshift (e : Env K) (T : TimeJet2 K) (H : CurvHyp e T) (M : MainardiCached e)
    (X : EBCached e) (h3 : (3 : K) ≠ 0) (hb : ∀ i, e.betaup3 i = 0)
    (hR3c : e.st_Ricci_down3 = st_Ricci_down3__dflt e)
    (hRd : e.st_Riemann_down4 = st_Riemann_down4__dflt_matter e)
    (hR4 : e.st_Ricci_down4 = st_Ricci_down4__Tdown4 e) (hTt : e.Ttrace = Ttrace__Tdown4 e)
    (hRS : e.st_RicciS = st_RicciS e) (hE : OnShell e T)
    (hSd : e.Stressdown3_n = Stressdown3_n e) (hSu : e.Stressup3_n = Stressup3_n e)
    (hEc : e.eweyl_n_down3 = eweyl_n_down3__dflt_matter e) (a b c d : Fin 4) :
    st_Weyl_down4__st_Riemann_down4_matter e a b c d = st_Weyl_down4__dflt e a b c d := by
  rw [C01Coherence.st_Weyl_down4_shift_coherent e hb a b c d]
  refine st_Weyl_down4_onshell_coherent e T H M X h3 hR3c ?_ hR4 hTt hRS hE hSd hSu hEc a b c d
  rw [hRd]; funext p q r s; exact (C01Coherence.st_Riemann_down4_shift_coherent e hb p q r s).1

theorem st_Weyl_down4_vacuum_coherent_noshift (e : Env K) (T : TimeJet2 K) (H : CurvHyp e T) (M : MainardiCached e)
    (X : EBCached e) (h3 : (3 : K) ≠ 0) (hb : ∀ i, e.betaup3 i = 0)
    (hRd : e.st_Riemann_down4 = st_Riemann_down4__dflt_vacuum e) (hvac : ∀ a b, ricciOf e T a b = 0)
    (hEc : e.eweyl_n_down3 = eweyl_n_down3__dflt_vacuum e) (a b c d : Fin 4) :
    st_Weyl_down4__st_Riemann_down4_vacuum e a b c d = st_Weyl_down4__dflt e a b c d := by
  rw [C01Coherence.st_Weyl_down4_shift_coherent e hb a b c d]
  refine st_Weyl_down4_vacuum_coherent e T H M X h3 ?_ hvac hEc a b c d
  rw [hRd]; funext p q r s; exact (C01Coherence.st_Riemann_down4_shift_coherent e hb p q r s).2

/-! ### Non-vacuity -/

def exWa : Env ℚ := { C04.exEnvE with sqrtF := fun x => (x + 2) / 3 }
def exW0 : Env ℚ :=
  { exWa with
    Ttrace := Ttrace__Tdown4 C04.exEnvE, nup4 := nup4 C04.exEnvE,
    ndown4 := ndown4 C04.exEnvE, gdet := gdet__gdown4 C04.exEnvE,
    st_Riemann_down4 := st_Riemann_down4__betaup3_matter C04.exEnvE,
    st_Ricci_down4 := st_Ricci_down4__Tdown4 { C04.exEnvE with Ttrace := Ttrace__Tdown4 C04.exEnvE },
    Stressup3_n := Stressup3_n C04.exEnvE,
    bweyl_n_down3 := bweyl_n_down3 exWa }
def exW1 : Env ℚ := { exW0 with st_RicciS := st_RicciS exW0, Stressdown3_n := Stressdown3_n exW0 }
def exW : Env ℚ := { exW1 with eweyl_n_down3 := eweyl_n_down3__dflt_matter exW1 }

theorem exW_hyp : CurvHyp exW C04.exT :=
  have h := C04.exEnvC_hyp
  ⟨⟨h.asm.hbd, h.asm.hbm, h.asm.hgtt, h.asm.hg4, h.asm.hsym⟩, h.hgd, h.hdet,
    ⟨h.lc.symg, h.lc.symK, h.lc.symG, h.lc.mc, h.lc.inv, h.lc.ha, h.lc.two⟩, h.comm, h.symT, h.riem3⟩

theorem exW_cached : MainardiCached exW :=
  have m := C04.exEnvC_cached
  ⟨m.hgup, m.hKtr, m.hRic3⟩

theorem exW_onshell : OnShell exW C04.exT := C01Coherence.exOn_onshell

theorem exW_R3 : exW.st_Ricci_down3 = st_Ricci_down3__dflt exW := by
  funext i j
  show st_Ricci_down3__dflt C04.exEnvE0 i j = _
  rw [C04.st_Ricci_down3_dflt_spec, C04.st_Ricci_down3_dflt_spec]
  rfl

theorem exW_Rd : exW.st_Riemann_down4 = st_Riemann_down4__betaup3_matter exW := by
  funext a b c d
  show st_Riemann_down4__betaup3_matter C04.exEnvE a b c d = _
  rw [C04.st_Riemann_down4_betaup3_matter_spec, C04.st_Riemann_down4_betaup3_matter_spec]
  rfl

theorem exW_R4 : exW.st_Ricci_down4 = st_Ricci_down4__Tdown4 exW := by
  funext a b
  show st_Ricci_down4__Tdown4 { C04.exEnvE with Ttrace := Ttrace__Tdown4 C04.exEnvE } a b = _
  rw [C04.st_Ricci_down4_Tdown4_spec, C04.st_Ricci_down4_Tdown4_spec]
  rfl

theorem exW_RS : exW.st_RicciS = st_RicciS exW := by
  show st_RicciS exW0 = _
  rw [C04.st_RicciS_spec, C04.st_RicciS_spec]
  rfl

theorem exW_Su : exW.Stressup3_n = Stressup3_n exW := rfl
theorem exW_Sd : exW.Stressdown3_n = Stressdown3_n exW := rfl
theorem exW_Tt : exW.Ttrace = Ttrace__Tdown4 exW := rfl

theorem exW_Ec : exW.eweyl_n_down3 = eweyl_n_down3__dflt_matter exW := by
  funext i j
  show eweyl_n_down3__dflt_matter exW1 i j = _
  rw [eweyl_n_matter_spec, eweyl_n_matter_spec]
  rfl

theorem exW_Bc : exW.bweyl_n_down3 = bweyl_n_down3 exW := by
  funext i j
  show bweyl_n_down3 exWa i j = _
  rw [bweyl_n_matches, bweyl_n_matches]
  rfl


set_option maxHeartbeats 1000000 in
theorem exWa_metricOK : MetricOK exWa := by
  refine ⟨?_, ?_, ?_, ?_⟩
  · cases3 <;> cases3 <;> (simp only [exWa, C04.exEnvE, C04.exEnvE0, C04.exEnvC, C04.exEnvC0, C04.exEnv, C08.exEnv, core_unfold])
  · cases3 <;> cases3 <;> (simp only [exWa, C04.exEnvE, C04.exEnvE0, C04.exEnvC, C04.exEnvC0, C04.exEnv, C08.exEnv, core_unfold])
  · cases3 <;> cases3 <;>
      (simp only [exWa, C04.exEnvE, C04.exEnvE0, C04.exEnvC, C04.exEnvC0, C04.exEnv, C08.exEnv, core_unfold, Fin.sum_univ_three]; simp [delta]; try norm_num)
  · funext l i j; revert l i j
    cases3 <;> cases3 <;> cases3 <;> (simp only [exWa, C04.exEnvE, C04.exEnvE0, C04.exEnvC, C04.exEnvC0, C04.exEnv, C08.exEnv, Env.zero, core_unfold]; norm_num)

theorem exW_metricOK : MetricOK exW :=
  have h := exWa_metricOK
  ⟨h.hs, h.hsu, h.hinv, h.hG⟩

theorem exW_eb : EBCached exW := by
  refine ⟨rfl, rfl, rfl, ?_, ?_, exW_metricOK, ⟨fun i x y => ?_, fun i x y => ?_⟩, exW_Bc⟩
  · simp only [exW, exW1, exW0, exWa, C04.exEnvE, C04.exEnvE0, C04.exEnvC, C04.exEnvC0, C04.exEnv, C08.exEnv, core_unfold]; norm_num
  · simp only [exW, exW1, exW0, exWa, C04.exEnvE, C04.exEnvE0, C04.exEnvC, C04.exEnvC0, C04.exEnv, C08.exEnv, core_unfold]; norm_num
  · show (0 : ℚ) = 0 + 0; norm_num
  · show (0 : ℚ) = 0 * y + x * 0; norm_num

/-- every hypothesis of `st_Weyl_down4_onshell_coherent` (hence of `weyl_constructions_agree`, `weyl_alt1_electric`,
`weyl_alt1_magnetic[_layerB]` through `weylCached_onshell`) holds at `exW`: lapse 2, shift (1,0,0), sheared metric, non-zero
`K`, κ = 2, Λ = 1/3, `Tdown4` from the Einstein tensor of the textbook curvature; the electric part there is not zero. -/
example : CurvHyp exW C04.exT ∧ MainardiCached exW ∧ EBCached exW ∧ (3 : ℚ) ≠ 0
    ∧ exW.st_Ricci_down3 = st_Ricci_down3__dflt exW
    ∧ exW.st_Riemann_down4 = st_Riemann_down4__betaup3_matter exW
    ∧ exW.st_Ricci_down4 = st_Ricci_down4__Tdown4 exW ∧ exW.Ttrace = Ttrace__Tdown4 exW
    ∧ exW.st_RicciS = st_RicciS exW ∧ OnShell exW C04.exT
    ∧ exW.Stressdown3_n = Stressdown3_n exW ∧ exW.Stressup3_n = Stressup3_n exW
    ∧ exW.eweyl_n_down3 = eweyl_n_down3__dflt_matter exW :=
  ⟨exW_hyp, exW_cached, exW_eb, by norm_num, exW_R3, exW_Rd, exW_R4, exW_Tt, exW_RS, exW_onshell, exW_Sd, exW_Su, exW_Ec⟩


example : RssssE exW 0 1 0 1 ≠ 0 := by
  simp only [RssssE, Spec.Curvature.gauss, exW, exW1, exW0, exWa, C04.exEnvE, C04.exEnvE0, C04.exEnvC, C04.exEnvC0,
    C04.exEnv, C08.exEnv, Env.zero, core_unfold]
  norm_num

/-! the cache state of T13e at the same point: `st_Ricci_down4` := the contraction of the cached Riemann tensor. -/

def exCt0 : Env ℚ :=
  { exWa with
    nup4 := nup4 exWa, ndown4 := ndown4 exWa, gdet := gdet__gdown4 exWa,
    st_Riemann_down4 := st_Riemann_down4__betaup3_matter exWa, Stressup3_n := Stressup3_n exWa,
    bweyl_n_down3 := bweyl_n_down3 exWa }
def exCt1 : Env ℚ :=
  { exCt0 with st_Riemann_uddd4 := st_Riemann_uddd4 exCt0, Stressdown3_n := Stressdown3_n exCt0 }
def exCt2 : Env ℚ := { exCt1 with st_Ricci_down4 := st_Ricci_down4__dflt exCt1 }
def exCt : Env ℚ := { exCt2 with st_RicciS := st_RicciS exCt2, eweyl_n_down3 := eweyl_n_down3__dflt_matter exCt2 }

theorem exCt_hyp : CurvHyp exCt C04.exT :=
  have h := C04.exEnvC_hyp
  ⟨⟨h.asm.hbd, h.asm.hbm, h.asm.hgtt, h.asm.hg4, h.asm.hsym⟩, h.hgd, h.hdet,
    ⟨h.lc.symg, h.lc.symK, h.lc.symG, h.lc.mc, h.lc.inv, h.lc.ha, h.lc.two⟩, h.comm, h.symT, h.riem3⟩

theorem exCt_cached : MainardiCached exCt :=
  have m := C04.exEnvC_cached
  ⟨m.hgup, m.hKtr, m.hRic3⟩

theorem exCt_eb : EBCached exCt := by
  have h := exWa_metricOK
  refine ⟨rfl, rfl, rfl, ?_, ?_, ⟨h.hs, h.hsu, h.hinv, h.hG⟩, ⟨fun i x y => ?_, fun i x y => ?_⟩, ?_⟩
  · simp only [exCt, exCt2, exCt1, exCt0, exWa, C04.exEnvE, C04.exEnvE0, C04.exEnvC, C04.exEnvC0, C04.exEnv, C08.exEnv, core_unfold]; norm_num
  · simp only [exCt, exCt2, exCt1, exCt0, exWa, C04.exEnvE, C04.exEnvE0, C04.exEnvC, C04.exEnvC0, C04.exEnv, C08.exEnv, core_unfold]; norm_num
  · show (0 : ℚ) = 0 + 0; norm_num
  · show (0 : ℚ) = 0 * y + x * 0; norm_num
  · funext i j
    show bweyl_n_down3 exWa i j = _
    rw [bweyl_n_matches, bweyl_n_matches]
    rfl

theorem exCt_R3 : exCt.st_Ricci_down3 = st_Ricci_down3__dflt exCt := by
  funext i j
  show st_Ricci_down3__dflt C04.exEnvE0 i j = _
  rw [C04.st_Ricci_down3_dflt_spec, C04.st_Ricci_down3_dflt_spec]
  rfl

theorem exCt_Rd : exCt.st_Riemann_down4 = st_Riemann_down4__betaup3_matter exCt := by
  funext a b c d
  show st_Riemann_down4__betaup3_matter exWa a b c d = _
  rw [C04.st_Riemann_down4_betaup3_matter_spec, C04.st_Riemann_down4_betaup3_matter_spec]
  rfl

theorem exCt_Ru : exCt.st_Riemann_uddd4 = st_Riemann_uddd4 exCt := by
  funext a b c d
  show st_Riemann_uddd4 exCt0 a b c d = _
  rw [C04.st_Riemann_uddd4_spec, C04.st_Riemann_uddd4_spec]
  rfl

theorem exCt_R4 : exCt.st_Ricci_down4 = st_Ricci_down4__dflt exCt := by
  funext a b
  show st_Ricci_down4__dflt exCt1 a b = _
  rw [C04.st_Ricci_down4_dflt_spec, C04.st_Ricci_down4_dflt_spec]
  rfl

theorem exCt_RS : exCt.st_RicciS = st_RicciS exCt := by
  show st_RicciS exCt2 = _
  rw [C04.st_RicciS_spec, C04.st_RicciS_spec]
  rfl

theorem exCt_Ec : exCt.eweyl_n_down3 = eweyl_n_down3__dflt_matter exCt := by
  funext i j
  show eweyl_n_down3__dflt_matter exCt2 i j = _
  rw [eweyl_n_matter_spec, eweyl_n_matter_spec]
  rfl

/-- the supplied `Tdown4` (Einstein tensor of the textbook curvature) is symmetric. -/
theorem exCt_Ts (i j : Fin 3) : exCt.Tdown4 i.succ j.succ = exCt.Tdown4 j.succ i.succ := by
  have H := C04.exEnvC_hyp
  have hg : gup4 C04.exEnvC = (jetOf C04.exEnvC).gup3p1 := by funext a b; exact H.gup a b
  have hRs : ∀ a b, ricciDown (gup4 C04.exEnvC) ((jetCOf C04.exEnvC C04.exT).riem4 (gup4 C04.exEnvC)) a b
      = ricciDown (gup4 C04.exEnvC) ((jetCOf C04.exEnvC C04.exT).riem4 (gup4 C04.exEnvC)) b a := by
    intro a b
    refine ricciDown_symm_n _ _ (fun a b => by rw [hg]; exact Jet.gup3p1_symm _ H.lc a b) ?_ a b
    rw [hg]; exact (Spec.Curvature.JetC.riem4_sym (jetCOf C04.exEnvC C04.exT) H.lc H.smooth).pair
  have hgs : ∀ a b, C04.exEnvC.gdown4 a b = C04.exEnvC.gdown4 b a := by
    rw [H.asm.hg4]; exact C08.gdown4_symm _ H.asm.hsym
  show (Spec.Curvature.einstein _ _ C04.exEnvC.gdown4 i.succ j.succ + (1 / 3 : ℚ) * C04.exEnvC.gdown4 i.succ j.succ) / 2
    = (Spec.Curvature.einstein _ _ C04.exEnvC.gdown4 j.succ i.succ + (1 / 3 : ℚ) * C04.exEnvC.gdown4 j.succ i.succ) / 2
  simp only [Spec.Curvature.einstein]
  rw [hRs i.succ j.succ, hgs i.succ j.succ]

/-- every hypothesis of `st_Weyl_down4_coherent_contraction` holds at `exCt` (κ = 2, Λ = 1/3, non-zero shift). -/
example : CurvHyp exCt C04.exT ∧ MainardiCached exCt ∧ EBCached exCt ∧ (3 : ℚ) ≠ 0
    ∧ exCt.st_Ricci_down3 = st_Ricci_down3__dflt exCt ∧ exCt.st_Riemann_down4 = st_Riemann_down4__betaup3_matter exCt
    ∧ exCt.st_Riemann_uddd4 = st_Riemann_uddd4 exCt ∧ exCt.st_Ricci_down4 = st_Ricci_down4__dflt exCt
    ∧ exCt.st_RicciS = st_RicciS exCt ∧ (∀ i j : Fin 3, exCt.Tdown4 i.succ j.succ = exCt.Tdown4 j.succ i.succ)
    ∧ exCt.Stressdown3_n = Stressdown3_n exCt ∧ exCt.Stressup3_n = Stressup3_n exCt
    ∧ exCt.eweyl_n_down3 = eweyl_n_down3__dflt_matter exCt :=
  ⟨exCt_hyp, exCt_cached, exCt_eb, by norm_num, exCt_R3, exCt_Rd, exCt_Ru, exCt_R4, exCt_RS, exCt_Ts, rfl, rfl, exCt_Ec⟩

/-! the KASNER point `C04.exKas` (vacuum solution, zero shift, non-zero Riemann tensor and electric part) -/

/-- `vacuum = True`; β = 0 is supplied, so this point serves the variants with and without a shift key. -/
def exKV : Env ℚ :=
  { C04.exKas with
    nup4 := nup4 C04.exKas, ndown4 := ndown4 C04.exKas, gdet := gdet__gdown4 C04.exKas,
    bweyl_n_down3 := bweyl_n_down3 C04.exKas,
    st_Riemann_down4 := st_Riemann_down4__betaup3_vacuum C04.exKas,
    eweyl_n_down3 := eweyl_n_down3__dflt_vacuum C04.exKas }

set_option maxHeartbeats 1000000 in
theorem exKV_metricOK : MetricOK exKV := by
  refine ⟨?_, ?_, ?_, ?_⟩
  · cases3 <;> cases3 <;> (simp only [exKV, C04.exKas, C04.exKas0, core_unfold])
  · cases3 <;> cases3 <;> (simp only [exKV, C04.exKas, C04.exKas0, core_unfold])
  · cases3 <;> cases3 <;>
      (simp only [exKV, C04.exKas, C04.exKas0, core_unfold, Fin.sum_univ_three]; simp [delta])
  · funext l i j; revert l i j
    cases3 <;> cases3 <;> cases3 <;> (simp only [exKV, C04.exKas, C04.exKas0, Env.zero, core_unfold]; norm_num)

theorem exKV_eb : EBCached exKV := by
  refine ⟨rfl, rfl, rfl, ?_, ?_, exKV_metricOK, ⟨fun i x y => ?_, fun i x y => ?_⟩, ?_⟩
  · simp only [exKV, C04.exKas, C04.exKas0, Env.zero, core_unfold]; norm_num
  · simp only [exKV, C04.exKas, C04.exKas0, Env.zero, core_unfold]; norm_num
  · show (0 : ℚ) = 0 + 0; norm_num
  · show (0 : ℚ) = 0 * y + x * 0; norm_num
  · funext i j
    show bweyl_n_down3 C04.exKas i j = _
    rw [bweyl_n_matches, bweyl_n_matches]
    rfl

theorem exKV_hyp : CurvHyp exKV C04.exKasT :=
  have h := C04.exKas_hyp
  ⟨⟨h.asm.hbd, h.asm.hbm, h.asm.hgtt, h.asm.hg4, h.asm.hsym⟩, h.hgd, h.hdet,
    ⟨h.lc.symg, h.lc.symK, h.lc.symG, h.lc.mc, h.lc.inv, h.lc.ha, h.lc.two⟩, h.comm, h.symT, h.riem3⟩

theorem exKV_cached : MainardiCached exKV :=
  have m := C04.exKas_cached.1
  ⟨m.hgup, m.hKtr, m.hRic3⟩

theorem exKV_Rd : exKV.st_Riemann_down4 = st_Riemann_down4__betaup3_vacuum exKV := by
  funext a b c d
  show st_Riemann_down4__betaup3_vacuum C04.exKas a b c d = _
  rw [C04.st_Riemann_down4_betaup3_vacuum_spec, C04.st_Riemann_down4_betaup3_vacuum_spec]
  rfl

theorem exKV_Ec : exKV.eweyl_n_down3 = eweyl_n_down3__dflt_vacuum exKV := by
  funext i j
  show eweyl_n_down3__dflt_vacuum C04.exKas i j = _
  rw [eweyl_n_vacuum_spec, eweyl_n_vacuum_spec]
  rfl

/-- every hypothesis of `st_Weyl_down4_vacuum_coherent` and `st_Weyl_down4_vacuum_coherent_noshift` holds at the Kasner
point; the electric part there is not zero (`E_zz = −4/9`). -/
example : CurvHyp exKV C04.exKasT ∧ MainardiCached exKV ∧ EBCached exKV ∧ (∀ i, exKV.betaup3 i = 0)
    ∧ exKV.st_Riemann_down4 = st_Riemann_down4__betaup3_vacuum exKV
    ∧ exKV.st_Riemann_down4 = st_Riemann_down4__dflt_vacuum exKV ∧ (∀ a b, ricciOf exKV C04.exKasT a b = 0)
    ∧ exKV.eweyl_n_down3 = eweyl_n_down3__dflt_vacuum exKV ∧ exKV.eweyl_n_down3 2 2 = -4 / 9 := by
  refine ⟨exKV_hyp, exKV_cached, exKV_eb, fun _ => rfl, exKV_Rd, ?_, C01Coherence.exKas_ricci_full, exKV_Ec, ?_⟩
  · rw [exKV_Rd]; funext p q r s
    exact ((C01Coherence.st_Riemann_down4_shift_coherent exKV (fun _ => rfl) p q r s).2).symm
  · show eweyl_n_down3__dflt_vacuum C04.exKas 2 2 = _
    simp only [C04.exKas, C04.exKas0, Env.zero, core_unfold]; norm_num

/-- `vacuum = False`, no shift key, `κ = 1`, `T = 0`, `Λ = 0` at the Kasner point. -/
def exKMa : Env ℚ := { C04.exKas with kappa := 1 }
def exKM0 : Env ℚ :=
  { exKMa with
    nup4 := nup4 exKMa, ndown4 := ndown4 exKMa, gdet := gdet__gdown4 exKMa, bweyl_n_down3 := bweyl_n_down3 exKMa,
    st_Ricci_down3 := st_Ricci_down3__dflt exKMa, Ttrace := Ttrace__Tdown4 exKMa, Stressup3_n := Stressup3_n exKMa }
def exKM1 : Env ℚ :=
  { exKM0 with
    st_Riemann_down4 := st_Riemann_down4__dflt_matter exKM0, st_Ricci_down4 := st_Ricci_down4__Tdown4 exKM0,
    Stressdown3_n := Stressdown3_n exKM0 }
def exKM : Env ℚ :=
  { exKM1 with st_RicciS := st_RicciS exKM1, eweyl_n_down3 := eweyl_n_down3__dflt_matter exKM1 }

set_option maxHeartbeats 1000000 in
theorem exKM_metricOK : MetricOK exKM := by
  refine ⟨?_, ?_, ?_, ?_⟩
  · cases3 <;> cases3 <;> (simp only [exKM, exKM1, exKM0, exKMa, C04.exKas, C04.exKas0, core_unfold])
  · cases3 <;> cases3 <;> (simp only [exKM, exKM1, exKM0, exKMa, C04.exKas, C04.exKas0, core_unfold])
  · cases3 <;> cases3 <;>
      (simp only [exKM, exKM1, exKM0, exKMa, C04.exKas, C04.exKas0, core_unfold, Fin.sum_univ_three]; simp [delta])
  · funext l i j; revert l i j
    cases3 <;> cases3 <;> cases3 <;>
      (simp only [exKM, exKM1, exKM0, exKMa, C04.exKas, C04.exKas0, Env.zero, core_unfold]; norm_num)

theorem exKM_eb : EBCached exKM := by
  refine ⟨rfl, rfl, rfl, ?_, ?_, exKM_metricOK, ⟨fun i x y => ?_, fun i x y => ?_⟩, ?_⟩
  · simp only [exKM, exKM1, exKM0, exKMa, C04.exKas, C04.exKas0, Env.zero, core_unfold]; norm_num
  · simp only [exKM, exKM1, exKM0, exKMa, C04.exKas, C04.exKas0, Env.zero, core_unfold]; norm_num
  · show (0 : ℚ) = 0 + 0; norm_num
  · show (0 : ℚ) = 0 * y + x * 0; norm_num
  · funext i j
    show bweyl_n_down3 exKMa i j = _
    rw [bweyl_n_matches, bweyl_n_matches]
    rfl

theorem exKM_hyp : CurvHyp exKM C04.exKasT :=
  have h := C04.exKas_hyp
  ⟨⟨h.asm.hbd, h.asm.hbm, h.asm.hgtt, h.asm.hg4, h.asm.hsym⟩, h.hgd, h.hdet,
    ⟨h.lc.symg, h.lc.symK, h.lc.symG, h.lc.mc, h.lc.inv, h.lc.ha, h.lc.two⟩, h.comm, h.symT, h.riem3⟩

theorem exKM_cached : MainardiCached exKM :=
  have m := C04.exKas_cached.1
  ⟨m.hgup, m.hKtr, m.hRic3⟩

theorem exKM_onshell : OnShell exKM C04.exKasT := by
  intro a b
  have h0 : ∀ a b, ricciOf exKM C04.exKasT a b = 0 := C01Coherence.exKas_ricci_full
  have hT : exKM.Tdown4 a b = 0 := rfl
  have hL : exKM.Lambda = 0 := rfl
  simp only [Spec.Curvature.einstein, Spec.Curvature.trace, h0, hT, hL, mul_zero, Finset.sum_const_zero, zero_mul,
    sub_self, add_zero]

theorem exKM_R3 : exKM.st_Ricci_down3 = st_Ricci_down3__dflt exKM := by
  funext i j
  show st_Ricci_down3__dflt exKMa i j = _
  rw [C04.st_Ricci_down3_dflt_spec, C04.st_Ricci_down3_dflt_spec]
  rfl

theorem exKM_Rd : exKM.st_Riemann_down4 = st_Riemann_down4__dflt_matter exKM := by
  funext a b c d
  show st_Riemann_down4__dflt_matter exKM0 a b c d = _
  rw [C04.st_Riemann_down4_dflt_matter_spec, C04.st_Riemann_down4_dflt_matter_spec]
  rfl

theorem exKM_R4 : exKM.st_Ricci_down4 = st_Ricci_down4__Tdown4 exKM := by
  funext a b
  show st_Ricci_down4__Tdown4 exKM0 a b = _
  rw [C04.st_Ricci_down4_Tdown4_spec, C04.st_Ricci_down4_Tdown4_spec]
  rfl

theorem exKM_RS : exKM.st_RicciS = st_RicciS exKM := by
  show st_RicciS exKM1 = _
  rw [C04.st_RicciS_spec, C04.st_RicciS_spec]
  rfl

theorem exKM_Ec : exKM.eweyl_n_down3 = eweyl_n_down3__dflt_matter exKM := by
  funext i j
  show eweyl_n_down3__dflt_matter exKM1 i j = _
  rw [eweyl_n_matter_spec, eweyl_n_matter_spec]
  rfl

/-- every hypothesis of `st_Weyl_down4_onshell_coherent_noshift` holds at `exKM`. -/
example : CurvHyp exKM C04.exKasT ∧ MainardiCached exKM ∧ EBCached exKM ∧ (∀ i, exKM.betaup3 i = 0)
    ∧ exKM.st_Ricci_down3 = st_Ricci_down3__dflt exKM ∧ exKM.st_Riemann_down4 = st_Riemann_down4__dflt_matter exKM
    ∧ exKM.st_Ricci_down4 = st_Ricci_down4__Tdown4 exKM ∧ exKM.Ttrace = Ttrace__Tdown4 exKM
    ∧ exKM.st_RicciS = st_RicciS exKM ∧ OnShell exKM C04.exKasT
    ∧ exKM.Stressdown3_n = Stressdown3_n exKM ∧ exKM.Stressup3_n = Stressup3_n exKM
    ∧ exKM.eweyl_n_down3 = eweyl_n_down3__dflt_matter exKM :=
  ⟨exKM_hyp, exKM_cached, exKM_eb, fun _ => rfl, exKM_R3, exKM_Rd, exKM_R4, rfl, exKM_RS, exKM_onshell, rfl, rfl,
    exKM_Ec⟩


/-! the abstract theorems (`weyl_zero_of_parts`, `weyl_unique_of_parts`, `weyl_is_weylEB_of_parts`, `weylOfCached_eq_alt2`,
`weyl_alt1_electric_vacuum`, `weyl_constructions_agree[_vacuum]`, `riemCached_of_textbook`, `admInputs_of_riemCached`):
their hypotheses hold for the Weyl expression of the cached Riemann tensor at the points above. -/

theorem exKV_riem : RiemCached exKV :=
  riemCached_of_textbook exKV C04.exKasT exKV_hyp exKV_cached exKV_eb.hnu (by
    funext p q r s; rw [exKV_Rd]
    exact C04.st_Riemann_down4_is_riemann_vacuum exKV C04.exKasT exKV_hyp exKV_cached
      (fun i j => C01Coherence.exKas_ricci_full i.succ j.succ) p q r s)

theorem exKV_frame : FrameCached exKV :=
  ⟨exKV_hyp.lc, exKV_hyp.asm, exKV_riem.gup, exKV_eb.hnu, exKV_eb.hnd, exKV_eb.hdet, exKV_eb.hsq, exKV_hyp.hgd,
    exKV_hyp.hdet⟩

/-- a NON-ZERO tensor with the Riemann symmetries and vanishing trace in the adapted frame of the Kasner point (lapse 1,
`γ⁻¹ = 1`, `det γ⁻¹ = 1 ≠ 0`, scale `√(−g) = 1 ≠ 0`): the Weyl expression of the cached Riemann tensor (`W_{x t x t} = 2/9`). -/
example : FrameCached exKV ∧ RiemannSym (weylOfCached exKV)
    ∧ (∀ b d, ∑ a, ∑ c, exKV.gup4 a c * weylOfCached exKV a b c d = 0)
    ∧ (∀ b d, ∑ a, ∑ c, (jetOf exKV).gup3p1 a c * weylOfCached exKV a b c d = 0)
    ∧ (jetOf exKV).alpha ≠ 0 ∧ (2 : ℚ) ≠ 0 ∧ (∀ i j, (jetOf exKV).gamup i j = (jetOf exKV).gamup j i)
    ∧ det3 (jetOf exKV).gamup ≠ 0 ∧ exKV.sqrtF (-exKV.gdet) ≠ 0 ∧ (3 : ℚ) ≠ 0 :=
  ⟨exKV_frame, exKV_riem.blocks.weylSym, by rw [exKV_riem.gup]; exact exKV_riem.blocks.weylTrace (by norm_num),
    exKV_riem.blocks.weylTrace (by norm_num), exKV_hyp.lc.ha, by norm_num, Jet.gamup_symm _ exKV_hyp.lc,
    det3_ne_zero_of_inv exKV.gammadown3 exKV.gammaup3 (fun a b => Jet.gam_mul_gamup (jetOf exKV) exKV_hyp.lc a b),
    exKV_frame.scale_ne, by norm_num⟩

example : st_Weyl_down4__st_Riemann_down4_vacuum exKV 1 0 1 0 = 2 / 9 := by
  rw [alt1_vacuum_spec, exKV_Rd, C04.st_Riemann_down4_betaup3_vacuum_spec]
  simp only [Spec.Curvature.populate, C04L.RststE, Spec.Curvature.mainardi, C04L.RssstE, Spec.Curvature.codazzi, RssssE,
    Spec.Curvature.gauss, C04L.KK4, Spec.Curvature.covdDD, Spec.Curvature.tsplit_0, Spec.Curvature.tsplit_1,
    Fin.sum_univ_three, Fin.sum_univ_four, exKV, C04.exKas, C04.exKas0, Env.zero, core_unfold]
  norm_num

/-- `RiemCached` / `WeylCached` at the matter point (hypotheses of `weyl_alt1_electric`, `weyl_alt1_magnetic[_layerB]`,
`weyl_constructions_agree`, `admInputs_of_riemCached`). -/
example : WeylCached exW ∧ RiemCached exW ∧ AdmInputs exW :=
  have C := weylCached_onshell exW C04.exT exW_hyp exW_cached exW_eb.hnu exW_R3 exW_Rd exW_R4 exW_Tt exW_RS exW_onshell
  ⟨C, C.toRiemCached, admInputs_of_riemCached exW C.toRiemCached exW_eb.hnd exW_eb.hdet exW_eb.hsq⟩

end AurelVerif.C10
