/-
Props/C06c.lean — property C06, "Einstein's equations ⇒ the constraints vanish", MODULO the Gauss and Codazzi
equations.

Setting.  `R4 a b c d` is ANY 4-index tensor (think: the covariant Riemann tensor of the 4-metric) that
  (S)  is antisymmetric in its first and in its last index pair,
  (G)  satisfies the GAUSS equation     `R4_ijkl = ³R_ijkl + K_ikK_jl − K_ilK_jk`            (`Spec.GC.GaussEq`),
  (C)  satisfies the CODAZZI equation   `R4_ijkσ n^σ = D_jK_ik − D_iK_jk`                    (`Spec.GC.CodazziEq`);
`G_μν` is the Einstein tensor built from `R4` with the cached inverse metric `gup4` (`Spec.GC.einstein4`), and
  (N)  `γ^{μν} = g^{μν} + n^μn^ν`, `g_μν n^μn^ν = −1`, `g_aν n^ν = 0` for spatial `a` (`NormalOK`; PROVEN for the
       code's own `gdown4`, `gup4`, `nup4`, `gammaup4` in `normalOK_of_code`).
(S), (G), (C) are hypotheses: that the Riemann tensor of the 4-metric has these properties is differential
geometry of the embedding of the slice and is NOT proven here.  `D_jK_ik` may be any table `DK`.

Proven, for every field, every input and every finite-difference operator:
  H1  `Hamiltonian = 2 (G_μν + Λ g_μν − κ T_μν) n^μ n^ν`   (matter branch; vacuum branch `= 2 G_μν n^μn^ν`),
      given `s_RicciS = γ^{jl}γ^{ik} ³R_ijkl` (the Ricci scalar is the double contraction of the SAME `³R_ijkl`).
  H2  Einstein's equations `G_μν + Λ g_μν = κ T_μν`  ⟹  `Hamiltonian = 0`.
  M1  `Momentumup3^i = −γ^{iμ} (G_μν + Λ g_μν − κ T_μν) n^ν`  (matter; vacuum `= −γ^{iμ}G_μν n^ν`),
      given (`hdiv`) that the divergence the code takes, `D_j(K^ij − γ^ijK)`, equals `γ^{ia}γ^{jb}(D_jK_ab − D_aK_jb)`;
  M2  Einstein's equations ⟹ `Momentumup3 = 0`.
  M3  (Layer B) `hdiv` itself, from `D_cγ^{ab} = 0` (C05.metric_compat_uu) and the product rule for `e.D`.
  Codazzi in the coordinate form of Shibata (2.41) (the form core.py uses for `R_ijkt`) implies (C).
-/
import AurelVerif.Props.C06
import AurelVerif.Lemmas.C06Mom
import AurelVerif.Lemmas.C04Gup

set_option linter.unusedSimpArgs false
set_option linter.unusedVariables false

namespace AurelVerif.C06
open AurelVerif.Gen.Core AurelVerif.Tensor AurelVerif.CoreTac AurelVerif.C08 AurelVerif.Spec.Covd AurelVerif.Spec
open AurelVerif.Spec.GC

variable {K : Type} [Field K]

/-- (N): the cached normal, projector and 4-metric fit together. -/
structure NormalOK (e : Env K) : Prop where
  proj : ∀ μ ν, e.gammaup4 μ ν = e.gup4 μ ν + e.nup4 μ * e.nup4 ν
  time : ∀ μ, e.gammaup4 0 μ = 0 ∧ e.gammaup4 μ 0 = 0
  space : ∀ i j : Fin 3, e.gammaup4 i.succ j.succ = e.gammaup3 i j
  unit : ADM.rhoN e.gdown4 e.nup4 = -1
  low : ∀ a : Fin 3, ∑ ν, e.gdown4 a.succ ν * e.nup4 ν = 0

/-- (S)+(G)+(C) for a tensor `R4`. -/
structure GaussCodazzi (e : Env K) (R4 : Fin 4 → Fin 4 → Fin 4 → Fin 4 → K)
    (R3 : Fin 3 → Fin 3 → Fin 3 → Fin 3 → K) (DK : Fin 3 → Fin 3 → Fin 3 → K) : Prop where
  a12 : ∀ a b c d, R4 a b c d = -R4 b a c d
  a34 : ∀ a b c d, R4 a b c d = -R4 a b d c
  gauss : GaussEq R4 R3 e.Kdown3
  codazzi : CodazziEq R4 e.nup4 DK

/-! ### (N) holds for the code's own formulas -/

theorem nup4_succ (e : Env K) (i : Fin 3) : nup4 e i.succ = -e.betaup3 i / e.alpha := by
  revert i; cases3 <;> rfl

theorem gammaup4_succ (e : Env K) (i j : Fin 3) : gammaup4 e i.succ j.succ = e.gammaup3 i j := by
  revert i j; cases3 <;> cases3 <;> rfl

/-- **(N) for the code**: entries produced by the code's own formulas from `α ≠ 0`, `β^i`, symmetric `γ_ij` with
`det γ ≠ 0`. -/
theorem normalOK_of_code (e : Env K) (h : Assembled e) (hgd : e.gammadet = gammadet e) (hu : e.gammaup3 = gammaup3 e)
    (ha : e.alpha ≠ 0) (hdet : gammadet e ≠ 0) (hgup : e.gup4 = gup4 e) (hn : e.nup4 = nup4 e)
    (hγ : e.gammaup4 = gammaup4 e) : NormalOK e := by
  have hg := C04L.gup4_3p1 e h hgd hu ha hdet
  refine ⟨?_, ?_, ?_, ?_, ?_⟩
  · rw [hγ, hgup, hn]
    intro μ ν
    rw [C04L.gup4_eq_U3p1 e h hgd hu ha hdet]
    revert μ ν
    cases4 <;> cases4 <;>
      (simp only [C04L.U3p1, Curvature.tsplit_0, Curvature.tsplit_1, Curvature.tsplit_2, Curvature.tsplit_3,
         core_unfold]
       try field_simp
       try ring)
  · rw [hγ]; exact gammaup4_time e
  · rw [hγ]; exact gammaup4_succ e
  · rw [hn]; simp only [ADM.rhoN]; exact normal_unit e h ha
  · intro a
    rw [hn, ← ndown_is_lowered e h ha a.succ]
    revert a; cases3 <;> rfl

/-! ### linearity of the two projections -/

theorem rhoN_einstein_eq (G g T : Fin 4 → Fin 4 → K) (n : Fin 4 → K) (Λ κ : K) (hE : EinsteinEq G g T Λ κ) :
    ADM.rhoN G n + Λ * ADM.rhoN g n - κ * ADM.rhoN T n = 0 := by
  have h : ∀ a b, G a b * n a * n b = κ * (T a b * n a * n b) - Λ * (g a b * n a * n b) := by
    intro a b; linear_combination (n a * n b) * hE a b
  simp only [ADM.rhoN, h, Finset.sum_sub_distrib, ← Finset.mul_sum]
  ring

theorem fluxN_einstein_eq (γ4 G g T : Fin 4 → Fin 4 → K) (n : Fin 4 → K) (Λ κ : K) (hE : EinsteinEq G g T Λ κ)
    (i : Fin 3) : ADM.fluxN γ4 G n i + Λ * ADM.fluxN γ4 g n i - κ * ADM.fluxN γ4 T n i = 0 := by
  have h : ∀ μ ν, γ4 i.succ μ * G μ ν * n ν = κ * (γ4 i.succ μ * T μ ν * n ν) - Λ * (γ4 i.succ μ * g μ ν * n ν) := by
    intro μ ν; linear_combination (γ4 i.succ μ * n ν) * hE μ ν
  simp only [ADM.fluxN, h, Finset.sum_sub_distrib, ← Finset.mul_sum]
  ring

/-- `−γ^{iμ} S_μν n^ν = −γ^{ia} S_aν n^ν` (vanishing time column of the projector). -/
theorem fluxN_spatial (e : Env K) (hN : NormalOK e) (S : Fin 4 → Fin 4 → K) (i : Fin 3) :
    ADM.fluxN e.gammaup4 S e.nup4 i = -∑ a, e.gammaup3 i a * ∑ ν, S a.succ ν * e.nup4 ν := by
  simp only [ADM.fluxN]
  rw [Fin.sum_univ_succ (n := 3)]
  simp only [(hN.time _).2, hN.space, zero_mul, Finset.sum_const_zero, zero_add, Finset.mul_sum, mul_assoc]

/-- the hypothesis `hR` of H1/H2 holds BY CONSTRUCTION when the code's Ricci tensor is the contraction of the cached
`s_Riemann_down3` (the alternative core.py takes when `s_Riemann_down3` is present): `s_RicciS = γ^{jl}γ^{ik} ³R_ijkl` with
`³R_ijkl := s_Riemann_down3`.  (For the default alternative, `C05.s_Ricci_down3_alt_spec` shows both alternatives agree
when `γ^{ic}γ_{ai} = δ`.) -/
theorem s_RicciS_is_double_contraction (e : Env K) (hS : e.s_RicciS = s_RicciS e)
    (hRic : e.s_Ricci_down3 = s_Ricci_down3__s_Riemann_down3 e) :
    e.s_RicciS = ricciS3 e.gammaup3 e.s_Riemann_down3 := by
  rw [hS]
  simp only [hRic, core_unfold, ricciS3, Fin.sum_univ_three]
  ring

/-! ## H1, H2: the Hamiltonian constraint -/

/-- **H1  `Hamiltonian = 2 (G_μν + Λ g_μν − κ T_μν) n^μ n^ν`** (contracted Gauss equation); vacuum branch `2 G_μν n^μn^ν`. -/
theorem Hamiltonian_eq_Gnn (e : Env K) (R4 : Fin 4 → Fin 4 → Fin 4 → Fin 4 → K)
    (R3 : Fin 3 → Fin 3 → Fin 3 → Fin 3 → K) (DK : Fin 3 → Fin 3 → Fin 3 → K) (h2 : (2 : K) ≠ 0)
    (hN : NormalOK e) (hGC : GaussCodazzi e R4 R3 DK)
    (hsymU : Sym e.gammaup3) (hsymK : Sym e.Kdown3) (hKup : e.Kup3 = Kup3 e) (hKt : e.Ktrace = Ktrace e)
    (hR : e.s_RicciS = ricciS3 e.gammaup3 R3) (hρ : e.rho_n = rho_n e) :
    Hamiltonian__dflt_matter e
        = 2 * (ADM.rhoN (einstein4 e.gup4 e.gdown4 R4) e.nup4 + e.Lambda * ADM.rhoN e.gdown4 e.nup4
              - e.kappa * ADM.rhoN e.Tdown4 e.nup4)
    ∧ Hamiltonian__dflt_vacuum e = 2 * ADM.rhoN (einstein4 e.gup4 e.gdown4 R4) e.nup4 := by
  have hKu : ∀ a b, e.Kup3 a b = ∑ i, ∑ j, e.gammaup3 i a * e.gammaup3 j b * e.Kdown3 i j := by
    intro a b; rw [hKup]; exact Kup3_spec e a b
  have hT : e.Ktrace = ∑ i, ∑ j, e.gammaup3 i j * e.Kdown3 i j := by rw [hKt]; exact Ktrace_spec e
  have hg := C06Gauss.contracted_gauss R4 e.gup4 e.gdown4 e.gammaup4 e.nup4 e.gammaup3 e.Kdown3 R3 h2 hGC.a12 hGC.a34
    hN.proj hN.time hN.space hN.unit hGC.gauss
  rw [C06Gauss.gauss_scalar e.gammaup3 e.Kdown3 e.Kup3 R3 e.Ktrace hsymU hsymK hKu hT, ← hR] at hg
  have hv : Hamiltonian__dflt_vacuum e = 2 * ADM.rhoN (einstein4 e.gup4 e.gdown4 R4) e.nup4 := by
    rw [(Hamiltonian_spec e).2, hg, ADM.hamiltonianVac]
  refine ⟨?_, hv⟩
  rw [Hamiltonian_matter_vs_vacuum, hv, hN.unit, hρ, rho_n_spec]
  ring

/-- **H2  Einstein's equations ⟹ the Hamiltonian constraint vanishes** (modulo Gauss). -/
theorem Hamiltonian_zero_of_einstein (e : Env K) (R4 : Fin 4 → Fin 4 → Fin 4 → Fin 4 → K)
    (R3 : Fin 3 → Fin 3 → Fin 3 → Fin 3 → K) (DK : Fin 3 → Fin 3 → Fin 3 → K) (h2 : (2 : K) ≠ 0)
    (hN : NormalOK e) (hGC : GaussCodazzi e R4 R3 DK)
    (hsymU : Sym e.gammaup3) (hsymK : Sym e.Kdown3) (hKup : e.Kup3 = Kup3 e) (hKt : e.Ktrace = Ktrace e)
    (hR : e.s_RicciS = ricciS3 e.gammaup3 R3) (hρ : e.rho_n = rho_n e)
    (hE : EinsteinEq (einstein4 e.gup4 e.gdown4 R4) e.gdown4 e.Tdown4 e.Lambda e.kappa) :
    Hamiltonian__dflt_matter e = 0 := by
  rw [(Hamiltonian_eq_Gnn e R4 R3 DK h2 hN hGC hsymU hsymK hKup hKt hR hρ).1,
    rhoN_einstein_eq _ _ _ _ _ _ hE, mul_zero]

/-- vacuum branch: `G_μν = 0` ⟹ `Hamiltonian = 0`. -/
theorem Hamiltonian_vacuum_zero_of_einstein (e : Env K) (R4 : Fin 4 → Fin 4 → Fin 4 → Fin 4 → K)
    (R3 : Fin 3 → Fin 3 → Fin 3 → Fin 3 → K) (DK : Fin 3 → Fin 3 → Fin 3 → K) (h2 : (2 : K) ≠ 0)
    (hN : NormalOK e) (hGC : GaussCodazzi e R4 R3 DK)
    (hsymU : Sym e.gammaup3) (hsymK : Sym e.Kdown3) (hKup : e.Kup3 = Kup3 e) (hKt : e.Ktrace = Ktrace e)
    (hR : e.s_RicciS = ricciS3 e.gammaup3 R3) (hρ : e.rho_n = rho_n e)
    (hE : ∀ μ ν, einstein4 e.gup4 e.gdown4 R4 μ ν = 0) :
    Hamiltonian__dflt_vacuum e = 0 := by
  rw [(Hamiltonian_eq_Gnn e R4 R3 DK h2 hN hGC hsymU hsymK hKup hKt hR hρ).2]
  simp only [ADM.rhoN, hE, zero_mul, Finset.sum_const_zero, mul_zero]

/-! ## M1, M2: the momentum constraint -/

/-- **M1  `Momentumup3^i = −γ^{iμ}(G_μν + Λ g_μν − κ T_μν) n^ν`** (contracted Codazzi equation); vacuum branch
`−γ^{iμ}G_μν n^ν`.  `hdiv`: the divergence the code takes equals the raised lowered form (M3 derives it). -/
theorem Momentumup3_eq_Gni (e : Env K) (R4 : Fin 4 → Fin 4 → Fin 4 → Fin 4 → K)
    (R3 : Fin 3 → Fin 3 → Fin 3 → Fin 3 → K) (DK : Fin 3 → Fin 3 → Fin 3 → K) (h2 : (2 : K) ≠ 0)
    (hN : NormalOK e) (hGC : GaussCodazzi e R4 R3 DK) (hS : e.fluxup3_n = fluxup3_n e)
    (hdiv : ∀ i, ADM.momentumVac e.D e.s_Gamma_udd3 e.Kup3 e.gammaup3 e.Ktrace i
        = ∑ a, e.gammaup3 i a * momLow e.gammaup3 DK a)
    (i : Fin 3) :
    Momentumup3__dflt_matter e i
        = ADM.fluxN e.gammaup4 (einstein4 e.gup4 e.gdown4 R4) e.nup4 i
          + e.Lambda * ADM.fluxN e.gammaup4 e.gdown4 e.nup4 i - e.kappa * ADM.fluxN e.gammaup4 e.Tdown4 e.nup4 i
    ∧ Momentumup3__dflt_vacuum e i = ADM.fluxN e.gammaup4 (einstein4 e.gup4 e.gdown4 R4) e.nup4 i := by
  have hc := C06Gauss.contracted_codazzi R4 e.gup4 e.gdown4 e.gammaup4 e.nup4 e.gammaup3 DK h2 hGC.a12 hGC.a34
    hN.proj hN.time hN.space hN.low hGC.codazzi
  have hv : Momentumup3__dflt_vacuum e i = ADM.fluxN e.gammaup4 (einstein4 e.gup4 e.gdown4 R4) e.nup4 i := by
    rw [(Momentumup3_spec e i).2, hdiv i, fluxN_spatial e hN]
    simp only [hc, mul_neg, Finset.sum_neg_distrib, neg_neg]
  refine ⟨?_, hv⟩
  have hg0 : ADM.fluxN e.gammaup4 e.gdown4 e.nup4 i = 0 := by
    rw [fluxN_spatial e hN]; simp only [hN.low, mul_zero, Finset.sum_const_zero, neg_zero]
  rw [Momentumup3_matter_vs_vacuum, hv, hg0, hS, fluxup3_n_spec]
  ring

/-- **M2  Einstein's equations ⟹ the momentum constraint vanishes** (modulo Codazzi and `hdiv`). -/
theorem Momentumup3_zero_of_einstein (e : Env K) (R4 : Fin 4 → Fin 4 → Fin 4 → Fin 4 → K)
    (R3 : Fin 3 → Fin 3 → Fin 3 → Fin 3 → K) (DK : Fin 3 → Fin 3 → Fin 3 → K) (h2 : (2 : K) ≠ 0)
    (hN : NormalOK e) (hGC : GaussCodazzi e R4 R3 DK) (hS : e.fluxup3_n = fluxup3_n e)
    (hdiv : ∀ i, ADM.momentumVac e.D e.s_Gamma_udd3 e.Kup3 e.gammaup3 e.Ktrace i
        = ∑ a, e.gammaup3 i a * momLow e.gammaup3 DK a)
    (hE : EinsteinEq (einstein4 e.gup4 e.gdown4 R4) e.gdown4 e.Tdown4 e.Lambda e.kappa) (i : Fin 3) :
    Momentumup3__dflt_matter e i = 0 := by
  rw [(Momentumup3_eq_Gni e R4 R3 DK h2 hN hGC hS hdiv i).1]
  exact fluxN_einstein_eq _ _ _ _ _ _ _ hE i

/-- vacuum branch: `G_μν = 0` ⟹ `Momentumup3 = 0`. -/
theorem Momentumup3_vacuum_zero_of_einstein (e : Env K) (R4 : Fin 4 → Fin 4 → Fin 4 → Fin 4 → K)
    (R3 : Fin 3 → Fin 3 → Fin 3 → Fin 3 → K) (DK : Fin 3 → Fin 3 → Fin 3 → K) (h2 : (2 : K) ≠ 0)
    (hN : NormalOK e) (hGC : GaussCodazzi e R4 R3 DK) (hS : e.fluxup3_n = fluxup3_n e)
    (hdiv : ∀ i, ADM.momentumVac e.D e.s_Gamma_udd3 e.Kup3 e.gammaup3 e.Ktrace i
        = ∑ a, e.gammaup3 i a * momLow e.gammaup3 DK a)
    (hE : ∀ μ ν, einstein4 e.gup4 e.gdown4 R4 μ ν = 0) (i : Fin 3) :
    Momentumup3__dflt_vacuum e i = 0 := by
  rw [(Momentumup3_eq_Gni e R4 R3 DK h2 hN hGC hS hdiv i).2]
  simp only [ADM.fluxN, hE, mul_zero, zero_mul, Finset.sum_const_zero, neg_zero]

/-! ## M3 (Layer B): the divergence the code takes is the raised lowered form -/

/-- **M3**: if `D_cγ^{ab} = 0` for the cached connection (C05.metric_compat_uu) and `e.D` is additive and obeys the
product rule, then `D_j(K^ij − γ^ijK) = γ^{ia}γ^{jb}(D_jK_ab − D_aK_jb)` with `D_cK_ab` the covariant derivative
`∂_cK_ab − Γ^m_{ca}K_mb − Γ^m_{cb}K_am` of the cached `Kdown3`.  (Continuum statement: the finite-difference operators
do not obey the product rule.) -/
theorem momentum_div_lowered (e : Env K) (hD : ∀ s, C06Deriv.Deriv (e.D s)) (hsymU : Sym e.gammaup3)
    (hKup : e.Kup3 = Kup3 e) (hKt : e.Ktrace = Ktrace e)
    (hcompat : ∀ c a b, covdUU e.s_Gamma_udd3 (pd2 e.D e.gammaup3) e.gammaup3 c a b = 0) (i : Fin 3) :
    ADM.momentumVac e.D e.s_Gamma_udd3 e.Kup3 e.gammaup3 e.Ktrace i
      = ∑ a, e.gammaup3 i a * momLow e.gammaup3 (covdDD e.s_Gamma_udd3 (pd2 e.D e.Kdown3) e.Kdown3) a := by
  have hKu : ∀ a b, e.Kup3 a b = ∑ i, ∑ j, e.gammaup3 i a * e.gammaup3 j b * e.Kdown3 i j := by
    intro a b; rw [hKup]; exact Kup3_spec e a b
  have hT : e.Ktrace = ∑ i, ∑ j, e.gammaup3 i j * e.Kdown3 i j := by rw [hKt]; exact Ktrace_spec e
  refine C06Gauss.mom_div_lowered e.s_Gamma_udd3 e.gammaup3 e.Kdown3 e.Kup3 (pd2 e.D e.gammaup3) (pd2 e.D e.Kdown3)
    (pd2 e.D (ADM.momTensor e.Kup3 e.gammaup3 e.Ktrace)) e.Ktrace hsymU hKu hT hcompat (fun c a b => ?_) i
  have h := hD c
  simp only [pd2, ADM.momTensor]
  rw [h.sub, h.mul, hKu a b]
  rw [hT]
  simp only [Fin.sum_univ_three, h.add, h.mul]
  ring

/-! ## H2 + M2 + M3 with (N) discharged: everything about the code's own entries is proven, what remains assumed
is (S), (G), (C) for `R4`, `D_cγ^{ab} = 0`, the product rule for `e.D`, and `s_RicciS = γγ³R`. -/

/-- **Einstein's equations ⟹ both constraints vanish**, for entries produced by the code's own formulas from
`α ≠ 0`, `β^i`, symmetric `γ_ij` (`det γ ≠ 0`), symmetric `K_ij`; `R4` any tensor with (S), (G), (C) where `D_cK_ab` is
the covariant derivative of the cached `Kdown3` with the cached connection. -/
theorem constraints_zero_of_einstein (e : Env K) (R4 : Fin 4 → Fin 4 → Fin 4 → Fin 4 → K)
    (R3 : Fin 3 → Fin 3 → Fin 3 → Fin 3 → K) (h2 : (2 : K) ≠ 0)
    (h : Assembled e) (hgd : e.gammadet = gammadet e) (hu : e.gammaup3 = gammaup3 e)
    (ha : e.alpha ≠ 0) (hdet : gammadet e ≠ 0) (hgup : e.gup4 = gup4 e) (hn : e.nup4 = nup4 e)
    (hγ : e.gammaup4 = gammaup4 e)
    (hGC : GaussCodazzi e R4 R3 (covdDD e.s_Gamma_udd3 (pd2 e.D e.Kdown3) e.Kdown3))
    (hD : ∀ s, C06Deriv.Deriv (e.D s))
    (hcompat : ∀ c a b, covdUU e.s_Gamma_udd3 (pd2 e.D e.gammaup3) e.gammaup3 c a b = 0)
    (hsymK : Sym e.Kdown3) (hKup : e.Kup3 = Kup3 e) (hKt : e.Ktrace = Ktrace e)
    (hR : e.s_RicciS = ricciS3 e.gammaup3 R3) (hρ : e.rho_n = rho_n e) (hS : e.fluxup3_n = fluxup3_n e)
    (hE : EinsteinEq (einstein4 e.gup4 e.gdown4 R4) e.gdown4 e.Tdown4 e.Lambda e.kappa) :
    Hamiltonian__dflt_matter e = 0 ∧ ∀ i, Momentumup3__dflt_matter e i = 0 := by
  have hN := normalOK_of_code e h hgd hu ha hdet hgup hn hγ
  have hsymU : Sym e.gammaup3 := by rw [hu, gammaup3_is_inverse]; exact inverse3_symm e e.gammadown3 h.hsym
  exact ⟨Hamiltonian_zero_of_einstein e R4 R3 _ h2 hN hGC hsymU hsymK hKup hKt hR hρ hE,
    fun i => Momentumup3_zero_of_einstein e R4 R3 _ h2 hN hGC hS
      (fun i => momentum_div_lowered e hD hsymU hKup hKt hcompat i) hE i⟩

/-! ## Non-vacuity

FLRW point of Props/C06.lean (`a = 2`, `ȧ = 3`, `α = 1`, `β = 0`, `γ_ij = 4δ_ij`, `K_ij = −6δ_ij`, `κ = 2`, `Λ = 3/4`,
`ρ = 3`, flat slices `³R_ijkl = 0`).  4-metric `diag(−1,4,4,4)`, `n^μ = (1,0,0,0)`.  The 4-Riemann tensor of FLRW in
these coordinates: `R_ijkl = ȧ²a²(δ_ikδ_jl − δ_ilδ_jk) = 36(…)`, `R_0i0j = −a ä δ_ij`; the matter of `exFLRW`
(`ρ = 3`, `S_ij = γ_ij`, i.e. `p = 1`) fixes `ä/a = −(κ/6)(ρ + 3p) + Λ/3 = −7/4`, `ä = −7/2`:
`R_0i0j = 7δ_ij`, `R_00 = −3ä/a = 21/4`, `R_ij = (aä + 2ȧ²)δ_ij = 11δ_ij`, `R = 6(ä/a + ȧ²/a²) = 3`,
`G_00 = 27/4 = κρ + Λ`, `G_ij = 5δ_ij = κT_ij − Λγ_ij` with `T_μν = diag(3,4,4,4)`: ALL of Einstein's equations hold,
and both sides of H1 are 0 with every term non-zero. -/
def sδ : Fin 4 → Fin 4 → ℚ := vec4 (vec4 0 0 0 0) (vec4 0 1 0 0) (vec4 0 0 1 0) (vec4 0 0 0 1)
def tδ : Fin 4 → Fin 4 → ℚ := vec4 (vec4 1 0 0 0) (vec4 0 0 0 0) (vec4 0 0 0 0) (vec4 0 0 0 0)
/-- `36 (s_ac s_bd − s_ad s_bc) + 7 (t_ac s_bd + s_ac t_bd − t_ad s_bc − s_ad t_bc)`. -/
def exR4 (a b c d : Fin 4) : ℚ :=
  36 * (sδ a c * sδ b d - sδ a d * sδ b c)
  + 7 * (tδ a c * sδ b d + sδ a c * tδ b d - tδ a d * sδ b c - sδ a d * tδ b c)

def exGC : Env ℚ :=
  { exFLRW with
    nup4 := vec4 1 0 0 0, gtt := -1, gammadet := 64,
    gdown4 := vec4 (vec4 (-1) 0 0 0) (vec4 0 4 0 0) (vec4 0 0 4 0) (vec4 0 0 0 4),
    gup4 := vec4 (vec4 (-1) 0 0 0) (vec4 0 (1 / 4) 0 0) (vec4 0 0 (1 / 4) 0) (vec4 0 0 0 (1 / 4)),
    gammaup4 := vec4 (vec4 0 0 0 0) (vec4 0 (1 / 4) 0 0) (vec4 0 0 (1 / 4) 0) (vec4 0 0 0 (1 / 4)),
    Tdown4 := vec4 (vec4 3 0 0 0) (vec4 0 4 0 0) (vec4 0 0 4 0) (vec4 0 0 0 4) }

theorem exGC_normalOK : NormalOK exGC := by
  refine ⟨?_, ?_, ?_, ?_, ?_⟩
  · cases4 <;> cases4 <;> (simp only [exGC, core_unfold]; norm_num)
  · cases4 <;> (constructor <;> simp only [exGC, core_unfold])
  · cases3 <;> cases3 <;> (simp only [exGC, exFLRW, core_unfold])
  · simp only [ADM.rhoN, exGC, Fin.sum_univ_four, core_unfold]; norm_num
  · cases3 <;> (simp only [exGC, Fin.sum_univ_four, core_unfold]; norm_num)

theorem exGC_gaussCodazzi : GaussCodazzi exGC exR4 (fun _ _ _ _ => 0) (fun _ _ _ => 0) := by
  refine ⟨?_, ?_, ?_, ?_⟩
  · intro a b c d; simp only [exR4]; ring
  · intro a b c d; simp only [exR4]; ring
  · intro i j k l
    revert i j k l
    cases3 <;> cases3 <;> cases3 <;> cases3 <;>
      (simp only [exR4, sδ, tδ, Curvature.gauss, exGC, exFLRW, core_unfold]; norm_num)
  · intro i j k
    revert i j k
    cases3 <;> cases3 <;> cases3 <;>
      (simp only [exR4, sδ, tδ, exGC, Fin.sum_univ_four, core_unfold]; norm_num)

/-- Ricci tensor, Ricci scalar and Einstein tensor of `exR4`: `R_μν = diag(21/4, 11, 11, 11)`, `R = 3`,
`G_μν = diag(27/4, 5, 5, 5)`. -/
theorem exGC_ricci (b d : Fin 4) : ricci4 exGC.gup4 exR4 b d
    = (vec4 (vec4 (21 / 4) 0 0 0) (vec4 0 11 0 0) (vec4 0 0 11 0) (vec4 0 0 0 11) : Fin 4 → Fin 4 → ℚ) b d := by
  revert b d
  cases4 <;> cases4 <;>
    (simp only [ricci4, exR4, sδ, tδ, exGC, Fin.sum_univ_four, core_unfold]; norm_num)

theorem exGC_ricciS : ricciS4 exGC.gup4 exR4 = 3 := by
  simp only [ricciS4, Curvature.trace, exGC_ricci, Fin.sum_univ_four]
  simp only [exGC, core_unfold]; norm_num

theorem exGC_einstein (a b : Fin 4) : einstein4 exGC.gup4 exGC.gdown4 exR4 a b
    = (vec4 (vec4 (27 / 4) 0 0 0) (vec4 0 5 0 0) (vec4 0 0 5 0) (vec4 0 0 0 5) : Fin 4 → Fin 4 → ℚ) a b := by
  simp only [einstein4, Curvature.einstein, exGC_ricci, exGC_ricciS]
  revert a b
  cases4 <;> cases4 <;> (simp only [exGC, core_unfold]; norm_num)

/-- all hypotheses of H1/H2 hold at the FLRW point; `G_00 = 27/4`, `2(G_nn + Λ g_nn − κ T_nn) = 2(27/4 − 3/4 − 6) = 0`,
and the Hamiltonian constraint of the code evaluates to `0 = 0 + 81/4 − 27/4 − 12 − 3/2`. -/
example : NormalOK exGC ∧ GaussCodazzi exGC exR4 (fun _ _ _ _ => 0) (fun _ _ _ => 0)
    ∧ Sym exGC.gammaup3 ∧ Sym exGC.Kdown3 ∧ exGC.Kup3 = Kup3 exGC ∧ exGC.Ktrace = Ktrace exGC
    ∧ exGC.s_RicciS = ricciS3 exGC.gammaup3 (fun _ _ _ _ => 0) ∧ exGC.rho_n = rho_n exGC
    ∧ EinsteinEq (einstein4 exGC.gup4 exGC.gdown4 exR4) exGC.gdown4 exGC.Tdown4 exGC.Lambda exGC.kappa
    ∧ einstein4 exGC.gup4 exGC.gdown4 exR4 0 0 = 27 / 4
    ∧ ADM.rhoN (einstein4 exGC.gup4 exGC.gdown4 exR4) exGC.nup4 = 27 / 4
    ∧ Hamiltonian__dflt_matter exGC = 0 := by
  refine ⟨exGC_normalOK, exGC_gaussCodazzi, ?_, ?_, ?_, ?_, ?_, ?_, ?_, ?_, ?_, ?_⟩
  · cases3 <;> cases3 <;> (simp only [exGC, exFLRW, core_unfold])
  · cases3 <;> cases3 <;> (simp only [exGC, exFLRW, core_unfold])
  · funext a b; revert a b; cases3 <;> cases3 <;> (simp only [exGC, exFLRW, core_unfold]; norm_num)
  · simp only [exGC, exFLRW, Env.zero, core_unfold]; norm_num
  · simp only [ricciS3, exGC, exFLRW, Env.zero, mul_zero, Finset.sum_const_zero]
  · simp only [exGC, exFLRW, Env.zero, core_unfold]; norm_num
  · intro μ ν
    rw [exGC_einstein]
    revert μ ν
    cases4 <;> cases4 <;> (simp only [exGC, exFLRW, core_unfold]; norm_num)
  · rw [exGC_einstein]; simp only [core_unfold]
  · simp only [ADM.rhoN, exGC_einstein, Fin.sum_univ_four]
    simp only [exGC, core_unfold]; norm_num
  · simp only [exGC, exFLRW, Env.zero, core_unfold]; norm_num

/-- the momentum side at the same point: `hdiv` holds (homogeneous: both sides vanish), `fluxup3_n` is the code's
own value (Einstein's equations at this point: previous example). -/
example : exGC.fluxup3_n = fluxup3_n exGC
    ∧ (∀ i, ADM.momentumVac exGC.D exGC.s_Gamma_udd3 exGC.Kup3 exGC.gammaup3 exGC.Ktrace i
        = ∑ a, exGC.gammaup3 i a * momLow exGC.gammaup3 (fun _ _ _ => 0) a)
    ∧ (∀ a : Fin 3, einstein4 exGC.gup4 exGC.gdown4 exR4 a.succ 0 = 0) := by
  refine ⟨?_, ?_, ?_⟩
  · funext i; revert i
    cases3 <;> (simp only [exGC, exFLRW, Env.zero, Fin.sum_univ_four, core_unfold]; norm_num)
  · cases3 <;>
      (simp only [ADM.momentumVac, ADM.momTensor, covdUU, pd2, momLow, exGC, exFLRW, Env.zero, Fin.sum_univ_three,
        core_unfold]; norm_num)
  · intro a; rw [exGC_einstein]; revert a; cases3 <;> (simp only [core_unfold])

/-- the code-level hypotheses of `constraints_zero_of_einstein` hold at the same point (`Assembled`, the code's own
`gup4`, `nup4`, `gammaup4`, `gammaup3`, `det γ = 64`; homogeneous: `e.D = 0`, `Γ = 0`). -/
example : Assembled exGC ∧ exGC.gammadet = gammadet exGC ∧ exGC.gammaup3 = gammaup3 exGC ∧ exGC.alpha ≠ 0
    ∧ gammadet exGC ≠ 0 ∧ exGC.gup4 = gup4 exGC ∧ exGC.nup4 = nup4 exGC ∧ exGC.gammaup4 = gammaup4 exGC
    ∧ (∀ s, C06Deriv.Deriv (exGC.D s))
    ∧ (∀ c a b, covdUU exGC.s_Gamma_udd3 (pd2 exGC.D exGC.gammaup3) exGC.gammaup3 c a b = 0)
    ∧ GaussCodazzi exGC exR4 (fun _ _ _ _ => 0) (covdDD exGC.s_Gamma_udd3 (pd2 exGC.D exGC.Kdown3) exGC.Kdown3) := by
  refine ⟨⟨?_, ?_, ?_, ?_, ?_⟩, ?_, ?_, ?_, ?_, ?_, ?_, ?_, ?_, ?_, ?_⟩
  · funext i; revert i; cases3 <;> (simp only [exGC, exFLRW, Env.zero, core_unfold]; norm_num)
  · simp only [exGC, exFLRW, Env.zero, core_unfold]; norm_num
  · simp only [exGC, exFLRW, Env.zero, core_unfold]; norm_num
  · funext a b; revert a b; cases4 <;> cases4 <;> (simp only [exGC, exFLRW, Env.zero, core_unfold])
  · cases3 <;> cases3 <;> (simp only [exGC, exFLRW, core_unfold])
  · simp only [exGC, exFLRW, Env.zero, core_unfold]; norm_num
  · funext a b; revert a b; cases3 <;> cases3 <;> (simp only [exGC, exFLRW, Env.zero, core_unfold]; norm_num)
  · simp only [exGC, exFLRW, Env.zero, core_unfold]; norm_num
  · simp only [exGC, exFLRW, Env.zero, core_unfold]; norm_num
  · funext a b; revert a b; cases4 <;> cases4 <;> (simp only [exGC, exFLRW, Env.zero, core_unfold]; norm_num)
  · funext a; revert a; cases4 <;> (simp only [exGC, exFLRW, Env.zero, core_unfold]; norm_num)
  · funext a b; revert a b; cases4 <;> cases4 <;> (simp only [exGC, exFLRW, Env.zero, core_unfold])
  · intro s; exact ⟨fun _ _ => by simp only [exGC, exFLRW, Env.zero, add_zero],
      fun _ _ => by simp only [exGC, exFLRW, Env.zero, zero_mul, mul_zero, add_zero]⟩
  · intro c a b
    simp only [covdUU, pd2, exGC, exFLRW, Env.zero, zero_mul, Finset.sum_const_zero, add_zero]
  · have h := exGC_gaussCodazzi
    refine ⟨h.a12, h.a34, h.gauss, ?_⟩
    intro i j k
    rw [h.codazzi i j k]
    simp only [covdDD, pd2, exGC, exFLRW, Env.zero, zero_mul, Finset.sum_const_zero, sub_zero]

end AurelVerif.C06
