/-
Props/C07c.lean — C07, the analytic half: the operators are p-th order ACCURATE on smooth
fields (not only exact on polynomials of degree ≤ p).

  * `truncation_error`            generic (proven once from the moment conditions + Taylor's
                                  theorem with Lagrange remainder): for a stencil with
                                  `momentsOK st p`, `p ≥ 1`, and every f that is (p+1) times
                                  differentiable on an interval [a,b] containing the base point
                                  and all sample points, with |f^(p+1)| ≤ M there,
                                      |(1/h) Σ_k w_k f(x + k h) − f′(x)| ≤ C_st · M · |h|^p,
                                      C_st = Σ_k |w_k| |k|^(p+1) / (p+1)!   (`errConst`, Spec/FDAccuracy.lean)
                                  (`_contDiffOn`, `_contDiff`: the same for C^(p+1) functions, f′ = derivWithin / deriv)
  * `truncation_constants`        the twelve constants, evaluated by the kernel on the tables
                                  regenerated from finitedifference.py (a changed coefficient
                                  changes the constant or breaks `stencil_tables_ok`)
  * `table_truncation_error`      the bound for each of the twelve generated tables
  * `onesided_accurate_everywhere`  'no boundary' mode: EVERY grid point of a line of N ≥ 3p/2
                                  points, the points next to the edges included (sharp per-point
                                  constant; `onesided_accurate_contDiffOn`: one constant per order,
                                  2: 1, 4: 17/3, 6: 647/15, 8: 118717/315)
  * `periodic_accurate_everywhere`  periodic mode, field of period N·h, N ≥ p/2
                                  (constants 2: 1/6, 4: 1/18, 6: 47/2100, 8: 1957/198450)
  * `symmetric_accurate_everywhere` symmetric mode, field even about the first and the last
                                  grid point, N ≥ p/2 + 1 (same constants)
  * `order_add/sub/mul/div`, `order_expr`  error propagation: sums, products, safe quotients —
                                  and any rational expression — of O(h^p)-accurate quantities
                                  are O(h^p)-accurate (explicit constants).

A "derivative chain" `DerivChain F n S` (Lemmas/C07Taylor.lean) says `F (j+1)` is the
derivative of `F j` within `S` for `j ≤ n`; `F 0 = f`, `F 1 = f′`.  It is WEAKER than
`f ∈ C^(n+1)(S)` (no continuity of the top derivative is needed), so the chain theorems are
the strongest; the `contDiff` versions are corollaries.

NOT covered (stated, not proven): nested differences — a second derivative obtained as
D(D f) (as aurel does for the Christoffel derivatives / Ricci tensor) differentiates the
O(h^p) error of the inner difference again; keeping the order needs the discrete
product/commutation estimates (the error of the inner operator is itself a smooth function
of the grid point only away from the stencil switches of the one-sided mode).  Round-off is
not modelled (exact reals).  The 3-D operators d3x/d3y/d3z act line by line (C07
`d3_natural`, axis exchange), so the 1-D statement applies to each grid line.
-/
import Mathlib.Analysis.SpecialFunctions.ExpDeriv
import Mathlib.Analysis.SpecialFunctions.Trigonometric.Deriv
import AurelVerif.Lemmas.C07AccuracySplice
import AurelVerif.Lemmas.C07Compose
import AurelVerif.Props.C07

namespace AurelVerif.C07
open Set AurelVerif.Splice AurelVerif.Gen.Stencils AurelVerif.StencilLemmas AurelVerif.SpliceLemmas
  AurelVerif.C07Taylor AurelVerif.C07Accuracy AurelVerif.C07Compose

/-- **A1** generic truncation-error bound (derivative-chain form, any `h ≠ 0`). -/
theorem truncation_error (st : Stencil) (p : ℕ) (hp : 1 ≤ p) (hm : momentsOK st p = true)
    (F : ℕ → ℝ → ℝ) (a b M : ℝ) (hF : DerivChain F p (Icc a b))
    (hM : ∀ t ∈ Icc a b, |F (p + 1) t| ≤ M)
    (x h : ℝ) (hh : h ≠ 0) (hx : x ∈ Icc a b) (hk : ∀ kc ∈ st, x + (kc.1 : ℝ) * h ∈ Icc a b) :
    |evalSt st (fun k => F 0 (x + (k : ℝ) * h)) * h⁻¹ - F 1 x|
      ≤ ((errConst st p : ℚ) : ℝ) * M * |h| ^ p :=
  truncation_of_moments st p hp hm F a b M hF hM x h hh hx hk

/-- **A1′** for `f ∈ C^(p+1)[a,b]`. -/
theorem truncation_error_contDiffOn (st : Stencil) (p : ℕ) (hp : 1 ≤ p) (hm : momentsOK st p = true)
    (f : ℝ → ℝ) (a b M : ℝ) (hab : a < b) (hf : ContDiffOn ℝ ((p + 1 : ℕ)) f (Icc a b))
    (hM : ∀ t ∈ Icc a b, |iteratedDerivWithin (p + 1) f (Icc a b) t| ≤ M)
    (x h : ℝ) (hh : h ≠ 0) (hx : x ∈ Icc a b) (hk : ∀ kc ∈ st, x + (kc.1 : ℝ) * h ∈ Icc a b) :
    |evalSt st (fun k => f (x + (k : ℝ) * h)) * h⁻¹ - derivWithin f (Icc a b) x|
      ≤ ((errConst st p : ℚ) : ℝ) * M * |h| ^ p :=
  truncation_contDiffOn st p hp hm f a b M hab hf hM x h hh hx hk

/-- **A1″** for a globally `C^(p+1)` function, `|f^(p+1)| ≤ M` on an interval containing the stencil. -/
theorem truncation_error_contDiff (st : Stencil) (p : ℕ) (hp : 1 ≤ p) (hm : momentsOK st p = true)
    (f : ℝ → ℝ) (a b M : ℝ) (hf : ContDiff ℝ ((p + 1 : ℕ)) f)
    (hM : ∀ t ∈ Icc a b, |iteratedDeriv (p + 1) f t| ≤ M)
    (x h : ℝ) (hh : h ≠ 0) (hx : x ∈ Icc a b) (hk : ∀ kc ∈ st, x + (kc.1 : ℝ) * h ∈ Icc a b) :
    |evalSt st (fun k => f (x + (k : ℝ) * h)) * h⁻¹ - deriv f x|
      ≤ ((errConst st p : ℚ) : ℝ) * M * |h| ^ p :=
  truncation_contDiff st p hp hm f a b M hf hM x h hh hx hk

/-- **A2** the constants `Σ|w_k||k|^(p+1)/(p+1)!` of the twelve generated tables (kernel-evaluated). -/
theorem truncation_constants :
    errConst fd2_forward 2 = 1 ∧ errConst fd2_centered 2 = 1 / 6 ∧ errConst fd2_backward 2 = 1 ∧
    errConst fd4_forward 4 = 17 / 3 ∧ errConst fd4_centered 4 = 1 / 18 ∧ errConst fd4_backward 4 = 17 / 3 ∧
    errConst fd6_forward 6 = 647 / 15 ∧ errConst fd6_centered 6 = 47 / 2100 ∧ errConst fd6_backward 6 = 647 / 15 ∧
    errConst fd8_forward 8 = 118717 / 315 ∧ errConst fd8_centered 8 = 1957 / 198450 ∧
    errConst fd8_backward 8 = 118717 / 315 :=
  errConst_table

/-- **A2′** the per-order constant valid at every grid point of the one-sided mode. -/
theorem scheme_truncation_constants :
    schemeErrConst (scheme 2) 2 = 1 ∧ schemeErrConst (scheme 4) 4 = 17 / 3 ∧
    schemeErrConst (scheme 6) 6 = 647 / 15 ∧ schemeErrConst (scheme 8) 8 = 118717 / 315 :=
  schemeErrConst_table

/-- **A3** the bound for every one of the twelve generated tables (`schemeStencils (scheme o)`
= forward, centered, backward of order `o`). -/
theorem table_truncation_error (o : ℕ) (ho : o ∈ orders) (st : Stencil)
    (hst : st ∈ schemeStencils (scheme o))
    (F : ℕ → ℝ → ℝ) (a b M : ℝ) (hF : DerivChain F o (Icc a b))
    (hM : ∀ t ∈ Icc a b, |F (o + 1) t| ≤ M)
    (x h : ℝ) (hh : h ≠ 0) (hx : x ∈ Icc a b) (hk : ∀ kc ∈ st, x + (kc.1 : ℝ) * h ∈ Icc a b) :
    |evalSt st (fun k => F 0 (x + (k : ℝ) * h)) * h⁻¹ - F 1 x|
      ≤ ((errConst st o : ℚ) : ℝ) * M * |h| ^ o :=
  table_truncation o ho st hst F a b M hF hM x h hh hx hk

/-- **A4** 'no boundary' mode: for every order the code offers, every `N ≥ 3p/2`, every grid
`x₀ + j h` lying in `[a,b]`, the model's output on the samples of `f = F 0` exists, has
length `N`, and at EVERY grid point `i < N` — edge points included — is within
`C_i · M · |h|^p` of `f′(x_i)`, `C_i` the constant of the stencil used at `i`. -/
theorem onesided_accurate_everywhere (o : ℕ) (ho : o ∈ orders) (N : ℕ)
    (hN : 3 * (scheme o).maskLen ≤ N)
    (F : ℕ → ℝ → ℝ) (a b M : ℝ) (hF : DerivChain F o (Icc a b))
    (hM : ∀ t ∈ Icc a b, |F (o + 1) t| ≤ M)
    (x₀ h : ℝ) (hh : h ≠ 0) (hgrid : ∀ j : ℕ, j < N → x₀ + (j : ℝ) * h ∈ Icc a b) :
    ∃ rows, d3Onesided (scheme o) ((List.range N).map fun (j : ℕ) => F 0 (x₀ + (j : ℝ) * h)) N = some rows
      ∧ rows.length = N
      ∧ ∀ i (hi : i < rows.length), |evalLin (rows[i]) * h⁻¹ - F 1 (x₀ + (i : ℝ) * h)|
          ≤ ((errConst (pickOnesided (scheme o) N i) o : ℚ) : ℝ) * M * |h| ^ o :=
  onesided_accurate_lemma o ho N hN F a b M hF hM x₀ h hh hgrid

/-- **A4′** the same for `f ∈ C^(p+1)` on the interval spanned by the grid (`h > 0`), with
one constant for all grid points (`scheme_truncation_constants`). -/
theorem onesided_accurate_contDiffOn (o : ℕ) (ho : o ∈ orders) (N : ℕ)
    (hN : 3 * (scheme o).maskLen ≤ N) (f : ℝ → ℝ) (x₀ h M : ℝ) (hh : 0 < h)
    (hf : ContDiffOn ℝ ((o + 1 : ℕ)) f (Icc x₀ (x₀ + ((N : ℝ) - 1) * h)))
    (hM : ∀ t ∈ Icc x₀ (x₀ + ((N : ℝ) - 1) * h),
      |iteratedDerivWithin (o + 1) f (Icc x₀ (x₀ + ((N : ℝ) - 1) * h)) t| ≤ M) :
    ∃ rows, d3Onesided (scheme o) ((List.range N).map fun (j : ℕ) => f (x₀ + (j : ℝ) * h)) N = some rows
      ∧ rows.length = N
      ∧ ∀ i (hi : i < rows.length),
          |evalLin (rows[i]) * h⁻¹ - derivWithin f (Icc x₀ (x₀ + ((N : ℝ) - 1) * h)) (x₀ + (i : ℝ) * h)|
          ≤ ((schemeErrConst (scheme o) o : ℚ) : ℝ) * M * h ^ o :=
  onesided_accurate_contDiffOn_lemma o ho N hN f x₀ h M hh hf hM

/-- **A5** periodic mode: field of period `N·h`, `N ≥ p/2`; `[a,b]` contains the grid
extended by `p/2` points on each side (where the wrapped samples are read). -/
theorem periodic_accurate_everywhere (o : ℕ) (ho : o ∈ orders) (N : ℕ) (hN : (scheme o).maskLen ≤ N)
    (F : ℕ → ℝ → ℝ) (a b M : ℝ) (hF : DerivChain F o (Icc a b))
    (hM : ∀ t ∈ Icc a b, |F (o + 1) t| ≤ M)
    (x₀ h : ℝ) (hh : h ≠ 0) (hper : Function.Periodic (F 0) ((N : ℝ) * h))
    (hgrid : ∀ j : ℤ, -((scheme o).maskLen : ℤ) ≤ j → j < (N : ℤ) + (scheme o).maskLen →
      x₀ + (j : ℝ) * h ∈ Icc a b) :
    ∃ rows, d3Periodic (scheme o) ((List.range N).map fun (j : ℕ) => F 0 (x₀ + (j : ℝ) * h)) N = some rows
      ∧ rows.length = N
      ∧ ∀ i (hi : i < rows.length), |evalLin (rows[i]) * h⁻¹ - F 1 (x₀ + (i : ℝ) * h)|
          ≤ ((errConst (scheme o).cen o : ℚ) : ℝ) * M * |h| ^ o :=
  periodic_accurate_lemma o ho N hN F a b M hF hM x₀ h hh hper hgrid

/-- **A5′** periodic mode for a globally `C^(p+1)` periodic field with `|f^(p+1)| ≤ M`. -/
theorem periodic_accurate_contDiff (o : ℕ) (ho : o ∈ orders) (N : ℕ)
    (hN : (scheme o).maskLen ≤ N) (f : ℝ → ℝ) (x₀ h M : ℝ) (hh : h ≠ 0)
    (hf : ContDiff ℝ ((o + 1 : ℕ)) f) (hper : Function.Periodic f ((N : ℝ) * h))
    (hM : ∀ t, |iteratedDeriv (o + 1) f t| ≤ M) :
    ∃ rows, d3Periodic (scheme o) ((List.range N).map fun (j : ℕ) => f (x₀ + (j : ℝ) * h)) N = some rows
      ∧ rows.length = N
      ∧ ∀ i (hi : i < rows.length), |evalLin (rows[i]) * h⁻¹ - deriv f (x₀ + (i : ℝ) * h)|
          ≤ ((errConst (scheme o).cen o : ℚ) : ℝ) * M * |h| ^ o :=
  periodic_accurate_contDiff_lemma o ho N hN f x₀ h M hh hf hper hM

/-- **A6** symmetric mode: field even about the first and about the last grid point,
`N ≥ p/2 + 1`. -/
theorem symmetric_accurate_everywhere (o : ℕ) (ho : o ∈ orders) (N : ℕ)
    (hN : (scheme o).maskLen + 1 ≤ N)
    (F : ℕ → ℝ → ℝ) (a b M : ℝ) (hF : DerivChain F o (Icc a b))
    (hM : ∀ t ∈ Icc a b, |F (o + 1) t| ≤ M)
    (x₀ h : ℝ) (hh : h ≠ 0)
    (hsym0 : ∀ t, F 0 (x₀ - t) = F 0 (x₀ + t))
    (hsymN : ∀ t, F 0 (x₀ + ((N : ℝ) - 1) * h + t) = F 0 (x₀ + ((N : ℝ) - 1) * h - t))
    (hgrid : ∀ j : ℤ, -((scheme o).maskLen : ℤ) ≤ j → j < (N : ℤ) + (scheme o).maskLen →
      x₀ + (j : ℝ) * h ∈ Icc a b) :
    ∃ rows, d3Symmetric (scheme o) ((List.range N).map fun (j : ℕ) => F 0 (x₀ + (j : ℝ) * h)) N = some rows
      ∧ rows.length = N
      ∧ ∀ i (hi : i < rows.length), |evalLin (rows[i]) * h⁻¹ - F 1 (x₀ + (i : ℝ) * h)|
          ≤ ((errConst (scheme o).cen o : ℚ) : ℝ) * M * |h| ^ o :=
  symmetric_accurate_lemma o ho N hN F a b M hF hM x₀ h hh hsym0 hsymN hgrid

/-! ### error propagation (what the convergence claims of C04–C06/C10/C19 rest on) -/

/-- **A7** sum: constants add. -/
theorem order_add {a ah b bh A B e : ℝ} (ha : |ah - a| ≤ A * e) (hb : |bh - b| ≤ B * e) :
    |(ah + bh) - (a + b)| ≤ (A + B) * e :=
  approx_add ha hb

theorem order_sub {a ah b bh A B e : ℝ} (ha : |ah - a| ≤ A * e) (hb : |bh - b| ≤ B * e) :
    |(ah - bh) - (a - b)| ≤ (A + B) * e :=
  approx_sub ha hb

/-- **A8** product: `|a_h b_h − a b| ≤ (|a| B + |b| A + A B e₀) e` for `0 ≤ e ≤ e₀`. -/
theorem order_mul {a ah b bh A B e e₀ : ℝ} (hA : 0 ≤ A) (hB : 0 ≤ B) (he : 0 ≤ e) (hee : e ≤ e₀)
    (ha : |ah - a| ≤ A * e) (hb : |bh - b| ≤ B * e) :
    |ah * bh - a * b| ≤ (|a| * B + |b| * A + A * B * e₀) * e :=
  approx_mul_of_le hA hB he hee ha hb

/-- **A9** safe quotient: `|b| ≥ β > 0`, `B e ≤ β/2` ⇒ the computed denominator is non-zero and
`|a_h/b_h − a/b| ≤ 2 (A β + |a| B)/β² · e`. -/
theorem order_div {a ah b bh A B e β : ℝ} (hβ : 0 < β) (hβb : β ≤ |b|) (hsmall : B * e ≤ β / 2)
    (ha : |ah - a| ≤ A * e) (hb : |bh - b| ≤ B * e) :
    bh ≠ 0 ∧ |ah / bh - a / b| ≤ (2 * (A * β + |a| * B) / β ^ 2) * e :=
  approx_div hβ hβb hsmall ha hb

/-- **A10** schema: a formula built from `O(h^p)`-accurate quantities by ring operations and
safe divisions is `O(h^p)`-accurate (pointwise constant `C`, threshold `h₀`). -/
theorem order_expr {ι : Type} (E : RExpr ι) (v : ι → ℝ) (A : ℝ) (hA : 0 ≤ A) (hsafe : E.Safe v)
    (p : ℕ) (hp : 1 ≤ p) :
    ∃ C h₀ : ℝ, 0 ≤ C ∧ 0 < h₀ ∧ ∀ h, 0 < h → h ≤ h₀ → ∀ v' : ι → ℝ, (∀ i, |v' i - v i| ≤ A * h ^ p) →
      E.Safe v' ∧ |E.eval v' - E.eval v| ≤ C * h ^ p :=
  expr_order_pow E v A hA hsafe p hp

/-! ### Non-vacuity: the hypotheses are met by concrete non-polynomial fields -/

/-- `exp` with all its derivatives is a derivative chain on any set. -/
theorem expChain (n : ℕ) (S : Set ℝ) : DerivChain (fun _ => Real.exp) n S :=
  fun _ _ t _ => (Real.hasDerivAt_exp t).hasDerivWithinAt

theorem exp_bound (a b : ℝ) : ∀ t ∈ Icc a b, |Real.exp t| ≤ Real.exp b := fun t ht => by
  rw [abs_of_pos (Real.exp_pos t)]; exact Real.exp_le_exp.mpr ht.2

/-- `sin (t + j π/2)` is the j-th derivative of `sin`. -/
theorem sinChain (n : ℕ) (S : Set ℝ) :
    DerivChain (fun j t => Real.sin (t + (j : ℝ) * (Real.pi / 2))) n S := by
  intro j _ t _
  have h1 : HasDerivAt (fun t => Real.sin (t + (j : ℝ) * (Real.pi / 2)))
      (Real.cos (t + (j : ℝ) * (Real.pi / 2)) * 1) t :=
    (Real.hasDerivAt_sin _).comp t ((hasDerivAt_id t).add_const _)
  have h2 : Real.sin (t + ((j + 1 : ℕ) : ℝ) * (Real.pi / 2)) = Real.cos (t + (j : ℝ) * (Real.pi / 2)) * 1 := by
    rw [mul_one, ← Real.sin_add_pi_div_two]; congr 1; push_cast; ring
  show HasDerivWithinAt (fun t => Real.sin (t + (j : ℝ) * (Real.pi / 2)))
    (Real.sin (t + ((j + 1 : ℕ) : ℝ) * (Real.pi / 2))) S t
  rw [h2]
  exact h1.hasDerivWithinAt

theorem cosChain (n : ℕ) (S : Set ℝ) :
    DerivChain (fun j t => Real.cos (t + (j : ℝ) * (Real.pi / 2))) n S := by
  intro j _ t _
  have h1 : HasDerivAt (fun t => Real.cos (t + (j : ℝ) * (Real.pi / 2)))
      (-Real.sin (t + (j : ℝ) * (Real.pi / 2)) * 1) t :=
    (Real.hasDerivAt_cos _).comp t ((hasDerivAt_id t).add_const _)
  have h2 : Real.cos (t + ((j + 1 : ℕ) : ℝ) * (Real.pi / 2)) = -Real.sin (t + (j : ℝ) * (Real.pi / 2)) * 1 := by
    rw [mul_one, ← Real.cos_add_pi_div_two]; congr 1; push_cast; ring
  show HasDerivWithinAt (fun t => Real.cos (t + (j : ℝ) * (Real.pi / 2)))
    (Real.cos (t + ((j + 1 : ℕ) : ℝ) * (Real.pi / 2))) S t
  rw [h2]
  exact h1.hasDerivWithinAt

/-- generic theorem on a real table: 4th-order centered difference of `exp` at 0, h = 1/10. -/
example : |evalSt fd4_centered (fun k => Real.exp (0 + (k : ℝ) * (1 / 10))) * (1 / 10 : ℝ)⁻¹ - Real.exp 0|
    ≤ ((errConst fd4_centered 4 : ℚ) : ℝ) * Real.exp 1 * |(1 / 10 : ℝ)| ^ 4 :=
  truncation_error fd4_centered 4 (by norm_num) (by decide +kernel) (fun _ => Real.exp) (-1) 1 _
    (expChain 4 _) (exp_bound _ _) 0 (1 / 10) (by norm_num) (by constructor <;> norm_num)
    (by
      intro kc hkc
      simp only [fd4_centered, List.mem_cons, List.not_mem_nil, or_false] at hkc
      rcases hkc with rfl | rfl | rfl | rfl <;> constructor <;> norm_num)

/-- one-sided mode, order 4, the minimal line N = 6, `exp` on [0, 1/2]: all six points. -/
example : ∃ rows, d3Onesided (scheme 4) ((List.range 6).map fun (j : ℕ) => Real.exp (0 + (j : ℝ) * (1 / 10))) 6 = some rows
      ∧ rows.length = 6
      ∧ ∀ i (hi : i < rows.length), |evalLin (rows[i]) * (1 / 10 : ℝ)⁻¹ - Real.exp (0 + (i : ℝ) * (1 / 10))|
          ≤ ((errConst (pickOnesided (scheme 4) 6 i) 4 : ℚ) : ℝ) * Real.exp (1 / 2) * |(1 / 10 : ℝ)| ^ 4 :=
  onesided_accurate_everywhere 4 (by decide) 6 (by decide) (fun _ => Real.exp) 0 (1 / 2) _
    (expChain 4 _) (exp_bound _ _) 0 (1 / 10) (by norm_num)
    (by
      intro j hj
      have h1 : (j : ℝ) ≤ 5 := by exact_mod_cast (by omega : j ≤ 5)
      have h0 : (0 : ℝ) ≤ (j : ℝ) := Nat.cast_nonneg j
      constructor <;> linarith)

/-- the `C^(p+1)` form is usable: `exp` on the interval spanned by a 6-point grid. -/
example : ∃ rows, d3Onesided (scheme 4) ((List.range 6).map fun (j : ℕ) => Real.exp (0 + (j : ℝ) * (1 / 10))) 6 = some rows
      ∧ rows.length = 6
      ∧ ∀ i (hi : i < rows.length),
          |evalLin (rows[i]) * (1 / 10 : ℝ)⁻¹
            - derivWithin Real.exp (Icc 0 (0 + (((6 : ℕ) : ℝ) - 1) * (1 / 10))) (0 + (i : ℝ) * (1 / 10))|
          ≤ ((schemeErrConst (scheme 4) 4 : ℚ) : ℝ) * Real.exp 1 * (1 / 10 : ℝ) ^ 4 :=
  onesided_accurate_contDiffOn 4 (by decide) 6 (by decide) Real.exp 0 (1 / 10) (Real.exp 1) (by norm_num)
    Real.contDiff_exp.contDiffOn
    (by
      intro t ht
      rw [iteratedDerivWithin_eq_iteratedDeriv (uniqueDiffOn_Icc (by norm_num)) Real.contDiff_exp.contDiffAt ht,
        iteratedDeriv_eq_iterate, Real.iter_deriv_exp, abs_of_pos (Real.exp_pos t)]
      apply Real.exp_le_exp.mpr
      have := ht.2
      norm_num at this
      linarith)

/-- periodic mode, order 4, N = 8 points over one period of `sin` (h = π/4). -/
example : ∃ rows, d3Periodic (scheme 4)
        ((List.range 8).map fun (j : ℕ) => Real.sin (0 + (j : ℝ) * (Real.pi / 4) + ((0 : ℕ) : ℝ) * (Real.pi / 2))) 8 = some rows
      ∧ rows.length = 8
      ∧ ∀ i (hi : i < rows.length),
          |evalLin (rows[i]) * (Real.pi / 4)⁻¹ - Real.sin (0 + (i : ℝ) * (Real.pi / 4) + ((1 : ℕ) : ℝ) * (Real.pi / 2))|
          ≤ ((errConst (scheme 4).cen 4 : ℚ) : ℝ) * 1 * |Real.pi / 4| ^ 4 :=
  periodic_accurate_everywhere 4 (by decide) 8 (by decide)
    (fun j t => Real.sin (t + (j : ℝ) * (Real.pi / 2))) (-(3 * Real.pi)) (3 * Real.pi) 1
    (sinChain 4 _) (fun t _ => Real.abs_sin_le_one _) 0 (Real.pi / 4)
    (by have := Real.pi_pos; positivity)
    (by
      intro t
      show Real.sin (t + ((8 : ℕ) : ℝ) * (Real.pi / 4) + ((0 : ℕ) : ℝ) * (Real.pi / 2))
        = Real.sin (t + ((0 : ℕ) : ℝ) * (Real.pi / 2))
      have : t + ((8 : ℕ) : ℝ) * (Real.pi / 4) + ((0 : ℕ) : ℝ) * (Real.pi / 2)
          = t + ((0 : ℕ) : ℝ) * (Real.pi / 2) + 2 * Real.pi := by push_cast; ring
      rw [this, Real.sin_add_two_pi])
    (by
      intro j h1 h2
      have hm : (scheme 4).maskLen = 2 := by decide
      rw [hm] at h1 h2
      have h1' : (-2 : ℝ) ≤ (j : ℝ) := by exact_mod_cast h1
      have h2' : (j : ℝ) ≤ 9 := by exact_mod_cast (by omega : j ≤ 9)
      have := Real.pi_pos
      constructor <;> nlinarith)

/-- symmetric mode, order 2, N = 3 points over half a period of `cos` (even about 0 and π). -/
example : ∃ rows, d3Symmetric (scheme 2)
        ((List.range 3).map fun (j : ℕ) => Real.cos (0 + (j : ℝ) * (Real.pi / 2) + ((0 : ℕ) : ℝ) * (Real.pi / 2))) 3 = some rows
      ∧ rows.length = 3
      ∧ ∀ i (hi : i < rows.length),
          |evalLin (rows[i]) * (Real.pi / 2)⁻¹ - Real.cos (0 + (i : ℝ) * (Real.pi / 2) + ((1 : ℕ) : ℝ) * (Real.pi / 2))|
          ≤ ((errConst (scheme 2).cen 2 : ℚ) : ℝ) * 1 * |Real.pi / 2| ^ 2 :=
  symmetric_accurate_everywhere 2 (by decide) 3 (by decide)
    (fun j t => Real.cos (t + (j : ℝ) * (Real.pi / 2))) (-(3 * Real.pi)) (3 * Real.pi) 1
    (cosChain 2 _) (fun t _ => Real.abs_cos_le_one _) 0 (Real.pi / 2)
    (by have := Real.pi_pos; positivity)
    (by
      intro t
      show Real.cos (0 - t + ((0 : ℕ) : ℝ) * (Real.pi / 2)) = Real.cos (0 + t + ((0 : ℕ) : ℝ) * (Real.pi / 2))
      rw [← Real.cos_neg]; congr 1; push_cast; ring)
    (by
      intro t
      show Real.cos (0 + (((3 : ℕ) : ℝ) - 1) * (Real.pi / 2) + t + ((0 : ℕ) : ℝ) * (Real.pi / 2))
        = Real.cos (0 + (((3 : ℕ) : ℝ) - 1) * (Real.pi / 2) - t + ((0 : ℕ) : ℝ) * (Real.pi / 2))
      have e1 : 0 + (((3 : ℕ) : ℝ) - 1) * (Real.pi / 2) + t + ((0 : ℕ) : ℝ) * (Real.pi / 2) = t + Real.pi := by
        push_cast; ring
      have e2 : 0 + (((3 : ℕ) : ℝ) - 1) * (Real.pi / 2) - t + ((0 : ℕ) : ℝ) * (Real.pi / 2) = -t + Real.pi := by
        push_cast; ring
      rw [e1, e2, Real.cos_add_pi, Real.cos_add_pi, Real.cos_neg])
    (by
      intro j h1 h2
      have hm : (scheme 2).maskLen = 1 := by decide
      rw [hm] at h1 h2
      have h1' : (-1 : ℝ) ≤ (j : ℝ) := by exact_mod_cast h1
      have h2' : (j : ℝ) ≤ 3 := by exact_mod_cast (by omega : j ≤ 3)
      have := Real.pi_pos
      constructor <;> nlinarith)

/-- propagation: the hypotheses of `order_div` are met (a_h = 1.01, a = 1, b_h = 2.01, b = 2, e = 0.01). -/
example : (2.01 : ℝ) ≠ 0 ∧ |(1.01 : ℝ) / 2.01 - 1 / 2| ≤ (2 * (1 * 2 + |(1 : ℝ)| * 1) / 2 ^ 2) * 0.01 :=
  order_div (a := 1) (ah := 1.01) (b := 2) (bh := 2.01) (A := 1) (B := 1) (e := 0.01) (β := 2)
    (by norm_num) (by norm_num) (by norm_num) (by norm_num [abs_le]) (by norm_num [abs_le])

/-- schema: `(x·y + 3)/y` is a safe expression at `x = 1, y = 2`. -/
example : (RExpr.div (.add (.mul (.var true) (.var false)) (.const 3)) (.var false)).Safe
    (fun i : Bool => if i then (1 : ℝ) else 2) := by
  simp [RExpr.Safe, RExpr.eval]

end AurelVerif.C07
