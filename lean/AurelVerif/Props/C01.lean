/-
Props/C01.lean — property theorems for C01 (the lazy cache is transparent).
ONLY statements and non-vacuity examples; proofs are in Lemmas/CacheGet.lean.

Model: Model/CacheGet.lean (hand-written `__getitem__` over an abstract
definition table and an abstract eviction policy) + Gen/DepGraph.lean (the
shape of every description key, regenerated from core.py on every run).

Values are IMMUTABLE in this model: a cached array is never modified in place
by a later computation.  That is property C02's job; C01 assumes it.

What is and is not proven here:
* `get_transparent` is generic: for EVERY definition table, every physical
  option valuation, every set of frozen inputs, every eviction policy that
  only removes non-frozen entries, every finite history — given branch
  coherence (H2, `TableCoh`).
* `aurel_rank_ok` (D2) decides the rank condition (H1) on the generated table
  of the real code; `aurel_no_recursion` / `aurel_no_keyerror` conclude that
  the real dependency structure can neither recurse without end nor read a
  missing `self.data[...]` entry, whatever is evicted.
* H2 for the real formulas (one coherence statement per guard listed in
  `Gen.DepGraph.guards`) is NOT proven in this file: it is about the einsum
  bodies and is proven / validated elsewhere; here it is the explicit
  hypothesis `TableCoh`.
  EXTENSION ROUND: Props/C01Coherence.lean, C01CoherenceA.lean (algebraic) and
  C01CoherenceC.lean (on solutions of Einstein's equations) prove one coherence
  theorem per guard (all but Riemann-based vs E/B-based `st_Weyl_down4`);
  Props/C01M.lean sharpens H2 (`get_transparent_sharp`: guards that cannot
  change along a history need no coherence); Props/C01Sub.lean instantiates H2
  for a 25-key sub-table of the real code, where `sub_transparent` has no
  hypothesis about the bodies left.  The table guard -> class -> theorem is
  generated on every run by tools/props/C01.py (evidence `coherence_table`).
-/
import AurelVerif.Lemmas.CacheGet
import AurelVerif.Gen.DepGraph

namespace AurelVerif.C01
open AurelVerif.Cache AurelVerif.Cache.Dict AurelVerif.CacheGet

variable {κ ν σ σ' : Type} [DecidableEq κ]
set_option linter.unusedSectionVars false

/-- `k` is a frozen input -/
def IsInput (inp : Dict κ ν) (k : κ) : Prop := (get? inp k).isSome = true

/-- **T1** the lazy cache is transparent.  Let `T` be any definition table,
`inp` the frozen inputs, `den` a denotation (`den k` = the input value for an
input; H2: every feasible path of every body returns `den k` when its reads
return denotations).  Then for every eviction policy that only removes
non-input entries (`PolicyOK`), with any internal state and any start state,
every recursion budget, every finite history `h` of requests and sweeps and
every final request `k`: if the history runs without raising, the value it
returns for `k` is `den k` — and so is the value a FRESH instance (any other
policy `pol'`, e.g. no eviction at all, any other budget) returns for the
single request `k`.  Hence the two are equal. -/
theorem get_transparent (T : Table κ ν) (inp : Dict κ ν) (den : κ → ν)
    (hin : ∀ k v, get? inp k = some v → den k = v)
    (H2 : TableCoh T den (IsInput inp))
    (pol : Policy σ κ ν) (hpol : PolicyOK (IsInput inp) pol)
    (pol' : Policy σ' κ ν) (hpol' : PolicyOK (IsInput inp) pol')
    (s0 : σ) (s0' : σ') (fuel fuel' : Nat) (h : List (HOp κ)) (k : κ)
    (c : Cfg σ κ ν) (vs : List ν) (hrun : runHist T pol fuel (s0, inp) (h ++ [.req k]) = .ok (c, vs))
    (c' : Cfg σ' κ ν) (v' : ν) (hfresh : getF T pol' fuel' (s0', inp) k = .ok (c', v')) :
    vs.getLast? = some v' ∧ v' = den k := by
  have hg : Good den (IsInput inp) inp := good_inputs (den := den) inp hin
  obtain ⟨_, hvs⟩ := runHist_sound H2 hpol fuel _ _ c vs hg hrun
  obtain ⟨_, hv'⟩ := getF_sound H2 hpol' fuel' _ k c' v' hg hfresh
  refine ⟨?_, hv'⟩
  rw [hvs, hv', List.filterMap_append]
  simp

/-- **T1'** every value returned anywhere in a history is the denotation of
the key requested (so no request ever sees a stale, wrong-branch or default
value), and the invariant "every cached entry equals its denotation, all
inputs still cached" holds at the end. -/
theorem history_values (T : Table κ ν) (inp : Dict κ ν) (den : κ → ν)
    (hin : ∀ k v, get? inp k = some v → den k = v) (H2 : TableCoh T den (IsInput inp))
    (pol : Policy σ κ ν) (hpol : PolicyOK (IsInput inp) pol) (s0 : σ) (fuel : Nat) (h : List (HOp κ))
    (c : Cfg σ κ ν) (vs : List ν) (hrun : runHist T pol fuel (s0, inp) h = .ok (c, vs)) :
    vs = h.filterMap (fun o => match o with | .req k => some (den k) | .sweep => none)
    ∧ Good den (IsInput inp) c.2 :=
  let ⟨a, b⟩ := runHist_sound H2 hpol fuel h (s0, inp) c vs (good_inputs inp hin) hrun; ⟨b, a⟩

/-- **H1 ⇒ no RecursionError** (generic).  If every read that is not
guaranteed to hit has smaller rank (`TableOK`), a request of `k` with a
recursion budget above `rank k` never exhausts it — from every cache state,
under every policy whatsoever. -/
theorem get_no_recursion (T : Table κ ν) (rank : κ → Nat) (H1 : TableOK T rank) (pol : Policy σ κ ν)
    (fuel : Nat) (c : Cfg σ κ ν) (k : κ) (hk : rank k < fuel) : getF T pol fuel c k ≠ .error .recursion :=
  getF_norec H1 pol fuel c k hk

/-- **H1 ⇒ no KeyError** (generic).  Under `TableOK` every direct
`self.data[...]` access is covered by a guard with no possible eviction in
between, and if the policy keeps the entry it was called for (true of the
real clean-up: `C03.store_no_error`) the final `return self.data[key]` hits. -/
theorem get_no_keyerror (T : Table κ ν) (rank : κ → Nat) (H1 : TableOK T rank) (pol : Policy σ κ ν)
    (hk : KeepsNew pol) (fuel : Nat) (c : Cfg σ κ ν) (k : κ) : getF T pol fuel c k ≠ .error .keyError :=
  getF_nokey H1 hk fuel c k

/-- **C03 ⇒ C01** the real bookkeeping and clean-up (Model/Cache, the model of
property C03) is an admissible policy: for every period, threshold, sizes and
importance map in which the frozen keys have importance 0 (≤ 0), it only
evicts, and never a frozen key.  So `get_transparent` applies to the real
clean-up under every cache setting. -/
theorem real_cleanup_admissible (z : Sizes κ ν) (hz : z.RndOK) (F : κ → Prop) :
    PolicyOK F (realPolicy z hz F) := realPolicy_ok z hz F

/-! ### the real table -/

open AurelVerif.Gen.DepGraph

/-- rank of a key index according to the emitted certificate -/
def rankOf (k : Nat) : Nat := ranks.getD k 0

/-- shape of a key index in the generated table -/
def shapeOf (k : Nat) : Option (Shape Nat) := (shapes.find? (fun p => p.1 == k)).map (·.2)

/-- **D2** the generated dependency graph of core.py satisfies the rank
condition with the certificate emitted by the translator: for every
description key, on every path of its body (helpers inlined), every request
`self["x"]` that is not guaranteed to hit by an enclosing guard has strictly
smaller rank, and every direct `self.data["x"]` is guarded.  Kernel-checked
on the table regenerated from the current source. -/
theorem aurel_rank_ok : shapes.all (fun p => shapeOK rankOf (rankOf p.1) [] p.2) = true := by
  decide +kernel

/-- the table has exactly one shape per description key -/
theorem aurel_table_complete : (shapes.map (·.1)) = List.range nKeys ∧ names.length = ranks.length := by
  decide +kernel

theorem aurel_tableOK (T : Table Nat ν) (hT : ∀ k, T.shape k = shapeOf k) : TableOK T rankOf := by
  intro k sh hk
  rw [hT k] at hk
  unfold shapeOf at hk
  cases hf : shapes.find? (fun p => p.1 == k) with
  | none => simp [hf] at hk
  | some p =>
    simp only [hf, Option.map_some, Option.some.injEq] at hk
    have hmem := List.mem_of_find?_eq_some hf
    have hkey : p.1 = k := by have := List.find?_some hf; simpa using this
    have := List.all_eq_true.mp aurel_rank_ok p hmem
    rw [hkey, hk] at this
    exact this

/-- **D2 ⇒** the real dependency structure cannot recurse without end: for
every table whose shapes are the generated ones (any formulas at the return
sites, any option values, any loop counts), every policy, every cache
content and every key, a budget above the key's rank (≤ 17 today) is never
exhausted.  (Before commit b7b13ed this failed for Momentumup3 ↔ Momentumx.) -/
theorem aurel_no_recursion (T : Table Nat ν) (hT : ∀ k, T.shape k = shapeOf k) (pol : Policy σ Nat ν)
    (fuel : Nat) (c : Cfg σ Nat ν) (k : Nat) (hk : rankOf k < fuel) : getF T pol fuel c k ≠ .error .recursion :=
  getF_norec (aurel_tableOK T hT) pol fuel c k hk

theorem aurel_no_keyerror (T : Table Nat ν) (hT : ∀ k, T.shape k = shapeOf k) (pol : Policy σ Nat ν)
    (hk : KeepsNew pol) (fuel : Nat) (c : Cfg σ Nat ν) (k : Nat) : getF T pol fuel c k ≠ .error .keyError :=
  getF_nokey (aurel_tableOK T hT) hk fuel c k

/-- **T1 for the real table**: transparency of every history over the
generated shapes, for any formulas satisfying the coherence obligations. -/
theorem aurel_transparent (T : Table Nat ν) (_hT : ∀ k, T.shape k = shapeOf k) (inp : Dict Nat ν) (den : Nat → ν)
    (hin : ∀ k v, get? inp k = some v → den k = v) (H2 : TableCoh T den (IsInput inp))
    (pol : Policy σ Nat ν) (hpol : PolicyOK (IsInput inp) pol)
    (pol' : Policy σ' Nat ν) (hpol' : PolicyOK (IsInput inp) pol')
    (s0 : σ) (s0' : σ') (fuel fuel' : Nat) (h : List (HOp Nat)) (k : Nat)
    (c : Cfg σ Nat ν) (vs : List ν) (hrun : runHist T pol fuel (s0, inp) (h ++ [.req k]) = .ok (c, vs))
    (c' : Cfg σ' Nat ν) (v' : ν) (hfresh : getF T pol' fuel' (s0', inp) k = .ok (c', v')) :
    vs.getLast? = some v' :=
  (get_transparent T inp den hin H2 pol hpol pol' hpol' s0 s0' fuel fuel' h k c vs hrun c' v' hfresh).1

/-! ### Non-vacuity: a three-key table with one guarded key -/

/-- key 0 is the input `a`; key 1 = `a + 1`; key 2 = `2 * self[1]` if 1 is
cached, else `2 * (self[0] + 1)`. -/
def tEx : Table Nat Nat :=
  { shape := fun k => match k with
      | 1 => some (.read 0 (.ret 0))
      | 2 => some (.test (.pres 1) (.read 1 (.ret 0)) (.read 0 (.ret 1)))
      | _ => none
    leaf := fun k i vs => match k, i with
      | 1, _ => vs.getD 0 0 + 1
      | 2, 0 => 2 * vs.getD 0 0
      | 2, _ => 2 * (vs.getD 0 0 + 1)
      | _, _ => 0
    flag := fun _ => false
    count := fun _ => 0 }

def inpEx : Dict Nat Nat := [(0, 5)]
def denEx : Nat → Nat := fun k => match k with | 0 => 5 | 1 => 6 | 2 => 12 | _ => 0

/-- the most aggressive admissible policy: after every store, and at every
sweep, drop everything except the input and the entry just stored -/
def polEx : Policy Unit Nat Nat :=
  { onHit := fun s _ => s
    onStore := fun s d k => (s, d.filter (fun kv => kv.1 == k || kv.1 == 0))
    onSweep := fun s d => (s, d.filter (fun kv => kv.1 == 0)) }

/-- no eviction at all (a "fresh instance with default settings") -/
def polNone : Policy Unit Nat Nat :=
  { onHit := fun s _ => s, onStore := fun s d _ => (s, d), onSweep := fun s d => (s, d) }

theorem inpEx_zero (k : Nat) (h : IsInput inpEx k) : k = 0 := by
  unfold IsInput inpEx at h
  by_cases e : k = 0
  · exact e
  · have : ¬ 0 = k := fun x => e x.symm
    simp [get?, this] at h

theorem polEx_ok : PolicyOK (IsInput inpEx) polEx :=
  ⟨fun _ d k => evictRel_filter _ (fun x => x == k || x == 0) (fun k' h => by simp [inpEx_zero k' h]) d,
   fun _ d => evictRel_filter _ (fun x => x == 0) (fun k' h => by simp [inpEx_zero k' h]) d⟩

theorem polNone_ok : PolicyOK (IsInput inpEx) polNone := ⟨fun _ _ _ _ => Or.inl rfl, fun _ _ _ => Or.inl rfl⟩

/-- H2 holds for the example: both alternatives of key 2 agree -/
theorem tEx_coh : TableCoh tEx denEx (IsInput inpEx) := by
  intro k sh _ hs
  match k with
  | 1 => simp [tEx] at hs; subst hs; simp [Coh, tEx, denEx]
  | 2 => simp [tEx] at hs; subst hs; simp [Coh, tEx, denEx]
  | 0 => simp [tEx] at hs
  | n + 3 => simp [tEx] at hs

/-- H1 holds for the example with ranks 0, 1, 2 -/
example : TableOK tEx (fun k => k) := by
  intro k sh hs
  match k with
  | 1 => simp [tEx] at hs; subst hs; decide
  | 2 => simp [tEx] at hs; subst hs; decide
  | 0 => simp [tEx] at hs
  | n + 3 => simp [tEx] at hs

/-- a history that requests the guarded key 2 first with 1 uncached (second
alternative), then 1, then — 1 having been evicted by the sweep or kept — 2
again through either alternative: always 12. -/
example : (match runHist tEx polEx 5 ((), inpEx) [.req 2, .req 1, .req 2, .sweep, .req 2, .req 1, .req 2] with
    | .ok (c, vs) => (vs, keys c.2)
    | .error _ => ([], [])) = ([12, 6, 12, 12, 6, 12], [0, 2]) := by decide +kernel

example : (match getF tEx polNone 5 ((), inpEx) 2 with
    | .ok (_, v) => v
    | .error _ => 0) = 12 := by decide +kernel

end AurelVerif.C01
