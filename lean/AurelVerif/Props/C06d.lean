/-
Props/C06d.lean — property C06, Layer B (consistency) for `dts_Gamma_bssnok`:
the value the code computes IS `∂_t Γ̃^i` for the conformal connection functions `Γ̃^i = −∂_j γ̃^ij`
(this is the definition core.py uses: `s_Gamma_bssnok = −einsum('jij->i', ∂γ̃^..)`), γ̃^ij = ψ⁴γ^ij.

Derivation ([A] = Alcubierre 2008, (2.8.21)–(2.8.25)), every step a theorem here:
  Γ1  `dtgammaup3_bssnok_is_dt`: `∂_tγ̃^ij = L_βγ̃^ij + (2/3)γ̃^ij∂_kβ^k + 2αÃ^ij` from `∂_tγ^ij` (= `dtgammaup3`),
      the φ-equation, `∂q = 4q∂φ` (`q = ψ⁴`), `Ã^ij = q(K^ij − γ^ijK/3)` (uses γ^ikγ_kj = δ);
  Γ2  `dts_Gamma_bssnok_is_dt`: `∂_tΓ̃^i = −∂_j(∂_tγ̃^ij)`, expanded by the product rule, is the code's value.
Hypotheses of Γ2, exactly:
  * `∂_t` and `∂_s` (`e.D s`) are additive and obey the product rule (`C06Deriv.Deriv`),
  * `∂_t` COMMUTES with `∂_s`, and `∂_s` with `∂_r` (`hct`, `hcs`)             — continuum only,
  * `s_Gamma_bssnok` is the code's own `−∂_jγ̃^ij`,
  * the evolution equation Γ1 for `γ̃^ij`,
  * the MOMENTUM CONSTRAINT in its conformal form [A] (2.8.24) (`hmomc`):
      `∂_jÃ^ij = −Γ̃^i_jkÃ^jk − 6Ã^ij∂_jφ + (2/3)γ̃^ij∂_jK + κ e^{4φ} S^i`      (vacuum branch: without the matter term),
    which the book uses to eliminate the divergence of `Ã^ij`.
  Γ3  `momentum_conformal`: [A] (2.8.24) itself: the divergence the code takes for `Momentumup3`,
      `D_j(K^ij − γ^ijK)`, equals `ψ⁻⁴(∂_jÃ^ij + Γ̃^i_jkÃ^jk + 6Ã^ij∂_jφ − (2/3)γ̃^ij∂_jK)` (hypotheses listed there), so
      `hmomc` ⟸ `Momentumup3 = 0`:  `momc_of_Momentum_zero`.
NOT proven: the two commutation hypotheses and the product rule hold only in the continuum limit.
-/
import AurelVerif.Props.C06b
import AurelVerif.Lemmas.C06DtGamma
import AurelVerif.Lemmas.C05Covd

set_option linter.unusedSimpArgs false
set_option linter.unusedVariables false

namespace AurelVerif.C06
open AurelVerif.Gen.Core AurelVerif.Tensor AurelVerif.CoreTac AurelVerif.C08 AurelVerif.Spec.Covd AurelVerif.Spec

variable {K : Type} [Field K]

/-- the code's `s_Gamma_bssnok` is `Γ̃^i = −∂_j γ̃^ij`. -/
theorem s_Gamma_bssnok_def (e : Env K) (i : Fin 3) :
    s_Gamma_bssnok e i = -∑ j, e.D j (e.gammaup3_bssnok i j) := by
  revert i; cases3 <;> (simp only [core_unfold, Fin.sum_univ_three])

/-- `A^ij = γ^ia γ^jb (K_ab − γ_ab K/3) = K^ij − γ^ij K/3`. -/
theorem Aup3_closed (e : Env K) (hsymU : Sym e.gammaup3)
    (hUG : ∀ i k : Fin 3, ∑ j, e.gammaup3 i j * e.gammadown3 j k = delta i k)
    (hKup : e.Kup3 = Kup3 e) (hKt : e.Ktrace = Ktrace e) (hA : e.Adown3 = Adown3 e) (i j : Fin 3) :
    Aup3 e i j = e.Kup3 i j - (1 / 3) * e.gammaup3 i j * e.Ktrace := by
  have hT : e.Ktrace = ∑ i, ∑ j, e.gammaup3 i j * e.Kdown3 i j := by rw [hKt]; exact Ktrace_spec e
  rw [Aup3_spec, hKup, Kup3_spec]
  have hAs : ∀ a b, e.Adown3 a b = e.Kdown3 a b - (1 / 3) * e.gammadown3 a b * e.Ktrace := by
    intro a b; rw [hA, Adown3_spec, ← hT]
  have hc : ∑ a, ∑ b, e.gammaup3 i a * e.gammadown3 a b * e.gammaup3 j b = e.gammaup3 i j := by
    have key : ∑ a, ∑ b, e.gammaup3 i a * e.gammadown3 a b * e.gammaup3 j b
        = ∑ b, (∑ a, e.gammaup3 i a * e.gammadown3 a b) * e.gammaup3 j b := by
      simp only [Fin.sum_univ_three]; ring
    rw [key]
    simp only [hUG, delta]
    simp [Finset.sum_ite_eq]
    exact hsymU j i
  have u01 := hsymU 1 0; have u02 := hsymU 2 0; have u12 := hsymU 2 1
  have ui0 := hsymU 0 i; have ui1 := hsymU 1 i; have ui2 := hsymU 2 i
  have uj0 := hsymU 0 j; have uj1 := hsymU 1 j; have uj2 := hsymU 2 j
  simp only [hAs, Fin.sum_univ_three] at hc ⊢
  simp only [ui0, ui1, ui2, uj0, uj1, uj2] at hc ⊢
  linear_combination (-(1 / 3) * e.Ktrace) * hc

/-! ## Γ1  `∂_tγ̃^ij` -/

/-- **Γ1  `∂_tγ̃^ij = L_βγ̃^ij + (2/3)γ̃^ij∂_kβ^k + 2αÃ^ij`** (density weight +2/3; sign of the lapse term opposite to
`∂_tγ̃_ij`), for additive `∂_t`, `∂_s` obeying the product rule. -/
theorem dtgammaup3_bssnok_is_dt (e : Env K) (Dt : K → K) (hDt : C06Deriv.Deriv Dt) (hD : ∀ s, C06Deriv.Deriv (e.D s))
    (q : K) (h2 : (2 : K) ≠ 0) (h3 : (3 : K) ≠ 0) (hsymU : Sym e.gammaup3)
    (hUG : ∀ i k : Fin 3, ∑ j, e.gammaup3 i j * e.gammadown3 j k = delta i k)
    (hKup : e.Kup3 = Kup3 e) (hKt : e.Ktrace = Ktrace e) (hA : e.Adown3 = Adown3 e) (hAu : e.Aup3 = Aup3 e)
    (hUt : ∀ i j, e.gammaup3_bssnok i j = q * e.gammaup3 i j)
    (hAut : ∀ i j, e.Aup3_bssnok i j = q * e.Aup3 i j)
    (hqt : Dt q = 4 * q * Dt e.phi_bssnok) (hqs : ∀ s, e.D s q = 4 * q * e.D s e.phi_bssnok)
    (hφ : Dt e.phi_bssnok = ADM.dtPhi e.betaup3 (grad e e.phi_bssnok) (dβ e) e.alpha e.Ktrace)
    (hdtU : ∀ i j, Dt (e.gammaup3 i j) = dtgammaup3 e i j) (i j : Fin 3) :
    Dt (e.gammaup3_bssnok i j)
      = lieUU e.betaup3 (dβ e) (pd2 e.D e.gammaup3_bssnok) e.gammaup3_bssnok i j
        + (2 / 3) * divβ (dβ e) * e.gammaup3_bssnok i j + 2 * e.alpha * e.Aup3_bssnok i j := by
  rw [← C06Deriv.dt_conformal_inverse_metric e.gammaup3 e.gammaup3_bssnok e.Aup3_bssnok e.Kup3
    (fun a b => Dt (e.gammaup3 a b)) (pd2 e.D e.gammaup3) (pd2 e.D e.gammaup3_bssnok) e.betaup3 (dβ e)
    (grad e e.phi_bssnok) e.alpha e.Ktrace (Dt e.phi_bssnok) q h2 h3 hUt
    (fun a b => by rw [hAut, hAu, Aup3_closed e hsymU hUG hKup hKt hA])
    (fun s a b => by simp only [pd2, grad]; rw [hUt, (hD s).mul, hqs s]; ring) hφ
    (fun a b => by rw [hdtU, dtgammaup3_spec]) i j]
  rw [hUt, hDt.mul, hqt]
  ring

/-! ## Γ2  `dts_Gamma_bssnok = ∂_tΓ̃^i` -/

/-- `∂_j` of the right-hand side of Γ1 by the product rule (the summand of `C06Deriv.dt_GammaVec_jets`). -/
theorem D_of_dtgammaup3_bssnok (e : Env K) {d : K → K} (h : C06Deriv.Deriv d) (h3 : (3 : K) ≠ 0) (i j : Fin 3) :
    d (lieUU e.betaup3 (dβ e) (pd2 e.D e.gammaup3_bssnok) e.gammaup3_bssnok i j
        + (2 / 3) * divβ (dβ e) * e.gammaup3_bssnok i j + 2 * e.alpha * e.Aup3_bssnok i j)
      = (∑ k, (d (e.betaup3 k) * e.D k (e.gammaup3_bssnok i j) + e.betaup3 k * d (e.D k (e.gammaup3_bssnok i j))))
        - (∑ k, (d (e.gammaup3_bssnok k j) * e.D k (e.betaup3 i) + e.gammaup3_bssnok k j * d (e.D k (e.betaup3 i))))
        - (∑ k, (d (e.gammaup3_bssnok i k) * e.D k (e.betaup3 j) + e.gammaup3_bssnok i k * d (e.D k (e.betaup3 j))))
        + (2 / 3) * ((∑ k, d (e.D k (e.betaup3 k))) * e.gammaup3_bssnok i j
            + divβ (dβ e) * d (e.gammaup3_bssnok i j))
        + 2 * (d e.alpha * e.Aup3_bssnok i j + e.alpha * d (e.Aup3_bssnok i j)) := by
  simp only [lieUU, divβ, dβ, pd2, Fin.sum_univ_three, h.add, h.sub, h.mul, h.two, h.two_thirds h3, zero_mul, zero_add]
  ring

/-- the common part of Γ2: `∂_tΓ̃^i` equals [A] (2.8.23) (no constraint used yet). -/
theorem dt_s_Gamma_bssnok_2823 (e : Env K) (Dt : K → K) (hDt : C06Deriv.Deriv Dt) (hD : ∀ s, C06Deriv.Deriv (e.D s))
    (h3 : (3 : K) ≠ 0)
    (hct : ∀ s x, Dt (e.D s x) = e.D s (Dt x)) (hcs : ∀ s r x, e.D s (e.D r x) = e.D r (e.D s x))
    (hΓc : e.s_Gamma_bssnok = s_Gamma_bssnok e)
    (hdtUt : ∀ i j, Dt (e.gammaup3_bssnok i j)
        = lieUU e.betaup3 (dβ e) (pd2 e.D e.gammaup3_bssnok) e.gammaup3_bssnok i j
          + (2 / 3) * divβ (dβ e) * e.gammaup3_bssnok i j + 2 * e.alpha * e.Aup3_bssnok i j)
    (i : Fin 3) :
    Dt (e.s_Gamma_bssnok i)
      = (∑ j, ∑ k, e.gammaup3_bssnok j k * e.D j (e.D k (e.betaup3 i)))
        + (1 / 3) * (∑ j, e.gammaup3_bssnok i j * ∑ k, e.D j (e.D k (e.betaup3 k)))
        + lieU e.betaup3 (dβ e) (pd1 e.D e.s_Gamma_bssnok) e.s_Gamma_bssnok i
        + (2 / 3) * divβ (dβ e) * e.s_Gamma_bssnok i
        - 2 * (∑ j, e.Aup3_bssnok i j * e.D j e.alpha) - 2 * e.alpha * ∑ j, e.D j (e.Aup3_bssnok i j) := by
  have hΓ : ∀ i, e.s_Gamma_bssnok i = -∑ j, e.D j (e.gammaup3_bssnok i j) := by
    intro i; rw [hΓc]; exact s_Gamma_bssnok_def e i
  have hdΓ : ∀ c i, pd1 e.D e.s_Gamma_bssnok c i = -∑ j, e.D c (e.D j (e.gammaup3_bssnok i j)) := by
    intro c i
    simp only [pd1]
    rw [hΓ]
    simp only [Fin.sum_univ_three, (hD c).neg, (hD c).add]
  have hDtΓ : Dt (e.s_Gamma_bssnok i) = -∑ j, e.D j (Dt (e.gammaup3_bssnok i j)) := by
    rw [hΓ]
    simp only [Fin.sum_univ_three, hDt.neg, hDt.add, hct]
  have J := C06Deriv.dt_GammaVec_jets e.betaup3 (dβ e) (fun j k a => e.D j (e.D k (e.betaup3 a))) e.gammaup3_bssnok
    e.Aup3_bssnok (pd2 e.D e.gammaup3_bssnok) (pd2 e.D e.Aup3_bssnok)
    (fun j k a b => e.D j (e.D k (e.gammaup3_bssnok a b))) e.alpha (grad e e.alpha) e.s_Gamma_bssnok
    (pd1 e.D e.s_Gamma_bssnok) h3 (fun j k a => hcs j k _) (fun j k a b => hcs j k _)
    (fun i => by rw [hΓ]; rfl) hdΓ i
  simp only [grad, pd2] at J
  rw [hDtΓ, ← J]
  congr 1
  refine Finset.sum_congr rfl fun j _ => ?_
  rw [hdtUt, D_of_dtgammaup3_bssnok e (hD j) h3 i j]
  simp only [dβ, pd2, grad]

/-- **Γ2  `dts_Gamma_bssnok = ∂_tΓ̃^i`**, matter branch.  `hmomc` is the momentum constraint in the conformal form
[A] (2.8.24) (see `momc_of_Momentum_zero`). -/
theorem dts_Gamma_bssnok_is_dt (e : Env K) (Dt : K → K) (hDt : C06Deriv.Deriv Dt) (hD : ∀ s, C06Deriv.Deriv (e.D s))
    (h3 : (3 : K) ≠ 0)
    (hct : ∀ s x, Dt (e.D s x) = e.D s (Dt x)) (hcs : ∀ s r x, e.D s (e.D r x) = e.D r (e.D s x))
    (hΓc : e.s_Gamma_bssnok = s_Gamma_bssnok e)
    (hdtUt : ∀ i j, Dt (e.gammaup3_bssnok i j)
        = lieUU e.betaup3 (dβ e) (pd2 e.D e.gammaup3_bssnok) e.gammaup3_bssnok i j
          + (2 / 3) * divβ (dβ e) * e.gammaup3_bssnok i j + 2 * e.alpha * e.Aup3_bssnok i j)
    (hmomc : ∀ i, ∑ j, e.D j (e.Aup3_bssnok i j)
        = -(∑ j, ∑ k, e.s_Gamma_udd3_bssnok i j k * e.Aup3_bssnok j k)
          - 6 * (∑ j, e.Aup3_bssnok i j * e.D j e.phi_bssnok)
          + (2 / 3) * (∑ j, e.gammaup3_bssnok i j * e.D j e.Ktrace)
          + e.kappa * e.expF (4 * e.phi_bssnok) * e.fluxup3_n i)
    (i : Fin 3) : dts_Gamma_bssnok__dflt_matter e i = Dt (e.s_Gamma_bssnok i) := by
  rw [dt_s_Gamma_bssnok_2823 e Dt hDt hD h3 hct hcs hΓc hdtUt i, (dts_Gamma_bssnok_spec e i).1]
  simp only [ADM.dtGammaVec, ADM.dtGammaVecVac, grad]
  linear_combination (2 * e.alpha) * hmomc i

/-- **Γ2**, vacuum branch (`hmomc` without the matter term). -/
theorem dts_Gamma_bssnok_vacuum_is_dt (e : Env K) (Dt : K → K) (hDt : C06Deriv.Deriv Dt)
    (hD : ∀ s, C06Deriv.Deriv (e.D s)) (h3 : (3 : K) ≠ 0)
    (hct : ∀ s x, Dt (e.D s x) = e.D s (Dt x)) (hcs : ∀ s r x, e.D s (e.D r x) = e.D r (e.D s x))
    (hΓc : e.s_Gamma_bssnok = s_Gamma_bssnok e)
    (hdtUt : ∀ i j, Dt (e.gammaup3_bssnok i j)
        = lieUU e.betaup3 (dβ e) (pd2 e.D e.gammaup3_bssnok) e.gammaup3_bssnok i j
          + (2 / 3) * divβ (dβ e) * e.gammaup3_bssnok i j + 2 * e.alpha * e.Aup3_bssnok i j)
    (hmomc : ∀ i, ∑ j, e.D j (e.Aup3_bssnok i j)
        = -(∑ j, ∑ k, e.s_Gamma_udd3_bssnok i j k * e.Aup3_bssnok j k)
          - 6 * (∑ j, e.Aup3_bssnok i j * e.D j e.phi_bssnok)
          + (2 / 3) * (∑ j, e.gammaup3_bssnok i j * e.D j e.Ktrace))
    (i : Fin 3) : dts_Gamma_bssnok__dflt_vacuum e i = Dt (e.s_Gamma_bssnok i) := by
  rw [dt_s_Gamma_bssnok_2823 e Dt hDt hD h3 hct hcs hΓc hdtUt i, (dts_Gamma_bssnok_spec e i).2]
  simp only [ADM.dtGammaVecVac, grad]
  linear_combination (2 * e.alpha) * hmomc i

/-! ## Γ3  [A] (2.8.24): the momentum constraint in conformal variables -/

/-- [A] (2.8.14) solved for the physical connection, for the code's `s_Gamma_udd3_bssnok`. -/
theorem s_Gamma_udd3_bssnok_rel (e : Env K) (k i j : Fin 3) :
    e.s_Gamma_udd3 k i j = s_Gamma_udd3_bssnok e k i j
      + 2 * (delta k i * e.D j e.phi_bssnok + delta k j * e.D i e.phi_bssnok
          - e.gammadown3 i j * ∑ l, e.gammaup3 k l * e.D l e.phi_bssnok) := by
  revert k i j
  cases3 <;> cases3 <;> cases3 <;>
    (simp only [core_unfold, delta, Fin.sum_univ_three, Fin.isValue, Fin.reduceEq, if_true, if_false, ↓reduceIte]
     ring)

/-- `γ_jm A^mj = 0` for the code's `Aup3` (raised trace-free part). -/
theorem Aup3_traceless (e : Env K) (h3 : (3 : K) ≠ 0) (hsymG : Sym e.gammadown3) (hsymU : Sym e.gammaup3)
    (hUG : ∀ i k : Fin 3, ∑ j, e.gammaup3 i j * e.gammadown3 j k = delta i k)
    (hKup : e.Kup3 = Kup3 e) (hKt : e.Ktrace = Ktrace e) (hA : e.Adown3 = Adown3 e) :
    ∑ j, ∑ m, e.gammadown3 j m * Aup3 e m j = 0 := by
  have hT : e.Ktrace = ∑ i, ∑ j, e.gammaup3 i j * e.Kdown3 i j := by rw [hKt]; exact Ktrace_spec e
  have hKu : ∀ a b, e.Kup3 a b = ∑ i, ∑ j, e.gammaup3 i a * e.gammaup3 j b * e.Kdown3 i j := by
    intro a b; rw [hKup]; exact Kup3_spec e a b
  have hc : ∀ a b, ∑ m, ∑ j, e.gammaup3 a m * e.gammadown3 m j * e.gammaup3 j b = e.gammaup3 a b := by
    intro a b
    have key : ∑ m, ∑ j, e.gammaup3 a m * e.gammadown3 m j * e.gammaup3 j b
        = ∑ j, (∑ m, e.gammaup3 a m * e.gammadown3 m j) * e.gammaup3 j b := by
      simp only [Fin.sum_univ_three]; ring
    rw [key]
    simp only [hUG, delta]
    simp [Finset.sum_ite_eq]
  have h3tr := C06Deriv.trace_UG e.gammadown3 e.gammaup3 hsymG hUG
  have c00 := hc 0 0; have c01 := hc 0 1; have c02 := hc 0 2
  have c10 := hc 1 0; have c11 := hc 1 1; have c12 := hc 1 2
  have c20 := hc 2 0; have c21 := hc 2 1; have c22 := hc 2 2
  have u01 := hsymU 1 0; have u02 := hsymU 2 0; have u12 := hsymU 2 1
  have g01 := hsymG 1 0; have g02 := hsymG 2 0; have g12 := hsymG 2 1
  have h33 : (3 : K) * (1 / 3) = 1 := by field_simp
  simp only [Aup3_closed e hsymU hUG hKup hKt hA, hKu]
  simp only [Fin.sum_univ_three, u01, u02, u12, g01, g02, g12] at c00 c01 c02 c10 c11 c12 c20 c21 c22 h3tr hT ⊢
  linear_combination e.Kdown3 0 0 * c00 + e.Kdown3 0 1 * c01 + e.Kdown3 0 2 * c02 + e.Kdown3 1 0 * c10
    + e.Kdown3 1 1 * c11 + e.Kdown3 1 2 * c12 + e.Kdown3 2 0 * c20 + e.Kdown3 2 1 * c21 + e.Kdown3 2 2 * c22
    - hT - ((1 / 3) * e.Ktrace) * h3tr - e.Ktrace * h33

/-- **`Γ̃^j_jm = 0`** (the hypothesis `hΓ0` of Γ3) for the code's own connection and inverse metric, from
`∂_sφ = ∂_s(det γ)/(12 det γ)` (φ = (1/12) ln det γ, the same hypothesis as in `dtphi_bssnok_is_dt_logdet`):
`Γ^j_jm = ½γ^jk∂_mγ_jk = 6∂_mφ` by Jacobi's formula, and [A] (2.8.14) subtracts exactly `6∂_mφ`. -/
theorem s_Gamma_udd3_bssnok_trace_zero (e : Env K) (h12 : (12 : K) ≠ 0) (hsymG : Sym e.gammadown3)
    (hdet : gammadet e ≠ 0) (hU : e.gammaup3 = gammaup3 e) (hΓ : e.s_Gamma_udd3 = s_Gamma_udd3 e)
    (hΓt : e.s_Gamma_udd3_bssnok = s_Gamma_udd3_bssnok e)
    (hGU : ∀ i k : Fin 3, ∑ j, e.gammadown3 i j * e.gammaup3 j k = delta i k)
    (hdφ : ∀ s : Fin 3, e.D s e.phi_bssnok
        = C06Deriv.ddet3 e.gammadown3 (fun a b => e.D s (e.gammadown3 a b)) / (12 * gammadet e))
    (m : Fin 3) : ∑ j, e.s_Gamma_udd3_bssnok j j m = 0 := by
  have h01 := hsymG 1 0; have h02 := hsymG 2 0; have h12' := hsymG 2 1
  have h1 : gammadet e = C06Deriv.det3 e.gammadown3 := by
    simp only [C06Deriv.det3, core_unfold, h01, h02, h12']; ring
  have hd := hdet
  simp only [core_unfold, h01, h02, h12'] at hd
  have hUc : ∀ a b, e.gammaup3 a b * C06Deriv.det3 e.gammadown3 = C06Deriv.cof3 e.gammadown3 a b := by
    rw [hU]
    cases3 <;> cases3 <;>
      (simp only [C06Deriv.cof3, C06Deriv.det3, core_unfold, h01, h02, h12']
       rw [div_mul_eq_mul_div, div_eq_iff hd]
       ring)
  have hsymU : Sym e.gammaup3 := by rw [hU, gammaup3_is_inverse]; exact inverse3_symm e e.gammadown3 hsymG
  rw [h1] at hdφ hdet
  have htr : ∀ m, ∑ j, e.s_Gamma_udd3 j j m = 6 * e.D m e.phi_bssnok := by
    intro m
    have hc : ∀ j, e.s_Gamma_udd3 j j m = christoffel2 e.D e.gammaup3 e.gammadown3 j j m := by
      intro j; rw [hΓ]; exact C05L.s_Gamma_udd3_spec e hsymG j j m
    simp only [hc]
    rw [C06Deriv.christoffel_trace e.D e.gammaup3 e.gammadown3 hsymU m]
    exact C06Deriv.half_trace_logdet e.gammadown3 e.gammaup3 (fun a b => e.D m (e.gammadown3 a b)) _ hdet h12 hUc (hdφ m)
  exact C06Deriv.Gammat_trace_zero e.s_Gamma_udd3 e.s_Gamma_udd3_bssnok e.gammadown3 e.gammaup3 (grad e e.phi_bssnok)
    hsymG hGU (fun k i j => by rw [hΓt]; exact s_Gamma_udd3_bssnok_rel e k i j) htr m

/-- **Γ3  [A] (2.8.24)**: the divergence the code takes for `Momentumup3` in conformal variables,
`D_j(K^ij − γ^ijK) = ψ⁻⁴ (∂_jÃ^ij + Γ̃^i_jkÃ^jk + 6Ã^ij∂_jφ − (2/3)γ̃^ij∂_jK)`.
Hypotheses: product rule for `e.D`, `∂p = −4p∂φ` (p = ψ⁻⁴, q = ψ⁴), `D_cγ^ab = 0` (C05.metric_compat_uu), the code's own
`s_Gamma_udd3_bssnok`, `Aup3`, `Adown3`, `Kup3`, `Ktrace`, conformal weights, two-sided inverse, symmetric `γ_ij`, `γ^ij`, `Ã^ij`,
and `Γ̃^j_jm = 0` (unit determinant of `γ̃_ij`; derived in `s_Gamma_udd3_bssnok_trace_zero`). -/
theorem momentum_conformal (e : Env K) (hD : ∀ s, C06Deriv.Deriv (e.D s)) (p q : K) (h3 : (3 : K) ≠ 0)
    (hsymG : Sym e.gammadown3) (hsymU : Sym e.gammaup3) (hsymA : Sym e.Aup3_bssnok)
    (hUG : ∀ i k : Fin 3, ∑ j, e.gammaup3 i j * e.gammadown3 j k = delta i k)
    (hGU : ∀ i k : Fin 3, ∑ j, e.gammadown3 i j * e.gammaup3 j k = delta i k)
    (hKup : e.Kup3 = Kup3 e) (hKt : e.Ktrace = Ktrace e) (hA : e.Adown3 = Adown3 e) (hAu : e.Aup3 = Aup3 e)
    (hpq : p * q = 1)
    (hUt : ∀ i j, e.gammaup3_bssnok i j = q * e.gammaup3 i j)
    (hAut : ∀ i j, e.Aup3_bssnok i j = q * e.Aup3 i j)
    (hps : ∀ s, e.D s p = -4 * p * e.D s e.phi_bssnok)
    (hcompat : ∀ c a b, covdUU e.s_Gamma_udd3 (pd2 e.D e.gammaup3) e.gammaup3 c a b = 0)
    (hΓt : e.s_Gamma_udd3_bssnok = s_Gamma_udd3_bssnok e)
    (hΓ0 : ∀ m, ∑ j, e.s_Gamma_udd3_bssnok j j m = 0) (i : Fin 3) :
    ADM.momentumVac e.D e.s_Gamma_udd3 e.Kup3 e.gammaup3 e.Ktrace i
      = p * ((∑ j, e.D j (e.Aup3_bssnok i j)) + (∑ j, ∑ k, e.s_Gamma_udd3_bssnok i j k * e.Aup3_bssnok j k)
          + 6 * (∑ j, e.Aup3_bssnok i j * e.D j e.phi_bssnok)
          - (2 / 3) * ∑ j, e.gammaup3_bssnok i j * e.D j e.Ktrace) := by
  have hAc : ∀ a b, e.Aup3 a b = e.Kup3 a b - (1 / 3) * e.gammaup3 a b * e.Ktrace := by
    intro a b; rw [hAu]; exact Aup3_closed e hsymU hUG hKup hKt hA a b
  have hUp : ∀ a b, e.gammaup3 a b = p * e.gammaup3_bssnok a b := by
    intro a b; rw [hUt]; linear_combination (-e.gammaup3 a b) * hpq
  have hM : ∀ a b, ADM.momTensor e.Kup3 e.gammaup3 e.Ktrace a b
      = p * e.Aup3_bssnok a b - (2 / 3) * e.gammaup3 a b * e.Ktrace := by
    have h33 : (3 : K) * (1 / 3) = 1 := by field_simp
    intro a b; rw [hAut, hAc]; simp only [ADM.momTensor]
    linear_combination (-(e.Kup3 a b - 1 / 3 * e.gammaup3 a b * e.Ktrace)) * hpq
      + (e.gammaup3 a b * e.Ktrace) * h33
  have htl : ∑ j, ∑ m, e.gammadown3 j m * e.Aup3_bssnok m j = 0 := by
    have h := Aup3_traceless e h3 hsymG hsymU hUG hKup hKt hA
    rw [← hAu] at h
    simp only [hAut, Fin.sum_univ_three] at h ⊢
    linear_combination q * h
  have hfun : ADM.momTensor e.Kup3 e.gammaup3 e.Ktrace
      = fun a b => p * e.Aup3_bssnok a b - (2 / 3) * e.gammaup3 a b * e.Ktrace := by
    funext a b; exact hM a b
  have := C06Deriv.mom_conformal e.s_Gamma_udd3 e.s_Gamma_udd3_bssnok e.gammadown3 e.gammaup3 e.gammaup3_bssnok
    e.Aup3_bssnok (ADM.momTensor e.Kup3 e.gammaup3 e.Ktrace) (pd2 e.D e.gammaup3) (pd2 e.D e.Aup3_bssnok)
    (pd2 e.D (ADM.momTensor e.Kup3 e.gammaup3 e.Ktrace)) (grad e e.phi_bssnok) (grad e e.Ktrace) e.Ktrace p hsymG hsymA
    hGU hUp hM
    (fun c a b => by
      have h := hD c
      simp only [pd2, grad, hfun]
      rw [h.sub, h.mul, mul_assoc, h.const_mul _ _ (h.two_thirds h3), h.mul, hps c])
    hcompat (fun k i j => by rw [hΓt]; exact s_Gamma_udd3_bssnok_rel e k i j) hΓ0 htl i
  simp only [pd2, grad] at this
  simp only [ADM.momentumVac]
  exact this

/-- **`hmomc` ⟸ `Momentumup3 = 0`**: the momentum constraint of the code (matter branch), with Γ3, gives exactly the
hypothesis `hmomc` of `dts_Gamma_bssnok_is_dt`  (`e^{4φ} = ψ⁴ = q`). -/
theorem momc_of_Momentum_zero (e : Env K) (p q : K) (hpq : p * q = 1) (hexp : e.expF (4 * e.phi_bssnok) = q)
    (hconf : ∀ i, ADM.momentumVac e.D e.s_Gamma_udd3 e.Kup3 e.gammaup3 e.Ktrace i
      = p * ((∑ j, e.D j (e.Aup3_bssnok i j)) + (∑ j, ∑ k, e.s_Gamma_udd3_bssnok i j k * e.Aup3_bssnok j k)
          + 6 * (∑ j, e.Aup3_bssnok i j * e.D j e.phi_bssnok)
          - (2 / 3) * ∑ j, e.gammaup3_bssnok i j * e.D j e.Ktrace))
    (hmom : ∀ i, Momentumup3__dflt_matter e i = 0) (i : Fin 3) :
    ∑ j, e.D j (e.Aup3_bssnok i j)
      = -(∑ j, ∑ k, e.s_Gamma_udd3_bssnok i j k * e.Aup3_bssnok j k)
        - 6 * (∑ j, e.Aup3_bssnok i j * e.D j e.phi_bssnok)
        + (2 / 3) * (∑ j, e.gammaup3_bssnok i j * e.D j e.Ktrace)
        + e.kappa * e.expF (4 * e.phi_bssnok) * e.fluxup3_n i := by
  have h := hmom i
  rw [Momentumup3_matter_vs_vacuum, (Momentumup3_spec e i).2, hconf i] at h
  rw [hexp]
  linear_combination q * h + (-((∑ j, e.D j (e.Aup3_bssnok i j))
    + (∑ j, ∑ k, e.s_Gamma_udd3_bssnok i j k * e.Aup3_bssnok j k)
    + 6 * (∑ j, e.Aup3_bssnok i j * e.D j e.phi_bssnok)
    - (2 / 3) * ∑ j, e.gammaup3_bssnok i j * e.D j e.Ktrace)) * hpq

/-! ## Non-vacuity

The jet-level hypotheses have non-trivial instances: `C06Deriv.ExMom` (Γ3: conformally flat point with `∂φ ≠ 0`, non-diagonal
`Ã^ij`, both sides `37/12`); the jet identities `dt_GammaVec_jets`, `dt_conformal_inverse_metric` only assume symmetric second
derivatives / the defining relations.  The operator hypotheses (`Deriv`, commutation) are satisfiable over ℚ only by the
zero operators (static flat point `exStatic` of Props/C06b.lean); over a differential field by the true derivatives. -/
example :
    let Dt : ℚ → ℚ := fun _ => 0
    (∀ s x, Dt (exStatic.D s x) = exStatic.D s (Dt x))
    ∧ (∀ s r x, exStatic.D s (exStatic.D r x) = exStatic.D r (exStatic.D s x))
    ∧ exStatic.s_Gamma_bssnok = s_Gamma_bssnok exStatic
    ∧ exStatic.Aup3 = Aup3 exStatic ∧ (∀ i j, exStatic.Aup3_bssnok i j = 1 * exStatic.Aup3 i j)
    ∧ Sym exStatic.Aup3_bssnok
    ∧ (∀ i j, Dt (exStatic.gammaup3 i j) = dtgammaup3 exStatic i j)
    ∧ (∀ i j, Dt (exStatic.gammaup3_bssnok i j)
        = lieUU exStatic.betaup3 (dβ exStatic) (pd2 exStatic.D exStatic.gammaup3_bssnok) exStatic.gammaup3_bssnok i j
          + (2 / 3) * divβ (dβ exStatic) * exStatic.gammaup3_bssnok i j + 2 * exStatic.alpha * exStatic.Aup3_bssnok i j)
    ∧ (∀ i, ∑ j, exStatic.D j (exStatic.Aup3_bssnok i j)
        = -(∑ j, ∑ k, exStatic.s_Gamma_udd3_bssnok i j k * exStatic.Aup3_bssnok j k)
          - 6 * (∑ j, exStatic.Aup3_bssnok i j * exStatic.D j exStatic.phi_bssnok)
          + (2 / 3) * (∑ j, exStatic.gammaup3_bssnok i j * exStatic.D j exStatic.Ktrace)
          + exStatic.kappa * exStatic.expF (4 * exStatic.phi_bssnok) * exStatic.fluxup3_n i)
    ∧ (∀ c a b, covdUU exStatic.s_Gamma_udd3 (pd2 exStatic.D exStatic.gammaup3) exStatic.gammaup3 c a b = 0)
    ∧ exStatic.s_Gamma_udd3_bssnok = s_Gamma_udd3_bssnok exStatic
    ∧ (∀ m, ∑ j, exStatic.s_Gamma_udd3_bssnok j j m = 0)
    ∧ exStatic.expF (4 * exStatic.phi_bssnok) = 1
    ∧ (∀ i, Momentumup3__dflt_matter exStatic i = 0)
    ∧ gammadet exStatic ≠ 0 ∧ exStatic.gammaup3 = gammaup3 exStatic ∧ exStatic.s_Gamma_udd3 = s_Gamma_udd3 exStatic
    ∧ (∀ s : Fin 3, exStatic.D s exStatic.phi_bssnok
        = C06Deriv.ddet3 exStatic.gammadown3 (fun a b => exStatic.D s (exStatic.gammadown3 a b)) / (12 * gammadet exStatic)) := by
  intro Dt
  refine ⟨fun _ _ => rfl, fun _ _ _ => rfl, ?_, ?_, ?_, ?_, ?_, ?_, ?_, ?_, ?_, ?_, ?_, ?_, ?_, ?_, ?_, ?_⟩
  · funext i; revert i; cases3 <;> (simp only [exStatic, Env.zero, core_unfold]; norm_num)
  · funext a b; revert a b; cases3 <;> cases3 <;> (simp only [exStatic, Env.zero, core_unfold]; norm_num)
  · cases3 <;> cases3 <;> (simp only [exStatic, Env.zero, core_unfold]; norm_num)
  · cases3 <;> cases3 <;> (simp only [exStatic, Env.zero, core_unfold])
  · cases3 <;> cases3 <;> (simp only [Dt, exStatic, Env.zero, core_unfold]; norm_num)
  · cases3 <;> cases3 <;>
      (simp only [Dt, lieUU, divβ, dβ, pd2, exStatic, Env.zero, Fin.sum_univ_three, core_unfold]; norm_num)
  · cases3 <;> (simp only [exStatic, Env.zero, Fin.sum_univ_three, core_unfold]; norm_num)
  · cases3 <;> cases3 <;> cases3 <;>
      (simp only [covdUU, pd2, exStatic, Env.zero, Fin.sum_univ_three, core_unfold]; norm_num)
  · funext k i j; revert k i j
    cases3 <;> cases3 <;> cases3 <;> (simp only [exStatic, Env.zero, core_unfold]; norm_num)
  · cases3 <;> (simp only [exStatic, Env.zero, Fin.sum_univ_three, core_unfold]; norm_num)
  · simp only [exStatic]
  · cases3 <;> (simp only [exStatic, Env.zero, Fin.sum_univ_three, core_unfold]; norm_num)
  · simp only [exStatic, core_unfold]; norm_num
  · funext a b; revert a b; cases3 <;> cases3 <;> (simp only [exStatic, core_unfold]; norm_num)
  · funext k i j; revert k i j
    cases3 <;> cases3 <;> cases3 <;> (simp only [exStatic, Env.zero, core_unfold]; norm_num)
  · intro s
    simp only [C06Deriv.ddet3, exStatic_D, mul_zero, Finset.sum_const_zero, zero_div]

end AurelVerif.C06
