/-
Props/C10Tetrad.lean — property C10, part 7 (extension): the tetrads with the code's own
`norm = sqrt(abs(<u,u>))` (T12; hand model Model/WeylNP.lean + Model/WeylTetrad.lean, AST-pinned).
See Props/C10.lean for the overview.

  T12a  fluid-adapted tetrad orthonormal for `g` when `u` is unit timelike and the three intermediate
        Gram–Schmidt vectors are SPACELIKE (`<u_i,u_i> > 0`) — the "true non-zero norm" hypotheses of T6
        are discharged for `sqrt` exact on non-negative numbers (ordered field).
  T12b  quasi-Kinnersley triad orthonormal for a POSITIVE-DEFINITE γ when the three vectors to be normalised
        are non-zero (fails exactly where `v1 = (−y,x,0) = 0`, the axis).
  T12c  the assembled quasi-Kinnersley tetrad `e0 = (1,0,0,0)`, `e1 = (0,v2)`, `e2 = (0,v3)`, `e3 = (0,v1)`:
        spatial legs orthonormal for every `g` with spatial block γ (any lapse/shift), hence `m·m̄ = 1`,
        `m·m = m̄·m̄ = 0`; in the wave zone (`g_00 = −1`, `g_0i = 0`) the whole tetrad is orthonormal and the
        null tetrad built from it is a null tetrad.
-/
import AurelVerif.Lemmas.C10Tetrad
import Mathlib.Analysis.Real.Sqrt
import Mathlib.Tactic.NormNum
set_option linter.unusedSimpArgs false
set_option linter.unusedVariables false

namespace AurelVerif.C10
open AurelVerif.Tensor AurelVerif.Spec.Weyl AurelVerif.Model.WeylNP

section ordered
variable {K : Type} [Field K] [LinearOrder K] [IsStrictOrderedRing K]

/-- **T12a** fluid-adapted tetrad with the code's `norm4`. -/
theorem tetrad_fluid_orthonormal_spacelike (sq : K → K) (hsq : ∀ x, 0 ≤ x → sq x ^ 2 = x)
    (g : Fin 4 → Fin 4 → K) (hg : ∀ a b, g a b = g b a) (u v1 v2 v3 : Fin 4 → K) (h0 : ip g u u = -1)
    (h1 : 0 < ip g (gs4_u1 g u v1) (gs4_u1 g u v1))
    (h2 : 0 < ip g (gs4_u2 g (normOf sq g) u v1 v2) (gs4_u2 g (normOf sq g) u v1 v2))
    (h3 : 0 < ip g (gs4_u3 g (normOf sq g) u v1 v2 v3) (gs4_u3 g (normOf sq g) u v1 v2 v3)) :
    Orthonormal g (gramSchmidt4 g (normOf sq g) u v1 v2 v3) :=
  gramSchmidt4_orthonormal_of_spacelike sq hsq g hg u v1 v2 v3 h0 h1 h2 h3

/-- **T12b** quasi-Kinnersley triad with the code's `norm3`, positive-definite γ. -/
theorem tetrad_qK_triad_orthonormal_posdef (sq : K → K) (hsq : ∀ x, 0 ≤ x → sq x ^ 2 = x)
    (γ : Fin 3 → Fin 3 → K) (hγ : ∀ a b, γ a b = γ b a) (hpd : ∀ x : Fin 3 → K, x ≠ 0 → 0 < ip γ x x)
    (v1 v2 v3 : Fin 3 → K) (h1 : v1 ≠ 0) (h2 : gs3_u2 γ (normOf sq γ) v1 v2 ≠ 0)
    (h3 : gs3_u3 γ (normOf sq γ) v1 v2 v3 ≠ 0) (a b : Fin 3) :
    ip γ (gramSchmidt3 γ (normOf sq γ) v1 v2 v3 a) (gramSchmidt3 γ (normOf sq γ) v1 v2 v3 b)
      = if a = b then 1 else 0 :=
  gramSchmidt3_orthonormal_of_posdef sq hsq γ hγ hpd v1 v2 v3 h1 h2 h3 a b

end ordered

section assembly
variable {K : Type} [Field K]

/-- **T12c** (any lapse and shift) the spatial legs of the assembled quasi-Kinnersley tetrad are orthonormal
for `g`, and `m·m̄ = 1`, `m·m = m̄·m̄ = 0`. -/
theorem tetrad_qK_legs (g : Fin 4 → Fin 4 → K) (γ : Fin 3 → Fin 3 → K)
    (hb : ∀ i j : Fin 3, g i.succ j.succ = γ i j) (nrm : (Fin 3 → K) → K) (v1 v2 v3 : Fin 3 → K)
    (hon : ∀ a b, ip γ (gramSchmidt3 γ nrm v1 v2 v3 a) (gramSchmidt3 γ nrm v1 v2 v3 b) = if a = b then 1 else 0)
    (s I : K) (hs : 2 * s ^ 2 = 1) (hI : I ^ 2 = -1) :
    (∀ i j : Fin 3, ip g (tetradQK γ nrm v1 v2 v3 i.succ) (tetradQK γ nrm v1 v2 v3 j.succ) = if i = j then 1 else 0)
    ∧ ip g (nullVectorBase s I (tetradQK γ nrm v1 v2 v3)).m (nullVectorBase s I (tetradQK γ nrm v1 v2 v3)).mb = 1
    ∧ ip g (nullVectorBase s I (tetradQK γ nrm v1 v2 v3)).m (nullVectorBase s I (tetradQK γ nrm v1 v2 v3)).m = 0
    ∧ ip g (nullVectorBase s I (tetradQK γ nrm v1 v2 v3)).mb (nullVectorBase s I (tetradQK γ nrm v1 v2 v3)).mb = 0 := by
  have legs := tetradQK_legs g γ hb nrm v1 v2 v3 hon
  have l11 := legs 1 1; have l22 := legs 2 2; have l12 := legs 1 2; have l21 := legs 2 1
  simp only [succ3_1, succ3_2] at l11 l22 l12 l21
  exact ⟨legs, nullQK_m_products g _ s I hs hI (by simpa using l11) (by simpa using l22) (by simpa using l12)
    (by simpa using l21)⟩

/-- **T12c** (wave zone) the whole quasi-Kinnersley tetrad is orthonormal and `null_vector_base` of it is a
null tetrad. -/
theorem tetrad_qK_wavezone (g : Fin 4 → Fin 4 → K) (γ : Fin 3 → Fin 3 → K)
    (h00 : g 0 0 = -1) (h0i : ∀ i : Fin 3, g 0 i.succ = 0 ∧ g i.succ 0 = 0)
    (hb : ∀ i j : Fin 3, g i.succ j.succ = γ i j) (nrm : (Fin 3 → K) → K) (v1 v2 v3 : Fin 3 → K)
    (hon : ∀ a b, ip γ (gramSchmidt3 γ nrm v1 v2 v3 a) (gramSchmidt3 γ nrm v1 v2 v3 b) = if a = b then 1 else 0)
    (s I : K) (hs : 2 * s ^ 2 = 1) (hI : I ^ 2 = -1) :
    Orthonormal g (tetradQK γ nrm v1 v2 v3)
    ∧ IsNullTetrad g (nullVectorBase s I (tetradQK γ nrm v1 v2 v3)) := by
  have h := tetradQK_orthonormal_wavezone g γ h00 h0i hb nrm v1 v2 v3 hon
  exact ⟨h, nullVectorBase_isNull g s I hs hI _ h⟩

end assembly

/-! ### Non-vacuity -/

/-- over ℝ the square root is exact on non-negative numbers; Minkowski metric, observer at rest, coordinate
start vectors: all three intermediate vectors are the unit spacelike coordinate vectors. -/
def exMink : Fin 4 → Fin 4 → ℝ := fun a b => if a = b then (if a = 0 then -1 else 1) else 0

theorem exMink_ip (x y : Fin 4 → ℝ) : ip exMink x y = -(x 0 * y 0) + x 1 * y 1 + x 2 * y 2 + x 3 * y 3 := by
  simp [ip, exMink, Fin.sum_univ_four]
theorem exMink_n (x : Fin 4 → ℝ) (h : ip exMink x x = 1) : normOf Real.sqrt exMink x = 1 := by
  simp [normOf, h]
theorem exMink_u1 : gs4_u1 exMink (vec4 1 0 0 0) (vec4 0 1 0 0) = vec4 0 1 0 0 := by
  funext a; revert a; refine fin4_cases ?_ ?_ ?_ ?_ <;> simp [gs4_u1, exMink_ip]
theorem exMink_e1 : gs4_e1 exMink (normOf Real.sqrt exMink) (vec4 1 0 0 0) (vec4 0 1 0 0) = vec4 0 1 0 0 := by
  funext a
  simp only [gs4_e1, exMink_u1,
    exMink_n _ (show ip exMink (vec4 0 1 0 0) (vec4 0 1 0 0) = 1 by simp [exMink_ip]), div_one]
theorem exMink_u2 :
    gs4_u2 exMink (normOf Real.sqrt exMink) (vec4 1 0 0 0) (vec4 0 1 0 0) (vec4 0 0 1 0) = vec4 0 0 1 0 := by
  funext a; simp only [gs4_u2, exMink_e1]; revert a; refine fin4_cases ?_ ?_ ?_ ?_ <;> simp [exMink_ip]
theorem exMink_e2 :
    gs4_e2 exMink (normOf Real.sqrt exMink) (vec4 1 0 0 0) (vec4 0 1 0 0) (vec4 0 0 1 0) = vec4 0 0 1 0 := by
  funext a
  simp only [gs4_e2, exMink_u2,
    exMink_n _ (show ip exMink (vec4 0 0 1 0) (vec4 0 0 1 0) = 1 by simp [exMink_ip]), div_one]
theorem exMink_u3 : gs4_u3 exMink (normOf Real.sqrt exMink) (vec4 1 0 0 0) (vec4 0 1 0 0) (vec4 0 0 1 0)
    (vec4 0 0 0 1) = vec4 0 0 0 1 := by
  funext a; simp only [gs4_u3, exMink_e1, exMink_e2]; revert a
  refine fin4_cases ?_ ?_ ?_ ?_ <;> simp [exMink_ip]

example : (∀ x : ℝ, 0 ≤ x → Real.sqrt x ^ 2 = x) ∧ (∀ a b, exMink a b = exMink b a)
    ∧ ip exMink (vec4 1 0 0 0) (vec4 1 0 0 0) = -1
    ∧ 0 < ip exMink (gs4_u1 exMink (vec4 1 0 0 0) (vec4 0 1 0 0)) (gs4_u1 exMink (vec4 1 0 0 0) (vec4 0 1 0 0))
    ∧ 0 < ip exMink (gs4_u2 exMink (normOf Real.sqrt exMink) (vec4 1 0 0 0) (vec4 0 1 0 0) (vec4 0 0 1 0))
        (gs4_u2 exMink (normOf Real.sqrt exMink) (vec4 1 0 0 0) (vec4 0 1 0 0) (vec4 0 0 1 0))
    ∧ 0 < ip exMink
        (gs4_u3 exMink (normOf Real.sqrt exMink) (vec4 1 0 0 0) (vec4 0 1 0 0) (vec4 0 0 1 0) (vec4 0 0 0 1))
        (gs4_u3 exMink (normOf Real.sqrt exMink) (vec4 1 0 0 0) (vec4 0 1 0 0) (vec4 0 0 1 0) (vec4 0 0 0 1)) := by
  refine ⟨fun x hx => Real.sq_sqrt hx, fun a b => ?_, ?_, ?_, ?_, ?_⟩
  · unfold exMink; by_cases h : a = b
    · subst h; rfl
    · simp [h, Ne.symm h]
  · simp [exMink_ip]
  · rw [exMink_u1]; simp [exMink_ip]
  · rw [exMink_u2]; simp [exMink_ip]
  · rw [exMink_u3]; simp [exMink_ip]

/-- the flat γ is positive definite; at `(x,y,z) = (1,0,0)` the start vectors are `v1 = (−y,x,0) = (0,1,0)`,
`v2 = (x,y,z) = (1,0,0)`, and with `v3 = (0,0,1)` none of the vectors to be normalised vanishes. -/
def exFlat : Fin 3 → Fin 3 → ℝ := fun a b => if a = b then 1 else 0

theorem exFlat_ip (x y : Fin 3 → ℝ) : ip exFlat x y = x 0 * y 0 + x 1 * y 1 + x 2 * y 2 := by
  simp [ip, exFlat, Fin.sum_univ_three]
theorem exFlat_n (x : Fin 3 → ℝ) (h : ip exFlat x x = 1) : normOf Real.sqrt exFlat x = 1 := by
  simp [normOf, h]
theorem exFlat_w1 : gs3_w1 (normOf Real.sqrt exFlat) (vec3 0 1 0) = vec3 0 1 0 := by
  funext a
  simp only [gs3_w1, exFlat_n _ (show ip exFlat (vec3 0 1 0) (vec3 0 1 0) = 1 by simp [exFlat_ip]), div_one]
theorem exFlat_u2 : gs3_u2 exFlat (normOf Real.sqrt exFlat) (vec3 0 1 0) (vec3 1 0 0) = vec3 1 0 0 := by
  funext a; simp only [gs3_u2, exFlat_w1]; revert a; refine fin3_cases ?_ ?_ ?_ <;> simp [exFlat_ip]
theorem exFlat_w2 : gs3_w2 exFlat (normOf Real.sqrt exFlat) (vec3 0 1 0) (vec3 1 0 0) = vec3 1 0 0 := by
  funext a
  simp only [gs3_w2, exFlat_u2, exFlat_n _ (show ip exFlat (vec3 1 0 0) (vec3 1 0 0) = 1 by simp [exFlat_ip]),
    div_one]
theorem exFlat_u3 :
    gs3_u3 exFlat (normOf Real.sqrt exFlat) (vec3 0 1 0) (vec3 1 0 0) (vec3 0 0 1) = vec3 0 0 1 := by
  funext a; simp only [gs3_u3, exFlat_w1, exFlat_w2]; revert a; refine fin3_cases ?_ ?_ ?_ <;> simp [exFlat_ip]

example : (∀ a b, exFlat a b = exFlat b a) ∧ (∀ x : Fin 3 → ℝ, x ≠ 0 → 0 < ip exFlat x x)
    ∧ (vec3 0 1 0 : Fin 3 → ℝ) ≠ 0
    ∧ gs3_u2 exFlat (normOf Real.sqrt exFlat) (vec3 0 1 0) (vec3 1 0 0) ≠ 0
    ∧ gs3_u3 exFlat (normOf Real.sqrt exFlat) (vec3 0 1 0) (vec3 1 0 0) (vec3 0 0 1) ≠ 0 := by
  refine ⟨fun a b => ?_, fun x hx => ?_, fun h => ?_, fun h => ?_, fun h => ?_⟩
  · unfold exFlat; by_cases h : a = b
    · subst h; rfl
    · simp [h, Ne.symm h]
  · rw [exFlat_ip]
    by_contra hneg
    have h0 : x 0 * x 0 + x 1 * x 1 + x 2 * x 2 = 0 := by
      have : 0 ≤ x 0 * x 0 + x 1 * x 1 + x 2 * x 2 := by
        nlinarith [mul_self_nonneg (x 0), mul_self_nonneg (x 1), mul_self_nonneg (x 2)]
      linarith [not_lt.mp hneg]
    have a0 : x 0 = 0 := by nlinarith [mul_self_nonneg (x 0), mul_self_nonneg (x 1), mul_self_nonneg (x 2)]
    have a1 : x 1 = 0 := by nlinarith [mul_self_nonneg (x 0), mul_self_nonneg (x 1), mul_self_nonneg (x 2)]
    have a2 : x 2 = 0 := by nlinarith [mul_self_nonneg (x 0), mul_self_nonneg (x 1), mul_self_nonneg (x 2)]
    exact hx (funext (fin3_cases a0 a1 a2))
  · have := congrFun h 1; simp at this
  · rw [exFlat_u2] at h; have := congrFun h 0; simp at this
  · rw [exFlat_u3] at h; have := congrFun h 2; simp at this

/-- wave-zone metric = Minkowski, and `2 s² = 1`, `i² = −1` in `ℤ/17` as in Props/C10NP.lean; the identity triad is
orthonormal for the flat γ with `nrm = 1`. -/
example : ∀ a b : Fin 3, ip (fun a b : Fin 3 => (if a = b then 1 else 0 : ℚ))
      (gramSchmidt3 (fun a b : Fin 3 => (if a = b then 1 else 0 : ℚ)) (fun _ => 1) (vec3 1 0 0) (vec3 0 1 0) (vec3 0 0 1) a)
      (gramSchmidt3 (fun a b : Fin 3 => (if a = b then 1 else 0 : ℚ)) (fun _ => 1) (vec3 1 0 0) (vec3 0 1 0) (vec3 0 0 1) b)
    = if a = b then 1 else 0 := by
  refine fin3_cases (fin3_cases ?_ ?_ ?_) (fin3_cases ?_ ?_ ?_) (fin3_cases ?_ ?_ ?_) <;>
    simp [ip, gramSchmidt3, gs3_w1, gs3_w2, gs3_w3, gs3_u2, gs3_u3, Fin.sum_univ_three]

end AurelVerif.C10
