/-
Props/C02Core.lean — the program-independent property theorems of C02 ("requests never modify user inputs
or values already handed out").  ONLY property statements and non-vacuity
examples; the proofs are in Lemmas/Heap.lean.  The two theorems about the
code as it is now (D2 and the instance of T3) are in Props/C02.lean, which
imports the kernel-checked modules generated from the source.

Model (Model/Heap.lean, hand-written): every array / list / dict owns a root;
views share the root of their base; `aver r` counts in-place changes of array
contents, `cver r` in-place changes of any kind.  `exec` runs alias-IR
statements on a concrete heap; `request` runs one function as a user request.
`checkWith p S` is the may-alias check for a summary table `S`.

Generated (Gen/AliasIR.lean, regenerated from the ASTs of core.py, maths.py,
finitedifference.py, numerical.py, time.py, reading.py on every run): one
alias-IR body per function, `program`.  Gen/AliasSumm.lean: the summary table
found by the (untrusted) compiled analysis; Gen/AliasCheck.lean: `checkWith
program summaries = true`, decided by the kernel in chunks.

Every root that is `< h.next` when a request starts existed before it: the
arguments, everything in `rel.data` / attributes / globals, everything
returned earlier.  "Protected" in DESIGN.md = exactly these roots.
-/
import AurelVerif.Lemmas.Heap

namespace AurelVerif.C02
open AurelVerif.Heap

/-- **T1** `check_sound`.  For EVERY alias-IR program, EVERY summary table that passes the
check, EVERY public function of it, EVERY initial heap, argument list, oracle (branch
conditions, loop trip counts) and fuel: a request that finishes leaves the array-contents
version of every root that existed before the request unchanged; and every root the returned
value can reach is either such a root — then unmodified — or was allocated during the request. -/
theorem check_sound (p : Program) (S : List Summ) (hchk : checkWith p S = true)
    (f : FnId) (fn : Fn) (hf : p.fns[f]? = some fn) (hpub : fn.pub = true)
    (fuel : Nat) (args : List Val) (h : Heap) (ch : List Bool) (v : Val) (h' : Heap)
    (hreq : request p fuel f args h ch = some (v, h')) :
    (∀ r, r < h.next → h'.aver r = h.aver r) ∧
    (∀ r ∈ v.reach, (r < h.next ∧ h'.aver r = h.aver r) ∨ h.next ≤ r) :=
  check_sound_lemma p S hchk f fn hf hpub fuel args h ch v h' hreq

/-- T1 for the check as `aliasCheck` computes it (summaries iterated to a fixed point with
fuel = number of functions, then re-checked). -/
theorem check_sound_aliasCheck (p : Program) (hchk : aliasCheck p = true)
    (f : FnId) (fn : Fn) (hf : p.fns[f]? = some fn) (hpub : fn.pub = true)
    (fuel : Nat) (args : List Val) (h : Heap) (ch : List Bool) (v : Val) (h' : Heap)
    (hreq : request p fuel f args h ch = some (v, h')) :
    (∀ r, r < h.next → h'.aver r = h.aver r) ∧
    (∀ r ∈ v.reach, (r < h.next ∧ h'.aver r = h.aver r) ∨ h.next ≤ r) :=
  check_sound_lemma p p.summaries hchk f fn hf hpub fuel args h ch v h' hreq

/-- **T1'** the fresh half made precise: on a well-formed heap (every root that the
arguments and the cache mention has been allocated) every root of the returned value was
allocated before the end of the request, i.e. "fresh" means allocated *during* it. -/
theorem returned_allocated (p : Program) (f : FnId)
    (fuel : Nat) (args : List Val) (h : Heap) (ch : List Bool) (v : Val) (h' : Heap)
    (hargs : ∀ a ∈ args, ValWF h.next a) (hcache : ∀ kv ∈ h.cache, ValWF h.next kv.2)
    (hreq : request p fuel f args h ch = some (v, h')) :
    ValWF h'.next v ∧ (∀ kv ∈ h'.cache, ValWF h'.next kv.2) ∧ h.next ≤ h'.next :=
  request_wf p f fuel args h ch v h' hargs hcache hreq

/-- **T1c** save/read functions (`strict` and `cpub`): argument lists / dicts are protected
too — no in-place change of any kind to anything that existed before the call. -/
theorem check_sound_containers (p : Program) (S : List Summ) (hchk : checkWith p S = true)
    (f : FnId) (fn : Fn) (hf : p.fns[f]? = some fn) (hs : fn.strict = true) (hc : fn.cpub = true)
    (fuel : Nat) (args : List Val) (h : Heap) (ch : List Bool) (v : Val) (h' : Heap)
    (hreq : request p fuel f args h ch = some (v, h')) :
    ∀ r, r < h.next → h'.cver r = h.cver r :=
  check_sound_containers_lemma p S hchk f fn hf hs hc fuel args h ch v h' hreq

/-- **T1n** any function, public or not: a pre-existing root whose array contents changed is
(reachable from) an argument the function's summary names — never a cache entry, a global,
or an object the caller did not pass. -/
theorem check_sound_helpers (p : Program) (S : List Summ) (hchk : checkWith p S = true)
    (f : FnId) (fn : Fn) (hf : p.fns[f]? = some fn)
    (fuel : Nat) (args : List Val) (h : Heap) (ch : List Bool) (v : Val) (h' : Heap)
    (hreq : request p fuel f args h ch = some (v, h')) :
    ∀ r, r < h.next → h'.aver r ≠ h.aver r →
      ∃ i, (2 * i + 1 ∈ (getE Summ.bot S f).mutA ∧ r ∈ (getV args i).own) ∨
           (2 * i + 2 ∈ (getE Summ.bot S f).mutA ∧ r ∈ (getV args i).reach) :=
  check_sound_helpers_lemma p S hchk f fn hf fuel args h ch v h' hreq

/-- **T3** composition, for every program that passes the check and every user history of
`alloc` / `put` (hand an object to the library) / public requests (any fuel, any oracle): once
a root exists — an input, or something returned or cached by an earlier request — the version
of its array contents never changes again, whatever is requested afterwards. -/
theorem history_sound (p : Program) (S : List Summ) (hchk : checkWith p S = true)
    (pre post : List Step) (h₀ hm h' : Heap)
    (hpub : publicOnly p post)
    (hpre : run p h₀ pre = some hm) (hpost : run p hm post = some h') :
    ∀ r, r < hm.next → h'.aver r = hm.aver r :=
  history_sound_lemma p S hchk pre post h₀ hm h' hpub hpre hpost

/-! Non-vacuity and sharpness. -/

open Stmt in
/-- "Cdown = self[k]; Cdown[...] += …; return Cdown" — the defect fixed in e28c753. -/
def weylBad : Program :=
  { fns := [⟨seq (cached 1 7) (seq (mutate 1) (ret 1)), true, false, false⟩], keys := [] }

open Stmt in
/-- the same with `.copy()` -/
def weylGood : Program :=
  { fns := [⟨seq (cached 1 7) (seq (join 2 []) (seq (mutate 2) (ret 2))), true, false, false⟩], keys := [] }

example : aliasCheck weylBad = false := by decide +kernel
example : aliasCheck weylGood = true := by decide +kernel

/-- the check is not vacuous: the bad program really bumps the version of the cached root 0
(heap with one cached array, root 0, under key 7) -/
example :
    (request weylBad 10 0 [] ⟨fun _ => 0, fun _ => 0, 1, [(7, ⟨0, [0], [0]⟩)]⟩ []).map
      (fun r => (r.1.own, r.2.aver 0)) = some ([0], 1) := by decide +kernel

/-- and the good one returns a new root and leaves root 0 alone -/
example :
    (request weylGood 10 0 [] ⟨fun _ => 0, fun _ => 0, 1, [(7, ⟨0, [0], [0]⟩)]⟩ []).map
      (fun r => (r.1.own, r.2.aver 0)) = some ([1], 0) := by decide +kernel

open Stmt in
/-- a helper that multiplies its argument in place and returns it is accepted only as a
non-public function, and only while no caller passes it a protected object -/
example : aliasCheck { fns := [⟨seq (param 1 0) (seq (mutate 1) (ret 1)), false, false, false⟩,
                               ⟨seq (cached 1 3) (seq (call 2 0 [1]) (ret 2)), true, false, false⟩],
                       keys := [] } = false := by decide +kernel

end AurelVerif.C02
