/-
Props/C18c.lean — C18, the data part of one restart in `iterations()`: the
selection of "one of the variables in this file" and the lines written for it.
Since repository fix 9f9bdbc the keys are selected by their PARSED variable
name (`parse_hdf5_key(k)['variable'] == varkey`; `isVarKey` in the model); the
former substring test `varkey in k` selected the group "Parameters and Global
Attributes" for variables named A, r, s, … (TypeError) and mixed `alp` with
`dtalp`.  ONLY property statements, kernel-checked witnesses and non-vacuity
examples; proofs in Lemmas/C18Select.lean.

The variable considered (`varkey`) is the variable of the first key of the
representative file that `rx_key` matches, in the order h5py lists the keys.

KNOWN FINDING (witnesses `group_variables_from_one_chunk_file*` below): the
variables of a group are read from one chunk file.

NOT covered: the choice of the representative FILE (`foundFile`: first
single-variable file that is not NaNmask, else the first file of the first
group) is modelled and compared with the code but no theorem says that the
other files of the restart hold the same iterations.
-/
import AurelVerif.Props.C18
import AurelVerif.Lemmas.C18Select

namespace AurelVerif.C18
open AurelVerif.Catalog AurelVerif.CatalogLemmas

/-- **The selection is exact and cannot raise.**  The keys handed to the
iteration analysis are, in file order, exactly the keys of the file that
`rx_key` matches with variable `varkey` (`varKeys`), each with its parsed
fields: no key of the variable is lost, no key of another variable or thorn
and no non-dataset name (e.g. "Parameters and Global Attributes") is
selected, whatever substrings the names share. -/
theorem selection_is_by_parsed_variable (varkey : Str) (keys : List Str) :
    (keys.filter (isVarKey varkey)).mapM (fun k => (parseKey k).map fun i => (k, i)) = some (varKeys varkey keys) ∧
    (∀ p : Str × KeyInfo, p ∈ varKeys varkey keys ↔ p.1 ∈ keys ∧ parseKey p.1 = some p.2 ∧ p.2.var = varkey) ∧
    varKeys varkey (keys.filter (isVarKey varkey)) = varKeys varkey keys :=
  ⟨mapM_selected varkey keys, fun _ => mem_varKeys, varKeys_filter varkey keys⟩

/-- **The data part of a restart is a closed-form function of the keys of the
variable considered, and raises nothing.**  `f` is the representative file
(it exists: `dget (allFiles S) f = some keys`), `varkey` the variable of its
first parseable key, and every key of that variable carries a refinement
level (` rl=<n>`; a key without it makes `np.max` raise TypeError in the
code).  Then the lines are `Reading iterations in: f`, `it = min -> max` over
the variable's keys and the level lines of the variable's keys. -/
theorem restart_data_describes_the_variable (S : Sim) (f : Str) (keys : List Str) (varkey : Str)
    (hf : dget (allFiles S) f = some keys)
    (hv : (keys.findSome? fun k => (parseKey k).map (·.var)) = some varkey)
    (hrl : ∀ p ∈ varKeys varkey keys, p.2.rl ≠ none) :
    dataCore S (some (true, f)) =
      ([Line.reading f,
        Line.its (natMin ((varKeys varkey keys).map fun k => k.2.it)) (natMax ((varKeys varkey keys).map fun k => k.2.it))]
        ++ (levelLines (varKeys varkey keys) (natMax ((varKeys varkey keys).filterMap fun k => k.2.rl))).1, none) :=
  dataCore_closed S f keys varkey hf hv hrl

/-- **End to end for one level.**  Under the hypotheses above: if, as a set,
the iterations of the keys of the variable considered at level `rl` are the
arithmetic progression `a, a+d, …` (`n+2` terms, `d > 0`) — whatever the other
variables of the file, their iteration sets, the chunks and the regrids — the
line `rl = <rl> at it = np.arange(a, a+(n+1)d, d)` is among the lines written
for the restart; a level where they all carry the iteration `x` gives
`rl = <rl> at it = [x]`.  Conversely every level line written is the line
`levelOne` of some level of the variable's keys. -/
theorem restart_level_lines_describe_the_variable (S : Sim) (f : Str) (keys : List Str) (varkey : Str)
    (hf : dget (allFiles S) f = some keys)
    (hv : (keys.findSome? fun k => (parseKey k).map (·.var)) = some varkey)
    (hrl : ∀ p ∈ varKeys varkey keys, p.2.rl ≠ none) (rl : Nat) :
    (∀ a d n, 0 < d → (∀ x, x ∈ itsAt (varKeys varkey keys) rl ↔ x ∈ apList a d (n + 2)) →
      Line.arange rl a (a + (n + 1) * d) d ∈ (dataCore S (some (true, f))).1) ∧
    (∀ x, keysAt (varKeys varkey keys) rl ≠ [] → (∀ k ∈ keysAt (varKeys varkey keys) rl, k.2.it = x) →
      Line.single rl x ∈ (dataCore S (some (true, f))).1) ∧
    (∀ l ∈ (dataCore S (some (true, f))).1, l = Line.reading f ∨ (∃ a b, l = Line.its a b) ∨
      ∃ r, levelOne (varKeys varkey keys) r = .ok (some l)) := by
  rw [dataCore_closed S f keys varkey hf hv hrl]
  refine ⟨fun a d n hd hset => ?_, fun x hne hx => ?_, fun l hl => ?_⟩
  · have hle : rl ≤ natMax ((varKeys varkey keys).filterMap fun k => k.2.rl) :=
      level_le_rlmax ((hset a).mpr (apList_head_mem a d (n + 1)))
    exact List.mem_append_right _ ((mem_levelLines _ _ _).mpr
      ⟨rl, hle, scan_level_faithful_lemma _ rl a d n hd hset⟩)
  · have hle : rl ≤ natMax ((varKeys varkey keys).filterMap fun k => k.2.rl) := by
      cases hk : keysAt (varKeys varkey keys) rl with
      | nil => exact absurd hk hne
      | cons k ks =>
        apply level_le_rlmax (x := k.2.it)
        simp [itsAt, hk]
    exact List.mem_append_right _ ((mem_levelLines _ _ _).mpr ⟨rl, hle, scan_level_single_lemma _ rl x hne hx⟩)
  · rcases List.mem_append.mp hl with hl | hl
    · simp only [List.mem_cons, List.not_mem_nil, or_false] at hl
      rcases hl with rfl | rfl
      · exact Or.inl rfl
      · exact Or.inr (Or.inl ⟨_, _, rfl⟩)
    · obtain ⟨r, _, hr⟩ := (mem_levelLines _ _ _).mp hl
      exact Or.inr (Or.inr ⟨r, hr⟩)

/-- no key of the representative file matches `rx_key` (or it has no key):
the selection is empty, `np.min([])` raises ValueError after the line
`Reading iterations in:` has been written -/
theorem restart_data_no_parseable_key (S : Sim) (f : Str) (keys : List Str) (hf : dget (allFiles S) f = some keys)
    (hv : (keys.findSome? fun k => (parseKey k).map (·.var)) = none) :
    dataCore S (some (true, f)) = ([Line.reading f], some .valueError) :=
  dataCore_no_key S f keys hf hv

/-! ### the former failing inputs, on the model (the same inputs are run on the
real code by `excluded_points` of tools/props/C18.py) -/

def sAttr : Str := "Parameters and Global Attributes".toList

def mkKey (thorn var : String) (it : Nat) : Str := formatKey ⟨thorn.toList, var.toList, it, 0, false, some 0, none⟩

def noTables : Tables := { knownGroups := [], aurelToET := [] }

/-- one restart, one file `A.h5` with the variable `ML_BSSN::A` at iterations
0, 2, 4 and the attributes group every Carpet file contains ('A' occurs in
"Attributes": the substring test selected the group and raised TypeError) -/
def exAttr : Sim :=
  { simpath := "/d/".toList, simname := ['s'], entries := [sOutput ++ "0000".toList],
    restarts := [{ nbr := 0, files := [{ name := "A.h5".toList,
                                         keys := [mkKey "ML_BSSN" "A" 0, mkKey "ML_BSSN" "A" 2, mkKey "ML_BSSN" "A" 4, sAttr],
                                         hashOrder := [] }] }] }

theorem variable_named_like_the_attribute_group_is_catalogued :
    (iterationsCall noTables exAttr false emptyFS).2 =
      .ok { cat := [(0, [(kVar, .strs [['A']]), (kIts, .ints [0, 4]), (mRl ++ ['0'], .ints [0, 4, 2]),
                         (kChk, .ints [])])],
            overall := some [(mRl ++ ['0'], [[0, 4, 2]])] } := by
  decide +kernel

/-- one group file with `alp` at 0, 4, 8 and `dtalp` at 0, 2, 4, 6, 8 (the
substring test gave stride 2 for the variable considered, `alp`) -/
def exMixed : Sim :=
  { simpath := "/d/".toList, simname := ['s'], entries := [sOutput ++ "0000".toList],
    restarts := [{ nbr := 0, files := [{ name := "mythorn-lapses.h5".toList,
                                         keys := ([0, 4, 8].map (mkKey "MYTHORN" "alp")) ++
                                                 ([0, 2, 4, 6, 8].map (mkKey "MYTHORN" "dtalp")),
                                         hashOrder := ["alp".toList, "dtalp".toList] }] }] }

theorem variables_of_one_file_are_not_mixed :
    (iterationsCall noTables exMixed false emptyFS).1.itfile =
      some (printLines [.restart 0, .vars ["alp".toList, "dtalp".toList],
        .reading "/d/s/output-0000/s/mythorn-lapses.h5".toList, .its 0 8, .arange 0 0 8 4, .chk []]) := by
  decide +kernel

/-! ### KNOWN FINDING `group_variables_from_one_chunk_file` (not repaired in the
repository): `get_content` reads the variables of a group from ONE chunk file —
the first file of the group in the directory listing.  The same directories
are rebuilt and run on the real code on every run (`chunk_variable_witnesses`
of tools/props/C18.py). -/

def mkKeyC (var : String) (it c : Nat) : Str :=
  formatKey ⟨"HYDROBASE".toList, var.toList, it, 0, false, some 0, some c⟩

def hamFile (c : Nat) (vars : List (String × List Nat)) : H5File :=
  { name := "hydrobase-ham.file_".toList ++ toDec c ++ ".h5".toList,
    keys := (vars.map fun v => v.2.map fun it => mkKeyC v.1 it c).flatten ++ [sAttr],
    hashOrder := vars.map fun v => v.1.toList }

/-- one file per process; process files 1 and 2 appear with the regrid at
iteration 48, when only `H` is written (`HC`, `rho` have a larger out_every) -/
def ham0 : H5File := hamFile 0 [("H", [32, 40, 48, 56]), ("HC", [32]), ("rho", [32])]
def ham1 : H5File := hamFile 1 [("H", [48, 56])]
def ham2 : H5File := hamFile 2 [("H", [48, 56])]

def exChunks (files : List H5File) : Sim :=
  { simpath := "/d/".toList, simname := ['s'], entries := [sOutput ++ "0000".toList],
    restarts := [{ nbr := 0, files := files }] }

def pathHam (c : Nat) : Str := "/d/s/output-0000/s/hydrobase-ham.file_".toList ++ toDec c ++ ".h5".toList

/-- **the variable catalogue depends on the listing order and can lose
variables that are on disk**: with the late process file listed first, the
group is catalogued as `H` alone (`HC` and `rho` are in `file_0`); with
`file_0` listed first all three variables are found. -/
theorem group_variables_from_one_chunk_file :
    (getContent noTables (exChunks [ham1, ham0, ham2]) 0 true emptyFS).2 =
      [(["H".toList], [pathHam 0, pathHam 1, pathHam 2])] ∧
    (getContent noTables (exChunks [ham0, ham1, ham2]) 0 true emptyFS).2 =
      [(["H".toList, "HC".toList, "rho".toList], [pathHam 0, pathHam 1, pathHam 2])] := by
  decide +kernel

/-- independent of the listing order: each chunk file lacks a variable the
other one holds, and one of them is lost either way -/
theorem group_variables_from_one_chunk_file_any_order :
    (getContent noTables (exChunks [hamFile 0 [("H", [32, 40, 48, 56]), ("HC", [32, 48])],
        hamFile 1 [("H", [48, 56]), ("rho", [48])]]) 0 true emptyFS).2 =
      [(["H".toList, "HC".toList], [pathHam 0, pathHam 1])] ∧
    (getContent noTables (exChunks [hamFile 1 [("H", [48, 56]), ("rho", [48])],
        hamFile 0 [("H", [32, 40, 48, 56]), ("HC", [32, 48])]]) 0 true emptyFS).2 =
      [(["H".toList, "rho".toList], [pathHam 0, pathHam 1])] := by
  decide +kernel

/-! ### non-vacuity of `restart_data_describes_the_variable` / `restart_level_lines_describe_the_variable` -/

def exMixedFile : Str := "/d/s/output-0000/s/mythorn-lapses.h5".toList

def exMixedKeys : List Str := ([0, 4, 8].map (mkKey "MYTHORN" "alp")) ++ ([0, 2, 4, 6, 8].map (mkKey "MYTHORN" "dtalp"))

example : dget (allFiles exMixed) exMixedFile = some exMixedKeys ∧
    (exMixedKeys.findSome? fun k => (parseKey k).map (·.var)) = some "alp".toList ∧
    (varKeys "alp".toList exMixedKeys).map (fun p => p.2.it) = [0, 4, 8] ∧
    (∀ x, x ∈ itsAt (varKeys "alp".toList exMixedKeys) 0 ↔ x ∈ apList 0 4 (1 + 2)) := by
  refine ⟨by decide +kernel, by decide +kernel, by decide +kernel, ?_⟩
  have h1 : itsAt (varKeys "alp".toList exMixedKeys) 0 = [0, 4, 8] := by decide +kernel
  have h2 : apList 0 4 (1 + 2) = [0, 4, 8] := by decide +kernel
  intro x; rw [h1, h2]

example : ∀ p ∈ varKeys "alp".toList exMixedKeys, p.2.rl ≠ none := by decide +kernel

/-- `restart_data_no_parseable_key`: a file that holds the attributes group only -/
example : ([sAttr].findSome? fun k => (parseKey k).map (·.var)) = none := by decide +kernel

end AurelVerif.C18
