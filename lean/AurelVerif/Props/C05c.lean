/-
Props/C05c.lean — property C05, T5 (second half): the INPUT CHECKS of `Lie_beta`
(which `indexing` strings / shapes are accepted, which exception is raised otherwise).
Theorems about the HAND-WRITTEN model `Model/LieValidate.lean` (written literally after core.py,
tied to the real method by the correspondence harness of tools/props/C05.py through
Driver/C05.lean).  Core Lean only.

  lie_validate_documented        the nine documented patterns are accepted (right rank, dimension), for every
                                 trailing grid shape
  lie_validate_sound             what an accepted input looks like
  lie_validate_rank_pos          accepted with rank ≥ 1  ⇒  `indexing` is one of the eight documented non-scalar
                                 strings and the leading `rank` entries of the shape equal the dimension
  lie_validate_rejects           decision table of representative rejected inputs (exception class)
  lie_validate_rank0_leak        NOT in the docstring: any `indexing` of the form `<…>s_` (e.g. 's_', 'st_', 'xs_')
                                 passes the checks with rank 0 and is treated as a scalar, and a prefix other than
                                 's' / 'st' with indices raises `KeyError` (not the documented `ValueError`)
-/
import AurelVerif.Model.LieValidate

namespace AurelVerif.C05
open AurelVerif.LieValidate

/-- the nine documented patterns pass the checks with the right rank and dimension, whatever the
trailing (grid) part of the shape. -/
theorem lie_validate_documented (rest : List Nat) :
    validate [] rest = .ok 0 0
    ∧ validate ['s', '_', 'u'] (3 :: rest) = .ok 1 3 ∧ validate ['s', '_', 'd'] (3 :: rest) = .ok 1 3
    ∧ validate ['s', 't', '_', 'u'] (4 :: rest) = .ok 1 4 ∧ validate ['s', 't', '_', 'd'] (4 :: rest) = .ok 1 4
    ∧ validate ['s', '_', 'u', 'u'] (3 :: 3 :: rest) = .ok 2 3
    ∧ validate ['s', '_', 'u', 'd'] (3 :: 3 :: rest) = .ok 2 3
    ∧ validate ['s', '_', 'd', 'u'] (3 :: 3 :: rest) = .ok 2 3
    ∧ validate ['s', '_', 'd', 'd'] (3 :: 3 :: rest) = .ok 2 3 :=
  ⟨rfl, rfl, rfl, rfl, rfl, rfl, rfl, rfl, rfl⟩

/-- representative rejected inputs and the exception class raised. -/
theorem lie_validate_rejects :
    validate ['s', 't', '_', 'u', 'u'] [4, 4] = .notImplemented
    ∧ validate ['s', '_', 'u', 'u', 'u'] [3, 3, 3] = .notImplemented
    ∧ validate ['s', '_', 'x'] [3] = .valueError
    ∧ validate ['u'] [3] = .valueError
    ∧ validate ['s', '_', '_', 'u'] [3] = .valueError
    ∧ validate ['s', '_', 'u'] [4] = .valueError
    ∧ validate ['s', 't', '_', 'u'] [3] = .valueError
    ∧ validate ['s', '_', 'u', 'd'] [3, 4] = .valueError
    ∧ validate ['s', '_', 'u'] [] = .indexError := by decide

/-- behaviour that the docstring ("Must be one of …") does not announce. -/
theorem lie_validate_rank0_leak :
    validate ['s', '_'] [5] = .ok 0 0 ∧ validate ['s', 't', '_'] [] = .ok 0 0
    ∧ validate ['x', 's', '_'] [7, 7] = .ok 0 0
    ∧ validate ['x', 's', '_', 'u'] [3] = .keyError ∧ validate ['s', 's', '_', 'u', 'd'] [3, 3] = .keyError := by
  decide

/-! ### soundness -/

theorem checkShape_none (dim : Option Nat) : ∀ (r : Nat) (shape : List Nat), checkShape dim r shape = none →
    r = 0 ∨ ∃ d, dim = some d ∧ shape.take r = List.replicate r d := by
  intro r
  induction r with
  | zero => intro _ _; exact Or.inl rfl
  | succ r ih =>
    intro shape h
    cases shape with
    | nil => simp [checkShape] at h
    | cons n rest =>
      cases dim with
      | none => simp [checkShape] at h
      | some d =>
        simp only [checkShape] at h
        split at h
        · rename_i hn
          refine Or.inr ⟨d, rfl, ?_⟩
          rcases ih rest h with h0 | ⟨d', hd', ht⟩
          · subst h0; simp [hn, List.replicate]
          · cases hd'; simp [hn, List.replicate, ht]
        · cases h

theorem dimOf_some (pre : List Char) (d : Nat) (h : dimOf pre = some d) :
    (pre = ['s'] ∧ d = 3) ∨ (pre = ['s', 't'] ∧ d = 4) := by
  unfold dimOf at h
  split at h
  · rename_i hp; cases h; exact Or.inl ⟨hp, rfl⟩
  · split at h
    · rename_i hp; cases h; exact Or.inr ⟨hp, rfl⟩
    · cases h

/-- **what an accepted input looks like**: either `indexing = ''` (rank 0), or it contains exactly one
underscore, its part after the underscore consists of at most two characters 'u'/'d' (`rank` of them), and —
when `rank ≥ 1` — the part before is 's' (dimension 3) or 'st' (dimension 4, rank 1 only) and the leading
`rank` entries of the shape equal the dimension. -/
theorem lie_validate_sound (ix : List Char) (shape : List Nat) (r d : Nat) (h : validate ix shape = .ok r d) :
    (ix = [] ∧ r = 0) ∨
    (countU ix = 1 ∧ r = (split1 ix).2.length ∧ r ≤ 2 ∧ (split1 ix).2.all isUD = true
      ∧ (r = 0 ∨ (((split1 ix).1 = ['s'] ∧ d = 3) ∨ ((split1 ix).1 = ['s', 't'] ∧ d = 4 ∧ r = 1))
            ∧ shape.take r = List.replicate r d)) := by
  unfold validate at h
  split at h
  · rename_i h0; cases h; exact Or.inl ⟨h0, rfl⟩
  · split at h
    · rename_i hc
      have hcnt : countU ix = 1 := by
        simp only [Bool.and_eq_true, beq_iff_eq] at hc; exact hc.2
      unfold validateParts at h
      split at h
      · cases h
      · rename_i hlen
        split at h
        · cases h
        · rename_i hall
          split at h
          · cases h
          · rename_i hst
            split at h
            · rename_i o ho; cases h
              -- `checkShape … = some (ok r d)` is impossible: it only returns errors
              exfalso
              revert ho
              generalize (split1 ix).2.length = n
              induction n generalizing shape with
              | zero => simp [checkShape]
              | succ n ih =>
                cases shape with
                | nil => simp [checkShape]
                | cons m rest =>
                  cases hd : dimOf (split1 ix).1 with
                  | none => simp [checkShape]
                  | some dd =>
                    simp only [checkShape]
                    split
                    · intro hh; rw [hd] at ih; exact ih rest hh
                    · simp
            · rename_i hcs
              cases h
              refine Or.inr ⟨hcnt, rfl, by omega, by simpa using hall, ?_⟩
              rcases checkShape_none _ _ _ hcs with h0 | ⟨dd, hdd, htake⟩
              · exact Or.inl h0
              · by_cases hz : (split1 ix).2.length = 0
                · exact Or.inl hz
                · refine Or.inr ⟨?_, ?_⟩
                  · simp only [hz, if_false, hdd, Option.getD_some]
                    rcases dimOf_some _ _ hdd with ⟨hp, hd3⟩ | ⟨hp, hd4⟩
                    · exact Or.inl ⟨hp, hd3⟩
                    · refine Or.inr ⟨hp, hd4, ?_⟩
                      have : ¬ ((split1 ix).2.length = 2) := by
                        intro h2; apply hst; simp [h2, hp]
                      omega
                  · simp only [hz, if_false, hdd, Option.getD_some]; exact htake
    · cases h

/-- a string with at least one underscore is `before ++ '_' :: after`. -/
theorem split1_join : ∀ ix : List Char, 0 < countU ix → ix = (split1 ix).1 ++ '_' :: (split1 ix).2 := by
  intro ix
  induction ix with
  | nil => intro h; simp [countU] at h
  | cons c cs ih =>
    intro h
    by_cases hc : c = '_'
    · subst hc; simp [split1]
    · have h' : 0 < countU cs := by
        simp only [countU, List.count_cons] at h ⊢
        have : (c == '_') = false := by simpa using hc
        simpa [this] using h
      have := ih h'
      simp only [split1] at this ⊢
      have hne : (c != '_') = true := by simpa using hc
      simp only [List.takeWhile_cons, List.dropWhile_cons, hne, if_true, List.cons_append]
      exact congrArg (List.cons c) this

theorem ud_lists (post : List Char) (hall : post.all isUD = true) (hlen : post.length ≤ 2) (hpos : 0 < post.length) :
    post = ['u'] ∨ post = ['d'] ∨ post = ['u', 'u'] ∨ post = ['u', 'd'] ∨ post = ['d', 'u'] ∨ post = ['d', 'd'] := by
  have key : ∀ c : Char, isUD c = true → c = 'u' ∨ c = 'd' := by
    intro c hc; simpa [isUD] using hc
  match post, hall, hlen, hpos with
  | [a], hall, _, _ =>
    have ha := key a (by simpa using hall)
    rcases ha with rfl | rfl <;> simp
  | [a, b], hall, _, _ =>
    have hab : isUD a = true ∧ isUD b = true := by simpa using hall
    rcases key a hab.1 with rfl | rfl <;> rcases key b hab.2 with rfl | rfl <;> simp
  | _ :: _ :: _ :: _, _, hlen, _ => simp at hlen

/-- **accepted with rank ≥ 1 ⇒ documented**: `indexing` is one of the eight documented non-scalar strings, the
dimension is 3 ('s_…') or 4 ('st_…') and the leading `rank` entries of the shape equal it. -/
theorem lie_validate_rank_pos (ix : List Char) (shape : List Nat) (r d : Nat) (h : validate ix shape = .ok r d)
    (hr : 0 < r) :
    ((ix = ['s', '_', 'u'] ∨ ix = ['s', '_', 'd']) ∧ r = 1 ∧ d = 3
      ∨ (ix = ['s', 't', '_', 'u'] ∨ ix = ['s', 't', '_', 'd']) ∧ r = 1 ∧ d = 4
      ∨ (ix = ['s', '_', 'u', 'u'] ∨ ix = ['s', '_', 'u', 'd'] ∨ ix = ['s', '_', 'd', 'u'] ∨ ix = ['s', '_', 'd', 'd'])
          ∧ r = 2 ∧ d = 3)
    ∧ shape.take r = List.replicate r d := by
  rcases lie_validate_sound ix shape r d h with ⟨_, h0⟩ | ⟨hcnt, hrl, hr2, hall, hrest⟩
  · omega
  · rcases hrest with h0 | ⟨hpre, htake⟩
    · omega
    · refine ⟨?_, htake⟩
      have hj := split1_join ix (by omega)
      have hud := ud_lists _ hall (by omega) (by omega)
      rcases hpre with ⟨hp, hd⟩ | ⟨hp, hd, hr1⟩
      · rw [hp] at hj
        rcases hud with hu | hu | hu | hu | hu | hu <;> rw [hu] at hj hrl <;> simp at hrl <;> subst hrl <;> subst hd <;>
          simp [hj]
      · rw [hp] at hj
        rcases hud with hu | hu | hu | hu | hu | hu <;> rw [hu] at hj hrl <;> simp at hrl <;> subst hrl <;> subst hd <;>
          first | omega | (simp [hj])

end AurelVerif.C05
