/-
Props/C03.lean — property theorems for C03 (frozen inputs are never evicted;
clean-up bookkeeping is consistent).  ONLY statements and non-vacuity
examples; proofs are in Lemmas/Cache.lean.

Model: Model/Cache.lean (hand-written after core.py:185-323, time.py:366-382,
utils/memory.py), tied to the real AurelCore by the trace-replay
correspondence of tools/props/C03.py.

Every theorem is for EVERY state `s`, every key/value type, every size
functions `z.ksz z.sz1 z.sz2 z.scalar`, every importance map (any rationals),
every threshold, and every rounding `z.rnd` of the strain product satisfying
`RndOK` (`rnd 0 = 0`, `x ≤ 0 → rnd x ≤ 0`: exact arithmetic and IEEE binary64
both do, see `rnd64_ok`).  `1 ≤ s.period` is the property's quantifier
(`clear_cache_every_nbr_calc ≥ 1`); with period 0 the code raises
ZeroDivisionError and so does the model.
-/
import AurelVerif.Lemmas.Cache

namespace AurelVerif.C03
open AurelVerif.Cache AurelVerif.Cache.Dict

variable {κ ν : Type} [DecidableEq κ]
set_option linter.unusedSectionVars false

/-- **T1** clean-up terminates: the model's while loop is a structural
recursion on a fuel; started with `|last_accessed|` (as `cleanup` does) — or
any larger fuel — it never takes the fuel-exhausted branch, from ANY state
(no invariant needed); and a clean-up that returns has performed at most
`|last_accessed|` deletions in total (each one shortens `last_accessed`). -/
theorem cleanup_terminates (z : Sizes κ ν) (s : State κ ν) :
    cleanup z s ≠ .error .fuel
    ∧ (∀ fuel total ev, s.last.length ≤ fuel → loop z fuel s total ev ≠ .error .fuel)
    ∧ (z.RndOK → ∀ s' ev, cleanup z s = .ok (s', ev) → s'.last.length + ev.length ≤ s.last.length) :=
  ⟨cleanup_no_fuel z s, fun fuel total ev h => loop_no_fuel fuel s total ev h,
   fun hz _ _ h => (cleanup_spec hz h).2.2.2.2⟩

/-- **T2** clean-up never raises: under the invariant every `self.data[key]`
look-up and every `del` inside `cleanup_cache` hits (no KeyError), the stale
`key_to_remove` list is never used as a key (no TypeError), and with
`period ≥ 1` there is no ZeroDivisionError. -/
theorem cleanup_no_error (z : Sizes κ ν) (s : State κ ν) (hi : Inv s) (hp : 1 ≤ s.period) :
    ∃ s' ev, cleanup z s = .ok (s', ev) :=
  let ⟨r, h⟩ := cleanup_ok (z := z) hi hp; ⟨r.1, r.2, h⟩

/-- **T2'** the miss tail of `__getitem__` never raises either: after
`data[k] = v; count += 1; last_accessed[k] = count; cleanup_cache()` the final
`return self.data[k]` hits and returns the value just stored (the new entry
has age 0, hence strain 0, and is not evicted by its own clean-up). -/
theorem store_no_error (z : Sizes κ ν) (hz : z.RndOK) (s : State κ ν) (k : κ) (v : ν)
    (hi : Inv s) (hp : 1 ≤ s.period) : ∃ s' ev, store z s k v = .ok (s', ev, v) :=
  store_ok hz k v hi hp

/-! **T3** the invariant `keys(last_accessed) ⊆ keys(data)` ∧ no duplicate
keys is preserved by every operation. -/

theorem inv_hit (s : State κ ν) (k : κ) (hi : Inv s) (hk : k ∈ keys s.data) : Inv (hit s k) := hi.hit hk

theorem inv_store (z : Sizes κ ν) (hz : z.RndOK) (s s' : State κ ν) (k : κ) (v r : ν) (ev : List κ)
    (hi : Inv s) (h : store z s k v = .ok (s', ev, r)) : Inv s' := hi.store hz h

theorem inv_cleanup (z : Sizes κ ν) (hz : z.RndOK) (s s' : State κ ν) (ev : List κ)
    (hi : Inv s) (h : cleanup z s = .ok (s', ev)) : Inv s' := hi.cleanup hz h

theorem inv_freeze (s : State κ ν) (hi : Inv s) : Inv (freeze s) := hi.freeze

theorem inv_load (s : State κ ν) (kvs : List (κ × ν)) (hi : Inv s) : Inv (loadData s kvs) := hi.loadData kvs

/-- `rel.data[key] = values` (time.py:368) -/
theorem inv_assign (s : State κ ν) (k : κ) (v : ν) (hi : Inv s) : Inv (assign s k v) := hi.assign k v

/-- `rel.data[name] = function(rel); rel.var_importance[name] = 0` (time.py:381-382) -/
theorem inv_assignFrozen (s : State κ ν) (k : κ) (v : ν) (hi : Inv s) : Inv (assignFrozen s k v) :=
  hi.assignFrozen k v

theorem inv_setImp (s : State κ ν) (k : κ) (q : Rat) (hi : Inv s) : Inv (setImp s k q) := hi.setImp k q

/-- A fresh instance satisfies the invariant. -/
theorem inv_fresh (imp0 : Dict κ Rat) (period : Nat) (thr : Rat) : Inv (fresh (ν := ν) imp0 period thr) :=
  ⟨fun _ h => by simp [fresh] at h, by simp [fresh], by simp [fresh]⟩

/-- **paired deletion** clean-up removes exactly the same keys `ev` from `data`
and from `last_accessed`, and writes nothing else (count, importance map and
settings unchanged). -/
theorem cleanup_paired (z : Sizes κ ν) (hz : z.RndOK) (s s' : State κ ν) (ev : List κ)
    (h : cleanup z s = .ok (s', ev)) :
    s'.data = eraseAll s.data ev ∧ s'.last = eraseAll s.last ev
    ∧ s'.count = s.count ∧ s'.imp = s.imp ∧ s'.period = s.period ∧ s'.thr = s.thr :=
  let ⟨a, b, c, _⟩ := cleanup_spec hz h; ⟨a, b, c⟩

/-- **T5** clean-up only ever removes whole unfrozen entries: the new `data`
is an order-preserving sub-list of the old one (no entry added, changed or
reordered), every surviving key has its old value, every removed key has
strictly positive importance and a stamp more than one calculation old. -/
theorem only_whole_unfrozen (z : Sizes κ ν) (hz : z.RndOK) (s s' : State κ ν) (ev : List κ)
    (h : cleanup z s = .ok (s', ev)) :
    s'.data.Sublist s.data
    ∧ (∀ k, k ∉ ev → get? s'.data k = get? s.data k)
    ∧ (∀ k v, get? s'.data k = some v → get? s.data k = some v)
    ∧ (∀ k ∈ ev, 0 < impOf s k ∧ ∃ t, (k, t) ∈ s.last ∧ 1 < age s t)
    ∧ (∀ k, k ∈ keys s.data → k ∉ keys s'.data → k ∈ ev) := by
  obtain ⟨a, _, _, d, _⟩ := cleanup_spec hz h
  refine ⟨by rw [a]; exact eraseAll_sublist _ _, ?_, ?_, d, ?_⟩
  · intro k hk; rw [a, get?_eraseAll]; simp [hk]
  · intro k v hv
    rw [a, get?_eraseAll] at hv
    by_cases hk : k ∈ ev
    · simp [hk] at hv
    · simpa [hk] using hv
  · intro k hk hk'
    rw [a] at hk'
    exact Decidable.byContradiction fun hn => hk' (mem_keys_eraseAll.mpr ⟨hk, hn⟩)

/-- **T4 (one clean-up)** an entry of importance ≤ 0 (frozen = 0) survives
clean-up with the same value; no invariant needed. -/
theorem frozen_stays_cleanup (z : Sizes κ ν) (hz : z.RndOK) (s s' : State κ ν) (ev : List κ) (k : κ) (v : ν)
    (hv : get? s.data k = some v) (himp : impOf s k ≤ 0) (h : cleanup z s = .ok (s', ev)) :
    get? s'.data k = some v ∧ k ∉ ev :=
  let ⟨a, b⟩ := Frozen.cleanup hz ⟨hv, himp⟩ h; ⟨a.1, b⟩

/-- **T4 + T6** frozen entries stay: if `k` is cached with value `v` and has
importance 0, then after EVERY step (nested requests included) of EVERY
history `p` — requests of any keys with any nested bodies and values, any
clean-ups, freezes, changes of period / threshold / other keys' importance,
loads and assignments of other keys — `k` is still cached with the same `v`
and still has importance ≤ 0.  (`Keeps k` only excludes the user operations
that *themselves* overwrite `data[k]` or give `k` a positive importance: those
are not evictions.)  No hypothesis on the start state. -/
theorem frozen_stays (z : Sizes κ ν) (hz : z.RndOK) (p : Prog κ ν) (s : State κ ν) (k : κ) (v : ν)
    (tr : List (State κ ν)) (hp : p.AllOps (UserOp.Keeps k))
    (hv : get? s.data k = some v) (himp : impOf s k = 0) (h : run z s p = .ok tr) :
    ∀ s' ∈ tr, get? s'.data k = some v ∧ impOf s' k ≤ 0 := by
  have := run_stable (z := z) (P := fun s => Frozen s k v) (C := UserOp.Keeps k)
    (fun s k' hf _ => hf.hit k')
    (fun s0 s k' v' s1 ev r hf0 hnone hf hst => by
      have hne : k' ≠ k := fun e => by subst e; rw [hf0.1] at hnone; cases hnone
      exact hf.store hz hne hst)
    (fun s o s1 hf hk ho => hf.applyOp hz hk ho)
    p s tr hp ⟨hv, by rw [himp]; exact Rat.le_refl⟩ h
  exact this

/-- **T6 (no exception)** no history raises: started from a state satisfying
the invariant with period ≥ 1, every history whose period changes stay ≥ 1
runs to completion — no KeyError from clean-up or from the final
`return self.data[key]`, no ZeroDivisionError, no fuel exhaustion. -/
theorem history_safe (z : Sizes κ ν) (hz : z.RndOK) (p : Prog κ ν) (s : State κ ν)
    (hp : p.AllOps UserOp.PeriodOK) (hi : Inv s) (hper : 1 ≤ s.period) : ∃ tr, run z s p = .ok tr :=
  run_ok hz p s hp hi hper

/-- **T6 (invariant)** after every step of every history the age table
describes exactly entries that are still cached (`keys(last) ⊆ keys(data)`,
no duplicates). -/
theorem history_inv (z : Sizes κ ν) (hz : z.RndOK) (p : Prog κ ν) (s : State κ ν) (tr : List (State κ ν))
    (hi : Inv s) (h : run z s p = .ok tr) : ∀ s' ∈ tr, Inv s' :=
  run_stable (z := z) (P := Inv) (C := fun _ => True)
    (fun _ _ hi hk => hi.hit hk)
    (fun _ _ _ _ _ _ _ _ _ hi h => hi.store hz h)
    (fun _ _ _ hi _ h => hi.applyOp hz h)
    p s tr (allOps_true p) hi h

/-- The rounding used by the driver (IEEE binary64 round-to-nearest-even)
satisfies the hypothesis `RndOK` of the theorems above; so does exact
arithmetic. -/
theorem rnd64_ok : rnd64 0 = 0 ∧ ∀ x : Rat, x ≤ 0 → rnd64 x ≤ 0 := Cache.rnd64_ok

/-! ### Non-vacuity -/

/-- sizes: a value *is* its size; exact arithmetic -/
def zEx : Sizes Nat Nat := { scalar := 100, ksz := fun _ => 0, sz1 := id, sz2 := id, rnd := id }

theorem zEx_ok : zEx.RndOK := ⟨rfl, fun _ h => h⟩

/-- two frozen inputs (0, 1), three computed entries (2, 3, 4) of ages 7, 2, 3;
count 10, period 2 (tolerance 200), threshold 300 below the total size 460. -/
def sEx : State Nat Nat :=
  { data := [(0, 100), (1, 100), (2, 100), (3, 100), (4, 60)],
    last := [(0, 1), (2, 3), (3, 8), (4, 7)],
    count := 10, imp := [(0, 0), (1, 0)], period := 2, thr := 300 }

example : Inv sEx := ⟨by decide, by decide, by decide⟩

/-- both passes delete something: the first pass removes 2 (strain 700 > 200),
keeps 3 (200 ≯ 200) and 4 (180); the total 360 is still ≥ 300, so the loop
removes the entry of maximal strain, 3; then 260 < 300.  The frozen 0 and 1
stay although 0 is the oldest entry. -/
example : (match cleanup zEx sEx with
    | .ok (s', ev) => (ev, keys s'.data, s'.last)
    | .error _ => ([], [], [])) = ([2, 3], [0, 1, 4], [(0, 1), (4, 7)]) := by decide +kernel

/-- a history in which a frozen key is requested, a key is computed with
nested requests (3 and 4 are evicted by its clean-up), a direct clean-up and a
further miss (evicts 2); the frozen 0 and 1 stay; `frozen_stays` applies. -/
def pEx : Prog Nat Nat :=
  .get 0 .done 0 (.get 5 (.get 2 .done 100 (.get 0 .done 0 .done)) 100 (.op .cleanup (.get 6 .done 100 .done)))

example : pEx.AllOps (UserOp.Keeps 0) := by simp [pEx, Prog.AllOps, UserOp.Keeps]
example : (match run zEx sEx pEx with
    | .ok tr => tr.map (fun s => (keys s.data, s.count))
    | .error _ => []) =
    [([0, 1, 2, 3, 4], 10), ([0, 1, 2, 3, 4], 10), ([0, 1, 2, 3, 4], 10), ([0, 1, 2, 5], 11), ([0, 1, 2, 5], 11),
     ([0, 1, 5, 6], 12)] := by decide +kernel

end AurelVerif.C03
