/-
Props/C05dEx.lean — non-vacuity of the hypothesis lists of Props/C05d.lean (and of `C06.BssnokRicciHyp`, Props/C06f.lean).

A CURVED unit-determinant point: `γ = γ̃ = diag(F, 1/F, 1)` with `F = F(x)`, `F = 3`, `F' = 108`, `F'' = 5400` at the point, `ψ = 1`,
`φ = 0`; `γ⁻¹ = diag(1/F, F, 1)`.  The operator acts on VALUES by the table of the exact x-derivatives (`∂_y = ∂_z = 0`):
  `3 ↦ 108` (γ_xx, γ^yy), `1/3 ↦ −12` (γ_yy = γ^xx = 1/F: `−F'/F²`), `108 ↦ 5400` (∂_x∂_xγ_xx), `−12 ↦ 264` (`(1/F)'' = −F''/F² + 2F'²/F³`),
  `12 ↦ −264` (Γ̃^x = −∂_xγ^xx = F'/F²), `18 ↦ 252` (Γ^x_xx = F'/2F: `F''/2F − F'²/2F²`), `−18 ↦ −252` (Γ^y_xy = −F'/2F),
  `2 ↦ −116` (Γ^x_yy = F'/2F³: `F''/2F³ − 3F'²/2F⁴`), everything else `↦ 0`.
All hypotheses of `ricciConformal_is_ricci`, `s_Ricci_down3_bssnok_is_ricci`, `ricci_bssnok_split`, `uniMetric_of_code`,
`conf_connection_of_code` hold there with this NON-ZERO operator, and the Ricci tensor does not vanish.
The `*_of_deriv` theorems (hypothesis `Deriv`) are satisfiable over ℚ only by the zero operator (shown at a flat point); over a
differential field by the partial derivatives.
-/
import AurelVerif.Props.C05d

set_option linter.unusedSimpArgs false
set_option linter.unusedVariables false
set_option linter.unusedSectionVars false
set_option linter.unusedTactic false
set_option linter.unreachableTactic false
set_option linter.unnecessarySeqFocus false

namespace AurelVerif.C05
open AurelVerif.Gen.Core AurelVerif.Tensor AurelVerif.CoreTac AurelVerif.C08 AurelVerif.Spec.Covd
open AurelVerif.C05L (SymLow MetricOK ProdRuleInv Deriv DComm CurvRules ConfRules ConfWeights trDgamma
  UniMetric BssnRules ConfChain uVec)

def exBT (x : ℚ) : ℚ :=
  if x = 3 then 108 else if x = 1 / 3 then -12 else if x = 108 then 5400 else if x = -12 then 264
  else if x = 12 then -264 else if x = 18 then 252 else if x = -18 then -252 else if x = 2 then -116 else 0

def exBD (i : Fin 3) (x : ℚ) : ℚ := vec3 (exBT x) 0 0 i

def exBg : Fin 3 → Fin 3 → ℚ := vec3 (vec3 3 0 0) (vec3 0 (1 / 3) 0) (vec3 0 0 1)
def exBu : Fin 3 → Fin 3 → ℚ := vec3 (vec3 (1 / 3) 0 0) (vec3 0 3 0) (vec3 0 0 1)
def exBv : Fin 3 → ℚ := vec3 12 0 0

macro "exT_simp" : tactic =>
  `(tactic| simp only [exBD, exBT, exBg, exBu, exBv, christoffel2, christoffel1, gammaVec, delta, vec3_0, vec3_1, vec3_2,
      Fin.sum_univ_three, Fin.isValue, Fin.reduceEq, ↓reduceIte, if_true, if_false])

/-! ### textbook level -/

theorem exB_uniMetric : UniMetric exBD exBg exBu := by
  refine ⟨?_, ?_, ?_, ?_⟩
  · cases3 <;> cases3 <;> exT_simp
  · cases3 <;> cases3 <;> exT_simp
  · cases3 <;> cases3 <;> (exT_simp; norm_num)
  · cases3 <;> (exT_simp; norm_num)

theorem exB_gammaVec : ∀ i, exBv i = gammaVec exBD exBu i := by
  cases3 <;> (exT_simp; norm_num)

set_option maxHeartbeats 1000000 in
theorem exB_bssnRules : BssnRules exBD exBg exBu exBv := by
  refine ⟨?_, ?_, ?_, ?_, ?_⟩
  · cases3 <;> cases3 <;> cases3 <;> cases3 <;> (exT_simp; try norm_num)
  · cases3 <;> cases3 <;> cases3 <;> cases3 <;> (exT_simp; try norm_num)
  · cases3 <;> cases3 <;> cases3 <;> (exT_simp; try norm_num)
  · cases3 <;> cases3 <;> (intro _; exT_simp; try norm_num)
  · cases3 <;> cases3 <;> (intro _; exT_simp; try norm_num)

/-- all hypotheses of `ricciConformal_is_ricci` hold at the curved point, and `R_xx = −396`, `R_yy = −44` there. -/
theorem exB_textbook : (2 : ℚ) ≠ 0 ∧ UniMetric exBD exBg exBu ∧ (∀ i, exBv i = gammaVec exBD exBu i)
    ∧ BssnRules exBD exBg exBu exBv
    ∧ ricci (riemann exBD (christoffel2 exBD exBu exBg)) 0 0 = -396
    ∧ ricciConformal exBD exBg exBu exBv (christoffel2 exBD exBu exBg) (lowerG exBg (christoffel2 exBD exBu exBg)) 1 1 = -44 := by
  refine ⟨by norm_num, exB_uniMetric, exB_gammaVec, exB_bssnRules, ?_, ?_⟩
  · simp only [ricci, riemann]; exT_simp; norm_num
  · rw [ricciConformal_is_ricci exBD exBg exBu exBv (by norm_num) exB_uniMetric exB_gammaVec exB_bssnRules]
    simp only [ricci, riemann]; exT_simp; norm_num

/-! ### the code: the same point as an `Env ℚ` (ψ = 1, φ = 0, γ̃ = γ), every derived entry produced by the code's formulas -/

def exB0 : Env ℚ :=
  { (Env.zero : Env ℚ) with
    D := exBD, psi_bssnok := 1, phi_bssnok := 0,
    gammadown3 := exBg, gammaup3 := exBu, gammadown3_bssnok := exBg, gammaup3_bssnok := exBu, s_Gamma_bssnok := exBv }
def exB1 : Env ℚ := { exB0 with s_Gamma_udd3 := s_Gamma_udd3 exB0 }
def exB2 : Env ℚ := { exB1 with s_Gamma_udd3_bssnok := s_Gamma_udd3_bssnok exB1 }
def exB3 : Env ℚ := { exB2 with s_Riemann_uddd3 := s_Riemann_uddd3 exB2 }
def exB4 : Env ℚ := { exB3 with s_Riemann_down3 := s_Riemann_down3 exB3 }
def exB : Env ℚ :=
  { exB4 with s_Ricci_down3_bssnok := s_Ricci_down3_bssnok exB4, s_Ricci_down3_phi := s_Ricci_down3_phi exB4 }

theorem exB_D : exB.D = exBD := rfl
theorem exB_psi : exB.psi_bssnok = 1 := rfl
theorem exB_phi : exB.phi_bssnok = 0 := rfl
theorem exB_gd : exB.gammadown3 = exBg := rfl
theorem exB_gu : exB.gammaup3 = exBu := rfl
theorem exB_gtd : exB.gammadown3_bssnok = exBg := rfl
theorem exB_gtu : exB.gammaup3_bssnok = exBu := rfl
theorem exB_Gv : exB.s_Gamma_bssnok = exBv := rfl
theorem exB_G : exB.s_Gamma_udd3 = s_Gamma_udd3 exB0 := rfl
theorem exB_Gt : exB.s_Gamma_udd3_bssnok = s_Gamma_udd3_bssnok exB1 := rfl
theorem exB1_D : exB1.D = exBD := rfl
theorem exB1_phi : exB1.phi_bssnok = 0 := rfl
theorem exB1_gd : exB1.gammadown3 = exBg := rfl
theorem exB1_gu : exB1.gammaup3 = exBu := rfl
theorem exB1_G : exB1.s_Gamma_udd3 = s_Gamma_udd3 exB0 := rfl
theorem exB0_D : exB0.D = exBD := rfl
theorem exB0_gd : exB0.gammadown3 = exBg := rfl
theorem exB0_gu : exB0.gammaup3 = exBu := rfl

macro "exB_simp" : tactic =>
  `(tactic| simp only [exB_Gt, exB_G, exB_D, exB_psi, exB_phi, exB_gd, exB_gu, exB_gtd, exB_gtu, exB_Gv, exB1_D, exB1_phi, exB1_gd,
      exB1_gu, exB1_G, exB0_D, exB0_gd, exB0_gu, exBD, exBT, exBg, exBu, exBv, christoffel2, christoffel1, gammaVec, uVec, trDgamma,
      delta, core_unfold, Fin.sum_univ_three, Fin.isValue, Fin.reduceEq, ↓reduceIte, if_true, if_false])

theorem exB_Rb : exB.s_Ricci_down3_bssnok = s_Ricci_down3_bssnok exB4 := rfl
theorem exB_Rp : exB.s_Ricci_down3_phi = s_Ricci_down3_phi exB4 := rfl
theorem exB_Ru : exB.s_Riemann_uddd3 = s_Riemann_uddd3 exB2 := rfl
theorem exB_Rd : exB.s_Riemann_down3 = s_Riemann_down3 exB3 := rfl
theorem exB4_D : exB4.D = exBD := rfl
theorem exB4_phi : exB4.phi_bssnok = 0 := rfl
theorem exB4_gtd : exB4.gammadown3_bssnok = exBg := rfl
theorem exB4_gtu : exB4.gammaup3_bssnok = exBu := rfl
theorem exB4_Gv : exB4.s_Gamma_bssnok = exBv := rfl
theorem exB4_Gt : exB4.s_Gamma_udd3_bssnok = s_Gamma_udd3_bssnok exB1 := rfl
theorem exB3_gd : exB3.gammadown3 = exBg := rfl
theorem exB3_Ru : exB3.s_Riemann_uddd3 = s_Riemann_uddd3 exB2 := rfl
theorem exB2_D : exB2.D = exBD := rfl
theorem exB2_G : exB2.s_Gamma_udd3 = s_Gamma_udd3 exB0 := rfl

/-- unfold one level of the cached curvature entries (both sides become the same expression in the lower-level entries). -/
macro "exC_simp" : tactic =>
  `(tactic| simp only [exB_Rb, exB_Rp, exB_Ru, exB_Rd, exB4_D, exB4_phi, exB4_gtd, exB4_gtu, exB4_Gv, exB4_Gt, exB3_gd, exB3_Ru,
      exB2_D, exB2_G, exB_Gt, exB_G, exB_D, exB_phi, exB_gd, exB_gtd, exB_gtu, exB_Gv, exB1_D, exB1_phi, exB1_gd,
      exB1_gu, exB1_G, exB0_D, exB0_gd, exB0_gu, core_unfold])

theorem exB_metricOK : MetricOK exB := by
  refine ⟨?_, ?_, ?_, ?_⟩
  · cases3 <;> cases3 <;> exB_simp
  · cases3 <;> cases3 <;> exB_simp
  · cases3 <;> cases3 <;> (exB_simp; norm_num)
  · funext i k l; revert i k l; cases3 <;> cases3 <;> cases3 <;> exB_simp

theorem exB_cached1 : exB.gammadown3_bssnok = gammadown3_bssnok exB ∧ exB.gammaup3_bssnok = gammaup3_bssnok exB
    ∧ exB.s_Gamma_udd3_bssnok = s_Gamma_udd3_bssnok exB ∧ exB.s_Gamma_bssnok = s_Gamma_bssnok exB := by
  refine ⟨?_, ?_, ?_, ?_⟩
  · funext i j; revert i j; cases3 <;> cases3 <;> (exB_simp; norm_num)
  · funext i j; revert i j; cases3 <;> cases3 <;> (exB_simp; norm_num)
  · funext i k l; revert i k l; cases3 <;> cases3 <;> cases3 <;> exB_simp
  · funext i; revert i; cases3 <;> (exB_simp; norm_num)

set_option maxHeartbeats 1000000 in
theorem exB_cached2 : exB.s_Ricci_down3_bssnok = s_Ricci_down3_bssnok exB ∧ exB.s_Ricci_down3_phi = s_Ricci_down3_phi exB := by
  refine ⟨?_, ?_⟩
  · funext i j; revert i j; cases3 <;> cases3 <;> exC_simp
  · funext i j; revert i j; cases3 <;> cases3 <;> exC_simp

set_option maxHeartbeats 1000000 in
theorem exB_cached3 : exB.s_Riemann_uddd3 = s_Riemann_uddd3 exB := by
  funext a b c d; revert a b c d; cases3 <;> cases3 <;> cases3 <;> cases3 <;> exC_simp

set_option maxHeartbeats 1000000 in
theorem exB_cached4 : exB.s_Riemann_down3 = s_Riemann_down3 exB := by
  funext a b c d; revert a b c d; cases3 <;> cases3 <;> cases3 <;> cases3 <;> exC_simp

theorem exB_cached : exB.gammadown3_bssnok = gammadown3_bssnok exB ∧ exB.gammaup3_bssnok = gammaup3_bssnok exB
    ∧ exB.s_Gamma_udd3_bssnok = s_Gamma_udd3_bssnok exB ∧ exB.s_Gamma_bssnok = s_Gamma_bssnok exB
    ∧ exB.s_Ricci_down3_bssnok = s_Ricci_down3_bssnok exB ∧ exB.s_Ricci_down3_phi = s_Ricci_down3_phi exB
    ∧ exB.s_Riemann_uddd3 = s_Riemann_uddd3 exB ∧ exB.s_Riemann_down3 = s_Riemann_down3 exB :=
  ⟨exB_cached1.1, exB_cached1.2.1, exB_cached1.2.2.1, exB_cached1.2.2.2, exB_cached2.1, exB_cached2.2, exB_cached3, exB_cached4⟩

set_option maxHeartbeats 1000000 in
theorem exB_rules : ProdRuleInv exB ∧ ConfRules exB ∧ ConfChain exB := by
  refine ⟨?_, ⟨?_, ?_⟩, ⟨?_, ?_⟩⟩
  · cases3 <;> cases3 <;> cases3 <;> (exB_simp; try norm_num)
  · cases3 <;> cases3 <;> (exB_simp; try norm_num)
  · cases3 <;> cases3 <;> cases3 <;> cases3 <;> (exB_simp; try norm_num)
  · cases3 <;> cases3 <;> cases3 <;> (exB_simp; try norm_num)
  · cases3 <;> (exB_simp; try norm_num)

theorem exB_bssnRules' : BssnRules exB.D exB.gammadown3_bssnok exB.gammaup3_bssnok exB.s_Gamma_bssnok := exB_bssnRules
theorem exB_uniMetric' : UniMetric exB.D exB.gammadown3_bssnok exB.gammaup3_bssnok := exB_uniMetric

/-- all hypotheses of `ricci_bssnok_split` / `ricci_bssnok_split_alt` / `uniMetric_of_code` / `conf_connection_of_code` /
`s_Ricci_down3_bssnok_is_ricci` hold at `exB` with the non-zero operator, and the code's BSSNOK Ricci tensor is `R̃_xx = −396` there. -/
theorem exB_code : MetricOK exB ∧ (2 : ℚ) ≠ 0 ∧ exB.psi_bssnok ≠ 0 ∧ exB.gammadown3_bssnok = gammadown3_bssnok exB
    ∧ exB.gammaup3_bssnok = gammaup3_bssnok exB ∧ exB.s_Gamma_udd3_bssnok = s_Gamma_udd3_bssnok exB
    ∧ exB.s_Gamma_bssnok = s_Gamma_bssnok exB ∧ ProdRuleInv exB ∧ ConfRules exB ∧ ConfChain exB
    ∧ BssnRules exB.D exB.gammadown3_bssnok exB.gammaup3_bssnok exB.s_Gamma_bssnok
    ∧ UniMetric exB.D exB.gammadown3_bssnok exB.gammaup3_bssnok
    ∧ (∀ k i j, exB.s_Gamma_udd3_bssnok k i j = christoffel2 exB.D exB.gammaup3_bssnok exB.gammadown3_bssnok k i j)
    ∧ exB.s_Riemann_uddd3 = s_Riemann_uddd3 exB ∧ exB.s_Riemann_down3 = s_Riemann_down3 exB
    ∧ s_Ricci_down3__dflt exB 0 0 = -396 ∧ s_Ricci_down3_bssnok exB 0 0 = -396 := by
  obtain ⟨c1, c2, c3, c4, -, -, c7, c8⟩ := exB_cached
  obtain ⟨r1, r2, r3⟩ := exB_rules
  have hp : exB.psi_bssnok ≠ 0 := by rw [exB_psi]; norm_num
  have hsplit := ricci_bssnok_split exB exB_metricOK (by norm_num) hp c1 c2 c3 c4 r1 r2 r3 exB_bssnRules' 0 0
  have hphi : s_Ricci_down3_phi exB 0 0 = 0 := by exB_simp; norm_num
  have hd : s_Ricci_down3__dflt exB 0 0 = -396 := by exB_simp; norm_num
  refine ⟨exB_metricOK, by norm_num, hp, c1, c2, c3, c4, r1, r2, r3, exB_bssnRules', exB_uniMetric',
    conf_connection_of_code exB exB_metricOK (by norm_num) hp c2 c3 r3, c7, c8, hd, ?_⟩
  rw [hphi, add_zero] at hsplit; rw [hsplit, hd]

/-! ### the `*_of_deriv` theorems: `Deriv` + `DComm` over ℚ (zero operator), flat point γ = δ, ψ = 1, φ = 0 -/

def exZ0 : Env ℚ :=
  { (Env.zero : Env ℚ) with
    psi_bssnok := 1, gammadet := 1,
    gammadown3 := vec3 (vec3 1 0 0) (vec3 0 1 0) (vec3 0 0 1), gammaup3 := vec3 (vec3 1 0 0) (vec3 0 1 0) (vec3 0 0 1),
    gammadown3_bssnok := vec3 (vec3 1 0 0) (vec3 0 1 0) (vec3 0 0 1),
    gammaup3_bssnok := vec3 (vec3 1 0 0) (vec3 0 1 0) (vec3 0 0 1) }

/-- hypotheses of `confChain_of_deriv`, `bssnRules_of_deriv`, `ricci_bssnok_split_of_deriv` at the flat point. -/
theorem exZ_hyps : Deriv exZ0.D ∧ DComm exZ0.D ∧ (2 : ℚ) ≠ 0 ∧ Sym exZ0.gammadown3 ∧ gammadet exZ0 ≠ 0
    ∧ exZ0.gammadet = gammadet exZ0 ∧ exZ0.gammaup3 = gammaup3 exZ0 ∧ exZ0.s_Gamma_udd3 = s_Gamma_udd3 exZ0
    ∧ exZ0.gammadown3_bssnok = gammadown3_bssnok exZ0 ∧ exZ0.gammaup3_bssnok = gammaup3_bssnok exZ0
    ∧ exZ0.s_Gamma_udd3_bssnok = s_Gamma_udd3_bssnok exZ0 ∧ exZ0.s_Gamma_bssnok = s_Gamma_bssnok exZ0
    ∧ exZ0.psi_bssnok ^ 12 = exZ0.gammadet
    ∧ (∀ k, exZ0.D k exZ0.phi_bssnok * exZ0.psi_bssnok = exZ0.D k exZ0.psi_bssnok)
    ∧ (∀ i k, ∑ j, exZ0.gammaup3_bssnok i j * exZ0.gammadown3_bssnok j k = delta i k) := by
  refine ⟨⟨fun _ _ _ => ?_, fun _ _ _ => ?_⟩, fun _ _ _ => rfl, by norm_num, ?_, ?_, ?_, ?_, ?_, ?_, ?_, ?_, ?_, ?_, ?_, ?_⟩
  · simp [exZ0, Env.zero]
  · simp [exZ0, Env.zero]
  · cases3 <;> cases3 <;> simp only [exZ0, core_unfold]
  · simp only [exZ0, core_unfold]; norm_num
  · simp only [exZ0, core_unfold]; norm_num
  · funext i j; revert i j; cases3 <;> cases3 <;> (simp only [exZ0, core_unfold]; norm_num)
  · funext i j k; revert i j k; cases3 <;> cases3 <;> cases3 <;> (simp only [exZ0, Env.zero, core_unfold]; norm_num)
  · funext i j; revert i j; cases3 <;> cases3 <;> (simp only [exZ0, core_unfold]; norm_num)
  · funext i j; revert i j; cases3 <;> cases3 <;> (simp only [exZ0, core_unfold]; norm_num)
  · funext i j k; revert i j k; cases3 <;> cases3 <;> cases3 <;> (simp only [exZ0, Env.zero, core_unfold]; norm_num)
  · funext i; revert i; cases3 <;> (simp only [exZ0, Env.zero, core_unfold]; norm_num)
  · simp only [exZ0]; norm_num
  · intro k; simp [exZ0, Env.zero]
  · cases3 <;> cases3 <;> (simp only [exZ0, delta, core_unfold, Fin.sum_univ_three]; norm_num <;> decide)

end AurelVerif.C05
