/-
Props/C15b.lean — extension of Props/C15.lean (same property, same model).
ONLY property statements and non-vacuity examples.

What is added to Props/C15.lean:

A. `fill_is_identity` for EVERY dimension `n` (Props/C15.lean: n = 2, 3, 4 by a
   kernel-evaluated check).  Proof: a Hoare logic for the interpreter of
   Model/SymFill.lean with induction over `range n` for every loop of the nest
   (Lemmas/C15FillHoare.lean), applied to the regenerated loop structures
   (Lemmas/C15FillAll.lean).  Consequently `symbolic_core_correct_all_n`.
B. `gup` / `gdet` (delegated to sympy): everything is derived from the single
   equation `gdown · gup = 1` (`RightInverse`), which the oracle of
   tools/props/C15.py checks symbolically on every metric
   (Lemmas/C15Inverse.lean); Jacobi's formula for `gdet` (Lemmas/C15Jacobi.lean).
C. request-order independence over ALL request histories: the generic cache
   theorem of C01 instantiated with the regenerated method table; branch
   coherence is PROVEN (`branch_coherence`), not assumed; histories never
   raise (Lemmas/C15History.lean).
D. the `simplify` flag: every generated line, arbitrary arguments, and the
   `simplify = False` path without any assumption on `sp.simplify`
   (Lemmas/C15Flag.lean).

Hypotheses used, and nothing else: `IsDeriv D`; `g` symmetric; `RightInverse g
gup`; `∀ x, S x = x` (value preservation of `sp.simplify`, only where
`simplify = True` is involved).

NOT covered (unchanged): sympy's own `inv`/`det`/`diff`/`simplify` and Float
`0.5` (exact `1/2` here); the default metrics of `gdown()` (dim 3, 4) enter
only as a particular `g`; `Matrix.inv` failing on a singular metric.
-/
import Mathlib.Data.Fin.VecNotation
import Mathlib.Algebra.BigOperators.Fin
import Mathlib.Tactic.FinCases
import Mathlib.Tactic.NormNum
import AurelVerif.Lemmas.C15History
import AurelVerif.Lemmas.C15Inverse
import AurelVerif.Lemmas.C15Flag
import AurelVerif.Lemmas.C15Jacobi

set_option linter.unusedSectionVars false

namespace AurelVerif.C15
open AurelVerif.SymFill AurelVerif.SymFillLemmas AurelVerif.SymFillAll AurelVerif.SymTensorLemmas
open AurelVerif.SymCore AurelVerif.SymCoreAll AurelVerif.SymInverse AurelVerif.SymHistory
open AurelVerif.SymFlag AurelVerif.SymCache AurelVerif.SymJacobi
open AurelVerif.Spec.SymTensors AurelVerif.Gen
open AurelVerif.Cache AurelVerif.Cache.Dict AurelVerif.CacheGet
open scoped BigOperators

variable {K : Type} [Field K] [CharZero K] {n : ℕ} {D : Fin n → K → K} {S : K → K}
  {g gup : Fin n → Fin n → K}

/-! ## A — the fill loops, every dimension -/

theorem fill_all_n_Gamma_udd (T : Fin n → Fin n → Fin n → K) (hT : ∀ i j k, T i k j = T i j k)
    (i j k : Fin n) : fillFin3 n (ringOps K) SymLoops.Gamma_udd T i j k = T i j k :=
  fillAll_Gamma_udd T hT i j k

theorem fill_all_n_Gamma_down (T : Fin n → Fin n → Fin n → K) (hT : ∀ i j k, T i k j = T i j k)
    (i j k : Fin n) : fillFin3 n (ringOps K) SymLoops.Gamma_down T i j k = T i j k :=
  fillAll_Gamma_down T hT i j k

/-- only antisymmetry in the last index pair is assumed -/
theorem fill_all_n_Riemann_uddd (T : Fin n → Fin n → Fin n → Fin n → K)
    (hT : ∀ i j k h, T i j h k = - T i j k h) (i j k h : Fin n) :
    fillFin4 n (ringOps K) SymLoops.Riemann_uddd T i j k h = T i j k h :=
  fillAll_Riemann_uddd T hT i j k h

theorem fill_all_n_Riemann_down_cached (T : Fin n → Fin n → Fin n → Fin n → K)
    (h1 : ∀ i j k h, T j i k h = - T i j k h) (h2 : ∀ i j k h, T i j h k = - T i j k h)
    (h3 : ∀ i j k h, T k h i j = T i j k h) (i j k h : Fin n) :
    fillFin4 n (ringOps K) SymLoops.Riemann_down_cached T i j k h = T i j k h :=
  fillAll_Riemann_down_cached T h1 h2 h3 i j k h

theorem fill_all_n_Riemann_down_direct (T : Fin n → Fin n → Fin n → Fin n → K)
    (h1 : ∀ i j k h, T j i k h = - T i j k h) (h2 : ∀ i j k h, T i j h k = - T i j k h)
    (h3 : ∀ i j k h, T k h i j = T i j k h) (i j k h : Fin n) :
    fillFin4 n (ringOps K) SymLoops.Riemann_down_direct T i j k h = T i j k h :=
  fillAll_Riemann_down_direct T h1 h2 h3 i j k h

theorem fill_all_n_Ricci_down_cached (T : Fin n → Fin n → K) (hT : ∀ i j, T j i = T i j) (i j : Fin n) :
    fillFin2 n (ringOps K) SymLoops.Ricci_down_cached T i j = T i j :=
  fillAll_Ricci_down_cached T hT i j

theorem fill_all_n_Ricci_down_direct (T : Fin n → Fin n → K) (hT : ∀ i j, T j i = T i j) (i j : Fin n) :
    fillFin2 n (ringOps K) SymLoops.Ricci_down_direct T i j = T i j :=
  fillAll_Ricci_down_direct T hT i j

theorem fill_all_n_Einstein_down (T : Fin n → Fin n → K) (hT : ∀ i j, T j i = T i j) (i j : Fin n) :
    fillFin2 n (ringOps K) SymLoops.Einstein_down T i j = T i j :=
  fillAll_Einstein_down T hT i j

/-- the same for every value type on which the loops can operate (zero, negation
with `-0 = 0`, `--x = x`, `-x = x → x = 0`) and every oracle on index lists with
the declared symmetries: the all-`n` counterpart of `fill_lifting` (no finite
check involved) -/
theorem fill_all_n_any_values {V : Type} (n : ℕ) (ops : Ops V) (laws : OpsLaws ops) (T : List ℕ → V) :
    (Invariant n 3 ops gensGamma T → ∀ q, Valid n 3 q →
      fillAt n ops T SymLoops.Gamma_udd q = T q ∧ fillAt n ops T SymLoops.Gamma_down q = T q)
    ∧ (Invariant n 4 ops gensRiemannUp T → ∀ q, Valid n 4 q →
      fillAt n ops T SymLoops.Riemann_uddd q = T q)
    ∧ (Invariant n 4 ops gensRiemannDown T → ∀ q, Valid n 4 q →
      fillAt n ops T SymLoops.Riemann_down_cached q = T q
      ∧ fillAt n ops T SymLoops.Riemann_down_direct q = T q)
    ∧ (Invariant n 2 ops gensSym2 T → ∀ q, Valid n 2 q →
      fillAt n ops T SymLoops.Ricci_down_cached q = T q
      ∧ fillAt n ops T SymLoops.Ricci_down_direct q = T q
      ∧ fillAt n ops T SymLoops.Einstein_down q = T q) :=
  ⟨fun h q hq => ⟨fill_of_triple _ rfl rfl (triple_Gamma_udd h) q hq,
      fill_of_triple _ rfl rfl (triple_Gamma_down h) q hq⟩,
   fun h q hq => fill_of_triple _ rfl rfl (triple_Riemann_uddd laws h) q hq,
   fun h q hq => ⟨fill_of_triple _ rfl rfl (triple_Riemann_down_cached h laws) q hq,
      fill_of_triple _ rfl rfl (triple_Riemann_down_direct h laws) q hq⟩,
   fun h q hq => ⟨fill_of_triple _ rfl rfl (triple_Ricci_down_cached h) q hq,
      fill_of_triple _ rfl rfl (triple_Ricci_down_direct h) q hq,
      fill_of_triple _ rfl rfl (triple_Einstein_down h) q hq⟩⟩

/-- **main theorem, every dimension**: what the class stores is the textbook
tensor (`symbolic_core_correct` without `n = 2 ∨ n = 3 ∨ n = 4`) -/
theorem symbolic_core_correct_all_n (hD : IsDeriv D) (hM : IsMetric g gup) (hS : ∀ x, S x = x)
    (b cached : Bool) :
    storedGammaUdd n D b S g gup = GammaUdd D g gup
    ∧ storedGammaDown n D b S g gup = GammaDown D g
    ∧ storedRiemannUddd n D b S g gup = RiemannUddd D g gup
    ∧ storedRiemannDown n D b S g gup cached = RiemannDown D g gup
    ∧ storedRicci n D b S g gup cached = RicciDown D g gup
    ∧ storedRicciS n D b S g gup cached = RicciScalar D g gup
    ∧ storedEinstein n D b S g gup cached = EinsteinDown D g gup :=
  ⟨storedGammaUdd_eq_all hM hS b, storedGammaDown_eq_all hM hS b, storedRiemannUddd_eq_all hM hS b,
   storedRiemannDown_eq_all hD hM hS b cached, storedRicci_eq_all hD hM hS b cached,
   storedRicciS_eq_all hD hM hS b cached, storedEinstein_eq_all hD hM hS b cached⟩

/-! ## B — `gup` and `gdet`: one equation to trust -/

/-- `g` symmetric and `gdown · gup = 1` are all that is needed of `Matrix.inv` -/
theorem metric_of_right_inverse (hs : ∀ i j, g i j = g j i) (h : RightInverse g gup) : IsMetric g gup :=
  isMetric_of_right_inverse hs h

/-- there is exactly one such `gup`: the matrix inverse; it is symmetric and a
left inverse as well -/
theorem gup_determined (hs : ∀ i j, g i j = g j i) (h : RightInverse g gup) :
    (∀ gup', RightInverse g gup' → gup' = gup)
    ∧ Matrix.of gup = (Matrix.of g)⁻¹
    ∧ (∀ i j, gup i j = gup j i)
    ∧ RightInverse gup g :=
  ⟨fun _ h' => right_inverse_unique h' h, gup_eq_inv h, gup_symm_of_right_inverse hs h, left_of_right h⟩

/-- the textbook determinant `Σ_σ sgn σ Π_i g_{σ(i) i}` of an invertible metric
is non-zero, `det g · det gup = 1`, and Cramer's rule `det g · g^{ij} = adj(g)_{ij}` -/
theorem gdet_identities (h : RightInverse g gup) :
    (Matrix.of g).det = ∑ σ : Equiv.Perm (Fin n), (Equiv.Perm.sign σ : ℤ) • ∏ i, g (σ i) i
    ∧ (Matrix.of g).det ≠ 0
    ∧ (Matrix.of g).det * (Matrix.of gup).det = 1
    ∧ ∀ i j, (Matrix.of g).det * gup i j = (Matrix.of g).adjugate i j :=
  ⟨det_leibniz g, det_ne_zero h, det_mul_det_gup h, det_mul_gup h⟩

/-- Jacobi's formula for the textbook determinant under the coordinate
derivatives: `∂_c det g = det g · g^{ik} ∂_c g_{ki}`, and the contracted
Christoffel symbol `Γ^a_{ab} = ∂_b(det g) / (2 det g)` (the link between `gdet`
and the Christoffel symbols the class stores) -/
theorem gdet_jacobi (hD : IsDeriv D) (hs : ∀ i j, g i j = g j i) (h : RightInverse g gup) (c : Fin n) :
    D c (Matrix.of g).det = (Matrix.of g).det * ∑ i, ∑ k, gup i k * D c (g k i)
    ∧ ∑ a, GammaUdd D g gup a a c = D c (Matrix.of g).det / (2 * (Matrix.of g).det) :=
  ⟨D_det_metric hD h c, christoffel_trace hD hs h c⟩

/-- the main theorem from the equation the oracle checks -/
theorem symbolic_core_correct_of_right_inverse (hD : IsDeriv D) (hs : ∀ i j, g i j = g j i)
    (h : RightInverse g gup) (hS : ∀ x, S x = x) (b cached : Bool) :
    storedGammaUdd n D b S g gup = GammaUdd D g gup
    ∧ storedGammaDown n D b S g gup = GammaDown D g
    ∧ storedRiemannUddd n D b S g gup = RiemannUddd D g gup
    ∧ storedRiemannDown n D b S g gup cached = RiemannDown D g gup
    ∧ storedRicci n D b S g gup cached = RicciDown D g gup
    ∧ storedRicciS n D b S g gup cached = RicciScalar D g gup
    ∧ storedEinstein n D b S g gup cached = EinsteinDown D g gup :=
  symbolic_core_correct_all_n hD (isMetric_of_right_inverse hs h) hS b cached

/-! ## C — all request histories -/

section history
variable {inv : (Fin n → Fin n → K) → (Fin n → Fin n → K)} {det : (Fin n → Fin n → K) → K}

/-- **branch coherence (H2 of C01), proven**: every branch of every method of
the regenerated table, fed with the textbook values of the keys it looks up,
returns the textbook value of its key. -/
theorem branch_coherence (hD : IsDeriv D) (hs : ∀ i j, g i j = g j i) (h : RightInverse g (inv g))
    (hS : ∀ x, S x = x) (b : Bool) :
    TableCoh (symTable n D b S inv det) (den n D inv det g) IsMetricKey :=
  symTable_coh hD (isMetric_of_right_inverse hs h) hS b

/-- **request-order independence, all histories.**  An instance whose `data`
holds the metric; ANY finite history of requests (any keys, any order, any
repetitions; `sweep` = anything an admissible policy does in between — the
real class does nothing), any recursion budget: if the history runs without
raising, the values it returns are the textbook values of the keys requested,
in order — whatever was requested before — and every cached entry is the
textbook value of its key. -/
theorem request_history_transparent (hD : IsDeriv D) (hs : ∀ i j, g i j = g j i)
    (h : RightInverse g (inv g)) (hS : ∀ x, S x = x) (b : Bool)
    {σ : Type} (pol : Policy σ ℕ (SymVal K n)) (hpol : PolicyOK IsMetricKey pol) (s0 : σ) (fuel : ℕ)
    (hist : List (HOp ℕ)) (c : Cfg σ ℕ (SymVal K n)) (vs : List (SymVal K n))
    (hrun : runHist (symTable n D b S inv det) pol fuel (s0, [(0, SymVal.m2 g)]) hist = .ok (c, vs)) :
    vs = hist.filterMap (fun o => match o with
        | .req k => some (den n D inv det g k) | .sweep => none)
    ∧ Good (den n D inv det g) IsMetricKey c.2 := by
  have hg : Good (den n D inv det g) IsMetricKey [(0, SymVal.m2 g)] := by
    refine ⟨?_, ?_⟩
    · intro k v hv
      by_cases hk : 0 = k
      · subst hk; simp [get?] at hv; exact hv.symm
      · simp [get?, hk] at hv
    · intro k hk; rw [show k = 0 from hk]; simp [get?, den]
  obtain ⟨a, b'⟩ := runHist_sound (branch_coherence hD hs h hS b) hpol fuel hist _ c vs hg hrun
  refine ⟨?_, a⟩
  rw [b']
  congr 1
  funext o
  cases o <;> rfl

/-- two instances with different `simplify` flags and different histories
return the same value for the same key -/
theorem request_order_and_flag_independent (hD : IsDeriv D) (hs : ∀ i j, g i j = g j i)
    (h : RightInverse g (inv g)) (hS : ∀ x, S x = x) (b b' : Bool) (fuel fuel' : ℕ)
    (hist hist' : List (HOp ℕ)) (k : ℕ) (c c' : Cfg Unit ℕ (SymVal K n)) (vs vs' : List (SymVal K n))
    (hrun : runHist (symTable n D b S inv det) noEvict fuel ((), [(0, SymVal.m2 g)]) (hist ++ [.req k])
      = .ok (c, vs))
    (hrun' : runHist (symTable n D b' S inv det) noEvict fuel' ((), [(0, SymVal.m2 g)]) (hist' ++ [.req k])
      = .ok (c', vs')) :
    vs.getLast? = vs'.getLast? ∧ vs.getLast? = some (den n D inv det g k) := by
  have e1 := (request_history_transparent hD hs h hS b noEvict (noEvict_ok _) () fuel _ c vs hrun).1
  have e2 := (request_history_transparent hD hs h hS b' noEvict (noEvict_ok _) () fuel' _ c' vs' hrun').1
  rw [e1, e2]
  simp [List.filterMap_append]

/-- **histories never raise**: requests of the ten keys, recursion budget ≥ 7
(the real interpreter's is 1000): the run succeeds; so the previous theorems
are not vacuous for any history. -/
theorem history_never_raises (b : Bool) (fuel : ℕ) (hf : 7 ≤ fuel) (keys : List ℕ) (hk : ∀ k ∈ keys, k < 10)
    (c : Cfg Unit ℕ (SymVal K n)) :
    ∃ c' vs, runHist (symTable n D b S inv det) noEvict fuel c (keys.map HOp.req) = .ok (c', vs) :=
  runHist_total n D b S inv det fuel hf keys hk c

/-- both together: every history of requests of the ten keys returns exactly the
textbook values -/
theorem every_history_returns_textbook (hD : IsDeriv D) (hs : ∀ i j, g i j = g j i)
    (h : RightInverse g (inv g)) (hS : ∀ x, S x = x) (b : Bool) (fuel : ℕ) (hf : 7 ≤ fuel)
    (keys : List ℕ) (hk : ∀ k ∈ keys, k < 10) :
    ∃ c, runHist (symTable n D b S inv det) noEvict fuel ((), [(0, SymVal.m2 g)]) (keys.map HOp.req)
      = .ok (c, keys.map (den n D inv det g)) := by
  obtain ⟨c, vs, hrun⟩ := history_never_raises (D := D) (S := S) (inv := inv) (det := det) b fuel hf keys hk
    ((), [(0, SymVal.m2 g)])
  have e := (request_history_transparent hD hs h hS b noEvict (noEvict_ok _) () fuel _ c vs hrun).1
  refine ⟨c, ?_⟩
  rw [hrun, e]
  congr 2
  induction keys with
  | nil => rfl
  | cons k ks ih => simp

/-- the rank condition (H1 of C01) on the regenerated table: a request never
recurses deeper than the depth of its key, never reads a missing entry -/
theorem symbolic_no_recursion_no_keyerror (b : Bool) (fuel : ℕ) (c : Cfg Unit ℕ (SymVal K n)) (k : ℕ)
    (hk : rankOf k < fuel) :
    getF (symTable n D b S inv det) noEvict fuel c k ≠ .error .recursion
    ∧ getF (symTable n D b S inv det) noEvict fuel c k ≠ .error .keyError :=
  ⟨getF_norec (symTable_ok n D b S inv det) noEvict fuel c k hk,
   getF_nokey (symTable_ok n D b S inv det) noEvict_keeps fuel c k⟩

/-- the numbering of keys and return sites used in `SymHistory.leaf` / `den` is
the one of the regenerated method table -/
theorem table_numbering :
    SymLoops.methods.map (·.key)
      = ["gdown", "gup", "gdet", "Gamma_down", "Gamma_udd", "Riemann_down", "Riemann_uddd",
         "Ricci_down", "RicciS", "Einstein_down"]
    ∧ SymLoops.methods.map (fun m => m.branches.map (·.name))
      = [["gdown"], ["gup"], ["gdet"], ["Gamma_down"], ["Gamma_udd"],
         ["Riemann_down_cached", "Riemann_down_direct"], ["Riemann_uddd"],
         ["Ricci_down_cached", "Ricci_down_direct"], ["RicciS"], ["Einstein_down"]] :=
  ⟨key_numbering, branch_numbering⟩

end history

/-! ## D — the `simplify` flag -/

/-- every generated line, ARBITRARY arguments: `simplify = True` and `False`
give the same value, assuming only that `sp.simplify` preserves values -/
theorem lines_flag_independent (hS : ∀ x, S x = x)
    (g gup Ric : Fin n → Fin n → K) (Γ Γ' : Fin n → Fin n → Fin n → K)
    (R : Fin n → Fin n → Fin n → Fin n → K) (Rs x : K) (i j k h : Fin n) :
    SymFormulas.Gamma_down D true S g Γ i j k = SymFormulas.Gamma_down D false S g Γ i j k
    ∧ SymFormulas.Gamma_udd D true S gup g i j k = SymFormulas.Gamma_udd D false S gup g i j k
    ∧ SymFormulas.Riemann_down_cached D true S g R h i j k
        = SymFormulas.Riemann_down_cached D false S g R h i j k
    ∧ SymFormulas.Riemann_down_direct D true S Γ' Γ i j k h
        = SymFormulas.Riemann_down_direct D false S Γ' Γ i j k h
    ∧ SymFormulas.Riemann_uddd D true S Γ i j k h = SymFormulas.Riemann_uddd D false S Γ i j k h
    ∧ SymFormulas.Ricci_down_cached D true S R i j = SymFormulas.Ricci_down_cached D false S R i j
    ∧ SymFormulas.Ricci_down_direct D true S Γ i j = SymFormulas.Ricci_down_direct D false S Γ i j
    ∧ SymFormulas.RicciS D true S gup Ric = SymFormulas.RicciS D false S gup Ric
    ∧ SymFormulas.Einstein_down D true S Ric g Rs i j = SymFormulas.Einstein_down D false S Ric g Rs i j
    ∧ post true S x = post false S x :=
  ⟨gamma_down_flag hS g Γ i j k, gamma_udd_flag hS gup g i j k, riemann_down_cached_flag hS g R h i j k,
   riemann_down_direct_flag hS Γ' Γ i j k h, riemann_uddd_flag hS Γ i j k h,
   ricci_down_cached_flag hS R i j, ricci_down_direct_flag hS Γ i j, ricciS_flag gup Ric,
   einstein_down_flag Ric g Rs i j, post_flag hS x⟩

/-- with `simplify = False` the Christoffel line is `1/2 · Σ …` for EVERY `S`: the
factor is applied outside the `if self.simplify` (regression 7535a87) -/
theorem gamma_half_outside_flag (S : K → K) (gup g : Fin n → Fin n → K) (i j k : Fin n) :
    SymFormulas.Gamma_udd D false S gup g i j k
      = (1 / 2) * ∑ m, gup i m * (D j (g m k) + D k (g m j) - D m (g j k)) :=
  gamma_udd_unsimplified S gup g i j k

/-- `simplify = False`: NOTHING is assumed about `sp.simplify` (it is never
called): the stored tensors are the textbook tensors for every `S` -/
theorem symbolic_core_correct_unsimplified (hD : IsDeriv D) (hs : ∀ i j, g i j = g j i)
    (h : RightInverse g gup) (S : K → K) (cached : Bool) :
    storedGammaUdd n D false S g gup = GammaUdd D g gup
    ∧ storedGammaDown n D false S g gup = GammaDown D g
    ∧ storedRiemannUddd n D false S g gup = RiemannUddd D g gup
    ∧ storedRiemannDown n D false S g gup cached = RiemannDown D g gup
    ∧ storedRicci n D false S g gup cached = RicciDown D g gup
    ∧ storedRicciS n D false S g gup cached = RicciScalar D g gup
    ∧ storedEinstein n D false S g gup cached = EinsteinDown D g gup := by
  obtain ⟨e1, e2, e3, e4, e5, e6, e7⟩ := stored_unsimplified (D := D) S g gup cached
  rw [e1, e2, e3, e4, e5, e6, e7]
  exact symbolic_core_correct_of_right_inverse hD hs h (fun _ => rfl) false cached

/-- nothing that is stored depends on the `simplify` flag nor on the cache state
(all seven computed keys, every `n`) -/
theorem stored_flag_independent_all_n (hD : IsDeriv D) (hs : ∀ i j, g i j = g j i)
    (h : RightInverse g gup) (hS : ∀ x, S x = x) (b b' cached cached' : Bool) :
    storedGammaUdd n D b S g gup = storedGammaUdd n D b' S g gup
    ∧ storedGammaDown n D b S g gup = storedGammaDown n D b' S g gup
    ∧ storedRiemannUddd n D b S g gup = storedRiemannUddd n D b' S g gup
    ∧ storedRiemannDown n D b S g gup cached = storedRiemannDown n D b' S g gup cached'
    ∧ storedRicci n D b S g gup cached = storedRicci n D b' S g gup cached'
    ∧ storedRicciS n D b S g gup cached = storedRicciS n D b' S g gup cached'
    ∧ storedEinstein n D b S g gup cached = storedEinstein n D b' S g gup cached' := by
  obtain ⟨a1, a2, a3, a4, a5, a6, a7⟩ := symbolic_core_correct_of_right_inverse hD hs h hS b cached
  obtain ⟨c1, c2, c3, c4, c5, c6, c7⟩ := symbolic_core_correct_of_right_inverse hD hs h hS b' cached'
  rw [a1, a2, a3, a4, a5, a6, a7, c1, c2, c3, c4, c5, c6, c7]
  exact ⟨rfl, rfl, rfl, rfl, rfl, rfl, rfl⟩

/-! ## Non-vacuity -/

/-- `RightInverse` is met by a non-diagonal metric -/
example : RightInverse (K := ℚ) (n := 2) ![![2, 1], ![1, 1]] ![![1, -1], ![-1, 2]] := by
  intro i j; fin_cases i <;> fin_cases j <;> norm_num [Fin.sum_univ_two]

/-- … which is symmetric -/
example : ∀ i j : Fin 2, (![![2, 1], ![1, 1]] : Fin 2 → Fin 2 → ℚ) i j = ![![2, 1], ![1, 1]] j i := by
  intro i j; fin_cases i <;> fin_cases j <;> rfl

/-- an admissible policy exists: the real class (no cache management) -/
example : PolicyOK IsMetricKey (noEvict (κ := ℕ) (ν := SymVal ℚ 2)) := noEvict_ok _

/-- the fill theorem in a dimension the finite check never saw (`n = 7`), for an
oracle with ONLY the antisymmetry in the last pair (`T i i k h ≠ 0`) -/
example : fillFin4 7 (ringOps ℚ) SymLoops.Riemann_uddd
    (fun i j k h => ((i : ℚ) + 2 * j + 1) * ((k : ℚ) - h)) 5 5 6 2 = 64 := by
  rw [fill_all_n_Riemann_uddd _ (by intros; ring)]
  norm_num

/-- an oracle with exactly the three symmetries of `R_{ijkh}` and nothing else, in
dimension 6, through the direct branch of `Riemann_down` -/
example : fillFin4 6 (ringOps ℚ) SymLoops.Riemann_down_direct
    (fun i j k h => ((i : ℚ) - j) * ((k : ℚ) - h) * ((i : ℚ) + j + k + h + 1)) 5 1 2 4 = -104 := by
  rw [fill_all_n_Riemann_down_direct _ (by intros; ring) (by intros; ring) (by intros; ring)]
  norm_num

/-- the value-type laws of `fill_all_n_any_values` hold in every field of characteristic 0 -/
example : OpsLaws (ringOps ℚ) := ringOps_laws ℚ

/-- the determinant of the example metric is the textbook one -/
example : (Matrix.of (![![2, 1], ![1, 1]] : Fin 2 → Fin 2 → ℚ)).det = 1 := by
  rw [det_two]; norm_num

/-- a concrete history on the provenance instance of the same shapes: the cached
branch is taken exactly when `Riemann_uddd` was requested before -/
example : provHistory SymLoops.methods ["gdown"] ["Riemann_uddd", "Ricci_down"]
    = .ok ["Riemann_uddd(Gamma_udd(gup(<gdown>),<gdown>))",
           "Ricci_down_cached(Riemann_uddd(Gamma_udd(gup(<gdown>),<gdown>)))"] := by decide +kernel

example : provHistory SymLoops.methods ["gdown"] ["Ricci_down", "Riemann_uddd"]
    = .ok ["Ricci_down_direct(Gamma_udd(gup(<gdown>),<gdown>))",
           "Riemann_uddd(Gamma_udd(gup(<gdown>),<gdown>))"] := by decide +kernel

end AurelVerif.C15
