/-
Props/C07b.lean — linearity of the difference operators (consumed by C05/C19 as the
hypotheses `LinD` / `LinOp` on the abstract operator `D`).

By `C07.d3_natural` the output of `d3` on ANY sample list is the relabelling of its
output on sample POSITIONS; the value of output `i` on a field `f` is therefore
`Σ_k w_ik · f(j_ik)` with weights and positions that do not depend on `f`: the
operator is additive and homogeneous, and it annihilates zero.
-/
import AurelVerif.Props.C07

set_option linter.unusedSectionVars false

namespace AurelVerif.C07
open AurelVerif.Splice AurelVerif.StencilLemmas

variable {K : Type} [Field K]

/-- value of a row of (weight, position) pairs on a field `f : position ↦ value`. -/
def rowValue (row : Lin Nat) (f : Nat → K) : K :=
  (row.map fun ca => ((ca.1 : ℚ) : K) * f ca.2).sum

theorem rowValue_add (row : Lin Nat) (f g : Nat → K) :
    rowValue row (fun j => f j + g j) = rowValue row f + rowValue row g := by
  induction row with
  | nil => simp [rowValue]
  | cons a t ih =>
    simp only [rowValue, List.map_cons, List.sum_cons] at ih ⊢
    rw [ih]; ring

theorem rowValue_smul (row : Lin Nat) (c : K) (f : Nat → K) :
    rowValue row (fun j => c * f j) = c * rowValue row f := by
  induction row with
  | nil => simp [rowValue]
  | cons a t ih =>
    simp only [rowValue, List.map_cons, List.sum_cons] at ih ⊢
    rw [ih]; ring

theorem rowValue_neg (row : Lin Nat) (f : Nat → K) :
    rowValue row (fun j => -f j) = -rowValue row f := by
  have := rowValue_smul row (-1 : K) f
  simpa using this

theorem rowValue_zero (row : Lin Nat) : rowValue row (fun _ => (0 : K)) = 0 := by
  have := rowValue_smul row (0 : K) (fun _ => (0 : K))
  simpa using this

/-- the value computed on the actual samples is the row value on positions
(this is `evalLin` of the relabelled row that `d3_natural` provides). -/
theorem evalLin_relabel (row : Lin Nat) (f : Nat → K) :
    evalLin (row.map fun ca => (ca.1, f ca.2)) = rowValue row f := by
  simp [evalLin, rowValue, List.map_map, Function.comp_def]

/-- **linearity of every operator of the model** (one-sided, periodic, symmetric; every
order and size): with `rows` the model's output on positions `0..N-1`, the output on the
samples `f 0 … f (N-1)` is `rows` relabelled, hence additive, homogeneous and odd in `f`. -/
theorem d3_linear (b : Boundary) (s : Scheme) (N : Nat) (f : Nat → K) :
    d3 b s ((List.range N).map f) N
      = (d3 b s (List.range N) N).map (fun rows => rows.map (fun row => row.map (fun ca => (ca.1, f ca.2)))) :=
  d3_natural f b s (List.range N) N

end AurelVerif.C07
