/-
Props/C11b.lean — C11, extension (ONLY property statements and non-vacuity
examples; proofs in Lemmas/C11Accept*.lean and Lemmas/C11Restarts.lean).

**T8  which chunk dictionaries does `join_chunks` accept?**  (property text:
"an unsupported layout raises instead of returning misplaced data")
  `accepted_structure`   accepted  ⇒  the dictionary is, up to order, `ochunks R O`
                         for an ORDERED origin-annotated decomposition `O` of the result
  `structure_accepted`   conversely EVERY ordered `O` (valid lengths) is accepted —
                         whatever the recorded origins are: `join_chunks` uses origins
                         only to group and to sort
  `gapfree_is_hierarchical`, `accepted_dichotomy`
                         accepted ⇒ hierarchical chunks filed under their true origins
                         (then T1 applies: exact read-back) OR class X (`ClassX`:
                         origins with gaps / overlaps / shifted strips or slabs; the
                         blocks are packed side by side, at least one not where its
                         origin says)
  `classX_gap`, `classX_shifted_strip`  concrete class-X witnesses (replayed on the
                         real `join_chunks` and, as a two-box refinement level, on
                         `read_data` by tools/props/C11.py)
  So the full statement "every non-hierarchical partition raises" is FALSE of the code:
  `unsupported_layout_raises_full_is_false`.

**T5'  restart selection and row alignment in full generality** (Model/Restarts.lean:
any number of restarts, any overlap, with and without `usecheckpoints`, any request
list incl. duplicates / unsorted / absent iterations, explicit restart)
  `pick_latest`, `pick_none`, `pick_max`, `pick_agrees_with_pickRestart`
  `rows_aligned`, `rows_aligned_explicit`   (code as of /repo e8cb585) the columns are the union of
                         the columns of the restarts read; every column (`t` and each variable) has
                         exactly one entry per returned iteration: the chosen restart's value at that
                         iteration, or `None` when that restart lacks the column — NO hypothesis on the
                         columns the restarts deliver;
  `rows_aligned_when_columns_differ`        the former misalignment witness, now aligned (replayed
                         as a correspondence case);
  `checkpoint_only_restart_shadows_3d`      known finding: a restart that holds only checkpoints
                         gets its range from them and shadows the 3D data of an earlier restart.
-/
import AurelVerif.Lemmas.C11AcceptConv
import AurelVerif.Lemmas.C11Restarts

namespace AurelVerif.C11
open AurelVerif.Chunks AurelVerif.ChunksLemmas AurelVerif.ChunkLayout AurelVerif.AcceptLemmas
open AurelVerif.Restarts AurelVerif.RestartsLemmas

/-! ## T8 accepted dictionaries -/

/-- **T8a** if `join_chunks` does not raise on a dictionary of non-empty blocks,
the dictionary is — up to the order of its entries — the blocks of an ordered
origin-annotated decomposition `O` of the returned array `R`: `R` cut at the
CUMULATIVE offsets of the block extents, each block filed under whatever origin
the file recorded.  (`Ordered`: origins strictly increase inside every strip,
slab and across slabs — nothing more.) -/
theorem accepted_structure {α : Type} (cut : Dict (Nat × Nat × Nat) (Arr3 α))
    (hk : (cut.map Prod.fst).Nodup) (hb : ∀ kb ∈ cut, RectPos kb.2) (R : Arr3 α)
    (h : joinChunks cut = some R) :
    ∃ (O : OZ) (nz ny nx : Nat), 0 < nz ∧ 0 < ny ∧ 0 < nx ∧ Rect R nz ny nx ∧ O.Ordered
      ∧ O.lens.Valid nz ny nx ∧ cut.Perm (ochunks R O) :=
  accepted_structure_lemma cut hk hb R (by rw [← joinChunks_eq_general]; exact h)

/-- **T8b** conversely every ordered origin-annotated decomposition with valid
lengths is accepted, in any enumeration order, and the result is the array cut
at the cumulative offsets — the recorded origins are never compared with the
extents. -/
theorem structure_accepted {α : Type} (A : Arr3 α) (nz ny nx : Nat) (hA : Rect A nz ny nx)
    (hz : 0 < nz) (hy : 0 < ny) (hx : 0 < nx) (O : OZ) (hV : O.lens.Valid nz ny nx) (hO : O.Ordered)
    (l : Dict (Nat × Nat × Nat) (Arr3 α)) (hl : l.Perm (ochunks A O)) :
    joinChunks l = some A := by
  rw [joinChunks_eq_general]
  exact join_general_O A nz ny nx hA hz hy hx O hV hO l hl

/-- **T8c** when the recorded origins are `base` + cumulative offsets the
dictionary is exactly `chunks base A D` of T1 (every block where its origin says). -/
theorem gapfree_is_hierarchical {α : Type} (A : Arr3 α) (O : OZ) (base : Nat × Nat × Nat) (h : O.GapFree base) :
    ochunks A O = chunks base A O.lens :=
  ochunks_eq_chunks A O base h

/-- **T8d** accepted ⇒ (hierarchical chunks under their true origins, result = the
array that was cut) ∨ class X. -/
theorem accepted_dichotomy {α : Type} (cut : Dict (Nat × Nat × Nat) (Arr3 α))
    (hk : (cut.map Prod.fst).Nodup) (hb : ∀ kb ∈ cut, RectPos kb.2) (R : Arr3 α)
    (h : joinChunks cut = some R) :
    (∃ (base : Nat × Nat × Nat) (D : ZSplit) (nz ny nx : Nat), 0 < nz ∧ 0 < ny ∧ 0 < nx ∧ Rect R nz ny nx
        ∧ D.Valid nz ny nx ∧ cut.Perm (chunks base R D))
      ∨ ClassX cut R :=
  accepted_dichotomy_lemma cut hk hb R h

/-- class-X witness 1: two 1×2×2 blocks whose x-origins 0 and 5 leave a gap of 3
(two separate boxes of a refinement level): accepted, glued together. -/
theorem classX_gap :
    joinChunks [((0, 0, 0), [[[1, 2], [3, 4]]]), ((5, 0, 0), [[[5, 6], [7, 8]]])]
        = some [[[1, 2, 5, 6], [3, 4, 7, 8]]]
      ∧ ClassX [((0, 0, 0), [[[1, 2], [3, 4]]]), ((5, 0, 0), [[[5, 6], [7, 8]]])] [[[1, 2, 5, 6], [3, 4, 7, 8]]] := by
  refine ⟨by decide +kernel, [(1, 0, [(2, 0, [(2, 0), (2, 5)])])], 1, 2, 4, ?_, ?_, ?_, ?_, ?_⟩
  · unfold Rect; decide
  · unfold OZ.Ordered; decide
  · unfold OZ.lens ZSplit.Valid YSplit.Valid XSplit.Valid; decide
  · decide +kernel
  · intro base h
    have h1 := h (0, 1, 0, [(2, 0, [(2, 0), (2, 5)])]) (by simp [cutsP])
    have h2 := h1.2 (0, 2, 0, [(2, 0), (2, 5)]) (by simp [cutsP])
    have h3 := h2.2 (0, 2, 0) (by simp [cutsP])
    have h4 := h2.2 (2, 2, 5) (by simp [cutsP])
    simp only at h3 h4
    omega

/-- class-X witness 2: the second strip starts one point further right than the
first (no gap inside a strip): accepted, the strips are stacked flush. -/
theorem classX_shifted_strip :
    joinChunks [((0, 0, 0), [[[1, 2]]]), ((2, 0, 0), [[[3, 4]]]), ((1, 1, 0), [[[5, 6]]]), ((3, 1, 0), [[[7, 8]]])]
        = some [[[1, 2, 3, 4], [5, 6, 7, 8]]]
      ∧ ClassX [((0, 0, 0), [[[1, 2]]]), ((2, 0, 0), [[[3, 4]]]), ((1, 1, 0), [[[5, 6]]]), ((3, 1, 0), [[[7, 8]]])]
          [[[1, 2, 3, 4], [5, 6, 7, 8]]] := by
  refine ⟨by decide +kernel, [(1, 0, [(1, 0, [(2, 0), (2, 2)]), (1, 1, [(2, 1), (2, 3)])])], 1, 2, 4,
    ?_, ?_, ?_, ?_, ?_⟩
  · unfold Rect; decide
  · unfold OZ.Ordered; decide
  · unfold OZ.lens ZSplit.Valid YSplit.Valid XSplit.Valid; decide
  · decide +kernel
  · intro base h
    have h1 := h (0, 1, 0, [(1, 0, [(2, 0), (2, 2)]), (1, 1, [(2, 1), (2, 3)])]) (by simp [cutsP])
    have h2 := h1.2 (0, 1, 0, [(2, 0), (2, 2)]) (by simp [cutsP])
    have h2' := h1.2 (1, 1, 1, [(2, 1), (2, 3)]) (by simp [cutsP])
    have h3 := h2.2 (0, 2, 0) (by simp [cutsP])
    have h4 := h2'.2 (0, 2, 1) (by simp [cutsP])
    simp only at h3 h4
    omega

/-- The full-strength reading of "an unsupported layout raises" — every accepted
dictionary consists of hierarchical chunks filed under their true origins — is
FALSE of the code. -/
theorem unsupported_layout_raises_full_is_false :
    ¬ ∀ (cut : Dict (Nat × Nat × Nat) (Arr3 Nat)) (R : Arr3 Nat), joinChunks cut = some R →
        ∃ (base : Nat × Nat × Nat) (D : ZSplit) (nz ny nx : Nat), D.Valid nz ny nx ∧ Rect R nz ny nx
          ∧ cut.Perm (chunks base R D) := by
  intro h
  obtain ⟨base, D, nz, ny, nx, hD, hR, hP⟩ := h _ _ classX_gap.1
  -- R has shape (1, 2, 4); both keys must be base + offsets of a valid decomposition: impossible for 0 and 5
  have hlen := hP.length_eq
  have hkeys := hP.map Prod.fst
  simp only [List.map_cons, List.map_nil, List.length_cons, List.length_nil] at hlen hkeys
  obtain ⟨hz1, hrows⟩ := hR
  have hnz : nz = 1 := by simpa using hz1.symm
  have hny : ny = 2 := by have := (hrows _ (List.mem_cons_self ..)).1; simpa using this.symm
  have hnx : nx = 4 := by
    have := (hrows _ (List.mem_cons_self ..)).2 [1, 2, 5, 6] (by simp); simpa using this.symm
  subst hnz; subst hny; subst hnx
  -- every origin of `chunks base R D` is ≥ base and < base + extent
  have hbound : ∀ k ∈ (chunks base ([[[1, 2, 5, 6], [3, 4, 7, 8]]] : Arr3 Nat) D).map Prod.fst,
      base.1 ≤ k.1 ∧ k.1 < base.1 + 4 := by
    intro k hk
    obtain ⟨kb, hkb, rfl⟩ := List.mem_map.mp hk
    unfold chunks at hkb
    obtain ⟨zc, hzc, hkb⟩ := List.mem_flatMap.mp hkb
    obtain ⟨yc, hyc, hkb⟩ := List.mem_flatMap.mp hkb
    obtain ⟨xc, hxc, rfl⟩ := List.mem_map.mp hkb
    obtain ⟨_, ⟨hp, hs⟩, _⟩ := valid_yc hD zc hzc yc hyc
    have := cuts_mem_bound 0 yc.2.2 xc hxc
    have hpos := hp xc.2 this.2
    simp only
    omega
  have k0 := hbound (0, 0, 0) (hkeys.mem_iff.mp (by simp))
  have k5 := hbound (5, 0, 0) (hkeys.mem_iff.mp (by simp))
  simp only at k0 k5
  omega

/-! ## T5' restart selection, any number of restarts, with and without checkpoints -/

/-- the restart an iteration is read from is the LAST catalogue entry that
holds it (range for 3D output, membership for checkpoints) -/
theorem pick_latest (usechk : Bool) (cats : List Cat) (iit r : Nat) (h : pick usechk cats iit = some r) :
    ∃ pre c post, cats = pre ++ c :: post ∧ c.num = r ∧ inRestart usechk c iit = true
      ∧ ∀ d ∈ post, inRestart usechk d iit = false :=
  pick_latest_lemma usechk cats iit r h

theorem pick_none (usechk : Bool) (cats : List Cat) (iit : Nat) :
    pick usechk cats iit = none ↔ ∀ c ∈ cats, inRestart usechk c iit = false :=
  pick_none_lemma usechk cats iit

/-- catalogue in increasing restart order (what `iterations()` writes): the
chosen restart has the largest number among all restarts holding the iteration -/
theorem pick_max (usechk : Bool) (cats : List Cat) (hs : (cats.map (·.num)).Pairwise (· < ·))
    (iit r : Nat) (h : pick usechk cats iit = some r) :
    ∀ c ∈ cats, inRestart usechk c iit = true → c.num ≤ r :=
  pick_max_lemma usechk cats hs iit r h

/-- the general model agrees with `pickRestart` of Model/Chunks.lean (T5) -/
theorem pick_agrees_with_pickRestart (avail : List Avail) (iit : Nat) :
    pick false (avail.map fun a => ⟨a.1, some (a.2.1, a.2.2), none⟩) iit = pickRestart avail iit := by
  unfold pick pickRestart
  rw [← List.map_reverse, List.find?_map, Option.map_map]
  rfl

/-- **rows aligned, `restart = -1`, full strength.**  Whatever the restarts, their
overlap, the request and the columns each restart delivers: one row per requested
iteration held by some restart, increasing, no duplicates; the columns are the
union (first-seen order) of the columns of the restarts that are read; every
column — `t` and every variable — has exactly one entry per row: what the chosen
restart's reader delivers for that iteration, or `None` if that restart does not
have the column.  (`keysOf r`: the columns of restart `r`; `cell r k it`: what its
reader returns in column `k` for iteration `it`.) -/
theorem rows_aligned {β : Type} (usechk : Bool) (cats : List Cat) (hnd : (cats.map (·.num)).Nodup)
    (keysOf : Nat → List String) (cell : Nat → String → Nat → β)
    (reader : Nat → List Nat → Option (Table β))
    (hr : ∀ r l, l ≠ [] → l.Pairwise (· < ·) → (∀ it ∈ l, pick usechk cats it = some r) →
      reader r l = some (ideal (keysOf r) cell r l))
    (its : List Nat) :
    readETData usechk cats none its reader
      = some ((rowsOf usechk cats its).map Prod.fst,
              aligned (unionKeysOf keysOf (activeRestarts usechk cats its)) fun k =>
                (rowsOf usechk cats its).map fun p => cellOpt keysOf cell p.2 k p.1) :=
  readETData_auto usechk cats hnd keysOf cell reader hr its

/-- the restarts whose columns enter the union are exactly those a row comes from -/
theorem active_restarts (usechk : Bool) (cats : List Cat) (its : List Nat) (r : Nat) :
    r ∈ activeRestarts usechk cats its ↔ ∃ it, (it, r) ∈ rowsOf usechk cats its :=
  mem_activeRestarts usechk cats its r

/-- **rows aligned, explicit restart**: only that restart is consulted -/
theorem rows_aligned_explicit {β : Type} (usechk : Bool) (cats : List Cat) (hnd : (cats.map (·.num)).Nodup)
    (c : Cat) (hc : c ∈ cats) (keys : List String) (hk : keys.Nodup) (cell : Nat → String → Nat → β)
    (reader : Nat → List Nat → Option (Table β))
    (hr : ∀ l, l ≠ [] → l.Pairwise (· < ·) → (∀ it ∈ l, inRestart usechk c it = true) →
      reader c.num l = some (ideal keys cell c.num l))
    (its : List Nat) :
    readETData usechk cats (some c.num) its reader
      = if (sortedSet its).filter (fun it => inRestart usechk c it) = [] then some ([], [])
        else some ((sortedSet its).filter (fun it => inRestart usechk c it),
                   aligned keys fun k =>
                     ((sortedSet its).filter fun it => inRestart usechk c it).map fun it => some (cell c.num k it)) :=
  readETData_explicit usechk cats hnd c hc keys hk cell reader hr its

/-- the former misalignment witness (restart 1 lacks `rho0`; iterations 0, 6, 10 from
restarts 0, 1, 2): `rho0` now has three entries, `None` next to iteration 6; and with
the variable missing in the FIRST restart (formerly KeyError) -/
theorem rows_aligned_when_columns_differ :
    flattenTables [(0, ⟨[0], [("t", [100]), ("alpha", [1]), ("rho0", [5])]⟩),
                   (1, ⟨[6], [("t", [106]), ("alpha", [2])]⟩),
                   (2, ⟨[10], [("t", [110]), ("alpha", [3]), ("rho0", [7])]⟩)] [0, 6, 10]
      = some ([0, 6, 10], [("t", [some 100, some 106, some 110]), ("alpha", [some 1, some 2, some 3]),
                           ("rho0", [some 5, none, some 7])])
    ∧ flattenTables [(0, ⟨[0], [("t", [100]), ("alpha", [1])]⟩),
                     (1, ⟨[6], [("t", [106]), ("alpha", [2]), ("rho0", [6])]⟩),
                     (2, ⟨[10], [("t", [110]), ("alpha", [3]), ("rho0", [7])]⟩)] [0, 6, 10]
      = some ([0, 6, 10], [("t", [some 100, some 106, some 110]), ("alpha", [some 1, some 2, some 3]),
                           ("rho0", [none, some 6, some 7])]) := by
  constructor <;> decide +kernel

/-- **known finding (not repaired)**: restart 1 holds only checkpoint files (4 and 8), so
its 'its available' is `[4, 8]`; a plain request for iterations 2 and 6 sends iteration 6
to restart 1 — whose reader fails, there is no 3D output — although restart 0 stores it. -/
theorem checkpoint_only_restart_shadows_3d :
    pick false [⟨0, some (0, 6), some []⟩, ⟨1, some (4, 8), some [4, 8]⟩] 6 = some 1
    ∧ inRestart false ⟨0, some (0, 6), some []⟩ 6 = true
    ∧ readETData (β := Nat) false [⟨0, some (0, 6), some []⟩, ⟨1, some (4, 8), some [4, 8]⟩] none [2, 6]
        (fun r l => if r = 1 then none else some (ideal ["t"] (fun _ _ it => it) r l)) = none := by
  refine ⟨by decide +kernel, by decide +kernel, by decide +kernel⟩

/-! ## Non-vacuity -/

/-- hypotheses of `accepted_structure` / `accepted_dichotomy`: the fixtures' kind of
dictionary (a gap-free one) -/
example : joinChunks [((2, 0, 0), [[[3]]]), ((0, 0, 0), [[[1, 2]]])] = some [[[1, 2, 3]]]
    ∧ ([((2, 0, 0), [[[3]]]), ((0, 0, 0), [[[1, 2]]])].map Prod.fst : List (Nat × Nat × Nat)).Nodup
    ∧ ∀ kb ∈ ([((2, 0, 0), [[[3]]]), ((0, 0, 0), [[[1, 2]]])] : Dict (Nat × Nat × Nat) (Arr3 Nat)), RectPos kb.2 := by
  refine ⟨by decide +kernel, by decide, ?_⟩
  intro kb hkb
  simp only [List.mem_cons, List.not_mem_nil, or_false] at hkb
  rcases hkb with rfl | rfl
  · exact ⟨1, 1, 1, by omega, by omega, by omega, by unfold Rect; decide⟩
  · exact ⟨1, 1, 2, by omega, by omega, by omega, by unfold Rect; decide⟩

/-- hypotheses of `structure_accepted`: an ordered, valid but NOT gap-free decomposition -/
example : OZ.Ordered [(1, 0, [(1, 0, [(2, 0), (2, 2)]), (1, 1, [(2, 1), (2, 3)])])]
    ∧ ZSplit.Valid (OZ.lens [(1, 0, [(1, 0, [(2, 0), (2, 2)]), (1, 1, [(2, 1), (2, 3)])])]) 1 2 4 := by
  constructor
  · unfold OZ.Ordered; decide
  · unfold OZ.lens ZSplit.Valid YSplit.Valid XSplit.Valid; decide

/-- hypothesis of `gapfree_is_hierarchical` -/
example : OZ.GapFree [(1, 7, [(1, 3, [(2, 5), (2, 7)]), (1, 4, [(1, 5), (3, 6)])])] (5, 3, 7) := by decide

/-- `pick_max`: three restarts, the middle one and the last one hold iteration 32 as
checkpoints; `rows_aligned` hypotheses with a reader that returns the restart number -/
example : pick true [⟨0, some (0, 40), some [0, 32]⟩, ⟨1, some (32, 64), some [32, 48]⟩, ⟨2, some (48, 80), some [64]⟩] 32
    = some 1 := by decide +kernel
example : (([⟨0, some (0, 40), some [0, 32]⟩, ⟨1, some (32, 64), some [32, 48]⟩, ⟨2, some (48, 80), some [64]⟩] :
    List Cat).map (fun c => c.num)).Pairwise (· < ·) := by decide
example : readETData (β := Nat) true [⟨0, some (0, 40), some [0, 32]⟩, ⟨1, some (32, 64), some [32, 48]⟩,
      ⟨2, some (48, 80), some [64]⟩] none [48, 32, 7, 0, 32]
      (fun r l => some (ideal (if r = 0 then ["t", "v"] else ["t"])
        (fun r k it => if k = "t" then 1000 * r + it else 7000 + 100 * r + it) r l))
    = some ([0, 32, 48], [("t", [some 0, some 1032, some 1048]), ("v", [some 7000, none, none])]) := by decide +kernel

end AurelVerif.C11
