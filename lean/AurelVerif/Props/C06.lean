/-
Props/C06.lean — ADM constraints and BSSNOK "time derivative" keys (property C06).

Property text: on every exact solution of Einstein's equations the Hamiltonian and
momentum constraints converge to zero and every dt-key (∂_tK, ∂_tφ, ∂_tγ^ij,
∂_tγ̃_ij, ∂_tÃ_ij, ∂_tΓ̃^i) converges to the true coordinate-time derivative.

What is proven here (for every field `K`, every input, every finite-difference
operator `e.D`; the definitions without namespace prefix are GENERATED from the
current core.py on every run, `e.X` = cached entry of key `X`):

 T1  each of the eight keys, for BOTH values of `vacuum`, equals — term by term,
     with every sign, coefficient, density weight and index placement — the
     hand-written equation of `Spec/ADM.lean` (Baumgarte–Shapiro 2.132, 2.133,
     2.137, 11.35–11.38; Alcubierre 2.8.9–2.8.12, 2.8.25); the relations between
     the matter and vacuum alternatives (which ρ, S, Λ terms are dropped);
     the helper calls inlined by the tracer are the helpers of Gen/CoreHelpers.
 T2  `rho_n`, `fluxup3_n`, `Stress*` are the projections `T n n`, `−γ T n`, `γ γ T`.
 T3  (Layer B, consistency; `Lemmas/C06Deriv.lean`)  if ∂_t and ∂_i obey the
     product rule and `∂_tγ_ij = −2αK_ij + L_βγ_ij`, then the Spec right-hand
     sides of `dtgammaup3`, `dtphi_bssnok`, `dtgammadown3_bssnok` ARE the
     t-derivatives of γ⁻¹, (1/12) ln det γ, ψ⁻⁴γ_ij.
 T4  (Layer B)  with, in addition, the ADM evolution equation for `∂_tK_ij` and
     the Hamiltonian constraint as hypotheses, `dtKtrace = ∂_t(γ^ij K_ij)`;
     `Ã_ijÃ^ij = K_ijK^ij − K²/3`.

Extensions in separate modules (same namespace `AurelVerif.C06`):
 Props/C06b.lean  (Layer B)  `dtAdown3_bssnok = ∂_t(ψ⁻⁴(K_ij − γ_ijK/3))` from the ADM evolution equation of K_ij, both
                  branches, no constraint needed;
 Props/C06c.lean  Einstein's equations ⟹ `Hamiltonian = 0`, `Momentumup3 = 0`, MODULO the (uncontracted) Gauss and
                  Codazzi equations: `Hamiltonian = 2(G+Λg−κT)_μν n^μn^ν`, `Momentumup3^i = −γ^{iμ}(G+Λg−κT)_μν n^ν`;
 Props/C06d.lean  (Layer B)  `dts_Gamma_bssnok = ∂_tΓ̃^i`, `Γ̃^i = −∂_jγ̃^ij`, with commuting derivatives and the momentum
                  constraint (conformal form [A] (2.8.24), derived from `Momentumup3 = 0`).

What NO theorem covers (trusted; watched by the sympy oracle of tools/props/C06.py on exact solutions at two
resolutions):
 * that the Riemann tensor of the 4-metric satisfies the Gauss and Codazzi equations (hypotheses of Props/C06c), that
   `R_ij = R̃_ij + R^φ_ij`, and the ADM evolution equation of K_ij itself (hypotheses of the Layer-B theorems);
 * convergence order of the composed finite-difference expressions.
-/
import AurelVerif.Props.C09
import AurelVerif.Gen.CoreCurv
import AurelVerif.Spec.ADM
import AurelVerif.Lemmas.C06Deriv

set_option linter.unusedSimpArgs false
set_option linter.unusedVariables false

namespace AurelVerif.C06
open AurelVerif.Gen.Core AurelVerif.Tensor AurelVerif.CoreTac AurelVerif.C08 AurelVerif.Spec.Covd AurelVerif.Spec

variable {K : Type} [Field K]

/-- table of shift derivatives `∂_cβ^a` as the code computes it (`fd.d3_rank1tensor(betaup3)`). -/
def dβ (e : Env K) (c a : Fin 3) : K := e.D c (e.betaup3 a)
/-- gradient of a scalar value `∂_k x`. -/
def grad (e : Env K) (x : K) (k : Fin 3) : K := e.D k x

/-! ## T1 the constraints -/

/-- **Hamiltonian constraint**: `R + K² − K_ijK^ij − 2κρ − 2Λ` (matter), `R + K² − K_ijK^ij` (vacuum). -/
theorem Hamiltonian_spec (e : Env K) :
    Hamiltonian__dflt_matter e = ADM.hamiltonian e.s_RicciS e.Ktrace e.Kdown3 e.Kup3 e.kappa e.rho_n e.Lambda
    ∧ Hamiltonian__dflt_vacuum e = ADM.hamiltonianVac e.s_RicciS e.Ktrace e.Kdown3 e.Kup3 := by
  constructor <;>
    (simp only [ADM.hamiltonian, ADM.hamiltonianVac, core_unfold, Fin.sum_univ_three]; try ring)

/-- the vacuum branch drops exactly `− 2κρ − 2Λ` (so `vacuum=True` also assumes Λ = 0). -/
theorem Hamiltonian_matter_vs_vacuum (e : Env K) :
    Hamiltonian__dflt_matter e = Hamiltonian__dflt_vacuum e - 2 * e.kappa * e.rho_n - 2 * e.Lambda := by
  simp only [core_unfold]

/-- **momentum constraint**: `D_j(K^ij − γ^ij K) − κS^i` (matter), `D_j(K^ij − γ^ij K)` (vacuum);
`D_j` is the covariant derivative of a rank-(2,0) tensor with the cached Christoffel symbols,
the partial derivative is taken of the combination `K^ij − γ^ij K`. -/
theorem Momentumup3_spec (e : Env K) (i : Fin 3) :
    Momentumup3__dflt_matter e i
      = ADM.momentum e.D e.s_Gamma_udd3 e.Kup3 e.gammaup3 e.Ktrace e.kappa e.fluxup3_n i
    ∧ Momentumup3__dflt_vacuum e i = ADM.momentumVac e.D e.s_Gamma_udd3 e.Kup3 e.gammaup3 e.Ktrace i := by
  revert i
  cases3 <;> (constructor <;>
    (simp only [ADM.momentum, ADM.momentumVac, ADM.momTensor, covdUU, pd2, core_unfold, Fin.sum_univ_three]; try ring))

theorem Momentumup3_matter_vs_vacuum (e : Env K) (i : Fin 3) :
    Momentumup3__dflt_matter e i = Momentumup3__dflt_vacuum e i - e.kappa * e.fluxup3_n i := by
  revert i; cases3 <;> (simp only [core_unfold]; try ring)

/-- the inlined covariant derivative is the helper `s_covd(·, 'uu')` contracted as `'bab -> a'`. -/
theorem Momentumup3_inlines (e : Env K) (a : Fin 3) :
    Momentumup3__dflt_vacuum e a = ∑ b, s_covd_uu e (ADM.momTensor e.Kup3 e.gammaup3 e.Ktrace) b a b := by
  revert a; cases3 <;> (simp only [ADM.momTensor, core_unfold, Fin.sum_univ_three])

/-- when the three components are cached the vector is assembled from them, and the components read
the vector back. -/
theorem Momentumup3_from_components (e : Env K) :
    Momentumup3__Momentumx_and_Momentumy_and_Momentumz e = vec3 e.Momentumx e.Momentumy e.Momentumz
    ∧ Momentumx e = e.Momentumup3 0 ∧ Momentumy e = e.Momentumup3 1 ∧ Momentumz e = e.Momentumup3 2 :=
  ⟨rfl, rfl, rfl, rfl⟩

/-! ## T1 the dt-keys -/

/-- **∂_tγ^ij = L_βγ^ij + 2αK^ij** (sign of the lapse term opposite to `∂_tγ_ij`). -/
theorem dtgammaup3_spec (e : Env K) (i j : Fin 3) :
    dtgammaup3 e i j = ADM.dtGammaUp e.betaup3 (dβ e) (pd2 e.D e.gammaup3) e.gammaup3 e.alpha e.Kup3 i j := by
  revert i j
  cases3 <;> cases3 <;>
    (simp only [ADM.dtGammaUp, lieUU, pd2, dβ, core_unfold, Fin.sum_univ_three]; try ring)

theorem dtgammaup3_inlines (e : Env K) (i j : Fin 3) :
    dtgammaup3 e i j = Lie_beta_s_uu e e.gammaup3 i j + 2 * e.alpha * e.Kup3 i j := by
  revert i j; cases3 <;> cases3 <;> (simp only [core_unfold])

/-- **∂_tφ = −αK/6 + β^k∂_kφ + (1/6)∂_kβ^k**: weight 1/6, the divergence term is NOT multiplied by φ. -/
theorem dtphi_bssnok_spec (e : Env K) :
    dtphi_bssnok e = ADM.dtPhi e.betaup3 (grad e e.phi_bssnok) (dβ e) e.alpha e.Ktrace := by
  simp only [ADM.dtPhi, lie0, divβ, grad, dβ, core_unfold, Fin.sum_univ_three]; ring

theorem dtphi_bssnok_inlines (e : Env K) :
    dtphi_bssnok e = Lie_beta_scalar e e.phi_bssnok + (1 / 6) * divβ (dβ e) - (1 / 6) * e.alpha * e.Ktrace := by
  simp only [divβ, dβ, core_unfold, Fin.sum_univ_three]

/-- **∂_tγ̃_ij = −2αÃ_ij + L_βγ̃_ij, density weight −2/3.** -/
theorem dtgammadown3_bssnok_spec (e : Env K) (i j : Fin 3) :
    dtgammadown3_bssnok e i j
      = ADM.dtGammaTildeDown e.betaup3 (dβ e) (pd2 e.D e.gammadown3_bssnok) e.gammadown3_bssnok e.alpha
          e.Adown3_bssnok i j := by
  revert i j
  cases3 <;> cases3 <;>
    (simp only [ADM.dtGammaTildeDown, lieDD, divβ, pd2, dβ, core_unfold, Fin.sum_univ_three]; try ring)

theorem dtgammadown3_bssnok_inlines (e : Env K) (i j : Fin 3) :
    dtgammadown3_bssnok e i j
      = Lie_beta_w_s_dd e e.gammadown3_bssnok (-(2 / 3)) i j - 2 * e.alpha * e.Adown3_bssnok i j := by
  revert i j; cases3 <;> cases3 <;> (simp only [core_unfold])

/-- **∂_tK**, vacuum branch: `β^k∂_kK − γ^ijD_iD_jα + α(Ã_ijÃ^ij + K²/3)`; and what the matter branch
adds, exactly as coded: `(1/2)κα(ρ + S − 2(Λ/κ))` — the vacuum branch therefore also drops Λ. -/
theorem dtKtrace_vacuum_spec (e : Env K) :
    dtKtrace__dflt_vacuum e
      = ADM.dtKVac e.betaup3 (grad e e.Ktrace) e.gammaup3 e.DDalpha e.alpha e.A2_bssnok e.Ktrace
    ∧ dtKtrace__dflt_matter e
      = dtKtrace__dflt_vacuum e
        + (1 / 2) * e.kappa * e.alpha * (e.rho_n + e.Stresstrace_n - 2 * (e.Lambda / e.kappa)) := by
  constructor <;> (simp only [ADM.dtKVac, lie0, grad, core_unfold, Fin.sum_univ_three]; try ring)

/-- **∂_tK**, matter branch (κ ≠ 0): `… + (κ/2)α(ρ + S) − αΛ`. -/
theorem dtKtrace_matter_spec (e : Env K) (hκ : e.kappa ≠ 0) (h2 : (2 : K) ≠ 0) :
    dtKtrace__dflt_matter e
      = ADM.dtK e.betaup3 (grad e e.Ktrace) e.gammaup3 e.DDalpha e.alpha e.A2_bssnok e.Ktrace e.kappa e.rho_n
          e.Stresstrace_n e.Lambda := by
  rw [(dtKtrace_vacuum_spec e).2, (dtKtrace_vacuum_spec e).1]
  simp only [ADM.dtK, ADM.dtKVac]
  field_simp
  ring

theorem dtKtrace_inlines (e : Env K) :
    dtKtrace__dflt_vacuum e
      = Lie_beta_scalar e e.Ktrace - trace3 e e.DDalpha + e.alpha * (e.A2_bssnok + (1 / 3) * e.Ktrace ^ 2) := by
  simp only [core_unfold]

/-- the Ricci tensor used by `dtAdown3_bssnok`: `R_ij = R̃_ij + R^φ_ij`. -/
def RicSum (e : Env K) (a b : Fin 3) : K := e.s_Ricci_down3_bssnok a b + e.s_Ricci_down3_phi a b

/-- **∂_tÃ_ij** (B&S 11.38), both branches: `e^{−4φ}[−D_iD_jα + αR_ij (− ακS_ij)]^TF + α(KÃ_ij − 2Ã_ikγ̃^klÃ_lj)
+ L_βÃ_ij` with weight −2/3; trace-free part taken with the physical metric. -/
theorem dtAdown3_bssnok_spec (e : Env K) (i j : Fin 3) :
    dtAdown3_bssnok__dflt_matter e i j
      = ADM.dtATilde e.betaup3 (dβ e) (pd2 e.D e.Adown3_bssnok) e.Adown3_bssnok e.gammaup3_bssnok e.gammadown3
          e.gammaup3 e.DDalpha (RicSum e) e.Stressdown3_n (e.expF (-4 * e.phi_bssnok)) e.alpha e.Ktrace e.kappa i j
    ∧ dtAdown3_bssnok__dflt_vacuum e i j
      = ADM.dtATildeVac e.betaup3 (dβ e) (pd2 e.D e.Adown3_bssnok) e.Adown3_bssnok e.gammaup3_bssnok e.gammadown3
          e.gammaup3 e.DDalpha (RicSum e) (e.expF (-4 * e.phi_bssnok)) e.alpha e.Ktrace i j := by
  revert i j
  cases3 <;> cases3 <;> (constructor <;>
    (simp only [ADM.dtATilde, ADM.dtATildeVac, ADM.tf, RicSum, lieDD, divβ, pd2, dβ, core_unfold, Fin.sum_univ_three]
     try ring))

/-- matter = vacuum `− e^{−4φ} κ α (S_ij)^TF`. -/
theorem dtAdown3_bssnok_matter_vs_vacuum (e : Env K) (i j : Fin 3) :
    dtAdown3_bssnok__dflt_matter e i j
      = dtAdown3_bssnok__dflt_vacuum e i j
        - e.expF (-4 * e.phi_bssnok) * e.kappa * e.alpha * ADM.tf e.gammadown3 e.gammaup3 e.Stressdown3_n i j := by
  revert i j
  cases3 <;> cases3 <;> (simp only [ADM.tf, core_unfold, Fin.sum_univ_three]; try ring)

/-- the inlined helper calls are `Lie_beta(·, 's_dd', weight=−2/3)` and `tracefree3`. -/
theorem dtAdown3_bssnok_inlines (e : Env K) (i j : Fin 3) :
    dtAdown3_bssnok__dflt_vacuum e i j
      = Lie_beta_w_s_dd e e.Adown3_bssnok (-(2 / 3)) i j
        + e.expF (-4 * e.phi_bssnok) * tracefree3 e (fun a b => -e.DDalpha a b + e.alpha * RicSum e a b) i j
        + e.alpha * (e.Ktrace * e.Adown3_bssnok i j
            - 2 * ∑ a, ∑ b, e.Adown3_bssnok i a * e.Adown3_bssnok b j * e.gammaup3_bssnok a b) := by
  revert i j
  cases3 <;> cases3 <;> (simp only [RicSum, core_unfold, Fin.sum_univ_three]; try ring)

/-- **∂_tΓ̃^i** (Alcubierre 2.8.25), both branches: coefficients 1/3, 2/3 (density weight), −2, 2, 12 = 2·6,
−4/3 = 2·(−2/3), matter term `−2κα e^{4φ} S^i`. -/
theorem dts_Gamma_bssnok_spec (e : Env K) (i : Fin 3) :
    dts_Gamma_bssnok__dflt_matter e i
      = ADM.dtGammaVec e.D e.betaup3 (dβ e) (pd1 e.D e.s_Gamma_bssnok) e.s_Gamma_bssnok e.gammaup3_bssnok
          e.Aup3_bssnok e.s_Gamma_udd3_bssnok e.alpha (grad e e.alpha) (grad e e.phi_bssnok) (grad e e.Ktrace)
          e.kappa (e.expF (4 * e.phi_bssnok)) e.fluxup3_n i
    ∧ dts_Gamma_bssnok__dflt_vacuum e i
      = ADM.dtGammaVecVac e.D e.betaup3 (dβ e) (pd1 e.D e.s_Gamma_bssnok) e.s_Gamma_bssnok e.gammaup3_bssnok
          e.Aup3_bssnok e.s_Gamma_udd3_bssnok e.alpha (grad e e.alpha) (grad e e.phi_bssnok) (grad e e.Ktrace) i := by
  revert i
  cases3 <;> (constructor <;>
    (simp only [ADM.dtGammaVec, ADM.dtGammaVecVac, lieU, divβ, pd1, grad, dβ, core_unfold, Fin.sum_univ_three]
     try ring))

theorem dts_Gamma_bssnok_matter_vs_vacuum (e : Env K) (i : Fin 3) :
    dts_Gamma_bssnok__dflt_matter e i
      = dts_Gamma_bssnok__dflt_vacuum e i - 2 * e.kappa * e.alpha * e.expF (4 * e.phi_bssnok) * e.fluxup3_n i := by
  revert i; cases3 <;> (simp only [core_unfold]; try ring)

/-! ## T2 Eulerian projections of the stress-energy tensor -/

/-- `ρ = T_μν n^μ n^ν`. -/
theorem rho_n_spec (e : Env K) : rho_n e = ADM.rhoN e.Tdown4 e.nup4 := C09.rho_n_spec e

/-- `S^i = −γ^{iμ} T_μν n^ν` (4-D projector `gammaup4`, spatial components of the result). -/
theorem fluxup3_n_spec (e : Env K) (i : Fin 3) : fluxup3_n e i = ADM.fluxN e.gammaup4 e.Tdown4 e.nup4 i := by
  revert i; cases3 <;> (simp only [ADM.fluxN, core_unfold, Fin.sum_univ_four]; try ring)

/-- in 3+1 variables: `S^i = −γ^ij (T_j0 − β^k T_jk)/α`. -/
theorem fluxup3_n_closed (e : Env K) (hg : e.gammaup4 = gammaup4 e) (hn : e.nup4 = nup4 e) (i : Fin 3) :
    fluxup3_n e i
      = -∑ j : Fin 3, e.gammaup3 i j * ((e.Tdown4 j.succ 0 - ∑ k : Fin 3, e.betaup3 k * e.Tdown4 j.succ k.succ) / e.alpha) := by
  revert i
  cases3 <;> (simp only [hg, hn, core_unfold, Fin.sum_univ_three]; try ring)

/-- `S^ij = γ^ia γ^jb T_ab`, `S = γ^ij T_ij`, `S_ij = γ_ia γ_jb S^ab` (symmetric metric). -/
theorem Stress_spec (e : Env K) (hu : Sym e.gammaup3) (hd : Sym e.gammadown3) (i j : Fin 3) :
    Stressup3_n e i j = ADM.stressUpN e.gammaup3 e.Tdown4 i j
    ∧ Stresstrace_n e = ADM.stressTrace e.gammaup3 e.Tdown4
    ∧ Stressdown3_n e i j = ∑ a, ∑ b, e.gammadown3 i a * e.gammadown3 j b * e.Stressup3_n a b := by
  have h01 := hu 1 0; have h02 := hu 2 0; have h12 := hu 2 1
  have g01 := hd 1 0; have g02 := hd 2 0; have g12 := hd 2 1
  revert i j
  cases3 <;> cases3 <;>
    (refine ⟨?_, ?_, ?_⟩ <;>
      (simp only [ADM.stressUpN, ADM.stressTrace, ADM.stressN, core_unfold, Fin.sum_univ_three, h01, h02, h12,
         g01, g02, g12]; try ring))

/-- **`S_ij = T_ij`**: lowering the raised spatial stress with the inverse metric returns the spatial
components of `T_μν` (needs `γ^ik γ_kj = δ^i_j`). -/
theorem Stressdown3_n_is_T (e : Env K) (hS : e.Stressup3_n = Stressup3_n e)
    (hinv : ∀ i k : Fin 3, ∑ j, e.gammaup3 i j * e.gammadown3 j k = delta i k) (c d : Fin 3) :
    Stressdown3_n e c d = ADM.stressN e.Tdown4 c d := by
  have h := fun c d => C06Deriv.sandwich3 e.gammaup3 e.gammadown3 (fun a b => e.Tdown4 a.succ b.succ) hinv c d
  revert c d
  cases3 <;> cases3 <;>
    (refine Eq.trans ?_ (h _ _)
     simp only [hS, core_unfold, Fin.sum_univ_three]
     ring)

/-! ## T3 Layer B (consistency): the Spec right-hand sides are the t-derivatives

These theorems are about the *continuum* meaning: `∂_t` and `∂_i` enter through the values of the
derivatives (`dtγ i j = ∂_tγ_ij`, …) constrained by the product rule applied to the defining relations.
The finite-difference operators do NOT satisfy the product rule; nothing here is claimed for them. -/

/-- **`dtgammaup3` is `∂_t(γ⁻¹)`**: if `dtU` are the t-derivatives and `e.D s (γ^ij)` the x-derivatives of the
inverse metric (product rule applied to `γ^ik γ_kj = δ^i_j`), and `∂_tγ_ij = −2αK_ij + L_βγ_ij`, then the
value the code computes for `dtgammaup3` is `∂_tγ^ij`. -/
theorem dtgammaup3_is_dt_inverse (e : Env K) (dtG dtU : Fin 3 → Fin 3 → K)
    (hUG : ∀ i k : Fin 3, ∑ j, e.gammaup3 i j * e.gammadown3 j k = delta i k)
    (hGU : ∀ i k : Fin 3, ∑ j, e.gammadown3 i j * e.gammaup3 j k = delta i k)
    (hsymU : Sym e.gammaup3)
    (hKup : e.Kup3 = Kup3 e)
    (hdt : ∀ i j : Fin 3, ∑ k, (dtU i k * e.gammadown3 k j + e.gammaup3 i k * dtG k j) = 0)
    (hds : ∀ s i j : Fin 3, ∑ k, (e.D s (e.gammaup3 i k) * e.gammadown3 k j
        + e.gammaup3 i k * e.D s (e.gammadown3 k j)) = 0)
    (hkin : ∀ i j : Fin 3, dtG i j = -2 * e.alpha * e.Kdown3 i j
        + lieDD e.betaup3 (dβ e) (pd2 e.D e.gammadown3) e.gammadown3 i j)
    (i j : Fin 3) : dtgammaup3 e i j = dtU i j := by
  rw [dtgammaup3_spec]
  have hK : ∀ a b, e.Kup3 a b = ∑ i, ∑ j, e.gammaup3 i a * e.gammaup3 j b * e.Kdown3 i j := by
    intro a b; rw [hKup]; exact Kup3_spec e a b
  exact (C06Deriv.dt_inverse_metric e.gammadown3 e.gammaup3 dtG dtU (pd2 e.D e.gammadown3) (pd2 e.D e.gammaup3)
    e.betaup3 (dβ e) e.alpha e.Kdown3 e.Kup3 hUG hGU hsymU hK hdt hds hkin i j).symm

/-- **`dtphi_bssnok` is `∂_t((1/12) ln det γ)`** (Jacobi's formula is a ring identity for the closed-form
3x3 determinant and inverse): with `∂(ln x) = ∂x / x`, i.e. `∂φ = ∂(det γ)/(12 det γ)` where
`∂(det γ) = Σ cofactor_ij ∂γ_ij` (product rule on the determinant polynomial). -/
theorem dtphi_bssnok_is_dt_logdet (e : Env K) (dtG : Fin 3 → Fin 3 → K)
    (hsym : Sym e.gammadown3) (hdet : gammadet e ≠ 0) (h12 : (12 : K) ≠ 0)
    (hU : e.gammaup3 = gammaup3 e) (hKt : e.Ktrace = Ktrace e)
    (hdφ : ∀ s : Fin 3, e.D s e.phi_bssnok
        = C06Deriv.ddet3 e.gammadown3 (fun a b => e.D s (e.gammadown3 a b)) / (12 * gammadet e))
    (hkin : ∀ i j : Fin 3, dtG i j = -2 * e.alpha * e.Kdown3 i j
        + lieDD e.betaup3 (dβ e) (pd2 e.D e.gammadown3) e.gammadown3 i j) :
    dtphi_bssnok e = C06Deriv.ddet3 e.gammadown3 dtG / (12 * gammadet e) := by
  rw [dtphi_bssnok_spec]
  have h01 := hsym 1 0; have h02 := hsym 2 0; have h12' := hsym 2 1
  have h1 : gammadet e = C06Deriv.det3 e.gammadown3 := by
    simp only [C06Deriv.det3, core_unfold, h01, h02, h12']; ring
  have hd := hdet
  simp only [core_unfold, h01, h02, h12'] at hd
  have hUc : ∀ a b, e.gammaup3 a b * C06Deriv.det3 e.gammadown3 = C06Deriv.cof3 e.gammadown3 a b := by
    rw [hU]
    cases3 <;> cases3 <;>
      (simp only [C06Deriv.cof3, C06Deriv.det3, core_unfold, h01, h02, h12']
       rw [div_mul_eq_mul_div, div_eq_iff hd]
       ring)
  have hK : e.Ktrace = ∑ a, ∑ b, e.gammaup3 a b * e.Kdown3 a b := by rw [hKt]; exact Ktrace_spec e
  rw [h1] at hdφ hdet ⊢
  exact (C06Deriv.dt_logdet e.gammadown3 e.gammaup3 dtG (pd2 e.D e.gammadown3) e.betaup3 (dβ e) e.alpha e.Kdown3
    e.Ktrace (grad e e.phi_bssnok) hdet h12 hUc hK (fun s => hdφ s) hkin).symm

/-- **`dtgammadown3_bssnok` is `∂_t(ψ⁻⁴γ_ij)`**: with `∂(ψ⁻⁴) = −4ψ⁻⁴∂φ` (ψ = e^φ), `∂_tφ` given by the
φ-equation and `∂_tγ_ij` by the kinematic relation, product rule on `γ̃_ij = ψ⁻⁴γ_ij`. -/
theorem dtgammadown3_bssnok_is_dt_conformal (e : Env K) (dtG : Fin 3 → Fin 3 → K) (dtφ p : K)
    (h2 : (2 : K) ≠ 0) (h3 : (3 : K) ≠ 0)
    (hgt : ∀ i j, e.gammadown3_bssnok i j = p * e.gammadown3 i j)
    (hAt : ∀ i j, e.Adown3_bssnok i j = p * e.Adown3 i j)
    (hA : e.Adown3 = Adown3 e) (hKt : e.Ktrace = Ktrace e)
    (hds : ∀ s i j : Fin 3, e.D s (e.gammadown3_bssnok i j)
        = p * e.D s (e.gammadown3 i j) + (-4 * p * e.D s e.phi_bssnok) * e.gammadown3 i j)
    (hφ : dtφ = ADM.dtPhi e.betaup3 (grad e e.phi_bssnok) (dβ e) e.alpha e.Ktrace)
    (hkin : ∀ i j : Fin 3, dtG i j = -2 * e.alpha * e.Kdown3 i j
        + lieDD e.betaup3 (dβ e) (pd2 e.D e.gammadown3) e.gammadown3 i j)
    (i j : Fin 3) :
    dtgammadown3_bssnok e i j = p * dtG i j + (-4 * p * dtφ) * e.gammadown3 i j := by
  rw [dtgammadown3_bssnok_spec]
  have hAs : ∀ a b, e.Adown3 a b = e.Kdown3 a b - (1 / 3) * e.gammadown3 a b * e.Ktrace := by
    intro a b; rw [hA, Adown3_spec, hKt, Ktrace_spec]
  exact C06Deriv.dt_conformal_metric e.gammadown3 e.gammadown3_bssnok e.Adown3_bssnok e.Kdown3 dtG
    (pd2 e.D e.gammadown3) (pd2 e.D e.gammadown3_bssnok) e.betaup3 (dβ e) (grad e e.phi_bssnok) e.alpha e.Ktrace
    dtφ p h2 h3 hgt (fun a b => by rw [hAt, hAs]) (fun s a b => by simpa only [pd2, grad] using hds s a b) hφ hkin i j

/-! ### the same three statements with ∂_t, ∂_i as operators on values obeying the product rule

`C06Deriv.Deriv d` : `d (a + b) = d a + d b`, `d (a b) = d a · b + a · d b`.  (The finite-difference operators are
additive but do not obey the product rule: these are statements about the continuum limit.) -/

/-- **`dtgammaup3 = ∂_t(γ^ij)`.** -/
theorem dtgammaup3_is_dt (e : Env K) (Dt : K → K) (hDt : C06Deriv.Deriv Dt) (hD : ∀ s, C06Deriv.Deriv (e.D s))
    (hUG : ∀ i k : Fin 3, ∑ j, e.gammaup3 i j * e.gammadown3 j k = delta i k)
    (hGU : ∀ i k : Fin 3, ∑ j, e.gammadown3 i j * e.gammaup3 j k = delta i k)
    (hsymU : Sym e.gammaup3) (hKup : e.Kup3 = Kup3 e)
    (hkin : ∀ i j : Fin 3, Dt (e.gammadown3 i j) = -2 * e.alpha * e.Kdown3 i j
        + lieDD e.betaup3 (dβ e) (pd2 e.D e.gammadown3) e.gammadown3 i j)
    (i j : Fin 3) : dtgammaup3 e i j = Dt (e.gammaup3 i j) :=
  dtgammaup3_is_dt_inverse e (fun a b => Dt (e.gammadown3 a b)) (fun a b => Dt (e.gammaup3 a b)) hUG hGU hsymU hKup
    (C06Deriv.deriv_of_inverse hDt e.gammaup3 e.gammadown3 hUG)
    (fun s => C06Deriv.deriv_of_inverse (hD s) e.gammaup3 e.gammadown3 hUG) hkin i j

/-- **`dtphi_bssnok = ∂_tφ`** for `φ = (1/12) ln det γ`, with `∂(ln x) = ∂x / x` for ∂_t and ∂_i as the only
property of the logarithm that is used. -/
theorem dtphi_bssnok_is_dt (e : Env K) (Dt : K → K) (hDt : C06Deriv.Deriv Dt) (hD : ∀ s, C06Deriv.Deriv (e.D s))
    (hsym : Sym e.gammadown3) (hdet : gammadet e ≠ 0) (h12 : (12 : K) ≠ 0)
    (hU : e.gammaup3 = gammaup3 e) (hKt : e.Ktrace = Ktrace e)
    (hφ : e.phi_bssnok = (1 / 12) * e.logF (gammadet e))
    (hlogt : Dt (e.logF (gammadet e)) = Dt (gammadet e) / gammadet e)
    (hlogs : ∀ s, e.D s (e.logF (gammadet e)) = e.D s (gammadet e) / gammadet e)
    (hkin : ∀ i j : Fin 3, Dt (e.gammadown3 i j) = -2 * e.alpha * e.Kdown3 i j
        + lieDD e.betaup3 (dβ e) (pd2 e.D e.gammadown3) e.gammadown3 i j) :
    dtphi_bssnok e = Dt e.phi_bssnok := by
  have h01 := hsym 1 0; have h02 := hsym 2 0; have h12' := hsym 2 1
  have h1 : gammadet e = C06Deriv.det3 e.gammadown3 := by
    simp only [C06Deriv.det3, core_unfold, h01, h02, h12']; ring
  have hd12 : (12 : K) * gammadet e ≠ 0 := mul_ne_zero h12 hdet
  rw [dtphi_bssnok_is_dt_logdet e (fun a b => Dt (e.gammadown3 a b)) hsym hdet h12 hU hKt ?_ hkin]
  · rw [hφ, hDt.twelfth h12, hlogt, h1, hDt.det3]
    field_simp
  · intro s
    rw [hφ, (hD s).twelfth h12, hlogs s, h1, (hD s).det3]
    field_simp

/-- **`dtgammadown3_bssnok = ∂_t(ψ⁻⁴γ_ij)`**, with `∂(ψ⁻⁴) = −4ψ⁻⁴∂φ` (ψ = e^φ) for ∂_t and ∂_i. -/
theorem dtgammadown3_bssnok_is_dt (e : Env K) (Dt : K → K) (hDt : C06Deriv.Deriv Dt) (hD : ∀ s, C06Deriv.Deriv (e.D s))
    (p : K) (h2 : (2 : K) ≠ 0) (h3 : (3 : K) ≠ 0)
    (hgt : ∀ i j, e.gammadown3_bssnok i j = p * e.gammadown3 i j)
    (hAt : ∀ i j, e.Adown3_bssnok i j = p * e.Adown3 i j)
    (hA : e.Adown3 = Adown3 e) (hKt : e.Ktrace = Ktrace e)
    (hpt : Dt p = -4 * p * Dt e.phi_bssnok) (hps : ∀ s, e.D s p = -4 * p * e.D s e.phi_bssnok)
    (hφ : Dt e.phi_bssnok = ADM.dtPhi e.betaup3 (grad e e.phi_bssnok) (dβ e) e.alpha e.Ktrace)
    (hkin : ∀ i j : Fin 3, Dt (e.gammadown3 i j) = -2 * e.alpha * e.Kdown3 i j
        + lieDD e.betaup3 (dβ e) (pd2 e.D e.gammadown3) e.gammadown3 i j)
    (i j : Fin 3) : dtgammadown3_bssnok e i j = Dt (e.gammadown3_bssnok i j) := by
  rw [dtgammadown3_bssnok_is_dt_conformal e (fun a b => Dt (e.gammadown3 a b)) (Dt e.phi_bssnok) p h2 h3 hgt hAt hA hKt
    (fun s a b => by rw [hgt, (hD s).mul, hps s]; ring) hφ hkin i j, hgt, hDt.mul, hpt]
  ring

/-! ### T4 `dtKtrace` is `∂_t(γ^ij K_ij)` — needs the ADM evolution equation AND the Hamiltonian constraint -/

/-- **`Ã_ijÃ^ij = K_ijK^ij − K²/3`**: the conformal weights cancel and the trace part splits off
(entries produced by the code's own formulas, ψ⁴ ≠ 0, `γ^ij γ_jk = δ`). -/
theorem A2_bssnok_closed (e : Env K) (h3 : (3 : K) ≠ 0) (hψ : e.psi_bssnok ^ 4 ≠ 0)
    (hAb : e.Adown3_bssnok = Adown3_bssnok e) (hAub : e.Aup3_bssnok = Aup3_bssnok e)
    (hA : e.Adown3 = Adown3 e) (hAu : e.Aup3 = Aup3 e) (hKup : e.Kup3 = Kup3 e) (hKt : e.Ktrace = Ktrace e)
    (hsymG : Sym e.gammadown3) (hsymU : Sym e.gammaup3)
    (hUG : ∀ i k : Fin 3, ∑ j, e.gammaup3 i j * e.gammadown3 j k = delta i k) :
    A2_bssnok e = (∑ i, ∑ j, e.Kdown3 i j * e.Kup3 i j) - (1 / 3) * e.Ktrace ^ 2 := by
  rw [A2_bssnok_spec]
  have hw : ∀ i j, e.Adown3_bssnok i j * e.Aup3_bssnok i j = e.Adown3 i j * e.Aup3 i j := by
    intro i j
    have hψ0 : e.psi_bssnok ≠ 0 := fun h => hψ (by rw [h]; norm_num)
    rw [hAb, hAub, (bssnok_weights e i j).2.2.1, (bssnok_weights e i j).2.2.2]
    field_simp
  have hT : e.Ktrace = ∑ i, ∑ j, e.gammaup3 i j * e.Kdown3 i j := by rw [hKt]; exact Ktrace_spec e
  have hAs : ∀ a b, e.Adown3 a b = e.Kdown3 a b - (1 / 3) * e.gammadown3 a b * e.Ktrace := by
    intro a b; rw [hA, Adown3_spec, ← hT]
  have hAu' : ∀ i j, e.Aup3 i j = ∑ a, ∑ b, e.gammaup3 i a * e.gammaup3 j b * e.Adown3 a b := by
    intro i j; rw [hAu]; exact Aup3_spec e i j
  have hKu' : ∀ a b, e.Kup3 a b = ∑ i, ∑ j, e.gammaup3 i a * e.gammaup3 j b * e.Kdown3 i j := by
    intro a b; rw [hKup]; exact Kup3_spec e a b
  simp only [hw, hAu', hAs, hKu']
  exact C06Deriv.A2_closed e.gammadown3 e.gammaup3 e.Kdown3 e.Ktrace h3 hsymG hsymU hUG hT

/-- **`dtKtrace` (matter branch) is `∂_t(γ^ij K_ij) = (∂_tγ^ij)K_ij + γ^ij ∂_tK_ij`** when
`∂_tγ^ij` is the code's `dtgammaup3` (T3), `∂_tK_ij` obeys the ADM evolution equation (B&S 2.135 with Λ),
`∂_sK` obeys the product rule, and **the Hamiltonian constraint holds** (`Hamiltonian = 0`): the BSSNOK form of
`∂_tK` has used the constraint to eliminate the Ricci scalar. -/
theorem dtKtrace_is_dt_trace (e : Env K) (dtU dtKd Ric : Fin 3 → Fin 3 → K) (h2 : (2 : K) ≠ 0) (hκ : e.kappa ≠ 0)
    (hsymU : Sym e.gammaup3) (hsymK : Sym e.Kdown3)
    (hUG : ∀ i k : Fin 3, ∑ j, e.gammaup3 i j * e.gammadown3 j k = delta i k)
    (hKup : e.Kup3 = Kup3 e) (hKt : e.Ktrace = Ktrace e)
    (hS : e.Stresstrace_n = ∑ i, ∑ j, e.gammaup3 i j * e.Stressdown3_n i j)
    (hR : e.s_RicciS = ∑ i, ∑ j, e.gammaup3 i j * Ric i j)
    (hA2 : e.A2_bssnok = (∑ i, ∑ j, e.Kdown3 i j * e.Kup3 i j) - (1 / 3) * e.Ktrace ^ 2)
    (hdK : ∀ s, e.D s e.Ktrace
        = ∑ i, ∑ j, (e.D s (e.gammaup3 i j) * e.Kdown3 i j + e.gammaup3 i j * e.D s (e.Kdown3 i j)))
    (hdtU : ∀ i j, dtU i j = dtgammaup3 e i j)
    (hadm : ∀ i j, dtKd i j = ADM.dtKdown e.betaup3 (dβ e) (pd2 e.D e.Kdown3) e.Kdown3 e.gammadown3 e.gammaup3
        e.DDalpha Ric e.Stressdown3_n e.alpha e.Ktrace e.kappa e.rho_n e.Stresstrace_n e.Lambda i j)
    (hham : Hamiltonian__dflt_matter e = 0) :
    dtKtrace__dflt_matter e = ∑ i, ∑ j, (dtU i j * e.Kdown3 i j + e.gammaup3 i j * dtKd i j) := by
  rw [dtKtrace_matter_spec e hκ h2]
  have hKu : ∀ a b, e.Kup3 a b = ∑ i, ∑ j, e.gammaup3 i a * e.gammaup3 j b * e.Kdown3 i j := by
    intro a b; rw [hKup]; exact Kup3_spec e a b
  have hT : e.Ktrace = ∑ i, ∑ j, e.gammaup3 i j * e.Kdown3 i j := by rw [hKt]; exact Ktrace_spec e
  exact (C06Deriv.dt_trace_K e.gammadown3 e.gammaup3 e.Kdown3 e.Kup3 dtU dtKd e.DDalpha Ric e.Stressdown3_n
    (pd2 e.D e.gammaup3) (pd2 e.D e.Kdown3) e.betaup3 (dβ e) (grad e e.Ktrace) e.alpha e.Ktrace e.A2_bssnok e.kappa
    e.rho_n e.Stresstrace_n e.Lambda e.s_RicciS h2 hsymU hsymK hUG hKu hT hS hR hA2 (fun s => hdK s)
    (fun i j => by rw [hdtU, dtgammaup3_spec]) hadm ((Hamiltonian_spec e).1 ▸ hham)).symm

/-! ## Non-vacuity -/

/-- a concrete non-trivial point: lapse 2, shift (1,0,0), sheared metric, non-zero K_ij, κ = 8, Λ = 1/2, and a
"derivative" operator with different non-zero values per axis. -/
def exEnv : Env ℚ :=
  { (Env.zero : Env ℚ) with
    kappa := 8, Lambda := 1 / 2, alpha := 2, betaup3 := vec3 1 0 0,
    D := fun i x => (i.val + 1 : ℚ) * x + 1,
    gammadown3 := vec3 (vec3 1 1 0) (vec3 1 2 0) (vec3 0 0 1),
    gammaup3 := vec3 (vec3 2 (-1) 0) (vec3 (-1) 1 0) (vec3 0 0 1),
    Kdown3 := vec3 (vec3 1 0 0) (vec3 0 0 0) (vec3 0 0 3),
    Kup3 := vec3 (vec3 4 (-2) 0) (vec3 (-2) 1 0) (vec3 0 0 3), Ktrace := 5,
    rho_n := 3, s_RicciS := 7, phi_bssnok := 1 / 3, Stresstrace_n := 2 }

/-- on this point every term of the Hamiltonian constraint and of `∂_tK`, `∂_tφ` contributes: the matter, Λ,
lapse, shift and divergence terms are all non-zero, and matter ≠ vacuum. -/
example : Hamiltonian__dflt_matter exEnv = 7 + 25 - 13 - 48 - 1
    ∧ Hamiltonian__dflt_vacuum exEnv = 19
    ∧ dtphi_bssnok exEnv = (1 * (1 / 3) + 1) + (1 / 6) * (2 + 1 + 1) - (1 / 6) * 2 * 5
    ∧ dtgammaup3 exEnv 0 0 = 3 - 1 - 1 + 2 * 2 * 4
    ∧ exEnv.kappa ≠ 0 := by
  refine ⟨?_, ?_, ?_, ?_, ?_⟩ <;> (simp only [exEnv, core_unfold, Env.zero]; norm_num)

/-- FLRW point `a = 2`, `ȧ = 3`, `α = 1`, `β = 0` (spatially constant, so every x-derivative vanishes):
`γ_ij = 4δ`, `K_ij = −aȧ δ = −6δ`, `∂_tγ_ij = 12δ`, `∂_tγ^ij = −2ȧ/a³ δ = −(3/4)δ`.  All hypotheses of
`dtgammaup3_is_dt_inverse` hold and the key evaluates to −3/4 (the sign the oracle's FLRW witness pins). -/
def exFLRW : Env ℚ :=
  { (Env.zero : Env ℚ) with
    alpha := 1,
    gammadown3 := vec3 (vec3 4 0 0) (vec3 0 4 0) (vec3 0 0 4),
    gammaup3 := vec3 (vec3 (1 / 4) 0 0) (vec3 0 (1 / 4) 0) (vec3 0 0 (1 / 4)),
    Kdown3 := vec3 (vec3 (-6) 0 0) (vec3 0 (-6) 0) (vec3 0 0 (-6)),
    Kup3 := vec3 (vec3 (-3 / 8) 0 0) (vec3 0 (-3 / 8) 0) (vec3 0 0 (-3 / 8)),
    Ktrace := -9 / 2, kappa := 2, Lambda := 3 / 4, rho_n := 3, Stresstrace_n := 3,
    Stressdown3_n := vec3 (vec3 4 0 0) (vec3 0 4 0) (vec3 0 0 4) }

example :
    let dtG : Fin 3 → Fin 3 → ℚ := vec3 (vec3 12 0 0) (vec3 0 12 0) (vec3 0 0 12)
    let dtU : Fin 3 → Fin 3 → ℚ := vec3 (vec3 (-3 / 4) 0 0) (vec3 0 (-3 / 4) 0) (vec3 0 0 (-3 / 4))
    (∀ i k : Fin 3, ∑ j, exFLRW.gammaup3 i j * exFLRW.gammadown3 j k = delta i k)
    ∧ (∀ i k : Fin 3, ∑ j, exFLRW.gammadown3 i j * exFLRW.gammaup3 j k = delta i k)
    ∧ Sym exFLRW.gammaup3 ∧ exFLRW.Kup3 = Kup3 exFLRW
    ∧ (∀ i j : Fin 3, ∑ k, (dtU i k * exFLRW.gammadown3 k j + exFLRW.gammaup3 i k * dtG k j) = 0)
    ∧ (∀ s i j : Fin 3, ∑ k, (exFLRW.D s (exFLRW.gammaup3 i k) * exFLRW.gammadown3 k j
        + exFLRW.gammaup3 i k * exFLRW.D s (exFLRW.gammadown3 k j)) = 0)
    ∧ (∀ i j : Fin 3, dtG i j = -2 * exFLRW.alpha * exFLRW.Kdown3 i j
        + lieDD exFLRW.betaup3 (dβ exFLRW) (pd2 exFLRW.D exFLRW.gammadown3) exFLRW.gammadown3 i j)
    ∧ dtgammaup3 exFLRW 0 0 = -3 / 4 := by
  intro dtG dtU
  refine ⟨?_, ?_, ?_, ?_, ?_, ?_, ?_, ?_⟩
  · cases3 <;> cases3 <;> (simp only [exFLRW, Fin.sum_univ_three, delta, core_unfold]; norm_num [Fin.ext_iff])
  · cases3 <;> cases3 <;> (simp only [exFLRW, Fin.sum_univ_three, delta, core_unfold]; norm_num [Fin.ext_iff])
  · cases3 <;> cases3 <;> (simp only [exFLRW, core_unfold])
  · funext a b; revert a b; cases3 <;> cases3 <;> (simp only [exFLRW, core_unfold]; norm_num)
  · cases3 <;> cases3 <;> (simp only [dtG, dtU, exFLRW, Fin.sum_univ_three, core_unfold]; norm_num)
  · intro s; cases3 <;> cases3 <;> (simp only [exFLRW, Env.zero, Fin.sum_univ_three, core_unfold]; norm_num)
  · cases3 <;> cases3 <;>
      (simp only [dtG, exFLRW, Env.zero, lieDD, pd2, dβ, Fin.sum_univ_three, core_unfold]; norm_num)
  · simp only [exFLRW, Env.zero, core_unfold]; norm_num

/-- the hypotheses of `dtKtrace_is_dt_trace` are satisfiable with every term contributing: the same FLRW point with
`κ = 2`, `Λ = 3/4`, `ρ = 3`, `S_ij = γ_ij` satisfies the Hamiltonian constraint (`K² − K_ijK^ij = 27/2 = 2κρ + 2Λ`), the ADM
equation gives `∂_tK_ij = −2δ_ij`, and `dtKtrace = 3·((−3/4)(−6) + (1/4)(−2)) = 12`. -/
example :
    let dtU : Fin 3 → Fin 3 → ℚ := vec3 (vec3 (-3 / 4) 0 0) (vec3 0 (-3 / 4) 0) (vec3 0 0 (-3 / 4))
    let dtKd : Fin 3 → Fin 3 → ℚ := vec3 (vec3 (-2) 0 0) (vec3 0 (-2) 0) (vec3 0 0 (-2))
    let Ric : Fin 3 → Fin 3 → ℚ := fun _ _ => 0
    Hamiltonian__dflt_matter exFLRW = 0
    ∧ exFLRW.Ktrace = Ktrace exFLRW
    ∧ exFLRW.A2_bssnok = (∑ i, ∑ j, exFLRW.Kdown3 i j * exFLRW.Kup3 i j) - (1 / 3) * exFLRW.Ktrace ^ 2
    ∧ exFLRW.Stresstrace_n = ∑ i, ∑ j, exFLRW.gammaup3 i j * exFLRW.Stressdown3_n i j
    ∧ (∀ i j, dtU i j = dtgammaup3 exFLRW i j)
    ∧ (∀ i j, dtKd i j = ADM.dtKdown exFLRW.betaup3 (dβ exFLRW) (pd2 exFLRW.D exFLRW.Kdown3) exFLRW.Kdown3
        exFLRW.gammadown3 exFLRW.gammaup3 exFLRW.DDalpha Ric exFLRW.Stressdown3_n exFLRW.alpha exFLRW.Ktrace exFLRW.kappa
        exFLRW.rho_n exFLRW.Stresstrace_n exFLRW.Lambda i j)
    ∧ dtKtrace__dflt_matter exFLRW = 12 := by
  intro dtU dtKd Ric
  refine ⟨?_, ?_, ?_, ?_, ?_, ?_, ?_⟩
  · simp only [exFLRW, Env.zero, core_unfold]; norm_num
  · simp only [exFLRW, Env.zero, core_unfold]; norm_num
  · simp only [exFLRW, Env.zero, Fin.sum_univ_three, core_unfold]; norm_num
  · simp only [exFLRW, Env.zero, Fin.sum_univ_three, core_unfold]; norm_num
  · cases3 <;> cases3 <;> (simp only [dtU, exFLRW, Env.zero, core_unfold]; norm_num)
  · cases3 <;> cases3 <;>
      (simp only [dtKd, Ric, ADM.dtKdown, lieDD, pd2, dβ, exFLRW, Env.zero, Fin.sum_univ_three, core_unfold]; norm_num)
  · simp only [exFLRW, Env.zero, core_unfold]; norm_num

/-- the product-rule hypothesis `Deriv` is satisfiable (over ℚ only by the zero operator; over a differential
field such as ℚ(t) by d/dt) — the non-trivial instance of the Layer-B hypotheses is the jet form above. -/
example : C06Deriv.Deriv (fun _ : ℚ => (0 : ℚ)) := ⟨fun _ _ => by simp, fun _ _ => by simp⟩

end AurelVerif.C06
