/-
Props/C10EB.lean — property C10, part 3: electric and magnetic parts, Levi-Civita tables (T4, T5, D9).
See Props/C10.lean for the overview.
-/
import AurelVerif.Lemmas.C10LC
import AurelVerif.Lemmas.C10EB
import AurelVerif.Lemmas.C10B
import AurelVerif.Lemmas.C10Weyl
import Mathlib.Tactic.NormNum
set_option linter.unusedSimpArgs false
set_option linter.unusedVariables false

namespace AurelVerif.C10
open AurelVerif.Gen.Core AurelVerif.Tensor AurelVerif.CoreTac AurelVerif.Spec.Weyl AurelVerif.Model.WeylNP

variable {K : Type} [Field K]

/-! ### T4 electric and magnetic parts on the slice -/

/-- `E_ij = TF[R_ij + K K_ij − K_ia K_bj γ^{ab}] − (κ/2) TF[S_ij]` (matter) / without the last term (vacuum). -/
theorem eweyl_n_spec (e : Env K) (i j : Fin 3) :
    eweyl_n_down3__dflt_matter e i j
        = eweylN e.gammaup3 e.gammadown3 e.s_Ricci_down3 e.Kdown3 e.Stressdown3_n e.Ktrace e.kappa false i j
    ∧ eweyl_n_down3__dflt_vacuum e i j
        = eweylN e.gammaup3 e.gammadown3 e.s_Ricci_down3 e.Kdown3 e.Stressdown3_n e.Ktrace e.kappa true i j :=
  ⟨eweyl_n_matter_spec e i j, eweyl_n_vacuum_spec e i j⟩

/-- `E` is symmetric for symmetric γ, γ⁻¹, 3-Ricci, K, S (both vacuum flags). -/
theorem eweyl_n_sym (e : Env K) (hγu : Symm e.gammaup3) (hγ : Symm e.gammadown3) (hRic : Symm e.s_Ricci_down3)
    (hK : Symm e.Kdown3) (hS : Symm e.Stressdown3_n) :
    Symm (eweyl_n_down3__dflt_matter e) ∧ Symm (eweyl_n_down3__dflt_vacuum e) := by
  constructor <;> intro i j
  · rw [eweyl_n_matter_spec, eweyl_n_matter_spec]; exact eweylN_symm _ _ _ _ _ _ _ _ hγu hγ hRic hK hS i j
  · rw [eweyl_n_vacuum_spec, eweyl_n_vacuum_spec]; exact eweylN_symm _ _ _ _ _ _ _ _ hγu hγ hRic hK hS i j

/-- `γ^{ij} E_ij = 0` whenever `γ^{ij}γ_ij = 3` (characteristic ≠ 3), both vacuum flags, any K, Ric, S. -/
theorem eweyl_n_tracefree (e : Env K) (h3ne : (3 : K) ≠ 0)
    (h3 : ∑ i, ∑ j, e.gammaup3 i j * e.gammadown3 i j = 3) :
    ∑ i, ∑ j, e.gammaup3 i j * eweyl_n_down3__dflt_matter e i j = 0
    ∧ ∑ i, ∑ j, e.gammaup3 i j * eweyl_n_down3__dflt_vacuum e i j = 0 := by
  constructor
  · simp only [eweyl_n_matter_spec]; exact eweylN_traceless _ _ _ _ _ _ _ _ h3ne h3
  · simp only [eweyl_n_vacuum_spec]; exact eweylN_traceless _ _ _ _ _ _ _ _ h3ne h3

/-- `B_ab = ε^{cd}{}_b D_c K_da + ½ ε^{cd}{}_b γ_ac (D_d K − D_e K^e{}_d)`, with the code's own
covariant derivatives (`s_covd`, generated) and `ε^{cd}{}_b = γ^{ce}γ^{df} ε_{efb}`.
(Symmetry and trace-freeness of `B` are continuum facts: not claimed.) -/
theorem bweyl_n_spec (e : Env K) (a b : Fin 3) :
    bweyl_n_down3 e a b
      = bweylN (epsUud3 e.gammaup3 (levicivita_down3 e)) e.gammadown3 (s_covd_dd e e.Kdown3)
          (s_covd_scalar e e.Ktrace) (s_covd_ud e (Kmixed e)) a b :=
  bweyl_n_matches e a b

/-! ### T5 electric and magnetic parts seen by the observer `u` -/

/-- `E_ac = C_abcd u^b u^d`. -/
theorem eweyl_u_spec (e : Env K) (a c : Fin 4) :
    eweyl_u_down4 e a c = eweylU e.st_Weyl_down4 e.uup4 a c := eweyl_u_matches e a c

/-- `B_ae = ½ u^b u^f C_abcd ε^{cd}{}_{ef}`, `ε^{cd}{}_{ef} = g^{ac}g^{bd} ε_{abef}`. -/
theorem bweyl_u_spec (e : Env K) (a f : Fin 4) :
    bweyl_u_down4 e a f = bweylU e.st_Weyl_down4 e.uup4 (epsUudd e.gup4 (levicivita_down4 e)) a f :=
  bweyl_u_matches e a f

/-! ### D9 Levi-Civita tables -/

/-- the generated tables are the totally antisymmetric symbols (sign change under each adjacent
transposition, `[0123] = [012] = +1`) times `√(−g)`, `√γ`. -/
theorem levicivita_tables (e : Env K) :
    (∀ a b c d, levicivita_symbol_down4 e a b c d = -levicivita_symbol_down4 e b a c d
        ∧ levicivita_symbol_down4 e a b c d = -levicivita_symbol_down4 e a c b d
        ∧ levicivita_symbol_down4 e a b c d = -levicivita_symbol_down4 e a b d c)
    ∧ levicivita_symbol_down4 e 0 1 2 3 = 1
    ∧ (∀ a b c, levicivita_symbol_down3 e a b c = -levicivita_symbol_down3 e b a c
        ∧ levicivita_symbol_down3 e a b c = -levicivita_symbol_down3 e a c b)
    ∧ levicivita_symbol_down3 e 0 1 2 = 1
    ∧ (∀ a b c d, levicivita_down4 e a b c d = levicivita_symbol_down4 e a b c d * e.sqrtF (-e.gdet))
    ∧ ∀ a b c, levicivita_down3 e a b c = levicivita_symbol_down3 e a b c * e.sqrtF e.gammadet :=
  ⟨lc_symbol4_antisymm e, lc_symbol4_0123 e, lc_symbol3_antisymm e, lc_symbol3_012 e, lc_down4_spec e,
    lc_down3_spec e⟩

/-! ### Non-vacuity -/

/-- flat γ, symmetric non-diagonal K, 3-Ricci and stress. -/
def exEnvE : Env ℚ :=
  { (Env.zero : Env ℚ) with
    gammadown3 := vec3 (vec3 1 0 0) (vec3 0 1 0) (vec3 0 0 1),
    gammaup3 := vec3 (vec3 1 0 0) (vec3 0 1 0) (vec3 0 0 1),
    Kdown3 := vec3 (vec3 1 2 0) (vec3 2 0 1) (vec3 0 1 3),
    s_Ricci_down3 := vec3 (vec3 0 1 0) (vec3 1 2 0) (vec3 0 0 1),
    Stressdown3_n := vec3 (vec3 1 0 0) (vec3 0 2 1) (vec3 0 1 3) }

example : Symm exEnvE.gammaup3 ∧ Symm exEnvE.gammadown3 ∧ Symm exEnvE.s_Ricci_down3 ∧ Symm exEnvE.Kdown3
    ∧ Symm exEnvE.Stressdown3_n ∧ (3 : ℚ) ≠ 0
    ∧ ∑ i, ∑ j, exEnvE.gammaup3 i j * exEnvE.gammadown3 i j = 3 := by
  refine ⟨?_, ?_, ?_, ?_, ?_, by norm_num, ?_⟩
  all_goals first
    | (cases3 <;> cases3 <;> (simp only [exEnvE, core_unfold]))
    | (simp only [exEnvE, core_unfold, Fin.sum_univ_three]; norm_num)

end AurelVerif.C10
