/-
Props/C20d.lean — fourth part of the property theorems for C20: the SPATIAL
interpolation error of smooth non-trilinear fields, and with it the last clause of
the property — "the mode decomposition of a field that is a pure harmonic on the
extraction sphere returns that mode's amplitude, converging with angular AND GRID
resolution" — as a theorem about the models (Model/Harm + Model/Interp).  ONLY
property statements and non-vacuity examples; proofs in Lemmas/C20LinErr (Rolle,
tensor product), Lemmas/C20InterpR (the model of scipy's linear
RegularGridInterpolator lifted word for word from `Rat` to `ℝ`, equal to the
executable model on rational data), Lemmas/C20Extract (perturbation of the
coefficient sums, sup bound of a harmonic, total weight of the angular grid,
combination with T21), Lemmas/C20ExtractEx (a concrete instance of all hypotheses).

  T23 1-D: |(1−t)g(a) + t g(b) − g(a+t(b−a))| ≤ (b−a)²·M/8 for g continuous on [a,b],
      twice differentiable inside with |g''| ≤ M                      (constant sharp)
  T24 one cell: |trilinear interpolant of the 8 corner values − f| ≤
      ((x1−x0)²Mx + (y1−y0)²My + (z1−z0)²Mz)/8; only the PURE second partials enter
  T25 the real copy `InterpR.interp3` of Model/Interp IS the model on rational data (cast),
      its interval search too
  T26 every target inside the grid: |InterpR.interp3(f(nodes)) − f| ≤ (hx²Mx + hy²My + hz²Mz)/8
  T27 `psi4_sphere`/`psi4lm` of `Psi4_lm` on the models, Ψ4 band-limited on the sphere nodes:
      ‖psi4lm_i − a_i‖ ≤ harmSup_i·2π²·(bound of T26 for Re + for Im) + Σ_j defectBound·‖a_j‖
  T28 pure harmonic `Ψ4 = amp·ₛY_{l0 m0}` on the sphere: amp at (l0,m0), 0 elsewhere, same bound
  T29 explicit rate C₁(hx²+hy²+hz²) + C₂/(Ntheta+1)² with C₁ = harmSup·π²·M/2,
      C₂ = Σ_j defectConst·‖a_j‖, both independent of grid and angular resolution
  T30 convergence: along any sequence of grids with widths → 0 and Ntheta → ∞, psi4lm_i → a_i

  T31 local versions: T26 with regularity asked only on the closed cells containing the target
      (bound with that cell's widths); T27 from arbitrary node-wise interpolation errors E(p):
      ‖psi4lm_i − a_i‖ ≤ Σ_p ‖Y_i(p)‖‖w(p)‖E(p) + Σ_j defectBound·‖a_j‖

NOT covered: IEEE round-off (exact real arithmetic; the tie of the real copy to scipy is
T25 + the exact correspondence `corr_interp` on dyadic data); interpolation methods other
than 'linear'; the constants are rigorous but not sharp (harmSup = √(R/π)·Σ|coef| instead
of the true sup of |ₛY_lm|, total weight 2π² instead of ≈ 4π, Kθ of T20).
CAVEAT on the hypotheses of T27–T30: they ask for bounded pure second partials of Re Ψ4, Im Ψ4
on the whole box of the grid, i.e. a field that is smooth in CARTESIAN coordinates (instance
below: Ψ4 = x² + y² = exAmp·₋₂Y₂₀ on the unit sphere).  The extension `A·ₛY_lm(θ,φ)·g(r)` of a
spin-weighted harmonic to ℝ³ is in general NOT C² (not even continuous) across the polar
axis — e.g. `₋₂Y₂₂ ∝ cos⁴(θ/2)·e^{2iφ}` does not vanish at θ = 0 but winds in φ — so for such
fields (the ones the numerical sentinel injects) the O(h²) rate is NOT claimed: only T31
applies (O(h²) at the nodes whose cells avoid the axis, whatever bound is available at the
others), and the sentinel keeps watching them.
-/
import AurelVerif.Props.C20c
import AurelVerif.Lemmas.C20ExtractEx

namespace AurelVerif.C20
open AurelVerif.Harm AurelVerif.HarmLemmas AurelVerif.HarmGram AurelVerif.LinErr Complex
open scoped Real ComplexConjugate

/-- **T23** the classical error of 1-D linear interpolation: `g` continuous on `[a, b]`,
twice differentiable in `(a, b)` with `|g''| ≤ M` there (`C2On g a b M`); then for every
`0 ≤ t ≤ 1`: `|(1−t)·g(a) + t·g(b) − g(a + t(b−a))| ≤ (b−a)²·M/8`. -/
theorem linear_interp_error_1d (g : ℝ → ℝ) (a b M : ℝ) (hab : a < b)
    (hc : ContinuousOn g (Set.Icc a b)) (g' g'' : ℝ → ℝ)
    (h1 : ∀ x ∈ Set.Ioo a b, HasDerivAt g (g' x) x) (h2 : ∀ x ∈ Set.Ioo a b, HasDerivAt g' (g'' x) x)
    (hM : ∀ x ∈ Set.Ioo a b, |g'' x| ≤ M) (t : ℝ) (ht0 : 0 ≤ t) (ht1 : t ≤ 1) :
    |(1 - t) * g a + t * g b - g (a + t * (b - a))| ≤ (b - a) ^ 2 * M / 8 :=
  lin_interp_error hab ⟨hc, g', g'', h1, h2, hM⟩ t ht0 ht1

/-- **T24** the tensor product on one cell `[x0,x1]×[y0,y1]×[z0,z1]`: if the slices of `f`
parallel to the axes have second derivatives bounded by `Mx, My, Mz` on the cell, the
trilinear interpolant `triCell` of the 8 corner values (scipy's sum, in its order)
deviates from `f` by at most `((x1−x0)²Mx + (y1−y0)²My + (z1−z0)²Mz)/8` at every point
of the cell.  Mixed partial derivatives do not enter. -/
theorem trilinear_interp_error_cell (f : ℝ → ℝ → ℝ → ℝ) (x0 x1 y0 y1 z0 z1 Mx My Mz : ℝ)
    (hx : x0 < x1) (hy : y0 < y1) (hz : z0 < z1)
    (HX : ∀ y ∈ Set.Icc y0 y1, ∀ z ∈ Set.Icc z0 z1, C2On (fun x => f x y z) x0 x1 Mx)
    (HY : ∀ x ∈ Set.Icc x0 x1, ∀ z ∈ Set.Icc z0 z1, C2On (fun y => f x y z) y0 y1 My)
    (HZ : ∀ x ∈ Set.Icc x0 x1, ∀ y ∈ Set.Icc y0 y1, C2On (fun z => f x y z) z0 z1 Mz)
    (tx ty tz : ℝ) (htx : 0 ≤ tx ∧ tx ≤ 1) (hty : 0 ≤ ty ∧ ty ≤ 1) (htz : 0 ≤ tz ∧ tz ≤ 1) :
    |triCell f x0 x1 y0 y1 z0 z1 tx ty tz
        - f (x0 + tx * (x1 - x0)) (y0 + ty * (y1 - y0)) (z0 + tz * (z1 - z0))|
      ≤ ((x1 - x0) ^ 2 * Mx + (y1 - y0) ^ 2 * My + (z1 - z0) ^ 2 * Mz) / 8 :=
  trilinear_cell_error f hx hy hz HX HY HZ tx ty tz htx.1 htx.2 hty.1 hty.2 htz.1 htz.2

/-- **T25** the real copy of Model/Interp.lean (`InterpR`, same definitions with `ℝ` for
`Rat`) returns on rational grids, nodal values and targets EXACTLY the value of the
executable model (which `corr_interp` compares with scipy), and its interval search
returns the model's interval, whatever the hint. -/
theorem real_interpolant_is_model (gx gy gz : List ℚ) (val : Nat → Nat → Nat → ℚ) (x y z : ℚ) :
    InterpR.interp3 (InterpR.castGrid gx) (InterpR.castGrid gy) (InterpR.castGrid gz)
        (fun i j k => ((val i j k : ℚ) : ℝ)) x y z
      = ((Interp.interp3 gx gy gz val x y z : ℚ) : ℝ)
    ∧ ∀ prev, InterpR.findIntervalFrom prev (InterpR.castGrid gx) (x : ℝ) = Interp.findIntervalFrom prev gx x :=
  ⟨InterpR.interp3_cast gx gy gz val x y z, fun prev => InterpR.findIntervalFrom_cast prev gx x⟩

/-- **T26** interpolation error of the linear `RegularGridInterpolator` as
`numerical.interpolate` calls it (real copy of the model; cell search included): strictly
ascending axes with ≥ 2 nodes and cell widths at most `hx, hy, hz`; nodal values `f(node)`
of a field with bounded pure second partials `Mx, My, Mz` on the box of the grid.  At EVERY
target inside the grid (faces, edges, nodes included)
`|interpolant − f| ≤ (hx²·Mx + hy²·My + hz²·Mz)/8`. -/
theorem linear_interpolation_error (gx gy gz : List ℝ) (f : ℝ → ℝ → ℝ → ℝ) (hx hy hz Mx My Mz : ℝ)
    (G : GridField gx gy gz f hx hy hz Mx My Mz) (x y z : ℝ)
    (hx0 : InterpR.nth gx 0 ≤ x) (hx1 : x ≤ InterpR.nth gx (gx.length - 1))
    (hy0 : InterpR.nth gy 0 ≤ y) (hy1 : y ≤ InterpR.nth gy (gy.length - 1))
    (hz0 : InterpR.nth gz 0 ≤ z) (hz1 : z ≤ InterpR.nth gz (gz.length - 1)) :
    |InterpR.interp3 gx gy gz (fun i j k => f (InterpR.nth gx i) (InterpR.nth gy j) (InterpR.nth gz k)) x y z - f x y z|
      ≤ (hx ^ 2 * Mx + hy ^ 2 * My + hz ^ 2 * Mz) / 8 :=
  InterpR.interp3_error gx gy gz G.ax G.ay G.az G.nx G.ny G.nz f G.wx G.wy G.wz G.HX G.HY G.HZ x y z
    hx0 hx1 hy0 hy1 hz0 hz1

/-- **T27** the sphere extraction of `Psi4_lm` on the models, end to end.
`psi4lm s lmax gx gy gz fr fi R N` is `sYlm_coefficients(s, lmax, psi4_sphere, …)` with
`psi4_sphere = interpolate(fr) + 1j·interpolate(fi)` on the points
`R·(sin θ_j cos φ_k, sin θ_j sin φ_k, cos θ_j)` of the angular grid with `Ntheta = N`
(`gx, gy, gz` = the grid shifted by the centre).  If `Ψ4 = fr + i·fi` has bounded pure
second partials on the box of the grid, the sphere nodes lie inside the grid (the bounds
check of `interpolate` passes), `lmax ≤ Ntheta`, and `Ψ4 = Σ_j a_j·ₛY_j` on the sphere nodes:
`‖psi4lm_i − a_i‖ ≤ harmSup_i·2π²·(interpBound(Re) + interpBound(Im)) + Σ_{j: m_j = m_i} defectBound·‖a_j‖`
(`a_i` read as `0` for the identically vanishing modes `l < |s|`). -/
theorem psi4lm_extraction_error (s : Int) (lmax N : Nat) (hN : lmax ≤ N)
    (gx gy gz : List ℝ) (fr fi : ℝ → ℝ → ℝ → ℝ) (hx hy hz Mxr Myr Mzr Mxi Myi Mzi : ℝ)
    (Gr : GridField gx gy gz fr hx hy hz Mxr Myr Mzr) (Gi : GridField gx gy gz fi hx hy hz Mxi Myi Mzi)
    (R : ℝ) (hin : SphereInside gx gy gz R N)
    (a : ModeIdx lmax → ℂ) (hsph : ∀ p, fieldSphere fr fi R N p = recon (gridY s lmax N) a p)
    (i : ModeIdx lmax) :
    (∀ p, ‖psiSphere gx gy gz fr fi R N p - fieldSphere fr fi R N p‖
        ≤ interpBound hx hy hz Mxr Myr Mzr + interpBound hx hy hz Mxi Myi Mzi)
    ∧ ‖psi4lm s lmax gx gy gz fr fi R N i - (if |s| ≤ i.1.1 then a i else 0)‖
      ≤ harmSup s i.1.1 i.1.2 * (2 * π ^ 2)
          * (interpBound hx hy hz Mxr Myr Mzr + interpBound hx hy hz Mxi Myi Mzi)
        + ∑ j, (if i.1.2 = j.1.2 then defectBound s N i.1.1 i.1.2 j.1.1 else 0) * ‖a j‖ :=
  ⟨psiSphere_error Gr Gi R N hin, extraction_error s lmax N hN Gr Gi R hin a hsph i⟩

/-- **T28** "the mode decomposition of a field that is a pure harmonic on the extraction
sphere returns that mode's amplitude": `Ψ4 = amp·ₛY_{l0 m0}` on the sphere nodes (e.g.
`Ψ4 = A·ₛY_{l0 m0}(θ,φ)·g(r)`, `amp = A·g(R)`); then `psi4lm` is `amp` at `(l0, m0)` and `0`
at every other key, within the interpolation error plus the θ-midpoint defect of the pair
`(l, m0), (l0, m0)` (only keys with `m = m0` see the latter). -/
theorem psi4lm_pure_mode (s : Int) (lmax N : Nat) (hN : lmax ≤ N)
    (gx gy gz : List ℝ) (fr fi : ℝ → ℝ → ℝ → ℝ) (hx hy hz Mxr Myr Mzr Mxi Myi Mzi : ℝ)
    (Gr : GridField gx gy gz fr hx hy hz Mxr Myr Mzr) (Gi : GridField gx gy gz fi hx hy hz Mxi Myi Mzi)
    (R : ℝ) (hin : SphereInside gx gy gz R N)
    (i0 : ModeIdx lmax) (amp : ℂ) (hsph : ∀ p, fieldSphere fr fi R N p = amp * gridY s lmax N i0 p)
    (i : ModeIdx lmax) :
    ‖psi4lm s lmax gx gy gz fr fi R N i - (if i = i0 ∧ |s| ≤ i0.1.1 then amp else 0)‖
      ≤ harmSup s i.1.1 i.1.2 * (2 * π ^ 2)
          * (interpBound hx hy hz Mxr Myr Mzr + interpBound hx hy hz Mxi Myi Mzi)
        + (if i.1.2 = i0.1.2 then defectBound s N i.1.1 i.1.2 i0.1.1 else 0) * ‖amp‖ :=
  extraction_pure_mode s lmax N hN Gr Gi R hin i0 amp hsph i

/-- **T29** the explicit rate: with one bound `M` for the six second partials,
`‖psi4lm_i − a_i‖ ≤ C₁·(hx² + hy² + hz²) + C₂/(Ntheta+1)²`,
`C₁ = harmSup_i·π²·M/2`, `C₂ = angConst = Σ_{j: m_j = m_i} defectConst(l_i, m_i, l_j)·‖a_j‖`, where
`harmSup s l m = √(R_{slm}/π)·Σ_r|coef_r|` bounds `|ₛY_lm|` on the sphere, the weights of the
angular grid sum to at most `2π²`, and `defectBound = defectConst/(Ntheta+1)²` is the constant
of T20; neither `C₁` nor `C₂` depends on the grid or on `Ntheta`. -/
theorem psi4lm_rate (s : Int) (lmax N : Nat) (hN : lmax ≤ N)
    (gx gy gz : List ℝ) (fr fi : ℝ → ℝ → ℝ → ℝ) (hx hy hz M : ℝ)
    (Gr : GridField gx gy gz fr hx hy hz M M M) (Gi : GridField gx gy gz fi hx hy hz M M M)
    (R : ℝ) (hin : SphereInside gx gy gz R N)
    (a : ModeIdx lmax → ℂ) (hsph : ∀ p, fieldSphere fr fi R N p = recon (gridY s lmax N) a p)
    (i : ModeIdx lmax) :
    ‖psi4lm s lmax gx gy gz fr fi R N i - (if |s| ≤ i.1.1 then a i else 0)‖
      ≤ harmSup s i.1.1 i.1.2 * π ^ 2 * M / 2 * (hx ^ 2 + hy ^ 2 + hz ^ 2)
        + angConst s lmax a i / ((N : ℝ) + 1) ^ 2
    ∧ (∀ θ φ : ℝ, ‖sYlmC s i.1.1 i.1.2 θ φ‖ ≤ harmSup s i.1.1 i.1.2)
    ∧ ∑ p : GridIdx N, ‖gridW N p‖ ≤ 2 * π ^ 2
    ∧ (∀ l m l' : Int, defectBound s N l m l' = defectConst s l m l' / ((N : ℝ) + 1) ^ 2)
    ∧ harmSup s i.1.1 i.1.2
        = Real.sqrt (((normRadicand s i.1.1 i.1.2 : ℚ) : ℝ) / π) * ((absCoef (harmTerms s i.1.1 i.1.2) : ℕ) : ℝ) :=
  ⟨extraction_rate s lmax N hN Gr Gi R hin a hsph i, fun θ φ => norm_sYlmC_le s _ _ θ φ, gridW_norm_sum N,
   fun l m l' => defectBound_eq s N l m l', rfl⟩

/-- **T30** "…converging with angular and grid resolution": fix `Ψ4 = fr + i·fi`, the radius,
the band limit and `a` with `Ψ4 = Σ_j a_j·ₛY_j` on the whole extraction sphere.  Along ANY
sequence of grids (containing the sphere; `Ψ4` with second partials bounded by one `M` on
their boxes) with cell widths `≤ h n → 0` and angular resolutions `Nn n → ∞` (`≥ lmax`; the
code takes `Ntheta = max(min(Nx,Ny,Nz), lmax+1)`), `psi4lm_i` converges to `a_i`. -/
theorem psi4lm_converges (s : Int) (lmax : Nat) (fr fi : ℝ → ℝ → ℝ → ℝ) (R M : ℝ)
    (a : ModeIdx lmax → ℂ)
    (hsph : ∀ θ φ : ℝ, ((fr (sphX R θ φ) (sphY R θ φ) (sphZ R θ) : ℝ) : ℂ) + I * ((fi (sphX R θ φ) (sphY R θ φ) (sphZ R θ) : ℝ) : ℂ)
      = ∑ j : ModeIdx lmax, a j * sYlmC s j.1.1 j.1.2 θ φ)
    (gx gy gz : ℕ → List ℝ) (Nn : ℕ → ℕ) (h : ℕ → ℝ)
    (hh : Filter.Tendsto h Filter.atTop (nhds 0)) (hNn : Filter.Tendsto Nn Filter.atTop Filter.atTop)
    (hN : ∀ n, lmax ≤ Nn n)
    (Gr : ∀ n, GridField (gx n) (gy n) (gz n) fr (h n) (h n) (h n) M M M)
    (Gi : ∀ n, GridField (gx n) (gy n) (gz n) fi (h n) (h n) (h n) M M M)
    (hin : ∀ n, SphereInside (gx n) (gy n) (gz n) R (Nn n))
    (i : ModeIdx lmax) :
    Filter.Tendsto (fun n => psi4lm s lmax (gx n) (gy n) (gz n) fr fi R (Nn n) i) Filter.atTop
      (nhds (if |s| ≤ i.1.1 then a i else 0)) :=
  extraction_tendsto s lmax fr fi R M a hsph gx gy gz Nn h hh hNn hN Gr Gi hin i

/-- **T31** local versions.  (a) T26 with regularity asked only on the closed cells that contain
the target — the cell selected by the search is one of them — and the widths of that cell in
the bound: covers fields that are singular elsewhere in the grid.  (b) T27 from ANY node-wise
bounds `E p` of the interpolation error on the sphere:
`‖psi4lm_i − a_i‖ ≤ Σ_p ‖Y_i(p)‖·‖w(p)‖·E(p) + Σ_{j: m_j = m_i} defectBound·‖a_j‖`. -/
theorem extraction_error_local :
    (∀ (gx gy gz : List ℝ), gx.Pairwise (· < ·) → gy.Pairwise (· < ·) → gz.Pairwise (· < ·) →
      2 ≤ gx.length → 2 ≤ gy.length → 2 ≤ gz.length →
      ∀ (f : ℝ → ℝ → ℝ → ℝ) (Mx My Mz x y z : ℝ),
      InterpR.nth gx 0 ≤ x → x ≤ InterpR.nth gx (gx.length - 1) →
      InterpR.nth gy 0 ≤ y → y ≤ InterpR.nth gy (gy.length - 1) →
      InterpR.nth gz 0 ≤ z → z ≤ InterpR.nth gz (gz.length - 1) →
      (∀ i j k, i + 1 < gx.length → j + 1 < gy.length → k + 1 < gz.length →
        InterpR.nth gx i ≤ x → x ≤ InterpR.nth gx (i + 1) → InterpR.nth gy j ≤ y → y ≤ InterpR.nth gy (j + 1) →
        InterpR.nth gz k ≤ z → z ≤ InterpR.nth gz (k + 1) →
        (∀ y' ∈ Set.Icc (InterpR.nth gy j) (InterpR.nth gy (j + 1)), ∀ z' ∈ Set.Icc (InterpR.nth gz k) (InterpR.nth gz (k + 1)),
            C2On (fun x' => f x' y' z') (InterpR.nth gx i) (InterpR.nth gx (i + 1)) Mx)
        ∧ (∀ x' ∈ Set.Icc (InterpR.nth gx i) (InterpR.nth gx (i + 1)), ∀ z' ∈ Set.Icc (InterpR.nth gz k) (InterpR.nth gz (k + 1)),
            C2On (fun y' => f x' y' z') (InterpR.nth gy j) (InterpR.nth gy (j + 1)) My)
        ∧ (∀ x' ∈ Set.Icc (InterpR.nth gx i) (InterpR.nth gx (i + 1)), ∀ y' ∈ Set.Icc (InterpR.nth gy j) (InterpR.nth gy (j + 1)),
            C2On (fun z' => f x' y' z') (InterpR.nth gz k) (InterpR.nth gz (k + 1)) Mz)) →
      ∃ i j k, (i + 1 < gx.length ∧ j + 1 < gy.length ∧ k + 1 < gz.length)
        ∧ (InterpR.nth gx i ≤ x ∧ x ≤ InterpR.nth gx (i + 1) ∧ InterpR.nth gy j ≤ y ∧ y ≤ InterpR.nth gy (j + 1)
            ∧ InterpR.nth gz k ≤ z ∧ z ≤ InterpR.nth gz (k + 1))
        ∧ |InterpR.interp3 gx gy gz (fun i j k => f (InterpR.nth gx i) (InterpR.nth gy j) (InterpR.nth gz k)) x y z - f x y z|
            ≤ ((InterpR.nth gx (i + 1) - InterpR.nth gx i) ^ 2 * Mx + (InterpR.nth gy (j + 1) - InterpR.nth gy j) ^ 2 * My
                + (InterpR.nth gz (k + 1) - InterpR.nth gz k) ^ 2 * Mz) / 8)
    ∧ (∀ (s : Int) (lmax N : Nat), lmax ≤ N →
      ∀ (gx gy gz : List ℝ) (fr fi : ℝ → ℝ → ℝ → ℝ) (R : ℝ) (E : GridIdx N → ℝ),
      (∀ p, ‖psiSphere gx gy gz fr fi R N p - fieldSphere fr fi R N p‖ ≤ E p) →
      ∀ (a : ModeIdx lmax → ℂ), (∀ p, fieldSphere fr fi R N p = recon (gridY s lmax N) a p) →
      ∀ i : ModeIdx lmax,
      ‖psi4lm s lmax gx gy gz fr fi R N i - (if |s| ≤ i.1.1 then a i else 0)‖
        ≤ ∑ p, ‖gridY s lmax N i p‖ * ‖gridW N p‖ * E p
          + ∑ j, (if i.1.2 = j.1.2 then defectBound s N i.1.1 i.1.2 j.1.1 else 0) * ‖a j‖) :=
  ⟨fun gx gy gz hgx hgy hgz hnx hny hnz f _ _ _ x y z hx0 hx1 hy0 hy1 hz0 hz1 H =>
      InterpR.interp3_error_local gx gy gz hgx hgy hgz hnx hny hnz f x y z hx0 hx1 hy0 hy1 hz0 hz1 H,
   fun s lmax N hN gx gy gz fr fi R E hE a hsph i =>
      extraction_error_pointwise s lmax N hN gx gy gz fr fi R E hE a hsph i⟩

/-! ### non-vacuity -/

/-- T23 with `g = y²` on `[0, 1]`, `M = 2`: the hypotheses hold and the bound `1/4` is
attained at `t = 1/2` (`|0 + 1/2 − 1/4| = 1/4`). -/
example : |(1 - (1 / 2 : ℝ)) * (0 : ℝ) ^ 2 + 1 / 2 * (1 : ℝ) ^ 2 - (0 + 1 / 2 * (1 - 0)) ^ 2| ≤ (1 - 0) ^ 2 * 2 / 8 :=
  linear_interp_error_1d (fun y => y ^ 2) 0 1 2 one_pos (by fun_prop) (fun y => 2 * y) (fun _ => 2)
    (fun x _ => by simpa using (hasDerivAt_id' x).fun_pow 2)
    (fun x _ => by simpa using (hasDerivAt_id' x).const_mul (2 : ℝ))
    (fun _ _ => by simp) (1 / 2) (by norm_num) (by norm_num)

/-- T24 on the cell `[0,1]×[0,2]×[−1,1]` with the non-trilinear field `x² + y²` (bounds 2, 2, 2) -/
example (tx ty tz : ℝ) (htx : 0 ≤ tx ∧ tx ≤ 1) (hty : 0 ≤ ty ∧ ty ≤ 1) (htz : 0 ≤ tz ∧ tz ≤ 1) :
    |triCell exF 0 1 0 2 (-1) 1 tx ty tz - exF (0 + tx * (1 - 0)) (0 + ty * (2 - 0)) (-1 + tz * (1 - -1))|
      ≤ ((1 - 0) ^ 2 * 2 + (2 - 0) ^ 2 * 2 + (1 - -1) ^ 2 * 2) / 8 :=
  trilinear_interp_error_cell exF 0 1 0 2 (-1) 1 2 2 2 one_pos two_pos (by norm_num)
    (fun y _ z _ => exF_X y z _ _) (fun x _ z _ => exF_Y x z _ _) (fun x _ y _ => exF_Z x y _ _) tx ty tz htx hty htz

/-- T25 on the non-uniform 3 × 2 × 4 example grid of Lemmas/C20Interp.lean: value `281/48` -/
example : InterpR.interp3 (InterpR.castGrid InterpLemmas.Example.gx) (InterpR.castGrid InterpLemmas.Example.gy)
    (InterpR.castGrid InterpLemmas.Example.gz) (fun i j k => ((InterpLemmas.Example.v i j k : ℚ) : ℝ))
    ((3 / 4 : ℚ) : ℝ) ((0 : ℚ) : ℝ) ((13 / 4 : ℚ) : ℝ) = ((281 / 48 : ℚ) : ℝ) := by
  rw [(real_interpolant_is_model _ _ _ _ _ _ _).1]
  congr 1
  decide +kernel

/-- T26: `Ψ = x² + y²` on the uniform grid of spacing `1/2` on `[−2, 2]³`, at an irrational
target inside: error at most `3·(1/2)²·2/8`. -/
example : |InterpR.interp3 (uniGrid 1) (uniGrid 1) (uniGrid 1)
      (fun i j k => exF (InterpR.nth (uniGrid 1) i) (InterpR.nth (uniGrid 1) j) (InterpR.nth (uniGrid 1) k))
      (Real.sqrt 2) (-1 / 3) (Real.sqrt 2 / 2) - exF (Real.sqrt 2) (-1 / 3) (Real.sqrt 2 / 2)|
    ≤ ((1 / ((1 : ℕ) + 1 : ℝ)) ^ 2 * 2 + (1 / ((1 : ℕ) + 1 : ℝ)) ^ 2 * 2 + (1 / ((1 : ℕ) + 1 : ℝ)) ^ 2 * 2) / 8 := by
  have h2 : Real.sqrt 2 ≤ 2 := by
    rw [show (2 : ℝ) = Real.sqrt 4 by rw [show (4 : ℝ) = 2 ^ 2 by norm_num, Real.sqrt_sq (by norm_num)]]
    exact Real.sqrt_le_sqrt (by norm_num)
  have h0 : 0 ≤ Real.sqrt 2 := Real.sqrt_nonneg _
  exact linear_interpolation_error _ _ _ exF _ _ _ 2 2 2 (uniGrid_field 1) _ _ _
    (by rw [uniGrid_first]; linarith) (by rw [uniGrid_last]; exact h2)
    (by rw [uniGrid_first]; norm_num) (by rw [uniGrid_last]; norm_num)
    (by rw [uniGrid_first]; linarith) (by rw [uniGrid_last]; linarith)

/-- the key `(2, 0)` of the coefficient dictionary for `lmax = 2` -/
def exMode : ModeIdx 2 := ⟨(2, 0), by decide +kernel⟩

/-- T28 (hence T27): `Ψ4 = x² + y²` — smooth, not trilinear, `= exAmp·₋₂Y₂₀` on the unit
sphere — sampled on the uniform grid of spacing 1 on `[−2, 2]³`, extraction radius 1,
`lmax = 2`, `Ntheta = 2`: every hypothesis holds, and the extracted `(2, 0)` coefficient is
`exAmp` within the stated bound. -/
example :
    ‖psi4lm (-2) 2 (uniGrid 0) (uniGrid 0) (uniGrid 0) exF exZero 1 2 exMode - exAmp‖
      ≤ harmSup (-2) 2 0 * (2 * π ^ 2)
          * (interpBound (1 / ((0 : ℕ) + 1 : ℝ)) (1 / ((0 : ℕ) + 1 : ℝ)) (1 / ((0 : ℕ) + 1 : ℝ)) 2 2 2
              + interpBound (1 / ((0 : ℕ) + 1 : ℝ)) (1 / ((0 : ℕ) + 1 : ℝ)) (1 / ((0 : ℕ) + 1 : ℝ)) 2 2 2)
        + defectBound (-2) 2 2 0 2 * ‖exAmp‖ := by
  have key := psi4lm_pure_mode (-2) 2 2 le_rfl (uniGrid 0) (uniGrid 0) (uniGrid 0) exF exZero _ _ _ 2 2 2 2 2 2
    (uniGrid_field 0) (uniGrid_zero 0) 1 (uniGrid_sphere 0 2) exMode exAmp
    (fun p => exF_on_sphere _ _) exMode
  have e : (exMode = exMode ∧ |(-2 : Int)| ≤ exMode.1.1) := ⟨rfl, by decide⟩
  rw [if_pos e, if_pos rfl] at key
  exact key

/-- the constants of T29 are computable: `Σ|coef|` of `₋₂Y₂₀`, `₋₂Y₂₂`, `₋₂Y₃₁` -/
example : absCoef (harmTerms (-2) 2 0) = 6 ∧ absCoef (harmTerms (-2) 2 2) = 1 ∧ absCoef (harmTerms (-2) 3 1) = 15 := by
  decide +kernel

/-- T29 on the same instance (`M = 2`, `a = exAmp` at `(2,0)`, `0` elsewhere) -/
example :
    ‖psi4lm (-2) 2 (uniGrid 0) (uniGrid 0) (uniGrid 0) exF exZero 1 2 exMode
        - (if |(-2 : Int)| ≤ exMode.1.1 then (fun j : ModeIdx 2 => if j = exMode then exAmp else 0) exMode else 0)‖
      ≤ harmSup (-2) exMode.1.1 exMode.1.2 * π ^ 2 * 2 / 2
          * ((1 / ((0 : ℕ) + 1 : ℝ)) ^ 2 + (1 / ((0 : ℕ) + 1 : ℝ)) ^ 2 + (1 / ((0 : ℕ) + 1 : ℝ)) ^ 2)
        + angConst (-2) 2 (fun j : ModeIdx 2 => if j = exMode then exAmp else 0) exMode / (((2 : ℕ) : ℝ) + 1) ^ 2 :=
  (psi4lm_rate (-2) 2 2 le_rfl (uniGrid 0) (uniGrid 0) (uniGrid 0) exF exZero _ _ _ 2
    (uniGrid_field 0) (uniGrid_zero 0) 1 (uniGrid_sphere 0 2) (fun j => if j = exMode then exAmp else 0)
    (fun p => by
      have := exF_on_sphere (nodeTheta 2 p) (nodePhi 2 p)
      unfold fieldSphere recon
      rw [this, sum_single_mode exMode exAmp]
      rfl) exMode).1

/-- T30: the grids `uniGrid n` (spacing `1/(n+1) → 0`), `Ntheta = n + 2 → ∞`: every hypothesis
holds for `Ψ4 = x² + y²`, so the extracted `(2, 0)` coefficient converges to `exAmp`. -/
example : Filter.Tendsto
    (fun n => psi4lm (-2) 2 (uniGrid n) (uniGrid n) (uniGrid n) exF exZero 1 (n + 2) exMode) Filter.atTop
    (nhds exAmp) := by
  have key := psi4lm_converges (-2) 2 exF exZero 1 2 (fun j => if j = exMode then exAmp else 0)
    (fun θ φ => by
      rw [exF_on_sphere θ φ, sum_single_mode exMode exAmp (fun j => sYlmC (-2) j.1.1 j.1.2 θ φ)]
      rfl)
    uniGrid uniGrid uniGrid (fun n => n + 2) (fun n => 1 / ((n : ℝ) + 1))
    (by
      have := tendsto_one_div_add_atTop_nhds_zero_nat (𝕜 := ℝ)
      exact this)
    (Filter.tendsto_add_atTop_nat 2) (fun n => by omega)
    uniGrid_field uniGrid_zero (fun n => uniGrid_sphere n (n + 2)) exMode
  have e : |(-2 : Int)| ≤ exMode.1.1 := by decide
  rw [if_pos e, if_pos rfl] at key
  exact key

/-- T31 (a) on the instance of T26 (regularity on every cell, a fortiori on those containing the target) -/
example : ∃ i j k, (i + 1 < (uniGrid 1).length ∧ j + 1 < (uniGrid 1).length ∧ k + 1 < (uniGrid 1).length)
    ∧ (InterpR.nth (uniGrid 1) i ≤ 1 / 3 ∧ (1 / 3 : ℝ) ≤ InterpR.nth (uniGrid 1) (i + 1)
        ∧ InterpR.nth (uniGrid 1) j ≤ -1 / 3 ∧ (-1 / 3 : ℝ) ≤ InterpR.nth (uniGrid 1) (j + 1)
        ∧ InterpR.nth (uniGrid 1) k ≤ 0 ∧ (0 : ℝ) ≤ InterpR.nth (uniGrid 1) (k + 1))
    ∧ |InterpR.interp3 (uniGrid 1) (uniGrid 1) (uniGrid 1)
          (fun i j k => exF (InterpR.nth (uniGrid 1) i) (InterpR.nth (uniGrid 1) j) (InterpR.nth (uniGrid 1) k))
          (1 / 3) (-1 / 3) 0 - exF (1 / 3) (-1 / 3) 0|
        ≤ ((InterpR.nth (uniGrid 1) (i + 1) - InterpR.nth (uniGrid 1) i) ^ 2 * 2
            + (InterpR.nth (uniGrid 1) (j + 1) - InterpR.nth (uniGrid 1) j) ^ 2 * 2
            + (InterpR.nth (uniGrid 1) (k + 1) - InterpR.nth (uniGrid 1) k) ^ 2 * 2) / 8 :=
  extraction_error_local.1 _ _ _ (uniGrid_pairwise 1) (uniGrid_pairwise 1) (uniGrid_pairwise 1)
    (by rw [uniGrid_length]; omega) (by rw [uniGrid_length]; omega) (by rw [uniGrid_length]; omega)
    exF 2 2 2 (1 / 3) (-1 / 3) 0
    (by rw [uniGrid_first]; norm_num) (by rw [uniGrid_last]; norm_num)
    (by rw [uniGrid_first]; norm_num) (by rw [uniGrid_last]; norm_num)
    (by rw [uniGrid_first]; norm_num) (by rw [uniGrid_last]; norm_num)
    (fun _ _ _ _ _ _ _ _ _ _ _ _ =>
      ⟨fun y _ z _ => exF_X y z _ _, fun x _ z _ => exF_Y x z _ _, fun x _ y _ => exF_Z x y _ _⟩)

/-- T31 (b): its hypothesis is provided by T27's first conjunct (constant `E`) on the instance above -/
example : ∀ p : GridIdx 2,
    ‖psiSphere (uniGrid 0) (uniGrid 0) (uniGrid 0) exF exZero 1 2 p - fieldSphere exF exZero 1 2 p‖
      ≤ (fun _ : GridIdx 2 => interpBound (1 / ((0 : ℕ) + 1 : ℝ)) (1 / ((0 : ℕ) + 1 : ℝ)) (1 / ((0 : ℕ) + 1 : ℝ)) 2 2 2
          + interpBound (1 / ((0 : ℕ) + 1 : ℝ)) (1 / ((0 : ℕ) + 1 : ℝ)) (1 / ((0 : ℕ) + 1 : ℝ)) 2 2 2) p :=
  psiSphere_error (uniGrid_field 0) (uniGrid_zero 0) 1 2 (uniGrid_sphere 0 2)

end AurelVerif.C20
