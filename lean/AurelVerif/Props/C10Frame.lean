/-
Props/C10Frame.lean — property C10, part 5 (extension): the second construction of `st_Weyl_down4`
(from E, B, n) in the NORMAL FRAME (T9).  See Props/C10.lean for the overview.

All statements are about the GENERATED tables `st_Weyl_down4__betaup3` (a shift key present) and
`st_Weyl_down4__dflt` (none), `s_to_st__*`, `levicivita_down4`, `eweyl_u_down4`, `bweyl_u_down4`.
`UnitNormal`, `Spatial`, `traceG4`, `TraceFreeAll`, `VolumeForm` are the hand-written vocabulary of
Spec/WeylEB.lean.  Exact algebra over every field of characteristic ≠ 2 (Layer A: no property of the
finite-difference operator is used).

  T9a  trace-free on every index pair          (needs: unit normal; E symmetric, tangent, trace-free; B symmetric)
  T9b  `C_abcd n^b n^d = s_to_st(E)_ac`        (needs: unit normal; E symmetric, tangent)
  T9c  `½ C_abcd ε^{cd}{}_{ef} n^b n^f = s_to_st(B)_ae`
                                               (needs: unit normal; E tangent; B symmetric, tangent; ε the volume form)
  T9d  hence `eweyl_u_down4 = s_to_st(E)`, `bweyl_u_down4 = s_to_st(B)` when the cached Weyl tensor was
       produced by the second construction and the observer is the normal (`uup4 = nup4`)
  T9f  first Bianchi identity `C_a[bcd] = 0` (needs: `ndown4 = (−α,0,0,0)`; g, g⁻¹, E, B symmetric; B tangent and
       TRACE-FREE) — the only place where `γ^{ij}B_ij = 0` is needed
  T9e  all hypotheses of T9a–c follow from the code's own 3+1 formulas (`gdown4` assembled from α, β, γ,
       `nup4`, `ndown4`, `s_to_st`, `levicivita_down4`, `gdet`) plus: α ≠ 0, g⁻¹g = 1, γγ⁻¹ = 1,
       E, B symmetric, γ^{ij}E_ij = 0, (√(−g))² = −g.   (B need NOT be trace-free for any of T9a–c.)
-/
import AurelVerif.Props.C10Alt2
import AurelVerif.Props.C10EB
import AurelVerif.Lemmas.C10Adm
import AurelVerif.Lemmas.C10Cyclic
set_option linter.unusedSimpArgs false
set_option linter.unusedVariables false

namespace AurelVerif.C10
open AurelVerif.Gen.Core AurelVerif.Tensor AurelVerif.CoreTac AurelVerif.Spec.Weyl AurelVerif.Model.WeylNP

variable {K : Type} [Field K]

/-- the three statements for a tensor `C` that IS the textbook E/B expression. -/
theorem weylEB_normal_frame {g gup : Fin 4 → Fin 4 → K} {nd nu : Fin 4 → K}
    {LC : Fin 4 → Fin 4 → Fin 4 → Fin 4 → K} (h2 : (2 : K) ≠ 0) (hN : UnitNormal g gup nd nu)
    (hLC : TotAntisym LC) (E4 B4 : Fin 4 → Fin 4 → K) (hEs : Symm E4) (hEn : Spatial E4 nu)
    (hEt : traceG4 gup E4 = 0) (hBs : Symm B4) (hBn : Spatial B4 nu)
    (C : Fin 4 → Fin 4 → Fin 4 → Fin 4 → K)
    (hC : C = weylEB (lproj g nd) E4 B4 nd (epsUdd gup nu LC)) :
    TraceFreeAll gup C ∧ (∀ a c, eweylU C nu a c = E4 a c)
      ∧ (VolumeForm g gup LC → ∀ a f, bweylU C nu (epsUudd gup LC) a f = B4 a f) := by
  subst hC
  have hsym := weylEB_riemannSym (lproj g nd) E4 B4 nd (epsUdd gup nu LC) (lproj_symm g nd hN.hg) hEs
    (epsUdd_antisymm gup nu LC (fun d c a b => hLC.s34 d c a b))
  exact ⟨traceFreeAll_of_trace13 h2 gup hN.hgu _ hsym (weylEB_trace13 h2 hN hLC E4 B4 hEs hEn hEt hBs),
    weylEB_electric h2 hN hLC E4 B4 hEs hEn,
    fun hVF => weylEB_magnetic h2 hN hLC hVF E4 B4 hEn hBs hBn⟩

/-! ### T9a–c a shift key present -/

/-- **normal frame, shift key present.**  For a unit normal `n` of the cached metric, `E`, `B` symmetric,
`s_to_st(E)`, `s_to_st(B)` tangent to the slice and `s_to_st(E)` trace-free: the generated Weyl tensor is
trace-free on all six index pairs, `C_abcd n^b n^d = s_to_st(E)_ac`, and — when `levicivita_down4` is the
volume form of the cached metric — `½ C_abcd ε^{cd}{}_{ef} n^b n^f = s_to_st(B)_ae`. -/
theorem weyl_alt2_normal_frame (e : Env K) (h2 : (2 : K) ≠ 0)
    (hN : UnitNormal e.gdown4 e.gup4 e.ndown4 e.nup4)
    (hE : Symm e.eweyl_n_down3) (hB : Symm e.bweyl_n_down3)
    (hEn : Spatial (s_to_st__betaup3 e e.eweyl_n_down3) e.nup4)
    (hEt : traceG4 e.gup4 (s_to_st__betaup3 e e.eweyl_n_down3) = 0)
    (hBn : Spatial (s_to_st__betaup3 e e.bweyl_n_down3) e.nup4) :
    TraceFreeAll e.gup4 (st_Weyl_down4__betaup3 e)
    ∧ (∀ a c, eweylU (st_Weyl_down4__betaup3 e) e.nup4 a c = s_to_st__betaup3 e e.eweyl_n_down3 a c)
    ∧ (VolumeForm e.gdown4 e.gup4 (levicivita_down4 e) → ∀ a f,
        bweylU (st_Weyl_down4__betaup3 e) e.nup4 (epsUudd e.gup4 (levicivita_down4 e)) a f
          = s_to_st__betaup3 e e.bweyl_n_down3 a f) :=
  weylEB_normal_frame h2 hN (lc_down4_totAntisym e) _ _ (s_to_st_shift_symm e _ hE) hEn hEt
    (s_to_st_shift_symm e _ hB) hBn _ (by funext a b c d; exact weyl_alt2_spec e a b c d)

/-- **normal frame, no shift key present** (`s_to_st` pads with zeros). -/
theorem weyl_alt2_noshift_normal_frame (e : Env K) (h2 : (2 : K) ≠ 0)
    (hN : UnitNormal e.gdown4 e.gup4 e.ndown4 e.nup4)
    (hE : Symm e.eweyl_n_down3) (hB : Symm e.bweyl_n_down3)
    (hEn : Spatial (s_to_st__dflt e e.eweyl_n_down3) e.nup4)
    (hEt : traceG4 e.gup4 (s_to_st__dflt e e.eweyl_n_down3) = 0)
    (hBn : Spatial (s_to_st__dflt e e.bweyl_n_down3) e.nup4) :
    TraceFreeAll e.gup4 (st_Weyl_down4__dflt e)
    ∧ (∀ a c, eweylU (st_Weyl_down4__dflt e) e.nup4 a c = s_to_st__dflt e e.eweyl_n_down3 a c)
    ∧ (VolumeForm e.gdown4 e.gup4 (levicivita_down4 e) → ∀ a f,
        bweylU (st_Weyl_down4__dflt e) e.nup4 (epsUudd e.gup4 (levicivita_down4 e)) a f
          = s_to_st__dflt e e.bweyl_n_down3 a f) :=
  weylEB_normal_frame h2 hN (lc_down4_totAntisym e) _ _ (s_to_st_noshift_symm e _ hE) hEn hEt
    (s_to_st_noshift_symm e _ hB) hBn _ (by funext a b c d; exact weyl_alt2_noshift_spec e a b c d)

/-! ### T9d the code's contractions return E and B in the normal frame -/

/-- when the cached `st_Weyl_down4` was produced by the second construction and the observer is the normal,
`eweyl_u_down4 = s_to_st(E)` and `bweyl_u_down4 = s_to_st(B)` (shift key present). -/
theorem eb_u_normal_frame (e : Env K) (h2 : (2 : K) ≠ 0)
    (hN : UnitNormal e.gdown4 e.gup4 e.ndown4 e.nup4)
    (hE : Symm e.eweyl_n_down3) (hB : Symm e.bweyl_n_down3)
    (hEn : Spatial (s_to_st__betaup3 e e.eweyl_n_down3) e.nup4)
    (hEt : traceG4 e.gup4 (s_to_st__betaup3 e e.eweyl_n_down3) = 0)
    (hBn : Spatial (s_to_st__betaup3 e e.bweyl_n_down3) e.nup4)
    (hVF : VolumeForm e.gdown4 e.gup4 (levicivita_down4 e))
    (hC : e.st_Weyl_down4 = st_Weyl_down4__betaup3 e) (hu : e.uup4 = e.nup4) :
    (∀ a c, eweyl_u_down4 e a c = s_to_st__betaup3 e e.eweyl_n_down3 a c)
    ∧ ∀ a f, bweyl_u_down4 e a f = s_to_st__betaup3 e e.bweyl_n_down3 a f := by
  obtain ⟨_, hEl, hMg⟩ := weyl_alt2_normal_frame e h2 hN hE hB hEn hEt hBn
  constructor
  · intro a c; rw [eweyl_u_spec, hC, hu]; exact hEl a c
  · intro a f; rw [bweyl_u_spec, hC, hu]; exact hMg hVF a f

/-- the same without a shift key. -/
theorem eb_u_noshift_normal_frame (e : Env K) (h2 : (2 : K) ≠ 0)
    (hN : UnitNormal e.gdown4 e.gup4 e.ndown4 e.nup4)
    (hE : Symm e.eweyl_n_down3) (hB : Symm e.bweyl_n_down3)
    (hEn : Spatial (s_to_st__dflt e e.eweyl_n_down3) e.nup4)
    (hEt : traceG4 e.gup4 (s_to_st__dflt e e.eweyl_n_down3) = 0)
    (hBn : Spatial (s_to_st__dflt e e.bweyl_n_down3) e.nup4)
    (hVF : VolumeForm e.gdown4 e.gup4 (levicivita_down4 e))
    (hC : e.st_Weyl_down4 = st_Weyl_down4__dflt e) (hu : e.uup4 = e.nup4) :
    (∀ a c, eweyl_u_down4 e a c = s_to_st__dflt e e.eweyl_n_down3 a c)
    ∧ ∀ a f, bweyl_u_down4 e a f = s_to_st__dflt e e.bweyl_n_down3 a f := by
  obtain ⟨_, hEl, hMg⟩ := weyl_alt2_noshift_normal_frame e h2 hN hE hB hEn hEt hBn
  constructor
  · intro a c; rw [eweyl_u_spec, hC, hu]; exact hEl a c
  · intro a f; rw [bweyl_u_spec, hC, hu]; exact hMg hVF a f

/-! ### T9e the hypotheses follow from the code's 3+1 formulas -/

/-- what the code's own formulas give at one grid point (every `e.X = X e` says "the cached entry `X` was
produced by the code's formula for `X`"). -/
structure AdmInputs (e : Env K) : Prop where
  asm : C08.Assembled e
  ha : e.alpha ≠ 0
  hinv : ∀ a b, ∑ c, e.gup4 a c * e.gdown4 c b = if a = b then 1 else 0
  hnu : e.nup4 = nup4 e
  hnd : e.ndown4 = ndown4 e
  hγu : Symm e.gammaup3
  hγinv : ∀ j l, ∑ k, e.gammadown3 j k * e.gammaup3 k l = if j = l then 1 else 0
  hdet : e.gdet = gdet__gdown4 e
  hsq : e.sqrtF (-e.gdet) ^ 2 = -e.gdet

/-- `AdmInputs` holds when `gup4`, `gammaup3` are the code's closed-form inverses and `det γ ≠ 0`. -/
theorem admInputs_of_code (e : Env K) (asm : C08.Assembled e) (ha : e.alpha ≠ 0)
    (hgd : e.gammadet = gammadet e) (hd : gammadet e ≠ 0) (hup4 : e.gup4 = gup4 e)
    (hup3 : e.gammaup3 = gammaup3 e) (hnu : e.nup4 = nup4 e) (hnd : e.ndown4 = ndown4 e)
    (hdet : e.gdet = gdet__gdown4 e) (hsq : e.sqrtF (-e.gdet) ^ 2 = -e.gdet) : AdmInputs e := by
  have hγu : Symm e.gammaup3 := by
    rw [hup3, C08.gammaup3_is_inverse]; exact C08.inverse3_symm e e.gammadown3 asm.hsym
  refine ⟨asm, ha, fun a b => ?_, hnu, hnd, hγu, fun j l => ?_, hdet, hsq⟩
  · rw [hup4]; exact C08.gup4_mul_gdown4 e asm hgd ha hd a b
  · have := C08.gammaup3_mul e asm.hsym hd l j
    rw [← hup3] at this
    unfold delta at this
    rw [show (if j = l then (1 : K) else 0) = if l = j then 1 else 0 by simp only [eq_comm], ← this]
    exact Finset.sum_congr rfl fun k _ => by rw [hγu k l, asm.hsym j k]; ring

/-- the hypothesis `hdet` of `AdmInputs` also holds when the cached `gdet` came from the OTHER alternative of the
code (`gdet = −α² det γ`, no `gdown4` key supplied): both alternatives agree on an assembled metric (C08). -/
theorem gdet_dflt_is_gdown4 (e : Env K) (asm : C08.Assembled e) (hgd : e.gammadet = gammadet e)
    (hdet : e.gdet = gdet__dflt e) : e.gdet = gdet__gdown4 e := by
  rw [hdet, C08.gdet_coherent e asm hgd]

/-- the abstract hypotheses of T9a–d are consequences of `AdmInputs` (shift key present). -/
theorem normal_frame_hypotheses_of_inputs (e : Env K) (hI : AdmInputs e)
    (hE : Symm e.eweyl_n_down3) (hB : Symm e.bweyl_n_down3)
    (hEt : traceG3 e.gammaup3 e.eweyl_n_down3 = 0) :
    UnitNormal e.gdown4 e.gup4 e.ndown4 e.nup4
    ∧ Spatial (s_to_st__betaup3 e e.eweyl_n_down3) e.nup4
    ∧ traceG4 e.gup4 (s_to_st__betaup3 e e.eweyl_n_down3) = 0
    ∧ Spatial (s_to_st__betaup3 e e.bweyl_n_down3) e.nup4
    ∧ VolumeForm e.gdown4 e.gup4 (levicivita_down4 e) := by
  have hN := unitNormal_of_assembled e hI.asm hI.ha hI.hinv hI.hnu hI.hnd
  refine ⟨hN, s_to_st_shift_spatial e _ hE hI.hnu, ?_, s_to_st_shift_spatial e _ hB hI.hnu,
    lc_down4_volumeForm e hN.hg hI.hinv hI.hdet hI.hsq⟩
  rw [s_to_st_shift_trace e hI.asm hI.hinv hI.hγu hI.hγinv _ hE, hEt]

/-- **from the inputs, shift key present**: the generated second construction is trace-free on every index
pair, has the Riemann symmetries, and its contractions with the normal give back `s_to_st(E)`, `s_to_st(B)`,
for symmetric `E`, `B` with `γ^{ij}E_ij = 0` (no trace condition on `B`). -/
theorem weyl_alt2_normal_frame_of_inputs (e : Env K) (h2 : (2 : K) ≠ 0) (hI : AdmInputs e)
    (hE : Symm e.eweyl_n_down3) (hB : Symm e.bweyl_n_down3)
    (hEt : traceG3 e.gammaup3 e.eweyl_n_down3 = 0) :
    RiemannSym (st_Weyl_down4__betaup3 e) ∧ TraceFreeAll e.gup4 (st_Weyl_down4__betaup3 e)
    ∧ (∀ a c, eweylU (st_Weyl_down4__betaup3 e) e.nup4 a c = s_to_st__betaup3 e e.eweyl_n_down3 a c)
    ∧ ∀ a f, bweylU (st_Weyl_down4__betaup3 e) e.nup4 (epsUudd e.gup4 (levicivita_down4 e)) a f
        = s_to_st__betaup3 e e.bweyl_n_down3 a f := by
  have hN := unitNormal_of_assembled e hI.asm hI.ha hI.hinv hI.hnu hI.hnd
  have hVF := lc_down4_volumeForm e hN.hg hI.hinv hI.hdet hI.hsq
  have hEt4 : traceG4 e.gup4 (s_to_st__betaup3 e e.eweyl_n_down3) = 0 := by
    rw [s_to_st_shift_trace e hI.asm hI.hinv hI.hγu hI.hγinv _ hE, hEt]
  obtain ⟨t, el, mg⟩ := weyl_alt2_normal_frame e h2 hN hE hB (s_to_st_shift_spatial e _ hE hI.hnu) hEt4
    (s_to_st_shift_spatial e _ hB hI.hnu)
  exact ⟨(weyl_alt2_sym e hN.hg hE).1, t, el, mg hVF⟩

/-- **from the inputs, no shift key present** (then `β = 0`). -/
theorem weyl_alt2_noshift_normal_frame_of_inputs (e : Env K) (h2 : (2 : K) ≠ 0) (hI : AdmInputs e)
    (hβ : ∀ i, e.betaup3 i = 0)
    (hE : Symm e.eweyl_n_down3) (hB : Symm e.bweyl_n_down3)
    (hEt : traceG3 e.gammaup3 e.eweyl_n_down3 = 0) :
    RiemannSym (st_Weyl_down4__dflt e) ∧ TraceFreeAll e.gup4 (st_Weyl_down4__dflt e)
    ∧ (∀ a c, eweylU (st_Weyl_down4__dflt e) e.nup4 a c = s_to_st__dflt e e.eweyl_n_down3 a c)
    ∧ ∀ a f, bweylU (st_Weyl_down4__dflt e) e.nup4 (epsUudd e.gup4 (levicivita_down4 e)) a f
        = s_to_st__dflt e e.bweyl_n_down3 a f := by
  have hN := unitNormal_of_assembled e hI.asm hI.ha hI.hinv hI.hnu hI.hnd
  have hVF := lc_down4_volumeForm e hN.hg hI.hinv hI.hdet hI.hsq
  have hn0 := nup4_zero_shift e hI.hnu hβ
  have hEt4 : traceG4 e.gup4 (s_to_st__dflt e e.eweyl_n_down3) = 0 := by
    rw [← s_to_st_zero_shift e _ hβ, s_to_st_shift_trace e hI.asm hI.hinv hI.hγu hI.hγinv _ hE, hEt]
  obtain ⟨t, el, mg⟩ := weyl_alt2_noshift_normal_frame e h2 hN hE hB (s_to_st_noshift_spatial e _ hn0) hEt4
    (s_to_st_noshift_spatial e _ hn0)
  exact ⟨(weyl_alt2_sym e hN.hg hE).2, t, el, mg hVF⟩



/-! ### T9f first Bianchi identity -/

/-- **cyclic identity of the second construction** (both shift variants): for the code's `ndown4 = (−α,0,0,0)`,
symmetric `g`, `g⁻¹`, `E`, `B`, and `s_to_st(B)` tangent to the slice and trace-free. -/
theorem weyl_alt2_cyclic (e : Env K) (h2 : (2 : K) ≠ 0) (hg : Symm e.gdown4) (hgu : Symm e.gup4)
    (hE : Symm e.eweyl_n_down3) (hB : Symm e.bweyl_n_down3) (hnd : e.ndown4 = ndown4 e) :
    (Spatial (s_to_st__betaup3 e e.bweyl_n_down3) e.nup4 → traceG4 e.gup4 (s_to_st__betaup3 e e.bweyl_n_down3) = 0 →
      Cyclic (st_Weyl_down4__betaup3 e))
    ∧ (Spatial (s_to_st__dflt e e.bweyl_n_down3) e.nup4 → traceG4 e.gup4 (s_to_st__dflt e e.bweyl_n_down3) = 0 →
      Cyclic (st_Weyl_down4__dflt e)) := by
  have hn1 : e.ndown4 1 = 0 := by rw [hnd]; simp only [core_unfold]
  have hn2 : e.ndown4 2 = 0 := by rw [hnd]; simp only [core_unfold]
  have hn3 : e.ndown4 3 = 0 := by rw [hnd]; simp only [core_unfold]
  have hl := lproj_symm e.gdown4 e.ndown4 hg
  constructor
  · intro hBn hBt
    have h : st_Weyl_down4__betaup3 e = weylEB (lproj e.gdown4 e.ndown4) (s_to_st__betaup3 e e.eweyl_n_down3)
        (s_to_st__betaup3 e e.bweyl_n_down3) e.ndown4 (epsUdd e.gup4 e.nup4 (levicivita_down4 e)) := by
      funext a b c d; exact weyl_alt2_spec e a b c d
    rw [h, lc_down4_eq]
    exact weylEB_cyclic h2 e _ _ _ _ _ _ _ hl (s_to_st_shift_symm e _ hE) (s_to_st_shift_symm e _ hB) hgu
      hn1 hn2 hn3 hBn hBt
  · intro hBn hBt
    have h : st_Weyl_down4__dflt e = weylEB (lproj e.gdown4 e.ndown4) (s_to_st__dflt e e.eweyl_n_down3)
        (s_to_st__dflt e e.bweyl_n_down3) e.ndown4 (epsUdd e.gup4 e.nup4 (levicivita_down4 e)) := by
      funext a b c d; exact weyl_alt2_noshift_spec e a b c d
    rw [h, lc_down4_eq]
    exact weylEB_cyclic h2 e _ _ _ _ _ _ _ hl (s_to_st_noshift_symm e _ hE) (s_to_st_noshift_symm e _ hB) hgu
      hn1 hn2 hn3 hBn hBt

/-- … from the inputs: `γ^{ij}B_ij = 0` gives the cyclic identity (shift key present; and without one when `β = 0`). -/
theorem weyl_alt2_cyclic_of_inputs (e : Env K) (h2 : (2 : K) ≠ 0) (hI : AdmInputs e)
    (hE : Symm e.eweyl_n_down3) (hB : Symm e.bweyl_n_down3)
    (hBt : traceG3 e.gammaup3 e.bweyl_n_down3 = 0) :
    Cyclic (st_Weyl_down4__betaup3 e) ∧ ((∀ i, e.betaup3 i = 0) → Cyclic (st_Weyl_down4__dflt e)) := by
  have hN := unitNormal_of_assembled e hI.asm hI.ha hI.hinv hI.hnu hI.hnd
  obtain ⟨c1, c2⟩ := weyl_alt2_cyclic e h2 hN.hg hN.hgu hE hB hI.hnd
  have t : traceG4 e.gup4 (s_to_st__betaup3 e e.bweyl_n_down3) = 0 := by
    rw [s_to_st_shift_trace e hI.asm hI.hinv hI.hγu hI.hγinv _ hB, hBt]
  refine ⟨c1 (s_to_st_shift_spatial e _ hB hI.hnu) t, fun hβ => ?_⟩
  refine c2 (s_to_st_noshift_spatial e _ (nup4_zero_shift e hI.hnu hβ)) ?_
  rw [← s_to_st_zero_shift e _ hβ]; exact t

/-! ### Non-vacuity -/

/-- α = 2, β = (1,0,0), flat γ; `E`, `B` symmetric trace-free non-diagonal;
`√x := x/2` is exact on `−g = 4`. -/
def exEnvF : Env ℚ :=
  { (Env.zero : Env ℚ) with
    alpha := 2, betaup3 := vec3 1 0 0, sqrtF := fun x => x / 2,
    gammadown3 := vec3 (vec3 1 0 0) (vec3 0 1 0) (vec3 0 0 1),
    gammaup3 := vec3 (vec3 1 0 0) (vec3 0 1 0) (vec3 0 0 1),
    betadown3 := vec3 1 0 0, betamag := 1, gtt := -3, gdet := -4,
    gdown4 := vec4 (vec4 (-3) 1 0 0) (vec4 1 1 0 0) (vec4 0 0 1 0) (vec4 0 0 0 1),
    gup4 := vec4 (vec4 (-1 / 4) (1 / 4) 0 0) (vec4 (1 / 4) (3 / 4) 0 0) (vec4 0 0 1 0) (vec4 0 0 0 1),
    nup4 := vec4 (1 / 2) (-1 / 2) 0 0, ndown4 := vec4 (-2) 0 0 0,
    eweyl_n_down3 := vec3 (vec3 1 2 0) (vec3 2 (-1) 3) (vec3 0 3 0),
    bweyl_n_down3 := vec3 (vec3 3 1 1) (vec3 1 2 0) (vec3 1 0 (-5)) }

example : AdmInputs exEnvF ∧ Symm exEnvF.eweyl_n_down3 ∧ Symm exEnvF.bweyl_n_down3
    ∧ traceG3 exEnvF.gammaup3 exEnvF.eweyl_n_down3 = 0 ∧ traceG3 exEnvF.gammaup3 exEnvF.bweyl_n_down3 = 0
    ∧ (2 : ℚ) ≠ 0 := by
  refine ⟨⟨⟨?_, ?_, ?_, ?_, ?_⟩, ?_, ?_, ?_, ?_, ?_, ?_, ?_, ?_⟩, ?_, ?_, ?_, ?_, by norm_num⟩
  · funext i; revert i; cases3 <;> (simp only [exEnvF, core_unfold]; try norm_num)
  · simp only [exEnvF, core_unfold]; norm_num
  · simp only [exEnvF, core_unfold]; norm_num
  · funext i j; revert i j; cases4 <;> cases4 <;> (simp only [exEnvF, core_unfold])
  · cases3 <;> cases3 <;> (simp only [exEnvF, core_unfold])
  · simp only [exEnvF]; norm_num
  · cases4 <;> cases4 <;> (simp only [exEnvF, core_unfold, Fin.sum_univ_four]; try norm_num) <;> try decide
  · funext i; revert i; cases4 <;> (simp only [exEnvF, core_unfold]; try norm_num)
  · funext i; revert i; cases4 <;> (simp only [exEnvF, core_unfold]; try norm_num)
  · cases3 <;> cases3 <;> (simp only [exEnvF, core_unfold])
  · cases3 <;> cases3 <;> (simp only [exEnvF, core_unfold, Fin.sum_univ_three]; try norm_num) <;> try decide
  · simp only [exEnvF, core_unfold]; norm_num
  · simp only [exEnvF]; norm_num
  · cases3 <;> cases3 <;> (simp only [exEnvF, core_unfold])
  · cases3 <;> cases3 <;> (simp only [exEnvF, core_unfold])
  · simp only [traceG3, exEnvF, core_unfold, Fin.sum_univ_three]; norm_num
  · simp only [traceG3, exEnvF, core_unfold, Fin.sum_univ_three]; norm_num


/-- the cache state of T9d: `st_Weyl_down4` produced by the second construction, observer = normal. -/
def exEnvFC : Env ℚ :=
  { exEnvF with st_Weyl_down4 := st_Weyl_down4__betaup3 exEnvF, uup4 := exEnvF.nup4 }

example : exEnvFC.st_Weyl_down4 = st_Weyl_down4__betaup3 exEnvFC ∧ exEnvFC.uup4 = exEnvFC.nup4 := by
  refine ⟨?_, rfl⟩
  show st_Weyl_down4__betaup3 exEnvF = st_Weyl_down4__betaup3 exEnvFC
  funext a b c d
  rw [weyl_alt2_spec exEnvF, weyl_alt2_spec exEnvFC]
  rfl

/-- the same data with zero shift (hypothesis `β = 0` of the variants without a shift key). -/
def exEnvF0 : Env ℚ :=
  { (Env.zero : Env ℚ) with
    alpha := 2, sqrtF := fun x => x / 2,
    gammadown3 := vec3 (vec3 1 0 0) (vec3 0 1 0) (vec3 0 0 1),
    gammaup3 := vec3 (vec3 1 0 0) (vec3 0 1 0) (vec3 0 0 1),
    gtt := -4, gdet := -4,
    gdown4 := vec4 (vec4 (-4) 0 0 0) (vec4 0 1 0 0) (vec4 0 0 1 0) (vec4 0 0 0 1),
    gup4 := vec4 (vec4 (-1 / 4) 0 0 0) (vec4 0 1 0 0) (vec4 0 0 1 0) (vec4 0 0 0 1),
    nup4 := vec4 (1 / 2) 0 0 0, ndown4 := vec4 (-2) 0 0 0,
    eweyl_n_down3 := vec3 (vec3 1 2 0) (vec3 2 (-1) 3) (vec3 0 3 0),
    bweyl_n_down3 := vec3 (vec3 3 1 1) (vec3 1 2 0) (vec3 1 0 (-5)) }

example : AdmInputs exEnvF0 ∧ (∀ i, exEnvF0.betaup3 i = 0) ∧ Symm exEnvF0.eweyl_n_down3
    ∧ Symm exEnvF0.bweyl_n_down3 ∧ traceG3 exEnvF0.gammaup3 exEnvF0.eweyl_n_down3 = 0
    ∧ traceG3 exEnvF0.gammaup3 exEnvF0.bweyl_n_down3 = 0 := by
  refine ⟨⟨⟨?_, ?_, ?_, ?_, ?_⟩, ?_, ?_, ?_, ?_, ?_, ?_, ?_, ?_⟩, ?_, ?_, ?_, ?_, ?_⟩
  · funext i; revert i; cases3 <;> (simp only [exEnvF0, Env.zero, core_unfold]; try norm_num)
  · simp only [exEnvF0, Env.zero, core_unfold]; norm_num
  · simp only [exEnvF0, Env.zero, core_unfold]; norm_num
  · funext i j; revert i j; cases4 <;> cases4 <;> (simp only [exEnvF0, Env.zero, core_unfold])
  · cases3 <;> cases3 <;> (simp only [exEnvF0, core_unfold])
  · simp only [exEnvF0]; norm_num
  · cases4 <;> cases4 <;> (simp only [exEnvF0, core_unfold, Fin.sum_univ_four]; try norm_num) <;> try decide
  · funext i; revert i; cases4 <;> (simp only [exEnvF0, Env.zero, core_unfold]; try norm_num)
  · funext i; revert i; cases4 <;> (simp only [exEnvF0, core_unfold]; try norm_num)
  · cases3 <;> cases3 <;> (simp only [exEnvF0, core_unfold])
  · cases3 <;> cases3 <;> (simp only [exEnvF0, core_unfold, Fin.sum_univ_three]; try norm_num) <;> try decide
  · simp only [exEnvF0, core_unfold]; norm_num
  · simp only [exEnvF0]; norm_num
  · cases3 <;> (simp only [exEnvF0, Env.zero, core_unfold])
  · cases3 <;> cases3 <;> (simp only [exEnvF0, core_unfold])
  · cases3 <;> cases3 <;> (simp only [exEnvF0, core_unfold])
  · simp only [traceG3, exEnvF0, core_unfold, Fin.sum_univ_three]; norm_num
  · simp only [traceG3, exEnvF0, core_unfold, Fin.sum_univ_three]; norm_num

end AurelVerif.C10
