/-
Props/C10Bn.lean — property C10, part 6 (extension): the magnetic part on the slice as the code builds it
(`bweyl_n_down3`, GENERATED) is trace-free and symmetric (T10).  See Props/C10.lean for the overview.

  T10a (exact, Layer A)  `γ^{ab} B_ab = 0` for every operator `e.D`, every cached connection, every cached
        `Ktrace`: needs only γ⁻¹ symmetric, γγ⁻¹ = 1, K symmetric.
  T10b (exact, conditional)  `B_ab = B_ba` as soon as the two traces commute with the code's covariant
        derivative:  `γ^{ad} (D_c K)_da = D_c(Ktrace)` and `γ^{ce} (D_c K)_ed = (D_k K^k{}_d)`.
        The momentum constraint is NOT needed.
  T10b′ (exact) `B_ab − B_ba` = Levi-Civita dual of the two commutation defects, for every operator.
  T10c (Layer B: consistency — additive Leibniz operator, i.e. the continuum limit)  the two trace
        identities hold for the code's Christoffel connection, so `B` is symmetric.
  T10d  the Leibniz hypothesis cannot be dropped: with a non-derivation `e.D` the code's `B` is not symmetric
        (for the real finite-difference operators the antisymmetric part is truncation error; the numerical
        oracle of tools/props/C10.py checks that it converges to zero).
-/
import AurelVerif.Props.C10EB
import AurelVerif.Lemmas.C10Bsym
import AurelVerif.Lemmas.C10Bcompat
set_option linter.unusedSimpArgs false
set_option linter.unusedVariables false

namespace AurelVerif.C10
open AurelVerif.Gen.Core AurelVerif.Tensor AurelVerif.CoreTac AurelVerif.Spec.Weyl
open AurelVerif.C05L (MetricOK Deriv)

variable {K : Type} [Field K]

theorem lc_down3_eq (e : Env K) : levicivita_down3 e = lc3 e (e.sqrtF e.gammadet) := by
  funext a b c; exact lc_down3_spec e a b c

/-- the generated `bweyl_n_down3` in the form the lemmas of Lemmas/C10Bsym.lean use. -/
theorem bweyl_n_form (e : Env K) :
    bweyl_n_down3 e = bweylN (epsUud3 e.gammaup3 (lc3 e (e.sqrtF e.gammadet))) e.gammadown3
      (s_covd_dd e e.Kdown3) (s_covd_scalar e e.Ktrace) (s_covd_ud e (Kmixed e)) := by
  funext a b; rw [bweyl_n_spec, lc_down3_eq]

/-- **T10a** `γ^{ab} B_ab = 0`, exact: for every `e.D` (in particular the finite-difference operators), every
cached connection and every cached `Ktrace`. -/
theorem bweyl_n_tracefree (e : Env K) (hγu : Symm e.gammaup3)
    (hinv : ∀ a b, ∑ c, e.gammadown3 a c * e.gammaup3 c b = if a = b then 1 else 0)
    (hK : Symm e.Kdown3) : traceG3 e.gammaup3 (bweyl_n_down3 e) = 0 := by
  rw [bweyl_n_form]
  exact bweylN_tracefree e _ e.gammaup3 e.gammadown3 _ _ _ hγu hinv
    (fun c d a => s_covd_dd_symm e e.Kdown3 hK c d a)

/-- **T10b** `B` is symmetric when the traces commute with the code's covariant derivative (exact;
characteristic ≠ 2). -/
theorem bweyl_n_sym_of_traces (e : Env K) (h2 : (2 : K) ≠ 0) (hγu : Symm e.gammaup3)
    (hinv : ∀ a b, ∑ c, e.gammadown3 a c * e.gammaup3 c b = if a = b then 1 else 0)
    (hK : Symm e.Kdown3)
    (H1 : ∀ c, ∑ a, ∑ d, e.gammaup3 a d * s_covd_dd e e.Kdown3 c d a = s_covd_scalar e e.Ktrace c)
    (H2 : ∀ d, ∑ c, ∑ e', e.gammaup3 c e' * s_covd_dd e e.Kdown3 c e' d = ∑ k, s_covd_ud e (Kmixed e) k k d) :
    Symm (bweyl_n_down3 e) := by
  rw [bweyl_n_form]
  exact bweylN_symm e _ e.gammaup3 e.gammadown3 _ _ _ h2 hγu hinv
    (fun c d a => s_covd_dd_symm e e.Kdown3 hK c d a) H1 H2

/-- **T10b′** (exact, every operator) the antisymmetric part of the code's `B` is the Levi-Civita dual of the two
commutation defects: `B_ab − B_ba = γ^{df} ε_{afb} [(D_d Ktrace − Σ_k (D_k K^k{}_d)) − (γ^{pq}(D_d K)_qp − γ^{ce}(D_c K)_ed)]`.
(For the finite-difference operators this is the truncation-error term that the oracle watches converge to 0.) -/
theorem bweyl_n_antisym_part (e : Env K) (h2 : (2 : K) ≠ 0) (hγu : Symm e.gammaup3)
    (hinv : ∀ a b, ∑ c, e.gammadown3 a c * e.gammaup3 c b = if a = b then 1 else 0)
    (hK : Symm e.Kdown3) (a b : Fin 3) :
    bweyl_n_down3 e a b - bweyl_n_down3 e b a
      = ∑ d, (∑ f, e.gammaup3 d f * levicivita_down3 e a f b)
          * ((s_covd_scalar e e.Ktrace d - ∑ k, s_covd_ud e (Kmixed e) k k d)
             - ((∑ p, ∑ q, e.gammaup3 p q * s_covd_dd e e.Kdown3 d q p)
                - ∑ c, ∑ e', e.gammaup3 c e' * s_covd_dd e e.Kdown3 c e' d)) := by
  rw [bweyl_n_form, lc_down3_eq]
  exact bweylN_antisymm_part e _ e.gammaup3 e.gammadown3 _ _ _ h2 hγu hinv
    (fun c d a => s_covd_dd_symm e e.Kdown3 hK c d a) a b

/-- **T10c** (Layer B) for an additive Leibniz operator, the code's Christoffel connection of a symmetric γ
with γ⁻¹γ = 1 (`MetricOK`), symmetric `K` and `Ktrace = γ^{ij}K_ij`: `B` is symmetric (and trace-free). -/
theorem bweyl_n_sym (e : Env K) (h2 : (2 : K) ≠ 0) (h : MetricOK e) (hD : Deriv e.D)
    (hK : Symm e.Kdown3) (hKt : e.Ktrace = Ktrace e) :
    Symm (bweyl_n_down3 e) ∧ traceG3 e.gammaup3 (bweyl_n_down3 e) = 0 := by
  have hinv : ∀ a b, ∑ c, e.gammadown3 a c * e.gammaup3 c b = if a = b then 1 else 0 := by
    intro a b
    have := h.hr' e b a
    unfold delta at this
    rw [this]; simp only [eq_comm]
  exact ⟨bweyl_n_sym_of_traces e h2 h.hsu hinv hK (covd_trace_dd e h h2 hD hK hKt) (covd_trace_ud e h h2 hD),
    bweyl_n_tracefree e h.hsu hinv hK⟩

/-! ### T10d the Leibniz hypothesis is needed -/

/-- flat γ, zero connection, `K = 0`, and the NON-derivation `D_i x = x + 1`. -/
def exEnvNoLeibniz : Env ℚ :=
  { (Env.zero : Env ℚ) with
    D := fun _ x => x + 1, gammadet := 1,
    gammadown3 := vec3 (vec3 1 0 0) (vec3 0 1 0) (vec3 0 0 1),
    gammaup3 := vec3 (vec3 1 0 0) (vec3 0 1 0) (vec3 0 0 1) }

theorem bweyl_n_sym_needs_leibniz :
    ¬ ∀ e : Env ℚ, Symm e.gammaup3 → (∀ a b, ∑ c, e.gammadown3 a c * e.gammaup3 c b = if a = b then 1 else 0) →
        Symm e.Kdown3 → e.Ktrace = Ktrace e → Symm (bweyl_n_down3 e) := by
  intro hall
  have := hall exEnvNoLeibniz
    (by cases3 <;> cases3 <;> (simp only [exEnvNoLeibniz, Env.zero, core_unfold]))
    (by cases3 <;> cases3 <;> (simp only [exEnvNoLeibniz, Env.zero, core_unfold, Fin.sum_univ_three]; try norm_num) <;> try decide)
    (by cases3 <;> cases3 <;> (simp only [exEnvNoLeibniz, Env.zero, core_unfold]; try rfl))
    (by simp only [exEnvNoLeibniz, Env.zero, core_unfold]; norm_num) 0 1
  simp only [exEnvNoLeibniz, Env.zero, core_unfold] at this
  norm_num at this

/-! ### Non-vacuity -/

/-- flat γ with the code's (zero) connection, symmetric non-diagonal `K`, the derivation `D = 0`. -/
def exEnvBn : Env ℚ :=
  { (Env.zero : Env ℚ) with
    D := fun _ _ => 0, gammadet := 1, Ktrace := 4,
    gammadown3 := vec3 (vec3 1 0 0) (vec3 0 1 0) (vec3 0 0 1),
    gammaup3 := vec3 (vec3 1 0 0) (vec3 0 1 0) (vec3 0 0 1),
    Kdown3 := vec3 (vec3 1 2 0) (vec3 2 0 1) (vec3 0 1 3) }

example : MetricOK exEnvBn ∧ Deriv exEnvBn.D ∧ Symm exEnvBn.Kdown3 ∧ exEnvBn.Ktrace = Ktrace exEnvBn
    ∧ (2 : ℚ) ≠ 0 := by
  refine ⟨⟨?_, ?_, ?_, ?_⟩, ⟨?_, ?_⟩, ?_, ?_, by norm_num⟩
  · cases3 <;> cases3 <;> (simp only [exEnvBn, Env.zero, core_unfold])
  · cases3 <;> cases3 <;> (simp only [exEnvBn, Env.zero, core_unfold])
  · cases3 <;> cases3 <;> (simp only [exEnvBn, Env.zero, core_unfold, delta, Fin.sum_univ_three]; try norm_num) <;> try decide
  · funext a b c; revert a b c
    cases3 <;> cases3 <;> cases3 <;> (simp only [exEnvBn, Env.zero, core_unfold]; try norm_num)
  · intro i x y; simp only [exEnvBn]; norm_num
  · intro i x y; simp only [exEnvBn]; norm_num
  · cases3 <;> cases3 <;> (simp only [exEnvBn, Env.zero, core_unfold])
  · simp only [exEnvBn, Env.zero, core_unfold]; norm_num

end AurelVerif.C10
