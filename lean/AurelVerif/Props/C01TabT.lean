/-
Props/C01TabT.lean — property C01, extension round 5 (continued from Props/C01Tab.lean, see its header): branch
coherence of the guarded bodies of the real table PROVEN from the generated return-site formulas, and the resulting
transparency theorems with a constructed denotation.
-/
import AurelVerif.Props.C01Tab

set_option linter.unusedSectionVars false
set_option linter.unusedSimpArgs false
set_option linter.unusedVariables false

namespace AurelVerif.C01Tab
open AurelVerif.Cache AurelVerif.Cache.Dict AurelVerif.CacheGet AurelVerif.Gen.Core AurelVerif.Tensor AurelVerif.CoreTac
open AurelVerif.Gen.C01Table AurelVerif.Gen.DepGraph
open AurelVerif.C01 (IsInput shapeOf rankOf)

variable {K : Type} [Field K]

section coh
variable (P : Params K) (excl : List Nat) (inp : Dict Nat (Val K))

theorem TTab_leaf : (TTab P excl).leaf = leafGen P.base P.rest := rfl

/-- shape of a cone key in the table -/
theorem shp (hE : ∀ k, coneKeys.contains k = true → excl.contains k = false) (k : Nat) (sh : Shape Nat)
    (hk : coneKeys.contains k = true) (hs : shapeOf k = some sh) : (TTab P excl).shape k = some sh := by
  rw [TTab_shape_cone P excl hE k hk, hs]

/-- `if 't' in self.data: A else: B` with `t` not supplied: the denotation is the value of `B`. -/
theorem den_else (k t : Nat) (A B : Shape Nat) (hs : (TTab P excl).shape k = some (.test (.pres t) A B))
    (hi : get? inp k = none) (ht : get? inp t = none) :
    den P excl inp k = evalShape (TTab P excl) (den P excl inp) (fun k => contains inp k) (.s 0) k B [] := by
  rw [den_unfold P excl inp k _ hi hs]
  simp only [evalShape, Guard.eval, contains, ht, Option.isSome_none, Bool.false_eq_true, ↓reduceIte]

/-- a component key whose tensor is not supplied (and which is not supplied itself) has its default value. -/
theorem den_comp (c t : Nat) (hs : (TTab P excl).shape c = some (.test (.pres t) (.read t (.ret 0)) (.ret 1)))
    (hi : get? inp c = none) (ht : get? inp t = none) :
    den P excl inp c = leafGen P.base P.rest c 1 [] := by
  rw [den_else P excl inp c t _ _ hs hi ht]
  rfl

theorem den_6 (hE : ∀ k, coneKeys.contains k = true → excl.contains k = false) (h : get? inp 6 = none) :
    den P excl inp 6 = leafGen P.base P.rest 6 0 [den P excl inp 3, den P excl inp 4, den P excl inp 5] := by
  rw [den_unfold P excl inp 6 _ h (shp P excl hE 6 _ (by decide) rfl)]
  simp only [evalShape, List.nil_append, List.cons_append]
  rfl

theorem den_10 (hE : ∀ k, coneKeys.contains k = true → excl.contains k = false) (h : get? inp 10 = none) :
    den P excl inp 10 = leafGen P.base P.rest 10 0 [den P excl inp 7, den P excl inp 8, den P excl inp 9] := by
  rw [den_unfold P excl inp 10 _ h (shp P excl hE 10 _ (by decide) rfl)]
  simp only [evalShape, List.nil_append, List.cons_append]
  rfl

theorem den_21 (hE : ∀ k, coneKeys.contains k = true → excl.contains k = false) (h : get? inp 21 = none) :
    den P excl inp 21 = leafGen P.base P.rest 21 0 [den P excl inp 15, den P excl inp 16, den P excl inp 17, den P excl inp 18, den P excl inp 19, den P excl inp 20] := by
  rw [den_unfold P excl inp 21 _ h (shp P excl hE 21 _ (by decide) rfl)]
  simp only [evalShape, List.nil_append, List.cons_append]
  rfl

theorem den_46 (hE : ∀ k, coneKeys.contains k = true → excl.contains k = false) (h : get? inp 46 = none) :
    den P excl inp 46 = leafGen P.base P.rest 46 0 [den P excl inp 40, den P excl inp 41, den P excl inp 42, den P excl inp 43, den P excl inp 44, den P excl inp 45] := by
  rw [den_unfold P excl inp 46 _ h (shp P excl hE 46 _ (by decide) rfl)]
  simp only [evalShape, List.nil_append, List.cons_append]
  rfl

theorem den_31 (hE : ∀ k, coneKeys.contains k = true → excl.contains k = false) (h : get? inp 31 = none) :
    den P excl inp 31 = leafGen P.base P.rest 31 0 [den P excl inp 27, den P excl inp 11, den P excl inp 11, den P excl inp 11, den P excl inp 11, den P excl inp 21, den P excl inp 21, den P excl inp 21, den P excl inp 11, den P excl inp 21, den P excl inp 21, den P excl inp 21, den P excl inp 11, den P excl inp 21, den P excl inp 21, den P excl inp 21] := by
  rw [den_unfold P excl inp 31 _ h (shp P excl hE 31 _ (by decide) rfl)]
  simp only [evalShape, List.nil_append, List.cons_append]
  rfl

theorem den_61 (hE : ∀ k, coneKeys.contains k = true → excl.contains k = false) (h : get? inp 61 = none) :
    den P excl inp 61 = leafGen P.base P.rest 61 0 [den P excl inp 58, den P excl inp 60] := by
  rw [den_unfold P excl inp 61 _ h (shp P excl hE 61 _ (by decide) rfl)]
  simp only [evalShape, List.nil_append, List.cons_append]
  rfl

theorem den_12 (hE : ∀ k, coneKeys.contains k = true → excl.contains k = false) (h : get? inp 12 = none) :
    den P excl inp 12 = leafGen P.base P.rest 12 0 [den P excl inp 6, den P excl inp 11] := by
  rw [den_unfold P excl inp 12 _ h (shp P excl hE 12 _ (by decide) rfl)]
  simp only [evalShape, List.nil_append, List.cons_append]
  rfl

theorem den_11 (hE : ∀ k, coneKeys.contains k = true → excl.contains k = false) (h : get? inp 11 = none) :
    den P excl inp 11 = leafGen P.base P.rest 11 0 [den P excl inp 6, den P excl inp 21] := by
  rw [den_unfold P excl inp 11 _ h (shp P excl hE 11 _ (by decide) rfl)]
  simp only [evalShape, List.nil_append, List.cons_append]
  rfl

theorem den_24 (hE : ∀ k, coneKeys.contains k = true → excl.contains k = false) (h : get? inp 24 = none) :
    den P excl inp 24 = leafGen P.base P.rest 24 0 [den P excl inp 21] := by
  rw [den_unfold P excl inp 24 _ h (shp P excl hE 24 _ (by decide) rfl)]
  simp only [evalShape, List.nil_append, List.cons_append]
  rfl

theorem coh_3 (hE : ∀ k, coneKeys.contains k = true → excl.contains k = false) (hi : get? inp 3 = none) :
    CohM (TTab P excl) (den P excl inp) (fun k => (get? inp k).isSome = true) (den P excl inp 3) 3
      (.test (.pres 6) (.read 6 (.ret 0)) (.ret 1)) [] := by
  have hs := shp P excl hE 3 _ (by decide) rfl
  refine cohM_test (TTab_ok P excl) inp (.s 0) 18 rankOf_lt 3 _ _ _ hs hi rfl rfl ?_
  intro _ hf
  have ht := feasibleM_pres_false inp hf
  simp only [evalShape, List.nil_append]
  show leafGen P.base P.rest 3 0 [den P excl inp 6] = leafGen P.base P.rest 3 1 []
  rw [den_6 P excl inp hE ht]
  simp only [leafGen_3, leafGen_6, leaf_3, leaf_6, envOf, rd, List.getD_cons_zero, List.getD_cons_succ, core_unfold, Val.toS, Val.toV3, Val.toT33, Val.toT44]
  rw [den_comp P excl inp 3 6 hs hi ht]
  simp only [leafGen_3, leaf_3, envOf, core_unfold, Val.toS, Val.toV3, Val.toT33, Val.toT44]

theorem coh_4 (hE : ∀ k, coneKeys.contains k = true → excl.contains k = false) (hi : get? inp 4 = none) :
    CohM (TTab P excl) (den P excl inp) (fun k => (get? inp k).isSome = true) (den P excl inp 4) 4
      (.test (.pres 6) (.read 6 (.ret 0)) (.ret 1)) [] := by
  have hs := shp P excl hE 4 _ (by decide) rfl
  refine cohM_test (TTab_ok P excl) inp (.s 0) 18 rankOf_lt 4 _ _ _ hs hi rfl rfl ?_
  intro _ hf
  have ht := feasibleM_pres_false inp hf
  simp only [evalShape, List.nil_append]
  show leafGen P.base P.rest 4 0 [den P excl inp 6] = leafGen P.base P.rest 4 1 []
  rw [den_6 P excl inp hE ht]
  simp only [leafGen_4, leafGen_6, leaf_4, leaf_6, envOf, rd, List.getD_cons_zero, List.getD_cons_succ, core_unfold, Val.toS, Val.toV3, Val.toT33, Val.toT44]
  rw [den_comp P excl inp 4 6 hs hi ht]
  simp only [leafGen_4, leaf_4, envOf, core_unfold, Val.toS, Val.toV3, Val.toT33, Val.toT44]

theorem coh_5 (hE : ∀ k, coneKeys.contains k = true → excl.contains k = false) (hi : get? inp 5 = none) :
    CohM (TTab P excl) (den P excl inp) (fun k => (get? inp k).isSome = true) (den P excl inp 5) 5
      (.test (.pres 6) (.read 6 (.ret 0)) (.ret 1)) [] := by
  have hs := shp P excl hE 5 _ (by decide) rfl
  refine cohM_test (TTab_ok P excl) inp (.s 0) 18 rankOf_lt 5 _ _ _ hs hi rfl rfl ?_
  intro _ hf
  have ht := feasibleM_pres_false inp hf
  simp only [evalShape, List.nil_append]
  show leafGen P.base P.rest 5 0 [den P excl inp 6] = leafGen P.base P.rest 5 1 []
  rw [den_6 P excl inp hE ht]
  simp only [leafGen_5, leafGen_6, leaf_5, leaf_6, envOf, rd, List.getD_cons_zero, List.getD_cons_succ, core_unfold, Val.toS, Val.toV3, Val.toT33, Val.toT44]
  rw [den_comp P excl inp 5 6 hs hi ht]
  simp only [leafGen_5, leaf_5, envOf, core_unfold, Val.toS, Val.toV3, Val.toT33, Val.toT44]

theorem coh_7 (hE : ∀ k, coneKeys.contains k = true → excl.contains k = false) (hi : get? inp 7 = none) :
    CohM (TTab P excl) (den P excl inp) (fun k => (get? inp k).isSome = true) (den P excl inp 7) 7
      (.test (.pres 10) (.read 10 (.ret 0)) (.ret 1)) [] := by
  have hs := shp P excl hE 7 _ (by decide) rfl
  refine cohM_test (TTab_ok P excl) inp (.s 0) 18 rankOf_lt 7 _ _ _ hs hi rfl rfl ?_
  intro _ hf
  have ht := feasibleM_pres_false inp hf
  simp only [evalShape, List.nil_append]
  show leafGen P.base P.rest 7 0 [den P excl inp 10] = leafGen P.base P.rest 7 1 []
  rw [den_10 P excl inp hE ht]
  simp only [leafGen_7, leafGen_10, leaf_7, leaf_10, envOf, rd, List.getD_cons_zero, List.getD_cons_succ, core_unfold, Val.toS, Val.toV3, Val.toT33, Val.toT44]
  rw [den_comp P excl inp 7 10 hs hi ht]
  simp only [leafGen_7, leaf_7, envOf, core_unfold, Val.toS, Val.toV3, Val.toT33, Val.toT44]

theorem coh_8 (hE : ∀ k, coneKeys.contains k = true → excl.contains k = false) (hi : get? inp 8 = none) :
    CohM (TTab P excl) (den P excl inp) (fun k => (get? inp k).isSome = true) (den P excl inp 8) 8
      (.test (.pres 10) (.read 10 (.ret 0)) (.ret 1)) [] := by
  have hs := shp P excl hE 8 _ (by decide) rfl
  refine cohM_test (TTab_ok P excl) inp (.s 0) 18 rankOf_lt 8 _ _ _ hs hi rfl rfl ?_
  intro _ hf
  have ht := feasibleM_pres_false inp hf
  simp only [evalShape, List.nil_append]
  show leafGen P.base P.rest 8 0 [den P excl inp 10] = leafGen P.base P.rest 8 1 []
  rw [den_10 P excl inp hE ht]
  simp only [leafGen_8, leafGen_10, leaf_8, leaf_10, envOf, rd, List.getD_cons_zero, List.getD_cons_succ, core_unfold, Val.toS, Val.toV3, Val.toT33, Val.toT44]
  rw [den_comp P excl inp 8 10 hs hi ht]
  simp only [leafGen_8, leaf_8, envOf, core_unfold, Val.toS, Val.toV3, Val.toT33, Val.toT44]

theorem coh_9 (hE : ∀ k, coneKeys.contains k = true → excl.contains k = false) (hi : get? inp 9 = none) :
    CohM (TTab P excl) (den P excl inp) (fun k => (get? inp k).isSome = true) (den P excl inp 9) 9
      (.test (.pres 10) (.read 10 (.ret 0)) (.ret 1)) [] := by
  have hs := shp P excl hE 9 _ (by decide) rfl
  refine cohM_test (TTab_ok P excl) inp (.s 0) 18 rankOf_lt 9 _ _ _ hs hi rfl rfl ?_
  intro _ hf
  have ht := feasibleM_pres_false inp hf
  simp only [evalShape, List.nil_append]
  show leafGen P.base P.rest 9 0 [den P excl inp 10] = leafGen P.base P.rest 9 1 []
  rw [den_10 P excl inp hE ht]
  simp only [leafGen_9, leafGen_10, leaf_9, leaf_10, envOf, rd, List.getD_cons_zero, List.getD_cons_succ, core_unfold, Val.toS, Val.toV3, Val.toT33, Val.toT44]
  rw [den_comp P excl inp 9 10 hs hi ht]
  simp only [leafGen_9, leaf_9, envOf, core_unfold, Val.toS, Val.toV3, Val.toT33, Val.toT44]

theorem coh_15 (hE : ∀ k, coneKeys.contains k = true → excl.contains k = false) (hi : get? inp 15 = none) :
    CohM (TTab P excl) (den P excl inp) (fun k => (get? inp k).isSome = true) (den P excl inp 15) 15
      (.test (.pres 21) (.read 21 (.ret 0)) (.ret 1)) [] := by
  have hs := shp P excl hE 15 _ (by decide) rfl
  refine cohM_test (TTab_ok P excl) inp (.s 0) 18 rankOf_lt 15 _ _ _ hs hi rfl rfl ?_
  intro _ hf
  have ht := feasibleM_pres_false inp hf
  simp only [evalShape, List.nil_append]
  show leafGen P.base P.rest 15 0 [den P excl inp 21] = leafGen P.base P.rest 15 1 []
  rw [den_21 P excl inp hE ht]
  simp only [leafGen_15, leafGen_21, leaf_15, leaf_21, envOf, rd, List.getD_cons_zero, List.getD_cons_succ, core_unfold, Val.toS, Val.toV3, Val.toT33, Val.toT44]
  rw [den_comp P excl inp 15 21 hs hi ht]
  simp only [leafGen_15, leaf_15, envOf, core_unfold, Val.toS, Val.toV3, Val.toT33, Val.toT44]

theorem coh_16 (hE : ∀ k, coneKeys.contains k = true → excl.contains k = false) (hi : get? inp 16 = none) :
    CohM (TTab P excl) (den P excl inp) (fun k => (get? inp k).isSome = true) (den P excl inp 16) 16
      (.test (.pres 21) (.read 21 (.ret 0)) (.ret 1)) [] := by
  have hs := shp P excl hE 16 _ (by decide) rfl
  refine cohM_test (TTab_ok P excl) inp (.s 0) 18 rankOf_lt 16 _ _ _ hs hi rfl rfl ?_
  intro _ hf
  have ht := feasibleM_pres_false inp hf
  simp only [evalShape, List.nil_append]
  show leafGen P.base P.rest 16 0 [den P excl inp 21] = leafGen P.base P.rest 16 1 []
  rw [den_21 P excl inp hE ht]
  simp only [leafGen_16, leafGen_21, leaf_16, leaf_21, envOf, rd, List.getD_cons_zero, List.getD_cons_succ, core_unfold, Val.toS, Val.toV3, Val.toT33, Val.toT44]
  rw [den_comp P excl inp 16 21 hs hi ht]
  simp only [leafGen_16, leaf_16, envOf, core_unfold, Val.toS, Val.toV3, Val.toT33, Val.toT44]

theorem coh_17 (hE : ∀ k, coneKeys.contains k = true → excl.contains k = false) (hi : get? inp 17 = none) :
    CohM (TTab P excl) (den P excl inp) (fun k => (get? inp k).isSome = true) (den P excl inp 17) 17
      (.test (.pres 21) (.read 21 (.ret 0)) (.ret 1)) [] := by
  have hs := shp P excl hE 17 _ (by decide) rfl
  refine cohM_test (TTab_ok P excl) inp (.s 0) 18 rankOf_lt 17 _ _ _ hs hi rfl rfl ?_
  intro _ hf
  have ht := feasibleM_pres_false inp hf
  simp only [evalShape, List.nil_append]
  show leafGen P.base P.rest 17 0 [den P excl inp 21] = leafGen P.base P.rest 17 1 []
  rw [den_21 P excl inp hE ht]
  simp only [leafGen_17, leafGen_21, leaf_17, leaf_21, envOf, rd, List.getD_cons_zero, List.getD_cons_succ, core_unfold, Val.toS, Val.toV3, Val.toT33, Val.toT44]
  rw [den_comp P excl inp 17 21 hs hi ht]
  simp only [leafGen_17, leaf_17, envOf, core_unfold, Val.toS, Val.toV3, Val.toT33, Val.toT44]

theorem coh_18 (hE : ∀ k, coneKeys.contains k = true → excl.contains k = false) (hi : get? inp 18 = none) :
    CohM (TTab P excl) (den P excl inp) (fun k => (get? inp k).isSome = true) (den P excl inp 18) 18
      (.test (.pres 21) (.read 21 (.ret 0)) (.ret 1)) [] := by
  have hs := shp P excl hE 18 _ (by decide) rfl
  refine cohM_test (TTab_ok P excl) inp (.s 0) 18 rankOf_lt 18 _ _ _ hs hi rfl rfl ?_
  intro _ hf
  have ht := feasibleM_pres_false inp hf
  simp only [evalShape, List.nil_append]
  show leafGen P.base P.rest 18 0 [den P excl inp 21] = leafGen P.base P.rest 18 1 []
  rw [den_21 P excl inp hE ht]
  simp only [leafGen_18, leafGen_21, leaf_18, leaf_21, envOf, rd, List.getD_cons_zero, List.getD_cons_succ, core_unfold, Val.toS, Val.toV3, Val.toT33, Val.toT44]
  rw [den_comp P excl inp 18 21 hs hi ht]
  simp only [leafGen_18, leaf_18, envOf, core_unfold, Val.toS, Val.toV3, Val.toT33, Val.toT44]

theorem coh_19 (hE : ∀ k, coneKeys.contains k = true → excl.contains k = false) (hi : get? inp 19 = none) :
    CohM (TTab P excl) (den P excl inp) (fun k => (get? inp k).isSome = true) (den P excl inp 19) 19
      (.test (.pres 21) (.read 21 (.ret 0)) (.ret 1)) [] := by
  have hs := shp P excl hE 19 _ (by decide) rfl
  refine cohM_test (TTab_ok P excl) inp (.s 0) 18 rankOf_lt 19 _ _ _ hs hi rfl rfl ?_
  intro _ hf
  have ht := feasibleM_pres_false inp hf
  simp only [evalShape, List.nil_append]
  show leafGen P.base P.rest 19 0 [den P excl inp 21] = leafGen P.base P.rest 19 1 []
  rw [den_21 P excl inp hE ht]
  simp only [leafGen_19, leafGen_21, leaf_19, leaf_21, envOf, rd, List.getD_cons_zero, List.getD_cons_succ, core_unfold, Val.toS, Val.toV3, Val.toT33, Val.toT44]
  rw [den_comp P excl inp 19 21 hs hi ht]
  simp only [leafGen_19, leaf_19, envOf, core_unfold, Val.toS, Val.toV3, Val.toT33, Val.toT44]

theorem coh_20 (hE : ∀ k, coneKeys.contains k = true → excl.contains k = false) (hi : get? inp 20 = none) :
    CohM (TTab P excl) (den P excl inp) (fun k => (get? inp k).isSome = true) (den P excl inp 20) 20
      (.test (.pres 21) (.read 21 (.ret 0)) (.ret 1)) [] := by
  have hs := shp P excl hE 20 _ (by decide) rfl
  refine cohM_test (TTab_ok P excl) inp (.s 0) 18 rankOf_lt 20 _ _ _ hs hi rfl rfl ?_
  intro _ hf
  have ht := feasibleM_pres_false inp hf
  simp only [evalShape, List.nil_append]
  show leafGen P.base P.rest 20 0 [den P excl inp 21] = leafGen P.base P.rest 20 1 []
  rw [den_21 P excl inp hE ht]
  simp only [leafGen_20, leafGen_21, leaf_20, leaf_21, envOf, rd, List.getD_cons_zero, List.getD_cons_succ, core_unfold, Val.toS, Val.toV3, Val.toT33, Val.toT44]
  rw [den_comp P excl inp 20 21 hs hi ht]
  simp only [leafGen_20, leaf_20, envOf, core_unfold, Val.toS, Val.toV3, Val.toT33, Val.toT44]

theorem coh_40 (hE : ∀ k, coneKeys.contains k = true → excl.contains k = false) (hi : get? inp 40 = none) :
    CohM (TTab P excl) (den P excl inp) (fun k => (get? inp k).isSome = true) (den P excl inp 40) 40
      (.test (.pres 46) (.read 46 (.ret 0)) (.ret 1)) [] := by
  have hs := shp P excl hE 40 _ (by decide) rfl
  refine cohM_test (TTab_ok P excl) inp (.s 0) 18 rankOf_lt 40 _ _ _ hs hi rfl rfl ?_
  intro _ hf
  have ht := feasibleM_pres_false inp hf
  simp only [evalShape, List.nil_append]
  show leafGen P.base P.rest 40 0 [den P excl inp 46] = leafGen P.base P.rest 40 1 []
  rw [den_46 P excl inp hE ht]
  simp only [leafGen_40, leafGen_46, leaf_40, leaf_46, envOf, rd, List.getD_cons_zero, List.getD_cons_succ, core_unfold, Val.toS, Val.toV3, Val.toT33, Val.toT44]
  rw [den_comp P excl inp 40 46 hs hi ht]
  simp only [leafGen_40, leaf_40, envOf, core_unfold, Val.toS, Val.toV3, Val.toT33, Val.toT44]

theorem coh_41 (hE : ∀ k, coneKeys.contains k = true → excl.contains k = false) (hi : get? inp 41 = none) :
    CohM (TTab P excl) (den P excl inp) (fun k => (get? inp k).isSome = true) (den P excl inp 41) 41
      (.test (.pres 46) (.read 46 (.ret 0)) (.ret 1)) [] := by
  have hs := shp P excl hE 41 _ (by decide) rfl
  refine cohM_test (TTab_ok P excl) inp (.s 0) 18 rankOf_lt 41 _ _ _ hs hi rfl rfl ?_
  intro _ hf
  have ht := feasibleM_pres_false inp hf
  simp only [evalShape, List.nil_append]
  show leafGen P.base P.rest 41 0 [den P excl inp 46] = leafGen P.base P.rest 41 1 []
  rw [den_46 P excl inp hE ht]
  simp only [leafGen_41, leafGen_46, leaf_41, leaf_46, envOf, rd, List.getD_cons_zero, List.getD_cons_succ, core_unfold, Val.toS, Val.toV3, Val.toT33, Val.toT44]
  rw [den_comp P excl inp 41 46 hs hi ht]
  simp only [leafGen_41, leaf_41, envOf, core_unfold, Val.toS, Val.toV3, Val.toT33, Val.toT44]

theorem coh_42 (hE : ∀ k, coneKeys.contains k = true → excl.contains k = false) (hi : get? inp 42 = none) :
    CohM (TTab P excl) (den P excl inp) (fun k => (get? inp k).isSome = true) (den P excl inp 42) 42
      (.test (.pres 46) (.read 46 (.ret 0)) (.ret 1)) [] := by
  have hs := shp P excl hE 42 _ (by decide) rfl
  refine cohM_test (TTab_ok P excl) inp (.s 0) 18 rankOf_lt 42 _ _ _ hs hi rfl rfl ?_
  intro _ hf
  have ht := feasibleM_pres_false inp hf
  simp only [evalShape, List.nil_append]
  show leafGen P.base P.rest 42 0 [den P excl inp 46] = leafGen P.base P.rest 42 1 []
  rw [den_46 P excl inp hE ht]
  simp only [leafGen_42, leafGen_46, leaf_42, leaf_46, envOf, rd, List.getD_cons_zero, List.getD_cons_succ, core_unfold, Val.toS, Val.toV3, Val.toT33, Val.toT44]
  rw [den_comp P excl inp 42 46 hs hi ht]
  simp only [leafGen_42, leaf_42, envOf, core_unfold, Val.toS, Val.toV3, Val.toT33, Val.toT44]

theorem coh_43 (hE : ∀ k, coneKeys.contains k = true → excl.contains k = false) (hi : get? inp 43 = none) :
    CohM (TTab P excl) (den P excl inp) (fun k => (get? inp k).isSome = true) (den P excl inp 43) 43
      (.test (.pres 46) (.read 46 (.ret 0)) (.ret 1)) [] := by
  have hs := shp P excl hE 43 _ (by decide) rfl
  refine cohM_test (TTab_ok P excl) inp (.s 0) 18 rankOf_lt 43 _ _ _ hs hi rfl rfl ?_
  intro _ hf
  have ht := feasibleM_pres_false inp hf
  simp only [evalShape, List.nil_append]
  show leafGen P.base P.rest 43 0 [den P excl inp 46] = leafGen P.base P.rest 43 1 []
  rw [den_46 P excl inp hE ht]
  simp only [leafGen_43, leafGen_46, leaf_43, leaf_46, envOf, rd, List.getD_cons_zero, List.getD_cons_succ, core_unfold, Val.toS, Val.toV3, Val.toT33, Val.toT44]
  rw [den_comp P excl inp 43 46 hs hi ht]
  simp only [leafGen_43, leaf_43, envOf, core_unfold, Val.toS, Val.toV3, Val.toT33, Val.toT44]

theorem coh_44 (hE : ∀ k, coneKeys.contains k = true → excl.contains k = false) (hi : get? inp 44 = none) :
    CohM (TTab P excl) (den P excl inp) (fun k => (get? inp k).isSome = true) (den P excl inp 44) 44
      (.test (.pres 46) (.read 46 (.ret 0)) (.ret 1)) [] := by
  have hs := shp P excl hE 44 _ (by decide) rfl
  refine cohM_test (TTab_ok P excl) inp (.s 0) 18 rankOf_lt 44 _ _ _ hs hi rfl rfl ?_
  intro _ hf
  have ht := feasibleM_pres_false inp hf
  simp only [evalShape, List.nil_append]
  show leafGen P.base P.rest 44 0 [den P excl inp 46] = leafGen P.base P.rest 44 1 []
  rw [den_46 P excl inp hE ht]
  simp only [leafGen_44, leafGen_46, leaf_44, leaf_46, envOf, rd, List.getD_cons_zero, List.getD_cons_succ, core_unfold, Val.toS, Val.toV3, Val.toT33, Val.toT44]
  rw [den_comp P excl inp 44 46 hs hi ht]
  simp only [leafGen_44, leaf_44, envOf, core_unfold, Val.toS, Val.toV3, Val.toT33, Val.toT44]

theorem coh_45 (hE : ∀ k, coneKeys.contains k = true → excl.contains k = false) (hi : get? inp 45 = none) :
    CohM (TTab P excl) (den P excl inp) (fun k => (get? inp k).isSome = true) (den P excl inp 45) 45
      (.test (.pres 46) (.read 46 (.ret 0)) (.ret 1)) [] := by
  have hs := shp P excl hE 45 _ (by decide) rfl
  refine cohM_test (TTab_ok P excl) inp (.s 0) 18 rankOf_lt 45 _ _ _ hs hi rfl rfl ?_
  intro _ hf
  have ht := feasibleM_pres_false inp hf
  simp only [evalShape, List.nil_append]
  show leafGen P.base P.rest 45 0 [den P excl inp 46] = leafGen P.base P.rest 45 1 []
  rw [den_46 P excl inp hE ht]
  simp only [leafGen_45, leafGen_46, leaf_45, leaf_46, envOf, rd, List.getD_cons_zero, List.getD_cons_succ, core_unfold, Val.toS, Val.toV3, Val.toT33, Val.toT44]
  rw [den_comp P excl inp 45 46 hs hi ht]
  simp only [leafGen_45, leaf_45, envOf, core_unfold, Val.toS, Val.toV3, Val.toT33, Val.toT44]

theorem coh_27 (hE : ∀ k, coneKeys.contains k = true → excl.contains k = false) (hi : get? inp 27 = none) :
    CohM (TTab P excl) (den P excl inp) (fun k => (get? inp k).isSome = true) (den P excl inp 27) 27
      (.test (.pres 31) (.read 31 (.ret 0)) (.read 0 (.read 12 (.ret 1)))) [] := by
  have hs := shp P excl hE 27 _ (by decide) rfl
  refine cohM_test (TTab_ok P excl) inp (.s 0) 18 rankOf_lt 27 _ _ _ hs hi rfl rfl ?_
  intro _ hf
  have ht := feasibleM_pres_false inp hf
  simp only [evalShape, List.nil_append, List.cons_append]
  show leafGen P.base P.rest 27 0 [den P excl inp 31] = leafGen P.base P.rest 27 1 [den P excl inp 0, den P excl inp 12]
  rw [den_31 P excl inp hE ht]
  simp only [leafGen_27, leafGen_31, leaf_27, leaf_31, envOf, rd, List.getD_cons_zero, List.getD_cons_succ, core_unfold, Val.toS, Val.toV3, Val.toT33, Val.toT44]
  rw [den_else P excl inp 27 31 _ _ hs hi ht]
  simp only [evalShape, List.nil_append, List.cons_append]
  show Val.s (Val.toS (leafGen P.base P.rest 27 1 [den P excl inp 0, den P excl inp 12])) = _
  simp only [leafGen_27, leaf_27, envOf, rd, List.getD_cons_zero, List.getD_cons_succ, core_unfold, Val.toS, Val.toV3, Val.toT33, Val.toT44]

theorem coh_28 (hE : ∀ k, coneKeys.contains k = true → excl.contains k = false) (hi : get? inp 28 = none) :
    CohM (TTab P excl) (den P excl inp) (fun k => (get? inp k).isSome = true) (den P excl inp 28) 28
      (.test (.pres 31) (.read 31 (.ret 0)) (.read 11 (.ret 1))) [] := by
  have hs := shp P excl hE 28 _ (by decide) rfl
  refine cohM_test (TTab_ok P excl) inp (.s 0) 18 rankOf_lt 28 _ _ _ hs hi rfl rfl ?_
  intro _ hf
  have ht := feasibleM_pres_false inp hf
  simp only [evalShape, List.nil_append, List.cons_append]
  show leafGen P.base P.rest 28 0 [den P excl inp 31] = leafGen P.base P.rest 28 1 [den P excl inp 11]
  rw [den_31 P excl inp hE ht]
  simp only [leafGen_28, leafGen_31, leaf_28, leaf_31, envOf, rd, List.getD_cons_zero, List.getD_cons_succ, core_unfold, Val.toS, Val.toV3, Val.toT33, Val.toT44]

theorem coh_29 (hE : ∀ k, coneKeys.contains k = true → excl.contains k = false) (hi : get? inp 29 = none) :
    CohM (TTab P excl) (den P excl inp) (fun k => (get? inp k).isSome = true) (den P excl inp 29) 29
      (.test (.pres 31) (.read 31 (.ret 0)) (.read 11 (.ret 1))) [] := by
  have hs := shp P excl hE 29 _ (by decide) rfl
  refine cohM_test (TTab_ok P excl) inp (.s 0) 18 rankOf_lt 29 _ _ _ hs hi rfl rfl ?_
  intro _ hf
  have ht := feasibleM_pres_false inp hf
  simp only [evalShape, List.nil_append, List.cons_append]
  show leafGen P.base P.rest 29 0 [den P excl inp 31] = leafGen P.base P.rest 29 1 [den P excl inp 11]
  rw [den_31 P excl inp hE ht]
  simp only [leafGen_29, leafGen_31, leaf_29, leaf_31, envOf, rd, List.getD_cons_zero, List.getD_cons_succ, core_unfold, Val.toS, Val.toV3, Val.toT33, Val.toT44]

theorem coh_30 (hE : ∀ k, coneKeys.contains k = true → excl.contains k = false) (hi : get? inp 30 = none) :
    CohM (TTab P excl) (den P excl inp) (fun k => (get? inp k).isSome = true) (den P excl inp 30) 30
      (.test (.pres 31) (.read 31 (.ret 0)) (.read 11 (.ret 1))) [] := by
  have hs := shp P excl hE 30 _ (by decide) rfl
  refine cohM_test (TTab_ok P excl) inp (.s 0) 18 rankOf_lt 30 _ _ _ hs hi rfl rfl ?_
  intro _ hf
  have ht := feasibleM_pres_false inp hf
  simp only [evalShape, List.nil_append, List.cons_append]
  show leafGen P.base P.rest 30 0 [den P excl inp 31] = leafGen P.base P.rest 30 1 [den P excl inp 11]
  rw [den_31 P excl inp hE ht]
  simp only [leafGen_30, leafGen_31, leaf_30, leaf_31, envOf, rd, List.getD_cons_zero, List.getD_cons_succ, core_unfold, Val.toS, Val.toV3, Val.toT33, Val.toT44]

/-- `rho0`: `if 'rho' in self.data: rho / (1 + eps) else: 0` -/
theorem coh_58 (hE : ∀ k, coneKeys.contains k = true → excl.contains k = false) (hi : get? inp 58 = none) :
    CohM (TTab P excl) (den P excl inp) (fun k => (get? inp k).isSome = true) (den P excl inp 58) 58
      (.test (.pres 61) (.peek 61 (.read 60 (.ret 0))) (.ret 1)) [] := by
  have hs := shp P excl hE 58 _ (by decide) rfl
  refine cohM_test (TTab_ok P excl) inp (.s 0) 18 rankOf_lt 58 _ _ _ hs hi rfl rfl ?_
  intro _ hf
  have ht := feasibleM_pres_false inp hf
  simp only [evalShape, List.nil_append, List.cons_append]
  show leafGen P.base P.rest 58 0 [den P excl inp 61, den P excl inp 60] = leafGen P.base P.rest 58 1 []
  rw [den_61 P excl inp hE ht, den_else P excl inp 58 61 _ _ hs hi ht]
  simp only [evalShape, TTab_leaf, leafGen_58, leafGen_61, leaf_58, leaf_61, envOf, rd, List.getD_cons_zero, List.getD_cons_succ, core_unfold, Val.toS, Val.toV3, Val.toT33, Val.toT44, zero_mul, zero_div]

theorem den_60 (hE : ∀ k, coneKeys.contains k = true → excl.contains k = false) (hi : get? inp 60 = none)
    (h : get? inp 61 = none ∨ get? inp 58 = none) : den P excl inp 60 = .s 0 := by
  rw [den_unfold P excl inp 60 _ hi (shp P excl hE 60 (.test (.and (.pres 61) (.pres 58)) (.peek 61 (.peek 58 (.peek 58 (.ret 0)))) (.ret 1)) (by decide) rfl)]
  rcases h with h | h <;>
    simp only [evalShape, Guard.eval, contains, h, Option.isSome_none, Bool.false_and, Bool.and_false,
      Bool.false_eq_true, ↓reduceIte, TTab_leaf, leafGen_60, leaf_60, envOf, core_unfold]

/-- `eps`: `if 'rho' in self.data and 'rho0' in self.data: (rho - rho0) / rho0 else: 0` -/
theorem coh_60 (hE : ∀ k, coneKeys.contains k = true → excl.contains k = false) (hi : get? inp 60 = none) :
    CohM (TTab P excl) (den P excl inp) (fun k => (get? inp k).isSome = true) (den P excl inp 60) 60
      (.test (.and (.pres 61) (.pres 58)) (.peek 61 (.peek 58 (.peek 58 (.ret 0)))) (.ret 1)) [] := by
  have hs := shp P excl hE 60 (.test (.and (.pres 61) (.pres 58)) (.peek 61 (.peek 58 (.peek 58 (.ret 0)))) (.ret 1)) (by decide) rfl
  refine cohM_test (TTab_ok P excl) inp (.s 0) 18 rankOf_lt 60 _ _ _ hs hi rfl rfl ?_
  intro _ hf
  have hor := feasibleM_and_false inp hf
  have h60 := den_60 P excl inp hE hi hor
  simp only [evalShape, List.nil_append, List.cons_append, TTab_leaf]
  show leafGen P.base P.rest 60 0 [den P excl inp 61, den P excl inp 58, den P excl inp 58]
    = leafGen P.base P.rest 60 1 []
  cases h61 : get? inp 61 with
  | none =>
    rw [den_61 P excl inp hE h61, h60]
    simp only [leafGen_60, leafGen_61, leaf_60, leaf_61, envOf, rd, List.getD_cons_zero, List.getD_cons_succ, core_unfold, Val.toS, Val.toV3, Val.toT33, Val.toT44, add_zero, mul_one,
      sub_self, zero_div]
  | some r =>
    have h58 : get? inp 58 = none := by
      rcases hor with h | h
      · rw [h61] at h; cases h
      · exact h
    have hs58 := shp P excl hE 58 (.test (.pres 61) (.peek 61 (.read 60 (.ret 0))) (.ret 1)) (by decide) rfl
    have d58 : den P excl inp 58 = leafGen P.base P.rest 58 0 [den P excl inp 61, den P excl inp 60] := by
      rw [den_unfold P excl inp 58 _ h58 hs58]
      simp only [evalShape, Guard.eval, contains, h61, Option.isSome_some, ↓reduceIte, List.nil_append,
        List.cons_append, TTab_leaf]
    rw [d58, h60]
    simp only [leafGen_60, leafGen_58, leaf_60, leaf_58, envOf, rd, List.getD_cons_zero, List.getD_cons_succ, core_unfold, Val.toS, Val.toV3, Val.toT33, Val.toT44, add_zero, div_one,
      sub_self, zero_div]

/-- the guarded bodies whose coherence is NOT discharged here: `gdet` (33: needs the supplied metric pieces to be
consistent, and gamma symmetric — C08.gdet_coherent), `Ttrace` (82), `s_Ricci_down3` (116), `st_Riemann_down4` (120),
`Momentumup3` (152): algebraic, per-guard theorems in Props/C01Coherence*.lean; `st_Ricci_down4` (122),
`st_Ricci_down3` (123), `st_Weyl_down4` (133): coherent on solutions of Einstein's equations only. -/
def hardKeys : List Nat := [33, 82, 116, 120, 122, 123, 133, 152]

/-- branch coherence of the 8 remaining guarded bodies (the only hypothesis about bodies left for the full table). -/
def HardCoh : Prop :=
  ∀ k, hardKeys.contains k = true → ∀ sh, get? inp k = none → (TTab P excl).shape k = some sh →
    CohM (TTab P excl) (den P excl inp) (fun k => (get? inp k).isSome = true) (den P excl inp k) k sh []

/-- **H2 for the real table** from the coherence of the 8 `hardKeys` only: the 129 unguarded bodies are coherent
whatever their formulas, the 24 other guarded bodies by the generated formulas. -/
theorem tab_cohM (hE : ∀ k, coneKeys.contains k = true → excl.contains k = false) (hH : HardCoh P excl inp) :
    TableCohM (TTab P excl) (den P excl inp) (IsInput inp) := by
  refine tableCohM_of_guarded (TTab_ok P excl) inp (.s 0) 18 rankOf_lt ?_
  intro k sh hi hs hst
  have hso := TTab_shape_of P excl k sh hs
  have hg : guardedKeys.contains k = true := by
    cases h : guardedKeys.contains k with
    | true => rfl
    | false =>
      have := TTab_stable P excl sh (shapeOf_stable k sh hso h)
      rw [this] at hst; cases hst
  simp only [guardedKeys, List.contains_eq_mem, List.mem_cons, List.not_mem_nil, or_false, decide_eq_true_eq] at hg
  rcases hg with rfl | rfl | rfl | rfl | rfl | rfl | rfl | rfl | rfl | rfl | rfl | rfl | rfl | rfl | rfl | rfl | rfl | rfl | rfl | rfl | rfl | rfl | rfl | rfl | rfl | rfl | rfl | rfl | rfl | rfl | rfl | rfl
  · have h0 : shapeOf 3 = some (.test (.pres 6) (.read 6 (.ret 0)) (.ret 1)) := rfl
    rw [h0] at hso; cases hso; exact coh_3 P excl inp hE hi
  · have h0 : shapeOf 4 = some (.test (.pres 6) (.read 6 (.ret 0)) (.ret 1)) := rfl
    rw [h0] at hso; cases hso; exact coh_4 P excl inp hE hi
  · have h0 : shapeOf 5 = some (.test (.pres 6) (.read 6 (.ret 0)) (.ret 1)) := rfl
    rw [h0] at hso; cases hso; exact coh_5 P excl inp hE hi
  · have h0 : shapeOf 7 = some (.test (.pres 10) (.read 10 (.ret 0)) (.ret 1)) := rfl
    rw [h0] at hso; cases hso; exact coh_7 P excl inp hE hi
  · have h0 : shapeOf 8 = some (.test (.pres 10) (.read 10 (.ret 0)) (.ret 1)) := rfl
    rw [h0] at hso; cases hso; exact coh_8 P excl inp hE hi
  · have h0 : shapeOf 9 = some (.test (.pres 10) (.read 10 (.ret 0)) (.ret 1)) := rfl
    rw [h0] at hso; cases hso; exact coh_9 P excl inp hE hi
  · have h0 : shapeOf 15 = some (.test (.pres 21) (.read 21 (.ret 0)) (.ret 1)) := rfl
    rw [h0] at hso; cases hso; exact coh_15 P excl inp hE hi
  · have h0 : shapeOf 16 = some (.test (.pres 21) (.read 21 (.ret 0)) (.ret 1)) := rfl
    rw [h0] at hso; cases hso; exact coh_16 P excl inp hE hi
  · have h0 : shapeOf 17 = some (.test (.pres 21) (.read 21 (.ret 0)) (.ret 1)) := rfl
    rw [h0] at hso; cases hso; exact coh_17 P excl inp hE hi
  · have h0 : shapeOf 18 = some (.test (.pres 21) (.read 21 (.ret 0)) (.ret 1)) := rfl
    rw [h0] at hso; cases hso; exact coh_18 P excl inp hE hi
  · have h0 : shapeOf 19 = some (.test (.pres 21) (.read 21 (.ret 0)) (.ret 1)) := rfl
    rw [h0] at hso; cases hso; exact coh_19 P excl inp hE hi
  · have h0 : shapeOf 20 = some (.test (.pres 21) (.read 21 (.ret 0)) (.ret 1)) := rfl
    rw [h0] at hso; cases hso; exact coh_20 P excl inp hE hi
  · have h0 : shapeOf 27 = some (.test (.pres 31) (.read 31 (.ret 0)) (.read 0 (.read 12 (.ret 1)))) := rfl
    rw [h0] at hso; cases hso; exact coh_27 P excl inp hE hi
  · have h0 : shapeOf 28 = some (.test (.pres 31) (.read 31 (.ret 0)) (.read 11 (.ret 1))) := rfl
    rw [h0] at hso; cases hso; exact coh_28 P excl inp hE hi
  · have h0 : shapeOf 29 = some (.test (.pres 31) (.read 31 (.ret 0)) (.read 11 (.ret 1))) := rfl
    rw [h0] at hso; cases hso; exact coh_29 P excl inp hE hi
  · have h0 : shapeOf 30 = some (.test (.pres 31) (.read 31 (.ret 0)) (.read 11 (.ret 1))) := rfl
    rw [h0] at hso; cases hso; exact coh_30 P excl inp hE hi
  · exact hH 33 (by decide) sh hi hs
  · have h0 : shapeOf 40 = some (.test (.pres 46) (.read 46 (.ret 0)) (.ret 1)) := rfl
    rw [h0] at hso; cases hso; exact coh_40 P excl inp hE hi
  · have h0 : shapeOf 41 = some (.test (.pres 46) (.read 46 (.ret 0)) (.ret 1)) := rfl
    rw [h0] at hso; cases hso; exact coh_41 P excl inp hE hi
  · have h0 : shapeOf 42 = some (.test (.pres 46) (.read 46 (.ret 0)) (.ret 1)) := rfl
    rw [h0] at hso; cases hso; exact coh_42 P excl inp hE hi
  · have h0 : shapeOf 43 = some (.test (.pres 46) (.read 46 (.ret 0)) (.ret 1)) := rfl
    rw [h0] at hso; cases hso; exact coh_43 P excl inp hE hi
  · have h0 : shapeOf 44 = some (.test (.pres 46) (.read 46 (.ret 0)) (.ret 1)) := rfl
    rw [h0] at hso; cases hso; exact coh_44 P excl inp hE hi
  · have h0 : shapeOf 45 = some (.test (.pres 46) (.read 46 (.ret 0)) (.ret 1)) := rfl
    rw [h0] at hso; cases hso; exact coh_45 P excl inp hE hi
  · have h0 : shapeOf 58 = some (.test (.pres 61) (.peek 61 (.read 60 (.ret 0))) (.ret 1)) := rfl
    rw [h0] at hso; cases hso; exact coh_58 P excl inp hE hi
  · have h0 : shapeOf 60 = some (.test (.and (.pres 61) (.pres 58)) (.peek 61 (.peek 58 (.peek 58 (.ret 0)))) (.ret 1)) := rfl
    rw [h0] at hso; cases hso; exact coh_60 P excl inp hE hi
  · exact hH 82 (by decide) sh hi hs
  · exact hH 116 (by decide) sh hi hs
  · exact hH 120 (by decide) sh hi hs
  · exact hH 122 (by decide) sh hi hs
  · exact hH 123 (by decide) sh hi hs
  · exact hH 133 (by decide) sh hi hs
  · exact hH 152 (by decide) sh hi hs

end coh

/-! ### transparency -/

/-- **transparency of the full 161-key table**, denotation constructed; the only hypothesis about the bodies is the
coherence of the 8 `hardKeys`.  For every field `K`, every `Params` (in particular every operator `D`, every value
of the physical options, ARBITRARY formulas at the keys that are not generated), every input dictionary, every
admissible policy, every history. -/
theorem tab_transparent {σ σ' : Type} (P : Params K) (excl : List Nat) (inp : Dict Nat (Val K))
    (hE : ∀ k, coneKeys.contains k = true → excl.contains k = false) (hH : HardCoh P excl inp)
    (pol : Policy σ Nat (Val K)) (hpol : PolicyOK (IsInput inp) pol)
    (pol' : Policy σ' Nat (Val K)) (hpol' : PolicyOK (IsInput inp) pol')
    (s0 : σ) (s0' : σ') (fuel fuel' : Nat) (h : List (HOp Nat)) (k : Nat)
    (c : Cfg σ Nat (Val K)) (vs : List (Val K))
    (hrun : runHist (TTab P excl) pol fuel (s0, inp) (h ++ [.req k]) = .ok (c, vs))
    (c' : Cfg σ' Nat (Val K)) (v' : Val K) (hfresh : getF (TTab P excl) pol' fuel' (s0', inp) k = .ok (c', v')) :
    vs.getLast? = some v' ∧ v' = den P excl inp k :=
  C01.get_transparent_sharp (TTab P excl) inp (den P excl inp) (den_inputs P excl inp) (tab_cohM P excl inp hE hH)
    pol hpol pol' hpol' s0 s0' fuel fuel' h k c vs hrun c' v' hfresh

/-- the 37 names removed to obtain the 124-key sub-table: the 8 `hardKeys` and every key that (transitively) reads
one of them. -/
def excl124 : List Nat := [33, 82, 93, 116, 117, 119, 120, 121, 122, 123, 124, 125, 126, 133, 134, 135, 136, 137, 138, 139, 143, 144, 145, 146, 147, 148, 149, 150, 151, 152, 153, 155, 156, 157, 158, 159, 160]

def shapeReads : Shape Nat → List Nat
  | .ret _ => []
  | .fail => []
  | .read k n => k :: shapeReads n
  | .peek k n => k :: shapeReads n
  | .rep _ ks n => ks ++ shapeReads n
  | .test _ t e => shapeReads t ++ shapeReads e

/-- the 124-key sub-table is CLOSED UNDER READS (no body of it requests or peeks an excluded name), and has 124 keys. -/
theorem sub124_closed :
    shapes.all (fun p => excl124.contains p.1 || (shapeReads p.2).all (fun r => !excl124.contains r)) = true
    ∧ (shapes.filter (fun p => !excl124.contains p.1)).length = 124 := by
  decide +kernel

theorem excl124_cone : coneKeys.all (fun k => !excl124.contains k) = true := by decide +kernel
theorem excl124_hard : hardKeys.all (fun k => excl124.contains k) = true := by decide +kernel

theorem hE124 (k : Nat) (hk : coneKeys.contains k = true) : excl124.contains k = false := by
  have := List.all_eq_true.mp excl124_cone k (by simpa using hk)
  simpa using this

theorem hardCoh_124 (P : Params K) (inp : Dict Nat (Val K)) : HardCoh P excl124 inp := by
  intro k hk sh _ hs
  have := List.all_eq_true.mp excl124_hard k (by simpa using hk)
  simp only [TTab, this, ↓reduceIte] at hs
  cases hs

/-- **transparency of the real table restricted to 124 keys — NO hypothesis about the bodies.**  Shapes: generated
(`Gen.DepGraph`); return-site formulas: generated (`Gen.C01Table`, from the traced alternatives of core.py) wherever
they matter, arbitrary elsewhere; the sub-table is closed under reads (`sub124_closed`).  For every field, every
operator `D`, every option valuation, every input dictionary (any subset of names, any values, redundant or
mutually inconsistent ones included), every admissible eviction policy (the real clean-up is one:
`C01.real_cleanup_admissible`), every recursion budget, every history and final request: the value returned is the
value a fresh instance returns, and it is the constructed denotation. -/
theorem sub124_transparent {σ σ' : Type} (P : Params K) (inp : Dict Nat (Val K))
    (pol : Policy σ Nat (Val K)) (hpol : PolicyOK (IsInput inp) pol)
    (pol' : Policy σ' Nat (Val K)) (hpol' : PolicyOK (IsInput inp) pol')
    (s0 : σ) (s0' : σ') (fuel fuel' : Nat) (h : List (HOp Nat)) (k : Nat)
    (c : Cfg σ Nat (Val K)) (vs : List (Val K))
    (hrun : runHist (TTab P excl124) pol fuel (s0, inp) (h ++ [.req k]) = .ok (c, vs))
    (c' : Cfg σ' Nat (Val K)) (v' : Val K) (hfresh : getF (TTab P excl124) pol' fuel' (s0', inp) k = .ok (c', v')) :
    vs.getLast? = some v' ∧ v' = den P excl124 inp k :=
  tab_transparent P excl124 inp hE124 (hardCoh_124 P inp) pol hpol pol' hpol' s0 s0' fuel fuel' h k c vs hrun c' v' hfresh

/-- the sub-table cannot recurse without end nor raise KeyError (rank certificate). -/
theorem sub124_no_recursion {σ : Type} (P : Params K) (pol : Policy σ Nat (Val K)) (fuel : Nat)
    (c : Cfg σ Nat (Val K)) (k : Nat) (hk : 18 ≤ fuel) : getF (TTab P excl124) pol fuel c k ≠ .error .recursion :=
  getF_norec (TTab_ok P excl124) pol fuel c k (Nat.lt_of_lt_of_le (rankOf_lt k) hk)

/-! ### Non-vacuity -/

/-- after every store, and at every sweep, drop everything except the inputs and the entry just stored -/
def polAggr (inp : Dict Nat (Val K)) : Policy Unit Nat (Val K) :=
  { onHit := fun s _ => s
    onStore := fun s d k => (s, d.filter (fun kv => kv.1 == k || contains inp kv.1))
    onSweep := fun s d => (s, d.filter (fun kv => contains inp kv.1)) }

/-- no eviction at all -/
def polKeep : Policy Unit Nat (Val K) :=
  { onHit := fun s _ => s, onStore := fun s d _ => (s, d), onSweep := fun s d => (s, d) }

theorem polAggr_ok (inp : Dict Nat (Val K)) : PolicyOK (IsInput inp) (polAggr inp) :=
  ⟨fun _ d k => evictRel_filter _ (fun x => x == k || contains inp x) (fun k' h => by
      have : contains inp k' = true := h
      simp [this]) d,
   fun _ d => evictRel_filter _ (fun x => contains inp x) (fun k' h => h) d⟩

theorem polKeep_ok (inp : Dict Nat (Val K)) : PolicyOK (IsInput inp) (polKeep (K := K)) :=
  ⟨fun _ _ _ _ => Or.inl rfl, fun _ _ _ => Or.inl rfl⟩

/-- parameters of the example: `D = 0`, all options false, `rest` constant. -/
def PEx : Params ℚ := { base := Env.zero, rest := fun _ _ _ => .s 7, flag := fun _ => false, count := fun _ => 1 }

/-- inputs: lapse 2, the components `gxx = 2`, `gxy = 1`, `gyy = 3` (the others default), the shift as a VECTOR,
`rho0`, and a REDUNDANT `gtt` -/
def inpEx : Dict Nat (Val ℚ) :=
  [(0, .s 2), (15, .s 2), (16, .s 1), (18, .s 3), (6, .v3 (vec3 1 2 3)), (58, .s 5), (27, .s 9)]

/-- gdown4 (assembled; reads the supplied gtt), gtx through the cached gdown4, a sweep, gtx again through the other
alternative, Kup3, A2, rho, eps, betadown3 -/
def histEx : List (HOp Nat) :=
  [.req 31, .req 28, .sweep, .req 28, .req 47, .req 52, .req 61, .req 60, .req 11]

/-- the hypotheses `hrun`, `hfresh` of `sub124_transparent` are satisfiable: the history runs under the most
aggressive admissible policy, and so does a fresh instance. -/
example : (∃ c vs, runHist (TTab PEx excl124) (polAggr inpEx) 18 ((), inpEx) (histEx ++ [.req 30]) = .ok (c, vs))
    ∧ (∃ c v, getF (TTab PEx excl124) (polKeep (K := ℚ)) 18 ((), inpEx) 30 = .ok (c, v)) :=
  ⟨⟨_, _, rfl⟩, ⟨_, _, rfl⟩⟩

end AurelVerif.C01Tab
