/-
Props/C14b.lean — further property theorems for C14 (over_time), extending
Props/C14.lean.  ONLY property statements and non-vacuity examples; proofs in
Lemmas/C14FullRow.lean, C14Full.lean, C14Full2.lean, C14FullIndep.lean (T4b), C14Stale.lean (T4c),
C14Perm.lean (T1b, T3b).

* T4b  successive calls that pass estimates in every call — in particular the
       FULL estimates list in every call (the usage of the repository's tests):
       any cut of the variable requests into calls returns the single-call table
       as a Python dict (`DictEq`: same keys, same columns).  The ORDER of the
       estimate columns differs from the single call (`full_estimates_exact_is_false`).
       The feedback hypothesis is dependency-aware (`FeedbackDep`): a requested item
       may read the custom variables requested BEFORE it (instance `splitHypD_E2`);
       it follows from the plain hypothesis of T4 extended to estimate columns
       (`split_full_estimates_plain`, Lemmas/C14FullIndep.lean).
* T4c  the boundary: later calls never recompute a column
       (`later_calls_keep_columns`); without a feedback hypothesis the split theorem
       is false (`split_without_feedback_is_false`, witness = a custom variable that a
       built-in requested BEFORE it — computed by an EARLIER call — reads; replayed on
       the real code by tools/props/C14.py with a custom `press` after `press_n`).
* T1b  non-interference, strong form: one row function for all tables with the
       same column names (`one_row_function`, `step_noninterference`), for every
       environment — i.e. for every value of the AurelCore keyword options,
       `clear_cache_every_nbr_calc` included (`step_noninterference_any_kwargs`).
* T3b  the sort as one explicit permutation `σ` of the row indices applied to
       ALL columns (`columns_permuted_together`); input columns preserved cell by
       cell (`input_columns_preserved`).

NOT covered: request lists that name the same variable twice (in one call or in
two calls); sequences in which an estimator is passed only by calls that come
before the last call that adds a scalar variable (there the final table lacks
columns: `C14.split_any_order_is_false`); requests in which an item reads a custom
variable requested AFTER it (there the split differs from the single call:
`split_without_feedback_is_false`); T4b is up to column order, exact equality
(`C14.split_invariance`) is proven for consecutive splits under `FeedbackOK` only.
-/
import AurelVerif.Props.C14
import AurelVerif.Lemmas.C14Full2
import AurelVerif.Lemmas.C14FullIndep
import AurelVerif.Lemmas.C14Stale
import AurelVerif.Lemmas.C14Perm

namespace AurelVerif.C14
open AurelVerif.Table

variable {C : Type}

/-! ## T4b estimates passed in every call -/

/-- **T4b, general form.**  `ests` = the estimates of the single call.  Every call of the
sequence `pre ++ [last]` passes estimators of `ests` only (any sub-list, any order,
repeated or not) and the LAST call passes all of them; the variable requests are
distributed over the calls in any way (`vars` of the single call = their concatenation).
Then the sequence succeeds and returns the single-call table as a Python dict:
the same column names and, under each name, the same column (`DictEq`).

Hypotheses `SplitHypD` = those of `split_invariance` with
* `fb` (C01) in its dependency-aware form `FeedbackDep`, extended to estimate columns: hand
  the fresh `AurelCore` of a later call any variable columns AND estimate columns `k_e`
  computed earlier from the same step; if they include every CUSTOM variable requested
  BEFORE the item, the item evaluates to its single-call value `oneVal` (in the single call
  a custom function sees the customs requested before it, a built-in sees all customs).
  So items may READ custom variables requested before them (a custom `press` followed by
  built-ins that read it; custom functions that read other customs) — `split_invariance`
  (hypothesis `FeedbackOK`) does not allow that;
* `est_names`: one estimator name denotes one estimator throughout;
* `est_fresh`: no estimate column `k_e` is named like a variable the request computes;
* `est_inj`: `k + '_' + e` determines `k` and `e` among the scalar keys and estimators in play. -/
theorem split_last_call_has_all_estimates (E : Env C) {t : Table C} {n : Nat} {tk : Name}
    (pre : List (List Req × List Req)) (last : List Req × List Req) (ests : List Req)
    (H : SplitHypD E t n tk ((pre ++ [last]).flatMap (·.1)) ests)
    (hsub : ∀ c ∈ pre ++ [last], ∀ x ∈ allEsts E c.2, x ∈ allEsts E ests)
    (hlast : ∀ x ∈ allEsts E ests, x ∈ allEsts E last.2) :
    ∃ a b, runCalls E t (pre ++ [last]) = .ok a ∧
      overTime E t ((pre ++ [last]).flatMap (·.1)) ests = .ok b ∧ DictEq a b :=
  split_general_lemma E pre last ests H hsub hlast

/-- **T4b, every call passes the full estimates list.**  The variable requests `vs.flatten`
cut into any number ≥ 1 of successive calls `vs`, each call passing the complete
estimates list `ests`: the final table is the single-call table as a Python dict. -/
theorem split_full_estimates (E : Env C) {t : Table C} {n : Nat} {tk : Name}
    (vs : List (List Req)) (hne : vs ≠ []) (ests : List Req)
    (H : SplitHypD E t n tk vs.flatten ests) :
    ∃ a b, runCalls E t (vs.map (fun v => (v, ests))) = .ok a ∧
      overTime E t vs.flatten ests = .ok b ∧ DictEq a b :=
  split_full_estimates_lemma E vs hne ests H

/-- **T4b under the plain feedback hypothesis.**  The hypotheses of `split_invariance` (`SplitHyp`,
with `FeedbackOK`: no item reads a computed column), the feedback hypothesis extended to
estimate columns (`FeedbackOKE`) and the three conditions on the estimate column names
imply `SplitHypD`: T4b applies wherever T4 does. -/
theorem split_full_estimates_plain (E : Env C) {t : Table C} {n : Nat} {tk : Name}
    (vs : List (List Req)) (hne : vs ≠ []) (ests : List Req) (H : SplitHyp E t n tk vs.flatten ests)
    (fbE : ∀ r ∈ rowsOf t n, FeedbackOKE E (cleanVars E t vs.flatten) (allEsts E ests) (callSk E t vs.flatten) r)
    (est_names : ∀ e ∈ allEsts E ests, ∀ e' ∈ allEsts E ests, e.key = e'.key → e = e')
    (est_fresh : ∀ e ∈ allEsts E ests, ∀ s ∈ callSk E t vs.flatten,
      estKey s e.key ∉ (cleanVars E t vs.flatten).map CReq.key)
    (est_inj : ∀ e ∈ allEsts E ests, ∀ e' ∈ allEsts E ests, ∀ s ∈ callSk E t vs.flatten,
      ∀ s' ∈ callSk E t vs.flatten, estKey s e.key = estKey s' e'.key → s = s' ∧ e.key = e'.key) :
    ∃ a b, runCalls E t (vs.map (fun v => (v, ests))) = .ok a ∧
      overTime E t vs.flatten ests = .ok b ∧ DictEq a b :=
  split_full_estimates_lemma E vs hne ests
    (SplitHypD.of_plain H.wf H.pos H.tk H.sw H.nodup H.notemp fbE H.rank_t H.rank_v H.rank_e
      est_names est_fresh est_inj)

/-- `split_full_estimates_plain` on the instance of `split_invariance` (`splitHyp_t1`): a call
without variables, then the variable, both with the estimates list -/
example : ∃ a b, runCalls E1 t1 [([], [.name "max"]), ([.name "K"], [.name "max"])] = .ok a ∧
    overTime E1 t1 [.name "K"] [.name "max"] = .ok b ∧ DictEq a b := by
  have hcl : cleanVars E1 t1 [.name "K"] = [.name "K"] := by decide +kernel
  have hae : allEsts E1 [.name "max"] = [.name "max"] := by decide +kernel
  have hsk : callSk E1 t1 [.name "K"] = ["a", "K"] := by decide +kernel
  refine split_full_estimates_plain E1 [[], [.name "K"]] (by simp) [.name "max"] splitHyp_t1 ?_ ?_ ?_ ?_
  · intro r hr x _ c hc
    have hc' : c ∈ cleanVars E1 t1 [.name "K"] := hc
    rw [hcl] at hc'
    simp only [List.mem_singleton] at hc'
    subst hc'
    have ha : "a" ∈ keys r := by
      rw [rows_t1] at hr
      simp only [List.mem_cons, List.mem_nil_iff, or_false] at hr
      rcases hr with rfl | rfl | rfl <;> decide
    simp only [CReq.val, E1, get?_append_left ha]
  · rw [hae]; decide
  · have h : ∀ e ∈ [CReq.name "max"], ∀ s ∈ ["a", "K"], estKey s e.key ∉ [CReq.name "K"].map CReq.key := by
      decide +kernel
    intro e he s hs
    have hs' : s ∈ callSk E1 t1 [.name "K"] := hs
    have hcl' : (cleanVars E1 t1 [[], [Req.name "K"]].flatten) = [.name "K"] := hcl
    rw [hcl']
    rw [hae] at he
    rw [hsk] at hs'
    exact h e he s hs'
  · have h : ∀ e ∈ [CReq.name "max"], ∀ e' ∈ [CReq.name "max"], ∀ s ∈ ["a", "K"], ∀ s' ∈ ["a", "K"],
        estKey s e.key = estKey s' e'.key → s = s' ∧ e.key = e'.key := by decide +kernel
    intro e he e' he' s hs s' hs'
    have hs1 : s ∈ callSk E1 t1 [.name "K"] := hs
    have hs2 : s' ∈ callSk E1 t1 [.name "K"] := hs'
    rw [hae] at he he'
    rw [hsk] at hs1 hs2
    exact h e he e' he' s hs1 s' hs2

/-- the hypotheses of T4b are satisfiable: a built-in, a custom variable and an estimator
on the three-step table `t1` -/
theorem splitHypD_t1 : SplitHypD E1 t1 3 "it" [.name "K", .dict [("c", "f")]] [.name "max"] := by
  have hcl : cleanVars E1 t1 [.name "K", .dict [("c", "f")]] = [.name "K", .fn "c" "f"] := by decide +kernel
  have hae : allEsts E1 [.name "max"] = [.name "max"] := by decide +kernel
  have hsk : callSk E1 t1 [.name "K", .dict [("c", "f")]] = ["a", "K", "c"] := by decide +kernel
  refine ⟨wf_t1, by decide, by decide +kernel, sw_E1, by decide, by decide, ?_, ?_, ?_, ?_, ?_, ?_, ?_⟩
  · intro r hr pre c post hit x _ _
    have hc : c ∈ cleanVars E1 t1 [.name "K", .dict [("c", "f")]] := by rw [hit]; simp
    rw [hcl] at hc ⊢
    have ha : "a" ∈ keys r := by
      rw [rows_t1] at hr
      simp only [List.mem_cons, List.mem_nil_iff, or_false] at hr
      rcases hr with rfl | rfl | rfl <;> decide
    rw [rows_t1] at hr
    simp only [List.mem_cons, List.mem_nil_iff, or_false] at hr hc
    rcases hc with rfl | rfl <;> rcases hr with rfl | rfl | rfl <;>
      (simp only [CReq.val, E1, get?_append_left ha]; decide +kernel)
  · intro kc hkc c hc c' hc'
    simp only [t1, List.mem_cons, List.mem_nil_iff, or_false] at hkc
    rcases hkc with rfl | rfl <;>
      (simp only [List.mem_cons, List.mem_nil_iff, or_false] at hc hc'
       rcases hc with rfl | rfl | rfl <;> rcases hc' with rfl | rfl | rfl <;> rfl)
  · intro r hr r' hr' c hc
    rw [hcl] at hc ⊢
    rw [rows_t1] at hr hr'
    simp only [List.mem_cons, List.mem_nil_iff, or_false] at hr hr' hc
    rcases hc with rfl | rfl <;> rcases hr with rfl | rfl | rfl <;> rcases hr' with rfl | rfl | rfl <;>
      decide +kernel
  · intro e he c
    rw [hae] at he
    simp only [List.mem_singleton] at he
    subst he
    simp only [estApply, E1, decide_eq_false_iff_not]
    omega
  · rw [hae]; decide
  · rw [hae, hsk, hcl]; decide +kernel
  · rw [hae, hsk]; decide +kernel

/-- T4b on the instance: two calls, each with the full estimates list -/
example : ∃ a b, runCalls E1 t1 [([.name "K"], [.name "max"]), ([.dict [("c", "f")]], [.name "max"])] = .ok a ∧
    overTime E1 t1 [.name "K", .dict [("c", "f")]] [.name "max"] = .ok b ∧ DictEq a b :=
  split_full_estimates E1 [[.name "K"], [.dict [("c", "f")]]] (by simp) [.name "max"] splitHypD_t1

/-- the statement of T4b with `=` (column order included) instead of `DictEq` -/
def SplitFullEstimatesExact : Prop :=
  ∀ (E : Env Nat) (t : Table Nat) (n : Nat) (tk : Name) (vs : List (List Req)) (ests : List Req),
    vs ≠ [] → SplitHypD E t n tk vs.flatten ests →
    runCalls E t (vs.map (fun v => (v, ests))) = overTime E t vs.flatten ests

/-- **T4b with column order is false**: the estimate columns of the variables of an earlier
call come BEFORE the variables of a later call (`…, K, a_max, K_max, c, c_max` against
`…, K, c, a_max, K_max, c_max`); the correspondence of tools/props/C14.py compares the
column order of the real code with the model in both cases. -/
theorem full_estimates_exact_is_false : ¬ SplitFullEstimatesExact := by
  intro h
  have := h E1 t1 3 "it" [[.name "K"], [.dict [("c", "f")]]] [.name "max"] (by simp) splitHypD_t1
  have ha : runCalls E1 t1 ([[Req.name "K"], [Req.dict [("c", "f")]]].map (fun v => (v, [Req.name "max"])))
      = .ok [("it", [0, 1, 2]), ("a", [10, 11, 12]), ("K", [110, 111, 112]), ("a_max", [1010, 1011, 1012]),
          ("K_max", [1110, 1111, 1112]), ("c", [210, 211, 212]), ("c_max", [1210, 1211, 1212])] := by
    decide +kernel
  have hb : overTime E1 t1 [[Req.name "K"], [Req.dict [("c", "f")]]].flatten [.name "max"]
      = .ok [("it", [0, 1, 2]), ("a", [10, 11, 12]), ("K", [110, 111, 112]), ("c", [210, 211, 212]),
          ("a_max", [1010, 1011, 1012]), ("K_max", [1110, 1111, 1112]), ("c_max", [1210, 1211, 1212])] := by
    decide +kernel
  rw [ha, hb] at this
  revert this
  decide +kernel

/-! ## T4c outside the feedback hypothesis -/

/-- **T4c, columns are never recomputed.**  `t` any table (any row order), `c` a call that
computes something, `rest` ANY later calls (no feedback hypothesis, no hypothesis on the
names except that no requested variable is called `it`, `iteration`, `t`, `time`): the
final table contains every column of the table `T1` returned by `c`, cell by cell.  So a
column computed by an earlier call is what `per_step` says of THAT call — computed from
the dictionary the step had then; a custom variable defined by a later call, which the
single call would have fed into it, does not reach it. -/
theorem later_calls_keep_columns (E : Env C) {t : Table C} {n : Nat} {tk : Name} (hwf : WF t n)
    (hn : 0 < n) (htk : temporalKey t = some tk) (hsw : StrictWeak E.lt)
    (c : List Req × List Req) (rest : List (List Req × List Req)) (hp : Processes E t c.1 c.2)
    (hnt : ∀ c' ∈ c :: rest, ∀ x ∈ reqKeys c'.1, x ∉ temporalNames) :
    ∃ T1 out, overTime E t c.1 c.2 = .ok T1 ∧ runCalls E t (c :: rest) = .ok out ∧
      ∀ k col, get? k T1 = some col → get? k out = some col :=
  later_calls_keep_columns_lemma E hwf hn htk hsw c rest hp hnt

/-- `K = 100 + a + p` where `p` is 0 unless the dictionary holds a value `p`;
the custom function `f` returns `7 + a` -/
def E2 : Env Nat where
  isDescr := fun n => n == "K"
  isEstFn := fun e => e == "max"
  validVar := fun _ => true
  validEst := fun _ => true
  comp := fun rd _ => 100 + (get? "a" rd).getD 0 + (get? "p" rd).getD 0
  cust := fun _ rd => 7 + (get? "a" rd).getD 0
  estB := fun _ c => 1000 + c
  estC := fun _ c => 2000 + c
  is3 := fun c => decide (10 ≤ c ∧ c < 1000)
  lt := fun a b => decide (a < b)

/-- the statement of `split_invariance` without the feedback hypothesis, up to column order -/
def SplitNoFeedbackFull : Prop :=
  ∀ (E : Env Nat) (t : Table Nat) (n : Nat) (tk : Name) (calls : List (List Req × List Req)),
    Consecutive calls → SplitHypNoFb E t n tk (calls.flatMap (·.1)) (calls.flatMap (·.2)) →
    ∃ a b, runCalls E t calls = .ok a ∧
      overTime E t (calls.flatMap (·.1)) (calls.flatMap (·.2)) = .ok b ∧ ∀ k, get? k a = get? k b

theorem splitHypNoFb_E2 : SplitHypNoFb E2 t1 3 "it" [.name "K", .dict [("p", "f")]] [] := by
  have hcl : cleanVars E2 t1 [.name "K", .dict [("p", "f")]] = [.name "K", .fn "p" "f"] := by decide +kernel
  refine ⟨wf_t1, by decide, by decide +kernel,
    ⟨fun a b h => by simp [E2] at h ⊢; omega, fun a b c h1 h2 => by simp [E2] at h1 h2 ⊢; omega⟩,
    by decide, by decide, ?_, ?_, ?_⟩
  · intro kc hkc c hc c' hc'
    simp only [t1, List.mem_cons, List.mem_nil_iff, or_false] at hkc
    rcases hkc with rfl | rfl <;>
      (simp only [List.mem_cons, List.mem_nil_iff, or_false] at hc hc'
       rcases hc with rfl | rfl | rfl <;> rcases hc' with rfl | rfl | rfl <;> rfl)
  · intro r hr r' hr' c hc
    rw [hcl] at hc
    rw [rows_t1] at hr hr'
    simp only [List.mem_cons, List.mem_nil_iff, or_false] at hr hr' hc
    rcases hc with rfl | rfl <;> rcases hr with rfl | rfl | rfl <;> rcases hr' with rfl | rfl | rfl <;> rfl
  · intro e he
    simp [allEsts] at he

/-- **T4 without the feedback hypothesis is false**: a custom variable `p` requested in a
LATER call than the built-in `K` that reads it.  The single call evaluates the custom
first and computes `K` from it (`K = 127, 129, 131`); the split computes `K` without it
and never recomputes it (`K = 110, 111, 112`).  Replayed on the real code by
tools/props/C14.py (`press_n` then a custom `press`). -/
theorem split_without_feedback_is_false : ¬ SplitNoFeedbackFull := by
  intro h
  obtain ⟨a, b, h1, h2, h3⟩ := h E2 t1 3 "it" [([.name "K"], []), ([.dict [("p", "f")]], [])]
    (by simp [Consecutive]) splitHypNoFb_E2
  have ha : runCalls E2 t1 [([.name "K"], []), ([.dict [("p", "f")]], [])]
      = .ok [("it", [0, 1, 2]), ("a", [10, 11, 12]), ("K", [110, 111, 112]), ("p", [17, 18, 19])] := by
    decide +kernel
  have hb : overTime E2 t1 [.name "K", .dict [("p", "f")]] []
      = .ok [("it", [0, 1, 2]), ("a", [10, 11, 12]), ("K", [127, 129, 131]), ("p", [17, 18, 19])] := by
    decide +kernel
  have h2 : overTime E2 t1 [.name "K", .dict [("p", "f")]] [] = .ok b := h2
  rw [ha] at h1
  rw [hb] at h2
  cases h1; cases h2
  have := h3 "K"
  revert this
  decide +kernel

/-- the hypotheses of T4b hold for the environment `E2` when the custom `p` is requested BEFORE the
built-in `K` that reads it (a non-trivial instance of `FeedbackDep`: `K` depends on `p`) -/
theorem splitHypD_E2 : SplitHypD E2 t1 3 "it" [.dict [("p", "f")], .name "K"] [.name "max"] := by
  have hcl : cleanVars E2 t1 [.dict [("p", "f")], .name "K"] = [.fn "p" "f", .name "K"] := by decide +kernel
  have hae : allEsts E2 [.name "max"] = [.name "max"] := by decide +kernel
  have hsk : callSk E2 t1 [.dict [("p", "f")], .name "K"] = ["a", "p", "K"] := by decide +kernel
  refine ⟨wf_t1, by decide, by decide +kernel,
    ⟨fun a b h => by simp [E2] at h ⊢; omega, fun a b c h1 h2 => by simp [E2] at h1 h2 ⊢; omega⟩,
    by decide, by decide, ?_, ?_, ?_, ?_, ?_, ?_, ?_⟩
  · intro r hr pre c post hit x _ hpre
    rw [hcl] at hit hpre ⊢
    have ha : "a" ∈ keys r := by
      rw [rows_t1] at hr
      simp only [List.mem_cons, List.mem_nil_iff, or_false] at hr
      rcases hr with rfl | rfl | rfl <;> decide
    rw [rows_t1] at hr
    simp only [List.mem_cons, List.mem_nil_iff, or_false] at hr
    rcases pre with _ | ⟨a0, pre⟩
    · simp only [List.nil_append, List.cons.injEq] at hit
      obtain ⟨rfl, _⟩ := hit
      rcases hr with rfl | rfl | rfl <;>
        (simp only [CReq.val, E2, get?_append_left ha]; decide +kernel)
    · rcases pre with _ | ⟨b0, pre⟩
      · simp only [List.cons_append, List.nil_append, List.cons.injEq] at hit
        obtain ⟨rfl, rfl, _⟩ := hit
        have hp := hpre (.fn "p" "f") (by simp) rfl
        simp only [CReq.key] at hp
        rcases hr with rfl | rfl | rfl <;>
          (simp only [CReq.val, E2, get?_append_left ha, hp]; decide +kernel)
      · simp at hit
  · intro kc hkc c hc c' hc'
    simp only [t1, List.mem_cons, List.mem_nil_iff, or_false] at hkc
    rcases hkc with rfl | rfl <;>
      (simp only [List.mem_cons, List.mem_nil_iff, or_false] at hc hc'
       rcases hc with rfl | rfl | rfl <;> rcases hc' with rfl | rfl | rfl <;> rfl)
  · intro r hr r' hr' c hc
    rw [hcl] at hc ⊢
    rw [rows_t1] at hr hr'
    simp only [List.mem_cons, List.mem_nil_iff, or_false] at hr hr' hc
    rcases hc with rfl | rfl <;> rcases hr with rfl | rfl | rfl <;> rcases hr' with rfl | rfl | rfl <;>
      decide +kernel
  · intro e he c
    rw [hae] at he
    simp only [List.mem_singleton] at he
    subst he
    simp only [estApply, E2, decide_eq_false_iff_not]
    omega
  · rw [hae]; decide
  · rw [hae, hsk, hcl]; decide +kernel
  · rw [hae, hsk]; decide +kernel

/-- T4b on `E2`: the custom `p` in the first call, the built-in `K` that READS it in the second
call, the full estimates list in both — the single-call table (`K = 127, 129, 131`) -/
example : ∃ a b, runCalls E2 t1 [([.dict [("p", "f")]], [.name "max"]), ([.name "K"], [.name "max"])] = .ok a ∧
    overTime E2 t1 [.dict [("p", "f")], .name "K"] [.name "max"] = .ok b ∧ DictEq a b ∧
    get? "K" b = some [127, 129, 131] := by
  obtain ⟨a, b, h1, h2, h3⟩ :=
    split_full_estimates E2 [[.dict [("p", "f")]], [.name "K"]] (by simp) [.name "max"] splitHypD_E2
  refine ⟨a, b, h1, h2, h3, ?_⟩
  have hb : overTime E2 t1 [.dict [("p", "f")], .name "K"] [.name "max"]
      = .ok [("it", [0, 1, 2]), ("a", [10, 11, 12]), ("p", [17, 18, 19]), ("K", [127, 129, 131]),
          ("a_max", [1010, 1011, 1012]), ("p_max", [1017, 1018, 1019]), ("K_max", [1127, 1129, 1131])] := by
    decide +kernel
  have h2' : overTime E2 t1 [.dict [("p", "f")], .name "K"] [.name "max"] = .ok b := h2
  rw [hb] at h2'
  cases h2'
  decide +kernel

/-- the other order — the custom first, the built-in that reads it in a later call — is
the single-call table on the witness (the custom column is fed back as a frozen input) -/
example : runCalls E2 t1 [([.dict [("p", "f")]], []), ([.name "K"], [])]
    = .ok [("it", [0, 1, 2]), ("a", [10, 11, 12]), ("p", [17, 18, 19]), ("K", [127, 129, 131])] := by
  decide +kernel

/-- `later_calls_keep_columns` on the witness: the column `K` of the first call survives -/
example : ∃ T1 out, overTime E2 t1 [.name "K"] [] = .ok T1 ∧
    runCalls E2 t1 [([.name "K"], []), ([.dict [("p", "f")]], [])] = .ok out ∧
    ∀ k col, get? k T1 = some col → get? k out = some col :=
  later_calls_keep_columns E2 wf_t1 (by decide) (tk := "it") (by decide +kernel)
    ⟨fun a b h => by simp [E2] at h ⊢; omega, fun a b c h1 h2 => by simp [E2] at h1 h2 ⊢; omega⟩
    ([.name "K"], []) [([.dict [("p", "f")]], [])] (by decide +kernel) (by decide)

/-! ## T1b non-interference, strong form -/

/-- **T1b, one row function.**  Two tables with the same column names and the same list of
scalar keys (`callSk`: which columns hold 3-D arrays, decided by the code on the first
row only) are processed by ONE function `F` of a single row: each output is the column
view of its own sorted rows mapped by `F`.  The complete output row of a step — input
cells, variables, estimates — is `F` of that step's input dictionary alone: the other
steps, their number and the position of the step do not occur. -/
theorem one_row_function (E : Env C) {t t' : Table C} {n n' : Nat} {tk : Name}
    (hwf : WF t n) (hn : 0 < n) (htk : temporalKey t = some tk)
    (hwf' : WF t' n') (hn' : 0 < n') (htk' : temporalKey t' = some tk) (hkeys : keys t = keys t')
    {vars ests : List Req} (hsk : callSk E t vars = callSk E t' vars) (hp : Processes E t vars ests) :
    Processes E t' vars ests ∧
    ∃ F : Row C → Row C,
      overTime E t vars ests = .ok (colsOf ((sortP E tk (rowsOf t n)).map F)) ∧
      overTime E t' vars ests = .ok (colsOf ((sortP E tk (rowsOf t' n')).map F)) :=
  one_row_function_lemma E hwf hn htk hwf' hn' htk' hkeys hsk hp

/-- **T1b, changing the other steps.**  If step `p` of `t` and step `p'` of `t'` have the same
input dictionary — all other steps of the two tables arbitrary (other inputs, other
temporal cells, other number of steps) — then the two results hold the same complete row
for it (`rowAt out i = rowAt out' j`), `i` and `j` being the positions where the step
lands after sorting. -/
theorem step_noninterference (E : Env C) {t t' : Table C} {n n' : Nat} {tk : Name}
    (hwf : WF t n) (hn : 0 < n) (htk : temporalKey t = some tk)
    (hwf' : WF t' n') (hn' : 0 < n') (htk' : temporalKey t' = some tk) (hkeys : keys t = keys t')
    {vars ests : List Req} (hsk : callSk E t vars = callSk E t' vars) (hp : Processes E t vars ests)
    {p p' : Nat} (hpn : p < n) (hpn' : p' < n') (hrow : rowAt t p = rowAt t' p') :
    ∃ out out', overTime E t vars ests = .ok out ∧ overTime E t' vars ests = .ok out' ∧
      ∃ i j, i < n ∧ j < n' ∧
        (sortP E tk (rowsOf t n))[i]? = some (rowAt t p) ∧
        (sortP E tk (rowsOf t' n'))[j]? = some (rowAt t' p') ∧
        rowAt out i = callF E t vars ests (rowAt t p) ∧ rowAt out' j = callF E t vars ests (rowAt t p) :=
  step_noninterference_lemma E hwf hn htk hwf' hn' htk' hkeys hsk hp hpn hpn' hrow

/-- **T1b for any keyword options.**  Everything `over_time` passes through to the per-step
`AurelCore` (`**rel_kwargs`: `Lambda`, `clear_cache_every_nbr_calc`, the memory threshold, …)
is a parameter `kw` of the environment; non-interference holds for every value of it. -/
theorem step_noninterference_any_kwargs {K : Type} (Ek : K → Env C) (kw : K)
    {t t' : Table C} {n n' : Nat} {tk : Name}
    (hwf : WF t n) (hn : 0 < n) (htk : temporalKey t = some tk)
    (hwf' : WF t' n') (hn' : 0 < n') (htk' : temporalKey t' = some tk) (hkeys : keys t = keys t')
    {vars ests : List Req} (hsk : callSk (Ek kw) t vars = callSk (Ek kw) t' vars)
    (hp : Processes (Ek kw) t vars ests)
    {p p' : Nat} (hpn : p < n) (hpn' : p' < n') (hrow : rowAt t p = rowAt t' p') :
    ∃ out out', overTime (Ek kw) t vars ests = .ok out ∧ overTime (Ek kw) t' vars ests = .ok out' ∧
      ∃ i j, i < n ∧ j < n' ∧ rowAt out i = rowAt out' j ∧
        (sortP (Ek kw) tk (rowsOf t n))[i]? = some (rowAt t p) ∧
        (sortP (Ek kw) tk (rowsOf t' n'))[j]? = some (rowAt t' p') := by
  obtain ⟨out, out', h1, h2, i, j, hi, hj, h3, h4, h5, h6⟩ :=
    step_noninterference_lemma (Ek kw) hwf hn htk hwf' hn' htk' hkeys hsk hp hpn hpn' hrow
  exact ⟨out, out', h1, h2, i, j, hi, hj, h5.trans h6.symm, h3, h4⟩

/-- a second table: the step `it = 1, a = 11` of `t1` at another position, among other steps -/
def t1' : Table Nat := [("it", [1, 7, 5, 3]), ("a", [11, 20, 30, 40])]

theorem wf_t1' : WF t1' 4 := ⟨by decide, by intro kc h; simp [t1'] at h; rcases h with rfl | rfl <;> rfl⟩

/-- `step_noninterference` on the instance: step 2 of `t1` = step 0 of `t1'` -/
example : ∃ out out', overTime E1 t1 [.name "K"] [.name "max"] = .ok out ∧
    overTime E1 t1' [.name "K"] [.name "max"] = .ok out' ∧
    ∃ i j, i < 3 ∧ j < 4 ∧
      (sortP E1 "it" (rowsOf t1 3))[i]? = some (rowAt t1 2) ∧
      (sortP E1 "it" (rowsOf t1' 4))[j]? = some (rowAt t1' 0) ∧
      rowAt out i = callF E1 t1 [.name "K"] [.name "max"] (rowAt t1 2) ∧
      rowAt out' j = callF E1 t1 [.name "K"] [.name "max"] (rowAt t1 2) :=
  step_noninterference E1 wf_t1 (by decide) (tk := "it") (by decide +kernel) wf_t1' (by decide)
    (by decide +kernel) (by decide) (by decide +kernel) (by decide +kernel) (by decide) (by decide)
    (by decide +kernel)

/-- the hypothesis on the scalar keys cannot be dropped IN THE MODEL: they are decided on the
first row, so a first row whose cell `a` is not a 3-D array takes the column `a_max` away
from every step (outside the property's domain: a column whose cells differ in rank; the
real code cannot even convert such a column to an array) -/
example : rowAt ([("it", [0, 1]), ("a", [12, 5])] : Table Nat) 1 = rowAt ([("it", [0, 1]), ("a", [5, 5])] : Table Nat) 1
    ∧ overTime E1 [("it", [0, 1]), ("a", [12, 5])] [.name "K"] [.name "max"]
      = .ok [("it", [0, 1]), ("a", [12, 5]), ("K", [112, 105]), ("a_max", [1012, 1005]), ("K_max", [1112, 1105])]
    ∧ overTime E1 [("it", [0, 1]), ("a", [5, 5])] [.name "K"] [.name "max"]
      = .ok [("it", [0, 1]), ("a", [5, 5]), ("K", [105, 105]), ("K_max", [1105, 1105])] := by
  decide +kernel

/-! ## T3b one permutation for all columns -/

/-- **T3b, all columns permuted together.**  When the call computes something there is ONE
list `σ` — a permutation of the row indices `0 … n-1`, stable with respect to `<` on the
temporal cells — such that the output is the column view of the input rows
`σ[0], σ[1], …`, each processed on its own; every input column AND every requested
variable comes out in the order `σ`; the temporal column comes out sorted. -/
theorem columns_permuted_together (E : Env C) {t : Table C} {n : Nat} {tk : Name} (hwf : WF t n) (hn : 0 < n)
    (htk : temporalKey t = some tk) (hsw : StrictWeak E.lt) {vars ests : List Req}
    (hp : Processes E t vars ests) :
    ∃ out σ,
      overTime E t vars ests = .ok out ∧
      σ.Perm (List.range n) ∧
      (∀ i j, i < j → j < n →
        (∀ ci cj, get? tk (rowAt t i) = some ci → get? tk (rowAt t j) = some cj → E.lt cj ci = false) →
        [i, j].Sublist σ) ∧
      out = colsOf (σ.map (fun i => callF E t vars ests (rowAt t i))) ∧
      (∀ k col, get? k t = some col →
        ∃ oc, get? k out = some oc ∧ oc.map some = σ.map (fun i => col[i]?) ∧ oc.Perm col) ∧
      (∀ v ∈ cleanVars E t vars,
        get? v.key out = some (σ.map (fun i => relGet E (relData E (cleanVars E t vars) (rowAt t i)) v.key))) ∧
      (∃ oc, get? tk out = some oc ∧ Sorted E.lt oc) :=
  permuted_together_lemma E hwf hn htk hsw hp

/-- **T3b, input columns are preserved.**  Every column of the input table is a column of
the output, under the same name, holding the same cells: a permutation of the input
column, cell `j` of the output being cell `σ[j]` of the input for one `σ` common to all
columns. -/
theorem input_columns_preserved (E : Env C) {t : Table C} {n : Nat} {tk : Name} (hwf : WF t n) (hn : 0 < n)
    (htk : temporalKey t = some tk) (hsw : StrictWeak E.lt) {vars ests : List Req}
    (hp : Processes E t vars ests) :
    ∃ out, ∃ σ : List Nat, overTime E t vars ests = .ok out ∧ σ.Perm (List.range n) ∧
      ∀ k col, get? k t = some col →
        ∃ oc, get? k out = some oc ∧ oc.map some = σ.map (fun i => col[i]?) ∧ oc.Perm col := by
  obtain ⟨out, σ, h1, h2, _, _, h5, _⟩ := permuted_together_lemma E hwf hn htk hsw hp
  exact ⟨out, σ, h1, h2, h5⟩

/-- when the call computes nothing the input is returned as it is (`C14.nothing_new_returns_input`):
input columns are preserved in every case -/
theorem input_columns_preserved_always (E : Env C) {t : Table C} {n : Nat} {tk : Name} (hwf : WF t n)
    (hn : 0 < n) (htk : temporalKey t = some tk) (hsw : StrictWeak E.lt) (vars ests : List Req) :
    ∃ out, overTime E t vars ests = .ok out ∧
      ∀ k col, get? k t = some col → ∃ oc, get? k out = some oc ∧ oc.Perm col := by
  by_cases hp : Processes E t vars ests
  · obtain ⟨out, σ, h1, _, h3⟩ := input_columns_preserved E hwf hn htk hsw hp
    refine ⟨out, h1, fun k col hk => ?_⟩
    obtain ⟨oc, h4, _, h5⟩ := h3 k col hk
    exact ⟨oc, h4, h5⟩
  · exact ⟨t, nothing_new_returns_input E hwf hn htk hp, fun k col hk => ⟨col, hk, List.Perm.refl _⟩⟩

/-- `columns_permuted_together` on the instance: `σ = [1, 2, 0]` -/
example : sortIdx E1 "it" t1 3 = [1, 2, 0] ∧
    overTime E1 t1 [.name "K"] [.name "max"]
      = .ok (colsOf ([1, 2, 0].map (fun i => callF E1 t1 [.name "K"] [.name "max"] (rowAt t1 i)))) := by
  decide +kernel

end AurelVerif.C14
