/-
Props/C11c.lean — C11, checkpoint reading path (`usecheckpoints=True`).  ONLY
property statements and non-vacuity examples; proofs in
Lemmas/C11Checkpoint*.lean.  Model: Model/Checkpoint.lean (`read_ET_checkpoints`,
tied to the code by the `ckpt` correspondence of tools/props/C11.py through real
HDF5 checkpoint files) + Model/Restarts.lean (`read_ET_data` around it).
Well-formedness of checkpoint files: Spec/CheckpointSpec.lean.

  `checkpoint_file_selection`  what is read from one well-formed file (3 layouts)
  `checkpoint_it_exact`        T4 for checkpoints: one iteration, every requested variable:
                               the stored interior grid in (x, y, z) order and the stored time
  `checkpoint_it_auto_exact`   the same with `cmax` found from the files of the iteration (/repo bd9646b)
  `checkpoint_table_exact`     all requested iterations, ANY layout per iteration, ANY request list (a name twice, `gxx`
                               next to `gammadown3`, `alp` next to `alpha`: read once, /repo a25772a):
                               `data['it']`, `data['t']` and every variable column, exactly one entry
                               per iteration, in order
  `checkpoint_pipeline_exact`  `read_ET_data(usecheckpoints=True)`: several restarts with
                               overlapping checkpoint lists, any request: rows from the latest
                               restart holding the checkpoint, aligned
  `checkpoint_duplicate_names_read_once`  the former failing witness, now one entry per iteration
  `checkpoint_prefix_body_duplicates`     (a Lean fact about the body WITHOUT the de-duplication =
                               the code before a25772a, not replayed: two entries per iteration)

NOT covered HERE (see Props/C11d.lean): the same variable name in two thorns of one
file (Model/Checkpoint.lean returns `none`; literal model Model/MultiThorn.lean);
Checkpoint files of one restart written with different process counts: covered since
/repo bd9646b (`cmaxOf` per iteration; `GoodItAuto`; no `cmax` hypothesis any more).
-/
import AurelVerif.Lemmas.C11CheckpointE2E

namespace AurelVerif.C11
open AurelVerif.Chunks AurelVerif.Checkpoint AurelVerif.CheckpointSpec AurelVerif.CheckpointLemmas
open AurelVerif.Restarts AurelVerif.RestartsLemmas

/-- from a well-formed checkpoint file exactly the datasets `sel v` are read for
every requested variable, in the order `for v in var: for c in crange`,
whatever else the file contains (other iterations, levels, past time levels,
other variables, grid scalars) -/
theorem checkpoint_file_selection {α : Type} (cmax : CMax) (f : CFile α) (iit rl : Nat) (var : List String)
    (sel : String → List (DSet α)) (h : GoodFile cmax f iit rl var sel) :
    readFile cmax iit rl var f = some (var.flatMap fun v => (sel v).map fun d => (v, d)) :=
  (readFile_good cmax f iit rl var sel h).1

/-- **T4 (checkpoints)** one iteration of a well-formed checkpoint — one file or
one file per process, any file order, any hierarchical decomposition, any
component numbering, ghost layers of width ≥ 1 with arbitrary content — is
read back exactly: for every requested variable `fixij` of its interior grid,
and the recorded time. -/
theorem checkpoint_it_exact {α : Type} (cmax : CMax) (files : List (CFile α)) (iit rl : Nat) (var : List String)
    (hn : var.Nodup) (hvar : var ≠ []) (A : String → Arr3 α) (tm : Nat)
    (h : GoodIt cmax files iit rl var A tm) :
    readIt cmax files iit rl var = some (some (tm, var.map fun v => fixij (A v))) :=
  readIt_good cmax files iit rl var hn hvar A tm h

/-- **T4 (checkpoints), layout found per iteration** (/repo bd9646b): the iteration is well-formed in
whichever layout it was written (`GoodItAuto`: one file, one file with components, one file per process
with any number of processes); the reader determines `cmax` from the files of THIS iteration. -/
theorem checkpoint_it_auto_exact {α : Type} (files : List (CFile α)) (iit rl : Nat) (var : List String)
    (hn : var.Nodup) (hvar : var ≠ []) (A : String → Arr3 α) (tm : Nat)
    (h : GoodItAuto files iit rl var A tm) :
    readItAuto files iit rl var = some (some (tm, var.map fun v => fixij (A v))) :=
  readItAuto_good files iit rl var hn hvar A tm h

/-- **all requested iterations, any request list, any layout per iteration**: `data['it']` is the sorted set
of the requested iterations; `data['t']` and every variable column hold exactly one entry per
iteration, in that order; a variable named several times in the request has ONE column
(`var.eraseDups` = `list(dict.fromkeys(var))`).  (`toAurel` =
`transform_vars_ET_to_aurel`, injective on the requested names and never `'t'`.)  No hypothesis on
`cmax`: checkpoints of one restart may have been written by different numbers of processes
(code as of /repo bd9646b; before, `cmax` came from the first requested iteration). -/
theorem checkpoint_table_exact {α : Type} (toAurel : String → String) (files : List (CFile α)) (var : List String)
    (hvar : var ≠ []) (hinj : ∀ a ∈ var, ∀ b ∈ var, toAurel a = toAurel b → a = b)
    (ht : ∀ v ∈ var, toAurel v ≠ "t") (its : List Nat) (hits : its ≠ []) (rl : Nat)
    (A : Nat → String → Arr3 α) (tm : Nat → Nat)
    (hgood : ∀ iit ∈ sortedSet its, GoodItAuto files iit rl var (A iit) (tm iit)) :
    readCheckpoints toAurel files var its rl
      = some ⟨sortedSet its, ("t", (sortedSet its).map fun i => Cell.t (tm i))
          :: var.eraseDups.map fun v => (toAurel v, (sortedSet its).map fun i => Cell.arr (fixij (A i v)))⟩ :=
  readCheckpoints_good toAurel files var hvar hinj ht its hits rl A tm hgood

/-- **whole checkpoint pipeline**: `read_ET_data(it=its, usecheckpoints=True, restart=-1)`
over any number of restarts whose checkpoint lists overlap in any way, any request
(duplicate names included), every checkpoint in its own layout: one row per requested iteration that is
a checkpoint of some restart, increasing; row `(it, r)` with `r` the LAST restart listing `it`; the `t` entry
and every variable entry of that row are the time and the interior grids stored in
restart `r`'s checkpoint of iteration `it`; no `None`.  (Nothing to read: the empty
dictionary.)  No `cmax` hypothesis. -/
theorem checkpoint_pipeline_exact {α : Type} (toAurel : String → String) (cats : List Cat)
    (hnd : (cats.map (·.num)).Nodup) (files : Nat → List (CFile α)) (var : List String)
    (hvar : var ≠ []) (hinj : ∀ a ∈ var, ∀ b ∈ var, toAurel a = toAurel b → a = b)
    (ht : ∀ v ∈ var, toAurel v ≠ "t") (rl : Nat)
    (A : Nat → Nat → String → Arr3 α) (tm : Nat → Nat → Nat)
    (hgood : ∀ r it, pick true cats it = some r → GoodItAuto (files r) it rl var (A r it) (tm r it))
    (its : List Nat) :
    readETData true cats none its (fun r l => readCheckpoints toAurel (files r) var l rl)
      = some ((rowsOf true cats its).map Prod.fst,
              aligned (if rowsOf true cats its = [] then [] else "t" :: var.eraseDups.map toAurel) fun k =>
                (rowsOf true cats its).map fun p => some (ckCell toAurel var.eraseDups A tm p.2 k p.1)) :=
  checkpoint_pipeline_lemma toAurel cats hnd files var hvar hinj ht rl A tm hgood its

/-! ### witnesses -/

/-- a 3×3×3 dataset: the value `v` surrounded by one ghost layer of junk -/
def ckBlock (v : Nat) : Arr3 Nat :=
  [[[9, 9, 9], [9, 9, 9], [9, 9, 9]], [[8, 8, 8], [7, v, 7], [8, 8, 8]], [[9, 9, 9], [6, 6, 6], [9, 9, 9]]]

def ckD (it tl v : Nat) : DSet Nat :=
  { thorn := "ADMBASE", var := "alp", it := it, tl := tl, rl := some 0, c := none, ghost := (1, 1, 1),
    iorigin := (0, 0, 0), time := 500 + it, data := ckBlock v }

/-- one-file checkpoints of iterations 0 and 8, each with a past time level -/
def ckFiles : List (CFile Nat) :=
  [⟨8, none, [ckD 8 0 58, ckD 8 1 99]⟩, ⟨0, none, [ckD 0 0 50, ckD 0 1 99]⟩]

/-- a table with every cell shown as the list of its values (to compare tables by `decide`) -/
def ckShow (T : Table (Cell Nat)) : List Nat × List (String × List (List Nat)) :=
  (T.its, T.cols.map fun kc => (kc.1, kc.2.map fun c => match c with
    | Cell.t x => [x]
    | Cell.arr a => a.flatten.flatten))

/-- the former failing witness: the variable requested twice is read once, its column has one
entry per iteration (iteration 8 receives iteration 8's data) -/
theorem checkpoint_duplicate_names_read_once :
    (readCheckpoints id ckFiles ["alp", "alp"] [0, 8] 0).map ckShow
      = some ([0, 8], [("t", [[500], [508]]), ("alp", [[50], [58]])]) := by
  decide +kernel

/-- NOT the current code: the body of `read_ET_checkpoints` WITHOUT `var = list(dict.fromkeys(var))`
(the code before /repo a25772a) gave the doubled column two entries per iteration — the failing
input that the proof attempt of `checkpoint_table_exact` had produced.  Kept as a Lean fact only. -/
theorem checkpoint_prefix_body_duplicates :
    (readCheckpointsCore id ckFiles ["alp", "alp"] [0, 8] 0).map ckShow
      = some ([0, 8], [("t", [[500], [508]]), ("alp", [[50], [50], [58], [58]])]) := by
  decide +kernel

/-! ### Non-vacuity -/

theorem ckGoodIt (it v : Nat) (hit : it = 0 ∨ it = 8) (hv : v = 50 + it) :
    GoodIt CMax.inFile ckFiles it 0 ["alp"] (fun _ => [[[v]]]) (500 + it) := by
  refine ⟨fun _ _ => [ckD it 0 v], 1, 1, 1, [(1, [(1, [1])])], (0, 0, 0), 1, 1, 1, ?_, ?_,
    Nat.le_refl _, Nat.le_refl _, Nat.le_refl _, Nat.one_pos, Nat.one_pos, Nat.one_pos, ?_, ?_⟩
  · rcases hit with rfl | rfl <;> decide
  · intro f hf
    rcases hit with rfl | rfl
    · subst hv
      have : f = ⟨0, none, [ckD 0 0 50, ckD 0 1 99]⟩ := by
        simpa [filesOf, ckFiles, List.filter_cons] using hf
      subst this
      refine GoodFile.single rfl (by decide) (by decide) ?_
      intro w hw
      simp only [List.mem_singleton] at hw
      subst hw
      exact ⟨ckD 0 0 50, by rfl, rfl⟩
    · subst hv
      have : f = ⟨8, none, [ckD 8 0 58, ckD 8 1 99]⟩ := by
        simpa [filesOf, ckFiles, List.filter_cons] using hf
      subst this
      refine GoodFile.single rfl (by decide) (by decide) ?_
      intro w hw
      simp only [List.mem_singleton] at hw
      subst hw
      exact ⟨ckD 8 0 58, by rfl, rfl⟩
  · unfold ZSplit.Valid YSplit.Valid XSplit.Valid; decide
  · intro w _
    refine ⟨⟨rfl, by
        intro p hp
        simp only [List.mem_singleton] at hp
        subst hp
        refine ⟨rfl, ?_⟩
        intro r hr
        simp only [List.mem_singleton] at hr
        subst hr
        rfl⟩, [((0, 0, 0), [[[v]]])], by
      simp [chunks, cutsP, cuts, slice0, slice1, slice2, slice], ?_⟩
    have hpad : PadZ 1 1 1 (ckBlock v) [[[v]]] :=
      ⟨[[[9, 9, 9], [9, 9, 9], [9, 9, 9]]], [[[9, 9, 9], [6, 6, 6], [9, 9, 9]]], [[[8, 8, 8], [7, v, 7], [8, 8, 8]]],
        rfl, rfl, rfl,
        ⟨⟨[[8, 8, 8]], [[8, 8, 8]], [[7, v, 7]], rfl, rfl, rfl, ⟨⟨[7], [7], rfl, rfl, rfl⟩, trivial⟩⟩, trivial⟩⟩
    rcases hit with rfl | rfl
    · exact ⟨⟨rfl, rfl, rfl, hpad⟩, trivial⟩
    · exact ⟨⟨rfl, rfl, rfl, hpad⟩, trivial⟩

/-- hypotheses of `checkpoint_it_exact` / `checkpoint_table_exact` are satisfiable (also with the name
twice in the request), and the conclusion on this instance by evaluation -/
example : GoodIt CMax.inFile ckFiles 8 0 ["alp"] (fun _ => [[[58]]]) 508 := ckGoodIt 8 58 (Or.inr rfl) rfl
example : GoodIt CMax.inFile ckFiles 8 0 ["alp", "alp"] (fun _ => [[[58]]]) 508 :=
  goodIt_congr (var := ["alp"]) (by intro v hv; simpa using hv) (ckGoodIt 8 58 (Or.inr rfl) rfl)
example : GoodItAuto ckFiles 8 0 ["alp"] (fun _ => [[[58]]]) 508 :=
  ⟨CMax.inFile, (by show (filesOf ckFiles 8).length = 1; rfl), ckGoodIt 8 58 (Or.inr rfl) rfl⟩
example : (readCheckpoints id ckFiles ["alp"] [8, 0, 8] 0).map ckShow
    = some ([0, 8], [("t", [[500], [508]]), ("alp", [[50], [58]])]) := by decide +kernel

/-- a per-process file of a two-component level (`GoodFile.perproc`) and a one-file
two-component level (`GoodFile.chunked`) -/
example : GoodFile (CMax.num 1) (⟨0, some 1, [{ ckD 0 0 1 with c := some 1 }, { ckD 0 1 2 with c := some 1 }]⟩ : CFile Nat)
    0 0 ["alp"] (fun _ => [{ ckD 0 0 1 with c := some 1 }]) :=
  GoodFile.perproc 1 1 rfl rfl (by
    intro w hw
    simp only [List.mem_singleton] at hw
    subst hw
    exact ⟨_, by rfl, rfl⟩)
example : GoodFile CMax.inFile (⟨0, none, [{ ckD 0 0 1 with c := some 0 }, { ckD 0 0 2 with c := some 1 }]⟩ : CFile Nat)
    0 0 ["alp"] (fun _ => (List.range 2).map fun c => { ckD 0 0 (c + 1) with c := some c }) :=
  GoodFile.chunked 2 rfl (by omega)
    (by
      intro d hd
      have : d = { ckD 0 0 1 with c := some 0 } ∨ d = { ckD 0 0 2 with c := some 1 } := by
        simpa [relevant, ckD] using hd
      rcases this with rfl | rfl
      · exact ⟨0, rfl, by omega⟩
      · exact ⟨1, rfl, by omega⟩)
    ⟨{ ckD 0 0 2 with c := some 1 }, by simp [relevant, ckD], rfl⟩
    (by
      intro w hw
      simp only [List.mem_singleton] at hw
      subst hw
      refine ⟨fun c => { ckD 0 0 (c + 1) with c := some c }, ?_, rfl⟩
      intro c hc
      have : c = 0 ∨ c = 1 := by omega
      rcases this with rfl | rfl <;> rfl)

end AurelVerif.C11
