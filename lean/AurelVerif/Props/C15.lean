/-
Props/C15.lean — property theorems for C15 (symbolic core gives the textbook
tensors for any metric, flag and request order).  ONLY property statements
and non-vacuity examples; proofs are in Lemmas/SymTensors.lean (formula
lines, index symmetries), Lemmas/SymFill.lean (lifting of the finite fill
check) and Lemmas/SymCore.lean (composition).

Model (all regenerated from `coresymbolic.py` on every run):
  Gen/SymFormulas.lean  formula lines (`sp.diff ↦ D`, `sp.simplify ↦ S`,
                        `self.simplify ↦ b : Bool`), symbolic dimension `n`
  Gen/SymLoops.lean     loop structure of the fill loops + method table
interpreted by the hand-written Model/SymFill.lean (tied to the real class by
the correspondence check of tools/props/C15.py).

Extended by Props/C15b.lean (same model): the fill theorems for EVERY `n`
(T3 below is the kernel-decided instance for n = 2, 3, 4), request-order
independence over all request histories with proven branch coherence (T4 below
is the two-state instance), the flag theorems for every generated line, and
`IsMetric` derived from the single equation `gdown · gup = 1`.

Hypotheses used, and nothing else:
  `IsDeriv D`    the coordinate derivatives are additive, Leibniz, commuting
  `IsMetric g gup`  `gdown` symmetric, `gup` its two-sided inverse (the inverse
                 itself is computed by sympy's `Matrix.inv`: trusted)
  `∀ x, S x = x` ASSUMPTION about sympy: `sp.simplify` returns an expression
                 equal (as an element of the field of expressions) to its
                 argument.  It is the only thing assumed about `simplify`.
-/
import Mathlib.Data.Fin.VecNotation
import Mathlib.Algebra.BigOperators.Fin
import Mathlib.Tactic.FinCases
import Mathlib.Tactic.NormNum
import AurelVerif.Lemmas.SymCore

set_option linter.unusedSectionVars false

namespace AurelVerif.C15
open AurelVerif.SymFill AurelVerif.SymFillLemmas AurelVerif.SymTensorLemmas AurelVerif.SymCore
open AurelVerif.Spec.SymTensors AurelVerif.Gen
open scoped BigOperators

variable {K : Type} [Field K] [CharZero K] {n : ℕ} {D : Fin n → K → K} {S : K → K}
  {g gup : Fin n → Fin n → K}

/-! ## T1 — every formula line is the textbook expression (all `n`, both flags) -/

/-- `Gamma_udd`: `0.5 * Σ_m gup[i,m] (∂_j g_mk + ∂_k g_mj − ∂_m g_jk)` is `Γ^i_{jk}`. -/
theorem line_Gamma_udd (hS : ∀ x, S x = x) (b : Bool) (i j k : Fin n) :
    SymFormulas.Gamma_udd D b S gup g i j k = GammaUdd D g gup i j k :=
  gamma_udd_line hS b i j k

/-- `Gamma_down`: `Σ_m gdown[i,m] Γ^m_{jk}` is the Christoffel symbol of the first kind. -/
theorem line_Gamma_down (hM : IsMetric g gup) (hS : ∀ x, S x = x) (b : Bool) (i j k : Fin n) :
    SymFormulas.Gamma_down D b S g (GammaUdd D g gup) i j k = GammaDown D g i j k :=
  gamma_down_line hM hS b i j k

/-- `Riemann_uddd`: `term1 − term2 + term3 − term4` is `R^i_{jkh}`. -/
theorem line_Riemann_uddd (hS : ∀ x, S x = x) (b : Bool) (i j k h : Fin n) :
    SymFormulas.Riemann_uddd D b S (GammaUdd D g gup) i j k h = RiemannUddd D g gup i j k h :=
  riemann_uddd_line hS b _ i j k h

/-- `Riemann_down`, branch from a cached `Riemann_uddd`: `Σ_m g[h,m] R^m_{ijk}`. -/
theorem line_Riemann_down_cached (hS : ∀ x, S x = x) (b : Bool) (h i j k : Fin n) :
    SymFormulas.Riemann_down_cached D b S g (RiemannUddd D g gup) h i j k
      = RiemannDown D g gup h i j k :=
  riemann_down_cached_line hS b _ h i j k

/-- `Riemann_down`, direct branch: `∂_k Γ_{ijh} − ∂_h Γ_{ijk} + term3 − term4` with the
lowered Christoffel symbols is `g_{im} R^m_{jkh}` (needs Leibniz and `g gup = 1`). -/
theorem line_Riemann_down_direct (hD : IsDeriv D) (hM : IsMetric g gup) (hS : ∀ x, S x = x)
    (b : Bool) (i j k h : Fin n) :
    SymFormulas.Riemann_down_direct D b S (GammaDown D g) (GammaUdd D g gup) i j k h
      = RiemannDown D g gup i j k h :=
  riemann_down_direct_line hD hM hS b i j k h

/-- `Ricci_down`, branch from a cached `Riemann_uddd`: `Σ_k R^k_{ikj}`. -/
theorem line_Ricci_down_cached (hS : ∀ x, S x = x) (b : Bool) (i j : Fin n) :
    SymFormulas.Ricci_down_cached D b S (RiemannUddd D g gup) i j = RicciDown D g gup i j :=
  ricci_down_cached_line hS b _ i j

/-- `Ricci_down`, direct branch: the sum over `k` that skips `k == j` is `R^k_{ikj}`
(the skipped term `R^j_{ijj}` vanishes identically). -/
theorem line_Ricci_down_direct (hS : ∀ x, S x = x) (b : Bool) (i j : Fin n) :
    SymFormulas.Ricci_down_direct D b S (GammaUdd D g gup) i j = RicciDown D g gup i j :=
  ricci_down_direct_line hS b _ i j

/-- `RicciS`: `Σ_ij gup[i,j] R_ij`. -/
theorem line_RicciS (b : Bool) :
    SymFormulas.RicciS D b S gup (RicciDown D g gup) = RicciScalar D g gup :=
  ricciS_line b _

/-- `Einstein_down`: `R_ij − 0.5 g_ij R`. -/
theorem line_Einstein_down (b : Bool) (i j : Fin n) :
    SymFormulas.Einstein_down D b S (RicciDown D g gup) g (RicciScalar D g gup) i j
      = EinsteinDown D g gup i j :=
  einstein_line b _ _ i j

/-! ## T2 — the Christoffel symbols do not depend on the `simplify` flag -/

/-- Both arms of `if self.simplify` yield the same value (the factor `0.5` is
applied outside the `if`), given only that `sp.simplify` preserves values. -/
theorem gamma_flag_independent (hS : ∀ x, S x = x) (i j k : Fin n) :
    SymFormulas.Gamma_udd D true S gup g i j k = SymFormulas.Gamma_udd D false S gup g i j k := by
  rw [gamma_udd_line hS, gamma_udd_line hS]

/-! ## The textbook tensors have exactly the symmetries the fill loops use -/

theorem spec_Gamma_udd_symm (hM : IsMetric g gup) (i j k : Fin n) :
    GammaUdd D g gup i k j = GammaUdd D g gup i j k := (christoffel2_symm hM i j k).symm

theorem spec_Gamma_down_symm (hM : IsMetric g gup) (i j k : Fin n) :
    GammaDown D g i k j = GammaDown D g i j k := (christoffel1_symm hM i j k).symm

theorem spec_Riemann_uddd_antisymm (i j k h : Fin n) :
    RiemannUddd D g gup i j h k = - RiemannUddd D g gup i j k h := riemannUp_antisymm D _ i j k h

/-- `R_{jikh} = −R_{ijkh}`, `R_{ijhk} = −R_{ijkh}`, `R_{khij} = R_{ijkh}`. -/
theorem spec_Riemann_down_symmetries (hD : IsDeriv D) (hM : IsMetric g gup) (i j k h : Fin n) :
    RiemannDown D g gup j i k h = - RiemannDown D g gup i j k h
    ∧ RiemannDown D g gup i j h k = - RiemannDown D g gup i j k h
    ∧ RiemannDown D g gup k h i j = RiemannDown D g gup i j k h :=
  ⟨riemannDown_antisymm12 hD hM i j k h, riemannDown_antisymm34 hD hM i j k h,
   riemannDown_pair hD hM i j k h⟩

theorem spec_Ricci_symm (hD : IsDeriv D) (hM : IsMetric g gup) (i j : Fin n) :
    RicciDown D g gup j i = RicciDown D g gup i j := ricci_symm hD hM i j

/-! ## T3 — the fill loops reproduce every oracle that has only these symmetries -/

/-- **lifting**: the interpreter commutes with every map that respects zero and
negation, for every program and every `n`; hence the array returned for an
oracle `T` is the image of the symbolic array of signed index tuples, and the
kernel-evaluated check on the symbolic array decides `fill T = T` for all `T`. -/
theorem fill_lifting {V : Type} (n : Nat) (p : Prog) (gens : List SymGen)
    (hc : checkProg n p gens = true) (ops : Ops V) (laws : OpsLaws ops)
    (T : List Nat → V) (hT : Invariant n p.rank ops gens T)
    (ix : List Nat) (hix : Valid n p.rank ix) :
    fillAt n ops T p ix = T ix :=
  fill_identity_of_check n p gens hc ops laws T hT ix hix

section fill
variable (hn : n = 2 ∨ n = 3 ∨ n = 4)
include hn

theorem fill_is_identity_Gamma_udd (T : Fin n → Fin n → Fin n → K)
    (hT : ∀ i j k, T i k j = T i j k) (i j k : Fin n) :
    fillFin3 n (ringOps K) SymLoops.Gamma_udd T i j k = T i j k :=
  fill3_identity _ rfl (check_Gamma_udd n (mem234 hn)) T hT i j k

theorem fill_is_identity_Gamma_down (T : Fin n → Fin n → Fin n → K)
    (hT : ∀ i j k, T i k j = T i j k) (i j k : Fin n) :
    fillFin3 n (ringOps K) SymLoops.Gamma_down T i j k = T i j k :=
  fill3_identity _ rfl (check_Gamma_down n (mem234 hn)) T hT i j k

/-- only antisymmetry in the last index pair is assumed: in particular nothing
about components whose first two indices coincide -/
theorem fill_is_identity_Riemann_uddd (T : Fin n → Fin n → Fin n → Fin n → K)
    (hT : ∀ i j k h, T i j h k = - T i j k h) (i j k h : Fin n) :
    fillFin4 n (ringOps K) SymLoops.Riemann_uddd T i j k h = T i j k h :=
  fill4up_identity _ rfl (check_Riemann_uddd n (mem234 hn)) T hT i j k h

theorem fill_is_identity_Riemann_down_cached (T : Fin n → Fin n → Fin n → Fin n → K)
    (h1 : ∀ i j k h, T j i k h = - T i j k h) (h2 : ∀ i j k h, T i j h k = - T i j k h)
    (h3 : ∀ i j k h, T k h i j = T i j k h) (i j k h : Fin n) :
    fillFin4 n (ringOps K) SymLoops.Riemann_down_cached T i j k h = T i j k h :=
  fill4down_identity _ rfl (check_Riemann_down_cached n (mem234 hn)) T h1 h2 h3 i j k h

theorem fill_is_identity_Riemann_down_direct (T : Fin n → Fin n → Fin n → Fin n → K)
    (h1 : ∀ i j k h, T j i k h = - T i j k h) (h2 : ∀ i j k h, T i j h k = - T i j k h)
    (h3 : ∀ i j k h, T k h i j = T i j k h) (i j k h : Fin n) :
    fillFin4 n (ringOps K) SymLoops.Riemann_down_direct T i j k h = T i j k h :=
  fill4down_identity _ rfl (check_Riemann_down_direct n (mem234 hn)) T h1 h2 h3 i j k h

theorem fill_is_identity_Ricci_down_cached (T : Fin n → Fin n → K)
    (hT : ∀ i j, T j i = T i j) (i j : Fin n) :
    fillFin2 n (ringOps K) SymLoops.Ricci_down_cached T i j = T i j :=
  fill2_identity _ rfl (check_Ricci_down_cached n (mem234 hn)) T hT i j

theorem fill_is_identity_Ricci_down_direct (T : Fin n → Fin n → K)
    (hT : ∀ i j, T j i = T i j) (i j : Fin n) :
    fillFin2 n (ringOps K) SymLoops.Ricci_down_direct T i j = T i j :=
  fill2_identity _ rfl (check_Ricci_down_direct n (mem234 hn)) T hT i j

theorem fill_is_identity_Einstein_down (T : Fin n → Fin n → K)
    (hT : ∀ i j, T j i = T i j) (i j : Fin n) :
    fillFin2 n (ringOps K) SymLoops.Einstein_down T i j = T i j :=
  fill2_identity _ rfl (check_Einstein_down n (mem234 hn)) T hT i j

/-! ## Main theorem — what the class stores is the textbook tensor

`stored…` (Lemmas/SymCore.lean) = fill loops ∘ formula line ∘ stored values of
the looked-up keys ∘ `sp.simplify` of `__getitem__`; `b` = the `simplify`
flag; `cached` = whether `Riemann_uddd` was in `self.data` when `Riemann_down`
resp. `Ricci_down` was first requested (the only way the request order enters). -/

theorem symbolic_core_correct (hD : IsDeriv D) (hM : IsMetric g gup) (hS : ∀ x, S x = x)
    (b cached : Bool) :
    storedGammaUdd n D b S g gup = GammaUdd D g gup
    ∧ storedGammaDown n D b S g gup = GammaDown D g
    ∧ storedRiemannUddd n D b S g gup = RiemannUddd D g gup
    ∧ storedRiemannDown n D b S g gup cached = RiemannDown D g gup
    ∧ storedRicci n D b S g gup cached = RicciDown D g gup
    ∧ storedRicciS n D b S g gup cached = RicciScalar D g gup
    ∧ storedEinstein n D b S g gup cached = EinsteinDown D g gup :=
  ⟨storedGammaUdd_eq hn hM hS b, storedGammaDown_eq hn hM hS b, storedRiemannUddd_eq hn hM hS b,
   storedRiemannDown_eq hn hD hM hS b cached, storedRicci_eq hn hD hM hS b cached,
   storedRicciS_eq hn hD hM hS b cached, storedEinstein_eq hn hD hM hS b cached⟩

/-! ## T4 — request-order independence, and T2 for everything stored -/

/-- `Riemann_down` is the same array whether or not `Riemann_uddd` was requested before. -/
theorem riemann_down_request_order_independent (hD : IsDeriv D) (hM : IsMetric g gup)
    (hS : ∀ x, S x = x) (b : Bool) :
    storedRiemannDown n D b S g gup true = storedRiemannDown n D b S g gup false := by
  rw [storedRiemannDown_eq hn hD hM hS b true, storedRiemannDown_eq hn hD hM hS b false]

/-- `Ricci_down`, hence `RicciS` and `Einstein_down`, likewise. -/
theorem ricci_down_request_order_independent (hD : IsDeriv D) (hM : IsMetric g gup)
    (hS : ∀ x, S x = x) (b : Bool) :
    storedRicci n D b S g gup true = storedRicci n D b S g gup false
    ∧ storedRicciS n D b S g gup true = storedRicciS n D b S g gup false
    ∧ storedEinstein n D b S g gup true = storedEinstein n D b S g gup false := by
  rw [storedRicci_eq hn hD hM hS b true, storedRicci_eq hn hD hM hS b false,
    storedRicciS_eq hn hD hM hS b true, storedRicciS_eq hn hD hM hS b false,
    storedEinstein_eq hn hD hM hS b true, storedEinstein_eq hn hD hM hS b false]
  exact ⟨rfl, rfl, rfl⟩

/-- nothing that is stored depends on the `simplify` flag -/
theorem stored_flag_independent (hD : IsDeriv D) (hM : IsMetric g gup) (hS : ∀ x, S x = x)
    (b b' cached cached' : Bool) :
    storedGammaUdd n D b S g gup = storedGammaUdd n D b' S g gup
    ∧ storedRiemannDown n D b S g gup cached = storedRiemannDown n D b' S g gup cached'
    ∧ storedEinstein n D b S g gup cached = storedEinstein n D b' S g gup cached' := by
  rw [storedGammaUdd_eq hn hM hS b, storedGammaUdd_eq hn hM hS b',
    storedRiemannDown_eq hn hD hM hS b cached, storedRiemannDown_eq hn hD hM hS b' cached',
    storedEinstein_eq hn hD hM hS b cached, storedEinstein_eq hn hD hM hS b' cached']
  exact ⟨rfl, rfl, rfl⟩

end fill

/-! ## Non-vacuity -/

/-- the metric hypotheses are met by a non-diagonal metric -/
example : IsMetric (K := ℚ) (n := 2) ![![2, 1], ![1, 1]] ![![1, -1], ![-1, 2]] where
  symm := by intro i j; fin_cases i <;> fin_cases j <;> rfl
  mul_inv := by intro i j; fin_cases i <;> fin_cases j <;> norm_num [Fin.sum_univ_two]
  inv_mul := by intro i j; fin_cases i <;> fin_cases j <;> norm_num [Fin.sum_univ_two]

/-- the derivation hypotheses are consistent (constant coefficients); the
derivations that matter — partial derivatives on a field of functions — are
exercised on the real class by the sympy oracle of tools/props/C15.py -/
example : IsDeriv (K := ℚ) (n := 2) (fun _ _ => 0) where
  add := by intros; simp
  mul := by intros; simp
  comm := by intros; rfl

/-- an oracle with exactly the antisymmetry in the last pair and nothing else:
`T i i k h ≠ 0` is allowed (and is reproduced) -/
example : fillFin4 2 (ringOps ℚ) SymLoops.Riemann_uddd
    (fun i j k h => ((i : ℚ) + 2 * j + 1) * ((k : ℚ) - h)) 0 0 0 1 = -1 := by
  rw [fill_is_identity_Riemann_uddd (Or.inl rfl) _ (by intros; ring)]
  norm_num

/-- the symbolic fill of `Riemann_uddd` for `n = 2`, as the driver prints it -/
example : symFill 2 SymLoops.Riemann_uddd
    = [.zero, .val false [0,0,0,1], .val true [0,0,0,1], .zero,
       .zero, .val false [0,1,0,1], .val true [0,1,0,1], .zero,
       .zero, .val false [1,0,0,1], .val true [1,0,0,1], .zero,
       .zero, .val false [1,1,0,1], .val true [1,1,0,1], .zero] := by decide +kernel

end AurelVerif.C15
