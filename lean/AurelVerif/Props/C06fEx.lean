/-
Props/C06fEx.lean — non-vacuity of `C06.BssnokRicciHyp` (Props/C06f.lean): the curved unit-determinant point `C05.exB` of
Props/C05dEx.lean (γ = γ̃ = diag(F, 1/F, 1), F = 3, F' = 108, F'' = 5400, ψ = 1, φ = 0, NON-ZERO operator given by the table of exact
x-derivatives) satisfies every field, and `R̃_xx + R^φ_xx = −396 ≠ 0` there.  The remaining hypotheses of the `_noRic` theorems of
Props/C06f are those of Props/C06e, whose non-vacuity is Props/C06eEx.lean (on-shell points `exF`, `exKF`, `exM`); a single point
satisfying BOTH lists with a non-zero spatial operator is not constructed (the static point `exM` satisfies both with the zero operator
only after adding the BSSNOK entries; not done here).
-/
import AurelVerif.Props.C06f
import AurelVerif.Props.C05dEx

set_option linter.unusedSimpArgs false
set_option linter.unusedVariables false
set_option linter.style.nameCheck false

namespace AurelVerif.C06
open AurelVerif.Gen.Core AurelVerif.Tensor AurelVerif.CoreTac AurelVerif.C08 AurelVerif.Spec.Covd AurelVerif.Spec
open AurelVerif.Spec.Curvature (ricciDown)

theorem exB_bssnokRicciHyp : BssnokRicciHyp C05.exB := by
  obtain ⟨h, -, hp, c1, c2, c3, c4, r1, r2, r3, r4, -, -, c7, c8, -, -⟩ := C05.exB_code
  exact ⟨h, hp, c1, c2, c3, c4, C05.exB_cached2.1, C05.exB_cached2.2, c7, c8, r1, r2, r3, r4⟩

/-- the conclusion of `ricSum_is_ricci` is not `0 = 0` at `exB`. -/
theorem exB_ricSum : RicSum C05.exB 0 0 = -396 ∧ ricciDown C05.exB.gammaup3 C05.exB.s_Riemann_down3 0 0 = -396 := by
  have h := ricSum_is_ricci C05.exB (by norm_num) exB_bssnokRicciHyp 0 0
  have h1 : RicSum C05.exB 0 0 = -396 := by
    obtain ⟨h, -, hp, c1, c2, c3, c4, r1, r2, r3, r4, -, -, c7, c8, hd, -⟩ := C05.exB_code
    unfold RicSum
    rw [C05.exB_cached2.1, C05.exB_cached2.2, C05.ricci_bssnok_split C05.exB h (by norm_num) hp c1 c2 c3 c4 r1 r2 r3 r4 0 0, hd]
  exact ⟨h1, by rw [← h, h1]⟩

end AurelVerif.C06
