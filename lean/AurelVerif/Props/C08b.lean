/-
Props/C08b.lean — the 3+1 form of the inverse spacetime metric (property C08/C04),
and the projector entries for Eulerian observers that C19 uses.

`gup4` (generated: closed-form inverse of the cached `gdown4`) equals
  g^{00} = −1/α²,  g^{0i} = β^i/α²,  g^{ij} = γ^{ij} − β^iβ^j/α²
whenever `gdown4` is assembled from α, β, γ by the code's formulas, γ^{ij} is the
inverse of γ_ij, α ≠ 0 and det γ ≠ 0.  Exact, every field.
-/
import AurelVerif.Props.C09
import Mathlib.LinearAlgebra.Matrix.NonsingularInverse

set_option linter.unusedSimpArgs false
set_option linter.unusedVariables false

namespace AurelVerif.C08
open AurelVerif.Gen.Core AurelVerif.Tensor AurelVerif.CoreTac

variable {K : Type} [Field K]

/-- the textbook 3+1 inverse metric. -/
def gup3p1 (e : Env K) : Fin 4 → Fin 4 → K :=
  vec4 (vec4 (-1 / e.alpha ^ 2) (e.betaup3 0 / e.alpha ^ 2) (e.betaup3 1 / e.alpha ^ 2) (e.betaup3 2 / e.alpha ^ 2))
    (vec4 (e.betaup3 0 / e.alpha ^ 2) (e.gammaup3 0 0 - e.betaup3 0 * e.betaup3 0 / e.alpha ^ 2)
      (e.gammaup3 0 1 - e.betaup3 0 * e.betaup3 1 / e.alpha ^ 2) (e.gammaup3 0 2 - e.betaup3 0 * e.betaup3 2 / e.alpha ^ 2))
    (vec4 (e.betaup3 1 / e.alpha ^ 2) (e.gammaup3 1 0 - e.betaup3 1 * e.betaup3 0 / e.alpha ^ 2)
      (e.gammaup3 1 1 - e.betaup3 1 * e.betaup3 1 / e.alpha ^ 2) (e.gammaup3 1 2 - e.betaup3 1 * e.betaup3 2 / e.alpha ^ 2))
    (vec4 (e.betaup3 2 / e.alpha ^ 2) (e.gammaup3 2 0 - e.betaup3 2 * e.betaup3 0 / e.alpha ^ 2)
      (e.gammaup3 2 1 - e.betaup3 2 * e.betaup3 1 / e.alpha ^ 2) (e.gammaup3 2 2 - e.betaup3 2 * e.betaup3 2 / e.alpha ^ 2))

/-- γ^{ij} is the inverse of γ_ij (entry-wise). -/
def InvMetric (e : Env K) : Prop := ∀ i k, ∑ j, e.gammaup3 i j * e.gammadown3 j k = delta i k

/-- the 3+1 candidate is a left inverse of the assembled metric. -/
theorem gup3p1_mul_gdown4 (e : Env K) (h : Assembled e) (hi : InvMetric e) (ha : e.alpha ≠ 0) (i k : Fin 4) :
    ∑ j, gup3p1 e i j * e.gdown4 j k = delta i k := by
  have h01 := h.hsym 1 0; have h02 := h.hsym 2 0; have h12 := h.hsym 2 1
  have i00 := hi 0 0; have i01 := hi 0 1; have i02 := hi 0 2
  have i10 := hi 1 0; have i11 := hi 1 1; have i12 := hi 1 2
  have i20 := hi 2 0; have i21 := hi 2 1; have i22 := hi 2 2
  simp only [delta, Fin.sum_univ_three, h01, h02, h12] at i00 i01 i02 i10 i11 i12 i20 i21 i22
  simp at i00 i01 i02 i10 i11 i12 i20 i21 i22
  revert i k
  cases4 <;> cases4 <;>
    (simp only [gup3p1, delta, h.hg4, h.hgtt, h.hbm, h.hbd, core_unfold, Fin.sum_univ_three, Fin.sum_univ_four,
       h01, h02, h12]
     simp
     field_simp
     first
      | ring1
      | linear_combination (e.alpha ^ 2 * e.betaup3 0) * i00 + (e.alpha ^ 2 * e.betaup3 1) * i01 + (e.alpha ^ 2 * e.betaup3 2) * i02
      | linear_combination (e.alpha ^ 2 * e.betaup3 0) * i10 + (e.alpha ^ 2 * e.betaup3 1) * i11 + (e.alpha ^ 2 * e.betaup3 2) * i12
      | linear_combination (e.alpha ^ 2 * e.betaup3 0) * i20 + (e.alpha ^ 2 * e.betaup3 1) * i21 + (e.alpha ^ 2 * e.betaup3 2) * i22
      | linear_combination (e.alpha ^ 2) * i00 | linear_combination (e.alpha ^ 2) * i01 | linear_combination (e.alpha ^ 2) * i02
      | linear_combination (e.alpha ^ 2) * i10 | linear_combination (e.alpha ^ 2) * i11 | linear_combination (e.alpha ^ 2) * i12
      | linear_combination (e.alpha ^ 2) * i20 | linear_combination (e.alpha ^ 2) * i21 | linear_combination (e.alpha ^ 2) * i22)

/-- **the code's `gup4` is the textbook 3+1 inverse metric** (inverses are unique). -/
theorem gup4_is_3p1 (e : Env K) (h : Assembled e) (hi : InvMetric e) (hgd : e.gammadet = gammadet e)
    (ha : e.alpha ≠ 0) (hdet : gammadet e ≠ 0) (i k : Fin 4) : gup4 e i k = gup3p1 e i k := by
  let A : Matrix (Fin 4) (Fin 4) K := Matrix.of (gup4 e)
  let G : Matrix (Fin 4) (Fin 4) K := Matrix.of (gup3p1 e)
  let M : Matrix (Fin 4) (Fin 4) K := Matrix.of e.gdown4
  have hA : A * M = 1 := by
    ext a b
    rw [Matrix.mul_apply, Matrix.one_apply]
    exact gup4_mul_gdown4 e h hgd ha hdet a b
  have hG : G * M = 1 := by
    ext a b
    rw [Matrix.mul_apply, Matrix.one_apply]
    exact gup3p1_mul_gdown4 e h hi ha a b
  have hM : M * G = 1 := mul_eq_one_comm.mp hG
  have hAG : A = G := by
    calc A = A * (M * G) := by rw [hM, mul_one]
      _ = (A * M) * G := by rw [Matrix.mul_assoc]
      _ = G := by rw [hA, one_mul]
  exact congrFun (congrFun hAG i) k

/-- for Eulerian observers (`u = n`) the projector with indices up is the spatial inverse
metric: `h^{ab} = g^{ab} + n^a n^b = diag(0, γ^{ij})`. -/
theorem hup4_eulerian (e : Env K) (ha : e.alpha ≠ 0)
    (hg : ∀ a b, e.gup4 a b = gup3p1 e a b) (hu : ∀ a, e.uup4 a = nup4 e a) :
    (∀ μ, hup4 e 0 μ = 0 ∧ hup4 e μ 0 = 0) ∧ ∀ i j : Fin 3, hup4 e i.succ j.succ = e.gammaup3 i j := by
  have u0 := hu 0; have u1 := hu 1; have u2 := hu 2; have u3 := hu 3
  simp only [core_unfold] at u0 u1 u2 u3
  constructor
  · cases4 <;> (constructor <;> (simp only [core_unfold, hg, gup3p1, u0, u1, u2, u3]; field_simp; try ring1))
  · cases3 <;> cases3 <;> (simp only [core_unfold, hg, gup3p1, u0, u1, u2, u3]; field_simp; try ring1)

end AurelVerif.C08
