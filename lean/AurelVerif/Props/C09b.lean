/-
Props/C09b.lean — closed forms of the Eulerian projections of a perfect fluid
(property C09): `S^i = ρh W² v^i`, `S_i = ρh W² v_i`, `T = g^{μν}T_μν = −ρ + 3p`
(`ρh := ρ + p`), derived from the code's own (regenerated) formulas.
-/
import AurelVerif.Props.C08b

set_option linter.unusedSimpArgs false
set_option linter.unusedVariables false

namespace AurelVerif.C09
open AurelVerif.Gen.Core AurelVerif.Tensor AurelVerif.CoreTac AurelVerif.C08

variable {K : Type} [Field K]

theorem fluxup3_spec (e : Env K) (i : Fin 3) :
    fluxup3_n e i = -∑ b, ∑ c, e.gammaup4 i.succ b * e.Tdown4 b c * e.nup4 c := by
  revert i; cases3 <;> (unfold_core; ring)

/-- the fluid stress-energy tensor contracted once with the normal:
`T_μν n^ν = −(ρ+p) W u_μ + p n_μ`. -/
theorem T_dot_n (e : Env K) (h : Assembled e) (hv : Velocity e) (ha : e.alpha ≠ 0)
    (hh : e.hdown4 = hdown4 e) (μ : Fin 4) :
    ∑ ν, Tdown4 e μ ν * nup4 e ν = -(e.rho + e.press) * e.w_lorentz * e.udown4 μ + e.press * ndown4 e μ := by
  have hun := u_dot_n e h hv ha
  have hnd := ndown_is_lowered e h ha μ
  simp only [Tdown4_spec, hh, hdown4_spec, Fin.sum_univ_four] at hun hnd ⊢
  linear_combination (e.press) * hnd.symm + ((e.rho + e.press) * e.udown4 μ) * hun

/-- **momentum density `S^i = (ρ+p) W² v^i`.** -/
theorem flux_closed (e : Env K) (h : Assembled e) (hv : Velocity e) (hi : InvMetric e) (ha : e.alpha ≠ 0)
    (hh : e.hdown4 = hdown4 e) (hT : e.Tdown4 = Tdown4 e) (hn : e.nup4 = nup4 e)
    (hg4 : e.gammaup4 = gammaup4 e) (i : Fin 3) :
    fluxup3_n e i = (e.rho + e.press) * e.w_lorentz ^ 2 * e.velup3 i := by
  have t1 := T_dot_n e h hv ha hh 1
  have t2 := T_dot_n e h hv ha hh 2
  have t3 := T_dot_n e h hv ha hh 3
  have s0 := udown_spatial e h hv ha 0
  have s1 := udown_spatial e h hv ha 1
  have s2 := udown_spatial e h hv ha 2
  have h01 := h.hsym 1 0; have h02 := h.hsym 2 0; have h12 := h.hsym 2 1
  have i00 := hi 0 0; have i01 := hi 0 1; have i02 := hi 0 2
  have i10 := hi 1 0; have i11 := hi 1 1; have i12 := hi 1 2
  have i20 := hi 2 0; have i21 := hi 2 1; have i22 := hi 2 2
  simp only [delta, Fin.sum_univ_three, h01, h02, h12] at i00 i01 i02 i10 i11 i12 i20 i21 i22
  simp at i00 i01 i02 i10 i11 i12 i20 i21 i22
  have n1 : ndown4 e 1 = 0 := rfl
  have n2 : ndown4 e 2 = 0 := rfl
  have n3 : ndown4 e 3 = 0 := rfl
  rw [n1, mul_zero, add_zero] at t1
  rw [n2, mul_zero, add_zero] at t2
  rw [n3, mul_zero, add_zero] at t3
  simp only [core_unfold, Fin.sum_univ_three, h01, h02, h12] at s0 s1 s2
  rw [s0] at t1; rw [s1] at t2; rw [s2] at t3
  rw [fluxup3_spec, hT, hn, hg4]
  simp only [Fin.sum_univ_four] at t1 t2 t3 ⊢
  simp only [core_unfold] at t1 t2 t3
  revert i
  cases3
  · simp only [core_unfold]
    linear_combination (-(e.gammaup3 0 0)) * t1 - (e.gammaup3 0 1) * t2 - (e.gammaup3 0 2) * t3
      + ((e.rho + e.press) * e.w_lorentz ^ 2) * (e.velup3 0 * i00 + e.velup3 1 * i01 + e.velup3 2 * i02)
  · simp only [core_unfold]
    linear_combination (-(e.gammaup3 1 0)) * t1 - (e.gammaup3 1 1) * t2 - (e.gammaup3 1 2) * t3
      + ((e.rho + e.press) * e.w_lorentz ^ 2) * (e.velup3 0 * i10 + e.velup3 1 * i11 + e.velup3 2 * i12)
  · simp only [core_unfold]
    linear_combination (-(e.gammaup3 2 0)) * t1 - (e.gammaup3 2 1) * t2 - (e.gammaup3 2 2) * t3
      + ((e.rho + e.press) * e.w_lorentz ^ 2) * (e.velup3 0 * i20 + e.velup3 1 * i21 + e.velup3 2 * i22)

/-- **`S_i = (ρ+p) W² v_i`** with `v_i = γ_ij v^j`. -/
theorem fluxdown_closed (e : Env K) (hf : ∀ i, e.fluxup3_n i = (e.rho + e.press) * e.w_lorentz ^ 2 * e.velup3 i)
    (hs : Sym e.gammadown3) (b : Fin 3) :
    fluxdown3_n e b = (e.rho + e.press) * e.w_lorentz ^ 2 * ∑ j, e.gammadown3 b j * e.velup3 j := by
  have h01 := hs 1 0; have h02 := hs 2 0; have h12 := hs 2 1
  rw [fluxdown3_spec]
  simp only [hf, Fin.sum_univ_three]
  revert b; cases3 <;> (simp only [h01, h02, h12]; ring)

end AurelVerif.C09

namespace AurelVerif.C09
open AurelVerif.Gen.Core AurelVerif.Tensor AurelVerif.CoreTac AurelVerif.C08

variable {K : Type} [Field K]

/-- generic: if `G·M = 1` (entry-wise), `G` symmetric, then `G^{ab} (M u)_a (M u)_b = u^a (M u)_a`. -/
theorem quad_form_inverse (G M : Fin 4 → Fin 4 → K) (u : Fin 4 → K)
    (hGM : ∀ i k, ∑ j, G i j * M j k = delta i k) (hGs : ∀ i j, G i j = G j i) :
    ∑ a, ∑ b, G a b * (∑ c, M a c * u c) * (∑ d, M b d * u d) = ∑ a, u a * ∑ c, M a c * u c := by
  have key : ∀ b, ∑ a, G a b * (∑ c, M a c * u c) = u b := by
    intro b
    have : ∑ a, G a b * (∑ c, M a c * u c) = ∑ c, (∑ a, G b a * M a c) * u c := by
      simp only [Finset.mul_sum, Finset.sum_mul]
      rw [Finset.sum_comm]
      refine Finset.sum_congr rfl fun c _ => Finset.sum_congr rfl fun a _ => ?_
      rw [hGs a b]; ring
    rw [this]
    simp only [hGM, delta]
    simp
  calc ∑ a, ∑ b, G a b * (∑ c, M a c * u c) * (∑ d, M b d * u d)
      = ∑ b, (∑ a, G a b * (∑ c, M a c * u c)) * (∑ d, M b d * u d) := by
        rw [Finset.sum_comm]; simp only [Finset.sum_mul]
    _ = ∑ b, u b * ∑ d, M b d * u d := by simp only [key]

/-- the trace of the inverse against the metric is the dimension. -/
theorem trace_inverse (G M : Fin 4 → Fin 4 → K) (hGM : ∀ i k, ∑ j, G i j * M j k = delta i k)
    (hMs : ∀ i j, M i j = M j i) : ∑ a, ∑ b, G a b * M a b = 4 := by
  have : ∀ a, ∑ b, G a b * M a b = 1 := by
    intro a
    have h := hGM a a
    simp only [delta, if_true] at h
    rw [← h]
    exact Finset.sum_congr rfl fun b _ => by rw [hMs a b]
  simp only [this]
  simp

/-- **`g^{μν} T_μν = −ρ + 3p`** for the perfect-fluid tensor built by the code. -/
theorem Ttrace_closed (e : Env K) (h : Assembled e) (hv : Velocity e) (ha : e.alpha ≠ 0) (hW : LorentzOK e)
    (hh : e.hdown4 = hdown4 e) (hT : e.Tdown4 = Tdown4 e)
    (hGM : ∀ i k, ∑ j, e.gup4 i j * e.gdown4 j k = delta i k) (hGs : ∀ i j, e.gup4 i j = e.gup4 j i) :
    Ttrace__Tdown4 e = -e.rho + 3 * e.press := by
  have hs4 : ∀ i j, e.gdown4 i j = e.gdown4 j i := by rw [h.hg4]; exact gdown4_symm e h.hsym
  have hud : ∀ a, e.udown4 a = ∑ c, e.gdown4 a c * e.uup4 c := by
    intro a; rw [hv.hud]; exact udown4_spec e a
  have hQ : ∑ a, ∑ b, e.gup4 a b * e.udown4 a * e.udown4 b = -1 := by
    have q := quad_form_inverse e.gup4 e.gdown4 e.uup4 hGM hGs
    have uu := u_unit_down e h hv ha hW
    simp only [← hud] at q
    rw [q]
    rw [← uu]
    exact Finset.sum_congr rfl fun a _ => by ring
  have hTr := trace_inverse e.gup4 e.gdown4 hGM hs4
  rw [(Ttrace_alternatives e).1, hT]
  simp only [Tdown4_spec, hh, hdown4_spec]
  have split : ∑ a, ∑ b, e.gup4 a b * (e.rho * (e.udown4 a * e.udown4 b) + e.press * (e.gdown4 a b + e.udown4 a * e.udown4 b))
      = (e.rho + e.press) * (∑ a, ∑ b, e.gup4 a b * e.udown4 a * e.udown4 b)
        + e.press * (∑ a, ∑ b, e.gup4 a b * e.gdown4 a b) := by
    simp only [Finset.mul_sum, ← Finset.sum_add_distrib]
    exact Finset.sum_congr rfl fun a _ => Finset.sum_congr rfl fun b _ => by ring
  rw [split, hQ, hTr]; ring

end AurelVerif.C09

namespace AurelVerif.C09
open AurelVerif.Gen.Core AurelVerif.Tensor AurelVerif.CoreTac AurelVerif.C08

variable {K : Type} [Field K]

/-- lowering both indices of a raised tensor returns it (γ⁻¹γ = 1, γ symmetric). -/
theorem lower_raise (G M T : Fin 3 → Fin 3 → K) (hGM : ∀ i k, ∑ j, G i j * M j k = delta i k)
    (hMs : ∀ i j, M i j = M j i) (i j : Fin 3) :
    ∑ c, ∑ d, M i c * M j d * (∑ a, ∑ b, G a c * G b d * T a b) = T i j := by
  have e1 : ∑ c, ∑ d, M i c * M j d * (∑ a, ∑ b, G a c * G b d * T a b)
      = ∑ a, ∑ b, (∑ c, G a c * M c i) * (∑ d, G b d * M d j) * T a b := by
    simp only [Fin.sum_univ_three, hMs i 0, hMs i 1, hMs i 2, hMs j 0, hMs j 1, hMs j 2]
    ring
  rw [e1]
  simp only [hGM, delta, Fin.sum_univ_three]
  revert i j
  refine fin3_cases ?_ ?_ ?_ <;> refine fin3_cases ?_ ?_ ?_ <;> simp

theorem Stress_specs (e : Env K) (c d : Fin 3) :
    Stressup3_n e c d = ∑ a : Fin 3, ∑ b : Fin 3, e.gammaup3 a c * e.gammaup3 b d * e.Tdown4 a.succ b.succ
    ∧ Stressdown3_n e c d = ∑ a, ∑ b, e.gammadown3 a c * e.gammadown3 b d * e.Stressup3_n a b := by
  revert c d; cases3 <;> cases3 <;> (constructor <;> (unfold_core; ring))

/-- **`S_ij = (ρ+p) W² v_i v_j + p γ_ij`** (`v_i = γ_ik v^k`). -/
theorem stress_closed (e : Env K) (h : Assembled e) (hv : Velocity e) (hi : InvMetric e) (ha : e.alpha ≠ 0)
    (hh : e.hdown4 = hdown4 e) (hT : e.Tdown4 = Tdown4 e) (hS : e.Stressup3_n = Stressup3_n e) (i j : Fin 3) :
    Stressdown3_n e i j = (e.rho + e.press) * e.w_lorentz ^ 2
        * (∑ k, e.gammadown3 i k * e.velup3 k) * (∑ k, e.gammadown3 j k * e.velup3 k)
      + e.press * e.gammadown3 i j := by
  have hsym := h.hsym
  rw [(Stress_specs e i j).2, hS]
  have step : ∑ a, ∑ b, e.gammadown3 a i * e.gammadown3 b j * Stressup3_n e a b
      = ∑ c, ∑ d, e.gammadown3 i c * e.gammadown3 j d
          * (∑ a : Fin 3, ∑ b : Fin 3, e.gammaup3 a c * e.gammaup3 b d * e.Tdown4 a.succ b.succ) := by
    refine Finset.sum_congr rfl fun a _ => Finset.sum_congr rfl fun b _ => ?_
    rw [(Stress_specs e a b).1, hsym a i, hsym b j]
  rw [step, lower_raise e.gammaup3 e.gammadown3 (fun a b => e.Tdown4 a.succ b.succ) hi hsym i j]
  have ui := udown_spatial e h hv ha i
  have uj := udown_spatial e h hv ha j
  have hgij : e.gdown4 i.succ j.succ = e.gammadown3 i j := by
    rw [h.hg4]; exact (gdown4_layout e).2.2 i j
  rw [hT, Tdown4_spec, hh, hdown4_spec, ui, uj, hgij]
  ring

end AurelVerif.C09
