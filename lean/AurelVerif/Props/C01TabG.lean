/-
Props/C01TabG.lean — property C01, extension round 6 (continues Props/C01Tab.lean / C01TabT.lean): the guarded bodies
that were left as the hypothesis `HardCoh` are discharged against the CONSTRUCTED denotation, one by one.

Vocabulary of this round
  * `E P excl inp`     the environment of the denotation: the field of key `j` is `den … j` (non-key fields: `P.base`).
  * `Cons P excl inp k` "the value of `k` is consistent with its body": `den k` satisfies the unfolding equation of `k`
                       (`den k` = the body of `k` evaluated on denotations, presence tests on the inputs).  It holds
                       AUTOMATICALLY when `k` is not supplied (`cons_of_absent`); for a supplied `k` it says that the
                       supplied value is the one the code would compute from the other inputs.

This file: `gdet` (key 33).  `coh_33`: the body of `gdet` is branch-coherent provided the metric pieces that can be
SUPPLIED and that the two alternatives read differently — `gtt` (27), `betadown3` (11), `betamag` (12), `gammadet` (24) —
are consistent, and `gammadown3` is symmetric (`MetricCons`).  The hypothesis is necessary: with inputs `{gtt = 5}` the
real code returns `gdet = −1` on a fresh instance and `+5` after `gdown4` has been requested (replayed by the check,
tools/props/C01.py `necessity_witnesses`).  It is void when none of the five names is supplied (`metricCons_of_absent`).
-/
import AurelVerif.Props.C01TabT
import AurelVerif.Props.C08

set_option linter.unusedSectionVars false
set_option linter.unusedSimpArgs false
set_option linter.unusedVariables false

namespace AurelVerif.C01Tab
open AurelVerif.Cache AurelVerif.Cache.Dict AurelVerif.CacheGet AurelVerif.Gen.Core AurelVerif.Tensor AurelVerif.CoreTac
open AurelVerif.Gen.C01Table AurelVerif.Gen.DepGraph
open AurelVerif.C01 (IsInput shapeOf rankOf)

variable {K : Type} [Field K]

section gdet
variable (P : Params K) (excl : List Nat) (inp : Dict Nat (Val K))

/-- the environment of the denotation -/
def E : Env K := envOf P.base (den P excl inp)

/-- the value of `k` is consistent with its body (automatic when `k` is not supplied). -/
def Cons (k : Nat) : Prop :=
  ∀ sh, (TTab P excl).shape k = some sh →
    den P excl inp k = evalShape (TTab P excl) (den P excl inp) (fun k => contains inp k) (.s 0) k sh []

theorem cons_of_absent (k : Nat) (h : get? inp k = none) : Cons P excl inp k :=
  fun sh hs => den_unfold P excl inp k sh h hs

/-- a name without a method is trivially consistent -/
theorem cons_of_methodless (k : Nat) (h : (TTab P excl).shape k = none) : Cons P excl inp k := by
  intro sh hs; rw [h] at hs; cases hs

/-- a list of keys `L` whose shapes a proof unfolds must not be excluded: `NotExcl excl L`. -/
def NotExcl (excl L : List Nat) : Prop := ∀ k, L.contains k = true → excl.contains k = false

theorem NotExcl.sub {excl L L' : List Nat} (h : NotExcl excl L) (hs : ∀ k, L'.contains k = true → L.contains k = true) :
    NotExcl excl L' := fun k hk => h k (hs k hk)

theorem shpX {L : List Nat} (hX : NotExcl excl L) (k : Nat) (sh : Shape Nat)
    (hk : L.contains k = true) (hs : shapeOf k = some sh) : (TTab P excl).shape k = some sh := by
  simp only [TTab, hX k hk, Bool.false_eq_true, ↓reduceIte]
  exact hs

/-- keys unfolded for `gdet` -/
def cone33 : List Nat := coneKeys ++ [33]

theorem coneX_sub {L : List Nat} (hX : NotExcl excl (coneKeys ++ L)) (k : Nat)
    (hk : coneKeys.contains k = true) : excl.contains k = false := by
  apply hX
  simp only [List.contains_eq_mem, List.mem_append, decide_eq_true_eq] at hk ⊢
  exact Or.inl hk

/-- consistency of the metric pieces read by the two alternatives of `gdet`. -/
structure MetricCons : Prop where
  c27 : Cons P excl inp 27
  c12 : Cons P excl inp 12
  c11 : Cons P excl inp 11
  c24 : Cons P excl inp 24
  sym : C08.Sym (den P excl inp 21).toT33

variable (hX : NotExcl excl cone33)
include hX

/-- `gammadown3` assembled from its six components is symmetric. -/
theorem sym_21_of_absent (h : get? inp 21 = none) : C08.Sym (den P excl inp 21).toT33 := by
  rw [den_21 P excl inp (coneX_sub excl hX) h]
  simp only [leafGen_21, leaf_21, Val.toT33]
  intro i j; revert i j
  cases3 <;> cases3 <;> simp only [core_unfold]

/-- nothing to assume when none of the five names is supplied. -/
theorem metricCons_of_absent (h27 : get? inp 27 = none) (h12 : get? inp 12 = none) (h11 : get? inp 11 = none)
    (h24 : get? inp 24 = none) (h21 : get? inp 21 = none) : MetricCons P excl inp :=
  ⟨cons_of_absent P excl inp 27 h27, cons_of_absent P excl inp 12 h12, cons_of_absent P excl inp 11 h11,
    cons_of_absent P excl inp 24 h24, sym_21_of_absent P excl inp hX h21⟩

/-- the assembled-metric hypotheses of C08 hold in the environment of the denotation. -/
theorem assembled_E (hM : MetricCons P excl inp) (h31 : get? inp 31 = none) : C08.Assembled (E P excl inp) := by
  have hE := coneX_sub excl hX
  have e27 := hM.c27 _ (shp P excl hE 27 _ (by decide) rfl)
  have e12 := hM.c12 _ (shp P excl hE 12 _ (by decide) rfl)
  have e11 := hM.c11 _ (shp P excl hE 11 _ (by decide) rfl)
  simp only [sh_27, sh_12, sh_11, evalShape, Guard.eval, contains, h31, Option.isSome_none, Bool.false_eq_true, ↓reduceIte,
    List.nil_append, List.cons_append, TTab_leaf] at e27 e12 e11
  refine ⟨?_, ?_, ?_, ?_, hM.sym⟩
  · show (den P excl inp 11).toV3 = _
    rw [e11]; rfl
  · show (den P excl inp 12).toS = _
    rw [e12]; rfl
  · show (den P excl inp 27).toS = _
    rw [e27]; rfl
  · show (den P excl inp 31).toT44 = _
    rw [den_31 P excl inp hE h31]; rfl

theorem gammadet_E (hM : MetricCons P excl inp) : (E P excl inp).gammadet = gammadet (E P excl inp) := by
  have e24 := hM.c24 _ (shpX P excl hX 24 _ (by decide) rfl)
  simp only [sh_24, evalShape, List.nil_append, List.cons_append, TTab_leaf] at e24
  show (den P excl inp 24).toS = _
  rw [e24]; rfl

/-- **`gdet`** (`if 'gdown4' in self.data: det4(gdown4) else: -alpha**2 * gammadet`) is branch-coherent for consistent
metric inputs. -/
theorem coh_33 (hM : MetricCons P excl inp) (hi : get? inp 33 = none) :
    CohM (TTab P excl) (den P excl inp) (fun k => (get? inp k).isSome = true) (den P excl inp 33) 33
      (.test (.pres 31) (.read 31 (.ret 0)) (.read 0 (.read 24 (.ret 1)))) [] := by
  have hs : (TTab P excl).shape 33 = some (.test (.pres 31) (.read 31 (.ret 0)) (.read 0 (.read 24 (.ret 1)))) :=
    shpX P excl hX 33 _ (by decide) rfl
  refine cohM_test (TTab_ok P excl) inp (.s 0) 18 rankOf_lt 33 _ _ _ hs hi rfl rfl ?_
  intro _ hf
  have ht := feasibleM_pres_false inp hf
  simp only [evalShape, List.nil_append, List.cons_append]
  show leafGen P.base P.rest 33 0 [den P excl inp 31] = leafGen P.base P.rest 33 1 [den P excl inp 0, den P excl inp 24]
  have key := C08.gdet_coherent (E P excl inp) (assembled_E P excl inp hX hM ht) (gammadet_E P excl inp hX hM)
  show Val.s (gdet__gdown4 _) = Val.s (gdet__dflt _)
  exact congrArg Val.s key

end gdet

end AurelVerif.C01Tab
