/-
Props/C19.lean — kinematics of the default (Eulerian) observers (property C19).

With the code's default fluid state (W = 1, v = 0) the fluid 4-velocity is the
unit normal; given the generated 4-D Christoffel symbols `st_Gamma_udd4`
(re-derived from core.py on every run) the generated gradient
`st_covd_udown4` is `∇_μ n_ν = −K_μν − n_μ D_ν ln α` component by component,
the acceleration is `D_i ln α` with vanishing component along `n`, the
expansion is `−K`, the shear `−A_ij` and the vorticity 0.
Exact arithmetic, every field, `D` only needs `D 0 = 0` and `D (−f) = −D f`
(true of the real finite-difference operators: C07 linearity).
-/
import AurelVerif.Props.C09
import AurelVerif.Gen.CoreCurv

set_option linter.unusedSimpArgs false
set_option linter.unusedVariables false

namespace AurelVerif.C19
open AurelVerif.Gen.Core AurelVerif.Tensor AurelVerif.CoreTac AurelVerif.C08 AurelVerif.C09

variable {K : Type} [Field K]

/-- the default fluid state of the code: `w_lorentz = 1`, `velx = vely = velz = 0`. -/
structure Eulerian (e : Env K) : Prop where
  hW : e.w_lorentz = w_lorentz e
  hvx : e.velx = velx e
  hvy : e.vely = vely e
  hvz : e.velz = velz e

/-- the part of linearity of the difference operators that is used. -/
structure LinD (e : Env K) : Prop where
  zero : ∀ k, e.D k 0 = 0
  neg : ∀ k f, e.D k (-f) = -e.D k f

/-! ### T1 the fluid 4-velocity is the unit normal -/

theorem u_is_normal (e : Env K) (he : Eulerian e) (hv : Velocity e) (μ : Fin 4) :
    e.uup4 μ = nup4 e μ := by
  revert μ
  cases4 <;>
    (simp only [hv.hu4, hv.hu3, hv.hu0, hv.hvel, he.hW, he.hvx, he.hvy, he.hvz, core_unfold]
     try ring)

theorem udown_is_ndown (e : Env K) (he : Eulerian e) (hv : Velocity e) (h : Assembled e)
    (ha : e.alpha ≠ 0) (μ : Fin 4) : e.udown4 μ = ndown4 e μ := by
  have h01 := h.hsym 1 0; have h02 := h.hsym 2 0; have h12 := h.hsym 2 1
  revert μ
  cases4 <;>
    (simp only [hv.hud, h.hg4, h.hgtt, h.hbm, h.hbd, hv.hu4, hv.hu3, hv.hu0, hv.hvel, he.hW, he.hvx,
       he.hvy, he.hvz, core_unfold, Fin.sum_univ_three, h01, h02, h12]
     field_simp
     ring)

/-! ### the time row of the generated 4-D Christoffel symbols -/

/-- `Γ^t_tt = (∂_tα + β^m∂_mα − β^mβ^nK_mn)/α`, `Γ^t_ti = (∂_iα − β^mK_mi)/α`, `Γ^t_ij = −K_ij/α`. -/
theorem Gamma_t_block (e : Env K) :
    st_Gamma_udd4 e 0 0 0 = (e.dtalpha + (∑ m, e.betaup3 m * e.D m e.alpha)
        - ∑ m, ∑ n, e.betaup3 m * e.betaup3 n * e.Kdown3 m n) / e.alpha
    ∧ (∀ i : Fin 3, st_Gamma_udd4 e 0 0 i.succ = (e.D i e.alpha - ∑ m, e.betaup3 m * e.Kdown3 m i) / e.alpha
        ∧ st_Gamma_udd4 e 0 i.succ 0 = (e.D i e.alpha - ∑ m, e.betaup3 m * e.Kdown3 m i) / e.alpha)
    ∧ ∀ i j : Fin 3, st_Gamma_udd4 e 0 i.succ j.succ = -e.Kdown3 i j / e.alpha := by
  refine ⟨?_, ?_, ?_⟩
  · unfold_core; ring
  · cases3 <;> (constructor <;> (unfold_core; try ring))
  · cases3 <;> cases3 <;> (unfold_core; try ring)

/-! ### T2 the gradient of the normal -/

/-- the generated `st_covd_udown4` for Eulerian observers, in terms of the cached
Christoffel symbols: `∇_μ n_ν = ∂_μ n_ν + α Γ^t_{μν}` with `∂_t n_0 = −∂_tα`
(the lower-index component; this is what the `fix:` of the time derivative restored). -/
theorem grad_n_raw (e : Env K) (hD : LinD e) (hud : ∀ μ, e.udown4 μ = ndown4 e μ)
    (hu3 : e.udown3 = udown3 e) (hW : e.w_lorentz = 1) :
    st_covd_udown4 e 0 0 = -e.dtalpha + e.alpha * e.st_Gamma_udd4 0 0 0
    ∧ (∀ j : Fin 3, st_covd_udown4 e 0 j.succ = e.alpha * e.st_Gamma_udd4 0 0 j.succ)
    ∧ (∀ i : Fin 3, st_covd_udown4 e i.succ 0 = -e.D i e.alpha + e.alpha * e.st_Gamma_udd4 0 i.succ 0)
    ∧ ∀ i j : Fin 3, st_covd_udown4 e i.succ j.succ = e.alpha * e.st_Gamma_udd4 0 i.succ j.succ := by
  have h0 := hud 0; have h1 := hud 1; have h2 := hud 2; have h3 := hud 3
  simp only [core_unfold] at h0 h1 h2 h3
  have k0 : e.udown3 0 = 0 := by rw [hu3]; simp only [core_unfold, h1]
  have k1 : e.udown3 1 = 0 := by rw [hu3]; simp only [core_unfold, h2]
  have k2 : e.udown3 2 = 0 := by rw [hu3]; simp only [core_unfold, h3]
  refine ⟨?_, ?_, ?_, ?_⟩
  · simp only [core_unfold, h0, h1, h2, h3, k0, k1, k2, hW]; ring
  · cases3 <;> (simp only [core_unfold, h0, h1, h2, h3, k0, k1, k2, hW]; ring)
  · cases3 <;> (simp only [core_unfold, h0, h1, h2, h3, k0, k1, k2, hW, hD.neg, hD.zero]; ring)
  · cases3 <;> cases3 <;> (simp only [core_unfold, h0, h1, h2, h3, k0, k1, k2, hW, hD.neg, hD.zero]; ring)

/-- **`∇_i n_j = −K_ij`, `∇_t n_j = ∂_jα − β^mK_mj`, `∇_i n_t = −β^mK_mi`,
`∇_t n_t = β^m∂_mα − β^mβ^nK_mn`** i.e. `∇_μ n_ν = −K_μν − n_μ ∂_ν ln α` with
`K_μν` the 4-D extension of `K_ij` (`s_to_st`). -/
theorem grad_n (e : Env K) (hD : LinD e) (hud : ∀ μ, e.udown4 μ = ndown4 e μ)
    (hu3 : e.udown3 = udown3 e) (hW : e.w_lorentz = 1) (ha : e.alpha ≠ 0)
    (hG : e.st_Gamma_udd4 = st_Gamma_udd4 e) :
    st_covd_udown4 e 0 0 = (∑ m, e.betaup3 m * e.D m e.alpha) - ∑ m, ∑ n, e.betaup3 m * e.betaup3 n * e.Kdown3 m n
    ∧ (∀ j : Fin 3, st_covd_udown4 e 0 j.succ = e.D j e.alpha - ∑ m, e.betaup3 m * e.Kdown3 m j)
    ∧ (∀ i : Fin 3, st_covd_udown4 e i.succ 0 = -∑ m, e.betaup3 m * e.Kdown3 m i)
    ∧ ∀ i j : Fin 3, st_covd_udown4 e i.succ j.succ = -e.Kdown3 i j := by
  obtain ⟨r00, r0j, ri0, rij⟩ := grad_n_raw e hD hud hu3 hW
  obtain ⟨g00, g0i, gij⟩ := Gamma_t_block e
  refine ⟨?_, ?_, ?_, ?_⟩
  · rw [r00, hG, g00]; field_simp; ring
  · intro j; rw [r0j j, hG, (g0i j).1]; field_simp
  · intro i; rw [ri0 i, hG, (g0i i).2]; field_simp; ring
  · intro i j; rw [rij i j, hG, gij i j]; field_simp

/-! ### T6 acceleration -/

theorem acceleration_spec (e : Env K) (ν : Fin 4) :
    accelerationdown4 e ν = ∑ μ, e.uup4 μ * e.st_covd_udown4 μ ν := by
  revert ν; cases4 <;> unfold_core

/-- **`a_i = ∂_iα/α`, `a_t = β^i∂_iα/α`, `a_μ n^μ = 0`** when the cached gradient is
the generated one (`grad_n`), `u = n`, `K` symmetric. -/
theorem acceleration_eulerian (e : Env K) (ha : e.alpha ≠ 0) (hK : Sym e.Kdown3)
    (hu : ∀ μ, e.uup4 μ = nup4 e μ)
    (c00 : e.st_covd_udown4 0 0 = (∑ m, e.betaup3 m * e.D m e.alpha) - ∑ m, ∑ n, e.betaup3 m * e.betaup3 n * e.Kdown3 m n)
    (c0j : ∀ j : Fin 3, e.st_covd_udown4 0 j.succ = e.D j e.alpha - ∑ m, e.betaup3 m * e.Kdown3 m j)
    (ci0 : ∀ i : Fin 3, e.st_covd_udown4 i.succ 0 = -∑ m, e.betaup3 m * e.Kdown3 m i)
    (cij : ∀ i j : Fin 3, e.st_covd_udown4 i.succ j.succ = -e.Kdown3 i j) :
    (∀ i : Fin 3, accelerationdown4 e i.succ = e.D i e.alpha / e.alpha)
    ∧ accelerationdown4 e 0 = (∑ m, e.betaup3 m * e.D m e.alpha) / e.alpha
    ∧ ∑ μ, accelerationdown4 e μ * nup4 e μ = 0 := by
  have h01 := hK 1 0; have h02 := hK 2 0; have h12 := hK 2 1
  have u0 := hu 0; have u1 := hu 1; have u2 := hu 2; have u3 := hu 3
  have a0 := c0j 0; have a1 := c0j 1; have a2 := c0j 2
  have b0 := ci0 0; have b1 := ci0 1; have b2 := ci0 2
  have d00 := cij 0 0; have d01 := cij 0 1; have d02 := cij 0 2
  have d10 := cij 1 0; have d11 := cij 1 1; have d12 := cij 1 2
  have d20 := cij 2 0; have d21 := cij 2 1; have d22 := cij 2 2
  simp only [core_unfold, Fin.sum_univ_three] at u0 u1 u2 u3 a0 a1 a2 b0 b1 b2 d00 d01 d02 d10 d11 d12 d20 d21 d22 c00
  have e1 : accelerationdown4 e 1 = e.D 0 e.alpha / e.alpha := by
    simp only [core_unfold, u0, u1, u2, u3, a0, d00, d10, d20, h01, h02, h12]; field_simp; ring
  have e2 : accelerationdown4 e 2 = e.D 1 e.alpha / e.alpha := by
    simp only [core_unfold, u0, u1, u2, u3, a1, d01, d11, d21, h01, h02, h12]; field_simp; ring
  have e3 : accelerationdown4 e 3 = e.D 2 e.alpha / e.alpha := by
    simp only [core_unfold, u0, u1, u2, u3, a2, d02, d12, d22, h01, h02, h12]; field_simp; ring
  have e0 : accelerationdown4 e 0 = (e.betaup3 0 * e.D 0 e.alpha + e.betaup3 1 * e.D 1 e.alpha
      + e.betaup3 2 * e.D 2 e.alpha) / e.alpha := by
    simp only [core_unfold, u0, u1, u2, u3, c00, b0, b1, b2, h01, h02, h12]; field_simp; ring
  refine ⟨?_, ?_, ?_⟩
  · cases3
    · simpa only [core_unfold] using e1
    · simpa only [core_unfold] using e2
    · simpa only [core_unfold] using e3
  · simp only [Fin.sum_univ_three]; exact e0
  · simp only [Fin.sum_univ_four, e0, e1, e2, e3]
    simp only [core_unfold]; field_simp; ring

/-! ### T3–T5 expansion, shear, vorticity -/

/-- the spatial projection `h^a_b ∇_a u_c`, and its symmetric / antisymmetric parts. -/
theorem projections_spec (e : Env K) (b c : Fin 4) :
    s_covd_udown4 e b c = ∑ a, e.hmixed4 a b * e.st_covd_udown4 a c
    ∧ thetadown4 e b c = (e.s_covd_udown4 b c + e.s_covd_udown4 c b) * (1 / 2)
    ∧ omegadown4 e b c = (e.s_covd_udown4 b c - e.s_covd_udown4 c b) * (1 / 2)
    ∧ sheardown4 e b c = e.thetadown4 b c - (1 / 3) * e.theta * e.hdown4 b c := by
  revert b c; cases4 <;> cases4 <;> (refine ⟨?_, rfl, rfl, rfl⟩; unfold_core)

theorem theta_spec (e : Env K) : theta e = ∑ a, ∑ b, e.hup4 a b * e.thetadown4 a b := by
  unfold_core; ring

/-- for Eulerian observers `h^a_b = δ^a_b + n^a n_b` has rows `h^a_0 = (0, β^i)`, `h^a_j = δ^a_j`;
then the projected gradient is `−K_μν` (4-D extension), hence symmetric: the
vorticity vanishes and `θ_ij = −K_ij`. -/
theorem projected_gradient_eulerian (e : Env K) (hK : Sym e.Kdown3)
    (hh0 : e.hmixed4 0 0 = 0 ∧ ∀ i : Fin 3, e.hmixed4 i.succ 0 = e.betaup3 i)
    (hhj : ∀ j : Fin 3, e.hmixed4 0 j.succ = 0 ∧ ∀ i : Fin 3, e.hmixed4 i.succ j.succ = delta i j)
    (ci0 : ∀ i : Fin 3, e.st_covd_udown4 i.succ 0 = -∑ m, e.betaup3 m * e.Kdown3 m i)
    (cij : ∀ i j : Fin 3, e.st_covd_udown4 i.succ j.succ = -e.Kdown3 i j) :
    (∀ i j : Fin 3, s_covd_udown4 e i.succ j.succ = -e.Kdown3 i j)
    ∧ (∀ j : Fin 3, s_covd_udown4 e 0 j.succ = -∑ m, e.betaup3 m * e.Kdown3 m j
        ∧ s_covd_udown4 e j.succ 0 = -∑ m, e.betaup3 m * e.Kdown3 m j)
    ∧ s_covd_udown4 e 0 0 = -∑ m, ∑ n, e.betaup3 m * e.betaup3 n * e.Kdown3 m n := by
  have h01 := hK 1 0; have h02 := hK 2 0; have h12 := hK 2 1
  obtain ⟨p00, pi0⟩ := hh0
  have q0 := pi0 0; have q1 := pi0 1; have q2 := pi0 2
  have r0 := hhj 0; have r1 := hhj 1; have r2 := hhj 2
  have s00 := r0.2 0; have s10 := r0.2 1; have s20 := r0.2 2
  have s01 := r1.2 0; have s11 := r1.2 1; have s21 := r1.2 2
  have s02 := r2.2 0; have s12 := r2.2 1; have s22 := r2.2 2
  have t0 := r0.1; have t1 := r1.1; have t2 := r2.1
  have b0 := ci0 0; have b1 := ci0 1; have b2 := ci0 2
  have d00 := cij 0 0; have d01 := cij 0 1; have d02 := cij 0 2
  have d10 := cij 1 0; have d11 := cij 1 1; have d12 := cij 1 2
  have d20 := cij 2 0; have d21 := cij 2 1; have d22 := cij 2 2
  simp only [core_unfold, Fin.sum_univ_three, delta] at q0 q1 q2 s00 s10 s20 s01 s11 s21 s02 s12 s22 t0 t1 t2 b0 b1 b2 d00 d01 d02 d10 d11 d12 d20 d21 d22
  simp only [Fin.isValue, Fin.reduceEq, if_true, if_false] at s00 s10 s20 s01 s11 s21 s02 s12 s22
  refine ⟨?_, ?_, ?_⟩
  · cases3 <;> cases3 <;>
      (simp only [core_unfold, p00, q0, q1, q2, s00, s10, s20, s01, s11, s21, s02, s12, s22, t0, t1, t2,
        d00, d01, d02, d10, d11, d12, d20, d21, d22]; ring)
  · cases3 <;>
      (constructor <;>
        (simp only [core_unfold, Fin.sum_univ_three, p00, q0, q1, q2, s00, s10, s20, s01, s11, s21, s02, s12, s22,
          t0, t1, t2, b0, b1, b2, d00, d01, d02, d10, d11, d12, d20, d21, d22, h01, h02, h12]; ring))
  · simp only [core_unfold, Fin.sum_univ_three, p00, q0, q1, q2, b0, b1, b2, h01, h02, h12]; ring

/-- **vorticity vanishes**: the projected gradient above is symmetric. -/
theorem omega_vanishes (e : Env K) (hK : Sym e.Kdown3)
    (sij : ∀ i j : Fin 3, e.s_covd_udown4 i.succ j.succ = -e.Kdown3 i j)
    (s0j : ∀ j : Fin 3, e.s_covd_udown4 0 j.succ = e.s_covd_udown4 j.succ 0) (μ ν : Fin 4) :
    omegadown4 e μ ν = 0 := by
  have h01 := hK 1 0; have h02 := hK 2 0; have h12 := hK 2 1
  have a0 := s0j 0; have a1 := s0j 1; have a2 := s0j 2
  have d01 := sij 0 1; have d02 := sij 0 2; have d10 := sij 1 0; have d12 := sij 1 2
  have d20 := sij 2 0; have d21 := sij 2 1
  simp only [core_unfold] at a0 a1 a2 d01 d02 d10 d12 d20 d21
  revert μ ν
  cases4 <;> cases4 <;>
    (simp only [core_unfold, a0, a1, a2, d01, d02, d10, d12, d20, d21, h01, h02, h12]; ring)

/-- **expansion `θ = −K`**: with `h^{ab} = diag(0, γ^{ij})` and `θ_ij = −K_ij`. -/
theorem theta_is_minus_K (e : Env K)
    (hh : (∀ μ, e.hup4 0 μ = 0 ∧ e.hup4 μ 0 = 0) ∧ ∀ i j : Fin 3, e.hup4 i.succ j.succ = e.gammaup3 i j)
    (tij : ∀ i j : Fin 3, e.thetadown4 i.succ j.succ = -e.Kdown3 i j) :
    theta e = -∑ i, ∑ j, e.gammaup3 i j * e.Kdown3 i j := by
  obtain ⟨hz, hs⟩ := hh
  have z0 := hz 0; have z1 := hz 1; have z2 := hz 2; have z3 := hz 3
  have g00 := hs 0 0; have g01 := hs 0 1; have g02 := hs 0 2
  have g10 := hs 1 0; have g11 := hs 1 1; have g12 := hs 1 2
  have g20 := hs 2 0; have g21 := hs 2 1; have g22 := hs 2 2
  have t00 := tij 0 0; have t01 := tij 0 1; have t02 := tij 0 2
  have t10 := tij 1 0; have t11 := tij 1 1; have t12 := tij 1 2
  have t20 := tij 2 0; have t21 := tij 2 1; have t22 := tij 2 2
  simp only [core_unfold] at g00 g01 g02 g10 g11 g12 g20 g21 g22 t00 t01 t02 t10 t11 t12 t20 t21 t22
  simp only [core_unfold, Fin.sum_univ_three, z0.1, z1.1, z1.2, z2.1, z2.2, z3.1, z3.2,
    g00, g01, g02, g10, g11, g12, g20, g21, g22, t00, t01, t02, t10, t11, t12, t20, t21, t22]
  ring

/-- **shear `σ_ij = −A_ij`**: with `θ_ij = −K_ij`, `θ = −K`, `h_ij = γ_ij`. -/
theorem shear_is_minus_A (e : Env K) (i j : Fin 3)
    (tij : e.thetadown4 i.succ j.succ = -e.Kdown3 i j)
    (hth : e.theta = -∑ a, ∑ b, e.gammaup3 a b * e.Kdown3 a b)
    (hh : e.hdown4 i.succ j.succ = e.gammadown3 i j) :
    sheardown4 e i.succ j.succ = -Adown3 e i j := by
  rw [(projections_spec e i.succ j.succ).2.2.2, tij, hth, hh, Adown3_spec]
  ring

end AurelVerif.C19
