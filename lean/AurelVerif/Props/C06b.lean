/-
Props/C06b.lean — property C06, Layer B (consistency) for `dtAdown3_bssnok`:
the value the code computes IS `∂_t Ã_ij` for `Ã_ij = ψ⁻⁴ (K_ij − γ_ij K/3)`.

Hypotheses (all about the CONTINUUM meaning; the finite-difference operators do not obey the product rule):
  * `∂_tγ_ij = −2αK_ij + L_βγ_ij`                 (kinematic relation, definition of K_ij),
  * `∂_tK_ij` = ADM evolution equation [BS] (2.135) with Λ (`ADM.dtKdown`; vacuum: κ = ρ = S_ij = Λ = 0),
  * `∂_tφ` = the φ-equation (`ADM.dtPhi`; this is `dtphi_bssnok`, derived in `C06.dtphi_bssnok_is_dt`),
  * `∂_tγ^ij` = `dtgammaup3` (derived in `C06.dtgammaup3_is_dt`),
  * product rule for `∂_t`, `∂_s` on `K = γ^ijK_ij`, on `Ã_ij = p(K_ij − γ_ijK/3)`, `∂p = −4p∂φ` for `p = ψ⁻⁴ = e^{−4φ}`,
  * `γ^ij` two-sided inverse of `γ_ij`, `γ̃^ij = p⁻¹γ^ij`, symmetric `γ_ij, γ^ij, K_ij`,
  * the Ricci tensor of the ADM equation is the sum `R̃_ij + R^φ_ij` the code uses ([A] (2.8.16); NOT proven here).
NO constraint is assumed: `∂_tK` enters as `∂_t(γ^ijK_ij)` by the product rule.  `dtAdown3_bssnok_via_dtKtrace`
restates the result with the code's `dtKtrace` in place of `∂_tK`; that form needs the Hamiltonian constraint
(inherited from `C06.dtKtrace_is_dt_trace`).

Both branches of `vacuum` are covered.  Non-vacuity: a Bianchi-I point with anisotropic `K_ij` on which every
algebraic term (lapse, K Ã, Ã Ã, matter, Λ, ∂_tφ) contributes; the shift terms are exercised by the generic
identity `C06Deriv.lie_weighted_conformal` / `dt_minus_lie_trace` (ring identities in the jets).
-/
import AurelVerif.Props.C06
import AurelVerif.Lemmas.C06DtA

set_option linter.unusedSimpArgs false
set_option linter.unusedVariables false

namespace AurelVerif.C06
open AurelVerif.Gen.Core AurelVerif.Tensor AurelVerif.CoreTac AurelVerif.C08 AurelVerif.Spec.Covd AurelVerif.Spec

variable {K : Type} [Field K]

/-- the vacuum equation is the matter equation with `S_ij = 0`. -/
theorem dtATildeVac_eq (β : Fin 3 → K) (dβ : Fin 3 → Fin 3 → K) (dAt : Fin 3 → Fin 3 → Fin 3 → K)
    (At γtup γ γup DDα Ric : Fin 3 → Fin 3 → K) (em4φ α Ktr κ : K) (i j : Fin 3) :
    ADM.dtATildeVac β dβ dAt At γtup γ γup DDα Ric em4φ α Ktr i j
      = ADM.dtATilde β dβ dAt At γtup γ γup DDα Ric (fun _ _ => 0) em4φ α Ktr κ i j := by
  simp only [ADM.dtATildeVac, ADM.dtATilde, ADM.tf, mul_zero, sub_zero]

/-- **`dtAdown3_bssnok` (matter branch) is `∂_t(p (K_ij − γ_ij K/3))`** in jet form:
`dtG, dtU, dtKd, dtφ` are the t-derivatives of `γ_ij, γ^ij, K_ij, φ`; `e.D s x` the x-derivatives; `p = ψ⁻⁴`, `q = ψ⁴`.
Right-hand side: `p ∂_tA_ij + (∂_tp) A_ij` with `∂_tA_ij = ∂_tK_ij − (∂_tγ_ij K + γ_ij ∂_tK)/3`,
`∂_tK = (∂_tγ^ab)K_ab + γ^ab∂_tK_ab`, `∂_tp = −4p∂_tφ`. -/
theorem dtAdown3_bssnok_is_dt_conformal (e : Env K) (dtG dtU dtKd Ric : Fin 3 → Fin 3 → K) (dtφ p q : K)
    (h2 : (2 : K) ≠ 0) (h3 : (3 : K) ≠ 0)
    (hsymG : Sym e.gammadown3) (hsymU : Sym e.gammaup3) (hsymK : Sym e.Kdown3)
    (hUG : ∀ i k : Fin 3, ∑ j, e.gammaup3 i j * e.gammadown3 j k = delta i k)
    (hGU : ∀ i k : Fin 3, ∑ j, e.gammadown3 i j * e.gammaup3 j k = delta i k)
    (hKup : e.Kup3 = Kup3 e) (hKt : e.Ktrace = Ktrace e)
    (hS : e.Stresstrace_n = ∑ i, ∑ j, e.gammaup3 i j * e.Stressdown3_n i j)
    (hpq : p * q = 1) (hexp : e.expF (-4 * e.phi_bssnok) = p)
    (hAt : ∀ i j, e.Adown3_bssnok i j = p * e.Adown3 i j) (hA : e.Adown3 = Adown3 e)
    (hUt : ∀ i j, e.gammaup3_bssnok i j = q * e.gammaup3 i j)
    (hRic : ∀ i j, RicSum e i j = Ric i j)
    (hdK : ∀ s, e.D s e.Ktrace
        = ∑ i, ∑ j, (e.D s (e.gammaup3 i j) * e.Kdown3 i j + e.gammaup3 i j * e.D s (e.Kdown3 i j)))
    (hdsA : ∀ s a b, e.D s (e.Adown3_bssnok a b)
        = p * (e.D s (e.Kdown3 a b) - (1 / 3) * (e.D s (e.gammadown3 a b) * e.Ktrace + e.gammadown3 a b * e.D s e.Ktrace))
          + (-4 * p * e.D s e.phi_bssnok) * (e.Kdown3 a b - (1 / 3) * e.gammadown3 a b * e.Ktrace))
    (hφ : dtφ = ADM.dtPhi e.betaup3 (grad e e.phi_bssnok) (dβ e) e.alpha e.Ktrace)
    (hkin : ∀ i j : Fin 3, dtG i j = -2 * e.alpha * e.Kdown3 i j
        + lieDD e.betaup3 (dβ e) (pd2 e.D e.gammadown3) e.gammadown3 i j)
    (hdtU : ∀ i j, dtU i j = dtgammaup3 e i j)
    (hadm : ∀ i j, dtKd i j = ADM.dtKdown e.betaup3 (dβ e) (pd2 e.D e.Kdown3) e.Kdown3 e.gammadown3 e.gammaup3
        e.DDalpha Ric e.Stressdown3_n e.alpha e.Ktrace e.kappa e.rho_n e.Stresstrace_n e.Lambda i j)
    (i j : Fin 3) :
    dtAdown3_bssnok__dflt_matter e i j
      = p * (dtKd i j - (1 / 3) * (dtG i j * e.Ktrace
            + e.gammadown3 i j * ∑ a, ∑ b, (dtU a b * e.Kdown3 a b + e.gammaup3 a b * dtKd a b)))
        + (-4 * p * dtφ) * (e.Kdown3 i j - (1 / 3) * e.gammadown3 i j * e.Ktrace) := by
  rw [(dtAdown3_bssnok_spec e i j).1, hexp]
  have hR : RicSum e = Ric := by funext a b; exact hRic a b
  rw [hR]
  have hKu : ∀ a b, e.Kup3 a b = ∑ i, ∑ j, e.gammaup3 i a * e.gammaup3 j b * e.Kdown3 i j := by
    intro a b; rw [hKup]; exact Kup3_spec e a b
  have hT : e.Ktrace = ∑ i, ∑ j, e.gammaup3 i j * e.Kdown3 i j := by rw [hKt]; exact Ktrace_spec e
  have hAs : ∀ a b, e.Adown3_bssnok a b = p * (e.Kdown3 a b - (1 / 3) * e.gammadown3 a b * e.Ktrace) := by
    intro a b; rw [hAt, hA, Adown3_spec, ← hT]
  exact C06Deriv.dt_Atilde e.gammadown3 e.gammaup3 e.Kdown3 e.Kup3 dtG dtU dtKd e.DDalpha Ric e.Stressdown3_n
    e.Adown3_bssnok e.gammaup3_bssnok (pd2 e.D e.gammadown3) (pd2 e.D e.gammaup3) (pd2 e.D e.Kdown3)
    (pd2 e.D e.Adown3_bssnok) e.betaup3 (dβ e) (grad e e.phi_bssnok) (grad e e.Ktrace) e.alpha e.Ktrace
    (∑ a, ∑ b, (dtU a b * e.Kdown3 a b + e.gammaup3 a b * dtKd a b)) dtφ p q e.kappa e.rho_n e.Stresstrace_n e.Lambda
    h2 h3 hsymG hsymU hsymK hUG hGU hKu hT hS hpq hAs hUt (fun s => hdK s) (fun s a b => hdsA s a b) hφ hkin
    (fun i j => by rw [hdtU, dtgammaup3_spec]) hadm rfl i j

/-- **vacuum branch**: the same statement with the vacuum ADM equation (`κ = ρ = S_ij = Λ = 0`). -/
theorem dtAdown3_bssnok_vacuum_is_dt_conformal (e : Env K) (dtG dtU dtKd Ric : Fin 3 → Fin 3 → K) (dtφ p q : K)
    (h2 : (2 : K) ≠ 0) (h3 : (3 : K) ≠ 0)
    (hsymG : Sym e.gammadown3) (hsymU : Sym e.gammaup3) (hsymK : Sym e.Kdown3)
    (hUG : ∀ i k : Fin 3, ∑ j, e.gammaup3 i j * e.gammadown3 j k = delta i k)
    (hGU : ∀ i k : Fin 3, ∑ j, e.gammadown3 i j * e.gammaup3 j k = delta i k)
    (hKup : e.Kup3 = Kup3 e) (hKt : e.Ktrace = Ktrace e)
    (hpq : p * q = 1) (hexp : e.expF (-4 * e.phi_bssnok) = p)
    (hAt : ∀ i j, e.Adown3_bssnok i j = p * e.Adown3 i j) (hA : e.Adown3 = Adown3 e)
    (hUt : ∀ i j, e.gammaup3_bssnok i j = q * e.gammaup3 i j)
    (hRic : ∀ i j, RicSum e i j = Ric i j)
    (hdK : ∀ s, e.D s e.Ktrace
        = ∑ i, ∑ j, (e.D s (e.gammaup3 i j) * e.Kdown3 i j + e.gammaup3 i j * e.D s (e.Kdown3 i j)))
    (hdsA : ∀ s a b, e.D s (e.Adown3_bssnok a b)
        = p * (e.D s (e.Kdown3 a b) - (1 / 3) * (e.D s (e.gammadown3 a b) * e.Ktrace + e.gammadown3 a b * e.D s e.Ktrace))
          + (-4 * p * e.D s e.phi_bssnok) * (e.Kdown3 a b - (1 / 3) * e.gammadown3 a b * e.Ktrace))
    (hφ : dtφ = ADM.dtPhi e.betaup3 (grad e e.phi_bssnok) (dβ e) e.alpha e.Ktrace)
    (hkin : ∀ i j : Fin 3, dtG i j = -2 * e.alpha * e.Kdown3 i j
        + lieDD e.betaup3 (dβ e) (pd2 e.D e.gammadown3) e.gammadown3 i j)
    (hdtU : ∀ i j, dtU i j = dtgammaup3 e i j)
    (hadm : ∀ i j, dtKd i j = ADM.dtKdown e.betaup3 (dβ e) (pd2 e.D e.Kdown3) e.Kdown3 e.gammadown3 e.gammaup3
        e.DDalpha Ric (fun _ _ => 0) e.alpha e.Ktrace 0 0 0 0 i j)
    (i j : Fin 3) :
    dtAdown3_bssnok__dflt_vacuum e i j
      = p * (dtKd i j - (1 / 3) * (dtG i j * e.Ktrace
            + e.gammadown3 i j * ∑ a, ∑ b, (dtU a b * e.Kdown3 a b + e.gammaup3 a b * dtKd a b)))
        + (-4 * p * dtφ) * (e.Kdown3 i j - (1 / 3) * e.gammadown3 i j * e.Ktrace) := by
  rw [(dtAdown3_bssnok_spec e i j).2, hexp, dtATildeVac_eq (κ := 0)]
  have hR : RicSum e = Ric := by funext a b; exact hRic a b
  rw [hR]
  have hKu : ∀ a b, e.Kup3 a b = ∑ i, ∑ j, e.gammaup3 i a * e.gammaup3 j b * e.Kdown3 i j := by
    intro a b; rw [hKup]; exact Kup3_spec e a b
  have hT : e.Ktrace = ∑ i, ∑ j, e.gammaup3 i j * e.Kdown3 i j := by rw [hKt]; exact Ktrace_spec e
  have hAs : ∀ a b, e.Adown3_bssnok a b = p * (e.Kdown3 a b - (1 / 3) * e.gammadown3 a b * e.Ktrace) := by
    intro a b; rw [hAt, hA, Adown3_spec, ← hT]
  exact C06Deriv.dt_Atilde e.gammadown3 e.gammaup3 e.Kdown3 e.Kup3 dtG dtU dtKd e.DDalpha Ric (fun _ _ => 0)
    e.Adown3_bssnok e.gammaup3_bssnok (pd2 e.D e.gammadown3) (pd2 e.D e.gammaup3) (pd2 e.D e.Kdown3)
    (pd2 e.D e.Adown3_bssnok) e.betaup3 (dβ e) (grad e e.phi_bssnok) (grad e e.Ktrace) e.alpha e.Ktrace
    (∑ a, ∑ b, (dtU a b * e.Kdown3 a b + e.gammaup3 a b * dtKd a b)) dtφ p q 0 0 0 0
    h2 h3 hsymG hsymU hsymK hUG hGU hKu hT (by simp) hpq hAs hUt (fun s => hdK s) (fun s a b => hdsA s a b) hφ hkin
    (fun i j => by rw [hdtU, dtgammaup3_spec]) hadm rfl i j

/-- **the same with the code's `dtKtrace` in place of `∂_tK`**: when, in addition, the Hamiltonian constraint holds
(needed by the BSSNOK form of `∂_tK`, see `dtKtrace_is_dt_trace`), `κ ≠ 0`, and `A2_bssnok`, `s_RicciS` are the
contractions `K_ijK^ij − K²/3`, `γ^ijR_ij`. -/
theorem dtAdown3_bssnok_via_dtKtrace (e : Env K) (dtG dtU dtKd Ric : Fin 3 → Fin 3 → K) (dtφ p q : K)
    (h2 : (2 : K) ≠ 0) (h3 : (3 : K) ≠ 0) (hκ : e.kappa ≠ 0)
    (hsymG : Sym e.gammadown3) (hsymU : Sym e.gammaup3) (hsymK : Sym e.Kdown3)
    (hUG : ∀ i k : Fin 3, ∑ j, e.gammaup3 i j * e.gammadown3 j k = delta i k)
    (hGU : ∀ i k : Fin 3, ∑ j, e.gammadown3 i j * e.gammaup3 j k = delta i k)
    (hKup : e.Kup3 = Kup3 e) (hKt : e.Ktrace = Ktrace e)
    (hS : e.Stresstrace_n = ∑ i, ∑ j, e.gammaup3 i j * e.Stressdown3_n i j)
    (hR : e.s_RicciS = ∑ i, ∑ j, e.gammaup3 i j * Ric i j)
    (hA2 : e.A2_bssnok = (∑ i, ∑ j, e.Kdown3 i j * e.Kup3 i j) - (1 / 3) * e.Ktrace ^ 2)
    (hpq : p * q = 1) (hexp : e.expF (-4 * e.phi_bssnok) = p)
    (hAt : ∀ i j, e.Adown3_bssnok i j = p * e.Adown3 i j) (hA : e.Adown3 = Adown3 e)
    (hUt : ∀ i j, e.gammaup3_bssnok i j = q * e.gammaup3 i j)
    (hRic : ∀ i j, RicSum e i j = Ric i j)
    (hdK : ∀ s, e.D s e.Ktrace
        = ∑ i, ∑ j, (e.D s (e.gammaup3 i j) * e.Kdown3 i j + e.gammaup3 i j * e.D s (e.Kdown3 i j)))
    (hdsA : ∀ s a b, e.D s (e.Adown3_bssnok a b)
        = p * (e.D s (e.Kdown3 a b) - (1 / 3) * (e.D s (e.gammadown3 a b) * e.Ktrace + e.gammadown3 a b * e.D s e.Ktrace))
          + (-4 * p * e.D s e.phi_bssnok) * (e.Kdown3 a b - (1 / 3) * e.gammadown3 a b * e.Ktrace))
    (hφ : dtφ = ADM.dtPhi e.betaup3 (grad e e.phi_bssnok) (dβ e) e.alpha e.Ktrace)
    (hkin : ∀ i j : Fin 3, dtG i j = -2 * e.alpha * e.Kdown3 i j
        + lieDD e.betaup3 (dβ e) (pd2 e.D e.gammadown3) e.gammadown3 i j)
    (hdtU : ∀ i j, dtU i j = dtgammaup3 e i j)
    (hadm : ∀ i j, dtKd i j = ADM.dtKdown e.betaup3 (dβ e) (pd2 e.D e.Kdown3) e.Kdown3 e.gammadown3 e.gammaup3
        e.DDalpha Ric e.Stressdown3_n e.alpha e.Ktrace e.kappa e.rho_n e.Stresstrace_n e.Lambda i j)
    (hham : Hamiltonian__dflt_matter e = 0)
    (i j : Fin 3) :
    dtAdown3_bssnok__dflt_matter e i j
      = p * (dtKd i j - (1 / 3) * (dtG i j * e.Ktrace + e.gammadown3 i j * dtKtrace__dflt_matter e))
        + (-4 * p * dtφ) * (e.Kdown3 i j - (1 / 3) * e.gammadown3 i j * e.Ktrace) := by
  rw [dtKtrace_is_dt_trace e dtU dtKd Ric h2 hκ hsymU hsymK hUG hKup hKt hS hR hA2 hdK hdtU hadm hham]
  exact dtAdown3_bssnok_is_dt_conformal e dtG dtU dtKd Ric dtφ p q h2 h3 hsymG hsymU hsymK hUG hGU hKup hKt hS hpq hexp
    hAt hA hUt hRic hdK hdsA hφ hkin hdtU hadm i j

/-! ### operator form: `∂_t`, `∂_s` additive and obeying the product rule (`C06Deriv.Deriv`) -/

/-- for a derivation on values, `d(γ^ijK_ij) = (dγ^ij)K_ij + γ^ij dK_ij`. -/
theorem deriv_trace {d : K → K} (h : C06Deriv.Deriv d) (U Kd : Fin 3 → Fin 3 → K) :
    d (∑ i, ∑ j, U i j * Kd i j) = ∑ i, ∑ j, (d (U i j) * Kd i j + U i j * d (Kd i j)) := by
  simp only [Fin.sum_univ_three, h.add, h.mul]

/-- for a derivation on values with `d p = −4 p dφ`:
`d (p (K_ij − (1/3) γ_ij K)) = p (dK_ij − (dγ_ij K + γ_ij dK)/3) + (−4 p dφ)(K_ij − γ_ij K/3)`. -/
theorem deriv_Atilde {d : K → K} (h : C06Deriv.Deriv d) (h3 : (3 : K) ≠ 0) (p dφ Kij Gij T : K)
    (hp : d p = -4 * p * dφ) :
    d (p * (Kij - (1 / 3) * Gij * T))
      = p * (d Kij - (1 / 3) * (d Gij * T + Gij * d T)) + (-4 * p * dφ) * (Kij - (1 / 3) * Gij * T) := by
  rw [h.mul, h.sub, mul_assoc, h.third h3, h.mul, hp]
  ring

/-- **`dtAdown3_bssnok = ∂_t Ã_ij`** (matter branch) for every additive `∂_t`, `∂_s` obeying the product rule, with
`∂_tγ_ij` = kinematic relation, `∂_tK_ij` = ADM equation, `∂_tφ` = φ-equation, `∂p = −4p∂φ` (p = ψ⁻⁴ = e^{−4φ}). -/
theorem dtAdown3_bssnok_is_dt (e : Env K) (Dt : K → K) (hDt : C06Deriv.Deriv Dt) (hD : ∀ s, C06Deriv.Deriv (e.D s))
    (Ric : Fin 3 → Fin 3 → K) (p q : K) (h2 : (2 : K) ≠ 0) (h3 : (3 : K) ≠ 0)
    (hsymG : Sym e.gammadown3) (hsymU : Sym e.gammaup3) (hsymK : Sym e.Kdown3)
    (hUG : ∀ i k : Fin 3, ∑ j, e.gammaup3 i j * e.gammadown3 j k = delta i k)
    (hGU : ∀ i k : Fin 3, ∑ j, e.gammadown3 i j * e.gammaup3 j k = delta i k)
    (hKup : e.Kup3 = Kup3 e) (hKt : e.Ktrace = Ktrace e)
    (hS : e.Stresstrace_n = ∑ i, ∑ j, e.gammaup3 i j * e.Stressdown3_n i j)
    (hpq : p * q = 1) (hexp : e.expF (-4 * e.phi_bssnok) = p)
    (hAt : ∀ i j, e.Adown3_bssnok i j = p * e.Adown3 i j) (hA : e.Adown3 = Adown3 e)
    (hUt : ∀ i j, e.gammaup3_bssnok i j = q * e.gammaup3 i j)
    (hRic : ∀ i j, RicSum e i j = Ric i j)
    (hpt : Dt p = -4 * p * Dt e.phi_bssnok) (hps : ∀ s, e.D s p = -4 * p * e.D s e.phi_bssnok)
    (hφ : Dt e.phi_bssnok = ADM.dtPhi e.betaup3 (grad e e.phi_bssnok) (dβ e) e.alpha e.Ktrace)
    (hkin : ∀ i j : Fin 3, Dt (e.gammadown3 i j) = -2 * e.alpha * e.Kdown3 i j
        + lieDD e.betaup3 (dβ e) (pd2 e.D e.gammadown3) e.gammadown3 i j)
    (hadm : ∀ i j, Dt (e.Kdown3 i j) = ADM.dtKdown e.betaup3 (dβ e) (pd2 e.D e.Kdown3) e.Kdown3 e.gammadown3
        e.gammaup3 e.DDalpha Ric e.Stressdown3_n e.alpha e.Ktrace e.kappa e.rho_n e.Stresstrace_n e.Lambda i j)
    (i j : Fin 3) : dtAdown3_bssnok__dflt_matter e i j = Dt (e.Adown3_bssnok i j) := by
  have hT : e.Ktrace = ∑ i, ∑ j, e.gammaup3 i j * e.Kdown3 i j := by rw [hKt]; exact Ktrace_spec e
  have hAs : ∀ a b, e.Adown3_bssnok a b = p * (e.Kdown3 a b - (1 / 3) * e.gammadown3 a b * e.Ktrace) := by
    intro a b; rw [hAt, hA, Adown3_spec, ← hT]
  have hdtU : ∀ a b, Dt (e.gammaup3 a b) = dtgammaup3 e a b := fun a b =>
    (dtgammaup3_is_dt e Dt hDt hD hUG hGU hsymU hKup hkin a b).symm
  have hdT : ∀ {d : K → K}, C06Deriv.Deriv d → d e.Ktrace
      = ∑ i, ∑ j, (d (e.gammaup3 i j) * e.Kdown3 i j + e.gammaup3 i j * d (e.Kdown3 i j)) := by
    intro d hd
    conv_lhs => rw [hT]
    exact deriv_trace hd e.gammaup3 e.Kdown3
  rw [dtAdown3_bssnok_is_dt_conformal e (fun a b => Dt (e.gammadown3 a b)) (fun a b => Dt (e.gammaup3 a b))
    (fun a b => Dt (e.Kdown3 a b)) Ric (Dt e.phi_bssnok) p q h2 h3 hsymG hsymU hsymK hUG hGU hKup hKt hS hpq hexp hAt hA
    hUt hRic (fun s => hdT (hD s))
    (fun s a b => by rw [hAs, deriv_Atilde (hD s) h3 p (e.D s e.phi_bssnok) _ _ _ (hps s)])
    hφ hkin hdtU hadm i j]
  rw [hAs, deriv_Atilde hDt h3 p (Dt e.phi_bssnok) _ _ _ hpt, hdT hDt]

/-- **`dtAdown3_bssnok = ∂_t Ã_ij`**, vacuum branch. -/
theorem dtAdown3_bssnok_vacuum_is_dt (e : Env K) (Dt : K → K) (hDt : C06Deriv.Deriv Dt)
    (hD : ∀ s, C06Deriv.Deriv (e.D s))
    (Ric : Fin 3 → Fin 3 → K) (p q : K) (h2 : (2 : K) ≠ 0) (h3 : (3 : K) ≠ 0)
    (hsymG : Sym e.gammadown3) (hsymU : Sym e.gammaup3) (hsymK : Sym e.Kdown3)
    (hUG : ∀ i k : Fin 3, ∑ j, e.gammaup3 i j * e.gammadown3 j k = delta i k)
    (hGU : ∀ i k : Fin 3, ∑ j, e.gammadown3 i j * e.gammaup3 j k = delta i k)
    (hKup : e.Kup3 = Kup3 e) (hKt : e.Ktrace = Ktrace e)
    (hpq : p * q = 1) (hexp : e.expF (-4 * e.phi_bssnok) = p)
    (hAt : ∀ i j, e.Adown3_bssnok i j = p * e.Adown3 i j) (hA : e.Adown3 = Adown3 e)
    (hUt : ∀ i j, e.gammaup3_bssnok i j = q * e.gammaup3 i j)
    (hRic : ∀ i j, RicSum e i j = Ric i j)
    (hpt : Dt p = -4 * p * Dt e.phi_bssnok) (hps : ∀ s, e.D s p = -4 * p * e.D s e.phi_bssnok)
    (hφ : Dt e.phi_bssnok = ADM.dtPhi e.betaup3 (grad e e.phi_bssnok) (dβ e) e.alpha e.Ktrace)
    (hkin : ∀ i j : Fin 3, Dt (e.gammadown3 i j) = -2 * e.alpha * e.Kdown3 i j
        + lieDD e.betaup3 (dβ e) (pd2 e.D e.gammadown3) e.gammadown3 i j)
    (hadm : ∀ i j, Dt (e.Kdown3 i j) = ADM.dtKdown e.betaup3 (dβ e) (pd2 e.D e.Kdown3) e.Kdown3 e.gammadown3
        e.gammaup3 e.DDalpha Ric (fun _ _ => 0) e.alpha e.Ktrace 0 0 0 0 i j)
    (i j : Fin 3) : dtAdown3_bssnok__dflt_vacuum e i j = Dt (e.Adown3_bssnok i j) := by
  have hT : e.Ktrace = ∑ i, ∑ j, e.gammaup3 i j * e.Kdown3 i j := by rw [hKt]; exact Ktrace_spec e
  have hAs : ∀ a b, e.Adown3_bssnok a b = p * (e.Kdown3 a b - (1 / 3) * e.gammadown3 a b * e.Ktrace) := by
    intro a b; rw [hAt, hA, Adown3_spec, ← hT]
  have hdtU : ∀ a b, Dt (e.gammaup3 a b) = dtgammaup3 e a b := fun a b =>
    (dtgammaup3_is_dt e Dt hDt hD hUG hGU hsymU hKup hkin a b).symm
  have hdT : ∀ {d : K → K}, C06Deriv.Deriv d → d e.Ktrace
      = ∑ i, ∑ j, (d (e.gammaup3 i j) * e.Kdown3 i j + e.gammaup3 i j * d (e.Kdown3 i j)) := by
    intro d hd
    conv_lhs => rw [hT]
    exact deriv_trace hd e.gammaup3 e.Kdown3
  rw [dtAdown3_bssnok_vacuum_is_dt_conformal e (fun a b => Dt (e.gammadown3 a b)) (fun a b => Dt (e.gammaup3 a b))
    (fun a b => Dt (e.Kdown3 a b)) Ric (Dt e.phi_bssnok) p q h2 h3 hsymG hsymU hsymK hUG hGU hKup hKt hpq hexp hAt hA
    hUt hRic (fun s => hdT (hD s))
    (fun s a b => by rw [hAs, deriv_Atilde (hD s) h3 p (e.D s e.phi_bssnok) _ _ _ (hps s)])
    hφ hkin hdtU hadm i j]
  rw [hAs, deriv_Atilde hDt h3 p (Dt e.phi_bssnok) _ _ _ hpt, hdT hDt]

/-! ## Non-vacuity -/

/-- Bianchi-I point (spatially homogeneous: every x-derivative vanishes), `α = 1`, `β = 0`, `γ_ij = δ_ij`
(`ψ = 1`, `φ = 0`, `p = q = 1`), anisotropic `K_ij = diag(1,2,3)` (`K = 6`, `A_ij = diag(−1,0,1)`), `κ = 2`, `Λ = 1/2`, `ρ = 3`,
`S_ij = diag(1,2,0)` (`S = 3`); `e^x` evaluated as the constant 1 (only `e^{−4φ} = e^0` is read). -/
def exBianchi : Env ℚ :=
  { (Env.zero : Env ℚ) with
    alpha := 1, kappa := 2, Lambda := 1 / 2, rho_n := 3, Stresstrace_n := 3, expF := fun _ => 1,
    gammadown3 := vec3 (vec3 1 0 0) (vec3 0 1 0) (vec3 0 0 1),
    gammaup3 := vec3 (vec3 1 0 0) (vec3 0 1 0) (vec3 0 0 1),
    gammaup3_bssnok := vec3 (vec3 1 0 0) (vec3 0 1 0) (vec3 0 0 1),
    Kdown3 := vec3 (vec3 1 0 0) (vec3 0 2 0) (vec3 0 0 3),
    Kup3 := vec3 (vec3 1 0 0) (vec3 0 2 0) (vec3 0 0 3), Ktrace := 6,
    Adown3 := vec3 (vec3 (-1) 0 0) (vec3 0 0 0) (vec3 0 0 1),
    Adown3_bssnok := vec3 (vec3 (-1) 0 0) (vec3 0 0 0) (vec3 0 0 1),
    Stressdown3_n := vec3 (vec3 1 0 0) (vec3 0 2 0) (vec3 0 0 0) }

/-- every hypothesis of `dtAdown3_bssnok_is_dt_conformal` holds at `exBianchi` with
`∂_tγ_ij = −2K_ij`, `∂_tγ^ij = 2K^ij`, `∂_tK_ij = diag(3/2, −1/2, −1/2)` (ADM equation: `−2K_ikK^k_j + KK_ij − κS_ij − Λγ_ij`),
`∂_tφ = −K/6 = −1`, and the key evaluates to `∂_tÃ_xx = −8` (lapse·(KÃ − 2ÃÃ) = 6·(−1) − 2 = −8; right-hand side:
`3/2 − (−12 + 57/2)/3 + 4·(−1)`). -/
example :
    let dtG : Fin 3 → Fin 3 → ℚ := vec3 (vec3 (-2) 0 0) (vec3 0 (-4) 0) (vec3 0 0 (-6))
    let dtU : Fin 3 → Fin 3 → ℚ := vec3 (vec3 2 0 0) (vec3 0 4 0) (vec3 0 0 6)
    let dtKd : Fin 3 → Fin 3 → ℚ := vec3 (vec3 (3 / 2) 0 0) (vec3 0 (-1 / 2) 0) (vec3 0 0 (-1 / 2))
    let Ric : Fin 3 → Fin 3 → ℚ := fun _ _ => 0
    (Sym exBianchi.gammadown3 ∧ Sym exBianchi.gammaup3 ∧ Sym exBianchi.Kdown3)
    ∧ (∀ i k : Fin 3, ∑ j, exBianchi.gammaup3 i j * exBianchi.gammadown3 j k = delta i k)
    ∧ (∀ i k : Fin 3, ∑ j, exBianchi.gammadown3 i j * exBianchi.gammaup3 j k = delta i k)
    ∧ exBianchi.Kup3 = Kup3 exBianchi ∧ exBianchi.Ktrace = Ktrace exBianchi
    ∧ exBianchi.Stresstrace_n = ∑ i, ∑ j, exBianchi.gammaup3 i j * exBianchi.Stressdown3_n i j
    ∧ exBianchi.expF (-4 * exBianchi.phi_bssnok) = 1
    ∧ (∀ i j, exBianchi.Adown3_bssnok i j = 1 * exBianchi.Adown3 i j) ∧ exBianchi.Adown3 = Adown3 exBianchi
    ∧ (∀ i j, exBianchi.gammaup3_bssnok i j = 1 * exBianchi.gammaup3 i j)
    ∧ (∀ i j, RicSum exBianchi i j = Ric i j)
    ∧ (-1 : ℚ) = ADM.dtPhi exBianchi.betaup3 (grad exBianchi exBianchi.phi_bssnok) (dβ exBianchi) exBianchi.alpha
        exBianchi.Ktrace
    ∧ (∀ i j : Fin 3, dtG i j = -2 * exBianchi.alpha * exBianchi.Kdown3 i j
        + lieDD exBianchi.betaup3 (dβ exBianchi) (pd2 exBianchi.D exBianchi.gammadown3) exBianchi.gammadown3 i j)
    ∧ (∀ i j, dtU i j = dtgammaup3 exBianchi i j)
    ∧ (∀ i j, dtKd i j = ADM.dtKdown exBianchi.betaup3 (dβ exBianchi) (pd2 exBianchi.D exBianchi.Kdown3)
        exBianchi.Kdown3 exBianchi.gammadown3 exBianchi.gammaup3 exBianchi.DDalpha Ric exBianchi.Stressdown3_n
        exBianchi.alpha exBianchi.Ktrace exBianchi.kappa exBianchi.rho_n exBianchi.Stresstrace_n exBianchi.Lambda i j)
    ∧ dtAdown3_bssnok__dflt_matter exBianchi 0 0 = -8
    ∧ (1 : ℚ) * (dtKd 0 0 - (1 / 3) * (dtG 0 0 * exBianchi.Ktrace + exBianchi.gammadown3 0 0
          * ∑ a, ∑ b, (dtU a b * exBianchi.Kdown3 a b + exBianchi.gammaup3 a b * dtKd a b)))
        + (-4 * 1 * (-1)) * (exBianchi.Kdown3 0 0 - (1 / 3) * exBianchi.gammadown3 0 0 * exBianchi.Ktrace) = -8 := by
  intro dtG dtU dtKd Ric
  refine ⟨⟨?_, ?_, ?_⟩, ?_, ?_, ?_, ?_, ?_, ?_, ?_, ?_, ?_, ?_, ?_, ?_, ?_, ?_, ?_, ?_⟩
  · cases3 <;> cases3 <;> (simp only [exBianchi, core_unfold])
  · cases3 <;> cases3 <;> (simp only [exBianchi, core_unfold])
  · cases3 <;> cases3 <;> (simp only [exBianchi, core_unfold])
  · cases3 <;> cases3 <;> (simp only [exBianchi, Fin.sum_univ_three, delta, core_unfold]; norm_num [Fin.ext_iff])
  · cases3 <;> cases3 <;> (simp only [exBianchi, Fin.sum_univ_three, delta, core_unfold]; norm_num [Fin.ext_iff])
  · funext a b; revert a b; cases3 <;> cases3 <;> (simp only [exBianchi, core_unfold]; norm_num)
  · simp only [exBianchi, Env.zero, core_unfold]; norm_num
  · simp only [exBianchi, Env.zero, Fin.sum_univ_three, core_unfold]; norm_num
  · simp only [exBianchi]
  · cases3 <;> cases3 <;> (simp only [exBianchi, core_unfold]; norm_num)
  · funext a b; revert a b; cases3 <;> cases3 <;> (simp only [exBianchi, Env.zero, core_unfold]; norm_num)
  · cases3 <;> cases3 <;> (simp only [exBianchi, core_unfold]; norm_num)
  · cases3 <;> cases3 <;> (simp only [Ric, RicSum, exBianchi, Env.zero, core_unfold]; norm_num)
  · simp only [ADM.dtPhi, lie0, divβ, grad, dβ, exBianchi, Env.zero, Fin.sum_univ_three, core_unfold]; norm_num
  · cases3 <;> cases3 <;>
      (simp only [dtG, exBianchi, Env.zero, lieDD, pd2, dβ, Fin.sum_univ_three, core_unfold]; norm_num)
  · cases3 <;> cases3 <;> (simp only [dtU, exBianchi, Env.zero, core_unfold]; norm_num)
  · cases3 <;> cases3 <;>
      (simp only [dtKd, Ric, ADM.dtKdown, lieDD, pd2, dβ, exBianchi, Env.zero, Fin.sum_univ_three, core_unfold]; norm_num)
  · simp only [exBianchi, Env.zero, core_unfold]; norm_num
  · simp only [dtG, dtU, dtKd, exBianchi, Env.zero, Fin.sum_univ_three, core_unfold]; norm_num

/-- the operator form (`dtAdown3_bssnok_is_dt`, `dtAdown3_bssnok_vacuum_is_dt`): over ℚ the only additive operator obeying
the product rule is 0, so the instance is a static flat point (`α = 2`, `β = 0`, `γ_ij = δ_ij`, `K_ij = 0`, `ψ = 1`); over a
differential field such as ℚ(t) it is d/dt — the non-trivial instance of the hypotheses is the jet form above. -/
def exStatic : Env ℚ :=
  { (Env.zero : Env ℚ) with
    alpha := 2, expF := fun _ => 1,
    gammadown3 := vec3 (vec3 1 0 0) (vec3 0 1 0) (vec3 0 0 1),
    gammaup3 := vec3 (vec3 1 0 0) (vec3 0 1 0) (vec3 0 0 1),
    gammaup3_bssnok := vec3 (vec3 1 0 0) (vec3 0 1 0) (vec3 0 0 1) }

theorem exStatic_D (s : Fin 3) (x : ℚ) : exStatic.D s x = 0 := rfl

example :
    let Dt : ℚ → ℚ := fun _ => 0
    let Ric : Fin 3 → Fin 3 → ℚ := fun _ _ => 0
    C06Deriv.Deriv Dt ∧ (∀ s, C06Deriv.Deriv (exStatic.D s))
    ∧ (Sym exStatic.gammadown3 ∧ Sym exStatic.gammaup3 ∧ Sym exStatic.Kdown3)
    ∧ (∀ i k : Fin 3, ∑ j, exStatic.gammaup3 i j * exStatic.gammadown3 j k = delta i k)
    ∧ (∀ i k : Fin 3, ∑ j, exStatic.gammadown3 i j * exStatic.gammaup3 j k = delta i k)
    ∧ exStatic.Kup3 = Kup3 exStatic ∧ exStatic.Ktrace = Ktrace exStatic
    ∧ exStatic.Stresstrace_n = ∑ i, ∑ j, exStatic.gammaup3 i j * exStatic.Stressdown3_n i j
    ∧ exStatic.expF (-4 * exStatic.phi_bssnok) = 1
    ∧ (∀ i j, exStatic.Adown3_bssnok i j = 1 * exStatic.Adown3 i j) ∧ exStatic.Adown3 = Adown3 exStatic
    ∧ (∀ i j, exStatic.gammaup3_bssnok i j = 1 * exStatic.gammaup3 i j)
    ∧ (∀ i j, RicSum exStatic i j = Ric i j)
    ∧ Dt 1 = -4 * 1 * Dt exStatic.phi_bssnok ∧ (∀ s, exStatic.D s 1 = -4 * 1 * exStatic.D s exStatic.phi_bssnok)
    ∧ Dt exStatic.phi_bssnok = ADM.dtPhi exStatic.betaup3 (grad exStatic exStatic.phi_bssnok) (dβ exStatic)
        exStatic.alpha exStatic.Ktrace
    ∧ (∀ i j : Fin 3, Dt (exStatic.gammadown3 i j) = -2 * exStatic.alpha * exStatic.Kdown3 i j
        + lieDD exStatic.betaup3 (dβ exStatic) (pd2 exStatic.D exStatic.gammadown3) exStatic.gammadown3 i j)
    ∧ (∀ i j, Dt (exStatic.Kdown3 i j) = ADM.dtKdown exStatic.betaup3 (dβ exStatic) (pd2 exStatic.D exStatic.Kdown3)
        exStatic.Kdown3 exStatic.gammadown3 exStatic.gammaup3 exStatic.DDalpha Ric exStatic.Stressdown3_n
        exStatic.alpha exStatic.Ktrace exStatic.kappa exStatic.rho_n exStatic.Stresstrace_n exStatic.Lambda i j) := by
  intro Dt Ric
  refine ⟨⟨fun _ _ => by simp only [Dt, add_zero], fun _ _ => by simp only [Dt, zero_mul, mul_zero, add_zero]⟩,
    fun s => ⟨fun _ _ => by simp only [exStatic_D, add_zero],
      fun _ _ => by simp only [exStatic_D, zero_mul, mul_zero, add_zero]⟩,
    ⟨?_, ?_, ?_⟩, ?_, ?_, ?_, ?_, ?_, ?_, ?_, ?_, ?_, ?_, ?_, ?_, ?_, ?_, ?_⟩
  · cases3 <;> cases3 <;> (simp only [exStatic, core_unfold])
  · cases3 <;> cases3 <;> (simp only [exStatic, core_unfold])
  · cases3 <;> cases3 <;> (simp only [exStatic, Env.zero, core_unfold])
  · cases3 <;> cases3 <;> (simp only [exStatic, Fin.sum_univ_three, delta, core_unfold]; norm_num [Fin.ext_iff])
  · cases3 <;> cases3 <;> (simp only [exStatic, Fin.sum_univ_three, delta, core_unfold]; norm_num [Fin.ext_iff])
  · funext a b; revert a b; cases3 <;> cases3 <;> (simp only [exStatic, Env.zero, core_unfold]; norm_num)
  · simp only [exStatic, Env.zero, core_unfold]; norm_num
  · simp only [exStatic, Env.zero, Fin.sum_univ_three, core_unfold]; norm_num
  · simp only [exStatic]
  · cases3 <;> cases3 <;> (simp only [exStatic, Env.zero, core_unfold]; norm_num)
  · funext a b; revert a b; cases3 <;> cases3 <;> (simp only [exStatic, Env.zero, core_unfold]; norm_num)
  · cases3 <;> cases3 <;> (simp only [exStatic, core_unfold]; norm_num)
  · cases3 <;> cases3 <;> (simp only [Ric, RicSum, exStatic, Env.zero, core_unfold]; norm_num)
  · simp only [Dt]; norm_num
  · intro s; simp only [exStatic_D]; norm_num
  · simp only [Dt, ADM.dtPhi, lie0, divβ, grad, dβ, exStatic, Env.zero, Fin.sum_univ_three, core_unfold]; norm_num
  · cases3 <;> cases3 <;>
      (simp only [Dt, exStatic, Env.zero, lieDD, pd2, dβ, Fin.sum_univ_three, core_unfold]; norm_num)
  · cases3 <;> cases3 <;>
      (simp only [Dt, Ric, ADM.dtKdown, lieDD, pd2, dβ, exStatic, Env.zero, Fin.sum_univ_three, core_unfold]; norm_num)

end AurelVerif.C06
