/-
Props/C06f.lean — property C06, extension round: the hypothesis `hRic` ("`R̃_ij + R^φ_ij` is the Ricci tensor of γ", Alcubierre
(2.8.16)) carried by the `dtAdown3_bssnok` theorems of Props/C06b and Props/C06e is DISCHARGED by Props/C05d
(`C05.ricci_bssnok_split`: the code's `s_Ricci_down3_bssnok + s_Ricci_down3_phi` equals the code's direct Ricci tensor) and
Props/C05b (`s_Ricci_down3__dflt = γ^{ac}R_abcd` with the code's `s_Riemann_down3`).

  ricSum_is_ricci                                        `RicSum e i j = γ^{ac} (s_Riemann_down3)_{aicj}`  under `BssnokRicciHyp e`
  dtAdown3_bssnok_is_dt_conformal_of_einstein_noRic           = Props/C06e theorem without `hRic`
  dtAdown3_bssnok_vacuum_is_dt_conformal_of_einstein_noRic    = Props/C06e theorem without `hRic`
  dtAdown3_bssnok_is_dt_of_einstein_noRic                     = Props/C06e theorem (operator form) without `hRic`

`BssnokRicciHyp e` lists what replaces `hRic`: the cached BSSNOK entries are the code's own (`gammadown3_bssnok`, `gammaup3_bssnok`,
`s_Gamma_udd3_bssnok`, `s_Gamma_bssnok`, `s_Ricci_down3_bssnok`, `s_Ricci_down3_phi`, `s_Riemann_uddd3`, `s_Riemann_down3`,
`s_Gamma_udd3`), ψ ≠ 0, and the Layer-B operator instances of Props/C05b / C05d (`ProdRuleInv`, `ConfRules`, `ConfChain`,
`BssnRules`), each derived from `Deriv e.D` + `DComm e.D` (+ `ψ¹² = det γ`, `∂(logF ψ)·ψ = ∂ψ` for the opaque power / logarithm):
`bssnokRicciHyp_of_deriv`.  ALL LAYER B.
-/
import AurelVerif.Props.C06e
import AurelVerif.Props.C05d

set_option linter.unusedSimpArgs false
set_option linter.unusedVariables false
set_option linter.unusedSectionVars false
set_option linter.style.nameCheck false

namespace AurelVerif.C06
open AurelVerif.Gen.Core AurelVerif.Tensor AurelVerif.CoreTac AurelVerif.C08 AurelVerif.Spec.Covd AurelVerif.Spec
open AurelVerif.Spec.Curvature (JetC Jet ricciDown trace einstein KK3 RiemannSym tsplit)
open AurelVerif.C04L AurelVerif.C06L

variable {K : Type} [Field K]

/-- what replaces `hRic`: cached BSSNOK entries produced by the code's formulas + the Layer-B instances of Props/C05b, C05d. -/
structure BssnokRicciHyp (e : Env K) : Prop where
  metric : C05L.MetricOK e
  hpsi : e.psi_bssnok ≠ 0
  hgd : e.gammadown3_bssnok = gammadown3_bssnok e
  hgu : e.gammaup3_bssnok = gammaup3_bssnok e
  hB : e.s_Gamma_udd3_bssnok = s_Gamma_udd3_bssnok e
  hGv : e.s_Gamma_bssnok = s_Gamma_bssnok e
  hRb : e.s_Ricci_down3_bssnok = s_Ricci_down3_bssnok e
  hRp : e.s_Ricci_down3_phi = s_Ricci_down3_phi e
  hR : e.s_Riemann_uddd3 = s_Riemann_uddd3 e
  hRd : e.s_Riemann_down3 = s_Riemann_down3 e
  prodInv : C05L.ProdRuleInv e
  confRules : C05L.ConfRules e
  confChain : C05L.ConfChain e
  bssnRules : C05L.BssnRules e.D e.gammadown3_bssnok e.gammaup3_bssnok e.s_Gamma_bssnok

/-- `BssnokRicciHyp` for a derivation with commuting partial derivatives, all entries the code's own. -/
theorem bssnokRicciHyp_of_deriv (e : Env K) (hD : C05L.Deriv e.D) (hc : C05L.DComm e.D) (h2 : (2 : K) ≠ 0)
    (hs : Sym e.gammadown3) (hd : gammadet e ≠ 0) (hgdet : e.gammadet = gammadet e) (hu : e.gammaup3 = gammaup3 e)
    (hG : e.s_Gamma_udd3 = s_Gamma_udd3 e)
    (hgd : e.gammadown3_bssnok = gammadown3_bssnok e) (hgu : e.gammaup3_bssnok = gammaup3_bssnok e)
    (hB : e.s_Gamma_udd3_bssnok = s_Gamma_udd3_bssnok e) (hGv : e.s_Gamma_bssnok = s_Gamma_bssnok e)
    (hRb : e.s_Ricci_down3_bssnok = s_Ricci_down3_bssnok e) (hRp : e.s_Ricci_down3_phi = s_Ricci_down3_phi e)
    (hR : e.s_Riemann_uddd3 = s_Riemann_uddd3 e) (hRd : e.s_Riemann_down3 = s_Riemann_down3 e)
    (hpsi : e.psi_bssnok ^ 12 = e.gammadet) (hlog : ∀ k, e.D k e.phi_bssnok * e.psi_bssnok = e.D k e.psi_bssnok) :
    BssnokRicciHyp e := by
  have h := C05.metricOK_of_code e hs hd hu hG
  have hp0 : e.psi_bssnok ≠ 0 := by
    intro h0; rw [h0] at hpsi; apply hd; rw [← hgdet, ← hpsi]; simp
  have hch := C05.confChain_of_deriv e hD hs hgdet hu hd hgd hpsi hlog
  have hm := C05.uniMetric_of_code e h hp0 hgd hgu hch
  exact ⟨h, hp0, hgd, hgu, hB, hGv, hRb, hRp, hR, hRd, C05.prodRuleInv_of_deriv e hD h, C05.confRules_of_deriv e hD hc hB, hch,
    C05.bssnRules_of_deriv e.D _ _ _ hD hc h2 hm.hinv⟩

/-- **`hRic` discharged**: the Ricci tensor used by `dtAdown3_bssnok` (`R̃_ij + R^φ_ij`, cached entries) is the contraction
`γ^{ac}R_aicj` of the cached `s_Riemann_down3`.  Layer B. -/
theorem ricSum_is_ricci (e : Env K) (h2 : (2 : K) ≠ 0) (B : BssnokRicciHyp e) (i j : Fin 3) :
    RicSum e i j = ricciDown e.gammaup3 e.s_Riemann_down3 i j := by
  unfold RicSum
  rw [B.hRb, B.hRp, C05.ricci_bssnok_split e B.metric h2 B.hpsi B.hgd B.hgu B.hB B.hGv B.prodInv B.confRules B.confChain
    B.bssnRules i j, C05L.s_Ricci_down3_dflt_via_down e B.metric B.hR i j, B.hRd]
  unfold ricciDown
  exact Finset.sum_congr rfl (fun a _ => Finset.sum_congr rfl (fun c _ => by ring))

/-- **`dtAdown3_bssnok = ∂_t(ψ⁻⁴(K_ij − γ_ijK/3))` on shell**, matter branch: Props/C06e's theorem with `hRic` replaced by
`BssnokRicciHyp e`. -/
theorem dtAdown3_bssnok_is_dt_conformal_of_einstein_noRic (e : Env K) (T : TimeJet2 K) (H : CurvHyp e T) (C : AdmCached e)
    (M : MatterCached e) (B : BssnokRicciHyp e) (dtG dtU dtKd : Fin 3 → Fin 3 → K) (dtφ p q : K) (h3 : (3 : K) ≠ 0)
    (hpq : p * q = 1) (hexp : e.expF (-4 * e.phi_bssnok) = p)
    (hAt : ∀ i j, e.Adown3_bssnok i j = p * e.Adown3 i j) (hA : e.Adown3 = Adown3 e)
    (hUt : ∀ i j, e.gammaup3_bssnok i j = q * e.gammaup3 i j)
    (hdK : ∀ s, e.D s e.Ktrace
        = ∑ i, ∑ j, (e.D s (e.gammaup3 i j) * e.Kdown3 i j + e.gammaup3 i j * e.D s (e.Kdown3 i j)))
    (hdsA : ∀ s a b, e.D s (e.Adown3_bssnok a b)
        = p * (e.D s (e.Kdown3 a b) - (1 / 3) * (e.D s (e.gammadown3 a b) * e.Ktrace + e.gammadown3 a b * e.D s e.Ktrace))
          + (-4 * p * e.D s e.phi_bssnok) * (e.Kdown3 a b - (1 / 3) * e.gammadown3 a b * e.Ktrace))
    (hφ : dtφ = ADM.dtPhi e.betaup3 (grad e e.phi_bssnok) (dβ e) e.alpha e.Ktrace)
    (hkin : ∀ i j : Fin 3, dtG i j = -2 * e.alpha * e.Kdown3 i j
        + lieDD e.betaup3 (dβ e) (pd2 e.D e.gammadown3) e.gammadown3 i j)
    (hdtU : ∀ i j, dtU i j = dtgammaup3 e i j)
    (hT : IsDtK e T dtKd) (hE : OnShell e T) (i j : Fin 3) :
    dtAdown3_bssnok__dflt_matter e i j
      = p * (dtKd i j - (1 / 3) * (dtG i j * e.Ktrace
            + e.gammadown3 i j * ∑ a, ∑ b, (dtU a b * e.Kdown3 a b + e.gammaup3 a b * dtKd a b)))
        + (-4 * p * dtφ) * (e.Kdown3 i j - (1 / 3) * e.gammadown3 i j * e.Ktrace) :=
  dtAdown3_bssnok_is_dt_conformal_of_einstein e T H C M dtG dtU dtKd dtφ p q h3 hpq hexp hAt hA hUt
    (ricSum_is_ricci e H.lc.two B) hdK hdsA hφ hkin hdtU hT hE i j

/-- vacuum branch, vacuum solution: Props/C06e's theorem with `hRic` replaced by `BssnokRicciHyp e`. -/
theorem dtAdown3_bssnok_vacuum_is_dt_conformal_of_einstein_noRic (e : Env K) (T : TimeJet2 K) (H : CurvHyp e T)
    (C : AdmCached e) (B : BssnokRicciHyp e) (dtG dtU dtKd : Fin 3 → Fin 3 → K) (dtφ p q : K) (h3 : (3 : K) ≠ 0)
    (hpq : p * q = 1) (hexp : e.expF (-4 * e.phi_bssnok) = p)
    (hAt : ∀ i j, e.Adown3_bssnok i j = p * e.Adown3 i j) (hA : e.Adown3 = Adown3 e)
    (hUt : ∀ i j, e.gammaup3_bssnok i j = q * e.gammaup3 i j)
    (hdK : ∀ s, e.D s e.Ktrace
        = ∑ i, ∑ j, (e.D s (e.gammaup3 i j) * e.Kdown3 i j + e.gammaup3 i j * e.D s (e.Kdown3 i j)))
    (hdsA : ∀ s a b, e.D s (e.Adown3_bssnok a b)
        = p * (e.D s (e.Kdown3 a b) - (1 / 3) * (e.D s (e.gammadown3 a b) * e.Ktrace + e.gammadown3 a b * e.D s e.Ktrace))
          + (-4 * p * e.D s e.phi_bssnok) * (e.Kdown3 a b - (1 / 3) * e.gammadown3 a b * e.Ktrace))
    (hφ : dtφ = ADM.dtPhi e.betaup3 (grad e e.phi_bssnok) (dβ e) e.alpha e.Ktrace)
    (hkin : ∀ i j : Fin 3, dtG i j = -2 * e.alpha * e.Kdown3 i j
        + lieDD e.betaup3 (dβ e) (pd2 e.D e.gammadown3) e.gammadown3 i j)
    (hdtU : ∀ i j, dtU i j = dtgammaup3 e i j)
    (hT : IsDtK e T dtKd) (hE : OnShellVac e T) (i j : Fin 3) :
    dtAdown3_bssnok__dflt_vacuum e i j
      = p * (dtKd i j - (1 / 3) * (dtG i j * e.Ktrace
            + e.gammadown3 i j * ∑ a, ∑ b, (dtU a b * e.Kdown3 a b + e.gammaup3 a b * dtKd a b)))
        + (-4 * p * dtφ) * (e.Kdown3 i j - (1 / 3) * e.gammadown3 i j * e.Ktrace) :=
  dtAdown3_bssnok_vacuum_is_dt_conformal_of_einstein e T H C dtG dtU dtKd dtφ p q h3 hpq hexp hAt hA hUt
    (ricSum_is_ricci e H.lc.two B) hdK hdsA hφ hkin hdtU hT hE i j

/-- **`dtAdown3_bssnok = ∂_tÃ_ij` on shell**, operator form: Props/C06e's theorem with `hRic` replaced by `BssnokRicciHyp e`. -/
theorem dtAdown3_bssnok_is_dt_of_einstein_noRic (e : Env K) (Dt : K → K) (hDt : C06Deriv.Deriv Dt)
    (hD : ∀ s, C06Deriv.Deriv (e.D s)) (H : CurvHyp e (timeJet2Of e Dt)) (C : AdmCached e) (M : MatterCached e)
    (B : BssnokRicciHyp e) (p q : K) (h3 : (3 : K) ≠ 0)
    (hpq : p * q = 1) (hexp : e.expF (-4 * e.phi_bssnok) = p)
    (hAt : ∀ i j, e.Adown3_bssnok i j = p * e.Adown3 i j) (hA : e.Adown3 = Adown3 e)
    (hUt : ∀ i j, e.gammaup3_bssnok i j = q * e.gammaup3 i j)
    (hpt : Dt p = -4 * p * Dt e.phi_bssnok) (hps : ∀ s, e.D s p = -4 * p * e.D s e.phi_bssnok)
    (hφ : Dt e.phi_bssnok = ADM.dtPhi e.betaup3 (grad e e.phi_bssnok) (dβ e) e.alpha e.Ktrace)
    (hct : ∀ s x, Dt (e.D s x) = e.D s (Dt x))
    (hα : Dt e.alpha = e.dtalpha) (hβ : ∀ m, Dt (e.betaup3 m) = e.dtbetaup3 m)
    (hkin : ∀ i j : Fin 3, Dt (e.gammadown3 i j) = -2 * e.alpha * e.Kdown3 i j
        + lieDD e.betaup3 (dβ e) (pd2 e.D e.gammadown3) e.gammadown3 i j)
    (hE : OnShell e (timeJet2Of e Dt)) (i j : Fin 3) :
    dtAdown3_bssnok__dflt_matter e i j = Dt (e.Adown3_bssnok i j) :=
  dtAdown3_bssnok_is_dt_of_einstein e Dt hDt hD H C M p q h3 hpq hexp hAt hA hUt (ricSum_is_ricci e H.lc.two B) hpt hps hφ hct
    hα hβ hkin hE i j

end AurelVerif.C06
