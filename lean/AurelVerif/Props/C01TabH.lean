/-
Props/C01TabH.lean — property C01, extension round 6 (see Props/C01TabG.lean for the vocabulary): branch coherence of
`Momentumup3` (152), `Ttrace` (82) and `s_Ricci_down3` (116) against the CONSTRUCTED denotation: the hypotheses
`e.X = X e` of the per-guard theorems (Props/C01Coherence.lean, C01CoherenceA.lean) are discharged by the unfolding
equation of the denotation in the environment `E`.

What is left as a hypothesis is about the INPUTS only, never about a body:
  * `coh_152`  consistency of `Momentumx|y|z` when supplied individually (`MomCons`; void when none is supplied).
               Necessary: with inputs `{Momentumx = 5}` a fresh `Momentumup3` is the computed vector, and after
               `Momentumy`, `Momentumz` have been requested and `Momentumup3` evicted it is `(5, M^y, M^z)` (replayed on the
               real code by tools/props/C01.py `necessity_witnesses`).
  * `coh_116`  consistency of `s_Riemann_uddd3`, `gammaup3` when supplied, `γ` symmetric, `det γ ≠ 0` (`RicciCons`).
  * `coh_82`   consistency of the supplied metric pieces, of `gup4`, `gammaup3`, `gammaup4`, `nup4`, `press_n`, `rho_n`,
               `α ≠ 0`, `det γ ≠ 0`, `3 ≠ 0` (`TraceCons`).
Non-vacuity of `MomCons`, `RicciCons`, `TraceCons` (and `MetricCons`): Props/C01TabX.lean `inputsOK_ex`.
-/
import AurelVerif.Props.C01TabG
import AurelVerif.Props.C01CoherenceA
import AurelVerif.Props.C08b
import AurelVerif.Lemmas.C01Loc

set_option linter.unusedSectionVars false
set_option linter.unusedSimpArgs false
set_option linter.unusedVariables false

namespace AurelVerif.C01Tab
open AurelVerif.Cache AurelVerif.Cache.Dict AurelVerif.CacheGet AurelVerif.Gen.Core AurelVerif.Tensor AurelVerif.CoreTac
open AurelVerif.Gen.C01Table AurelVerif.Gen.DepGraph
open AurelVerif.C01 (IsInput shapeOf rankOf)

variable {K : Type} [Field K]

theorem feasibleM_and3_false {κ ν : Type} [DecidableEq κ] {T : Table κ ν} (inp : Dict κ ν) {a b c : κ}
    (h : FeasibleM T (fun k => (get? inp k).isSome = true) (.and (.and (.pres a) (.pres b)) (.pres c)) false) :
    ((contains inp a && contains inp b) && contains inp c) = false := by
  obtain ⟨Q, h1, _, h3⟩ := h
  simp only [Guard.eval] at h3
  cases ha : contains inp a with
  | false => rfl
  | true =>
    cases hb : contains inp b with
    | false => rfl
    | true =>
      cases hc : contains inp c with
      | false => rfl
      | true =>
        rw [h1 a ha, h1 b hb, h1 c hc] at h3; cases h3

/-- keys unfolded for `Momentumup3`, `s_Ricci_down3`, `Ttrace` -/
def cone152 : List Nat := [146, 147, 148, 152]
def cone116 : List Nat := coneKeys ++ [22, 114, 115, 116]
def cone82 : List Nat := coneKeys ++ [13, 22, 26, 32, 82, 83, 91]

section mom
variable (P : Params K) (excl : List Nat) (inp : Dict Nat (Val K))

/-- `Momentumx`, `Momentumy`, `Momentumz`, where supplied, are the components of the denotation of `Momentumup3`. -/
structure MomCons : Prop where
  cx : Cons P excl inp 146
  cy : Cons P excl inp 147
  cz : Cons P excl inp 148

theorem momCons_of_absent (hx : get? inp 146 = none) (hy : get? inp 147 = none) (hz : get? inp 148 = none) :
    MomCons P excl inp :=
  ⟨cons_of_absent P excl inp 146 hx, cons_of_absent P excl inp 147 hy, cons_of_absent P excl inp 148 hz⟩

variable (hX : NotExcl excl cone152)
include hX

/-- **`Momentumup3`** (`if all of Momentumx, Momentumy, Momentumz in self.data: stack them else: the constraint`). -/
theorem coh_152 (hM : MomCons P excl inp) (hi : get? inp 152 = none) :
    CohM (TTab P excl) (den P excl inp) (fun k => (get? inp k).isSome = true) (den P excl inp 152) 152
      (.test (.and (.and (.pres 146) (.pres 147)) (.pres 148)) (.read 146 (.read 147 (.read 148 (.ret 0))))
        (.read 47 (.read 22 (.read 48 (.read 113 (.read 113 (.test (.flag "self.vacuum") (.ret 1) (.read 84 (.ret 2))))))))) [] := by
  have hs := shpX P excl hX 152 (.test (.and (.and (.pres 146) (.pres 147)) (.pres 148)) (.read 146 (.read 147 (.read 148 (.ret 0))))
        (.read 47 (.read 22 (.read 48 (.read 113 (.read 113 (.test (.flag "self.vacuum") (.ret 1) (.read 84 (.ret 2))))))))) (by decide) rfl
  refine cohM_test (TTab_ok P excl) inp (.s 0) 18 rankOf_lt 152 _ _ _ hs hi rfl rfl ?_
  intro _ hf
  have hg := feasibleM_and3_false inp hf
  have ex := hM.cx _ (shpX P excl hX 146 _ (by decide) rfl)
  have ey := hM.cy _ (shpX P excl hX 147 _ (by decide) rfl)
  have ez := hM.cz _ (shpX P excl hX 148 _ (by decide) rfl)
  simp only [sh_146, sh_147, sh_148, evalShape, List.nil_append, List.cons_append, TTab_leaf] at ex ey ez
  have hx : (E P excl inp).Momentumx = Momentumx (E P excl inp) := by
    show (den P excl inp 146).toS = _
    rw [ex]; rfl
  have hy : (E P excl inp).Momentumy = Momentumy (E P excl inp) := by
    show (den P excl inp 147).toS = _
    rw [ey]; rfl
  have hz : (E P excl inp).Momentumz = Momentumz (E P excl inp) := by
    show (den P excl inp 148).toS = _
    rw [ez]; rfl
  have key := C01Coherence.Momentumup3_components_coherent (E P excl inp) hx hy hz
  have d152 : den P excl inp 152 = evalShape (TTab P excl) (den P excl inp) (fun k => contains inp k) (.s 0) 152
      (.read 47 (.read 22 (.read 48 (.read 113 (.read 113 (.test (.flag "self.vacuum") (.ret 1) (.read 84 (.ret 2)))))))) [] := by
    rw [den_unfold P excl inp 152 _ hi hs]
    simp only [evalShape, Guard.eval, hg, Bool.false_eq_true, ↓reduceIte]
  refine Eq.trans ?_ d152
  show Val.v3 (Momentumup3__Momentumx_and_Momentumy_and_Momentumz (E P excl inp)) = _
  have hkind : Val.v3 (den P excl inp 152).toV3 = den P excl inp 152 := by
    rw [d152]
    simp only [evalShape, Guard.eval, List.nil_append, List.cons_append]
    by_cases hv : (TTab P excl).flag "self.vacuum" = true
    · simp only [hv, ↓reduceIte]; rfl
    · simp only [hv, ↓reduceIte]; rfl
  rw [← hkind]
  refine congrArg Val.v3 ?_
  funext i
  exact key i

end mom

section ricci
variable (P : Params K) (excl : List Nat) (inp : Dict Nat (Val K))

theorem gammaup3_E {L : List Nat} (hL : NotExcl excl L) (h22 : L.contains 22 = true) (h : Cons P excl inp 22) :
    (E P excl inp).gammaup3 = gammaup3 (E P excl inp) := by
  have e22 := h _ (shpX P excl hL 22 _ h22 rfl)
  simp only [sh_22, evalShape, List.nil_append, List.cons_append, TTab_leaf] at e22
  show (den P excl inp 22).toT33 = _
  rw [e22]; rfl

/-- what `s_Ricci_down3` needs of the inputs: a supplied `s_Riemann_uddd3` / `gammaup3` is the code's own, `γ` is
symmetric and regular. -/
structure RicciCons : Prop where
  c114 : Cons P excl inp 114
  c22 : Cons P excl inp 22
  sym : C08.Sym (den P excl inp 21).toT33
  det : gammadet (E P excl inp) ≠ 0

variable (hX : NotExcl excl cone116)
include hX

/-- `γ^{ic} γ_{ai} = δ_a^c` in the environment of the denotation. -/
theorem inv_E (h22 : Cons P excl inp 22) (hsym : C08.Sym (den P excl inp 21).toT33)
    (hdet : gammadet (E P excl inp) ≠ 0) (a c : Fin 3) :
    ∑ i, (E P excl inp).gammaup3 i c * (E P excl inp).gammadown3 a i = delta a c := by
  have hs : C08.Sym (E P excl inp).gammadown3 := hsym
  have hu := gammaup3_E P excl inp hX (by decide) h22
  have hm := C08.gammaup3_mul (E P excl inp) hs hdet c a
  have hsu : C08.Sym (gammaup3 (E P excl inp)) := by
    rw [C08.gammaup3_is_inverse]; exact C08.inverse3_symm _ _ hs
  rw [hu]
  have : (delta a c : K) = delta c a := by
    unfold delta; by_cases h : a = c
    · subst h; rfl
    · have h' : ¬ c = a := fun e => h e.symm
      simp only [h, h', ↓reduceIte]
  rw [this, ← hm]
  refine Finset.sum_congr rfl ?_
  intro i _
  rw [hsu i c, hs a i]

/-- **`s_Ricci_down3`** (`if 's_Riemann_down3' in self.data: contraction of the cached lowered Riemann tensor else: the
sum R^a_{bad} built from the connection`). -/
theorem coh_116 (hM : RicciCons P excl inp) (hi : get? inp 116 = none) :
    CohM (TTab P excl) (den P excl inp) (fun k => (get? inp k).isSome = true) (den P excl inp 116) 116
      (.test (.pres 115) (.read 115 (.read 22 (.ret 0))) (.rep (.lit 3) [113] (.rep (.lit 3) [113] (.rep (.lit 3) [113]
        (.read 113 (.read 113 (.read 113 (.read 113 (.ret 1))))))))) [] := by
  have hs := shpX P excl hX 116 (.test (.pres 115) (.read 115 (.read 22 (.ret 0))) (.rep (.lit 3) [113] (.rep (.lit 3) [113]
    (.rep (.lit 3) [113] (.read 113 (.read 113 (.read 113 (.read 113 (.ret 1))))))))) (by decide) rfl
  refine cohM_test (TTab_ok P excl) inp (.s 0) 18 rankOf_lt 116 _ _ _ hs hi rfl rfl ?_
  intro _ hf
  have ht := feasibleM_pres_false inp hf
  have e115 := den_unfold P excl inp 115 _ ht (shpX P excl hX 115 _ (by decide) rfl)
  have e114 := hM.c114 _ (shpX P excl hX 114 _ (by decide) rfl)
  have hR : (E P excl inp).s_Riemann_down3 = s_Riemann_down3 (E P excl inp) := by
    show (den P excl inp 115).toT3333 = _
    rw [e115]
    show s_Riemann_down3 (envOf P.base _) = _
    exact C01Loc.loc_s_Riemann_down3 _ _ rfl rfl
  have hRu : (E P excl inp).s_Riemann_uddd3 = s_Riemann_uddd3 (E P excl inp) := by
    show (den P excl inp 114).toT3333 = _
    rw [e114]
    show s_Riemann_uddd3 (envOf P.base _) = _
    exact C01Loc.loc_s_Riemann_uddd3 _ _ rfl rfl
  have key := C01Coherence.s_Ricci_down3_coherent (E P excl inp) hR hRu (inv_E P excl inp hX hM.c22 hM.sym hM.det)
  have hA : evalShape (TTab P excl) (den P excl inp) (fun k => contains inp k) (.s 0) 116 (.read 115 (.read 22 (.ret 0))) []
      = Val.t33 (s_Ricci_down3__s_Riemann_down3 (E P excl inp)) := by
    show Val.t33 (s_Ricci_down3__s_Riemann_down3 (envOf P.base _)) = _
    exact congrArg Val.t33 (C01Loc.loc_s_Ricci_down3_alt _ _ rfl rfl)
  have hB : evalShape (TTab P excl) (den P excl inp) (fun k => contains inp k) (.s 0) 116 (.rep (.lit 3) [113] (.rep (.lit 3) [113] (.rep (.lit 3) [113]
        (.read 113 (.read 113 (.read 113 (.read 113 (.ret 1)))))))) []
      = Val.t33 (s_Ricci_down3__dflt (E P excl inp)) := by
    show Val.t33 (s_Ricci_down3__dflt (envOf P.base _)) = _
    exact congrArg Val.t33 (C01Loc.loc_s_Ricci_down3_dflt _ _ rfl rfl)
  refine hA.trans (Eq.trans ?_ hB.symm)
  refine congrArg Val.t33 ?_
  funext b d
  exact key b d

end ricci

theorem feasibleM_notpres_true {κ ν : Type} [DecidableEq κ] {T : Table κ ν} (inp : Dict κ ν) {t : κ}
    (h : FeasibleM T (fun k => (get? inp k).isSome = true) (.not (.pres t)) true) : get? inp t = none := by
  obtain ⟨Q, h1, _, h3⟩ := h
  simp only [Guard.eval] at h3
  cases hg : get? inp t with
  | none => rfl
  | some v =>
    have := h1 t (by simp [hg])
    rw [this] at h3; cases h3

section trace
variable (P : Params K) (excl : List Nat) (inp : Dict Nat (Val K))

/-- what `Ttrace` needs of the inputs: the 4-metric of the denotation is the one assembled from `α, β, γ`
(`C08.Assembled`; automatic when none of `gtt, betamag, betadown3, gdown4` is supplied: `assembled_E`), supplied
`gammadet, gammaup3, gammaup4, nup4, gup4, rho_n, press_n` are the code's own, and `α ≠ 0`, `det γ ≠ 0`, `3 ≠ 0`. -/
structure TraceCons : Prop where
  asm : C08.Assembled (E P excl inp)
  gd : (E P excl inp).gammadet = gammadet (E P excl inp)
  c22 : Cons P excl inp 22
  c26 : Cons P excl inp 26
  c13 : Cons P excl inp 13
  c32 : Cons P excl inp 32
  c83 : Cons P excl inp 83
  c91 : Cons P excl inp 91
  alpha : (E P excl inp).alpha ≠ 0
  det : gammadet (E P excl inp) ≠ 0
  three : (3 : K) ≠ 0

variable (hX : NotExcl excl cone82)
include hX

/-- the inverse 4-metric of the denotation is `γ^{ab} − n^a n^b`. -/
theorem gup4_E (hM : TraceCons P excl inp) (a b : Fin 4) :
    (E P excl inp).gup4 a b = (E P excl inp).gammaup4 a b - (E P excl inp).nup4 a * (E P excl inp).nup4 b := by
  have e32 := hM.c32 _ (shpX P excl hX 32 _ (by decide) rfl)
  have e26 := hM.c26 _ (shpX P excl hX 26 _ (by decide) rfl)
  have e13 := hM.c13 _ (shpX P excl hX 13 _ (by decide) rfl)
  have h32 : (E P excl inp).gup4 = gup4 (E P excl inp) := by
    show (den P excl inp 32).toT44 = _
    rw [e32]
    show gup4 (envOf P.base _) = _
    exact C01Loc.loc_gup4 _ _ rfl
  have h26 : (E P excl inp).gammaup4 = gammaup4 (E P excl inp) := by
    show (den P excl inp 26).toT44 = _
    rw [e26]
    show gammaup4 (envOf P.base _) = _
    exact C01Loc.loc_gammaup4 _ _ rfl
  have h13 : (E P excl inp).nup4 = nup4 (E P excl inp) := by
    show (den P excl inp 13).toV4 = _
    rw [e13]
    show nup4 (envOf P.base _) = _
    exact C01Loc.loc_nup4 _ _ rfl rfl
  have hinv : C08.InvMetric (E P excl inp) := by
    intro i k
    rw [gammaup3_E P excl inp hX (by decide) hM.c22]
    exact C08.gammaup3_mul (E P excl inp) hM.asm.hsym hM.det i k
  rw [h32, C08.gup4_is_3p1 (E P excl inp) hM.asm hinv hM.gd hM.alpha hM.det a b, h26, h13]
  have ha := hM.alpha
  revert a b
  cases4 <;> cases4 <;> (simp only [C08.gup3p1, core_unfold]; field_simp; try ring)

/-- **`Ttrace`** (`if 'Tdown4' not in self.data: 3 press_n − rho_n else: g^{ab} T_ab`). -/
theorem coh_82 (hM : TraceCons P excl inp) (hi : get? inp 82 = none) :
    CohM (TTab P excl) (den P excl inp) (fun k => (get? inp k).isSome = true) (den P excl inp 82) 82
      (.test (.not (.pres 80)) (.read 91 (.read 83 (.ret 0))) (.read 80 (.read 32 (.ret 1)))) [] := by
  have hs := shpX P excl hX 82 (.test (.not (.pres 80)) (.read 91 (.read 83 (.ret 0))) (.read 80 (.read 32 (.ret 1))))
    (by decide) rfl
  refine cohM_test (TTab_ok P excl) inp (.s 0) 18 rankOf_lt 82 _ _ _ hs hi rfl rfl ?_
  intro hf _
  have ht := feasibleM_notpres_true inp hf
  have e83 := hM.c83 _ (shpX P excl hX 83 _ (by decide) rfl)
  have e91 := hM.c91 _ (shpX P excl hX 91 _ (by decide) rfl)
  have e26 := hM.c26 _ (shpX P excl hX 26 _ (by decide) rfl)
  have hr : (E P excl inp).rho_n = rho_n (E P excl inp) := by
    show (den P excl inp 83).toS = _
    rw [e83]
    show rho_n (envOf P.base _) = _
    exact C01Loc.loc_rho_n _ _ rfl rfl
  have hp : (E P excl inp).press_n = press_n (E P excl inp) := by
    show (den P excl inp 91).toS = _
    rw [e91]
    show press_n (envOf P.base _) = _
    exact C01Loc.loc_press_n _ _ rfl rfl
  have hgu : (E P excl inp).gammaup4 = gammaup4 (E P excl inp) := by
    show (den P excl inp 26).toT44 = _
    rw [e26]
    show gammaup4 (envOf P.base _) = _
    exact C01Loc.loc_gammaup4 _ _ rfl
  have key := C01Coherence.Ttrace_coherent (E P excl inp) hM.three (gup4_E P excl inp hX hM) hgu hr hp
  have hA : evalShape (TTab P excl) (den P excl inp) (fun k => contains inp k) (.s 0) 82 (.read 91 (.read 83 (.ret 0))) []
      = Val.s (Ttrace__dflt (E P excl inp)) := by
    show Val.s (Ttrace__dflt (envOf P.base _)) = _
    exact congrArg Val.s (C01Loc.loc_Ttrace_dflt _ _ rfl rfl)
  have hB : evalShape (TTab P excl) (den P excl inp) (fun k => contains inp k) (.s 0) 82 (.read 80 (.read 32 (.ret 1))) []
      = Val.s (Ttrace__Tdown4 (E P excl inp)) := by
    show Val.s (Ttrace__Tdown4 (envOf P.base _)) = _
    exact congrArg Val.s (C01Loc.loc_Ttrace_Tdown4 _ _ rfl rfl)
  exact hA.trans (Eq.trans (congrArg Val.s key.symm) hB.symm)

end trace

end AurelVerif.C01Tab
