/-
Props/C17Einstein.lean — property theorems for C17, part 2: the bundled solutions satisfy
Einstein's equations `G_ab + Λ g_ab = κ T_ab`.  ONLY statements and non-vacuity examples; proofs are in
Lemmas/C17Ein*.lean (per module) and Lemmas/C17Jet*.lean (algebraic curvature of each metric family).

Reading the statements.
  * `Jet2 ℝ` (Spec/Jet4.lean) is the 2-jet of a metric at a point: `g_ab`, `g^{ab}`, `∂_c g_ab`,
    `∂_c∂_d g_ab`; `J.Einstein` is the textbook Einstein tensor `R_ab − ½ R g_ab` computed from it
    (Christoffel symbols, `∂Γ` by the product rule, Riemann, Ricci; conventions and citations in
    Spec/Jet4.lean), `J.SolvesEinstein Λ κ T` is `∀ a b, G_ab + Λ g_ab = κ T_ab`, `J.Kretschmann` is
    `R^{ab}_{cd} R^{cd}_{ab}`.
  * `IsJetField D gf J` (Spec/MetricJet.lean): at every point of the coordinate domain `D`, `J.g` is the
    metric function `gf`, `J.gi` its inverse matrix, `J.dg c a b` IS the partial derivative `∂_c` of the
    function `g_ab` and `J.ddg c d a b` IS the partial derivative `∂_c` of the function `∂_d g_ab`
    (Mathlib `HasDerivAt` in each coordinate).  A jet field with this property is unique on an open
    domain, so `∃ J, IsJetField D gf J ∧ ∀ points of D, (J …).SolvesEinstein …` says: the Levi-Civita
    Einstein tensor of `gf`, in the sense of calculus, satisfies the field equations throughout `D`.
  * `gf`, `T`, `Λ`, `κ` are the module's own generated definitions (Gen/Solutions.lean, regenerated
    from src/aurel/solutions/*.py on every run): `X.gdown4_num`, `X.Tdown4`, `X.rho`, `X.press`,
    `X.Lambda`, `X.kappa`.  EdS and LCDM have no `gdown4`: their 4-metric is `fourMetric alpha gammadown3`
    (unit lapse, zero shift, theorem `betaup3_is_zero`), and their matter is a perfect fluid at rest,
    `comovingFluid rho press g` (`T_ab = (ρ+p) u_a u_b + p g_ab`, `u_a = (−1,0,0,0)`); likewise
    Collins_Stewart, which returns `rho`, `press` only.

COVERED (all ten components, every point of the stated domain)
  EdS, LCDM (t > 0); Conformally_flat (everywhere); Schwarzschild_isotropic (vacuum; r ≠ 0, 2r ≠ M) and
  its closed-form Kretschmann scalar; Harvey_Tsoubelis (vacuum, t > 0); Collins_Stewart (t > 0);
  Rosquist_Jantzen (t > 0; the module constant k ≠ 0 is proven); Non_diagonal (t > 0, (A t)² ≠ 2; its
  pressure coefficient is `1/12` since /repo commit 7527532 — with the earlier rounded decimal 0.0833333
  the exact statement was false and was proven false here).
  Szekeres (t > 0, Z ≠ 0): the ten equations at a point are proven outright; that the jet consists of the
  derivatives of the module's metric is PARTIAL — under the explicit hypothesis (already used by
  `K_is_metric_rate_Szekeres_partial`) that `integrated_part` is an antiderivative of `part_to_integrate`.
  Schwarzschild `null_ray_exp_out` = divergence of the unit outward normal of the coordinate spheres.
SINCE PROVEN ELSEWHERE: the hypergeometric antiderivative itself and, with it, `einstein_Szekeres` without hypothesis
  (Props/C17Hyp.lean); the ICPertFLRW constraints at first order (Props/C17Pert.lean).
-/
import AurelVerif.Lemmas.C17EinFLRW
import AurelVerif.Lemmas.C17EinConfFlat
import AurelVerif.Lemmas.C17EinSchw
import AurelVerif.Lemmas.C17EinHT
import AurelVerif.Lemmas.C17EinCS
import AurelVerif.Lemmas.C17EinRJ
import AurelVerif.Lemmas.C17EinND
import AurelVerif.Lemmas.C17EinSzek
import AurelVerif.Lemmas.C17SzekWitness

namespace AurelVerif.C17
open AurelVerif.Gen.Solutions AurelVerif.SolutionsLemmas AurelVerif.Spec.Jet4 AurelVerif.C17Ein

/-- EdS: flat FLRW dust, all ten equations, for all `t > 0`. -/
theorem einstein_EdS :
    ∃ J, IsJetField (fun t _ _ _ => 0 < t) (fun t x y z => fourMetric (EdS.alpha t x y z) (EdS.gammadown3 t x y z)) J ∧
      ∀ t x y z, 0 < t → (J t x y z).SolvesEinstein EdS.Lambda EdS.kappa
        (comovingFluid (EdS.rho t) (EdS.press t) (fourMetric (EdS.alpha t x y z) (EdS.gammadown3 t x y z))) :=
  ⟨EdS_jet, EdS_isJetField, EdS_einstein⟩

/-- LCDM: flat FLRW dust with cosmological constant, all ten equations, for all `t > 0`. -/
theorem einstein_LCDM :
    ∃ J, IsJetField (fun t _ _ _ => 0 < t)
        (fun t x y z => fourMetric (LCDM.alpha t x y z) (LCDM.gammadown3_num t x y z)) J ∧
      ∀ t x y z, 0 < t → (J t x y z).SolvesEinstein LCDM.Lambda LCDM.kappa
        (comovingFluid (LCDM.rho t) 0 (fourMetric (LCDM.alpha t x y z) (LCDM.gammadown3_num t x y z))) :=
  ⟨LCDM_jet, LCDM_isJetField, LCDM_einstein⟩

/-- Conformally_flat: `G_ab = κ T_ab` with the module's `Tdown4`, everywhere. -/
theorem einstein_Conformally_flat :
    ∃ J, IsJetField (fun _ _ _ _ => True) Conformally_flat.gdown4_num J ∧
      ∀ t x y z, (J t x y z).SolvesEinstein 0 Conformally_flat.kappa (Conformally_flat.Tdown4 t x y z) :=
  ⟨Conformally_flat_jet, Conformally_flat_isJetField, Conformally_flat_einstein⟩

/-- Schwarzschild_isotropic is a vacuum solution (`Tdown4 = 0`) wherever `(x,y,z) ≠ 0` and `2r ≠ M`,
and the closed-form `Kretschmann` function shipped with the module is the Kretschmann scalar of its metric. -/
theorem einstein_Schwarzschild :
    ∃ J, IsJetField Schwarzschild_domain Schwarzschild_isotropic.gdown4_num J ∧
      ∀ t x y z, Schwarzschild_domain t x y z →
        (J t x y z).SolvesEinstein 0 Schwarzschild_isotropic.kappa (Schwarzschild_isotropic.Tdown4 t x y z) ∧
        (J t x y z).Ric = (fun _ _ => 0) ∧
        (J t x y z).Kretschmann = Schwarzschild_isotropic.Kretschmann t x y z :=
  ⟨Schwarzschild_jet, Schwarzschild_isJetField, fun t x y z hD =>
    ⟨Schwarzschild_einstein t x y z hD, Schwarzschild_ricci_flat t x y z hD, Schwarzschild_kretschmann t x y z hD⟩⟩

/-- Schwarzschild_isotropic.null_ray_exp_out is the divergence `D_i s^i = γ^{-1/2} ∂_i(γ^{1/2} s^i)` of the unit outward
normal `s^i = x^i/(r √γ_xx)` of the coordinate spheres in the module's conformally flat spatial metric
(`γ^{1/2} = γ_xx^{3/2}`, hence `γ^{1/2} s^i = γ_xx x^i/r`); since `Kdown3 = 0` (`K_is_metric_rate_Schwarzschild`) this is the
expansion of the outgoing null rays orthogonal to those spheres.  For all `(x,y,z) ≠ 0`. -/
theorem null_expansion_Schwarzschild (t x y z : ℝ) (hq : x ^ 2 + y ^ 2 + z ^ 2 ≠ 0) :
    ∃ vx vy vz : ℝ,
      HasDerivAt (fun s => Schwarzschild_isotropic.gammadown3_num_00 t s y z * s / Real.sqrt (s ^ 2 + y ^ 2 + z ^ 2)) vx x ∧
      HasDerivAt (fun s => Schwarzschild_isotropic.gammadown3_num_00 t x s z * s / Real.sqrt (x ^ 2 + s ^ 2 + z ^ 2)) vy y ∧
      HasDerivAt (fun s => Schwarzschild_isotropic.gammadown3_num_00 t x y s * s / Real.sqrt (x ^ 2 + y ^ 2 + s ^ 2)) vz z ∧
      (vx + vy + vz) / Schwarzschild_isotropic.gammadown3_num_00 t x y z ^ ((3:ℝ) / 2)
        = Schwarzschild_isotropic.null_ray_exp_out t x y z :=
  Schwarzschild_null_expansion t x y z hq

/-- the Schwarzschild domain in plain words. -/
theorem Schwarzschild_domain_iff (t x y z : ℝ) : Schwarzschild_domain t x y z ↔
    (x ^ 2 + y ^ 2 + z ^ 2 ≠ 0 ∧ 2 * Real.sqrt (x ^ 2 + y ^ 2 + z ^ 2) - Schwarzschild_isotropic.M ≠ 0) := Iff.rfl

/-- Harvey_Tsoubelis is a vacuum solution (`Tdown4 = 0`, any `κ`) for all `t > 0`. -/
theorem einstein_Harvey_Tsoubelis (kappa : ℝ) :
    ∃ J, IsJetField (fun t _ _ _ => 0 < t) Harvey_Tsoubelis.gdown4_num J ∧
      ∀ t x y z, 0 < t → (J t x y z).SolvesEinstein 0 kappa (Harvey_Tsoubelis.Tdown4 t x y z) ∧
        (J t x y z).Ric = (fun _ _ => 0) :=
  ⟨Harvey_Tsoubelis_jet, Harvey_Tsoubelis_isJetField, fun t x y z ht =>
    ⟨Harvey_Tsoubelis_einstein kappa t x y z ht, Harvey_Tsoubelis_ricci_flat t x y z ht⟩⟩

/-- Collins_Stewart: perfect fluid at rest with the module's `rho`, `press`, for all `t > 0`. -/
theorem einstein_Collins_Stewart :
    ∃ J, IsJetField (fun t _ _ _ => 0 < t) Collins_Stewart.gdown4_num J ∧
      ∀ t x y z, 0 < t → (J t x y z).SolvesEinstein 0 Collins_Stewart.kappa
        (comovingFluid (Collins_Stewart.rho t x y z) (Collins_Stewart.press t x y z) (Collins_Stewart.gdown4_num t x y z)) :=
  ⟨Collins_Stewart_jet, Collins_Stewart_isJetField, Collins_Stewart_einstein⟩

/-- Rosquist_Jantzen: `G_ab = κ T_ab` with the module's `Tdown4`, for all `t > 0`. -/
theorem einstein_Rosquist_Jantzen :
    ∃ J, IsJetField (fun t _ _ _ => 0 < t) Rosquist_Jantzen.gdown4_num J ∧
      ∀ t x y z, 0 < t → (J t x y z).SolvesEinstein 0 Rosquist_Jantzen.kappa (Rosquist_Jantzen.Tdown4 t x y z) :=
  ⟨Rosquist_Jantzen_jet, Rosquist_Jantzen_isJetField, Rosquist_Jantzen_einstein⟩

/-- Non_diagonal: `G_ab = κ T_ab` with the module's `Tdown4` exactly as written, all ten components,
for `t > 0` and `(A t)² ≠ 2` (where `det γ = tA((tA)² − 2) ≠ 0`). -/
theorem einstein_Non_diagonal :
    ∃ J, IsJetField Non_diagonal_domain Non_diagonal.gdown4_num J ∧
      ∀ t x y z, Non_diagonal_domain t x y z →
        (J t x y z).SolvesEinstein 0 Non_diagonal.kappa (Non_diagonal.Tdown4 t x y z) :=
  ⟨Non_diagonal_jet, Non_diagonal_isJetField, Non_diagonal_einstein⟩

theorem Non_diagonal_domain_iff (t x y z : ℝ) : Non_diagonal_domain t x y z ↔
    (0 < t ∧ Non_diagonal.A_num z ^ 2 * t ^ 2 - 2 ≠ 0) := Iff.rfl

/-- Szekeres, PARTIAL: under the hypothesis `hIP` that the module's local `integrated_part` (`Szekeres_IP`) is an
antiderivative of its `part_to_integrate` (`Szekeres_PTI`) for `τ > 0` — the classical identity
`d/dτ[(3/5) sinh^{5/3}τ ₂F₁(5/6,3/2;11/6;−sinh²τ)] = sinh^{2/3}τ/cosh²τ`, not available in Mathlib, checked numerically
by the sentinel — all ten equations hold for dust at rest with the module's `rho` (`press = 0`) and LCDM's `Λ`, `κ`,
wherever `t > 0` and `Z ≠ 0`.  `hyp2f1` is the opaque Gauss hypergeometric function.  What is missing for the full
statement: a proof of `hIP` for the actual `₂F₁`. -/
theorem einstein_Szekeres_partial (hyp2f1 : ℝ → ℝ → ℝ → ℝ → ℝ)
    (hIP : ∀ τ, 0 < τ → HasDerivAt (Szekeres_IP hyp2f1) (Szekeres_PTI τ) τ) :
    ∃ J, IsJetField (Szekeres_domain hyp2f1) (Szekeres.gdown4_num hyp2f1) J ∧
      ∀ t x y z, Szekeres_domain hyp2f1 t x y z → (J t x y z).SolvesEinstein LCDM.Lambda LCDM.kappa
        (comovingFluid (Szekeres.rho hyp2f1 t x y z) (Szekeres.press t x y z) (Szekeres.gdown4_num hyp2f1 t x y z)) :=
  ⟨Szekeres_jet hyp2f1, Szekeres_isJetField hyp2f1 hIP, Szekeres_einstein hyp2f1⟩

/-- the part of the Szekeres statement that needs no hypothesis: the field equations for the explicit jet
`Szekeres_jet` (metric, closed-form first and second derivatives), at every point with `t > 0`, `Z ≠ 0`. -/
theorem einstein_Szekeres_pointwise (hyp2f1 : ℝ → ℝ → ℝ → ℝ → ℝ) (t x y z : ℝ)
    (hD : Szekeres_domain hyp2f1 t x y z) :
    (Szekeres_jet hyp2f1 t x y z).g = Szekeres.gdown4_num hyp2f1 t x y z ∧
    (Szekeres_jet hyp2f1 t x y z).SolvesEinstein LCDM.Lambda LCDM.kappa
      (comovingFluid (Szekeres.rho hyp2f1 t x y z) (Szekeres.press t x y z) (Szekeres.gdown4_num hyp2f1 t x y z)) :=
  ⟨(Szekeres_gdown4_closed hyp2f1 t x y z).symm, Szekeres_einstein hyp2f1 t x y z hD⟩

theorem Szekeres_domain_iff (hyp2f1 : ℝ → ℝ → ℝ → ℝ → ℝ) (t x y z : ℝ) : Szekeres_domain hyp2f1 t x y z ↔
    (0 < t ∧ Szekeres.Z_terms_num_Z hyp2f1 t x y z ≠ 0) := Iff.rfl

/-! Non-vacuity: the domains are inhabited and the matter is not trivially zero. -/
example : Schwarzschild_domain 0 1 0 0 := by
  have h : Real.sqrt ((1:ℝ) ^ 2 + 0 ^ 2 + 0 ^ 2) = 1 := by norm_num
  refine ⟨by norm_num, ?_⟩
  rw [h]; unfold Schwarzschild_isotropic.M; norm_num
example : Non_diagonal_domain 1 0 0 (5 / 2) := Non_diagonal_witness_domain
/-- the hypothesis `hIP` of `einstein_Szekeres_partial` is satisfiable: for the function `Szekeres_hypWitness`
(defined from `∫₀^τ part_to_integrate` by the fundamental theorem of calculus) in place of `hyp2f1` it holds
for all `τ > 0`.  (This does not identify the witness with `₂F₁`.) -/
example : ∀ τ, 0 < τ → HasDerivAt (Szekeres_IP Szekeres_hypWitness) (Szekeres_PTI τ) τ := Szekeres_hIP_witness
example : Szekeres_domain (fun _ _ _ _ => 0) 1 0 0 0 := by
  refine ⟨one_pos, ?_⟩
  simp [Szekeres.Z_terms_num_Z]
example : (fun (t : ℝ) (_ _ _ : ℝ) => 0 < t) 1 0 0 0 := one_pos
/-- EdS: the density is not zero, so the `tt` equation is not `0 = 0`. -/
example : EdS.rho 1 ≠ 0 := by
  have h0 := EdS_H0_pos
  have hk := EdS_kappa_pos
  have : EdS.rho 1 = 3 * 1 * (EdS.Hprop_today * EdS.t_today / 1) ^ 2 / EdS.kappa := rfl
  rw [this]
  have := EdS_ttoday_pos
  positivity
/-- Collins_Stewart: the density is positive. -/
example : 0 < Collins_Stewart.rho 1 0 0 0 := by
  have hk : 0 < Collins_Stewart.kappa := by unfold Collins_Stewart.kappa; positivity
  unfold Collins_Stewart.rho Collins_Stewart.gamma
  positivity

end AurelVerif.C17
