/-
Props/C01Sub.lean — property C01, extension round: the pieces CONNECTED for a sub-table of the real code.

For the 25 description keys whose alternatives are ALGEBRAICALLY coherent and whose bodies read only each other

    betax betay betaz betaup3          dtbetax dtbetay dtbetaz dtbetaup3
    gxx gxy gxz gyy gyz gzz gammadown3     kxx kxy kxz kyy kyz kzz Kdown3
    rho0 eps rho

(guards `'betaup3' in self.data`, `'dtbetaup3' in self.data`, `'gammadown3' in self.data`, `'Kdown3' in self.data`,
`'rho' in self.data`, `'rho' in self.data and 'rho0' in self.data`) the branch-coherence hypothesis H2 of the
transparency theorem is PROVEN, so that `sub_transparent` has NO remaining hypothesis about the bodies:

  * the SHAPES of the table are the generated ones (`Gen.DepGraph`, regenerated from the AST of core.py on every
    run): `TSub.shape k = shapeOf k` for the 25 keys, `none` elsewhere (every other name is then "method-less": it is
    either a frozen input or never cached — Props/C01M.lean);
  * the return-site FORMULAS (`leafSub`) are the generated definitions of `Gen/CoreKeys.lean` (symbolic execution of
    the same methods, validated against the real methods on every run), applied to the values read;
  * values are `Val K`: a scalar, a 3-vector or a 3x3 tensor over an arbitrary field `K` at one grid point (a value of
    the wrong kind is read as 0 — the theorem needs no typing hypothesis on the inputs);
  * the inputs are an ARBITRARY dictionary `inp` (any subset of the names, any values: components only, tensors only,
    mixtures, redundant and even mutually inconsistent ones); `denSub inp k` is the value a fresh instance returns.

Hence: for every field, every input dictionary, every eviction policy that never evicts an input (the real clean-up is
one: `C01.real_cleanup_admissible`), every history of requests and sweeps and every final request, the value
returned is the one a fresh instance returns.  The same construction applies verbatim to any other set of keys closed
under reads once its coherence theorems are unconditional; the alternatives of class (c) (Props/C01CoherenceC.lean)
can enter only with their on-shell hypotheses.
-/
import AurelVerif.Props.C01M
import AurelVerif.Gen.CoreKeys
import AurelVerif.Lemmas.CoreTac

set_option linter.unusedSectionVars false
set_option linter.unusedSimpArgs false
set_option linter.unusedVariables false

namespace AurelVerif.C01Sub
open AurelVerif.Cache AurelVerif.Cache.Dict AurelVerif.CacheGet AurelVerif.Gen.Core AurelVerif.Tensor AurelVerif.CoreTac
open AurelVerif.C01 (IsInput shapeOf)

variable {K : Type} [Field K]

/-- a cached value at one grid point -/
inductive Val (K : Type)
  | s (x : K)
  | v (x : Fin 3 → K)
  | t (x : Fin 3 → Fin 3 → K)

def Val.toS : Val K → K | .s x => x | _ => 0
def Val.toV : Val K → Fin 3 → K | .v x => x | _ => fun _ => 0
def Val.toT : Val K → Fin 3 → Fin 3 → K | .t x => x | _ => fun _ _ => 0

/-- the `i`-th value read by the body -/
def rd (vs : List (Val K)) (i : Nat) : Val K := vs.getD i (.s 0)

/-- indices (in `Gen.DepGraph.names`) of the keys of the sub-table -/
def subKeys : List Nat :=
  [3, 4, 5, 6, 7, 8, 9, 10, 15, 16, 17, 18, 19, 20, 21, 40, 41, 42, 43, 44, 45, 46, 58, 60, 61]

/-- return-site formulas: the generated definitions applied to the values read (in the order of the generated shape). -/
def leafSub (k i : Nat) (vs : List (Val K)) : Val K :=
  match k, i with
  | 3, 0 => .s (betax__betaup3 { (Env.zero : Env K) with betaup3 := (rd vs 0).toV })
  | 3, _ => .s (betax__dflt (Env.zero : Env K))
  | 4, 0 => .s (betay__betaup3 { (Env.zero : Env K) with betaup3 := (rd vs 0).toV })
  | 4, _ => .s (betay__dflt (Env.zero : Env K))
  | 5, 0 => .s (betaz__betaup3 { (Env.zero : Env K) with betaup3 := (rd vs 0).toV })
  | 5, _ => .s (betaz__dflt (Env.zero : Env K))
  | 6, _ => .v (betaup3 { (Env.zero : Env K) with
                  betax := (rd vs 0).toS, betay := (rd vs 1).toS, betaz := (rd vs 2).toS })
  | 7, 0 => .s (dtbetax__dtbetaup3 { (Env.zero : Env K) with dtbetaup3 := (rd vs 0).toV })
  | 7, _ => .s (dtbetax__dflt (Env.zero : Env K))
  | 8, 0 => .s (dtbetay__dtbetaup3 { (Env.zero : Env K) with dtbetaup3 := (rd vs 0).toV })
  | 8, _ => .s (dtbetay__dflt (Env.zero : Env K))
  | 9, 0 => .s (dtbetaz__dtbetaup3 { (Env.zero : Env K) with dtbetaup3 := (rd vs 0).toV })
  | 9, _ => .s (dtbetaz__dflt (Env.zero : Env K))
  | 10, _ => .v (dtbetaup3 { (Env.zero : Env K) with
                  dtbetax := (rd vs 0).toS, dtbetay := (rd vs 1).toS, dtbetaz := (rd vs 2).toS })
  | 15, 0 => .s (gxx__gammadown3 { (Env.zero : Env K) with gammadown3 := (rd vs 0).toT })
  | 15, _ => .s (gxx__dflt (Env.zero : Env K))
  | 16, 0 => .s (gxy__gammadown3 { (Env.zero : Env K) with gammadown3 := (rd vs 0).toT })
  | 16, _ => .s (gxy__dflt (Env.zero : Env K))
  | 17, 0 => .s (gxz__gammadown3 { (Env.zero : Env K) with gammadown3 := (rd vs 0).toT })
  | 17, _ => .s (gxz__dflt (Env.zero : Env K))
  | 18, 0 => .s (gyy__gammadown3 { (Env.zero : Env K) with gammadown3 := (rd vs 0).toT })
  | 18, _ => .s (gyy__dflt (Env.zero : Env K))
  | 19, 0 => .s (gyz__gammadown3 { (Env.zero : Env K) with gammadown3 := (rd vs 0).toT })
  | 19, _ => .s (gyz__dflt (Env.zero : Env K))
  | 20, 0 => .s (gzz__gammadown3 { (Env.zero : Env K) with gammadown3 := (rd vs 0).toT })
  | 20, _ => .s (gzz__dflt (Env.zero : Env K))
  | 21, _ => .t (gammadown3 { (Env.zero : Env K) with
                  gxx := (rd vs 0).toS, gxy := (rd vs 1).toS, gxz := (rd vs 2).toS,
                  gyy := (rd vs 3).toS, gyz := (rd vs 4).toS, gzz := (rd vs 5).toS })
  | 40, 0 => .s (kxx__Kdown3 { (Env.zero : Env K) with Kdown3 := (rd vs 0).toT })
  | 40, _ => .s (kxx__dflt (Env.zero : Env K))
  | 41, 0 => .s (kxy__Kdown3 { (Env.zero : Env K) with Kdown3 := (rd vs 0).toT })
  | 41, _ => .s (kxy__dflt (Env.zero : Env K))
  | 42, 0 => .s (kxz__Kdown3 { (Env.zero : Env K) with Kdown3 := (rd vs 0).toT })
  | 42, _ => .s (kxz__dflt (Env.zero : Env K))
  | 43, 0 => .s (kyy__Kdown3 { (Env.zero : Env K) with Kdown3 := (rd vs 0).toT })
  | 43, _ => .s (kyy__dflt (Env.zero : Env K))
  | 44, 0 => .s (kyz__Kdown3 { (Env.zero : Env K) with Kdown3 := (rd vs 0).toT })
  | 44, _ => .s (kyz__dflt (Env.zero : Env K))
  | 45, 0 => .s (kzz__Kdown3 { (Env.zero : Env K) with Kdown3 := (rd vs 0).toT })
  | 45, _ => .s (kzz__dflt (Env.zero : Env K))
  | 46, _ => .t (Kdown3 { (Env.zero : Env K) with
                  kxx := (rd vs 0).toS, kxy := (rd vs 1).toS, kxz := (rd vs 2).toS,
                  kyy := (rd vs 3).toS, kyz := (rd vs 4).toS, kzz := (rd vs 5).toS })
  -- rho0: `self.data['rho']`, `self['eps']`
  | 58, 0 => .s (rho0__rho { (Env.zero : Env K) with rho := (rd vs 0).toS, eps := (rd vs 1).toS })
  | 58, _ => .s (rho0__dflt (Env.zero : Env K))
  -- eps: `self.data['rho']`, `self.data['rho0']`, `self.data['rho0']`
  | 60, 0 => .s (eps__rho_and_rho0 { (Env.zero : Env K) with rho := (rd vs 0).toS, rho0 := (rd vs 1).toS })
  | 60, _ => .s (eps__dflt (Env.zero : Env K))
  -- rho: `self['rho0']`, `self['eps']`
  | 61, _ => .s (rho { (Env.zero : Env K) with rho0 := (rd vs 0).toS, eps := (rd vs 1).toS })
  | _, _ => .s 0

/-- **the sub-table**: generated shapes, generated formulas. -/
def TSub : Table Nat (Val K) :=
  { shape := fun k => if subKeys.contains k then shapeOf k else none
    leaf := leafSub
    flag := fun _ => false
    count := fun _ => 0 }

/-- the shapes are those regenerated from core.py (definitionally). -/
theorem TSub_shapes_generated (k : Nat) :
    (TSub (K := K)).shape k = if subKeys.contains k then shapeOf k else none := rfl

/-! the generated shapes of the 25 keys, spelled out (checked by evaluation of `Gen.DepGraph.shapes`) -/
section shapes
theorem shape_3 : (TSub (K := K)).shape 3 = some (.test (.pres 6) (.read 6 (.ret 0)) (.ret 1)) := rfl
theorem shape_4 : (TSub (K := K)).shape 4 = some (.test (.pres 6) (.read 6 (.ret 0)) (.ret 1)) := rfl
theorem shape_5 : (TSub (K := K)).shape 5 = some (.test (.pres 6) (.read 6 (.ret 0)) (.ret 1)) := rfl
theorem shape_6 : (TSub (K := K)).shape 6 = some (.read 3 (.read 4 (.read 5 (.ret 0)))) := rfl
theorem shape_7 : (TSub (K := K)).shape 7 = some (.test (.pres 10) (.read 10 (.ret 0)) (.ret 1)) := rfl
theorem shape_8 : (TSub (K := K)).shape 8 = some (.test (.pres 10) (.read 10 (.ret 0)) (.ret 1)) := rfl
theorem shape_9 : (TSub (K := K)).shape 9 = some (.test (.pres 10) (.read 10 (.ret 0)) (.ret 1)) := rfl
theorem shape_10 : (TSub (K := K)).shape 10 = some (.read 7 (.read 8 (.read 9 (.ret 0)))) := rfl
theorem shape_15 : (TSub (K := K)).shape 15 = some (.test (.pres 21) (.read 21 (.ret 0)) (.ret 1)) := rfl
theorem shape_16 : (TSub (K := K)).shape 16 = some (.test (.pres 21) (.read 21 (.ret 0)) (.ret 1)) := rfl
theorem shape_17 : (TSub (K := K)).shape 17 = some (.test (.pres 21) (.read 21 (.ret 0)) (.ret 1)) := rfl
theorem shape_18 : (TSub (K := K)).shape 18 = some (.test (.pres 21) (.read 21 (.ret 0)) (.ret 1)) := rfl
theorem shape_19 : (TSub (K := K)).shape 19 = some (.test (.pres 21) (.read 21 (.ret 0)) (.ret 1)) := rfl
theorem shape_20 : (TSub (K := K)).shape 20 = some (.test (.pres 21) (.read 21 (.ret 0)) (.ret 1)) := rfl
theorem shape_21 : (TSub (K := K)).shape 21
    = some (.read 15 (.read 16 (.read 17 (.read 18 (.read 19 (.read 20 (.ret 0))))))) := rfl
theorem shape_40 : (TSub (K := K)).shape 40 = some (.test (.pres 46) (.read 46 (.ret 0)) (.ret 1)) := rfl
theorem shape_41 : (TSub (K := K)).shape 41 = some (.test (.pres 46) (.read 46 (.ret 0)) (.ret 1)) := rfl
theorem shape_42 : (TSub (K := K)).shape 42 = some (.test (.pres 46) (.read 46 (.ret 0)) (.ret 1)) := rfl
theorem shape_43 : (TSub (K := K)).shape 43 = some (.test (.pres 46) (.read 46 (.ret 0)) (.ret 1)) := rfl
theorem shape_44 : (TSub (K := K)).shape 44 = some (.test (.pres 46) (.read 46 (.ret 0)) (.ret 1)) := rfl
theorem shape_45 : (TSub (K := K)).shape 45 = some (.test (.pres 46) (.read 46 (.ret 0)) (.ret 1)) := rfl
theorem shape_46 : (TSub (K := K)).shape 46
    = some (.read 40 (.read 41 (.read 42 (.read 43 (.read 44 (.read 45 (.ret 0))))))) := rfl
theorem shape_58 : (TSub (K := K)).shape 58 = some (.test (.pres 61) (.peek 61 (.read 60 (.ret 0))) (.ret 1)) := rfl
theorem shape_60 : (TSub (K := K)).shape 60
    = some (.test (.and (.pres 61) (.pres 58)) (.peek 61 (.peek 58 (.peek 58 (.ret 0)))) (.ret 1)) := rfl
theorem shape_61 : (TSub (K := K)).shape 61 = some (.read 58 (.read 60 (.ret 0))) := rfl
end shapes

/-! ### the denotation: what a fresh instance holding `inp` returns -/
section den
variable (inp : Dict Nat (Val K))

/-- a component key `c` of the tensor key `t`: the input if supplied; else read from the supplied tensor; else the
default. -/
def comp (c t : Nat) (ext : Val K → K) (d : K) : Val K :=
  match get? inp c with
  | some v => v
  | none => match get? inp t with
    | some w => .s (ext w)
    | none => .s d

/-- a tensor key: the input if supplied, else assembled from its components. -/
def tens (t : Nat) (asm : Val K) : Val K :=
  match get? inp t with
  | some v => v
  | none => asm

def dEps : Val K :=
  match get? inp 60 with
  | some v => v
  | none => match get? inp 61, get? inp 58 with
    | some r, some r0 => .s ((r.toS - r0.toS) / r0.toS)
    | _, _ => .s 0

def dRho0 : Val K :=
  match get? inp 58 with
  | some v => v
  | none => match get? inp 61 with
    | some r => .s (r.toS / (1 + (dEps inp).toS))
    | none => .s 0

def dRho : Val K :=
  match get? inp 61 with
  | some v => v
  | none => .s ((dRho0 inp).toS * (1 + (dEps inp).toS))

def denSub (k : Nat) : Val K :=
  match k with
  | 3 => comp inp 3 6 (fun w => w.toV 0) 0
  | 4 => comp inp 4 6 (fun w => w.toV 1) 0
  | 5 => comp inp 5 6 (fun w => w.toV 2) 0
  | 6 => tens inp 6 (.v (vec3 (comp inp 3 6 (fun w => w.toV 0) 0).toS (comp inp 4 6 (fun w => w.toV 1) 0).toS
          (comp inp 5 6 (fun w => w.toV 2) 0).toS))
  | 7 => comp inp 7 10 (fun w => w.toV 0) 0
  | 8 => comp inp 8 10 (fun w => w.toV 1) 0
  | 9 => comp inp 9 10 (fun w => w.toV 2) 0
  | 10 => tens inp 10 (.v (vec3 (comp inp 7 10 (fun w => w.toV 0) 0).toS (comp inp 8 10 (fun w => w.toV 1) 0).toS
          (comp inp 9 10 (fun w => w.toV 2) 0).toS))
  | 15 => comp inp 15 21 (fun w => w.toT 0 0) 1
  | 16 => comp inp 16 21 (fun w => w.toT 0 1) 0
  | 17 => comp inp 17 21 (fun w => w.toT 0 2) 0
  | 18 => comp inp 18 21 (fun w => w.toT 1 1) 1
  | 19 => comp inp 19 21 (fun w => w.toT 1 2) 0
  | 20 => comp inp 20 21 (fun w => w.toT 2 2) 1
  | 21 => tens inp 21 (.t (vec3
          (vec3 (comp inp 15 21 (fun w => w.toT 0 0) 1).toS (comp inp 16 21 (fun w => w.toT 0 1) 0).toS
            (comp inp 17 21 (fun w => w.toT 0 2) 0).toS)
          (vec3 (comp inp 16 21 (fun w => w.toT 0 1) 0).toS (comp inp 18 21 (fun w => w.toT 1 1) 1).toS
            (comp inp 19 21 (fun w => w.toT 1 2) 0).toS)
          (vec3 (comp inp 17 21 (fun w => w.toT 0 2) 0).toS (comp inp 19 21 (fun w => w.toT 1 2) 0).toS
            (comp inp 20 21 (fun w => w.toT 2 2) 1).toS)))
  | 40 => comp inp 40 46 (fun w => w.toT 0 0) 0
  | 41 => comp inp 41 46 (fun w => w.toT 0 1) 0
  | 42 => comp inp 42 46 (fun w => w.toT 0 2) 0
  | 43 => comp inp 43 46 (fun w => w.toT 1 1) 0
  | 44 => comp inp 44 46 (fun w => w.toT 1 2) 0
  | 45 => comp inp 45 46 (fun w => w.toT 2 2) 0
  | 46 => tens inp 46 (.t (vec3
          (vec3 (comp inp 40 46 (fun w => w.toT 0 0) 0).toS (comp inp 41 46 (fun w => w.toT 0 1) 0).toS
            (comp inp 42 46 (fun w => w.toT 0 2) 0).toS)
          (vec3 (comp inp 41 46 (fun w => w.toT 0 1) 0).toS (comp inp 43 46 (fun w => w.toT 1 1) 0).toS
            (comp inp 44 46 (fun w => w.toT 1 2) 0).toS)
          (vec3 (comp inp 42 46 (fun w => w.toT 0 2) 0).toS (comp inp 44 46 (fun w => w.toT 1 2) 0).toS
            (comp inp 45 46 (fun w => w.toT 2 2) 0).toS)))
  | 58 => dRho0 inp
  | 60 => dEps inp
  | 61 => dRho inp
  | k => (get? inp k).getD (.s 0)

theorem comp_input {c t : Nat} {ext : Val K → K} {d : K} {v : Val K} (h : get? inp c = some v) :
    comp inp c t ext d = v := by simp only [comp, h]

theorem tens_input {t : Nat} {asm v : Val K} (h : get? inp t = some v) : tens inp t asm = v := by
  simp only [tens, h]

/-- the denotation of an input is the input. -/
theorem denSub_inputs (k : Nat) (v : Val K) (h : get? inp k = some v) : denSub inp k = v := by
  unfold denSub
  split <;> first
    | exact comp_input inp h
    | exact tens_input inp h
    | (simp only [dRho0, dEps, dRho, h]; done)
    | (simp only [h]; rfl)

theorem not_input {k : Nat} (h : ¬ IsInput inp k) : get? inp k = none := by
  unfold IsInput at h
  cases hg : get? inp k with
  | none => rfl
  | some v => simp [hg] at h

theorem pres_false {T : Table Nat (Val K)} {t : Nat} (h : FeasibleM T (IsInput inp) (.pres t) false) :
    get? inp t = none := by
  obtain ⟨P, h1, _, h3⟩ := h
  apply not_input
  intro hi
  have := h1 t hi
  simp only [Guard.eval] at h3
  rw [this] at h3; cases h3

theorem and_false {T : Table Nat (Val K)} {a b : Nat}
    (h : FeasibleM T (IsInput inp) (.and (.pres a) (.pres b)) false) : get? inp a = none ∨ get? inp b = none := by
  obtain ⟨P, h1, _, h3⟩ := h
  by_cases ha : IsInput inp a
  · by_cases hb : IsInput inp b
    · have := h1 a ha; have := h1 b hb
      simp_all [Guard.eval]
    · exact Or.inr (not_input inp hb)
  · exact Or.inl (not_input inp ha)

set_option hygiene false in
/-- one component key: `if '<t>' in self.data: return self['<t>'][..] else: return <default>` -/
macro "comp_case " sh:ident t:num : tactic =>
  `(tactic|
    (rw [$sh:ident] at hs; cases hs
     refine ⟨fun _ => ?_, fun hf => ?_⟩
     · simp only [CohM, TSub, denSub, comp, tens, hk, List.nil_append]
       cases h6 : get? inp $t <;>
         simp only [leafSub, rd, List.getD_cons_zero, Val.toV, Val.toT, Val.toS, core_unfold]
     · have h6 := pres_false inp hf
       simp only [CohM, TSub, denSub, comp, hk, h6, leafSub, core_unfold]))

set_option hygiene false in
/-- one tensor key: assembled from its components -/
macro "tens_case " sh:ident : tactic =>
  `(tactic|
    (rw [$sh:ident] at hs; cases hs
     simp only [CohM, TSub, denSub, tens, hk, List.nil_append, List.cons_append, leafSub, rd, List.getD_cons_zero,
       List.getD_cons_succ, core_unfold]))

/-- **H2 for the sub-table, with NO hypothesis**: every alternative of every one of the 25 bodies returns the
denotation when its reads return denotations — for every field and every input dictionary. -/
theorem sub_cohM : TableCohM (TSub (K := K)) (denSub inp) (IsInput inp) := by
  intro k sh hF hs
  have hk := not_input inp hF
  by_cases hm : subKeys.contains k = true
  · simp only [subKeys, List.contains_eq_mem, List.mem_cons, List.not_mem_nil, or_false, decide_eq_true_eq] at hm
    rcases hm with rfl | rfl | rfl | rfl | rfl | rfl | rfl | rfl | rfl | rfl | rfl | rfl | rfl | rfl | rfl | rfl | rfl
      | rfl | rfl | rfl | rfl | rfl | rfl | rfl | rfl
    · comp_case shape_3 6
    · comp_case shape_4 6
    · comp_case shape_5 6
    · tens_case shape_6
    · comp_case shape_7 10
    · comp_case shape_8 10
    · comp_case shape_9 10
    · tens_case shape_10
    · comp_case shape_15 21
    · comp_case shape_16 21
    · comp_case shape_17 21
    · comp_case shape_18 21
    · comp_case shape_19 21
    · comp_case shape_20 21
    · tens_case shape_21
    · comp_case shape_40 46
    · comp_case shape_41 46
    · comp_case shape_42 46
    · comp_case shape_43 46
    · comp_case shape_44 46
    · comp_case shape_45 46
    · tens_case shape_46
    · -- rho0
      rw [shape_58] at hs; cases hs
      refine ⟨fun _ => ?_, fun hf => ?_⟩
      · simp only [CohM, TSub, denSub, List.nil_append, List.cons_append, leafSub, rd, List.getD_cons_zero,
          List.getD_cons_succ, core_unfold, dRho0, dRho, hk]
        cases h61 : get? inp 61 <;> simp only [Val.toS, zero_mul, zero_div]
      · have h61 := pres_false inp hf
        simp only [CohM, TSub, denSub, dRho0, hk, h61, leafSub, core_unfold]
    · -- eps
      rw [shape_60] at hs; cases hs
      refine ⟨fun _ => ?_, fun hf => ?_⟩
      · simp only [CohM, TSub, denSub, List.nil_append, List.cons_append, leafSub, rd, List.getD_cons_zero,
          List.getD_cons_succ, core_unfold, dEps, dRho0, dRho, hk]
        cases h61 : get? inp 61 <;> cases h58 : get? inp 58 <;>
          simp only [Val.toS, zero_mul, zero_div, add_zero, mul_one, div_one, sub_self]
      · rcases and_false inp hf with h | h
        · simp only [CohM, TSub, denSub, dEps, hk, h, leafSub, core_unfold]
        · simp only [CohM, TSub, denSub, dEps, hk, h, leafSub, core_unfold]
          cases get? inp 61 <;> rfl
    · -- rho
      rw [shape_61] at hs; cases hs
      simp only [CohM, TSub, denSub, List.nil_append, List.cons_append, leafSub, rd, List.getD_cons_zero,
        List.getD_cons_succ, core_unfold, dRho, hk]
  · have : (TSub (K := K)).shape k = none := by
      simp only [TSub]; rw [if_neg hm]
    rw [this] at hs; cases hs

end den

/-- **transparency of the sub-table, no hypothesis about the bodies**: for every field `K`, every input dictionary
`inp`, every admissible policy (with any state and start state), every recursion budget, every finite history and
final request `k`: if the history runs, the value it returns for `k` is the one a fresh instance (any other
admissible policy, e.g. no eviction at all) returns for that single request, and it is `denSub inp k`. -/
theorem sub_transparent {σ σ' : Type} (inp : Dict Nat (Val K))
    (pol : Policy σ Nat (Val K)) (hpol : PolicyOK (IsInput inp) pol)
    (pol' : Policy σ' Nat (Val K)) (hpol' : PolicyOK (IsInput inp) pol')
    (s0 : σ) (s0' : σ') (fuel fuel' : Nat) (h : List (HOp Nat)) (k : Nat)
    (c : Cfg σ Nat (Val K)) (vs : List (Val K))
    (hrun : runHist TSub pol fuel (s0, inp) (h ++ [.req k]) = .ok (c, vs))
    (c' : Cfg σ' Nat (Val K)) (v' : Val K) (hfresh : getF TSub pol' fuel' (s0', inp) k = .ok (c', v')) :
    vs.getLast? = some v' ∧ v' = denSub inp k :=
  C01.get_transparent_sharp TSub inp (denSub inp) (denSub_inputs inp) (sub_cohM inp) pol hpol pol' hpol'
    s0 s0' fuel fuel' h k c vs hrun c' v' hfresh

/-! ### Non-vacuity: a history that runs, under the most aggressive admissible policy -/

/-- after every store, and at every sweep, drop everything except the inputs and the entry just stored -/
def polAggr (inp : Dict Nat (Val K)) : Policy Unit Nat (Val K) :=
  { onHit := fun s _ => s
    onStore := fun s d k => (s, d.filter (fun kv => kv.1 == k || contains inp kv.1))
    onSweep := fun s d => (s, d.filter (fun kv => contains inp kv.1)) }

/-- no eviction at all -/
def polKeep : Policy Unit Nat (Val K) :=
  { onHit := fun s _ => s, onStore := fun s d _ => (s, d), onSweep := fun s d => (s, d) }

theorem polAggr_ok (inp : Dict Nat (Val K)) : PolicyOK (IsInput inp) (polAggr inp) :=
  ⟨fun _ d k => evictRel_filter _ (fun x => x == k || contains inp x) (fun k' h => by
      have : contains inp k' = true := h
      simp [this]) d,
   fun _ d => evictRel_filter _ (fun x => contains inp x) (fun k' h => h) d⟩

theorem polKeep_ok (inp : Dict Nat (Val K)) : PolicyOK (IsInput inp) (polKeep (K := K)) :=
  ⟨fun _ _ _ _ => Or.inl rfl, fun _ _ _ => Or.inl rfl⟩

/-- inputs: the components `gxx = 2`, `gxy = 1`, `gyy = 3` only (the others default), the shift as a VECTOR, `rho0`. -/
def inpEx : Dict Nat (Val ℚ) :=
  [(15, .s 2), (16, .s 1), (18, .s 3), (6, .v (vec3 1 2 3)), (58, .s 5)]

/-- the history: the metric tensor (assembled), a component read back from it, a sweep, a shift component through
the cached vector, `rho` (computed), then `eps` through the alternative that needs `rho` AND `rho0` cached — `rho`
has been evicted by then — and once more after `rho`. -/
def histEx : List (HOp Nat) :=
  [.req 21, .req 17, .sweep, .req 4, .req 61, .req 60, .req 61, .req 60, .req 58]

/-- it runs (so the hypotheses `hrun`, `hfresh` of `sub_transparent` are satisfiable), and a fresh instance too. -/
example : (∃ c vs, runHist TSub (polAggr inpEx) 4 ((), inpEx) (histEx ++ [.req 20]) = .ok (c, vs))
    ∧ (∃ c v, getF TSub (polKeep (K := ℚ)) 4 ((), inpEx) 20 = .ok (c, v)) :=
  ⟨⟨_, _, rfl⟩, ⟨_, _, rfl⟩⟩

/-- the denotations of the example are the expected numbers (`gzz` defaults to 1, `betay = 2`, `rho = 5`, `eps = 0`). -/
example : (denSub inpEx 20).toS = 1 ∧ (denSub inpEx 4).toS = 2 ∧ (denSub inpEx 61).toS = 5 ∧ (denSub inpEx 60).toS = 0
    ∧ (denSub inpEx 21).toT 0 1 = 1 := by
  refine ⟨?_, ?_, ?_, ?_, ?_⟩ <;>
    (simp only [denSub, comp, tens, dRho, dRho0, dEps, inpEx, get?, Val.toS, Val.toV, Val.toT, core_unfold]; norm_num)

end AurelVerif.C01Sub
