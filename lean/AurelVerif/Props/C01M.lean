/-
Props/C01M.lean — property C01, extension round: the transparency theorem under the SHARPER coherence hypothesis
`TableCohM` (Lemmas/CacheGetM.lean), which removes from H2 every guard whose outcome cannot change along a history:

  * physical options (`self.vacuum`, `self.tetrad == 'quasi-Kinnersley'`): `flag_guard_constant` — only the branch
    selected by the option has to be coherent (this was already so in `get_transparent`);
  * presence tests of names WITHOUT a method (`'Weyl_Psi4r' in self.data.keys()`): `methodless_guard_constant` — such a
    name is cached iff it is a frozen input, so the branch that returns only Ψ4 is never compared with the branch that
    computes Ψ0..Ψ4 (they are different quantities).  `aurel_methodless` checks on the regenerated table that
    `Weyl_Psi4r`, `Weyl_Psi4i` are exactly the names that are tested/read and have no method.

`get_transparent_sharp` strictly generalises `C01.get_transparent` (`TableCoh → TableCohM`).
ONLY statements and non-vacuity examples; proofs are in Lemmas/CacheGetM.lean.
-/
import AurelVerif.Props.C01
import AurelVerif.Lemmas.CacheGetM

namespace AurelVerif.C01
open AurelVerif.Cache AurelVerif.Cache.Dict AurelVerif.CacheGet

variable {κ ν σ σ' : Type} [DecidableEq κ]
set_option linter.unusedSectionVars false

/-- **T1, sharper H2**: as `get_transparent`, with branch coherence required only for test outcomes that a cache
made of frozen inputs and of keys that have a method can produce. -/
theorem get_transparent_sharp (T : Table κ ν) (inp : Dict κ ν) (den : κ → ν)
    (hin : ∀ k v, get? inp k = some v → den k = v)
    (H2 : TableCohM T den (IsInput inp))
    (pol : Policy σ κ ν) (hpol : PolicyOK (IsInput inp) pol)
    (pol' : Policy σ' κ ν) (hpol' : PolicyOK (IsInput inp) pol')
    (s0 : σ) (s0' : σ') (fuel fuel' : Nat) (h : List (HOp κ)) (k : κ)
    (c : Cfg σ κ ν) (vs : List ν) (hrun : runHist T pol fuel (s0, inp) (h ++ [.req k]) = .ok (c, vs))
    (c' : Cfg σ' κ ν) (v' : ν) (hfresh : getF T pol' fuel' (s0', inp) k = .ok (c', v')) :
    vs.getLast? = some v' ∧ v' = den k := by
  have hg : GoodM T den (IsInput inp) inp := goodM_inputs T (den := den) inp hin
  obtain ⟨_, hvs⟩ := runHist_soundM H2 hpol fuel _ _ c vs hg hrun
  obtain ⟨_, hv'⟩ := getF_soundM H2 hpol' fuel' _ k c' v' hg hfresh
  refine ⟨?_, hv'⟩
  rw [hvs, hv', List.filterMap_append]
  simp

/-- every value returned anywhere in a history is the denotation of the key requested (sharper H2). -/
theorem history_values_sharp (T : Table κ ν) (inp : Dict κ ν) (den : κ → ν)
    (hin : ∀ k v, get? inp k = some v → den k = v) (H2 : TableCohM T den (IsInput inp))
    (pol : Policy σ κ ν) (hpol : PolicyOK (IsInput inp) pol) (s0 : σ) (fuel : Nat) (h : List (HOp κ))
    (c : Cfg σ κ ν) (vs : List ν) (hrun : runHist T pol fuel (s0, inp) h = .ok (c, vs)) :
    vs = h.filterMap (fun o => match o with | .req k => some (den k) | .sweep => none) :=
  (runHist_soundM H2 hpol fuel h (s0, inp) c vs (goodM_inputs T inp hin) hrun).2

/-- the old hypothesis implies the sharper one. -/
theorem tableCoh_implies_sharp (T : Table κ ν) (den : κ → ν) (F : κ → Prop) (h : TableCoh T den F) :
    TableCohM T den F := h.toM

/-- a test of a physical option has exactly one feasible outcome, the value of the option. -/
theorem flag_guard_constant (T : Table κ ν) (F : κ → Prop) (s : String) (b : Bool)
    (h : FeasibleM T F (.flag s) b) : T.flag s = b := feasibleM_flag h

/-- a presence test of a name without a method has exactly one feasible outcome: whether it is a frozen input. -/
theorem methodless_guard_constant (T : Table κ ν) (F : κ → Prop) (k : κ) (hk : T.shape k = none) (b : Bool)
    (h : FeasibleM T F (.pres k) b) : (b = true ↔ F k) := feasibleM_methodless hk h

/-! ### the real table -/

open AurelVerif.Gen.DepGraph

/-- on the regenerated table the names beyond the description keys (`Weyl_Psi4r`, `Weyl_Psi4i`: read / tested by
`Weyl_Psi`, no method) have no shape, and every description key has one. -/
theorem aurel_methodless :
    ((List.range names.length).filter (fun k => (shapeOf k).isNone)) = (List.range names.length).drop nKeys
    ∧ (names.drop nKeys) = ["Weyl_Psi4r", "Weyl_Psi4i"] := by
  decide +kernel

/-! ### Non-vacuity: a table that satisfies `TableCohM` but NOT `TableCoh` -/

/-- key 0 is the input; key 9 has no method and is not supplied; key 2 returns `self[9]` if 9 is cached (a different
quantity, as `Weyl_Psi` with `Weyl_Psi4r`), else `self[0] + 1`. -/
def tExM : Table Nat Nat :=
  { shape := fun k => match k with
      | 2 => some (.test (.pres 9) (.read 9 (.ret 0)) (.read 0 (.ret 1)))
      | _ => none
    leaf := fun k i vs => match k, i with
      | 2, 0 => vs.getD 0 0 + 100
      | 2, _ => vs.getD 0 0 + 1
      | _, _ => 0
    flag := fun _ => false
    count := fun _ => 0 }

def denExM : Nat → Nat := fun k => match k with | 0 => 5 | 2 => 6 | _ => 0

theorem inpEx_nine : ¬ IsInput inpEx 9 := fun h => by have := inpEx_zero 9 h; omega

theorem tExM_cohM : TableCohM tExM denExM (IsInput inpEx) := by
  intro k sh _ hs
  match k with
  | 2 =>
    simp [tExM] at hs; subst hs
    refine ⟨fun hf => ?_, fun _ => ?_⟩
    · exact absurd ((feasibleM_methodless (T := tExM) (k := 9) rfl hf).mp rfl) inpEx_nine
    · simp [CohM, tExM, denExM]
  | 0 => simp [tExM] at hs
  | 1 => simp [tExM] at hs
  | n + 3 => simp [tExM] at hs

/-- … while the unsharpened hypothesis fails for it (the branch through the method-less name returns 100). -/
theorem tExM_not_coh : ¬ TableCoh tExM denExM (IsInput inpEx) := by
  intro h
  have h2 := h 2 _ (fun hh => by have := inpEx_zero 2 hh; omega) rfl
  have := h2.1 ⟨fun _ => true, fun _ _ => rfl, rfl⟩
  simp [Coh, tExM, denExM] at this

example : (match getF tExM polNone 5 ((), inpEx) 2 with
    | .ok (_, v) => v
    | .error _ => 0) = 6 := by decide +kernel

end AurelVerif.C01
