/-
Props/C07.lean — property theorems for C07 (finite-difference operators).
ONLY property statements and non-vacuity examples live here; helper lemmas
are in Lemmas/Stencil.lean and Lemmas/SpliceLemmas.lean.

Model: Gen/Stencils.lean (regenerated from finitedifference.py on every
run) + Model/Splice.lean (hand-written; tied to the code by the weight-matrix
correspondence of tools/props/C07.py).
-/
import AurelVerif.Lemmas.Stencil
import AurelVerif.Lemmas.SpliceLemmas

namespace AurelVerif.C07
open AurelVerif.Splice AurelVerif.Gen.Stencils AurelVerif.StencilLemmas AurelVerif.SpliceLemmas

/-- **D1** For each order the code offers, the three dispatched stencils have
the offsets `0..p` (forward), `-p..0` (backward), `-p/2..p/2` without 0
(centered), `mask_len = p/2`, and satisfy the moment conditions
`Σ c_k k^j = [j = 1]`, `j = 0..p`.  Finite table, checked by the kernel. -/
theorem stencil_tables_ok :
    ∀ o ∈ orders, schemeOK (scheme o) o = true := by
  decide +kernel

/-- **T2** Moment conditions ⇒ exact first derivative of every polynomial of
degree ≤ p, at every base point, for every spacing `h ≠ 0`, over every field
of characteristic 0. -/
theorem exact_on_polynomials {K : Type} [Field K] [CharZero K]
    (st : Stencil) (p : Nat) (hm : momentsOK st p = true)
    (q : Polynomial K) (hq : q.natDegree ≤ p) (x h : K) (hh : h ≠ 0) :
    evalSt st (fun k => q.eval (x + (k : K) * h)) * h⁻¹ = q.derivative.eval x :=
  exact_of_moments st p hm q hq x h hh

/-- **T3** one-sided mode: for `len f = N ≥ 3·mask_len` and a scheme whose
offsets have the shape of D1, the model's output is, row by row, forward
stencil for `i < m`, centered for `m ≤ i < N-m`, backward otherwise, each
evaluated with plain (non-wrapping, in-bounds) indexing; every row exists. -/
theorem onesided_spec {α : Type} (s : Scheme) (p : Nat) (hs : shapesOK s p = true)
    (f : List α) (N : Nat) (hf : f.length = N) (hN : 3 * s.maskLen ≤ N) :
    d3Onesided s f N = (List.range N).mapM (fun i => directRow (pickOnesided s N i) f i)
    ∧ ∀ i < N, (directRow (pickOnesided s N i) f i).isSome :=
  onesided_spec_lemma s p hs f N hf hN

/-- **T4** periodic mode: for `len f = N ≥ mask_len ≥ 1`, output `i` is the
centered stencil on samples `(i + k) mod N`. -/
theorem periodic_spec {α : Type} (s : Scheme) (p : Nat) (hs : shapesOK s p = true)
    (f : List α) (N : Nat) (hf : f.length = N) (hm : 1 ≤ s.maskLen) (hN : s.maskLen ≤ N) :
    d3Periodic s f N = (List.range N).mapM (fun i => wrapRow s.cen f N i)
    ∧ ∀ i < N, (wrapRow s.cen f N i).isSome :=
  periodic_spec_lemma s p hs f N hf hm hN

/-- **T5** symmetric mode: for `len f = N ≥ mask_len + 1`, output `i` is the
centered stencil on samples `refl N (i + k)`, mirror about the first and last
sample without repeating the end point. -/
theorem symmetric_spec {α : Type} (s : Scheme) (p : Nat) (hs : shapesOK s p = true)
    (f : List α) (N : Nat) (hf : f.length = N) (hm : 1 ≤ s.maskLen) (hN : s.maskLen + 1 ≤ N) :
    d3Symmetric s f N = (List.range N).mapM (fun i => reflRow s.cen f N i)
    ∧ ∀ i < N, (reflRow s.cen f N i).isSome :=
  symmetric_spec_lemma s p hs f N hf hm hN

/-- **T9** composition for the one-sided mode (the default): for every order
the code offers, every `N ≥ 3p/2`, every polynomial `q` of degree ≤ p, every
origin `x₀` and spacing `h ≠ 0`, the operator applied to the samples
`q(x₀ + j h)` returns exactly `q'(x₀ + i h)` at *every* grid point `i < N`,
edge points included. -/
theorem onesided_exact_everywhere {K : Type} [Field K] [CharZero K]
    (o : Nat) (ho : o ∈ orders) (N : Nat) (hN : 3 * (scheme o).maskLen ≤ N)
    (q : Polynomial K) (hq : q.natDegree ≤ o) (x₀ h : K) (hh : h ≠ 0) :
    ∃ rows, d3Onesided (scheme o) ((List.range N).map fun (j : ℕ) => q.eval (x₀ + (j : K) * h)) N = some rows
      ∧ rows.length = N
      ∧ ∀ i (hi : i < rows.length), evalLin (rows[i]) * h⁻¹ = q.derivative.eval (x₀ + (i : K) * h) :=
  onesided_exact_lemma o ho N hN q hq x₀ h hh

/-- **T8** linearity: the model is natural in the sample type, so the output
is the same linear form whatever the samples are (`Lin.map g` relabels). -/
theorem d3_natural {α β : Type} (g : α → β) (b : Boundary) (s : Scheme) (f : List α) (N : Nat) :
    d3 b s (f.map g) N = (d3 b s f N).map (fun rows => rows.map (fun row => row.map (fun ca => (ca.1, g ca.2)))) :=
  d3_natural_lemma g b s f N

/-- **T6** axis exchange: `d3y`/`d3z` are `d3x` conjugated by the transposition
the code uses; on a rectangular array the transposition is an involution. -/
theorem transpose12_involutive {β : Type} (f : List (List β)) (n : Nat)
    (hrect : ∀ r ∈ f, r.length = n) (hne : f ≠ []) (hn : 0 < n) :
    transpose12 (transpose12 f) = f :=
  transpose12_involutive_lemma f n hrect hne hn

/-! Non-vacuity: the hypotheses are met by the real tables. -/
example : shapesOK (scheme 4) 4 = true := by decide +kernel
example : momentsOK (scheme 6).fwd 6 = true := by decide +kernel
example : (d3Onesided (scheme 2) [10, 20, 30, 40] 4).isSome = true := by decide +kernel
/-- the stated minimum is sharp: below `3p/2` a row wraps (reads `f[-1]`) or raises. -/
example : d3Onesided (scheme 4) (List.range 5) 5 = none := by decide +kernel

end AurelVerif.C07
