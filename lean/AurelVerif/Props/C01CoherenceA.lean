/-
Props/C01CoherenceA.lean — property C01, extension round: branch coherence (H2) of the guards that
Props/C01Coherence.lean did not cover, CLASS (a): ALGEBRAICALLY coherent — the alternatives are equal for
every input, every field `K` and every operator `e.D`, as soon as the cached entries they read were produced
by the code's own formulas (hypotheses of the form `e.X = X e`) and, where an inverse metric is contracted,
`γ⁻¹γ = 1`.  No continuum hypothesis, no field equation.

Every definition without a namespace prefix is GENERATED from the current core.py (alternatives are suffixed
`__<presence set>[_vacuum|_matter]`).  The table of ALL guards / multi-alternative definitions with the
theorem that covers each is generated on every run by tools/props/C01.py (evidence key `coherence_table`).

  guard `'s_Riemann_down3' in self.data.keys()`       s_Ricci_down3_coherent
  guard `all(k in … ('Momentumx','Momentumy','Momentumz'))`   Momentumup3_components_coherent
  guard `not any(k in … ('betaup3','betax','betay','betaz'))`
        s_to_st ........................................ C01Coherence.s_to_st_coherent (funext: s_to_st_coherent_fun)
        st_Riemann_down4 (matter and vacuum) ........... st_Riemann_down4_shift_coherent
        st_Weyl_down4 .................................. st_Weyl_down4_shift_coherent
  guards `'rho' in self.data`, `'rho' in self.data and 'rho0' in self.data`
        eps_coherent_of_rho, eps_coherent_of_rho0, rho0_coherent  (the cache-level statements; the identities
        `ρ = ρ₀(1+ε)` are C09.eos_consistent)
  guard `'st_Ricci_down4' in self.data.keys()` when the cached `st_Ricci_down4` came from `Tdown4`:
        C04.st_Ricci_down3_coherent (restated here with the trace alternative spelled out:
        st_Ricci_down3_coherent_of_T)
  `self.vacuum`, `self.tetrad == 'quasi-Kinnersley'`: physical options, constant along a history; the two
        values are different quantities, not alternatives (Props/C01M.lean `flag_guard_constant`).
-/
import AurelVerif.Props.C01Coherence
import AurelVerif.Props.C05b
import AurelVerif.Props.C06
import AurelVerif.Props.C04
import AurelVerif.Props.C10Alt2

set_option linter.unusedSimpArgs false
set_option linter.unusedVariables false
set_option linter.unusedSectionVars false

namespace AurelVerif.C01Coherence
open AurelVerif.Gen.Core AurelVerif.Tensor AurelVerif.CoreTac AurelVerif.C08

variable {K : Type} [Field K]

/-! ### `s_Ricci_down3`: contraction of the cached lowered Riemann tensor vs the direct sum -/

/-- guard `'s_Riemann_down3' in self.data.keys()`: with `s_Riemann_down3 = γ_{ai} R^a_{bcd}` and `R^a_{bcd}`
produced by the code's formulas and `γ^{ic}γ_{ai} = δ^c_a`, the contraction `γ^{ac}R_{abcd}` of the cached tensor is
the default alternative (the sum `R^a_{bad}` built from the cached connection).  Exact, every `e.D`. -/
theorem s_Ricci_down3_coherent (e : Env K) (hR : e.s_Riemann_down3 = s_Riemann_down3 e)
    (hRu : e.s_Riemann_uddd3 = s_Riemann_uddd3 e)
    (hinv : ∀ a c, ∑ i, e.gammaup3 i c * e.gammadown3 a i = delta a c) (b d : Fin 3) :
    s_Ricci_down3__s_Riemann_down3 e b d = s_Ricci_down3__dflt e b d := by
  rw [C05.s_Ricci_down3_alt_spec e hR hinv, C05.s_Ricci_down3_dflt_spec, hRu]

/-! ### `Momentumup3` from its three cached components -/

/-- guard `all(k in self.data …('Momentumx','Momentumy','Momentumz'))`: the components read the vector back, so
the vector stacked from the cached components is the cached vector. -/
theorem Momentumup3_components_coherent (e : Env K) (hx : e.Momentumx = Momentumx e) (hy : e.Momentumy = Momentumy e)
    (hz : e.Momentumz = Momentumz e) (i : Fin 3) :
    Momentumup3__Momentumx_and_Momentumy_and_Momentumz e i = e.Momentumup3 i := by
  revert i; cases3 <;> simp only [hx, hy, hz, core_unfold]

/-! ### the zero-shift shortcut of `s_to_st` inside `st_Riemann_down4` and `st_Weyl_down4` -/

theorem s_to_st_coherent_fun (e : Env K) (f : Fin 3 → Fin 3 → K) (hb : ∀ i, e.betaup3 i = 0) :
    s_to_st__dflt e f = s_to_st__betaup3 e f := by
  funext μ ν; exact s_to_st_coherent e f hb μ ν

/-- guard `not any(k in self.data for k in ('betaup3','betax','betay','betaz'))` in `st_Riemann_down4`: with the
default shift `β = 0` the alternative traced without any shift key equals the general one, all 256 components,
both values of the `vacuum` option. -/
theorem st_Riemann_down4_shift_coherent (e : Env K) (hb : ∀ i, e.betaup3 i = 0) (a b c d : Fin 4) :
    st_Riemann_down4__dflt_matter e a b c d = st_Riemann_down4__betaup3_matter e a b c d
    ∧ st_Riemann_down4__dflt_vacuum e a b c d = st_Riemann_down4__betaup3_vacuum e a b c d := by
  constructor
  · rw [C04.st_Riemann_down4_dflt_matter_spec, C04.st_Riemann_down4_betaup3_matter_spec, s_to_st_coherent_fun e _ hb]
  · rw [C04.st_Riemann_down4_dflt_vacuum_spec, C04.st_Riemann_down4_betaup3_vacuum_spec, s_to_st_coherent_fun e _ hb]

/-- the same guard in the E/B construction of `st_Weyl_down4`, all 256 components. -/
theorem st_Weyl_down4_shift_coherent (e : Env K) (hb : ∀ i, e.betaup3 i = 0) (a b c d : Fin 4) :
    st_Weyl_down4__dflt e a b c d = st_Weyl_down4__betaup3 e a b c d := by
  rw [C10.weyl_alt2_noshift_spec, C10.weyl_alt2_spec, s_to_st_coherent_fun e _ hb, s_to_st_coherent_fun e _ hb]

/-! ### rest-mass density, internal energy, total density -/

/-- guard `'rho' in self.data and 'rho0' in self.data` — `rho` cached because it was COMPUTED from `rho0` and the
default `eps = 0`: the alternative `(ρ − ρ₀)/ρ₀` returns the default 0 (also where `ρ₀ = 0`: `safe_division`). -/
theorem eps_coherent_of_rho (e : Env K) (he : e.eps = eps__dflt e) (hr : e.rho = rho e) :
    eps__rho_and_rho0 e = eps__dflt e := by
  simp only [core_unfold] at he
  simp only [hr, he, core_unfold, add_zero, mul_one, sub_self, zero_div]

/-- the same guard — `rho0` cached because it was COMPUTED from the input `rho` and the default `eps = 0`. -/
theorem eps_coherent_of_rho0 (e : Env K) (he : e.eps = eps__dflt e) (h0 : e.rho0 = rho0__rho e) :
    eps__rho_and_rho0 e = eps__dflt e := by
  simp only [core_unfold] at he
  simp only [h0, he, core_unfold, add_zero, div_one, sub_self, zero_div]

/-- guard `'rho' in self.data` — `rho` cached because it was COMPUTED from the default `rho0 = 0` (any `eps`):
`ρ/(1+ε)` returns the default 0. -/
theorem rho0_coherent (e : Env K) (h0 : e.rho0 = rho0__dflt e) (hr : e.rho = rho e) :
    rho0__rho e = rho0__dflt e := by
  simp only [core_unfold] at h0
  simp only [hr, h0, core_unfold, zero_mul, zero_div]

/-! ### `st_Ricci_down3` when the cached `st_Ricci_down4` came from `Tdown4` -/

/-- guard `'st_Ricci_down4' in self.data.keys()`, the cached 4-Ricci tensor produced by the `Tdown4` alternative
and `Ttrace` by the trace alternative: purely algebraic (C04.st_Ricci_down3_coherent).  When the cached 4-Ricci
tensor is the contraction of the Riemann tensor the agreement holds on shell only: Props/C01CoherenceC.lean. -/
theorem st_Ricci_down3_coherent_of_T (e : Env K) (h : Assembled e) (hR : e.st_Ricci_down4 = st_Ricci_down4__Tdown4 e)
    (hT : e.Ttrace = Ttrace__Tdown4 e) (i j : Fin 3) :
    st_Ricci_down3__st_Ricci_down4 e i j = st_Ricci_down3__dflt e i j := C04.st_Ricci_down3_coherent e h hR hT i j

/-! ### Non-vacuity -/

open AurelVerif.C05 in
set_option maxHeartbeats 1000000 in
/-- `s_Ricci_down3_coherent`: the curved slice `exR` of Props/C05b.lean (γ = diag(1, F(x), 1), `R^x_{yxy} = −11/8`),
every entry produced by the code's formulas. -/
example : exR.s_Riemann_down3 = s_Riemann_down3 exR ∧ exR.s_Riemann_uddd3 = s_Riemann_uddd3 exR
    ∧ (∀ a c, ∑ i, exR.gammaup3 i c * exR.gammadown3 a i = delta a c)
    ∧ s_Ricci_down3__dflt exR 1 1 = -11 / 8 := by
  refine ⟨?_, ?_, ?_, ?_⟩
  · funext a b c d; revert a b c d
    cases3 <;> cases3 <;> cases3 <;> cases3 <;> exR_simp
  · funext a b c d; revert a b c d
    cases3 <;> cases3 <;> cases3 <;> cases3 <;> exR_simp
  · cases3 <;> cases3 <;> (exR_simp; norm_num <;> decide)
  · exR_simp; norm_num

/-- `Momentumup3_components_coherent`: a non-zero vector and the components read from it. -/
def exMom : Env ℚ :=
  { (Env.zero : Env ℚ) with Momentumup3 := vec3 1 (-2) 3, Momentumx := 1, Momentumy := -2, Momentumz := 3 }

example : exMom.Momentumx = Momentumx exMom ∧ exMom.Momentumy = Momentumy exMom ∧ exMom.Momentumz = Momentumz exMom
    ∧ exMom.Momentumup3 1 ≠ 0 := by
  refine ⟨?_, ?_, ?_, ?_⟩ <;> (simp only [exMom, core_unfold]; try norm_num)

/-- shift shortcut: zero shift, lapse 2, non-zero `K`, `E`, `B` (the conclusions are about 256 non-trivial entries;
the only hypothesis is `β = 0`). -/
def exNoShift : Env ℚ :=
  { (Env.zero : Env ℚ) with
    alpha := 2
    Kdown3 := vec3 (vec3 1 2 0) (vec3 2 0 1) (vec3 0 1 3)
    eweyl_n_down3 := vec3 (vec3 1 1 0) (vec3 1 (-1) 2) (vec3 0 2 0)
    bweyl_n_down3 := vec3 (vec3 0 1 0) (vec3 1 0 0) (vec3 0 0 0) }

example : (∀ i, exNoShift.betaup3 i = 0) ∧ s_to_st__betaup3 exNoShift exNoShift.Kdown3 1 2 = 2 := by
  refine ⟨?_, ?_⟩
  · cases3 <;> simp only [exNoShift, Env.zero]
  · simp only [exNoShift, Env.zero, core_unfold]

/-- `eps_coherent_of_rho`: `ρ₀ = 3` supplied, `ε` default, `ρ` computed. -/
def exEosA : Env ℚ := { (Env.zero : Env ℚ) with rho0 := 3, eps := 0, rho := 3 }
example : exEosA.eps = eps__dflt exEosA ∧ exEosA.rho = rho exEosA ∧ exEosA.rho0 ≠ 0 := by
  refine ⟨?_, ?_, ?_⟩ <;> (simp only [exEosA, core_unfold]; try norm_num)

/-- … and the corner `ρ₀ = 0` (division by zero inside the alternative): still the default. -/
def exEosA0 : Env ℚ := { (Env.zero : Env ℚ) with rho0 := 0, eps := 0, rho := 0 }
example : exEosA0.eps = eps__dflt exEosA0 ∧ exEosA0.rho = rho exEosA0 ∧ exEosA0.rho0 = 0 := by
  refine ⟨?_, ?_, ?_⟩ <;> (simp only [exEosA0, core_unfold]; try norm_num)

/-- `eps_coherent_of_rho0`: `ρ = 5` supplied, `ε` default, `ρ₀` computed from it. -/
def exEosB : Env ℚ := { (Env.zero : Env ℚ) with rho := 5, eps := 0, rho0 := 5 }
example : exEosB.eps = eps__dflt exEosB ∧ exEosB.rho0 = rho0__rho exEosB := by
  refine ⟨?_, ?_⟩ <;> (simp only [exEosB, core_unfold]; try norm_num)

/-- `rho0_coherent`: `ε = 7` supplied, `ρ₀` default, `ρ` computed. -/
def exEosC : Env ℚ := { (Env.zero : Env ℚ) with eps := 7, rho0 := 0, rho := 0 }
example : exEosC.rho0 = rho0__dflt exEosC ∧ exEosC.rho = rho exEosC ∧ exEosC.eps ≠ 0 := by
  refine ⟨?_, ?_, ?_⟩ <;> (simp only [exEosC, core_unfold]; try norm_num)

/-- `st_Ricci_down3_coherent_of_T`: the point `C04.exEnvT` (κ = 1, Λ = 1/3, non-trivial symmetric `T`); `Assembled`
is checked in Props/C04.lean. -/
example : C04.exEnvT.st_Ricci_down4 = st_Ricci_down4__Tdown4 C04.exEnvT ∧ C04.exEnvT.Ttrace = Ttrace__Tdown4 C04.exEnvT := by
  refine ⟨?_, ?_⟩
  · funext i j; revert i j
    cases4 <;> cases4 <;> (simp only [C04.exEnvT, C04.exEnvT1, C04.exEnvT0, core_unfold])
  · simp only [C04.exEnvT, C04.exEnvT1, C04.exEnvT0, core_unfold]

end AurelVerif.C01Coherence
