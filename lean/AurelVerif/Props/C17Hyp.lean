/-
Props/C17Hyp.lean — property theorems for C17, part 3: the Gauss hypergeometric antiderivative used by
Szekeres, and with it the Szekeres statements WITHOUT hypothesis.  ONLY statements and non-vacuity examples;
proofs in Lemmas/C17PowSeries.lean (term-wise differentiation of a real power series inside the unit disc),
Lemmas/C17HypDisc.lean, Lemmas/C17HypPfaff.lean, Lemmas/C17HypPfaffEq.lean.

What `hyp2f1` is.  `Szekeres.Z_terms` calls `scipy.special.hyp2f1(5/6, 3/2, 11/6, −sinh²τ)` (`sympy.hyper` in the
symbolic branch) for every `τ = tauC·t > 0`; the argument `−sinh²τ` leaves the unit disc for `sinh τ ≥ 1`
(`τ ≥ 0.8814`; today, `sinh²τ = Ω_Λ/Ω_m ≈ 2.2`), where Gauss' series diverges and the library returns the analytic
continuation.  Mathlib's `ordinaryHypergeometric` (`₂F₁`) is the sum of the series (junk value 0 outside the disc).
  * `gaussHyp a b c x := ₂F₁ a b c x` — Mathlib's function itself.
  * `gaussHypNeg a b c x := (1 − x)^(−b) · ₂F₁ (c − a) b c (x/(x − 1))` — Pfaff's transformation (DLMF 15.8.1); for
    `x ≤ 0` the inner argument `x/(x−1)` lies in `[0, 1)`, so this is a convergent series for EVERY `x ≤ 0`, real-analytic
    in `x`, and (theorem `hyp2f1_pfaff`, proven here for the module's parameters) it coincides with Gauss' series on
    `−1 < x ≤ 0`: it is the analytic continuation of `₂F₁(5/6, 3/2; 11/6; ·)` to the negative axis.

PROVEN
  `hyp2f1_antiderivative_disc` : `d/dτ integrated_part = part_to_integrate` for Mathlib's `₂F₁`, `0 < τ`, `sinh²τ < 1`;
  `hyp2f1_antiderivative`      : the same for the continuation `gaussHypNeg`, for ALL `τ > 0`;
  `hyp2f1_pfaff`               : `gaussHypNeg = ₂F₁` on `−1 < x ≤ 0` (module's parameters);
  `K_is_metric_rate_Szekeres`, `Szekeres_dtZ_is_rate_hyp`, `einstein_Szekeres` : the conclusions of
     `K_is_metric_rate_Szekeres_partial`, `Szekeres_dtZ_is_rate`, `einstein_Szekeres_partial` with the hypothesis discharged
     (`hyp2f1 := gaussHypNeg`), for all `t > 0`, `Z ≠ 0`;
  `K_is_metric_rate_Szekeres_disc` : the same for Mathlib's `₂F₁` itself where its series converges (`sinh²(tauC t) < 1`);
  `Szekeres_series_agrees_on_disc` : there, every output of the module is the same for the series and its continuation.
NOT PROVEN: that `scipy.special.hyp2f1` / `sympy.hyper` compute this function (numerical sentinel: mpmath at 30 digits
  against both the derivative identity and Pfaff's form, and scipy against mpmath, on every run); Pfaff's transformation
  for general parameters (only the module's `(5/6, 3/2; 11/6)` is needed).
-/
import AurelVerif.Props.C17
import AurelVerif.Props.C17Einstein
import AurelVerif.Lemmas.C17HypPfaffEq

namespace AurelVerif.C17
open AurelVerif.Gen.Solutions AurelVerif.SolutionsLemmas AurelVerif.Spec.Jet4 AurelVerif.C17Ein AurelVerif.C17Hyp

/-- the two functions used in place of the opaque `hyp2f1`, in terms of Mathlib's `ordinaryHypergeometric`. -/
theorem hyp2f1_defs (a b c x : ℝ) :
    gaussHyp a b c x = ordinaryHypergeometric a b c x ∧
    gaussHypNeg a b c x = (1 - x) ^ (-b) * ordinaryHypergeometric (c - a) b c (x / (x - 1)) := ⟨rfl, rfl⟩

/-- Gauss' series: inside the disc of convergence the module's `integrated_part` is an antiderivative of its
`part_to_integrate`: `d/dτ[(3/5) sinh^{5/3}τ ₂F₁(5/6,3/2;11/6;−sinh²τ)] = sinh^{2/3}τ/cosh²τ`. -/
theorem hyp2f1_antiderivative_disc (τ : ℝ) (hτ : 0 < τ) (hdisc : Real.sinh τ ^ 2 < 1) :
    HasDerivAt (Szekeres_IP gaussHyp) (Szekeres_PTI τ) τ :=
  Szekeres_hIP_gaussHyp_disc τ hτ hdisc

/-- the same for the analytic continuation, for all `τ > 0`. -/
theorem hyp2f1_antiderivative (τ : ℝ) (hτ : 0 < τ) :
    HasDerivAt (Szekeres_IP gaussHypNeg) (Szekeres_PTI τ) τ :=
  Szekeres_hIP_gaussHypNeg τ hτ

/-- Pfaff's transformation for the module's parameters: on `−1 < x ≤ 0` the continuation IS Gauss' series;
hence the module's `integrated_part` is the same with either function wherever the series converges. -/
theorem hyp2f1_pfaff (x : ℝ) (h1 : -1 < x) (h0 : x ≤ 0) :
    gaussHypNeg (5/6) (3/2) (11/6) x = ordinaryHypergeometric (5/6 : ℝ) (3/2) (11/6) x ∧
    ∀ τ : ℝ, Real.sinh τ ^ 2 < 1 → Szekeres_IP gaussHypNeg τ = Szekeres_IP gaussHyp τ :=
  ⟨gaussHypNeg_eq_gaussHyp x h1 h0, Szekeres_IP_gaussHypNeg_eq_gaussHyp⟩

/-- Szekeres, all nine components, no hypothesis about the hypergeometric function: `∂_t γ_ij = −2 α K_ij` for all
`t > 0` where `Z ≠ 0`. -/
theorem K_is_metric_rate_Szekeres (t x y z : ℝ) (ht : 0 < t)
    (hZ : Szekeres.Z_terms_num_Z gaussHypNeg t x y z ≠ 0) (i j : Fin 3) :
    HasDerivAt (fun s => Szekeres.gammadown3_num gaussHypNeg s x y z i j)
      (-2 * Szekeres.alpha t x y z * Szekeres.Kdown3 gaussHypNeg t x y z i j) t :=
  K_is_metric_rate_Szekeres_partial gaussHypNeg t x y z ht
    (Szekeres_hIP_gaussHypNeg _ (mul_pos Szekeres_tauC_pos ht)) hZ i j

/-- the same with Mathlib's `₂F₁` itself, at the times where its series converges. -/
theorem K_is_metric_rate_Szekeres_disc (t x y z : ℝ) (ht : 0 < t)
    (hdisc : Real.sinh (Szekeres.tauC * t) ^ 2 < 1)
    (hZ : Szekeres.Z_terms_num_Z gaussHyp t x y z ≠ 0) (i j : Fin 3) :
    HasDerivAt (fun s => Szekeres.gammadown3_num gaussHyp s x y z i j)
      (-2 * Szekeres.alpha t x y z * Szekeres.Kdown3 gaussHyp t x y z i j) t :=
  K_is_metric_rate_Szekeres_partial gaussHyp t x y z ht
    (Szekeres_hIP_gaussHyp_disc _ (mul_pos Szekeres_tauC_pos ht) hdisc) hZ i j

/-- the `dtZ` returned by `Szekeres.Z_terms` is `∂_t Z`, for all `t > 0`. -/
theorem Szekeres_dtZ_is_rate_hyp (t x y z : ℝ) (ht : 0 < t) :
    HasDerivAt (fun s => Szekeres.Z_terms_num_Z gaussHypNeg s x y z) (Szekeres.Z_terms_num_dtZ gaussHypNeg t x y z) t :=
  Szekeres_dtZ_is_rate gaussHypNeg t x y z ht (Szekeres_hIP_gaussHypNeg _ (mul_pos Szekeres_tauC_pos ht))

/-- Szekeres: Einstein's equations `G_ab + Λ g_ab = κ T_ab`, all ten components, dust at rest with the module's `rho`,
LCDM's `Λ`, `κ`, at every point with `t > 0`, `Z ≠ 0` — the Levi-Civita Einstein tensor of the module's metric in the
sense of calculus (`IsJetField`), with no hypothesis left. -/
theorem einstein_Szekeres :
    ∃ J, IsJetField (Szekeres_domain gaussHypNeg) (Szekeres.gdown4_num gaussHypNeg) J ∧
      ∀ t x y z, Szekeres_domain gaussHypNeg t x y z → (J t x y z).SolvesEinstein LCDM.Lambda LCDM.kappa
        (comovingFluid (Szekeres.rho gaussHypNeg t x y z) (Szekeres.press t x y z)
          (Szekeres.gdown4_num gaussHypNeg t x y z)) :=
  einstein_Szekeres_partial gaussHypNeg Szekeres_hIP_gaussHypNeg

/-- inside the disc of convergence the module's outputs are the same whether `hyp2f1` is read as Mathlib's Gauss series
or as its continuation: `Z_terms`, `gammadown3`, `Kdown3`, `rho`, `gdown4` agree at every `(t, x, y, z)` with
`sinh²(tauC t) < 1`; so `einstein_Szekeres` and `K_is_metric_rate_Szekeres` speak about the series itself there. -/
theorem Szekeres_series_agrees_on_disc (t x y z : ℝ) (hdisc : Real.sinh (Szekeres.tauC * t) ^ 2 < 1) :
    (Szekeres.Z_terms_num_F gaussHyp t x y z = Szekeres.Z_terms_num_F gaussHypNeg t x y z ∧
      Szekeres.Z_terms_num_Z gaussHyp t x y z = Szekeres.Z_terms_num_Z gaussHypNeg t x y z ∧
      Szekeres.Z_terms_num_dtZ gaussHyp t x y z = Szekeres.Z_terms_num_dtZ gaussHypNeg t x y z) ∧
    Szekeres.gammadown3_num gaussHyp t x y z = Szekeres.gammadown3_num gaussHypNeg t x y z ∧
    Szekeres.Kdown3 gaussHyp t x y z = Szekeres.Kdown3 gaussHypNeg t x y z ∧
    Szekeres.rho gaussHyp t x y z = Szekeres.rho gaussHypNeg t x y z ∧
    Szekeres.gdown4_num gaussHyp t x y z = Szekeres.gdown4_num gaussHypNeg t x y z :=
  Szekeres_series_agrees t x y z hdisc

/-! Non-vacuity: the disc condition and the domain are inhabited, and the function is not trivial. -/
example : (0:ℝ) < Real.arsinh (1 / 2) ∧ Real.sinh (Real.arsinh (1 / 2)) ^ 2 < 1 :=
  ⟨Real.arsinh_pos_iff.mpr (by norm_num), by rw [Real.sinh_arsinh]; norm_num⟩
example : gaussHypNeg (5/6) (3/2) (11/6) 0 = 1 := gaussHypNeg_zero _ _ _
/-- a point of the Szekeres domain: at `z = L/4` the perturbation amplitude `βP = Amp(1 − sin kz)` vanishes and `Z = 1`. -/
example : Szekeres_domain gaussHypNeg 1 0 0 (5 / 2) := by
  refine ⟨one_pos, ?_⟩
  have hk : Szekeres.k * (5 / 2) = Real.pi / 2 := by unfold Szekeres.k Szekeres.L; ring
  unfold Szekeres.Z_terms_num_Z
  rw [hk, Real.sin_pi_div_two]
  norm_num

end AurelVerif.C17
