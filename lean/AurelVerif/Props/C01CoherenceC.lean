/-
Props/C01CoherenceC.lean — property C01, extension round: branch coherence (H2), CLASS (c): alternatives that agree
ONLY ON SOLUTIONS of Einstein's equations (and, being statements about the textbook curvature of the assembled metric,
only for exact differentiation: Layer B of Props/C04b.lean — Leibniz rule, commuting derivatives, metric-compatible
connection, all inside `CurvHyp`).  These were compared numerically only (C01/C04 oracles); they are now THEOREMS under
the explicit on-shell hypothesis `OnShell e T`:

        G_ab + Λ g_ab = κ T_ab      with G, R_ab, R of `(jetCOf e T).riem4 (gup4 e)`,

the textbook Riemann tensor ([LL] (92.1)) of the metric assembled from the cached α, β^i, γ_ij, whose time derivatives
are given by K_ij, `dtalpha`, `dtbetaup3` and the free second time derivatives `T` (∀-quantified).

  guard `'Tdown4' in self.data.keys()`  (`st_Ricci_down4`)
      st_Ricci_down4_dflt_is_ricci        the contraction alternative IS the Ricci tensor of the assembled metric
      st_Ricci_down4_onshell_coherent     … hence equals `Λ g_ab + κ (T_ab − ½ T g_ab)` (the `Tdown4` alternative)
      st_Ricci_down4_onshell_coherent_noshift   the same through the zero-shift alternative of `st_Riemann_down4`
      st_Ricci_down4_vacuum_coherent      `vacuum = True`: both are 0 for a vacuum solution with `Tdown4 = 0`, `Λ = 0`
  guard `'st_Ricci_down4' in self.data.keys()`  (`st_Ricci_down3`), cached 4-Ricci tensor = contraction of Riemann
      st_Ricci_down3_onshell_coherent     its spatial block is the Einstein-equation form
  (the case "cached 4-Ricci tensor came from `Tdown4`" is algebraic: Props/C01CoherenceA.lean)

Off shell these statements are FALSE (DESIGN 11.7: the two forms differ by O(100) on generic smooth fields);
`C04.mainardi_algebraic_iff` shows the hypothesis is necessary.

NOT proven (left to the oracles): guard `'st_Riemann_down4' in self.data.keys()` of `st_Weyl_down4` — Riemann-based vs
E/B-based Weyl tensor: needs, beyond the above, that a tensor with the Weyl symmetries is determined by its electric and
magnetic parts (C10 proves the E/B form has the right parts, `weyl_alt2_normal_frame`, not the converse).
-/
import AurelVerif.Props.C04b
import AurelVerif.Props.C01CoherenceA

set_option linter.unusedSimpArgs false
set_option linter.unusedVariables false
set_option linter.unusedSectionVars false

namespace AurelVerif.C01Coherence
open AurelVerif.Gen.Core AurelVerif.Tensor AurelVerif.CoreTac AurelVerif.C08 AurelVerif.Spec.Curvature
open AurelVerif.C04L

variable {K : Type} [Field K]

/-- Ricci tensor of the textbook Riemann tensor of the assembled metric at the grid point. -/
def ricciOf (e : Env K) (T : TimeJet2 K) : Fin 4 → Fin 4 → K :=
  ricciDown (gup4 e) ((jetCOf e T).riem4 (gup4 e))

/-- **on shell**: Einstein's equations with the supplied `Tdown4`, `Lambda`, `kappa` hold at the grid point. -/
def OnShell (e : Env K) (T : TimeJet2 K) : Prop :=
  ∀ a b, einstein (ricciOf e T) (trace (gup4 e) (ricciOf e T)) e.gdown4 a b + e.Lambda * e.gdown4 a b
    = e.kappa * e.Tdown4 a b

/-- the cached entries the contraction alternative of `st_Ricci_down4` goes through, produced by the code's own
formulas: `st_Ricci_down3` (Einstein-equation form, `st_Ricci_down4` not yet cached), `st_Riemann_uddd4`. -/
structure RicciChain (e : Env K) : Prop where
  hR3 : e.st_Ricci_down3 = st_Ricci_down3__dflt e
  hRu : e.st_Riemann_uddd4 = st_Riemann_uddd4 e

/-- contraction of a raised Riemann tensor, as the code does it (`'abcd, ai -> ibcd'` then `'abad -> bd'`). -/
theorem contraction_is_ricciDown (e : Env K) (R : Fin 4 → Fin 4 → Fin 4 → Fin 4 → K)
    (hRd : e.st_Riemann_down4 = R) (hRu : e.st_Riemann_uddd4 = st_Riemann_uddd4 e) (b d : Fin 4) :
    st_Ricci_down4__dflt e b d = ricciDown e.gup4 R b d := by
  rw [C04.st_Ricci_down4_dflt_spec, hRu]
  simp only [C04.st_Riemann_uddd4_spec, hRd, ricciDown]
  rw [Finset.sum_comm]
  exact Finset.sum_congr rfl fun a _ => Finset.sum_congr rfl fun c _ => by ring

/-- **the contraction alternative of `st_Ricci_down4` IS the Ricci tensor of the assembled metric** (on shell; a
shift key supplied, `vacuum = False`). -/
theorem st_Ricci_down4_dflt_is_ricci (e : Env K) (T : TimeJet2 K) (H : CurvHyp e T) (M : MainardiCached e)
    (C : RicciChain e) (hRd : e.st_Riemann_down4 = st_Riemann_down4__betaup3_matter e) (hE : OnShell e T)
    (a b : Fin 4) : st_Ricci_down4__dflt e a b = ricciOf e T a b := by
  have hRic := C04.st_Ricci_down3_of_einstein e T H M.hgup C.hR3 hE
  have hRiem : e.st_Riemann_down4 = (jetCOf e T).riem4 (gup4 e) := by
    funext p q r s; rw [hRd]; exact C04.st_Riemann_down4_is_riemann_matter e T H M hRic p q r s
  rw [contraction_is_ricciDown e _ hRiem C.hRu, M.hgup]; rfl

/-- the `Tdown4` alternative is the trace-reversed right-hand side. -/
theorem st_Ricci_down4_Tdown4_is_matter (e : Env K) (hgup : e.gup4 = gup4 e) (hTt : e.Ttrace = Ttrace__Tdown4 e)
    (a b : Fin 4) :
    st_Ricci_down4__Tdown4 e a b = ricciOfMatter e.Lambda e.kappa e.gdown4 e.Tdown4 (trace (gup4 e) e.Tdown4) a b := by
  have ht : Ttrace__Tdown4 e = trace (gup4 e) e.Tdown4 := by
    rw [← hgup]; simp only [trace, core_unfold, Fin.sum_univ_four]; ring
  rw [C04.st_Ricci_down4_Tdown4_spec, hTt, ht]; rfl

/-- **(c) guard `'Tdown4' in self.data.keys()`**: on a solution of Einstein's equations the Ricci tensor obtained by
contracting the cached Riemann tensor equals `Λ g_ab + κ (T_ab − ½ T g_ab)`, all 16 components.  `Ttrace` produced
by the trace alternative (the other one equals it algebraically: `Ttrace_coherent`). -/
theorem st_Ricci_down4_onshell_coherent (e : Env K) (T : TimeJet2 K) (H : CurvHyp e T) (M : MainardiCached e)
    (C : RicciChain e) (hRd : e.st_Riemann_down4 = st_Riemann_down4__betaup3_matter e)
    (hTt : e.Ttrace = Ttrace__Tdown4 e) (hE : OnShell e T) (a b : Fin 4) :
    st_Ricci_down4__dflt e a b = st_Ricci_down4__Tdown4 e a b := by
  rw [st_Ricci_down4_dflt_is_ricci e T H M C hRd hE, st_Ricci_down4_Tdown4_is_matter e M.hgup hTt]
  exact C04.ricci_of_einstein H.lc.two (gup4 e) e.gdown4 _ e.Tdown4 e.Lambda e.kappa H.trace_g hE a b

/-- the same when no shift key is cached or supplied (`β = 0`, zero-shift alternative of `st_Riemann_down4`). -/
theorem st_Ricci_down4_onshell_coherent_noshift (e : Env K) (T : TimeJet2 K) (H : CurvHyp e T) (M : MainardiCached e)
    (C : RicciChain e) (hb : ∀ i, e.betaup3 i = 0) (hRd : e.st_Riemann_down4 = st_Riemann_down4__dflt_matter e)
    (hTt : e.Ttrace = Ttrace__Tdown4 e) (hE : OnShell e T) (a b : Fin 4) :
    st_Ricci_down4__dflt e a b = st_Ricci_down4__Tdown4 e a b := by
  refine st_Ricci_down4_onshell_coherent e T H M C ?_ hTt hE a b
  rw [hRd]; funext p q r s; exact (st_Riemann_down4_shift_coherent e hb p q r s).1

/-- `vacuum = True`: for a vacuum solution (Ricci tensor of the assembled metric = 0) with `Tdown4 = 0` supplied and
`Λ = 0`, both alternatives vanish.  (With `Λ ≠ 0` the vacuum flag drops the Λ term: known finding
`vacuum_flag_ignores_Lambda`, not a cache effect.) -/
theorem st_Ricci_down4_vacuum_coherent (e : Env K) (T : TimeJet2 K) (H : CurvHyp e T) (M : MainardiCached e)
    (hRu : e.st_Riemann_uddd4 = st_Riemann_uddd4 e) (hRd : e.st_Riemann_down4 = st_Riemann_down4__betaup3_vacuum e)
    (hvac : ∀ a b, ricciOf e T a b = 0) (hT0 : ∀ a b, e.Tdown4 a b = 0) (hL : e.Lambda = 0)
    (hTt : e.Ttrace = Ttrace__Tdown4 e) (a b : Fin 4) :
    st_Ricci_down4__dflt e a b = st_Ricci_down4__Tdown4 e a b := by
  have hRiem : e.st_Riemann_down4 = (jetCOf e T).riem4 (gup4 e) := by
    funext p q r s; rw [hRd]
    exact C04.st_Riemann_down4_is_riemann_vacuum e T H M (fun i j => hvac i.succ j.succ) p q r s
  rw [contraction_is_ricciDown e _ hRiem hRu, M.hgup]
  have h0 : ricciDown (gup4 e) ((jetCOf e T).riem4 (gup4 e)) a b = 0 := hvac a b
  rw [h0, st_Ricci_down4_Tdown4_is_matter e M.hgup hTt]
  simp only [ricciOfMatter, hT0, hL, trace, mul_zero, Finset.sum_const_zero, zero_mul, sub_self, add_zero]

/-- **(c) guard `'st_Ricci_down4' in self.data.keys()`** when the cached 4-Ricci tensor is the contraction of the
Riemann tensor: on shell its spatial block is the Einstein-equation form that `st_Ricci_down3` computes otherwise. -/
theorem st_Ricci_down3_onshell_coherent (e : Env K) (T : TimeJet2 K) (H : CurvHyp e T) (M : MainardiCached e)
    (C : RicciChain e) (hRd : e.st_Riemann_down4 = st_Riemann_down4__betaup3_matter e)
    (hR4 : e.st_Ricci_down4 = st_Ricci_down4__dflt e) (hE : OnShell e T) (i j : Fin 3) :
    st_Ricci_down3__st_Ricci_down4 e i j = st_Ricci_down3__dflt e i j := by
  rw [C04.st_Ricci_down3_cached_spec, hR4, st_Ricci_down4_dflt_is_ricci e T H M C hRd hE, ← C.hR3]
  exact (C04.st_Ricci_down3_of_einstein e T H M.hgup C.hR3 hE i j).symm

/-! ### Non-vacuity: the on-shell point of Props/C04b.lean, continued along the chain of cached entries

`C04.exEnvE`: lapse 2, shift (1,0,0), sheared metric, non-zero `K`, `∂_tα`, `∂_tβ`, non-zero second time derivatives `C04.exT`,
κ = 2, Λ = 1/3, `Tdown4` DEFINED from the Einstein tensor of the textbook Riemann tensor (so that Einstein's equations hold),
`st_Ricci_down3` := the code's formula.  Here: `Ttrace`, `st_Riemann_down4`, `st_Riemann_uddd4`, `st_Ricci_down4` := the
code's formulas, in the order the code computes them. -/

def exOn0 : Env ℚ := { C04.exEnvE with Ttrace := Ttrace__Tdown4 C04.exEnvE }
def exOn1 : Env ℚ := { exOn0 with st_Riemann_down4 := st_Riemann_down4__betaup3_matter exOn0 }
def exOn2 : Env ℚ := { exOn1 with st_Riemann_uddd4 := st_Riemann_uddd4 exOn1 }
def exOn : Env ℚ := { exOn2 with st_Ricci_down4 := st_Ricci_down4__dflt exOn2 }

theorem exOn_hyp : CurvHyp exOn C04.exT :=
  have h := C04.exEnvC_hyp
  ⟨⟨h.asm.hbd, h.asm.hbm, h.asm.hgtt, h.asm.hg4, h.asm.hsym⟩, h.hgd, h.hdet,
    ⟨h.lc.symg, h.lc.symK, h.lc.symG, h.lc.mc, h.lc.inv, h.lc.ha, h.lc.two⟩, h.comm, h.symT, h.riem3⟩

theorem exOn_cached : MainardiCached exOn :=
  have m := C04.exEnvC_cached
  ⟨m.hgup, m.hKtr, m.hRic3⟩

theorem exOn_onshell : OnShell exOn C04.exT := by
  intro a b
  show _ = (2 : ℚ) * ((einstein (ricciDown (gup4 C04.exEnvC) ((jetCOf C04.exEnvC C04.exT).riem4 (gup4 C04.exEnvC)))
        (trace (gup4 C04.exEnvC) (ricciDown (gup4 C04.exEnvC) ((jetCOf C04.exEnvC C04.exT).riem4 (gup4 C04.exEnvC))))
        C04.exEnvC.gdown4 a b + (1 / 3 : ℚ) * C04.exEnvC.gdown4 a b) / 2)
  rw [mul_div_cancel₀ _ (two_ne_zero)]
  rfl

theorem exOn_Rd : exOn.st_Riemann_down4 = st_Riemann_down4__betaup3_matter exOn := by
  funext a b c d
  show st_Riemann_down4__betaup3_matter exOn0 a b c d = _
  rw [C04.st_Riemann_down4_betaup3_matter_spec, C04.st_Riemann_down4_betaup3_matter_spec]
  rfl

theorem exOn_Ru : exOn.st_Riemann_uddd4 = st_Riemann_uddd4 exOn := by
  funext a b c d
  show st_Riemann_uddd4 exOn1 a b c d = _
  rw [C04.st_Riemann_uddd4_spec, C04.st_Riemann_uddd4_spec]
  rfl

theorem exOn_R4 : exOn.st_Ricci_down4 = st_Ricci_down4__dflt exOn := by
  funext a b
  show st_Ricci_down4__dflt exOn2 a b = _
  rw [C04.st_Ricci_down4_dflt_spec, C04.st_Ricci_down4_dflt_spec]
  rfl

theorem exOn_R3 : exOn.st_Ricci_down3 = st_Ricci_down3__dflt exOn := by
  funext i j
  show st_Ricci_down3__dflt C04.exEnvE0 i j = _
  rw [C04.st_Ricci_down3_dflt_spec, C04.st_Ricci_down3_dflt_spec]
  rfl

theorem exOn_Tt : exOn.Ttrace = Ttrace__Tdown4 exOn := rfl

/-- every hypothesis of `st_Ricci_down4_onshell_coherent` and `st_Ricci_down3_onshell_coherent` holds at `exOn`
(κ, Λ ≠ 0, non-zero shift and curvature: `C04.exEnvC`). -/
example : CurvHyp exOn C04.exT ∧ MainardiCached exOn ∧ RicciChain exOn
    ∧ exOn.st_Riemann_down4 = st_Riemann_down4__betaup3_matter exOn ∧ exOn.Ttrace = Ttrace__Tdown4 exOn
    ∧ exOn.st_Ricci_down4 = st_Ricci_down4__dflt exOn ∧ OnShell exOn C04.exT
    ∧ exOn.kappa = 2 ∧ exOn.Lambda = 1 / 3 ∧ exOn.betaup3 0 = 1 :=
  ⟨exOn_hyp, exOn_cached, ⟨exOn_R3, exOn_Ru⟩, exOn_Rd, exOn_Tt, exOn_R4, exOn_onshell, rfl, rfl, rfl⟩

/-! the KASNER point `C04.exKas` (vacuum solution, zero shift, non-zero Riemann tensor), `Tdown4 = 0`, `Λ = 0`:
ALL 16 components of the Ricci tensor of the assembled metric vanish there, so it is on shell for `vacuum = True` and for
`vacuum = False` with `κ = 1`, `T = 0`. -/

theorem exKas_gup4 : gup4 C04.exKas = vec4 (vec4 (-1) 0 0 0) (vec4 0 1 0 0) (vec4 0 0 1 0) (vec4 0 0 0 1) := by
  funext a b; revert a b
  cases4 <;> cases4 <;> (simp only [C04.exKas, C04.exKas0, Env.zero, core_unfold]; norm_num)

set_option maxHeartbeats 1000000 in
/-- Kasner is Ricci-flat: all 16 components (the spatial block is `C04.exKas_ric`). -/
theorem exKas_ricci_full (a b : Fin 4) : ricciOf C04.exKas C04.exKasT a b = 0 := by
  have hR : (jetCOf C04.exKas C04.exKasT).riem4 (gup4 C04.exKas) = st_Riemann_down4__dflt_vacuum C04.exKas := by
    funext p q r s
    exact (C04.st_Riemann_down4_is_riemann_vacuum_noshift C04.exKas C04.exKasT C04.exKas_hyp C04.exKas_cached.1
      C04.exKas_cached.2 C04.exKas_ric p q r s).symm
  have hP : st_Riemann_down4__dflt_vacuum C04.exKas
      = populate (RssssE C04.exKas) (RssstE C04.exKas)
          (RststE C04.exKas (s_to_st__dflt C04.exKas C04.exKas.Kdown3) (fun _ _ => 0)) := by
    funext p q r s; exact C04.st_Riemann_down4_dflt_vacuum_spec C04.exKas p q r s
  unfold ricciOf
  rw [hR, hP, exKas_gup4]
  revert a b
  cases4 <;> cases4 <;>
    (simp only [ricciDown, Fin.sum_univ_four, Fin.sum_univ_three, populate, RssssE, RssstE, RststE, gauss, codazzi,
       mainardi, KK4, covdDD, tsplit_0, tsplit_1, tsplit_2, tsplit_3, succ3_0, succ3_1, succ3_2,
       C04.exKas, C04.exKas0, Env.zero, core_unfold]
     norm_num)

/-- `vacuum = True` chain at the Kasner point. -/
def exKasV00 : Env ℚ := { C04.exKas with Ttrace := Ttrace__Tdown4 C04.exKas }
def exKasV0 : Env ℚ := { exKasV00 with st_Riemann_down4 := st_Riemann_down4__betaup3_vacuum exKasV00 }
def exKasV : Env ℚ := { exKasV0 with st_Riemann_uddd4 := st_Riemann_uddd4 exKasV0 }

/-- `vacuum = False`, no shift key, `κ = 1`, `T = 0`, `Λ = 0` chain at the Kasner point. -/
def exKasM0 : Env ℚ := { C04.exKas with kappa := 1 }
def exKasM10 : Env ℚ := { exKasM0 with st_Ricci_down3 := st_Ricci_down3__dflt exKasM0 }
def exKasM1 : Env ℚ := { exKasM10 with Ttrace := Ttrace__Tdown4 exKasM10 }
def exKasM2 : Env ℚ := { exKasM1 with st_Riemann_down4 := st_Riemann_down4__dflt_matter exKasM1 }
def exKasM : Env ℚ := { exKasM2 with st_Riemann_uddd4 := st_Riemann_uddd4 exKasM2 }

theorem exKasV_hyp : CurvHyp exKasV C04.exKasT :=
  have h := C04.exKas_hyp
  ⟨⟨h.asm.hbd, h.asm.hbm, h.asm.hgtt, h.asm.hg4, h.asm.hsym⟩, h.hgd, h.hdet,
    ⟨h.lc.symg, h.lc.symK, h.lc.symG, h.lc.mc, h.lc.inv, h.lc.ha, h.lc.two⟩, h.comm, h.symT, h.riem3⟩

theorem exKasM_hyp : CurvHyp exKasM C04.exKasT :=
  have h := C04.exKas_hyp
  ⟨⟨h.asm.hbd, h.asm.hbm, h.asm.hgtt, h.asm.hg4, h.asm.hsym⟩, h.hgd, h.hdet,
    ⟨h.lc.symg, h.lc.symK, h.lc.symG, h.lc.mc, h.lc.inv, h.lc.ha, h.lc.two⟩, h.comm, h.symT, h.riem3⟩

theorem exKasV_cached : MainardiCached exKasV :=
  have m := C04.exKas_cached.1
  ⟨m.hgup, m.hKtr, m.hRic3⟩

theorem exKasM_cached : MainardiCached exKasM :=
  have m := C04.exKas_cached.1
  ⟨m.hgup, m.hKtr, m.hRic3⟩

theorem exKasV_Ru : exKasV.st_Riemann_uddd4 = st_Riemann_uddd4 exKasV := by
  funext a b c d
  show st_Riemann_uddd4 exKasV0 a b c d = _
  rw [C04.st_Riemann_uddd4_spec, C04.st_Riemann_uddd4_spec]
  rfl

theorem exKasV_Rd : exKasV.st_Riemann_down4 = st_Riemann_down4__betaup3_vacuum exKasV := by
  funext a b c d
  show st_Riemann_down4__betaup3_vacuum exKasV00 a b c d = _
  rw [C04.st_Riemann_down4_betaup3_vacuum_spec, C04.st_Riemann_down4_betaup3_vacuum_spec]
  rfl

/-- every hypothesis of `st_Ricci_down4_vacuum_coherent` holds at `exKasV` (the Riemann tensor there is not zero:
`C04.exKas_stst`). -/
example : CurvHyp exKasV C04.exKasT ∧ MainardiCached exKasV ∧ exKasV.st_Riemann_uddd4 = st_Riemann_uddd4 exKasV
    ∧ exKasV.st_Riemann_down4 = st_Riemann_down4__betaup3_vacuum exKasV
    ∧ (∀ a b, ricciOf exKasV C04.exKasT a b = 0) ∧ (∀ a b, exKasV.Tdown4 a b = 0) ∧ exKasV.Lambda = 0
    ∧ exKasV.Ttrace = Ttrace__Tdown4 exKasV :=
  ⟨exKasV_hyp, exKasV_cached, exKasV_Ru, exKasV_Rd, exKas_ricci_full, fun _ _ => rfl, rfl, rfl⟩

theorem exKasM_onshell : OnShell exKasM C04.exKasT := by
  intro a b
  have h0 : ∀ a b, ricciOf exKasM C04.exKasT a b = 0 := exKas_ricci_full
  have hT : exKasM.Tdown4 a b = 0 := rfl
  have hL : exKasM.Lambda = 0 := rfl
  simp only [einstein, trace, h0, hT, hL, mul_zero, Finset.sum_const_zero, zero_mul, sub_self, add_zero]

theorem exKasM_R3 : exKasM.st_Ricci_down3 = st_Ricci_down3__dflt exKasM := by
  funext i j
  show st_Ricci_down3__dflt exKasM0 i j = _
  rw [C04.st_Ricci_down3_dflt_spec, C04.st_Ricci_down3_dflt_spec]
  rfl

theorem exKasM_Ru : exKasM.st_Riemann_uddd4 = st_Riemann_uddd4 exKasM := by
  funext a b c d
  show st_Riemann_uddd4 exKasM2 a b c d = _
  rw [C04.st_Riemann_uddd4_spec, C04.st_Riemann_uddd4_spec]
  rfl

theorem exKasM_Rd : exKasM.st_Riemann_down4 = st_Riemann_down4__dflt_matter exKasM := by
  funext a b c d
  show st_Riemann_down4__dflt_matter exKasM1 a b c d = _
  rw [C04.st_Riemann_down4_dflt_matter_spec, C04.st_Riemann_down4_dflt_matter_spec]
  rfl

/-- every hypothesis of `st_Ricci_down4_onshell_coherent_noshift` holds at `exKasM`. -/
example : CurvHyp exKasM C04.exKasT ∧ MainardiCached exKasM ∧ RicciChain exKasM ∧ (∀ i, exKasM.betaup3 i = 0)
    ∧ exKasM.st_Riemann_down4 = st_Riemann_down4__dflt_matter exKasM ∧ exKasM.Ttrace = Ttrace__Tdown4 exKasM
    ∧ OnShell exKasM C04.exKasT ∧ exKasM.kappa = 1 :=
  ⟨exKasM_hyp, exKasM_cached, ⟨exKasM_R3, exKasM_Ru⟩, fun _ => rfl, exKasM_Rd, rfl, exKasM_onshell, rfl⟩

end AurelVerif.C01Coherence
