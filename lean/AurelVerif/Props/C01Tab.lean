/-
Props/C01Tab.lean — property C01, extension round 5: transparency of the REAL table with a CONSTRUCTED denotation.

  * `Gen/C01Table.lean` (generated on every run by tools/py2lean/c01table.py) is the return-site function table: for
    148 keys / 186 return sites, `leafGen base rest k i vs` applies the alternative of `Gen/CoreKeys`, `Gen/CoreCurv`
    that the code takes at return site `i` of `k` to the values read on the way; `base` carries kappa, Lambda and the
    ABSTRACT finite-difference operator `D` (every theorem holds for every `D`); the return-site formulas of the
    keys that are not generated are the arbitrary parameter `rest`.
  * `TTab P excl` is the real table: shapes = `Gen.DepGraph` (except for the names listed in `excl`, which are treated
    as having no method), leaves = `leafGen`, options arbitrary.
  * `den P excl inp` is the canonical denotation of Lemmas/CacheDen.lean: what the bodies compute from the inputs when
    presence tests see only the inputs.  It is CONSTRUCTED, not assumed; `den_unfold` is its defining equation.
  * By `tableCohM_of_guarded`, branch coherence is automatic for the 129 bodies that test no presence of a key with a
    method (`aurel_guarded`, `aurel_unguarded_stable`: kernel-checked on the generated shapes) — whatever their
    formulas.  For 24 of the 32 guarded bodies (betax.., dtbetax.., gxx.., kxx.., gtt, gtx, gty, gtz, rho0, eps) it is
    PROVEN in Props/C01TabT.lean from the generated formulas, for every input dictionary (no typing, consistency or
    regularity hypothesis on the inputs).

Results (Props/C01TabT.lean):
  * `tab_cohM`        H2 for the whole table from coherence of the 8 remaining guarded bodies only (`HardCoh`);
  * `tab_transparent` transparency of the full 161-key table under `HardCoh` (gdet, Ttrace, s_Ricci_down3, Momentumup3,
                      st_Riemann_down4: algebraic, per-guard theorems exist (Props/C01Coherence*.lean, C08) but are not yet
                      discharged against the constructed denotation — gdet needs the supplied gtt/betadown3/betamag/
                      gammadet to be consistent and gamma symmetric; st_Ricci_down4, st_Ricci_down3, st_Weyl_down4: on
                      shell only, Props/C01CoherenceC.lean, Props/C10Coh.lean);
  * `sub124_transparent` NO hypothesis about the bodies: the real table restricted to the 124 keys that do not depend
                      on those 8 (closed under reads: `sub124_closed`), every field, every `D`, every input dictionary,
                      every admissible policy, every history.
This file: the table, H1, the list of guarded bodies, the denotation.

EXTENSION ROUND 6 (Props/C01TabG, C01TabH, C01TabX, C01TabR.lean): `gdet`, `Momentumup3`, `s_Ricci_down3`, `Ttrace` are
discharged against `den` under hypotheses about the INPUTS only (`InputsOK`), `st_Riemann_down4` with no hypothesis
(its return sites are now generated); sub-tables of 125 / 139 / 147 keys; `HardCoh` shrinks to `HardCoh3` = the three
class (c) bodies `st_Ricci_down4`, `st_Ricci_down3`, `st_Weyl_down4` (`tab_transparent_inputs3`).

EXTENSION ROUND 7 (Props/C01TabS.lean, C01TabSEx.lean, Lemmas/C01LocS.lean): `st_Ricci_down4` and `st_Ricci_down3` are
discharged ON SHELL (`ShellHyp`: `CurvHyp` + Einstein's equations for the jet assembled from the denotations); 155 keys on
shell with no hypothesis about a body (`sub155_transparent_onshell`); all 161 under `HardCoh1` = the body of `st_Weyl_down4`
(`tab_transparent_onshell_partial`; what is missing for it: header of Props/C01TabS.lean).
-/
import AurelVerif.Props.C01M
import AurelVerif.Lemmas.CacheDen
import AurelVerif.Gen.C01Table
import AurelVerif.Lemmas.CoreTac

set_option linter.unusedSectionVars false
set_option linter.unusedSimpArgs false
set_option linter.unusedVariables false

namespace AurelVerif.C01Tab
open AurelVerif.Cache AurelVerif.Cache.Dict AurelVerif.CacheGet AurelVerif.Gen.Core AurelVerif.Tensor AurelVerif.CoreTac
open AurelVerif.Gen.C01Table AurelVerif.Gen.DepGraph
open AurelVerif.C01 (IsInput shapeOf rankOf)

variable {K : Type} [Field K]

/-- what the table depends on besides the generated shapes and formulas: `base` (kappa, Lambda, the abstract
operator `D`, opaque functions), the return-site formulas `rest` of the keys that are not generated, the physical
options and loop counts. -/
structure Params (K : Type) where
  base : Env K
  rest : Nat → Nat → List (Val K) → Val K
  flag : String → Bool
  count : String → Nat

/-- **the real table** (names in `excl` are treated as method-less). -/
def TTab (P : Params K) (excl : List Nat) : Table Nat (Val K) :=
  { shape := fun k => if excl.contains k then none else shapeOf k
    leaf := leafGen P.base P.rest
    flag := P.flag
    count := P.count }

theorem TTab_shape_full (P : Params K) (k : Nat) : (TTab P []).shape k = shapeOf k := rfl

theorem TTab_shape_of (P : Params K) (excl : List Nat) (k : Nat) (sh : Shape Nat) (h : (TTab P excl).shape k = some sh) :
    shapeOf k = some sh := by
  simp only [TTab] at h
  split at h
  · cases h
  · exact h

theorem shapeOf_ok (k : Nat) (sh : Shape Nat) (hk : shapeOf k = some sh) : shapeOK rankOf (rankOf k) [] sh = true := by
  unfold shapeOf at hk
  cases hf : shapes.find? (fun p => p.1 == k) with
  | none => simp [hf] at hk
  | some p =>
    simp only [hf, Option.map_some, Option.some.injEq] at hk
    have hmem := List.mem_of_find?_eq_some hf
    have hkey : p.1 = k := by have := List.find?_some hf; simpa using this
    have := List.all_eq_true.mp C01.aurel_rank_ok p hmem
    rw [hkey, hk] at this
    exact this

/-- H1 for the table (from the kernel-checked rank certificate). -/
theorem TTab_ok (P : Params K) (excl : List Nat) : TableOK (TTab P excl) rankOf :=
  fun k sh hk => shapeOf_ok k sh (TTab_shape_of P excl k sh hk)

theorem ranks_lt : (List.range ranks.length).all (fun k => decide (rankOf k < 18)) = true := by decide +kernel

theorem rankOf_lt (k : Nat) : rankOf k < 18 := by
  by_cases h : k < ranks.length
  · have := List.all_eq_true.mp ranks_lt k (List.mem_range.mpr h)
    simpa using this
  · unfold rankOf
    have : ranks[k]? = none := List.getElem?_eq_none (by omega)
    simp [List.getD_eq_getElem?_getD, this]

/-- the generated list `guardedKeys` is exactly the set of bodies that test the presence of a key with a method. -/
theorem aurel_guarded :
    (shapes.filter (fun p => !stableShape (fun k => (shapeOf k).isNone) p.2)).map (·.1) = guardedKeys := by
  decide +kernel

theorem aurel_unguarded_stable :
    shapes.all (fun p => guardedKeys.contains p.1 || stableShape (fun k => (shapeOf k).isNone) p.2) = true := by
  decide +kernel

theorem shapeOf_stable (k : Nat) (sh : Shape Nat) (hk : shapeOf k = some sh) (hg : guardedKeys.contains k = false) :
    stableShape (fun k => (shapeOf k).isNone) sh = true := by
  unfold shapeOf at hk
  cases hf : shapes.find? (fun p => p.1 == k) with
  | none => simp [hf] at hk
  | some p =>
    simp only [hf, Option.map_some, Option.some.injEq] at hk
    have hmem := List.mem_of_find?_eq_some hf
    have hkey : p.1 = k := by have := List.find?_some hf; simpa using this
    have := List.all_eq_true.mp aurel_unguarded_stable p hmem
    rw [hkey, hk, hg] at this
    simpa using this

theorem TTab_stable (P : Params K) (excl : List Nat) (sh : Shape Nat)
    (h : stableShape (fun k => (shapeOf k).isNone) sh = true) :
    stableShape (fun k => ((TTab P excl).shape k).isNone) sh = true := by
  refine stableShape_mono ?_ sh h
  intro k hk
  simp only [TTab]
  split
  · rfl
  · exact hk

/-! ### the denotation -/

section den
variable (P : Params K) (excl : List Nat) (inp : Dict Nat (Val K))

/-- **the denotation** (constructed): the value of every key computed from the inputs by the bodies, presence tests
evaluated on the inputs. -/
def den : Nat → Val K := denOf (TTab P excl) inp (.s 0) 18

theorem den_inputs (k : Nat) (v : Val K) (h : get? inp k = some v) : den P excl inp k = v :=
  denOf_input _ inp _ 18 k v h

/-- the defining equation of the denotation. -/
theorem den_unfold (k : Nat) (sh : Shape Nat) (hi : get? inp k = none) (hs : (TTab P excl).shape k = some sh) :
    den P excl inp k = evalShape (TTab P excl) (den P excl inp) (fun k => contains inp k) (.s 0) k sh [] :=
  denOf_unfold (TTab_ok P excl) inp (.s 0) 18 rankOf_lt k sh hi hs

/-- keys whose shapes the proofs below unfold: they must not be excluded. -/
def coneKeys : List Nat :=
  [0, 3, 4, 5, 6, 7, 8, 9, 10, 11, 12, 15, 16, 17, 18, 19, 20, 21, 24, 27, 28, 29, 30, 31, 40, 41, 42, 43, 44, 45, 46,
    58, 60, 61]

theorem TTab_shape_cone (hE : ∀ k, coneKeys.contains k = true → excl.contains k = false)
    (k : Nat) (hk : coneKeys.contains k = true) : (TTab P excl).shape k = shapeOf k := by
  simp only [TTab, hE k hk, Bool.false_eq_true, ↓reduceIte]

end den

end AurelVerif.C01Tab
