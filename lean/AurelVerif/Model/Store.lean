/-
Model/Store.lean — hand-written executable model of the Aurel-format store
(`save_data`, `read_data`/`read_aurel_data` of src/aurel/reading.py).
No Mathlib import.  Written literally after the Python code: same order of
operations, same error cases, partial writes of a failing save included.

Python                                   model
---------------------------------------  -----------------------------------------
directory `param['datapath']`            `Store`  = association list  iteration ↦ File
                                         (only files that exist are listed; the name
                                         `it_<int(iit)>.hdf5` is identified with the
                                         integer `iit`; a trailing slash of the path
                                         is immaterial in the present code)
`h5py.File`                              `File`   = association list  dataset key ↦ Val
array / scalar                           `Val` = `Int` identity code
`data` dictionary                        `Data`   = association list  name ↦ Column,
                                         `Column = Option (List (Option Val))`
                                         (`data[key] is None`, or a list whose entries
                                         are arrays or `None`)
exceptions                               `Err` (ValueError of `list.index` / empty `it`,
                                         KeyError of `data[key]`, IndexError of
                                         `data[key][it_index]`, TypeError of
                                         `create_dataset(data=None)`)

Only the order of the keys inside a dictionary / an HDF5 file is not
literal (h5py lists names alphabetically, `set` order is unspecified); the
results are compared as sorted dictionaries.
-/
namespace AurelVerif.Store

abbrev Val := Int
abbrev Entry := Option Val
abbrev Column := Option (List Entry)
abbrev Data := List (String × Column)
abbrev File := List (String × Val)
abbrev Store := List (Int × File)

inductive Err | valueError | keyError | indexError | typeError
  deriving DecidableEq, Repr

/-! ### association lists (Python `dict`, HDF5 group) -/

/-- `d[k]` / `d.get(k)` : first binding of `k` -/
def alGet [DecidableEq κ] (k : κ) : List (κ × β) → Option β
  | [] => none
  | (k', v) :: rest => if k' = k then some v else alGet k rest

/-- `k in d.keys()` -/
def hasKey [DecidableEq κ] (k : κ) (l : List (κ × β)) : Bool := (alGet k l).isSome

/-- `del d[k]` -/
def alErase [DecidableEq κ] (k : κ) (l : List (κ × β)) : List (κ × β) :=
  l.filter fun p => !(decide (p.1 = k))

/-- `d[k] = v` : re-assigning keeps the position, a new key goes to the end -/
def alSet [DecidableEq κ] (k : κ) (v : β) : List (κ × β) → List (κ × β)
  | [] => [(k, v)]
  | (k', v') :: rest => if k' = k then (k, v) :: rest else (k', v') :: alSet k v rest

/-- `l.index(x)` : position of the first occurrence (`none` = ValueError) -/
def indexOf? [DecidableEq α] (x : α) : List α → Option Nat
  | [] => none
  | y :: ys => if y = x then some 0 else (indexOf? x ys).map (· + 1)

/-! ### `sorted(set(it))` -/

def insertSorted (x : Int) : List Int → List Int
  | [] => [x]
  | y :: ys => if x < y then x :: y :: ys else if x = y then y :: ys else y :: insertSorted x ys

/-- `sorted(set(l))` -/
def sortedSet (l : List Int) : List Int := l.foldr insertSorted []

/-- `list(set(l))`; the order Python produces is unspecified, the model keeps
the last occurrence of each element. -/
def dedup [DecidableEq α] : List α → List α
  | [] => []
  | x :: xs => if x ∈ xs then dedup xs else x :: dedup xs

/-! ### dataset keys -/

/-- `f' rl={rl}'` -/
def rlTag (rl : Nat) : String := " rl=" ++ toString rl

/-- `key + f' rl={rl}'` -/
def skey (name : String) (rl : Nat) : String := name ++ rlTag rl

/-- `pat in s` on character lists -/
def hasInfix (pat : List Char) : List Char → Bool
  | [] => pat.isEmpty
  | c :: cs => pat.isPrefixOf (c :: cs) || hasInfix pat cs

/-- `s.split(sep)[0]` on character lists (`sep` non-empty): everything before
the first occurrence of `sep`, the whole string if there is none -/
def splitFirst (sep : List Char) : List Char → List Char
  | [] => []
  | c :: cs => if sep.isPrefixOf (c :: cs) then [] else c :: splitFirst sep cs

/-- `f' rl={rl}' in key` -/
def matchesRl (rl : Nat) (key : String) : Bool := hasInfix (rlTag rl).toList key.toList

/-- `key.split(' rl')[0]` -/
def nameOf (key : String) : String := String.ofList (splitFirst " rl".toList key.toList)

/-! ### save_data -/

structure SaveArgs where
  data : Data
  vars : List String := []
  it : List Int := [0]
  rl : Nat := 0

/-- the list `vars` after the automatic additions -/
def effVars (a : SaveArgs) : List String :=
  let v0 := a.vars                                        -- vars = list(kwargs.get('vars', []))
  let v1 := if v0 = [] then a.data.map Prod.fst else v0   -- if vars == []: vars = list(data.keys())
  let v2 := if ¬ "it" ∈ v1 ∧ hasKey "it" a.data then v1 ++ ["it"] else v1
  let v3 := if ¬ "t" ∈ v2 ∧ hasKey "t" a.data then v2 ++ ["t"] else v2
  v3

/-- `[data_it.index(iit) for iit in it]` -/
def indexAll (col : List Entry) : List Int → Except Err (List Nat)
  | [] => .ok []
  | i :: is =>
    match indexOf? (some i) col with
    | none => .error .valueError
    | some k => match indexAll col is with
      | .error e => .error e
      | .ok ks => .ok (k :: ks)

/-- `it_indices` -/
def itIndices (a : SaveArgs) : Except Err (List Nat) :=
  let it := sortedSet a.it
  match alGet "it" a.data with
  | some (some col) => indexAll col it           -- 'it' in data.keys() and data['it'] is not None
  | _ => .ok (List.range it.length)

/-- `for key in vars:` body inside one open file; `k` = `it_index` -/
def writeKeys (data : Data) (rl : Nat) (k : Nat) : List String → File → File × Option Err
  | [], f => (f, none)
  | key :: ks, f =>
    match alGet key data with
    | none => (f, some .keyError)                          -- data[key]
    | some none => writeKeys data rl k ks f                -- data[key] is None: skipped
    | some (some col) =>
      let sk := skey key rl
      let f1 := if hasKey sk f then alErase sk f else f    -- if skey in f.keys(): del f[skey]
      match col[k]? with
      | none => (f1, some .indexError)                     -- data[key][it_index]
      | some none => (f1, some .typeError)                 -- create_dataset(data=None)
      | some (some x) => writeKeys data rl k ks (f1 ++ [(sk, x)])

/-- `for it_index, iit in zip(it_indices, it):`; `h5py.File(fname, 'a')` creates a
missing file, and what was written before an exception stays on disk. -/
def saveLoop (data : Data) (vars : List String) (rl : Nat) :
    List (Nat × Int) → Store → Store × Option Err
  | [], s => (s, none)
  | (k, iit) :: rest, s =>
    let f := (alGet iit s).getD []
    let r := writeKeys data rl k vars f
    let s' := alSet iit r.1 s
    match r.2 with
    | some e => (s', some e)
    | none => saveLoop data vars rl rest s'

/-- `save_data(param, data, vars=…, it=…, rl=…)` : new store and the exception
raised, if any. -/
def save (s : Store) (a : SaveArgs) : Store × Option Err :=
  match itIndices a with
  | .error e => (s, some e)
  | .ok idx => saveLoop a.data (effVars a) a.rl (idx.zip (sortedSet a.it)) s

/-! ### read_data / read_aurel_data -/

structure ReadArgs where
  vars : List String := []
  it : List Int := [0]
  rl : Nat := 0

/-- a value of the returned dictionary: `np.array(it)` or a Python list -/
inductive RCol
  | its (l : List Int)
  | col (l : List Entry)
  deriving DecidableEq, Repr

abbrev RData := List (String × RCol)

/-- `c.append(e)`.  (A numpy array has no `append`; `data['it']` is an array only
when `'it'` is not among the variables, and then it is never appended to —
`Lemmas.Store.read_spec` pins the `'it'` value down.) -/
def RCol.push : RCol → Entry → RCol
  | .its l, _ => .its l
  | .col l, e => .col (l ++ [e])

/-- `data[key].append(e)` -/
def appendEntry (key : String) (e : Entry) (d : RData) : RData :=
  d.map fun p => if p.1 = key then (p.1, p.2.push e) else p

structure RState where
  var : List String
  data : RData

/-- body of `for key in var:` when the file exists -/
def readKey (f : File) (rl : Nat) (k : Nat) (d : RData) (key : String) : RData :=
  let sk := skey key rl
  -- if key not in data.keys(): data[key] = [None]*it_index
  let d1 := if hasKey key d then d else d ++ [(key, .col (List.replicate k none))]
  -- if skey in f.keys(): append(np.array(f[skey])) else: append(None)
  appendEntry key (if hasKey sk f then alGet sk f else none) d1

/-- `for key in f.keys(): if f' rl={rl}' in key: var += [key.split(' rl')[0]]` -/
def discover (rl : Nat) (f : File) (var : List String) : List String :=
  f.foldl (fun acc p => if matchesRl rl p.1 then acc ++ [nameOf p.1] else acc) var

/-- one pass of `for it_index, iit in enumerate(it):` -/
def readIter (s : Store) (rl : Nat) (getAll : Bool) (k : Nat) (iit : Int) (st : RState) : RState :=
  match alGet iit s with
  | none =>                                  -- not os.path.exists(fname)
    { st with data := st.var.foldl (fun d key => appendEntry key none d) st.data }
  | some f =>
    let var :=
      if getAll then
        (dedup (discover rl f st.var)).filter (fun v => v ≠ "it")
      else st.var
    { var := var, data := var.foldl (readKey f rl k) st.data }

def readLoop (s : Store) (rl : Nat) (getAll : Bool) : Nat → List Int → RState → RState
  | _, [], st => st
  | k, iit :: rest, st => readLoop s rl getAll (k + 1) rest (readIter s rl getAll k iit st)

/-- `{'it': np.array(it), **{v: [] for v in var}}` -/
def initData (it : List Int) (var : List String) : RData :=
  var.foldl (fun d v => alSet v (.col []) d) [("it", .its it)]

def readAurel (s : Store) (a : ReadArgs) : RData :=
  let it := sortedSet a.it
  let var0 := dedup a.vars                    -- var = list(set(vars))
  let getAll := decide (var0 = [])            -- get_them_all
  let var := if "t" ∈ var0 then var0 else var0 ++ ["t"]   -- if 't' not in var: var += ['t']
  (readLoop s a.rl getAll 0 it { var := var, data := initData it var }).data

/-- `read_data(param, it=…, vars=…, rl=…)` for a parameter dictionary without
`'simulation'` -/
def read (s : Store) (a : ReadArgs) : Except Err RData :=
  if sortedSet a.it = [] then .error .valueError else .ok (readAurel s a)

/-! ### histories -/

/-- all saves of a history, in order; `none` as soon as one raises -/
def runSaves : Store → List SaveArgs → Option Store
  | s, [] => some s
  | s, a :: as => match save s a with
    | (s', none) => runSaves s' as
    | (_, some _) => none

/-- the same, exceptions ignored (what is on disk after the whole history) -/
def runAll : Store → List SaveArgs → Store
  | s, [] => s
  | s, a :: as => runAll (save s a).1 as

end AurelVerif.Store
