/-
Model/Interp.lean — hand-written, executable, Mathlib-free model (over `Rat`)
of scipy's linear `RegularGridInterpolator` (scipy 1.18.1) as it is used by

  aurel.numerical.interpolate(val, grid_points, target_points, method='linear')
      (numerical.py 98-101:  RegularGridInterpolator(grid_points, val,
       method='linear', bounds_error=False, fill_value=None)(points_flat))

What the code does for `method='linear'` on a 3-D grid:

  `RegularGridInterpolator.__call__`            (scipy/interpolate/_rgi.py)
     indices, norm_distances = find_indices(self._grid, xi.T)
     result = self._evaluate_linear(indices, norm_distances)
     (fill_value is None: nothing is overwritten outside the grid, the
      interpolant of the first / last cell is continued linearly)

  `find_indices`                                (scipy/interpolate/_rgi_cython.pyx)
     per axis:  index = find_interval_ascending(grid, n, x, prev_interval=index, extrapolate=1)
                denom = grid[index + 1] - grid[index]
                norm_distance = (x - grid[index]) / denom
     (`index` is the interval of the previous point — only a starting hint of
      the search, theorem `InterpLemmas.findIntervalFrom_eq`)

  `find_interval_ascending`                     (scipy/interpolate/_poly_common.pxi)
     → `findIntervalFrom` below, line by line

  `_evaluate_linear`                            (scipy/interpolate/_rgi.py)
     shift_norm_distances = [1 - yi for yi in norm_distances]
     shift_indices = [i + 1 for i in indices]
     hypercube = itertools.product(*zip(zip(indices, shift_norm_distances),
                                        zip(shift_indices, norm_distances)))
     value = 0
     for h in hypercube:
         edge_indices, weights = zip(*h)
         weight = 1
         for w in weights: weight = weight * w
         value = value + values[edge_indices] * weight

RESTRICTION.  Only strictly ascending grids with at least two nodes per axis
are modelled (aurel's grids are `xmin + dx*arange(N)`).  scipy treats an axis of
length 1 by a special case and flips descending axes; neither is modelled.
NaN targets are not modelled (`Rat` has none).  Out-of-range list accesses of
the model (`getD … 0`) never happen on such grids
(`InterpLemmas.findInterval_lt`).

The .pyx/.pxi sources are not shipped with the wheel; `findIntervalFrom` is
written after the upstream source and tied to the compiled code by the exact
correspondence check `corr_interp` (tools/props/C20.py) via Driver/C20Interp.lean.
-/
namespace AurelVerif.Interp

/-- `grid[i]` (C array access; the index is always valid on the modelled grids). -/
def nth (g : List Rat) (i : Nat) : Rat := g.getD i 0

/-- the `while low < high:` loop of `find_interval_ascending`.  `fuel` bounds
the number of iterations (`high - low` strictly decreases). -/
def bsearch (g : List Rat) (x : Rat) : Nat → Nat → Nat → Nat
  | 0, low, _ => low
  | fuel + 1, low, high =>
    if low < high then
      let mid := (high + low) / 2
      if x < nth g mid then
        -- mid < high
        bsearch g x fuel low mid
      else if nth g (mid + 1) ≤ x then
        bsearch g x fuel (mid + 1) high
      else
        -- x[mid] <= xval < x[mid+1]
        mid
    else low

/-- `find_interval_ascending(x=g, nx=g.length, xval=x, prev_interval=prev, extrapolate=1)`:

    a = x[0]; b = x[nx-1]
    if interval < 0 or interval >= nx: interval = 0
    if not (a <= xval <= b):
        if xval < a and extrapolate:   interval = 0
        elif xval > b and extrapolate: interval = nx - 2
        else:                          interval = -1        # nan only
    elif xval == b:                    interval = nx - 2
    else:
        if xval >= x[interval]: low = interval; high = nx - 2
        else:                   low = 0;        high = interval
        if xval < x[low+1]: high = low
        while low < high: …  (`bsearch`)
        interval = low
-/
def findIntervalFrom (prev : Nat) (g : List Rat) (x : Rat) : Nat :=
  let nx := g.length
  let a := nth g 0
  let b := nth g (nx - 1)
  let interval := if prev ≥ nx then 0 else prev
  if ¬ (a ≤ x ∧ x ≤ b) then
    if x < a then 0
    else nx - 2            -- `xval > b`; (the nan branch does not exist over `Rat`)
  else if x = b then nx - 2
  else
    let low := if x ≥ nth g interval then interval else 0
    let high := if x ≥ nth g interval then nx - 2 else interval
    let high := if x < nth g (low + 1) then low else high
    bsearch g x nx low high

/-- the interval of the first target point (`prev_interval = 0`); by
`InterpLemmas.findIntervalFrom_eq` also that of every later point. -/
def findInterval (g : List Rat) (x : Rat) : Nat := findIntervalFrom 0 g x

/-- `norm_distance = (x - grid[i]) / (grid[i+1] - grid[i])` -/
def normDist (g : List Rat) (i : Nat) (x : Rat) : Rat :=
  (x - nth g i) / (nth g (i + 1) - nth g i)

/-- one axis of `zip(zipped1, zipped2)`: `((i, 1 - y), (i + 1, y))` -/
def axisPair (g : List Rat) (x : Rat) : (Nat × Rat) × (Nat × Rat) :=
  let i := findInterval g x
  let y := normDist g i x
  ((i, 1 - y), (i + 1, y))

/-- 1-D `_evaluate_linear` -/
def interp1 (g : List Rat) (val : Nat → Rat) (x : Rat) : Rat :=
  let p := axisPair g x
  [p.1, p.2].foldl (fun value a => value + val a.1 * (1 * a.2)) 0

/-- `itertools.product(px, py, pz)` of three pairs (last axis fastest). -/
def hypercube3 (px py pz : (Nat × Rat) × (Nat × Rat)) : List ((Nat × Rat) × (Nat × Rat) × (Nat × Rat)) :=
  [px.1, px.2].flatMap fun a => [py.1, py.2].flatMap fun b => [pz.1, pz.2].map fun c => (a, b, c)

/-- `weight = 1; for w in weights: weight = weight * w` -/
def weight3 (h : (Nat × Rat) × (Nat × Rat) × (Nat × Rat)) : Rat := ((1 * h.1.2) * h.2.1.2) * h.2.2.2

/-- the 8 weights in the order of the loop -/
def weights3 (gx gy gz : List Rat) (x y z : Rat) : List Rat :=
  (hypercube3 (axisPair gx x) (axisPair gy y) (axisPair gz z)).map weight3

/-- the 8 vertices `(i, j, k)` of the cell in the order of the loop -/
def corners3 (gx gy gz : List Rat) (x y z : Rat) : List (Nat × Nat × Nat) :=
  (hypercube3 (axisPair gx x) (axisPair gy y) (axisPair gz z)).map fun h => (h.1.1, h.2.1.1, h.2.2.1)

/-- 3-D `_evaluate_linear` after `find_indices`:
`value = 0; for h in hypercube: value = value + values[edge_indices] * weight`. -/
def interp3 (gx gy gz : List Rat) (val : Nat → Nat → Nat → Rat) (x y z : Rat) : Rat :=
  (hypercube3 (axisPair gx x) (axisPair gy y) (axisPair gz z)).foldl
    (fun value h => value + val h.1.1 h.2.1.1 h.2.2.1 * weight3 h) 0

/-- `values[i, j, k]` of a C-ordered flat array of shape `(·, ny, nz)`. -/
def flatVal (ny nz : Nat) (vals : List Rat) (i j k : Nat) : Rat := vals.getD ((i * ny + j) * nz + k) 0

end AurelVerif.Interp
