import Lean.Meta.Tactic.Simp.RegisterCommand
/-- simp set that unfolds every generated definition (and its auxiliary shared
sub-expressions) and the literal-index tensor lemmas. -/
register_simp_attr core_unfold
