/-
Model/Table.lean — hand-written, executable, Mathlib-free model of
`aurel.over_time` / `process_single_timestep` (src/aurel/time.py:58-441),
written literally after the code.

* A Python `dict` is an association list in insertion order (`Row` for the
  per-step dictionaries and for `rel.data`, `Table` for the dict of columns).
  `dset` is `d[k] = v` (an existing key keeps its position), `has` is
  `k in d`, `get?` is `d[k]` (`none` = KeyError).
* Everything the code does *inside* one time step with an `AurelCore` is an
  abstract deterministic function of the dictionary handed to that instance:
    `comp rd k`   = `rel[k]` for a key that is not in `rel.data = rd`
                    (the cache of `AurelCore` is transparent: property C01),
    `cust f rd`   = `function(rel)` for the custom variable function `f`,
    `estB e c` / `estC f c` = `est_functions[e](c)` / custom estimator `f(c)`,
    `is3 c`       = `len(np.shape(c)) == 3`,
    `lt a b`      = Python `a < b` on cells of the temporal column.
  A *fresh* `AurelCore` is created for every row, so the only argument of
  `comp` / `cust` is that row's dictionary — this is what the model states
  and what the correspondence harness (tools/props/C14.py) checks on the real
  code with inputs that differ in every row.
* Custom variables are FROZEN INPUTS of the step (time.py:381-382:
  `rel.data[func_name] = function(rel)`, `rel.var_importance[func_name] = 0`):
  the dictionary every later read of the step sees is the row's inputs followed
  by the custom values (`runCustoms`), and `comp` is applied to exactly that
  dictionary (`relGet`).  Accordingly the model has NO cache parameter
  (`clear_cache_every_nbr_calc`, `memory_threshold_inGB`): a custom value — also
  one stored under the name of a built-in key, such as a custom `press` — can
  never be evicted and replaced by the built-in default.  The harness checks
  this on the real code with custom functions named like built-in keys, long
  lists of built-ins that read them and `clear_cache_every_nbr_calc` 1-5.
* Exceptions the code can raise from its own control flow are modelled:
  ValueError (no temporal key; `zip(strict=True)` on ragged columns),
  IndexError (`data[key][0]` / `input_data_list[0]` on an empty table),
  KeyError (a dictionary look-up that misses).
* Request items: a `str`, a `dict {name: function}` (any number of items), or
  anything else (e.g. a bare function object), which the `isinstance` chain
  silently ignores.  Function objects are represented by a tag (`Fid`).
-/
namespace AurelVerif.Table

abbrev Name := String
abbrev Fid := String

inductive Err | valueError | indexError | keyError
deriving DecidableEq, Repr

abbrev Row (C : Type) := List (Name × C)
abbrev Table (C : Type) := List (Name × List C)

/-! ### Python dict primitives -/

/-- `k in d` -/
def has (k : Name) (d : List (Name × β)) : Bool := d.any (fun kv => kv.1 == k)

/-- `d[k]` (`none` = KeyError) -/
def get? (k : Name) (d : List (Name × β)) : Option β :=
  match d with
  | [] => none
  | kv :: rest => if kv.1 == k then some kv.2 else get? k rest

/-- `d[k] = v`: an existing key keeps its position, a new key is appended. -/
def dset (d : List (Name × β)) (k : Name) (v : β) : List (Name × β) :=
  if has k d then d.map (fun kv => if kv.1 == k then (kv.1, v) else kv) else d ++ [(k, v)]

def keys (d : List (Name × β)) : List Name := d.map (·.1)

/-! ### sequencing of Except (explicit, so that proofs can unfold it) -/

def mapE (f : α → Except Err β) : List α → Except Err (List β)
  | [] => .ok []
  | a :: as =>
    match f a with
    | .error e => .error e
    | .ok b =>
      match mapE f as with
      | .error e => .error e
      | .ok bs => .ok (b :: bs)

def foldlE (f : β → α → Except Err β) : β → List α → Except Err β
  | b, [] => .ok b
  | b, a :: as =>
    match f b a with
    | .error e => .error e
    | .ok b' => foldlE f b' as

/-- sequencing: the first exception propagates -/
def andThen (x : Except Err α) (f : α → Except Err β) : Except Err β :=
  match x with
  | .error e => .error e
  | .ok a => f a

/-- an `Option` whose `none` is the given exception -/
def optE (err : Err) : Option α → Except Err α
  | some a => .ok a
  | none => .error err

/-! ### requests -/

/-- one element of `vars` / `estimates` as the caller passes it -/
inductive Req
  | name (s : Name)                    -- a `str`
  | dict (items : List (Name × Fid))   -- `{name: function, ...}`
  | other                              -- anything else: ignored by the isinstance chain
deriving Repr, DecidableEq

/-- one element of the *cleaned* lists: a `str` or a single-item dict -/
inductive CReq
  | name (s : Name)
  | fn (n : Name) (f : Fid)
deriving Repr, DecidableEq

def CReq.key : CReq → Name
  | .name s => s
  | .fn n _ => n

/-- everything the model does not look into -/
structure Env (C : Type) where
  /-- `v in core.descriptions` -/
  isDescr : Name → Bool
  /-- `e in est_functions` -/
  isEstFn : Name → Bool
  /-- `validate_variable_function` does not raise -/
  validVar : Fid → Bool
  /-- `validate_estimation_function` does not raise -/
  validEst : Fid → Bool
  comp : Row C → Name → C
  cust : Fid → Row C → C
  estB : Name → C → C
  estC : Fid → C → C
  is3 : C → Bool
  lt : C → C → Bool

/-! ### over_time, lines 122-236: temporal key and cleaning -/

def temporalNames : List Name := ["it", "iteration", "t", "time"]

/-- `for temp in ['it','iteration','t','time']: if temp in data: temporal_key = temp`
— the LAST name present wins. -/
def temporalKey (t : Table C) : Option Name :=
  temporalNames.foldl (fun acc temp => if has temp t then some temp else acc) none

/-- one iteration of the loop of lines 133-153 -/
def cleanVarItem (E : Env C) (t : Table C) (v : Req) : List CReq :=
  match v with
  | .name s => if !has s t && E.isDescr s then [.name s] else []
  | .dict items =>
    items.filterMap fun nf => if !has nf.1 t && E.validVar nf.2 then some (.fn nf.1 nf.2) else none
  | .other => []

/-- lines 131-154 -/
def cleanVars (E : Env C) (t : Table C) (vars : List Req) : List CReq :=
  vars.flatMap (cleanVarItem E t)

/-- `key + '_' + est` -/
def estKey (k e : Name) : Name := k ++ "_" ++ e

/-- lines 186-190: `[key for key in data if len(np.shape(data[key][0])) == 3]` -/
def tableScalarKeys (E : Env C) (t : Table C) : Except Err (List Name) :=
  andThen (mapE (fun (kc : Name × List C) => optE .indexError (kc.2.head?.map (fun c => (kc.1, c)))) t)
    fun firsts => .ok ((firsts.filter (fun kc => E.is3 kc.2)).map (·.1))

/-- one iteration of the loops of lines 160-184 (`lacks = fun _ => true`: every
valid estimate is kept) and 195-235 (kept only if some scalar key lacks it) -/
def cleanEstItem (E : Env C) (lacks : Name → Bool) (e : Req) : List CReq :=
  match e with
  | .name s => if lacks s && E.isEstFn s then [.name s] else []
  | .dict items =>
    items.filterMap fun nf => if lacks nf.1 && E.validEst nf.2 then some (.fn nf.1 nf.2) else none
  | .other => []

/-- lines 156-236 -/
def cleanEsts (E : Env C) (t : Table C) (cv : List CReq) (ests : List Req) :
    Except Err (List CReq) :=
  if !cv.isEmpty then
    .ok (ests.flatMap (cleanEstItem E (fun _ => true)))
  else
    andThen (tableScalarKeys E t) fun sk =>
      .ok (ests.flatMap (cleanEstItem E (fun nm => sk.any (fun s => !has (estKey s nm) t))))

/-! ### lines 241-246: dict of lists → list of dicts -/

/-- the `i`-th `dict(zip(keys, values))` -/
def rowAt (t : Table C) (i : Nat) : Row C :=
  t.filterMap (fun kc => (kc.2[i]?).map (fun c => (kc.1, c)))

/-- `zip(*data.values(), strict=True)`: ValueError on ragged columns. -/
def toRows (t : Table C) : Except Err (List (Row C)) :=
  match t with
  | [] => .ok []
  | (_, c0) :: _ =>
    if t.all (fun kc => kc.2.length == c0.length) then
      .ok ((List.range c0.length).map (rowAt t))
    else .error .valueError

/-! ### process_single_timestep, lines 359-441 -/

/-- `key in vars` for the cleaned list: a `str` is never equal to a dict. -/
def inVars (key : Name) (vars : List CReq) : Bool :=
  vars.any fun v => match v with | .name s => s == key | .fn _ _ => false

/-- lines 366-368: `rel.data[key] = values` for every key not in `vars`
(the row is a dict: keys are distinct, so this is a filter). -/
def loadRel (vars : List CReq) (row : Row C) : Row C :=
  row.filter (fun kv => !inVars kv.1 vars)

/-- lines 373-385: `rel.data[func_name] = function(rel)` in request order;
each function sees the instance as left by the previous ones. -/
def runCustoms (E : Env C) (vars : List CReq) (rd : Row C) : Row C :=
  vars.foldl (fun rd v => match v with | .name _ => rd | .fn n f => dset rd n (E.cust f rd)) rd

/-- `rel[k]` (core.py `__getitem__`): the stored value if present, else computed. -/
def relGet (E : Env C) (rd : Row C) (k : Name) : C :=
  match get? k rd with
  | some c => c
  | none => E.comp rd k

/-- lines 388-393: `data[v] = rel[v]` -/
def storeVars (E : Env C) (vars : List CReq) (rd : Row C) (row : Row C) : Row C :=
  vars.foldl (fun d v => dset d v.key (relGet E rd v.key)) row

/-- lines 360-396 -/
def stepVars (E : Env C) (vars : List CReq) (row : Row C) : Row C :=
  if vars.isEmpty then row
  else storeVars E vars (runCustoms E vars (loadRel vars row)) row

/-- lines 400-404 -/
def scalarKeys (E : Env C) (d : Row C) : List Name :=
  (d.filter (fun kv => E.is3 kv.2)).map (·.1)

def estApply (E : Env C) : CReq → C → C
  | .name e => E.estB e
  | .fn _ f => E.estC f

/-- the body of the double loop, lines 423-435 -/
def estOne (E : Env C) (e : CReq) (d : Row C) (key : Name) : Except Err (Row C) :=
  if has (estKey key e.key) d then .ok d
  else andThen (optE .keyError (get? key d)) fun c => .ok (dset d (estKey key e.key) (estApply E e c))

/-- lines 410-435 -/
def applyEsts (E : Env C) (ests : List CReq) (sk : List Name) (d : Row C) : Except Err (Row C) :=
  foldlE (fun d e => foldlE (estOne E e) d sk) d ests

/-- `process_single_timestep(data, fd, vars, estimates, verbose, scalarkeys, rel_kwargs)`;
returns the row and the scalar keys used. -/
def processStep (E : Env C) (row : Row C) (vars ests : List CReq) (sk? : Option (List Name)) :
    Except Err (Row C × List Name) :=
  let d := stepVars E vars row
  let sk := match sk? with | some s => s | none => scalarKeys E d
  andThen (applyEsts E ests sk d) fun d' => .ok (d', sk)

/-! ### lines 275-286: sort, list of dicts → dict of columns -/

/-- insert `x` (which precedes every element of the list in the input) before
the first element that is not strictly smaller: equal keys keep input order. -/
def insertBy (lt : α → α → Bool) (x : α) : List α → List α
  | [] => [x]
  | y :: ys => if lt y x then y :: insertBy lt x ys else x :: y :: ys

/-- a stable sort that only uses `<` (what Python's `sorted` guarantees;
any stable algorithm returns the same list for a strict weak order) -/
def stableSort (lt : α → α → Bool) : List α → List α
  | [] => []
  | x :: xs => insertBy lt x (stableSort lt xs)

/-- `sorted(data_list, key=lambda x: x[temporal_key])`: decorate, stable sort
with `<` on the keys, undecorate. -/
def sortRows (E : Env C) (tk : Name) (rows : List (Row C)) : Except Err (List (Row C)) :=
  andThen (mapE (fun r => optE .keyError ((get? tk r).map (fun c => (c, r)))) rows)
    fun keyed => .ok ((stableSort (fun a b => E.lt a.1 b.1) keyed).map (·.2))

/-- lines 279-285 -/
def toCols (rows : List (Row C)) : Except Err (Table C) :=
  match rows with
  | [] => .error .indexError
  | r0 :: _ =>
    mapE (fun k => andThen (mapE (fun r => optE .keyError (get? k r)) rows) fun col => .ok (k, col)) (keys r0)

/-- `over_time(data, fd, vars, estimates)` -/
def overTime (E : Env C) (t : Table C) (vars ests : List Req) : Except Err (Table C) :=
  andThen (optE .valueError (temporalKey t)) fun tk =>
    let cv := cleanVars E t vars
    andThen (cleanEsts E t cv ests) fun ce =>
      if cv.isEmpty && ce.isEmpty then .ok t
      else
        andThen (toRows t) fun rows =>
          match rows with
          | [] => .error .indexError
          | r0 :: rest =>
            andThen (processStep E r0 cv ce none) fun p0 =>
              andThen (mapE (fun r => andThen (processStep E r cv ce (some p0.2)) fun p => .ok p.1) rest)
                fun ds => andThen (sortRows E tk (p0.1 :: ds)) toCols

/-- successive calls, each on the table the previous one returned -/
def runCalls (E : Env C) (t : Table C) (calls : List (List Req × List Req)) : Except Err (Table C) :=
  foldlE (fun t c => overTime E t c.1 c.2) t calls

end AurelVerif.Table
