/-
Model/ReadCacheX.lean — extension of Model/ReadCache.lean (C12): hand-written,
executable, Mathlib-free model of ONE WHOLE `read_data` CALL on an Einstein
Toolkit directory, literally after `read_ET_data` / `iterations` /
`read_aurel_data` / `save_data` of reading.py as they are NOW (/repo b788cb7):

  iterations()          the catalogue `iterations.txt` is persistent: a restart, once
                        catalogued (by a call with `skip_last=False`, or as soon as it
                        is no longer the last one), stays catalogued — `skip_last` may
                        change from call to call                       (`catalogue`)
  'it to do'            restart choice with and without `usecheckpoints`, `restart=-1`
                        or explicit (Model/Restarts.lean: `itToDo`, `itToDoExplicit`)
  `vars=[]`             `if var==[]: var = its_available[restart]['var available']` at
                        the FIRST restart that has something to do; the list is kept
                        for the later restarts                         (`restartStep`)
  `usecheckpoints`      `datar[restart] = read_ET_checkpoints(param, var, …)`: the cache
                        is neither read nor written (abstract reader `chkRead`)
  `split_per_it=False`  `read_ET_variables(param, var, …)`: a variable the restart does
                        not hold gives no column ("Variable … not found")  (`readDirectX`)
  `split_per_it=True`   Model/ReadCache.lean, plus (e04ff7b, b788cb7) a component the
                        restart does not hold is skipped (its entries stay `None`), and
                        so is the time when the restart holds no component of the
                        variable being read                             (`stepCompX`)
  `variables_grouped`   per restart; when false `var` is REPLACED by its scalar
                        components and stays so for the later restarts
  flattening            union of the columns of all restarts read, `None` where a
                        restart lacks a column (e8cb585); `{}` when nothing was read
  exceptions            a call that raises keeps everything written before: the result is
                        `(none, catalogue, cache at the moment of the raise)`

Refinement levels are plain numbers (`DKey.rl`): dataset `<name> rl=<k>` is looked
up by its exact name, so level 1 and levels 10, 11 are different keys.

Not modelled: iterations inside a restart's [itmin, itmax] that its files do not
hold, a level the files do not hold (`read_ET_group_or_var` raises ValueError in
both modes); the extra columns the uncached read returns for unrequested members
of a group file; `save_data`'s internal `list.index` failure keeps the cache of
the moment before that `save_data` call (it cannot occur on a cache with the
invariant: `Props/C12b.no_internal_error`).
-/
import AurelVerif.Model.ReadCache
import AurelVerif.Model.Restarts
namespace AurelVerif.ReadCacheX
open AurelVerif.Chunks AurelVerif.ReadCache AurelVerif.Restarts

/-- what one restart contributes (`datar[restart]`): `'it'` and the other columns -/
structure Tab (β : Type) where
  its : List Nat
  cols : Dict DName (List (Option β))

/-- one `output-<n>` directory as `iterations()` / `get_content()` describe it -/
structure RInfo where
  /-- number, 'its available', 'checkpoints' -/
  cat : Cat
  /-- `variables_grouped`: some file holds more than one variable -/
  grouped : Bool
  /-- 'var available' (every aurel name as the list of its scalar components);
  `none`: the restart has no 3D output ("Could not find 3D data") -/
  varAvail : Option (List (List Nat))

/-- the simulation directory (never changes during a history) -/
structure World (β : Type) where
  /-- the `output-<n>` directories in increasing `n` -/
  restarts : List RInfo
  /-- the uncached 3D read: block / time of (restart, iteration, name, level) -/
  src : DKey → β
  /-- content of an `it` dataset -/
  ofIt : Nat → β
  /-- the 3D files of restart `R` hold scalar variable `c` -/
  has : Nat → Nat → Bool
  /-- `read_ET_checkpoints(param, var, it=…, rl=…, restart=R)` (`none`: it raises) -/
  chkRead : Nat → List (List Nat) → List Nat → Nat → Option (Tab β)

def World.info (w : World β) (r : Nat) : Option RInfo := w.restarts.find? fun ri => ri.cat.num == r

/-- `iterations(param, skip_last=…)`: the catalogued restarts (file order) after the call;
`none` = ImportError "Nothing to process" -/
def catalogue (w : World β) (done : List Nat) (skipLast : Bool) : Option (List Nat) :=
  let all := w.restarts.map fun ri => ri.cat.num
  let cand := if skipLast then all.dropLast else all
  let new := cand.filter fun r => !done.contains r
  if new.isEmpty && done.isEmpty then none else some (done ++ new)

/-- `its_available` restricted to the restart entries -/
def catsOf (w : World β) (done : List Nat) : List Cat := done.filterMap fun r => (w.info r).map (·.cat)

/-- a step function that may raise, keeping the cache of that moment -/
def foldE {σ γ ε : Type} (f : σ → γ → Except ε σ) : σ → List γ → Except ε σ
  | s, [] => .ok s
  | s, x :: xs =>
    match f s x with
    | .ok s' => foldE f s' xs
    | .error e => .error e

/-- `av in data_temp`: `read_ET_variables(param, [v], …)` returns a column for every
component of `v` the restart holds, and always `'t'` -/
def hasName (w : World β) (R : Nat) : DName → Bool
  | .var c => w.has R c
  | _ => true

/-- body of `for av in avart:` (/repo e04ff7b, b788cb7:
`if av in data_temp and data_temp[av] is not None and len(data_temp[av]) > 0`).
`empty`: the restart holds no component of `v`, `data_temp` is `{'it': …, 't': []}`: the
empty time column is skipped like a column that is not there. -/
def stepCompX (w : World β) (R rl : Nat) (its tmpIts : List Nat) (empty : Bool) (st : State β) (av : DName) :
    Except (Store β) (State β) :=
  if hasName w R av && !empty then
    match stepComp w.src w.ofIt R rl its tmpIts st av with
    | some st' => .ok st'
    | none => .error st.store
  else .ok st

/-- body of `for v in var:`; `nofiles`: `read_ET_variables` raises IndexError
(`list(vars_and_files.keys())[0]`) -/
def stepVarX (w : World β) (nofiles : Bool) (R rl : Nat) (its : List Nat) (st : State β) (v : List Nat) :
    Except (Store β) (State β) :=
  let comps := v.map DName.var
  let itsTemp := (comps.flatMap fun av => getMiss st.missing av).eraseDups
  if itsTemp = [] then .ok st
  else if nofiles then .error st.store
  else foldE (stepCompX w R rl its (sortNat itsTemp) (v.all fun c => !w.has R c)) st (comps ++ [DName.t])

/-- one restart, `split_per_it=True`; returns the table, the cache and the new `var` -/
def readRestartX (w : World β) (nofiles grouped : Bool) (var : List (List Nat)) (store : Store β) (R rl : Nat)
    (its : List Nat) : Except (Store β) (Tab β × Store β × List (List Nat)) :=
  let names := var.flatten.map DName.var ++ [DName.t]
  let cols := readCache store R rl its names
  let st0 : State β := { col := cols, missing := initMissing its cols names, store := store }
  let var' := if grouped then var else var.flatten.map fun c => [c]
  match foldE (stepVarX w nofiles R rl its) st0 var' with
  | .error s => .error s
  | .ok st => .ok (⟨its, st.col⟩, st.store, var')

/-- one restart, `split_per_it=False`: `read_ET_variables(param, var, vars_and_files, …)`.
`data = {'it': …, 't': []}`; every variable found adds its column and the time. -/
def readDirectX (w : World β) (var : List (List Nat)) (R rl : Nat) (its : List Nat) : Tab β :=
  let found := var.flatten.filter fun c => w.has R c
  let t : List (Option β) := if found.isEmpty then [] else its.map fun i => some (w.src ⟨R, i, DName.t, rl⟩)
  ⟨its, found.foldl (fun d c => d.set (DName.var c) (its.map fun i => some (w.src ⟨R, i, DName.var c, rl⟩)))
    [(DName.t, t)]⟩

/-- state of `for restart in restarts_available:` -/
structure LoopSt (β : Type) where
  var : List (List Nat)
  datar : List (Nat × Tab β)
  store : Store β

/-- body of `for restart in restarts_available:` -/
def restartStep (w : World β) (usechk split : Bool) (rl : Nat) (st : LoopSt β) (rt : Nat × List Nat) :
    Except (Store β) (LoopSt β) :=
  if rt.2 = [] then .ok st
  else
    match w.info rt.1 with
    | none => .error st.store
    | some ri =>
      -- if var==[]: var = its_available[restart]['var available']   (KeyError without 3D output)
      match (if st.var = [] then ri.varAvail else some st.var) with
      | none => .error st.store
      | some var =>
        if usechk then
          match w.chkRead rt.1 var rt.2 rl with
          | none => .error st.store
          | some T => .ok { var := var, datar := st.datar ++ [(rt.1, T)], store := st.store }
        else if split then
          match readRestartX w ri.varAvail.isNone ri.grouped var st.store rt.1 rl rt.2 with
          | .error s => .error s
          | .ok (T, store', var') => .ok { var := var', datar := st.datar ++ [(rt.1, T)], store := store' }
        else if ri.varAvail.isNone then .error st.store
        else .ok { var := var, datar := st.datar ++ [(rt.1, readDirectX w var rt.1 rl rt.2)], store := st.store }

/-! ### the final flattening -/

def addKey (ks : List DName) (k : DName) : List DName := if ks.contains k then ks else ks ++ [k]

/-- `for restart in datar: for key in datar[restart]: data.setdefault(key, [])` -/
def unionKeys (datar : List (Nat × Tab β)) : List DName :=
  datar.foldl (fun ks d => (d.2.cols.map Prod.fst).foldl addKey ks) []

/-- `datar[restart][key][it_index]` if the restart has the column (IndexError = `none`), else `None` -/
def cellAt (T : Tab β) (idx : Nat) (k : DName) : Option (DName × Option β) :=
  match T.cols.get? k with
  | some col =>
    match col[idx]? with
    | some v => some (k, v)
    | none => none
  | none => some (k, none)

/-- the entries appended for iteration `iit` found in restart `d` -/
def rowAt (keys : List DName) (d : Nat × Tab β) (iit : Nat) : Option (Row β) :=
  let idx := nearestIdx d.2.its iit
  match d.2.its[idx]?, mapOpt (cellAt d.2 idx) keys with
  | some i, some cells => some (i, d.1, cells)
  | _, _ => none

def flattenX (its : List Nat) (datar : List (Nat × Tab β)) : Option (List (Row β)) :=
  mapOpt (fun x => x) (its.flatMap fun iit => datar.filterMap fun d =>
    if iit ∈ d.2.its then some (rowAt (unionKeys datar) d iit) else none)

/-! ### one call -/

structure CallX where
  skipLast : Bool
  /-- requested names, each as the list of its scalar components; `[]` = `vars=[]` -/
  req : List (List Nat)
  its : List Nat
  rl : Nat
  /-- `none` = -1 -/
  restart : Option Nat
  split : Bool
  usechk : Bool

/-- 'it to do' per restart in the order of `restarts_available` (`none`: KeyError, the
explicit restart is not catalogued) -/
def todoX (cats : List Cat) (usechk : Bool) (restart : Option Nat) (sits : List Nat) :
    Option (List (Nat × List Nat)) :=
  match restart with
  | none => some (Restarts.itToDo usechk cats sits)
  | some r =>
    match cats.find? fun c => c.num == r with
    | none => none
    | some c => some [(r, itToDoExplicit usechk c sits)]

/-- `read_data(param, it=…, vars=…, rl=…, restart=…, split_per_it=…, usecheckpoints=…,
skip_last=…)` on catalogue `done` and cache `store`: (returned rows or `none` = raised,
catalogue afterwards, cache afterwards) -/
def readDataX (w : World β) (done : List Nat) (c : CallX) (store : Store β) :
    Option (List (Row β)) × List Nat × Store β :=
  let sits := sortedSet c.its
  if sits = [] then (none, done, store)               -- ValueError: it can not be an empty list
  else
    match catalogue w done c.skipLast with
    | none => (none, done, store)                     -- ImportError: nothing to process
    | some done' =>
      match todoX (catsOf w done') c.usechk c.restart sits with
      | none => (none, done', store)
      | some todo =>
        match foldE (restartStep w c.usechk c.split c.rl) { var := c.req, datar := [], store := store } todo with
        | .error s => (none, done', s)
        | .ok st =>
          match flattenX sits st.datar with
          | none => (none, done', st.store)
          | some rows => (some rows, done', st.store)

end AurelVerif.ReadCacheX
