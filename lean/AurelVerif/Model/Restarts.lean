/-
Model/Restarts.lean — hand-written, executable, Mathlib-free model of the part
of `read_ET_data` (reading.py) around the per-restart readers:

  * which restart every requested iteration is read from, with and without
    `usecheckpoints`, for `restart = -1` and for an explicit restart
    (`its_available[restart]['it to do']`);
  * the call of the per-restart reader (`read_ET_variables` or
    `read_ET_checkpoints`, abstract here) for every restart that has something
    to do;
  * the final flattening of `datar` into the returned dictionary
    (`for iit in old_it: for restart in datar.keys(): if iit in datar[restart]['it']: ...`);
    as of /repo e8cb585 the result has the UNION of the columns of all restarts and a
    restart that lacks a column contributes `None` for its iterations.

Generalises `pickRestart` / `itToDo` / `flatten` of Model/Chunks.lean (which
only follow the (iteration, restart) pairs) to the actual table cells, so that
"entries come back in the order of the requested iterations with matching
times" can be stated about the `t` column and every variable column.

A catalogue entry carries 'its available' `[itmin, itmax]` (always two numbers:
`iterations()` and `read_iterations()` never produce a one-element list) and
'checkpoints'.  The entry 'overall' of the real dictionary has neither key, is
never selected and gets an empty 'it to do': it is left out.
-/
import AurelVerif.Model.Chunks
namespace AurelVerif.Restarts
open AurelVerif.Chunks

/-- `its_available[restart]` -/
structure Cat where
  num : Nat
  /-- 'its available' -/
  range : Option (Nat × Nat)
  /-- 'checkpoints' -/
  chk : Option (List Nat)
deriving Repr

/-- `it_in_restart` -/
def inRestart (usechk : Bool) (c : Cat) (iit : Nat) : Bool :=
  if usechk then
    match c.chk with
    | none => false
    | some l => l.contains iit
  else
    match c.range with
    | none => false
    | some ab => decide (ab.1 ≤ iit ∧ iit ≤ ab.2)

/-- ```
for restart in list(its_available.keys())[::-1]:
    if it_in_restart: ...; break
``` -/
def pick (usechk : Bool) (cats : List Cat) (iit : Nat) : Option Nat :=
  (cats.reverse.find? fun c => inRestart usechk c iit).map (·.num)

/-- 'it to do' of every restart after the selection loop and the `np.sort` -/
def itToDo (usechk : Bool) (cats : List Cat) (its : List Nat) : List (Nat × List Nat) :=
  cats.map fun c => (c.num, sortNat ((its.reverse).filter fun iit => pick usechk cats iit == some c.num))

/-- 'it to do' for an explicit `restart >= 0` (`its` is already `sorted(set(it))`) -/
def itToDoExplicit (usechk : Bool) (c : Cat) (its : List Nat) : List Nat :=
  its.filter fun iit => inRestart usechk c iit

/-- what a per-restart reader returns: `data['it']` and the other columns
(`'t'` and one per variable) in dictionary order -/
structure Table (β : Type) where
  its : List Nat
  cols : Dict String (List β)

def absDiff (a b : Nat) : Nat := if a ≤ b then b - a else a - b

/-- `np.argmin(abs(arr - iit))`: the FIRST index of the minimum (`none`: empty array, ValueError) -/
def argminAbs (arr : List Nat) (iit : Nat) : Option Nat :=
  let d := arr.map fun x => absDiff x iit
  match d.min? with
  | none => none
  | some m => some (d.idxOf m)

/-- ```
data = {}
for restart in datar.keys():
    for key in datar[restart].keys():
        data.setdefault(key, [])
``` : every column found in any restart, in first-seen order -/
def addKey (ks : List String) (k : String) : List String := if ks.contains k then ks else ks ++ [k]

def unionKeys {β : Type} (datar : List (Nat × Table β)) : List String :=
  datar.foldl (fun ks rT => (rT.2.cols.map Prod.fst).foldl addKey ks) []

/-- ```
for key in data.keys():
    if key in datar[restart].keys(): data[key] += [datar[restart][key][it_index]]
    else:                            data[key] += [None]
``` (`none`: IndexError).  A cell of the result is `some value` or `none` = Python's `None`. -/
def appendCell {β : Type} (T : Table β) (idx : Nat) (kl : String × List (Option β)) :
    Option (String × List (Option β)) :=
  match T.cols.get? kl.1 with
  | some col =>
    match col[idx]? with
    | some v => some (kl.1, kl.2 ++ [some v])
    | none => none
  | none => some (kl.1, kl.2 ++ [none])

def appendRow {β : Type} (data : Dict String (List (Option β))) (T : Table β) (idx : Nat) :
    Option (Dict String (List (Option β))) :=
  mapOpt (appendCell T idx) data

/-- ```
if iit in datar[restart]['it']:
    it_index = np.argmin(abs(datar[restart]['it'] - iit))
    for key in data.keys(): ...
``` (every restart has the `'it'` column: it is appended like the others, never `None`) -/
def rowStep {β : Type} (iit : Nat) (acc : List Nat × Dict String (List (Option β))) (rT : Nat × Table β) :
    Option (List Nat × Dict String (List (Option β))) :=
  if iit ∈ rT.2.its then
    match argminAbs rT.2.its iit with
    | none => none
    | some idx =>
      match rT.2.its[idx]?, appendRow acc.2 rT.2 idx with
      | some i, some d => some (acc.1 ++ [i], d)
      | _, _ => none
  else some acc

/-- the flattening of `datar`; the result is `(data['it'], other columns)`.  With an
empty `datar` the code returns the empty dictionary. -/
def flattenTables {β : Type} (datar : List (Nat × Table β)) (oldIt : List Nat) :
    Option (List Nat × Dict String (List (Option β))) :=
  oldIt.foldlM (fun acc iit => datar.foldlM (rowStep iit) acc) ([], (unionKeys datar).map fun k => (k, []))

/-- `read_ET_data(it=its, restart=..., usecheckpoints=...)` around an abstract
per-restart reader `reader restart its_to_do` (`restart = none` is `-1`) -/
def readETData {β : Type} (usechk : Bool) (cats : List Cat) (restart : Option Nat) (its : List Nat)
    (reader : Nat → List Nat → Option (Table β)) : Option (List Nat × Dict String (List (Option β))) :=
  let it := sortedSet its
  let todo : Option (List (Nat × List Nat)) :=
    match restart with
    | some r =>
      match cats.find? (fun c => c.num == r) with
      | none => none                               -- KeyError
      | some c => some [(r, itToDoExplicit usechk c it)]
    | none => some (itToDo usechk cats it)
  match todo with
  | none => none
  | some todo =>
    match mapOpt (fun rl => (reader rl.1 rl.2).map fun T => (rl.1, T)) (todo.filter fun rl => !rl.2.isEmpty) with
    | none => none
    | some datar => flattenTables datar it

/-- the (iteration, restart) pairs in the order of the returned rows -/
def rowsOf (usechk : Bool) (cats : List Cat) (its : List Nat) : List (Nat × Nat) :=
  (sortedSet its).filterMap fun it => (pick usechk cats it).map fun r => (it, r)

end AurelVerif.Restarts
