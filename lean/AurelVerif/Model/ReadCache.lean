/-
Model/ReadCache.lean — hand-written, executable, Mathlib-free model of the
per-iteration read cache of `reading.py` (as the code is NOW):

  read_ET_data, `split_per_it=True` branch     (cache read, its_missing, union of
                                               the missing iterations per variable,
                                               fill by nearest 'it', save_data)
  read_aurel_data on `…/all_iterations/`        (`readCache`)
  save_data(param, data_temp, it=…, vars=[av])  (`saveData`: position of each
                                               iteration inside data['it'])

The Einstein Toolkit files are an abstract source `src : DKey → β`: the block
(or time) that an uncached read (`read_ET_variables`, property C11) returns for
a variable/time, iteration, level and restart.  The cache is a dictionary
`DKey ↦ β`: file `output-<restart>/<sim>/all_iterations/it_<it>.hdf5`, dataset
`<name> rl=<rl>`.  A file exists iff it has a dataset, and a missing file and
a missing dataset both read as `None`, so the dictionary is the whole state.
Python exceptions (`list.index` ValueError, list index out of range) are `none`.

Model/ReadCacheX.lean extends this model to one whole `read_data` call (`vars=[]`,
`usecheckpoints`, a persistent catalogue with changing `skip_last`, restarts that lack
variables, calls that raise half-way); it calls `stepComp`, `readCache`, `initMissing`
of this file for every component a restart holds.  Two things of this file follow the
code as it was before /repo e8cb585 and are superseded there: every catalogued restart
is assumed to hold every requested component, and a call that finds nothing to read is
`none` here (`readData`: "IndexError") whereas the code now returns `{}` (`readDataX`:
`some []`).  The driver compares the two models on every call of the common domain.
-/
import AurelVerif.Model.Chunks
namespace AurelVerif.ReadCache
open AurelVerif.Chunks

/-- dataset names of a cache file: a scalar variable (numbered), `t`, `it` -/
inductive DName
  | var (v : Nat)
  | t
  | it
deriving DecidableEq, Repr

structure DKey where
  restart : Nat
  it : Nat
  name : DName
  rl : Nat
deriving DecidableEq, Repr

abbrev Store (β : Type) := Dict DKey β

/-- `datar[restart]` (one column per name, aligned with the iterations of the
restart), `its_missing`, and the cache -/
structure State (β : Type) where
  col : Dict DName (List (Option β))
  missing : Dict DName (List Nat)
  store : Store β

def getCol (c : Dict DName (List (Option β))) (n : DName) : List (Option β) := (c.get? n).getD []
def getMiss (m : Dict DName (List Nat)) (n : DName) : List Nat := (m.get? n).getD []

/-- `read_aurel_data(param, it=its, vars=names, rl, restart)` -/
def readCache (store : Store β) (R rl : Nat) (its : List Nat) (names : List DName) :
    Dict DName (List (Option β)) :=
  names.foldl (fun d n => d.set n (its.map fun i => store.get? ⟨R, i, n, rl⟩)) []

/-- `its_missing[av]`: iterations whose cached entry is None; `list(set(..))`, `np.sort` -/
def missingOf (its : List Nat) (col : List (Option β)) : List Nat :=
  sortNat ((its.zip col).filterMap fun p => if p.2.isNone then some p.1 else none).eraseDups

def initMissing (its : List Nat) (cols : Dict DName (List (Option β))) (names : List DName) :
    Dict DName (List Nat) :=
  names.foldl (fun d n => d.set n (missingOf its (getCol cols n))) []

def absDiff (a b : Nat) : Nat := if a ≤ b then b - a else a - b

/-- scan of `np.argmin`: rest, index of its head, best index, best value -/
def argminFrom (x : Nat) : List Nat → Nat → Nat → Nat → Nat
  | [], _, bi, _ => bi
  | y :: ys, i, bi, bd =>
    if absDiff y x < bd then argminFrom x ys (i + 1) i (absDiff y x) else argminFrom x ys (i + 1) bi bd

/-- `np.argmin(np.abs(l - x))`: the first index of the minimum -/
def nearestIdx (l : List Nat) (x : Nat) : Nat :=
  match l with
  | [] => 0
  | y :: ys => argminFrom x ys 1 0 (absDiff y x)

/-- `l.index(x)` -/
def indexOf? (x : Nat) : List Nat → Option Nat
  | [] => none
  | y :: ys => if y = x then some 0 else (indexOf? x ys).map (· + 1)

/-- `data_temp[n]` of `read_ET_variables(param, [v], …, it=tmpIts)` -/
def fetch (src : DKey → β) (R rl : Nat) (tmpIts : List Nat) (n : DName) : List β :=
  tmpIts.map fun i => src ⟨R, i, n, rl⟩

/-- `save_data(param, data_temp, it=itsSave, vars=[av], rl=rl, restart=R)`:
for each iteration (sorted set) the position in `data_temp['it']`, then the
datasets `av`, `it`, `t` of that position are (over)written. -/
def saveData (ofIt : Nat → β) (store : Store β) (R rl : Nat) (tmpIts : List Nat) (tmp : DName → List β)
    (av : DName) (itsSave : List Nat) : Option (Store β) :=
  (sortNat itsSave.eraseDups).foldlM (fun st iit =>
    match indexOf? iit tmpIts with
    | none => none
    | some idx =>
      match (tmp av)[idx]?, tmpIts[idx]?, (tmp DName.t)[idx]? with
      | some x, some i, some tt =>
        some (((st.set ⟨R, iit, av, rl⟩ x).set ⟨R, iit, DName.it, rl⟩ (ofIt i)).set ⟨R, iit, DName.t, rl⟩ tt)
      | _, _, _ => none) store

/-- the loop `for iidx, iit in enumerate(it): if iit in its_missing[av]: datar[..][av][iidx] = data_temp[av][argmin]` -/
def fillCol (its : List Nat) (col : List (Option β)) (miss : List Nat) (tmpIts : List Nat) (dt : List β) :
    List (Option β) :=
  (its.zip col).map fun p => if p.1 ∈ miss then dt[nearestIdx tmpIts p.1]? else p.2

/-- body of `for av in avart:` -/
def stepComp (src : DKey → β) (ofIt : Nat → β) (R rl : Nat) (its tmpIts : List Nat) (st : State β)
    (av : DName) : Option (State β) :=
  let dt := fetch src R rl tmpIts
  let miss := getMiss st.missing av
  let col' := fillCol its (getCol st.col av) miss tmpIts (dt av)
  -- `its_missing[av].remove(iit)` for the filled iterations when av == 't'
  let miss' := if av = DName.t then miss.filter (fun i => !(its.contains i)) else miss
  match (if miss' = [] then some st.store else saveData ofIt st.store R rl tmpIts dt av miss') with
  | none => none
  | some store' => some { col := st.col.set av col', missing := st.missing.set av miss', store := store' }

/-- body of `for v in var:` (`v` = the scalar components of one requested name) -/
def stepVar (src : DKey → β) (ofIt : Nat → β) (R rl : Nat) (its : List Nat) (st : State β) (v : List Nat) :
    Option (State β) :=
  let comps := v.map DName.var
  let itsTemp := (comps.flatMap fun av => getMiss st.missing av).eraseDups
  if itsTemp = [] then some st
  else (comps ++ [DName.t]).foldlM (stepComp src ofIt R rl its (sortNat itsTemp)) st

/-- one restart of `read_ET_data(..., split_per_it=True)`; `req` = the requested
names, each as the list of its scalar components; `grouped` = some file holds
more than one variable -/
def readRestart (src : DKey → β) (ofIt : Nat → β) (grouped : Bool) (req : List (List Nat)) (store : Store β)
    (R rl : Nat) (its : List Nat) : Option (Dict DName (List (Option β)) × Store β) :=
  let names := req.flatten.map DName.var ++ [DName.t]
  let cols := readCache store R rl its names
  let st0 : State β := { col := cols, missing := initMissing its cols names, store := store }
  let vlist := if grouped then req else req.flatten.map fun c => [c]
  match vlist.foldlM (stepVar src ofIt R rl its) st0 with
  | none => none
  | some st => some (st.col, st.store)

/-- `split_per_it=False`: everything from the source -/
def readDirect (src : DKey → β) (req : List (List Nat)) (R rl : Nat) (its : List Nat) :
    Dict DName (List (Option β)) :=
  (req.flatten.map DName.var ++ [DName.t]).foldl
    (fun d n => d.set n (its.map fun i => some (src ⟨R, i, n, rl⟩))) []

/-- one row of the result: iteration, restart it was read from, value per name -/
abbrev Row (β : Type) := Nat × Nat × List (DName × Option β)

/-- the loop over the restarts (the cache threads through) -/
def readAll (src : DKey → β) (ofIt : Nat → β) (grouped split : Bool) (req : List (List Nat)) (rl : Nat) :
    List (Nat × List Nat) → Store β → Option (List (Nat × List Nat × Dict DName (List (Option β))) × Store β)
  | [], store => some ([], store)
  | (R, todo) :: rest, store =>
    if todo = [] then readAll src ofIt grouped split req rl rest store
    else
      match (if split then readRestart src ofIt grouped req store R rl todo
             else some (readDirect src req R rl todo, store)) with
      | none => none
      | some (cols, store') =>
        match readAll src ofIt grouped split req rl rest store' with
        | none => none
        | some (out, store'') => some ((R, todo, cols) :: out, store'')

/-- the final flattening: `for iit in old_it: for restart in datar: if iit in datar[restart]['it']: …` -/
def flattenRows (its : List Nat) (datar : List (Nat × List Nat × Dict DName (List (Option β)))) :
    List (Row β) :=
  its.flatMap fun iit => datar.filterMap fun d =>
    if iit ∈ d.2.1 then
      let idx := nearestIdx d.2.1 iit
      some (iit, d.1, d.2.2.map fun c => (c.1, (c.2[idx]?).getD none))
    else none

/-- `read_data(param, it=its, vars=req, rl=rl, restart=…, split_per_it=split)`.
`restart = none` is the default `-1`. -/
def readData (src : DKey → β) (ofIt : Nat → β) (avail : List Avail) (grouped : Bool) (req : List (List Nat))
    (its : List Nat) (rl : Nat) (restart : Option Nat) (split : Bool) (store : Store β) :
    Option (List (Row β) × Store β) :=
  let sits := sortedSet its
  let todo : List (Nat × List Nat) :=
    match restart with
    | none => itToDo avail sits
    | some r => (avail.filter fun a => a.1 == r).map fun a =>
        (a.1, sits.filter fun iit => decide (a.2.1 ≤ iit ∧ iit ≤ a.2.2))
  match readAll src ofIt grouped split req rl todo store with
  | none => none
  | some ([], _) => none          -- `list(datar.keys())[0]` raises IndexError
  | some (datar, store') => some (flattenRows sits datar, store')

end AurelVerif.ReadCache
