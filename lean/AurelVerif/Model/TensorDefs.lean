/-
Model/TensorDefs.lean — literal tensors (definitions only; no attributes, so that
executable drivers can import it).
-/
namespace AurelVerif.Tensor

def vec3 {α : Type} (a b c : α) : Fin 3 → α := fun i =>
  match i with
  | ⟨0, _⟩ => a
  | ⟨1, _⟩ => b
  | ⟨_ + 2, _⟩ => c

def vec4 {α : Type} (a b c d : α) : Fin 4 → α := fun i =>
  match i with
  | ⟨0, _⟩ => a
  | ⟨1, _⟩ => b
  | ⟨2, _⟩ => c
  | ⟨_ + 3, _⟩ => d

end AurelVerif.Tensor
