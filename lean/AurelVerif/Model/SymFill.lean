/-
Model/SymFill.lean — hand-written, executable, Mathlib-free interpreter of the
index-fill loops of `coresymbolic.py` (class `AurelCoreSymbolic`).

Every tensor method of the symbolic core has the same shape:

    A    = sp.MutableDenseNDimArray([0]*(dim**r), (dim,)*r)     -- zeros
    done = np.zeros((dim,)*r)
    for i ...: for j ...:                      -- nest of `range(self.dim)` loops
        if i == j: done[i,j,:,:] = 1; pass     -- skip conditions
        else: ...
            if not done[i,j,k,h]:
                Rijkh = <formula line at (i,j,k,h)>
                A[i,j,k,h] =  Rijkh ; A[i,j,h,k] = -Rijkh ; ...   -- partners
                done[i,j,k,h] = 1 ; done[i,j,h,k] = 1 ; ...

The *loop structure* (nest order, skips, `done` tests and marks, partner
assignments with their signs) is extracted from the AST by
`tools/py2lean/symformulas.py` into `Gen/SymLoops.lean` as a value of `Prog`
below; this file says what such a program *does*.  The formula line is an
abstract component oracle `T : List Nat → V` ("the value the formula line
computes at these indices").  The interpreter is polymorphic in the value
type `V`: the only operations the Python loops perform on values are "store
0", "negate" and "copy", collected in `Ops V`.

On `V = SVal` (a signed index tuple, or zero) the result *is* the symbolic
description of every stored component; `Lemmas/SymFill.lean` proves that the
result for any other `V` is its image (`fill_natural`).

Also here (all executable, used by the driver and by `decide`):
  * `SymGen`, `closure`, `okAt`, `checkProg` — the finite check "position `p`
    holds a signed oracle value that the declared index symmetries identify
    with `T p`";
  * `Method`, `Branch`, `request` — the `__getitem__` cache with the
    `"Riemann_uddd" in self.data` branch selection.
-/
namespace AurelVerif.SymFill

/-- an index expression: loop-variable numbers (positions in the environment) -/
abbrev Ix := List Nat

/-- statements of the fill loops -/
inductive Stmt where
  | skip                                      -- `pass`
  | seq (a b : Stmt)
  | loop (v : Nat) (body : Stmt)              -- `for v in range(self.dim): body`
  | ifEq (a b : Nat) (thn els : Stmt)         -- `if a == b: thn else: els`
  | ifNotDone (ix : Ix) (body : Stmt)         -- `if not done[ix]: body`
  | mark (ix : List (Option Nat))             -- `done[ix] = 1`, `none` is a `:` slice
  | compute (ix : Ix)                         -- `val = <formula line>`; the oracle is asked at `ix`
  | load (ix : Ix)                            -- `val = A[ix]`
  | store (ix : Ix) (neg : Bool)              -- `A[ix] = val` / `A[ix] = - val`
  | copy (dst src : Ix)                       -- `A[dst] = A[src]`
  deriving Repr, Inhabited

/-- one method branch: array rank, number of loop variables, body -/
structure Prog where
  rank : Nat
  nvars : Nat
  body : Stmt
  deriving Repr, Inhabited

/-- what the loops do with values -/
structure Ops (V : Type) where
  zero : V
  neg : V → V

structure St (V : Type) where
  env : List Nat
  arr : List V
  done : List Bool
  val : V

/-- C-order flat position of an index tuple in a `(n,)*r` array -/
def flat (n : Nat) (ix : List Nat) : Nat := ix.foldl (fun a x => a * n + x) 0

def lookupVar (env : List Nat) (v : Nat) : Nat := env.getD v 0

def evalIx (env : List Nat) (ix : Ix) : List Nat := ix.map (lookupVar env)

/-- all index tuples selected by an index with `:` slices -/
def expandIx (n : Nat) (env : List Nat) : List (Option Nat) → List (List Nat)
  | [] => [[]]
  | some v :: rest => (expandIx n env rest).map (fun t => lookupVar env v :: t)
  | none :: rest => (List.range n).flatMap (fun x => (expandIx n env rest).map (fun t => x :: t))

def exec {V : Type} (n : Nat) (ops : Ops V) (T : List Nat → V) : Stmt → St V → St V
  | .skip, s => s
  | .seq a b, s => exec n ops T b (exec n ops T a s)
  | .loop v body, s =>
      (List.range n).foldl (fun s x => exec n ops T body { s with env := s.env.set v x }) s
  | .ifEq a b thn els, s =>
      if lookupVar s.env a = lookupVar s.env b then exec n ops T thn s else exec n ops T els s
  | .ifNotDone ix body, s =>
      if s.done.getD (flat n (evalIx s.env ix)) false then s else exec n ops T body s
  | .mark ix, s =>
      { s with done := (expandIx n s.env ix).foldl (fun d t => d.set (flat n t) true) s.done }
  | .compute ix, s => { s with val := T (evalIx s.env ix) }
  | .load ix, s => { s with val := s.arr.getD (flat n (evalIx s.env ix)) ops.zero }
  | .store ix neg, s =>
      { s with arr := s.arr.set (flat n (evalIx s.env ix)) (if neg then ops.neg s.val else s.val) }
  | .copy dst src, s =>
      { s with arr := s.arr.set (flat n (evalIx s.env dst))
                        (s.arr.getD (flat n (evalIx s.env src)) ops.zero) }

def initSt {V : Type} (n : Nat) (ops : Ops V) (p : Prog) : St V :=
  { env := List.replicate p.nvars 0,
    arr := List.replicate (n ^ p.rank) ops.zero,
    done := List.replicate (n ^ p.rank) false,
    val := ops.zero }

/-- the array a method branch returns, flat in C order -/
def fill {V : Type} (n : Nat) (ops : Ops V) (T : List Nat → V) (p : Prog) : List V :=
  (exec n ops T p.body (initSt n ops p)).arr

/-- component `ix` of the returned array -/
def fillAt {V : Type} (n : Nat) (ops : Ops V) (T : List Nat → V) (p : Prog) (ix : List Nat) : V :=
  (fill n ops T p).getD (flat n ix) ops.zero

/-! ### The symbolic value domain -/

/-- zero, or `± T ix` -/
inductive SVal where
  | zero
  | val (neg : Bool) (ix : List Nat)
  deriving DecidableEq, Repr, Inhabited

def SVal.negate : SVal → SVal
  | .zero => .zero
  | .val s ix => .val (!s) ix

def symOps : Ops SVal := ⟨.zero, SVal.negate⟩

def symT (ix : List Nat) : SVal := .val false ix

/-- interpretation of a symbolic value for a concrete oracle -/
def SVal.eval {V : Type} (ops : Ops V) (T : List Nat → V) : SVal → V
  | .zero => ops.zero
  | .val false ix => T ix
  | .val true ix => ops.neg (T ix)

/-- the symbolic description of the returned array -/
def symFill (n : Nat) (p : Prog) : List SVal := fill n symOps symT p

/-! ### Index symmetries and the finite check -/

/-- a generator of the symmetry group of a tensor: the component at the
permuted index tuple `perm.map ix[·]` equals `±` the component at `ix` -/
structure SymGen where
  perm : List Nat
  neg : Bool
  deriving Repr, DecidableEq

def SymGen.act (g : SymGen) (ix : List Nat) : List Nat := g.perm.map (fun p => ix.getD p 0)

def SymGen.wf (r : Nat) (g : SymGen) : Bool := g.perm.length == r && g.perm.all (· < r)

def SymGen.applyS (g : SymGen) : SVal → SVal
  | .zero => .zero
  | .val s ix => .val (s != g.neg) (g.act ix)

/-- one closure step: everything reached so far plus its images under the generators -/
def closeStep (gens : List SymGen) (l : List SVal) : List SVal :=
  l ++ l.flatMap (fun v => gens.map (fun g => g.applyS v))

def closure (gens : List SymGen) : Nat → List SVal → List SVal
  | 0, l => l
  | k + 1, l => closure gens k (closeStep gens l)

/-- number of closure rounds (the groups at hand have at most 8 elements,
every element is a word of length ≤ 3 in the generators used) -/
def closureFuel : Nat := 3

/-- "the stored symbolic value `v` is identified with `T ix` by the symmetries":
either `v = ± T jx` is in the signed orbit of `+T ix`, or `v = 0` and the
orbit contains `- T ix` (so `T ix = - T ix = 0`). -/
def okAt (gens : List SymGen) (v : SVal) (ix : List Nat) : Bool :=
  let cl := closure gens closureFuel [SVal.val false ix]
  match v with
  | .zero => cl.contains (SVal.val true ix)
  | w => cl.contains w

/-- all index tuples of a `(n,)*r` array, in C order -/
def allIx (n : Nat) : Nat → List (List Nat)
  | 0 => [[]]
  | r + 1 => (List.range n).flatMap (fun x => (allIx n r).map (fun t => x :: t))

/-- the decidable statement behind `fill_is_identity` -/
def checkProg (n : Nat) (p : Prog) (gens : List SymGen) : Bool :=
  gens.all (SymGen.wf p.rank) &&
  (let a := symFill n p
   (allIx n p.rank).all (fun ix => okAt gens (a.getD (flat n ix) SVal.zero) ix))

/-! ### The `__getitem__` cache and the branch selection -/

/-- one alternative of a method: `guard = some (b, k)` means the branch is
taken when `(k in self.data) = b`; `deps` = the keys looked up through
`self[...]`, in order of first textual occurrence; `prog` = its fill loops
(`none` for scalars and for the quantities delegated to sympy). -/
structure Branch where
  name : String
  guard : Option (Bool × String)
  deps : List String
  prog : Option Prog
  deriving Repr, Inhabited

structure Method where
  key : String
  branches : List Branch
  deriving Repr, Inhabited

def Branch.enabled (b : Branch) (cache : List String) : Bool :=
  match b.guard with
  | none => true
  | some (pos, k) => cache.contains k == pos

def selectBranch (m : Method) (cache : List String) : Option Branch :=
  m.branches.find? (fun b => b.enabled cache)

/-- `self[key]`: cached ⇒ nothing happens; otherwise the branch is selected
*on entry* of the method, its dependencies are requested in order, and the key
is inserted when the method returns.  The log lists `(key, branch)` in order of
completion = insertion order of `self.data`.  `fuel` bounds the recursion
depth (the dependency graph is acyclic; 16 > number of keys). -/
def request (tbl : List Method) : Nat → String → List String × List (String × String) →
    List String × List (String × String)
  | 0, _, st => st
  | fuel + 1, key, (cache, log) =>
    if cache.contains key then (cache, log) else
    match tbl.find? (fun m => m.key == key) with
    | none => (cache, log)
    | some m =>
      match selectBranch m cache with
      | none => (cache, log)
      | some b =>
        let (cache', log') := b.deps.foldl (fun st d => request tbl fuel d st) (cache, log)
        (cache' ++ [key], log' ++ [(key, b.name)])

def requestAll (tbl : List Method) (init : List String) (keys : List String) :
    List String × List (String × String) :=
  keys.foldl (fun st k => request tbl 16 k st) (init, [])

end AurelVerif.SymFill
