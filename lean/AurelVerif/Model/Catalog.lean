/-
Model/Catalog.lean — hand-written, executable, Mathlib-free model of the
catalogue and name-parsing code of `reading.py`:

  rx_key / parse_hdf5_key, rx_h5file / rx_checkpoint / parse_h5file   (465-591)
  transform_vars_ET_to_aurel_groups                                    (420-440)
  iterations()                                                         (772-1071)
  read_iterations()                                                    (1073-1182)
  collect_overall_iterations()                                         (1184-1333)
  get_content()                                                        (1335-1520)
(line numbers of /repo 9f9bdbc; `iterations()` as of the fixes efae800 — the
catalogue of a level is the SET of iterations of all its keys — and 9f9bdbc —
the keys of the variable considered are selected by their parsed name;
the `.par` parser of `parameters()` is in Model/ParFile.lean)

Strings are `List Char` (`Str`).  Python semantics modelled literally:
`str.split(sep)`, `sub in s`, `int(s)`, `repr(str)`, `str(list)`,
`f'{n:04d}'`, universal-newline text reading, dict = association list in
insertion order, exceptions = `Except Err`.  Directory listings arrive in the
order the OS returns them (`files` of a restart is `os.listdir` order, which
is the order `glob.glob` yields); the iteration order of a Python `set` of
variable names is an input (`hashOrder`).

Not modelled: non-ASCII digits accepted by `int()`/`\d`; `repr` of
non-printable code points above U+00FF; unreadable HDF5 files (OSError branch)
(the simulation path is `glob.escape`d in the code, so the listings are literal); JSON text of
`content.txt` is printed (`jsonDump`) but loading it back is taken to be the
inverse of dumping (the cache state is the dumped dictionary).
-/
namespace AurelVerif.Catalog

abbrev Str := List Char

inductive Err
  | nameError | typeError | valueError | indexError | importError | keyError
deriving DecidableEq, Repr

/-! ## 1. Python string primitives -/

def consHead (c : Char) : List Str → List Str
  | [] => [[c]]
  | p :: ps => (c :: p) :: ps

/-- `s.split(sep)` for non-empty `sep`: leftmost non-overlapping occurrences.
`k` = number of separator characters still to be skipped. -/
def splitGo (sep : Str) : Str → Nat → List Str
  | [], _ => [[]]
  | _ :: cs, k + 1 => splitGo sep cs k
  | c :: cs, 0 =>
    if sep.isPrefixOf (c :: cs) then [] :: splitGo sep cs (sep.length - 1)
    else consHead c (splitGo sep cs 0)

def split (sep s : Str) : List Str := splitGo sep s 0

/-- `m in s` -/
def isInfix (m : Str) : Str → Bool
  | [] => m.isEmpty
  | c :: cs => m.isPrefixOf (c :: cs) || isInfix m cs

/-- `l[i]` raising IndexError -/
def idx (l : List α) (i : Nat) : Except Err α :=
  match l[i]? with
  | some a => .ok a
  | none => .error .indexError

/-- characters `str.strip()`, `int()` and regex `\s` treat as white space -/
def isWs (c : Char) : Bool :=
  let n := c.toNat
  (9 ≤ n && n ≤ 13) || (28 ≤ n && n ≤ 32) || n == 0x85 || n == 0xa0 || n == 0x1680
  || (0x2000 ≤ n && n ≤ 0x200a) || n == 0x2028 || n == 0x2029 || n == 0x202f
  || n == 0x205f || n == 0x3000

def isDig (c : Char) : Bool := 48 ≤ c.toNat && c.toNat ≤ 57

def strip (s : Str) : Str := ((s.dropWhile isWs).reverse.dropWhile isWs).reverse

def digitChar (n : Nat) : Char := Char.ofNat (48 + n % 10)

def toDecAux : Nat → Nat → Str
  | 0, _ => []
  | f + 1, n => if n < 10 then [digitChar n] else toDecAux f (n / 10) ++ [digitChar (n % 10)]

/-- `str(n)` for a natural number -/
def toDec (n : Nat) : Str := toDecAux (n + 1) n

def intToDec (i : Int) : Str := if i < 0 then '-' :: toDec i.natAbs else toDec i.natAbs

/-- `f'{n:04d}'` -/
def pad4 (n : Nat) : Str := let s := toDec n; List.replicate (4 - s.length) '0' ++ s

/-- value of a string of ASCII digits (`none` if a non-digit occurs) -/
def digitsVal (s : Str) : Option Nat :=
  s.foldl (fun acc c => match acc with
    | some a => if isDig c then some (a * 10 + (c.toNat - 48)) else none
    | none => none) (some 0)

/-- unsigned part of `int(s)`: digit groups separated by single underscores -/
def pyNat (s : Str) : Option Nat :=
  let groups := split ['_'] s
  if groups.all (fun g => !g.isEmpty && g.all isDig) then digitsVal groups.flatten else none

/-- `int(s)`; `none` = ValueError -/
def pyInt (s : Str) : Option Int :=
  match strip s with
  | '-' :: r => (pyNat r).map fun n => -(n : Int)
  | '+' :: r => (pyNat r).map fun n => (n : Int)
  | r => (pyNat r).map fun n => (n : Int)

def pyIntE (s : Str) : Except Err Int :=
  match pyInt s with
  | some i => .ok i
  | none => .error .valueError

def hexDigit (n : Nat) : Char := if n < 10 then Char.ofNat (48 + n) else Char.ofNat (87 + n)

def hex2 (n : Nat) : Str := [hexDigit (n / 16 % 16), hexDigit (n % 16)]
def hex4 (n : Nat) : Str := hex2 (n / 256) ++ hex2 (n % 256)

/-- `repr(s)` of a Python `str` -/
def pyRepr (s : Str) : Str :=
  let q : Char := if s.contains '\'' && !s.contains '"' then '"' else '\''
  let esc (c : Char) : Str :=
    let n := c.toNat
    if c == q || c == '\\' then ['\\', c]
    else if c == '\n' then ['\\', 'n'] else if c == '\r' then ['\\', 'r']
    else if c == '\t' then ['\\', 't']
    else if n < 32 || n == 127 || (128 ≤ n && n ≤ 160) || n == 173 then ['\\', 'x'] ++ hex2 n
    else [c]
  [q] ++ (s.map esc).flatten ++ [q]

/-- `sep.join(l)` -/
def joinSep (sep : Str) : List Str → Str
  | [] => []
  | [x] => x
  | x :: y :: r => x ++ sep ++ joinSep sep (y :: r)

/-- `str(l)` for a list of `str` -/
def pyStrList (l : List Str) : Str :=
  ['['] ++ joinSep [',', ' '] (l.map pyRepr) ++ [']']

/-- `str(l)` for a list of naturals -/
def pyNatList (l : List Nat) : Str :=
  ['['] ++ joinSep [',', ' '] (l.map toDec) ++ [']']

/-- text-mode reading: `\r\n` and `\r` become `\n` -/
def universalNl : Str → Str
  | [] => []
  | '\r' :: '\n' :: cs => '\n' :: universalNl cs
  | '\r' :: cs => '\n' :: universalNl cs
  | c :: cs => c :: universalNl cs

/-- code-point lexicographic `a <= b` (Python `str` comparison) -/
def strLe : Str → Str → Bool
  | [], _ => true
  | _ :: _, [] => false
  | a :: as, b :: bs => if a.toNat < b.toNat then true else if b.toNat < a.toNat then false else strLe as bs

def insertBy (le : α → α → Bool) (x : α) : List α → List α
  | [] => [x]
  | y :: ys => if le x y then x :: y :: ys else y :: insertBy le x ys

/-- `sorted(l)` -/
def isort (le : α → α → Bool) (l : List α) : List α := l.foldr (insertBy le) []

def sortNat (l : List Nat) : List Nat := isort (fun a b => decide (a ≤ b)) l
def sortStr (l : List Str) : List Str := isort strLe l

def dedup [BEq α] (l : List α) : List α :=
  l.foldl (fun acc x => if acc.contains x then acc else acc ++ [x]) []

/-! ## 2. Dictionaries (association lists, insertion order) -/

def dget [BEq κ] (d : List (κ × ν)) (k : κ) : Option ν := (d.find? fun kv => kv.1 == k).map (·.2)

def dhas [BEq κ] (d : List (κ × ν)) (k : κ) : Bool := d.any fun kv => kv.1 == k

/-- `d[k] = v`: an existing key keeps its position -/
def dset [BEq κ] (d : List (κ × ν)) (k : κ) (v : ν) : List (κ × ν) :=
  if dhas d k then d.map fun kv => if kv.1 == k then (k, v) else kv else d ++ [(k, v)]

/-! ## 3. Regular expressions (hand-written matchers) -/

structure KeyInfo where
  thorn : Str
  var : Str
  it : Nat
  tl : Nat
  m : Bool
  rl : Option Nat
  c : Option Nat
deriving DecidableEq, Repr

/-- longest non-empty prefix of characters satisfying `p`, and the rest -/
def takeRun (p : Char → Bool) (s : Str) : Option (Str × Str) :=
  match s.takeWhile p with
  | [] => none
  | a => some (a, s.dropWhile p)

/-- strip the literal `lit` from the front of `s` -/
def dropLit (lit s : Str) : Option Str :=
  if lit.isPrefixOf s then some (s.drop lit.length) else none

/-- optional group ` <tag>=(\d+)` -/
def optNum (lit s : Str) : Option Nat × Str :=
  match dropLit lit s with
  | some r =>
    match takeRun isDig r with
    | some (d, r') => ((digitsVal d), r')
    | none => (none, s)
  | none => (none, s)

/-- `rx_key.match(key)`:
`([^:]+)::(\S+) it=(\d+) tl=(\d+)( m=0)?( rl=(\d+))?( c=(\d+))?`.
Every greedy run is followed by a character outside its class (or by
optional groups only), so backtracking never changes the outcome and the
match is the chain of longest runs. -/
def parseKey (key : Str) : Option KeyInfo := do
  let (thorn, r) ← takeRun (fun c => c != ':') key
  let r ← dropLit [':', ':'] r
  let (var, r) ← takeRun (fun c => !isWs c) r
  let r ← dropLit [' ', 'i', 't', '='] r
  let (itd, r) ← takeRun isDig r
  let r ← dropLit [' ', 't', 'l', '='] r
  let (tld, r) ← takeRun isDig r
  let it ← digitsVal itd
  let tl ← digitsVal tld
  let (m, r) := match dropLit [' ', 'm', '=', '0'] r with
    | some r' => (true, r')
    | none => (false, r)
  let (rl, r) := optNum [' ', 'r', 'l', '='] r
  let (c, _) := optNum [' ', 'c', '='] r
  pure { thorn := thorn, var := var, it := it, tl := tl, m := m, rl := rl, c := c }

structure FileInfo where
  thorn : Option Str
  varOrGroup : Str
  xyzPrefix : Bool
  chunk : Option Nat
  xyzSuffix : Bool
deriving DecidableEq, Repr

inductive H5Name
  | checkpoint (it : Nat) (chunk : Option Nat)
  | data (f : FileInfo)
deriving DecidableEq, Repr

def isWord (c : Char) : Bool :=
  let n := c.toNat
  (48 ≤ n && n ≤ 57) || (65 ≤ n && n ≤ 90) || (97 ≤ n && n ≤ 122) || c == '_'

def isVarCh (c : Char) : Bool := isWord c || c == '[' || c == ']'

/-- regex `.`: any character except a newline -/
def isDot (c : Char) : Bool := c != '\n'

/-- `.lit` at the front of `s` (first character arbitrary, not a newline) -/
def dropDotLit (lit s : Str) : Option Str :=
  match s with
  | c :: r => if isDot c then dropLit lit r else none
  | [] => none

/-- `.h5$`: `$` also matches just before a final newline -/
def endH5 (s : Str) : Bool :=
  match s with
  | [c, 'h', '5'] => isDot c
  | [c, 'h', '5', '\n'] => isDot c
  | _ => false

/-- first success, in priority order -/
def firstSome (l : List (Unit → Option β)) : Option β :=
  match l with
  | [] => none
  | f :: fs => match f () with
    | some b => some b
    | none => firstSome fs

/-- all ways of splitting off a non-empty prefix of the longest run of `p`,
longest first (greedy `+` with backtracking) -/
def runSplits (p : Char → Bool) (s : Str) : List (Str × Str) :=
  let n := (s.takeWhile p).length
  (List.range n).map fun i => (s.take (n - i), s.drop (n - i))

/-- `(.xyz)?.h5$` — optional group tried "taken" first, then "skipped" -/
def h5After2 (x1 : Bool) (ch : Option Nat) (s : Str) : Option (Bool × Option Nat × Bool) :=
  firstSome [
    (fun _ => match dropDotLit ['x', 'y', 'z'] s with
      | some r => if endH5 r then some (x1, ch, true) else none
      | none => none),
    (fun _ => if endH5 s then some (x1, ch, false) else none)]

/-- `(.file_(\d+))?(.xyz)?.h5$` -/
def h5After1 (x1 : Bool) (s : Str) : Option (Bool × Option Nat × Bool) :=
  firstSome [
    (fun _ => match dropDotLit ['f', 'i', 'l', 'e', '_'] s with
      | some r => firstSome ((runSplits isDig r).map fun dr => fun _ =>
          match digitsVal dr.1 with
          | some n => h5After2 x1 (some n) dr.2
          | none => none)
      | none => none),
    (fun _ => h5After2 x1 none s)]

/-- tail of rx_h5file after group 3: `(.xyz)?(.file_(\d+))?(.xyz)?.h5$`,
each optional group tried "taken" first, then "skipped". -/
def h5Tail (s : Str) : Option (Bool × Option Nat × Bool) :=
  firstSome [
    (fun _ => match dropDotLit ['x', 'y', 'z'] s with
      | some r => h5After1 true r
      | none => none),
    (fun _ => h5After1 false s)]

/-- `rx_h5file.match(name)`:
`^(([a-zA-Z0-9_]+)-)?([a-zA-Z0-9\[\]_]+)(.xyz)?(.file_(\d+))?(.xyz)?.h5$`
(the dots are unescaped in the source: any character).  Backtracking
enumeration in the regex engine's priority order. -/
def matchH5File (name : Str) : Option FileInfo :=
  let body (thorn : Option Str) (s : Str) : Option FileInfo :=
    firstSome ((runSplits isVarCh s).map fun vr => fun _ =>
      match h5Tail vr.2 with
      | some (x1, ch, x2) =>
        some { thorn := thorn, varOrGroup := vr.1, xyzPrefix := x1, chunk := ch, xyzSuffix := x2 }
      | none => none)
  firstSome [
    (fun _ => match takeRun isWord name with
      | some (t, '-' :: r) => body (some t) r
      | _ => none),
    (fun _ => body none name)]

/-- `rx_checkpoint.match(name)`:
`^checkpoint\.chkpt\.it_(\d+)(\.file_(\d+))?.h5$` -/
def matchCheckpoint (name : Str) : Option (Nat × Option Nat) :=
  match dropLit ['c','h','e','c','k','p','o','i','n','t','.','c','h','k','p','t','.','i','t','_'] name with
  | none => none
  | some r =>
    firstSome ((runSplits isDig r).map fun dr => fun _ =>
      match digitsVal dr.1 with
      | none => none
      | some it =>
        firstSome [
          (fun _ => match dropLit ['.', 'f', 'i', 'l', 'e', '_'] dr.2 with
            | some r2 => firstSome ((runSplits isDig r2).map fun d2 => fun _ =>
                match digitsVal d2.1 with
                | some ch => if endH5 d2.2 then some (it, some ch) else none
                | none => none)
            | none => none),
          (fun _ => if endH5 dr.2 then some (it, none) else none)])

/-- `os.path.basename` when a `/` is present, else the string itself -/
def basename (p : Str) : Str :=
  match (split ['/'] p).getLast? with
  | some b => b
  | none => p

/-- `parse_h5file(filepath)` -/
def parseH5File (filepath : Str) : Option H5Name :=
  let name := basename filepath
  match matchCheckpoint name with
  | some (it, ch) => some (.checkpoint it ch)
  | none => (matchH5File name).map .data

/-- the inverse directions (naming scheme) -/
def formatKey (k : KeyInfo) : Str :=
  k.thorn ++ [':', ':'] ++ k.var ++ [' ', 'i', 't', '='] ++ toDec k.it
    ++ [' ', 't', 'l', '='] ++ toDec k.tl
    ++ (if k.m then [' ', 'm', '=', '0'] else [])
    ++ (match k.rl with | some r => [' ', 'r', 'l', '='] ++ toDec r | none => [])
    ++ (match k.c with | some c => [' ', 'c', '='] ++ toDec c | none => [])

def formatFile (f : FileInfo) : Str :=
  (match f.thorn with | some t => t ++ ['-'] | none => [])
    ++ f.varOrGroup
    ++ (if f.xyzPrefix then ['.', 'x', 'y', 'z'] else [])
    ++ (match f.chunk with | some c => ['.', 'f', 'i', 'l', 'e', '_'] ++ toDec c | none => [])
    ++ (if f.xyzSuffix then ['.', 'x', 'y', 'z'] else [])
    ++ ['.', 'h', '5']

def formatCheckpoint (it : Nat) (chunk : Option Nat) : Str :=
  ['c','h','e','c','k','p','o','i','n','t','.','c','h','k','p','t','.','i','t','_'] ++ toDec it
    ++ (match chunk with | some c => ['.', 'f', 'i', 'l', 'e', '_'] ++ toDec c | none => [])
    ++ ['.', 'h', '5']

/-! ## 4. `x in range(int(a), int(b) + 1, int(d))` -/

/-- membership test of `collect_overall_iterations`; `range` with step 0 raises ValueError -/
def rangeMem (x a b d : Int) : Except Err Bool :=
  if d == 0 then .error .valueError
  else if d > 0 then .ok (decide (a ≤ x) && decide (x < b + 1) && (x - a) % d == 0)
  else .ok (decide (x ≤ a) && decide (b + 1 < x) && (a - x) % (-d) == 0)

/-! ## 5. The catalogue structure -/

inductive Val
  | strs (l : List Str)
  | ints (l : List Int)
deriving DecidableEq, Repr

abbrev Entries := List (Str × Val)
abbrev Cat := List (Int × Entries)

/-- result of `iterations()`: per-restart entries plus `'overall'` -/
structure Result where
  cat : Cat
  /-- `none`: the key 'overall' is absent (`read_iterations`) -/
  overall : Option (List (Str × List (List Int)))
deriving DecidableEq, Repr

/-- one line of iterations.txt -/
inductive Line
  | restart (n : Nat)
  | vars (l : List Str)
  | noData (path : Str)
  | reading (path : Str)
  | its (a b : Nat)
  | arange (rl a b d : Nat)
  | single (rl x : Nat)
  | chk (l : List Nat)
deriving DecidableEq, Repr

def mRestart : Str := [' ', '=', '=', '=', ' ', 'r', 'e', 's', 't', 'a', 'r', 't', ' ']
def mVars : Str := ['3','D',' ','v','a','r','i','a','b','l','e','s',' ','a','v','a','i','l','a','b','l','e']
def mVarsOpen : Str := mVars ++ [':', ' ', '[']
def mArrow : Str := ['-', '>']
def mRl : Str := ['r', 'l', ' ', '=', ' ']
def mArange : Str := ['a', 'r', 'a', 'n', 'g', 'e']
def mChk : Str := ['C','h','e','c','k','p','o','i','n','t','s',' ','a','v','a','i','l','a','b','l','e',' ','a','t',' ','i','t','s']
def mChkColon : Str := mChk ++ [':', ' ']
def sNoData : Str := ['C','o','u','l','d',' ','n','o','t',' ','f','i','n','d',' ','3','D',' ','d','a','t','a',' ','i','n',' ']
def sReading : Str := ['R','e','a','d','i','n','g',' ','i','t','e','r','a','t','i','o','n','s',' ','i','n',':',' ']
def sItEq : Str := ['i', 't', ' ', '=', ' ']
def sAtIt : Str := [' ', 'a', 't', ' ', 'i', 't', ' ', '=', ' ']
def sNpArange : Str := ['n', 'p', '.', 'a', 'r', 'a', 'n', 'g', 'e', '(']
def kVar : Str := ['v','a','r',' ','a','v','a','i','l','a','b','l','e']
def kIts : Str := ['i','t','s',' ','a','v','a','i','l','a','b','l','e']
def kChk : Str := ['c','h','e','c','k','p','o','i','n','t','s']

/-- the line printer (the strings `saveprint` writes) -/
def printLine : Line → Str
  | .restart n => mRestart ++ toDec n
  | .vars l => mVars ++ [':', ' '] ++ pyStrList l
  | .noData p => sNoData ++ p
  | .reading p => sReading ++ p
  | .its a b => sItEq ++ toDec a ++ [' ', '-', '>', ' '] ++ toDec b
  | .arange rl a b d => mRl ++ toDec rl ++ sAtIt ++ sNpArange ++ toDec a ++ [',', ' '] ++ toDec b
      ++ [',', ' '] ++ toDec d ++ [')']
  | .single rl x => mRl ++ toDec rl ++ sAtIt ++ ['['] ++ toDec x ++ [']']
  | .chk l => mChkColon ++ pyNatList l

/-- text written for a list of lines (`print` appends a newline) -/
def printLines (ls : List Line) : Str := (ls.map fun l => printLine l ++ ['\n']).flatten

def natsToInts (l : List Nat) : List Int := l.map fun (n : Nat) => (n : Int)

/-- the in-memory effect of the statement that accompanies each printed line
in `iterations()` (numpy integers identified with Python integers) -/
def applyLine (st : Cat × Option Int) (l : Line) : Cat × Option Int :=
  let upd (k : Str) (v : Val) : Cat × Option Int :=
    match st.2 with
    | some r => (dset st.1 r (dset ((dget st.1 r).getD []) k v), st.2)
    | none => st
  match l with
  | .restart n => (dset st.1 (n : Int) [], some (n : Int))
  | .vars l => upd kVar (.strs l)
  | .noData _ => st
  | .reading _ => st
  | .its a b => upd kIts (.ints [a, b])
  | .arange rl a b d => upd (mRl ++ toDec rl) (.ints [a, b, d])
  | .single rl x => upd (mRl ++ toDec rl) (.ints [x])
  | .chk l => upd kChk (.ints (natsToInts l))

def catOf (ls : List Line) : Cat := (ls.foldl applyLine ([], none)).1

/-! ## 6. `read_iterations` (string level) -/

/-- `its_available[restart_nbr][key] = v`; `restart_nbr` unbound = NameError -/
def setEntry (st : Cat × Option Int) (k : Str) (v : Val) : Except Err (Cat × Option Int) :=
  match st.2 with
  | some r => .ok (dset st.1 r (dset ((dget st.1 r).getD []) k v), st.2)
  | none => .error .nameError

/-- one iteration of the `for li in lines` loop -/
def stepLine (st : Cat × Option Int) (li : Str) : Except Err (Cat × Option Int) :=
  if sReading.isPrefixOf li || sNoData.isPrefixOf li then pure st   -- lines that only report a path
  else if mRestart.isPrefixOf li then do
    let n ← pyIntE (← idx (split mRestart li) 1)
    pure (dset st.1 n [], some n)
  else if isInfix mVars li then do
    let p ← idx (split mVarsOpen li) 1
    let vars ← (split [',', ' '] p).mapM fun v => idx (split ['\''] v) 1
    setEntry st kVar (.strs vars)
  else if isInfix mArrow li then do
    let a ← pyIntE (← idx (split [' '] li) 2)
    let b ← pyIntE (← idx (split [' '] li) 4)
    setEntry st kIts (.ints [a, b])
  else if isInfix mRl li then do
    let rl ← idx (split [' '] (← idx (split mRl li) 1)) 0
    let rlkey := mRl ++ rl
    if isInfix mArange li then do
      let a ← pyIntE (← idx (split [','] (← idx (split ['('] li) 1)) 0)
      let b ← pyIntE (← idx (split [',', ' '] li) 1)
      let d ← pyIntE (← idx (split [')'] (← idx (split [',', ' '] li) 2)) 0)
      setEntry st rlkey (.ints [a, b, d])
    else do
      let x ← pyIntE (← idx (split [']'] (← idx (split ['['] li) 1)) 0)
      setEntry st rlkey (.ints [x])
  else if isInfix mChk li then do
    let c ← idx (split mChkColon li) 1
    let c := c.filter fun ch => ch != '[' && ch != ']'
    if strip c == [] then setEntry st kChk (.ints [])
    else do
      let l ← (split [','] c).mapM fun t => pyIntE (strip t)
      setEntry st kChk (.ints l)
  else pure st

def foldlE (f : σ → α → Except Err σ) (s : σ) : List α → Except Err σ
  | [] => .ok s
  | a :: as => match f s a with
    | .ok s' => foldlE f s' as
    | .error e => .error e

/-- `read_iterations` on the text read from an existing iterations.txt -/
def readIterationsText (contents : Str) : Except Err Cat :=
  if contents == [] then .ok []
  else (foldlE stepLine ([], none) (split ['\n'] contents)).map (·.1)

/-- `restarts_done` of `iterations()` -/
def restartsDone (contents : Str) : Except Err (List Int) :=
  ((split ['\n'] contents).filter (fun line => mRestart.isPrefixOf line)).mapM fun line =>
    do pyIntE (← idx (split mRestart line) 1)

/-! ## 7. `collect_overall_iterations` -/

def idxI (l : List Int) (i : Nat) : Except Err Int := idx l i

/-- one restart's segment merged into `it_situation`; `mem x a b n` is the
test the code writes as `x in range(int(a), int(b) + 1, int(n))` -/
def mergeStep (mem : Int → Int → Int → Int → Except Err Bool)
    (sit : List (List Int)) (cur : List Int) : Except Err (List (List Int)) :=
  match sit.getLast? with
  | none => .ok [cur]
  | some prev =>
    let front := sit.dropLast
    if prev.length > 1 then
      if cur.length > 1 then do
        let pd ← idxI prev 2
        let cd ← idxI cur 2
        if pd == cd then do
          let c1 ← idxI cur 1
          .ok (front ++ [prev.set 1 c1])
        else .ok (sit ++ [cur])
      else do
        let x ← idxI cur 0
        let p0 ← idxI prev 0
        let p1 ← idxI prev 1
        let p2 ← idxI prev 2
        if (← mem x p0 p1 p2) then .ok sit
        else if (x - p1).natAbs == p2 then .ok (front ++ [[p0, x, p2]])
        else .ok (sit ++ [cur])
    else
      if cur.length > 1 then do
        let p0 ← idxI prev 0
        let c0 ← idxI cur 0
        let c1 ← idxI cur 1
        let c2 ← idxI cur 2
        if (← mem p0 c0 c1 c2) then .ok (front ++ [cur])
        else if (c0 - p0).natAbs == c2 then .ok (front ++ [[p0, c1, c2]])
        else .ok (sit ++ [cur])
      else do
        let p0 ← idxI prev 0
        let c0 ← idxI cur 0
        if p0 == c0 then .ok sit else .ok (sit ++ [cur])

def valInts : Val → List Int
  | .ints l => l
  | .strs l => l.map fun _ => 0   -- never a level entry

/-- the level entries `its_available[restart]['rl = <rl>']` in dict order -/
def levelSegs (cat : Cat) (rlkey : Str) : List (List Int) :=
  cat.filterMap fun re => (dget re.2 rlkey).map valInts

/-- `rlmax`: every key containing `rl = ` is parsed with `int(key.split('rl = ')[1])` -/
def rlMax (cat : Cat) : Except Err Int :=
  foldlE (fun (m : Int) (k : Str) =>
      if isInfix mRl k then do
        let r ← pyIntE (← idx (split mRl k) 1)
        pure (if r > m then r else m)
      else pure m) 0
    (cat.map fun re => re.2.map (·.1)).flatten

def overallWith (mem : Int → Int → Int → Int → Except Err Bool) (cat : Cat) :
    Except Err (List (Str × List (List Int))) := do
  let rlmax ← rlMax cat
  foldlE (fun (ov : List (Str × List (List Int))) (rl : Nat) => do
      let rlkey := mRl ++ toDec rl
      if cat.any (fun re => dhas re.2 rlkey) then do
        let sit ← foldlE (mergeStep mem) [] (levelSegs cat rlkey)
        pure (dset ov rlkey sit)
      else pure ov) [] (List.range (rlmax.toNat + 1))

/-- `collect_overall_iterations` as the code is written -/
def overall (cat : Cat) : Except Err (List (Str × List (List Int))) := overallWith rangeMem cat

/-! ## 8. Directory description, `get_content` -/

structure H5File where
  name : Str
  keys : List Str
  /-- order in which `list({...})` enumerates the variable names of this file -/
  hashOrder : List Str
deriving DecidableEq, Repr

structure RestartDir where
  nbr : Nat
  /-- directory entries in `os.listdir` order -/
  files : List H5File
deriving DecidableEq, Repr

structure Tables where
  knownGroups : List (Str × List Str)
  aurelToET : List (Str × List Str)

/-- A simulation directory: `entries` = `os.listdir(simpath + simname)` (every
entry: directories, links, plain files); `restarts` describes the content of
the directories `output-<%04d>/<simname>/` that exist. -/
structure Sim where
  simpath : Str
  simname : Str
  entries : List Str
  restarts : List RestartDir

abbrev VarsAndFiles := List (List Str × List Str)
/-- the dictionary written to content.txt (`','.join(key)` -> files) -/
abbrev ContentData := List (Str × List Str)

def restartPath (simpath simname : Str) (r : Nat) : Str :=
  simpath ++ simname ++ ['/', 'o', 'u', 't', 'p', 'u', 't', '-'] ++ pad4 r ++ ['/'] ++ simname ++ ['/']

def endsWith (suf s : Str) : Bool := suf.reverse.isPrefixOf s.reverse

/-- `glob` of `<path>*.h5`: non-hidden entries ending in `.h5` -/
def globH5 (files : List H5File) : List H5File :=
  files.filter fun f => endsWith ['.', 'h', '5'] f.name && f.name.head? != some '.'

def sChkPrefix : Str := ['c','h','e','c','k','p','o','i','n','t','.','c','h','k','p','t','.','i','t','_']
def sChkpt : Str := ['c','h','e','c','k','p','o','i','n','t','.','c','h','k','p','t']

/-- `glob` of `<path>checkpoint.chkpt.it_*.h5` -/
def globCheckpoint (files : List H5File) : List H5File :=
  files.filter fun f => sChkPrefix.isPrefixOf f.name && endsWith ['.', 'h', '5'] f.name
    && sChkPrefix.length + 3 ≤ f.name.length

/-- `list({parse_hdf5_key(k)['variable'] for k in keys if it parses})` -/
def fileVariables (f : H5File) : List Str :=
  let d := dedup (f.keys.filterMap fun k => (parseKey k).map (·.var))
  f.hashOrder.filter (fun v => d.contains v) ++ d.filter (fun v => !f.hashOrder.contains v)

def setAdd (d : List (Str × List Str)) (var file : Str) : List (Str × List Str) :=
  match dget d var with
  | some fs => if fs.contains file then d else dset d var (fs ++ [file])
  | none => d ++ [(var, [file])]

def strJoin (sep : Str) (l : List Str) : Str := joinSep sep l

/-- the scan branch of `get_content` -/
def scanContent (T : Tables) (path : Str) (files : List H5File) : VarsAndFiles :=
  let h5 := (globH5 files).filter fun f => !isInfix sChkpt (basename (path ++ f.name))
  let step (st : List (Str × List Str) × List (Str × List Str)) (f : H5File) :=
    let filepath := path ++ f.name
    match parseH5File filepath with
    | none => st
    | some (.checkpoint _ _) =>
      -- a checkpoint-shaped name has no key 'group_file': KeyError in the code;
      -- unreachable because such names contain 'checkpoint.chkpt'
      st
    | some (.data info) =>
      match info.thorn with
      | none => (setAdd st.1 info.varOrGroup filepath, st.2)
      | some t =>
        let base := t ++ ['-'] ++ info.varOrGroup
        let (varnames, processed) :=
          match dget st.2 base with
          | some vs => (vs, st.2)
          | none =>
            match dget T.knownGroups base with
            | some vs => (vs, st.2)
            | none => let vs := fileVariables f; (vs, st.2 ++ [(base, vs)])
        (varnames.foldl (fun d v => setAdd d v filepath) st.1, processed)
  let vf := (h5.foldl step ([], [])).1
  -- group variables by shared (sorted) file tuple
  let f2v : List (List Str × List Str) :=
    vf.foldl (fun d vfs =>
      let key := sortStr vfs.2
      match dget d key with
      | some vs => dset d key (vs ++ [vfs.1])
      | none => d ++ [(key, [vfs.1])]) []
  f2v.foldl (fun d kv => dset d (sortStr kv.2) kv.1) []

/-- `content_data` written by the scan branch -/
def toContentData (vf : VarsAndFiles) : ContentData :=
  vf.foldl (fun d kv => dset d (strJoin [','] kv.1) kv.2) []

/-- the cached branch: keys split at commas -/
def fromContentData (cd : ContentData) : VarsAndFiles :=
  cd.foldl (fun d kv => dset d (split [','] kv.1) kv.2) []

/-- JSON string literal as `json.dump` writes it (ensure_ascii) -/
def jsonStr (s : Str) : Str :=
  let esc (c : Char) : Str :=
    let n := c.toNat
    if c == '"' then ['\\', '"'] else if c == '\\' then ['\\', '\\']
    else if c == '\n' then ['\\', 'n'] else if c == '\r' then ['\\', 'r']
    else if c == '\t' then ['\\', 't'] else if n == 8 then ['\\', 'b'] else if n == 12 then ['\\', 'f']
    else if n < 32 || n > 126 then
      if n < 0x10000 then ['\\', 'u'] ++ hex4 n
      else
        let v := n - 0x10000
        ['\\', 'u'] ++ hex4 (0xd800 + v / 1024) ++ ['\\', 'u'] ++ hex4 (0xdc00 + v % 1024)
    else [c]
  ['"'] ++ (s.map esc).flatten ++ ['"']

/-- `json.dump(content_data, f, indent=2)` -/
def jsonDump (cd : ContentData) : Str :=
  if cd.isEmpty then ['{', '}'] else
  let item (kv : Str × List Str) : Str :=
    [' ', ' '] ++ jsonStr kv.1 ++ [':', ' '] ++
      (if kv.2.isEmpty then ['[', ']'] else
        ['[', '\n'] ++ strJoin [',', '\n'] (kv.2.map fun f => [' ', ' ', ' ', ' '] ++ jsonStr f)
          ++ ['\n', ' ', ' ', ']'])
  ['{', '\n'] ++ strJoin [',', '\n'] (cd.map item) ++ ['\n', '}']

/-- File-system state: iterations.txt and the content.txt of each restart. -/
structure FS where
  itfile : Option Str
  caches : List (Nat × ContentData)

/-- directory entries of `output-<r>/<simname>/` -/
def filesOf (S : Sim) (r : Nat) : List H5File :=
  match S.restarts.find? (fun d => d.nbr == r) with
  | some d => d.files
  | none => []

/-- `get_content(param, restart=r, overwrite=ow)` -/
def getContent (T : Tables) (S : Sim) (r : Nat) (ow : Bool) (fs : FS) : FS × VarsAndFiles :=
  let cache := if ow then none else dget fs.caches r
  match cache with
  | some cd => (fs, fromContentData cd)
  | none =>
    let vf := scanContent T (restartPath S.simpath S.simname r) (filesOf S r)
    ({ fs with caches := dset fs.caches r (toContentData vf) }, vf)

/-! ## 9. `iterations()` -/

/-- `transform_vars_ET_to_aurel_groups(vars)` -/
def transformGroups (T : Tables) (vars : List Str) : List Str :=
  let (out, rest) := T.aurelToET.foldl (fun (st : List Str × List Str) nv =>
      if nv.2.all (fun v => st.2.contains v) then
        (st.1 ++ [nv.1], nv.2.foldl (fun vs v => vs.erase v) st.2)
      else st) ([], vars)
  out ++ rest

def sNaNmask : Str := ['N', 'a', 'N', 'm', 'a', 's', 'k']

/-- output of processing one restart: the lines written (also when an
exception interrupts the processing), the loop-carried local variables
`file_to_read` / `file_for_it`, and the exception if any -/
structure Proc where
  lines : List Line
  stale : Option (Bool × Str)
  err : Option Err

def natMax (l : List Nat) : Nat := l.foldl max 0
def natMin (l : List Nat) : Nat := match l with | [] => 0 | x :: xs => xs.foldl min x

/-- the line for refinement level `rl` (`none`: no key at this level).
`allits = np.sort(list({parse_hdf5_key(k)['it'] for k in keysrl}))`: the SET of
the iterations of all keys of the level (every chunk, every selected
variable), sorted.  Nothing in this block can raise any more (the type stays
`Except Err` for `levelLines`; see `levelOne_never_raises`). -/
def levelOne (fkeys : List (Str × KeyInfo)) (rl : Nat) : Except Err (Option Line) :=
  let keysrl := fkeys.filter fun k => k.2.rl == some rl
  match keysrl with
  | [] => .ok none
  | _ :: _ =>
    let allits := sortNat (dedup (keysrl.map fun k => k.2.it))
    match allits with
    | a :: b :: _ => .ok (some (Line.arange rl (natMin allits) (natMax allits) (b - a)))
    | [x] => .ok (some (Line.single rl x))
    | [] => .ok none

/-- the per-level lines for the keys of the representative file; the lines of
the levels before a failing one are already written when the exception occurs -/
def levelLines (fkeys : List (Str × KeyInfo)) (rlmax : Nat) : List Line × Option Err :=
  (List.range (rlmax + 1)).foldl (fun (acc : List Line × Option Err) rl =>
      match acc.2 with
      | some _ => acc
      | none =>
        match levelOne fkeys rl with
        | .error e => (acc.1, some e)
        | .ok none => acc
        | .ok (some l) => (acc.1 ++ [l], none)) ([], none)

/-- the keys of `vars_and_files` tried as representative, in order -/
def candidates (vf : VarsAndFiles) : List (List Str) :=
  let singles := (vf.map (·.1)).filter fun k => k.length == 1
  if singles == [] then vf.map (·.1) else singles.filter fun k => !k.contains sNaNmask

/-- `(file_to_read, file_for_it)` after the search loop (all files are
readable): the first candidate's first file, or whatever the previous loop
iteration left in these local variables -/
def foundFile (vf : VarsAndFiles) (stale : Option (Bool × Str)) : Except Err (Option (Bool × Str)) :=
  match candidates vf with
  | k :: _ => match (dget vf k).bind (·.head?) with
    | some f => .ok (some (true, f))
    | none => .error .indexError
  | [] => .ok stale

/-- keys of every file of the simulation by full path -/
def allFiles (S : Sim) : List (Str × List Str) :=
  (S.restarts.map fun d =>
    d.files.map fun h => (restartPath S.simpath S.simname d.nbr ++ h.name, h.keys)).flatten

/-- `parse_hdf5_key(k) is not None and parse_hdf5_key(k)['variable'] == varkey` -/
def isVarKey (varkey : Str) (k : Str) : Bool :=
  match parseKey k with
  | some i => i.var == varkey
  | none => false

/-- `if file_to_read:` … : the lines after the variables line, and the exception if any -/
def dataCore (S : Sim) (found : Option (Bool × Str)) : List Line × Option Err :=
  match found with
  | none => ([], some .nameError)
  | some (false, _) => ([], none)
  | some (true, f) =>
    let l2 := [Line.reading f]
    match dget (allFiles S) f with
    | none => (l2, some .keyError)  -- OSError: file vanished
    | some keys =>
      -- `varkey`: the variable of the first key that `rx_key` matches (h5py lists the keys in
      -- alphabetical order).  When no key matches (or there is none) the selection below is empty and
      -- `np.min([])` raises ValueError (`verbose=False`: `varkey` is not evaluated before).
      match keys.findSome? fun k => (parseKey k).map (·.var) with
      | none => (l2, some .valueError)
      | some varkey =>
        -- [k for k in fkeys if parse_hdf5_key(k) is not None and parse_hdf5_key(k)['variable'] == varkey]
        let fk := keys.filter (isVarKey varkey)
        -- parse_hdf5_key(k)['it'] for k in fkeys (every selected key parses: `selection_never_raises`)
        match fk.mapM fun k => (parseKey k).map fun i => (k, i) with
        | none => (l2, some .typeError)
        | some fkeys =>
          let its := fkeys.map fun k => k.2.it
          let l3 := l2 ++ [Line.its (natMin its) (natMax its)]
          if fkeys.any (fun k => k.2.rl.isNone) then (l3, some .typeError)
          else
            let rlmax := natMax (fkeys.filterMap fun k => k.2.rl)
            let ll := levelLines fkeys rlmax
            (l3 ++ ll.1, ll.2)

/-- the data part of one restart (everything before the checkpoint listing) -/
def dataLines (T : Tables) (S : Sim) (dir : RestartDir) (vf : VarsAndFiles)
    (stale : Option (Bool × Str)) : Proc :=
  let varsAvail := (vf.map (·.1)).flatten
  if varsAvail == [] then
    { lines := [.noData (restartPath S.simpath S.simname dir.nbr)], stale := stale, err := none }
  else
    let l1 := [Line.vars (transformGroups T varsAvail)]
    match foundFile vf stale with
    | .error e => { lines := l1, stale := stale, err := some e }
    | .ok fnd =>
      let c := dataCore S fnd
      { lines := l1 ++ c.1, stale := fnd, err := c.2 }

/-- checkpoint iterations of one restart -/
def checkpointIts (path : Str) (files : List H5File) : Except Err (List Nat) := do
  let cfs := (globCheckpoint files).map fun f => path ++ f.name
  let cfs := match cfs with
    | c0 :: _ => if isInfix ['.', 'f', 'i', 'l', 'e', '_'] c0 then
        cfs.filter (isInfix ['.', 'f', 'i', 'l', 'e', '_', '0', '.']) else cfs
    | [] => cfs
  let its ← cfs.mapM fun cf => do
    let a ← idx (split sChkPrefix cf) 1
    let b ← idx (split ['.'] a) 0
    let i ← pyIntE b
    if i < 0 then throw Err.valueError else pure i.toNat
  pure (dedup (sortNat its))

/-- the lines of one restart once the data part is known: checkpoint listing,
and the iteration range taken from the checkpoints when there is no 3D data -/
def finishLines (nbr : Nat) (dl : List Line) (derr : Option Err) (cp : Except Err (List Nat)) :
    List Line × Option Err :=
  let head := [Line.restart nbr]
  match derr with
  | some e => (head ++ dl, some e)
  | none =>
    match cp with
    | .error e => (head ++ dl, some e)
    | .ok cps =>
      let hasIts := dl.any fun l => match l with | .its _ _ => true | _ => false
      if hasIts then (head ++ dl ++ [.chk cps], none)
      else if cps == [] then (head ++ dl, some .valueError)
      else (head ++ dl ++ [.its (natMin cps) (natMax cps), .chk cps], none)

/-- one pass of the `for restart in all_restarts` loop -/
def processRestart (T : Tables) (S : Sim) (dir : RestartDir) (vf : VarsAndFiles)
    (stale : Option (Bool × Str)) : Proc :=
  let d := dataLines T S dir vf stale
  let f := finishLines dir.nbr d.lines d.err
    (checkpointIts (restartPath S.simpath S.simname dir.nbr) dir.files)
  { lines := f.1, stale := d.stale, err := f.2 }

def sOutput : Str := ['o', 'u', 't', 'p', 'u', 't', '-']

/-- `re.compile(r'^output-(\d+)$').match(entry)`, then `int(entry.split('-')[1])`:
the whole entry name must be `output-` followed by digits only (`$` also
accepts one final newline) -/
def matchOutput (e : Str) : Option Nat :=
  match dropLit sOutput e with
  | none => none
  | some r =>
    let d := r.takeWhile isDig
    let rest := r.dropWhile isDig
    if !d.isEmpty && (rest == [] || rest == ['\n']) then
      match (split ['-'] e)[1]? with
      | some t => (pyInt t).map Int.toNat
      | none => none
    else none

/-- `all_restarts` before sorting: the numbers of the directory entries that
match `^output-(\d+)$`, one per matching entry -/
def discover (entries : List Str) : List Nat := entries.filterMap matchOutput

/-- restarts still to be processed -/
def todo (S : Sim) (skipLast : Bool) (done : List Int) : List Nat :=
  let all := sortNat (discover S.entries)
  let all := if skipLast then all.dropLast else all
  all.filter fun r => !done.contains (r : Int)

structure LoopState where
  fs : FS
  st : Cat × Option Int
  stale : Option (Bool × Str)
  err : Option Err

/-- one pass of `for restart in all_restarts` on the whole state -/
def loopStep (T : Tables) (S : Sim) (ls : LoopState) (r : Nat) : LoopState :=
  match ls.err with
  | some _ => ls
  | none =>
    match S.restarts.find? (fun d => d.nbr == r) with
    | none => ls
    | some dir =>
      let cf := getContent T S r false ls.fs
      let p := processRestart T S dir cf.2 ls.stale
      -- ' === restart r' is written before get_content is called
      { fs := { cf.1 with itfile := some (cf.1.itfile.getD [] ++ printLines p.lines) },
        st := p.lines.foldl applyLine ls.st, stale := p.stale, err := p.err }

/-- `iterations(param, skip_last=…, verbose=False)`: new file-system state and
the returned dictionary or the exception -/
def iterationsCall (T : Tables) (S : Sim) (skipLast : Bool) (fs : FS) : FS × Except Err Result :=
  let existed := fs.itfile.isSome
  let old := fs.itfile.getD []
  let fs := { fs with itfile := some old }          -- open(..., "a+") creates the file
  let contents := universalNl old
  match (if existed then readIterationsText contents else .ok []) with
  | .error e => (fs, .error e)
  | .ok cat0 =>
    match restartsDone contents with
    | .error e => (fs, .error e)
    | .ok done =>
      let rs := todo S skipLast done
      if rs == [] && done == [] then (fs, .error .importError) else
      let final := rs.foldl (loopStep T S) { fs := fs, st := (cat0, none), stale := none, err := none }
      match final.err with
      | some e => (final.fs, .error e)
      | none =>
        match overall final.st.1 with
        | .ok ov => (final.fs, .ok { cat := final.st.1, overall := some ov })
        | .error e => (final.fs, .error e)

/-- `read_iterations(param)` (default `skip_last=True`) -/
def readIterationsCall (T : Tables) (S : Sim) (skipLast : Bool) (fs : FS) : FS × Except Err Result :=
  match fs.itfile with
  | none => iterationsCall T S skipLast fs
  | some txt =>
    match readIterationsText (universalNl txt) with
    | .ok cat => (fs, .ok { cat := cat, overall := none })
    | .error e => (fs, .error e)

end AurelVerif.Catalog
