/-
Model/LieValidate.lean — hand-written executable model of the INPUT CHECKS of
`AurelCore.Lie_beta(f, indexing, weight)` (core.py, block "# Input checks" up to the
first `if rank == 0:`), written literally after the Python code: same order of tests, the
exception raised by each failing test as an `Outcome`.  Core Lean only (no Mathlib).

A string is a `List Char`; the shape of `f` is the list `np.shape(f)`.

Python                                                   model
------------------------------------------------------   ---------------------------------
if indexing == '': rank = 0                               `ix = []`            → ok 0 0
elif ('s_' in ix or 'st_' in ix) and ix.count('_') == 1   `hasSub`, `countU`
    s_or_st, indices = ix.split('_')                      `split1`
    rank = len(indices)
    if rank > 2: raise NotImplementedError                → notImplemented
    for i in indices: if i not in 'ud': raise ValueError  → valueError
    if rank == 2 and s_or_st == 'st': NotImplementedError → notImplemented
else: raise ValueError                                    → valueError
dim = {'s': 3, 'st': 4}
for i in range(rank):                                     `checkShape`
    if np.shape(f)[i] != dim[s_or_st]: raise ValueError   IndexError (shape too short) is raised
                                                          before KeyError (prefix not in dim),
                                                          both before the comparison
-/
namespace AurelVerif.LieValidate

inductive Outcome where
  | ok (rank dim : Nat)
  | valueError
  | notImplemented
  | keyError
  | indexError
  deriving DecidableEq, Repr

/-- Python `pat in s` (substring test). -/
def hasSub (pat : List Char) : List Char → Bool
  | [] => pat.isEmpty
  | c :: cs => pat.isPrefixOf (c :: cs) || hasSub pat cs

/-- `s.count('_')`. -/
def countU (s : List Char) : Nat := s.count '_'

/-- `s.split('_')[0]`, `s.split('_')[1]` (used only when `s` has exactly one underscore). -/
def split1 (s : List Char) : List Char × List Char :=
  (s.takeWhile (fun c => c != '_'), (s.dropWhile (fun c => c != '_')).drop 1)

/-- the dictionary `dim = {'s': 3, 'st': 4}`; `none` = `KeyError`. -/
def dimOf (pre : List Char) : Option Nat :=
  if pre = ['s'] then some 3 else if pre = ['s', 't'] then some 4 else none

/-- the loop `for i in range(rank): if np.shape(f)[i] != dim[s_or_st]: raise ValueError`;
`none` = the loop finishes without raising. -/
def checkShape (dim : Option Nat) : Nat → List Nat → Option Outcome
  | 0, _ => none
  | _ + 1, [] => some .indexError
  | r + 1, n :: rest =>
    match dim with
    | none => some .keyError
    | some d => if n = d then checkShape dim r rest else some .valueError

def isUD (c : Char) : Bool := c == 'u' || c == 'd'

/-- the checks made once `indexing` has been split at its single underscore into `pre`, `post`. -/
def validateParts (pre post : List Char) (shape : List Nat) : Outcome :=
  if post.length > 2 then .notImplemented
  else if !post.all isUD then .valueError
  else if post.length == 2 && pre == ['s', 't'] then .notImplemented
  else match checkShape (dimOf pre) post.length shape with
    | some o => o
    | none => .ok post.length (if post.length = 0 then 0 else (dimOf pre).getD 0)

/-- the input checks of `Lie_beta`: `ok rank dim` when they pass (`dim = 0` when `rank = 0`). -/
def validate (ix : List Char) (shape : List Nat) : Outcome :=
  if ix = [] then .ok 0 0
  else if (hasSub ['s', '_'] ix || hasSub ['s', 't', '_'] ix) && countU ix == 1 then
    validateParts (split1 ix).1 (split1 ix).2 shape
  else .valueError

def Outcome.show : Outcome → String
  | .ok r d => s!"ok rank={r} dim={d}"
  | .valueError => "err ValueError"
  | .notImplemented => "err NotImplementedError"
  | .keyError => "err KeyError"
  | .indexError => "err IndexError"

end AurelVerif.LieValidate
