/-
Model/Grid.lean — hand-written, executable, Mathlib-free model of the grid
part of `finitedifference.py` (property C16), written after the code as it is
NOW:

  FiniteDifference.__init__      (lines 232-296)   coordinate arrays, max,
                                                   N, centre index, meshgrid,
                                                   stacked coordinate arrays,
                                                   fd_order / mask_len
  cartesian_to_spherical         (464-490)         discrete part only (which
                                                   case each point is in);
                                                   the real-valued map is in
                                                   Lemmas/Grid.lean
  cutoffmask / cutoffmask2       (510-532)
  excision / excision2           (534-607)
  AurelCore.data_shape           (core.py 111-113)

Scalars are `Rat`: the model describes the grid the parameters specify
(`min + i·d` exactly).  The relation to the IEEE evaluation
`fl(min + fl(i·d))` is checked, with the rigorous two-rounding bound, by
tools/props/C16.py.  Python index/slice semantics come from Model/Splice.lean.
-/
import AurelVerif.Model.Splice

namespace AurelVerif.Grid
open AurelVerif.Splice

/-! ### coordinate arrays -/

/-- element `i` of `min + np.arange(N) * d`. -/
def coord (min d : Rat) (i : Nat) : Rat := min + (i : Rat) * d

/-- `min + np.arange(N) * d`. -/
def coords (N : Nat) (min d : Rat) : List Rat := (List.range N).map (coord min d)

/-- `xarray[-1]`; IndexError (`none`) on an empty array (N = 0). -/
def last (l : List Rat) : Option Rat := pyGet l (-1)

def absR (q : Rat) : Rat := if q < 0 then -q else q

/-- `np.argmin` on a non-empty list given as head and tail, scanning from
index `i`: keeps the FIRST index of the minimum (strict `<` to replace). -/
def argminFrom (best : Rat) (bi : Nat) (i : Nat) : List Rat → Nat
  | [] => bi
  | v :: rest => if v < best then argminFrom v i (i + 1) rest else argminFrom best bi (i + 1) rest

/-- `np.argmin(abs(xarray))`; ValueError (`none`) on an empty array. -/
def argminAbs (l : List Rat) : Option Nat :=
  match l.map absR with
  | [] => none
  | v :: rest => some (argminFrom v 0 1 rest)

/-! ### meshgrid (indexing='ij') and pointwise maps -/

/-- `np.meshgrid(xa, ya, za, indexing='ij')`: `x[i][j][k] = xa[i]`, … -/
def meshX (xa : List α) (ny nz : Nat) : Arr3 α :=
  xa.map fun v => List.replicate ny (List.replicate nz v)
def meshY (nx : Nat) (ya : List α) (nz : Nat) : Arr3 α :=
  List.replicate nx (ya.map fun v => List.replicate nz v)
def meshZ (nx ny : Nat) (za : List α) : Arr3 α :=
  List.replicate nx (List.replicate ny za)

/-- `zipWith` for three lists (stops at the shortest). -/
def zipWith3 (g : α → β → γ → δ) : List α → List β → List γ → List δ
  | a :: as, b :: bs, c :: cs => g a b c :: zipWith3 g as bs cs
  | _, _, _ => []

/-- elementwise `g(x, y, z)` on three arrays of equal shape. -/
def pointwise3 (g : α → α → α → β) (x y z : Arr3 α) : Arr3 β :=
  zipWith3 (fun px py pz =>
    zipWith3 (fun rx ry rz => zipWith3 g rx ry rz) px py pz) x y z

/-- `A[i][j][k]` with non-negative indices. -/
def get3 (a : Arr3 α) (i j k : Nat) : Option α :=
  (a[i]?).bind fun p => (p[j]?).bind fun r => r[k]?

/-- `a.shape == (nx, ny, nz)` for a rectangular nested list. -/
def IsShape (a : Arr3 α) (nx ny nz : Nat) : Prop :=
  a.length = nx ∧ ∀ p ∈ a, p.length = ny ∧ ∀ r ∈ p, r.length = nz

/-! ### cartesian_to_spherical: the discrete part -/

/-- `np.sign`. -/
def sgn (q : Rat) : Int := if q < 0 then -1 else if q = 0 then 0 else 1

/-- What `cartesian_to_spherical` does at one point, as far as it can be said
without `sqrt`/`arctan2`:
* `r2 = x²+y²+z²` (`r = sqrt r2`), `rho2 = x²+y²` (`theta = arctan2(sqrt rho2, z)`);
* `sgnY = np.sign(y)`: the sign of `phi = arctan2(y, x)` (0 ⇒ `phi` is 0 or the mask applies);
* `sgnZ = np.sign(z)`: on the z-axis `theta` is 0 (`z ≥ 0`) or `pi` (`z < 0`), in the plane
  `z = 0` off the axis it is `pi/2`;
* `masked`: `np.sign(y) == 0 and np.sign(x) < 0`, where the code overwrites `phi` by `-pi`;
* `onAxis`: `x = y = 0` (`arctan2(0, 0) = 0` ⇒ `phi = 0`); `origin`: `x = y = z = 0` (`theta = 0`). -/
structure SphPt where
  r2 : Rat
  rho2 : Rat
  sgnY : Int
  sgnZ : Int
  masked : Bool
  onAxis : Bool
  origin : Bool
deriving DecidableEq, Repr

def sphPt (x y z : Rat) : SphPt :=
  { r2 := x * x + y * y + z * z
    rho2 := x * x + y * y
    sgnY := sgn y
    sgnZ := sgn z
    masked := sgn y == 0 && decide (sgn x < 0)
    onAxis := decide (x * x + y * y = 0)
    origin := decide (x * x + y * y + z * z = 0) }

/-- the three components the code computes -/
inductive SphComp | r | theta | phi
deriving DecidableEq, Repr

def SphComp.name : SphComp → String
  | .r => "r" | .theta => "theta" | .phi => "phi"

/-- `return r, theta, phi` (line 488). -/
def cartToSphReturnOrder : List SphComp := [.r, .theta, .phi]
/-- `self.r, self.theta, self.phi = …` then
`self.spherical_coords = np.array([self.r, self.phi, self.theta])` (line 269):
the stored order is radius, AZIMUTH, inclination. -/
def sphericalCoordsOrder : List SphComp := [.r, .phi, .theta]
/-- `self.cartesian_coords = np.array([self.x, self.y, self.z])`. -/
def cartesianCoordsOrder : List String := ["x", "y", "z"]

/-! ### fd_order and mask_len -/

/-- the `if fd_order == 8 … elif 6 … elif 2 … else: self.fd_order = 4` chain. -/
def normOrder (o : Nat) : Nat := if o = 8 then 8 else if o = 6 then 6 else if o = 2 then 2 else 4

/-- `self.mask_len = int(self.fd_order / 2)`. -/
def maskLen (o : Nat) : Nat := normOrder o / 2

/-! ### the object -/

structure Param where
  Nx : Nat
  Ny : Nat
  Nz : Nat
  xmin : Rat
  ymin : Rat
  zmin : Rat
  dx : Rat
  dy : Rat
  dz : Rat

structure Grid where
  xarray : List Rat
  yarray : List Rat
  zarray : List Rat
  xmax : Rat
  ymax : Rat
  zmax : Rat
  Nx : Nat
  Ny : Nat
  Nz : Nat
  ixcenter : Nat
  iycenter : Nat
  izcenter : Nat
  x : Arr3 Rat
  y : Arr3 Rat
  z : Arr3 Rat
  /-- `cartesian_coords = [x, y, z]` -/
  cartesian : List (Arr3 Rat)
  /-- pointwise descriptor of `(r, theta, phi)` -/
  sph : Arr3 SphPt
  fdOrder : Nat
  maskLen : Nat

/-- `FiniteDifference.__init__`, in the order of the code.  `none` = the
constructor raises (`xarray[-1]` on an empty array). -/
def mkGrid (p : Param) (order : Nat) : Option Grid := do
  let xa := coords p.Nx p.xmin p.dx
  let ya := coords p.Ny p.ymin p.dy
  let za := coords p.Nz p.zmin p.dz
  let xmax ← last xa
  let ymax ← last ya
  let zmax ← last za
  let nx := xa.length
  let ny := ya.length
  let nz := za.length
  let ix ← argminAbs xa
  let iy ← argminAbs ya
  let iz ← argminAbs za
  let x := meshX xa ny nz
  let y := meshY nx ya nz
  let z := meshZ nx ny za
  pure { xarray := xa, yarray := ya, zarray := za, xmax := xmax, ymax := ymax, zmax := zmax,
         Nx := nx, Ny := ny, Nz := nz, ixcenter := ix, iycenter := iy, izcenter := iz,
         x := x, y := y, z := z, cartesian := [x, y, z],
         sph := pointwise3 sphPt x y z,
         fdOrder := normOrder order, maskLen := maskLen order }

/-- `AurelCore.data_shape = (param['Nx'], param['Ny'], param['Nz'])`
(core.py 111-113); also the shape of every `np.zeros(self.data_shape)`. -/
def dataShape (p : Param) : Nat × Nat × Nat := (p.Nx, p.Ny, p.Nz)

/-- `np.ones((fd.Nx, fd.Ny, fd.Nz))` of time.py:480. -/
def fdShape (g : Grid) : Nat × Nat × Nat := (g.Nx, g.Ny, g.Nz)

/-! ### cutoffmask / cutoffmask2 -/

/-- `cutoffmask(f)` for `len(f.shape) == 1, 2, 3` with `mask_len` of order `o`. -/
def cutoffmask1 (o : Nat) (f : List α) : List α := cutoff1 (maskLen o) f
def cutoffmask2d (o : Nat) (f : List (List α)) : List (List α) := cutoff2 (maskLen o) f
def cutoffmask3 (o : Nat) (f : Arr3 α) : Arr3 α := cutoff3 (maskLen o) f

/-- `cutoffmask2(f)`: the same slices with `2*mask_len`. -/
def cutoffmaskTwice1 (o : Nat) (f : List α) : List α := cutoff1 (2 * maskLen o) f
def cutoffmaskTwice2d (o : Nat) (f : List (List α)) : List (List α) := cutoff2 (2 * maskLen o) f
def cutoffmaskTwice3 (o : Nat) (f : Arr3 α) : Arr3 α := cutoff3 (2 * maskLen o) f

/-! ### numpy basic indexing of a 3-D array, as used by excision -/

/-- one item of an index tuple: `a:b`, an integer, or `None` (np.newaxis). -/
inductive Item
  | slice (a b : Int)
  | int (i : Int)
  | newaxis
deriving Repr

/-- Indices selected on the successive axes (sizes `dims`) by an index tuple:
slices and integers consume one axis each, `None` consumes none, axes left
over are taken whole.  `none` = IndexError (integer out of bounds or too many
indices). -/
def select : List Item → List Nat → Option (List (List Nat))
  | [], dims => some (dims.map List.range)
  | .newaxis :: rest, dims => select rest dims
  | .slice _ _ :: _, [] => none
  | .int _ :: _, [] => none
  | .slice a b :: rest, n :: dims => (select rest dims).map (pySlice (List.range n) a b :: ·)
  | .int i :: rest, n :: dims =>
    match pyIdx n i with
    | none => none
    | some j => (select rest dims).map ([j] :: ·)

/-- `f[items] = nan` on an array of `Option α` (`none` = NaN). -/
def assignNaN (f : Arr3 (Option α)) (sel : List (List Nat)) : Arr3 (Option α) :=
  match sel with
  | [si, sj, sk] =>
    f.zipIdx.map fun (p, i) => p.zipIdx.map fun (r, j) => r.zipIdx.map fun (v, k) =>
      if i ∈ si ∧ j ∈ sj ∧ k ∈ sk then none else v
  | _ => f

def optItem : Option Int → Item
  | some i => .int i
  | none => .newaxis

/-- One guarded assignment `f[items] = np.nan`; outer `none` = IndexError. -/
def nanAt (f : Arr3 (Option α)) (items : List Item) : Option (Arr3 (Option α)) :=
  (select items [(shape3 f).1, (shape3 f).2.1, (shape3 f).2.2]).map (assignNaN f)

/-- `a-w : a+w+1` around an integer centre (the code's `is-m-b : is+m+1+b`,
`w = m + b`). -/
def around (c : Int) (w : Nat) : Item := .slice (c - w) (c + w + 1)

/-- `excision(finput, isingularity)` with `isingularity = (isx, isy, isz)`, each
an integer or `None`; `b = 1`. -/
def excision (m : Nat) (f : Arr3 (Option α)) (isx isy isz : Option Int) :
    Option (Arr3 (Option α)) := do
  let w := m + 1
  let f ← match isx with
    | some cx => nanAt f [around cx w, optItem isy, optItem isz]
    | none => pure f
  let f ← match isy with
    | some cy => nanAt f [optItem isx, around cy w, optItem isz]
    | none => pure f
  let f ← match isz with
    | some cz => nanAt f [optItem isx, optItem isy, around cz w]
    | none => pure f
  pure f

/-- `excision2`: the `if/elif` chain on which of the three are not None. -/
def excision2 (m : Nat) (f : Arr3 (Option α)) (isx isy isz : Option Int) :
    Option (Arr3 (Option α)) :=
  let w := m + 1
  let w2 := 2 * m + 1
  match isx, isy, isz with
  | some cx, some cy, some cz => do
    let f ← nanAt f [around cx w, around cy w, around cz w]
    let f ← nanAt f [around cx w2, around cy w, around cz w]
    let f ← nanAt f [around cx w, around cy w2, around cz w]
    nanAt f [around cx w, around cy w, around cz w2]
  | some cx, some cy, none => do
    let f ← nanAt f [around cx w2, around cy w, .newaxis]
    nanAt f [around cx w, around cy w2, .newaxis]
  | some cx, none, some cz => do
    let f ← nanAt f [around cx w2, .newaxis, around cz w]
    nanAt f [around cx w, .newaxis, around cz w2]
  | none, some cy, some cz => do
    let f ← nanAt f [.newaxis, around cy w2, around cz w]
    nanAt f [.newaxis, around cy w, around cz w2]
  | some cx, none, none => nanAt f [around cx w2, .newaxis, .newaxis]
  | none, some cy, none => nanAt f [.newaxis, around cy w2, .newaxis]
  | none, none, some cz => nanAt f [.newaxis, .newaxis, around cz w2]
  | none, none, none => some f

/-- `isingularity='find'`: the centre indices of the grid. -/
def findSingularity (g : Grid) : Option Int × Option Int × Option Int :=
  (some g.ixcenter, some g.iycenter, some g.izcenter)

end AurelVerif.Grid
