/-
Model/Checkpoint.lean — hand-written, executable, Mathlib-free model of
`read_ET_checkpoints` (reading.py), the reader that `read_ET_data` calls for
every restart when `usecheckpoints=True`.

  checkpoint_files = glob(.../checkpoint.chkpt.it_*.h5)        any order
  per iteration    files whose name holds `it_<iit>.`; cmax of THIS iteration
                   (/repo bd9646b): one file -> 'in file', several -> max of
                   the `.file_<n>` numbers; per file: the keys with
                   it == iit, rl == rl, tl == 0; the chunk range; per variable
                   and chunk THE key (exactly one, else ValueError); ghost
                   trimming; `var_chunks.setdefault(v, {})[iorigin] = block`;
                   the time of the last key read in the FIRST file;
                   `fixij(join_chunks(var_chunks[v]))` for every v
  var              transform_vars_aurel_to_ET, then list(dict.fromkeys(var)) (a25772a)
  result           data['it'] = all requested iterations (sorted set), one
                   entry in 't' and in every variable column per iteration
                   THAT HAS FILES ("Could not find checkpoint file" otherwise)

A file is the list of its datasets whose names `parse_hdf5_key` accepts, in
h5py (alphabetical) order.  `none` = the code raises (ValueError, IndexError,
KeyError, TypeError, numpy shape mismatch).

THIS MODEL IS THE SPECIALISATION of the literal model Model/MultiThorn.lean (`readCheckpointsM`;
the code has ONE implementation) to the ordinary case "no requested name is answered by two
datasets of one (iteration, level, component)".  Proven in Lemmas/C11MultiThornEq.lean /
Props/C11e.lean: `literal_model_specialises` (the two models agree, raising or not, whenever no
candidate list has two members), `old_model_read_transfers` (`readCheckpoints .. = some T →
readCheckpointsM .. = some T`, no hypothesis), so every theorem of Props/C11c holds for the
literal model (`checkpoint_table_exact_literal`, `checkpoint_pipeline_exact_literal`).
Not modelled HERE: a requested variable name that exists in two thorns of the same file (e.g.
`ML_BSSN::H` and `ML_ADMCONSTRAINTS::H`).  The code then rewrites its variable list to `THORN::var`
names (one file per process, or no chunks) or raises (one file, several chunks);
this model returns `none` whenever a (variable, chunk) selects more than one dataset.  `f"it_{iit}." in path` is
modelled as equality with the iteration in the file name (the directory names
contain no `it_<n>.`).  The exception order is not modelled (any failure makes
the whole call fail, as in Python).
-/
import AurelVerif.Model.Chunks
import AurelVerif.Model.Restarts
namespace AurelVerif.Checkpoint
open AurelVerif.Chunks AurelVerif.Restarts

/-- one HDF5 dataset `THORN::var it= tl= [m=0] [rl=] [c=]` with its attributes -/
structure DSet (α : Type) where
  thorn : String
  var : String
  it : Nat
  tl : Nat
  rl : Option Nat
  c : Option Nat
  /-- `cctk_nghostzones` (x, y, z) -/
  ghost : Nat × Nat × Nat
  iorigin : Nat × Nat × Nat
  time : Nat
  data : Arr3 α

/-- `checkpoint.chkpt.it_<itName>[.file_<fileNo>].h5` -/
structure CFile (α : Type) where
  itName : Nat
  fileNo : Option Nat
  dsets : List (DSet α)

/-- a cell of the returned dictionary: an entry of `'t'` or of a variable column -/
inductive Cell (α : Type) where
  | t (x : Nat)
  | arr (a : Arr3 α)

/-- `parse_hdf5_key(k)['variable'] == v or parse_hdf5_key(k)['combined variable name'] == v` -/
def matchesVar {α : Type} (d : DSet α) (v : String) : Bool :=
  d.var == v || (d.thorn ++ "::" ++ d.var) == v

inductive CMax where
  | inFile
  | num (n : Nat)

/-- "find cmax for this iteration" (/repo bd9646b; it was taken from the first requested
iteration that has files); `fs` = the files of the iteration, not empty -/
def cmaxOf {α : Type} (fs : List (CFile α)) : Option CMax :=
  match fs with
  | [_] => some .inFile
  | fs => (mapOpt (fun f : CFile α => f.fileNo) fs).map fun ns => .num (ns.foldl max 0)   -- np.max; a missing number: TypeError

/-- `relevant_keys` -/
def relevant {α : Type} (f : CFile α) (iit rl : Nat) : List (DSet α) :=
  f.dsets.filter fun d => d.it == iit && d.rl == some rl && d.tl == 0

/-- `(nochunks, crange)` -/
def chunkRange {α : Type} (cmax : CMax) (f : CFile α) (rel : List (DSet α)) : Option (Bool × List (Option Nat)) :=
  match cmax with
  | .inFile =>
    match rel with
    | [] => none                                          -- relevant_keys[0]: IndexError
    | d0 :: _ =>
      if d0.c.isSome then                                 -- 'c=' in relevant_keys[0]
        (mapOpt (fun d : DSet α => d.c) rel).map fun cs => (false, (List.range (cs.foldl max 0 + 1)).map some)
      else some (true, [some 0])
  | .num _ => some (false, [f.fileNo])                    -- [parse_h5file(file)['chunk_number']]

/-- the key of variable `v` and chunk `c`: "should be only one key" -/
def selectKey {α : Type} (rel : List (DSet α)) (nochunks : Bool) (v : String) (c : Option Nat) : Option (DSet α) :=
  let varkeys := rel.filter fun d => matchesVar d v
  let key := if nochunks then varkeys else varkeys.filter fun d => d.c == c
  match key with
  | [d] => some d
  | _ => none

/-- the datasets read from one file, in the order `for v in var: for c in crange` -/
def readFile {α : Type} (cmax : CMax) (iit rl : Nat) (var : List String) (f : CFile α) :
    Option (List (String × DSet α)) :=
  let rel := relevant f iit rl
  match chunkRange cmax f rel with
  | none => none
  | some (nochunks, crange) =>
    mapOpt (fun vc => (selectKey rel nochunks vc.1 vc.2).map fun d => (vc.1, d))
      (var.flatMap fun v => crange.map fun c => (v, c))

/-- `var_array[ghost_z:-ghost_z, ghost_y:-ghost_y, ghost_x:-ghost_x]` -/
def trimmed {α : Type} (d : DSet α) : Arr3 α := trimGhost d.ghost.1 d.ghost.2.1 d.ghost.2.2 d.data

abbrev VarChunks (α : Type) := Dict String (Dict (Nat × Nat × Nat) (Arr3 α))

/-- `var_chunks.setdefault(v, {})[iorigin] = var_array` -/
def vcSet {α : Type} (vc : VarChunks α) (v : String) (o : Nat × Nat × Nat) (x : Arr3 α) : VarChunks α :=
  match vc.get? v with
  | none => Dict.set vc v [(o, x)]
  | some d => Dict.set vc v (Dict.set d o x)

/-- one iteration.  `some none`: no file ("Could not find checkpoint file");
`some (some (t, arrays))`: the time and `fixij(join_chunks(...))` of every entry of `var` -/
def readIt {α : Type} (cmax : CMax) (files : List (CFile α)) (iit rl : Nat) (var : List String) :
    Option (Option (Nat × List (Arr3 α))) :=
  match files.filter (fun f => f.itName == iit) with
  | [] => some none
  | f0 :: fs =>
    match mapOpt (readFile cmax iit rl var) (f0 :: fs) with
    | none => none
    | some sels =>
      match (sels.headD []).getLast? with
      | none => none                                      -- no key was read: `key` unbound
      | some last =>
        let vc : VarChunks α := sels.flatten.foldl (fun vc vd => vcSet vc vd.1 vd.2.iorigin (trimmed vd.2)) []
        match mapOpt (fun v => (vc.get? v).bind fun d => (joinChunks d).map fixij) var with
        | none => none
        | some arrs => some (some (last.2.time, arrs))

/-- `data.setdefault(key, []) += [x]` (for `'t'` the list exists from the start) -/
def colAppend {β : Type} (data : Dict String (List β)) (k : String) (x : β) : Dict String (List β) :=
  match data.get? k with
  | none => Dict.set data k [x]
  | some l => Dict.set data k (l ++ [x])

/-- the updates of `data` for one iteration that has files -/
def addIt {α : Type} (toAurel : String → String) (var : List String) (data : Dict String (List (Cell α)))
    (t : Nat) (arrs : List (Arr3 α)) : Dict String (List (Cell α)) :=
  (var.zip arrs).foldl (fun d va => colAppend d (toAurel va.1) (Cell.arr va.2)) (colAppend data "t" (Cell.t t))

/-- one iteration with the `cmax` found from its own files -/
def readItAuto {α : Type} (files : List (CFile α)) (iit rl : Nat) (var : List String) :
    Option (Option (Nat × List (Arr3 α))) :=
  match files.filter (fun f => f.itName == iit) with
  | [] => some none
  | f0 :: fs =>
    match cmaxOf (f0 :: fs) with
    | none => none
    | some cmax => readIt cmax files iit rl var

/-- the body of `for iit in it:` -/
def itStep {α : Type} (toAurel : String → String) (files : List (CFile α)) (rl : Nat)
    (var : List String) (data : Dict String (List (Cell α))) (iit : Nat) : Option (Dict String (List (Cell α))) :=
  match readItAuto files iit rl var with
  | none => none
  | some none => some data                                  -- "Could not find checkpoint file"
  | some (some ta) => some (addIt toAurel var data ta.1 ta.2)

/-- the body of `read_ET_checkpoints` after the variable list has been prepared -/
def readCheckpointsCore {α : Type} (toAurel : String → String) (files : List (CFile α)) (var : List String)
    (its : List Nat) (rl : Nat) : Option (Table (Cell α)) :=
  let it := sortedSet its
  (it.foldlM (itStep toAurel files rl var) [("t", [])]).map fun d => ⟨it, d⟩

/-- `read_ET_checkpoints(param, var, it=its, rl=rl, restart=r)`; `var` are the
Einstein Toolkit names (`transform_vars_aurel_to_ET` already applied), `toAurel`
is `transform_vars_ET_to_aurel`, `files` the checkpoint files of restart `r`.
`var = list(dict.fromkeys(var))` (/repo a25772a): a variable requested twice is
read once, the first occurrence is kept. -/
def readCheckpoints {α : Type} (toAurel : String → String) (files : List (CFile α)) (var : List String)
    (its : List Nat) (rl : Nat) : Option (Table (Cell α)) :=
  readCheckpointsCore toAurel files var.eraseDups its rl

end AurelVerif.Checkpoint
