/-
Model/Harm.lean — hand-written, executable, Mathlib-free model (over `Int`
and `Rat`) of the spin-weighted-harmonic code of aurel:

  maths.factorial, maths.sYlm                      (maths.py 199-237)
  key order of sYlm_coefficients / sYlm_reconstruct (maths.py 263-270, 291-295)
  numerical.interpolate, bounds check only          (numerical.py 85-96)
  Psi4_lm angular grids and weights                 (core.py 1486-1494, 1530)

`sYlm(s, el, m, theta, phi)` is

    sqrt(normRadicand s el m / π) · evalTerms (harmTerms s el m) c sn · e^{i m φ},
    c = cos(θ/2), sn = sin(θ/2)

The square root, π, cos, sin and exp are not executable over `Rat`; the model
returns the three exact ingredients separately: the radicand as a rational
(times 1/π), the polynomial in (c, sn) with integer coefficients as a list of
terms in the order of the code's loop over `r`, and the phase index `m`.
Angles of the grids are rationals times π.
-/
namespace AurelVerif.Harm

/-! ### factorial, binomial, sign -/

/-- `n!` -/
def fact : Nat → Nat
  | 0 => 1
  | n + 1 => (n + 1) * fact n

/-- `maths.factorial(n)`: `1` if `n <= 1` (negative `n` included), else
`sc.factorial(n)`. -/
def pyFactorial (n : Int) : Nat := if n ≤ 1 then 1 else fact n.toNat

/-- Pascal's triangle. -/
def choose : Nat → Nat → Nat
  | _, 0 => 1
  | 0, _ + 1 => 0
  | n + 1, k + 1 => choose n k + choose n (k + 1)

/-- `sc.binom(n, k)` on integer-valued arguments with `n ≥ 0`: the binomial
coefficient, `0` for `k < 0` and for `k > n`.  (`n < 0` never reaches
`sc.binom` in `sYlm`: theorem `sum_range_exact`; the model returns 0 there.) -/
def binomZ (n k : Int) : Int :=
  if n < 0 ∨ k < 0 then 0 else (choose n.toNat k.toNat : Nat)

/-- `(-1)**e` for a Python int `e` (for negative `e` Python returns ∓1.0). -/
def negOnePow (e : Int) : Int := if e % 2 = 0 then 1 else -1

/-! ### the closed-form sum -/

/-- `max(m - s, 0)` — first `r` of the loop. -/
def rLo (s m : Int) : Int := max (m - s) 0

/-- `min(el + m, el - s)` — last `r` of the loop (inclusive: the code's
`range(..., min(...) + 1)`). -/
def rHi (s l m : Int) : Int := min (l + m) (l - s)

/-- `range(a, b)` for Python ints. -/
def pyRange (a b : Int) : List Int :=
  (List.range (b - a).toNat).map fun (j : Nat) => a + (j : Int)

/-- `range(max(m - s, 0), min(el + m, el - s) + 1)` -/
def rRange (s l m : Int) : List Int := pyRange (rLo s m) (rHi s l m + 1)

/-- one summand without `e^{imφ}`: integer coefficient
`binom(el-s, r) * binom(el+s, r+s-m) * (-1)**(el-r-s)`, exponent of
`cos(θ/2)`, exponent of `sin(θ/2)`. -/
structure Term where
  coef : Int
  a : Int
  b : Int
deriving DecidableEq, Repr

def term (s l m r : Int) : Term :=
  { coef := binomZ (l - s) r * binomZ (l + s) (r + s - m) * negOnePow (l - r - s)
    a := 2 * r + s - m
    b := 2 * l - 2 * r - s + m }

/-- the summands in loop order -/
def harmTerms (s l m : Int) : List Term := (rRange s l m).map (term s l m)

/-- `x**e` for an integer exponent (numpy float semantics: negative exponent =
reciprocal power; never happens for `harmTerms`, theorem `sum_range_exact`). -/
def powZ (x : Rat) (e : Int) : Rat :=
  if 0 ≤ e then x ^ e.toNat else (1 / x) ^ (-e).toNat

/-- `sumY` at `φ = 0`: `sumY = 0; for r: sumY += coef * cos**a * sin**b`. -/
def evalTerms (ts : List Term) (c sn : Rat) : Rat :=
  ts.foldl (fun acc t => acc + (t.coef : Rat) * powZ c t.a * powZ sn t.b) 0

/-- Σ |summand| (for the float tolerance of the correspondence check only). -/
def absTerms (ts : List Term) (c sn : Rat) : Rat :=
  ts.foldl (fun acc t => acc + ((t.coef.natAbs : Nat) : Rat) * powZ c t.a * powZ sn t.b) 0

/-- the radicand of `fac` without the factor `1/π`:
`factorial(el+m) factorial(el-m) (2 el+1) / (factorial(el+s) factorial(el-s) 4)`. -/
def normRadicand (s l m : Int) : Rat :=
  ((pyFactorial (l + m) : Nat) : Rat) * ((pyFactorial (l - m) : Nat) : Rat) * ((2 * l + 1 : Int) : Rat)
    / (((pyFactorial (l + s) : Nat) : Rat) * ((pyFactorial (l - s) : Nat) : Rat) * 4)

/-- the exponent of `e^{iφ}` -/
def phaseIndex (m : Int) : Int := m

/-- polynomial part of `sYlm(s, el, m, θ, 0) / fac` at `c = cos(θ/2)`, `sn = sin(θ/2)` -/
def sYlmPoly (s l m : Int) (c sn : Rat) : Rat := evalTerms (harmTerms s l m) c sn

/-! ### coefficient dictionary -/

/-- key order of `alm`: `for el in range(lmax+1): for m in range(-el, el+1)` -/
def modes (lmax : Nat) : List (Int × Int) :=
  (pyRange 0 ((lmax : Int) + 1)).flatMap fun l => (pyRange (-l) (l + 1)).map fun m => (l, m)

/-! ### angular grids of `Psi4_lm` (angles are the listed rationals times π) -/

/-- `Ntheta = max(min(Nx, Ny, Nz), lmax + 1)` -/
def nTheta (nx ny nz lmax : Nat) : Nat := max (min nx (min ny nz)) (lmax + 1)

/-- `np.arange(0.5, N + 1.5, 1)`: the half-integers `j + 1/2`, `j = 0..N`. -/
def halfInts (N : Nat) : List Rat := (List.range (N + 1)).map fun (j : Nat) => (j : Rat) + 1 / 2

/-- `theta2_array / π = (j + 1/2) / (Ntheta + 1)` -/
def thetaNode (N j : Nat) : Rat := ((j : Rat) + 1 / 2) / ((N : Rat) + 1)
def thetaGrid (N : Nat) : List Rat := (List.range (N + 1)).map (thetaNode N)
/-- `np.diff(theta2_array)[0] / π` -/
def dTheta (N : Nat) : Rat := thetaNode N 1 - thetaNode N 0

/-- `Nphi = 2 * Ntheta` -/
def nPhi (N : Nat) : Nat := 2 * N
/-- `phi2_array / π = 2 (k + 1/2) / (Nphi + 1)` -/
def phiNode (Np k : Nat) : Rat := 2 * ((k : Rat) + 1 / 2) / ((Np : Rat) + 1)
def phiGrid (Np : Nat) : List Rat := (List.range (Np + 1)).map (phiNode Np)
/-- `np.diff(phi2_array)[0] / π` -/
def dPhi (Np : Nat) : Rat := phiNode Np 1 - phiNode Np 0

/-! ### `numerical.interpolate`: the bounds check -/

def listMin : List Rat → Option Rat
  | [] => none
  | x :: xs => some (xs.foldl (fun a y => if y < a then y else a) x)

def listMax : List Rat → Option Rat
  | [] => none
  | x :: xs => some (xs.foldl (fun a y => if a < y then y else a) x)

inductive Check
  | ok                      -- falls through to RegularGridInterpolator
  | outOfBounds (dim : Nat) -- ValueError("Target points in dimension {dim} are outside grid bounds…")
  | emptyAxis (dim : Nat)   -- ValueError of `.min()` on a zero-size array
  | lengthMismatch          -- ValueError of `zip(..., strict=True)`
deriving DecidableEq, Repr

/-- the `for i, (grid, target) in enumerate(zip(grid_points, target_points, strict=True))`
loop: the first axis whose target range leaves `[grid.min(), grid.max()]` raises. -/
def boundsLoop : Nat → List (List Rat) → List (List Rat) → Check
  | _, [], [] => .ok
  | i, g :: gs, t :: ts =>
    match listMin g, listMax g, listMin t, listMax t with
    | some gmin, some gmax, some tmin, some tmax =>
      if tmin < gmin ∨ gmax < tmax then .outOfBounds i else boundsLoop (i + 1) gs ts
    | _, _, _, _ => .emptyAxis i
  | _, _, _ => .lengthMismatch

def boundsCheck (grids targets : List (List Rat)) : Check := boundsLoop 0 grids targets

end AurelVerif.Harm
